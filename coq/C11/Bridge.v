(* C11 bridge: the functions regenerated from /repo on this run (C11/Gen.v, written by
   translator/naive_c11.py: NaiveForecaster.fit, NaiveForecaster._predict_last_window, the
   validators and ForecastingHorizon one-liners they use, the window / in-sample expressions of
   _BaseWindowForecaster, the design-matrix and time-axis expressions of PolynomialTrendForecaster)
   are, FOR ALL ARGUMENTS, the functions of the hand model (Model.v) the theorems are proved about.
   If the source changes so that one of them denotes another function, its lemma stops checking
   (broken tie); `gen_naive_predict` / `gen_poly_points` assemble what the code says now, and
   Props.v restates the key theorems about them. *)
From Coq Require Import ZArith QArith List Bool Lia ZifyBool.
Require Import SkV.Lib.Base SkV.Lib.ZRange SkV.C11.Model SkV.C11.Proofs SkV.C11.Gen.
Import ListNotations.
Open Scope Z_scope.

Ltac case_ifs :=
  repeat match goal with
         | |- context [if ?c then _ else _] =>
             match type of c with bool => destruct c eqn:?; cbv beta iota zeta end
         end.

(* ---- validators on integer arguments ------------------------------------------------------------ *)
Lemma bridge_check_sp x : gen_check_sp x = if x <? 1 then Err else Ok x.
Proof. unfold gen_check_sp. case_ifs; try reflexivity; lia. Qed.
Lemma bridge_check_window_length x : gen_check_window_length x = if x <? 1 then Err else Ok x.
Proof. unfold gen_check_window_length. case_ifs; try reflexivity; lia. Qed.

(* ---- ForecastingHorizon one-liners ---------------------------------------------------------------- *)
Lemma bridge_fh_indexer r : gen_fh_indexer r = r - 1.
Proof. unfold gen_fh_indexer. lia. Qed.
Lemma bridge_fh_abs c r : gen_fh_abs c r = c + r.
Proof. unfold gen_fh_abs. lia. Qed.
Lemma bridge_fh_rel c t : gen_fh_rel c t = t - c.
Proof. unfold gen_fh_rel. lia. Qed.
Lemma bridge_fh_abs_int s t : gen_fh_abs_int s t = t - s.
Proof. unfold gen_fh_abs_int. lia. Qed.
Lemma bridge_fh_roundtrip c r : gen_fh_rel c (gen_fh_abs c r) = r.
Proof. unfold gen_fh_rel, gen_fh_abs. lia. Qed.

Lemma map_indexer hs : map gen_fh_indexer hs = map (fun h => h - 1) hs.
Proof. apply map_ext. intro h. apply bridge_fh_indexer. Qed.

(* ---- NaiveForecaster.fit --------------------------------------------------------------------------- *)
Theorem bridge_resolve_wl s sp wlo n : gen_resolve_wl s sp wlo n = resolve_wl s sp wlo n.
Proof.
  unfold gen_resolve_wl, resolve_wl, wl_invalid, gen_check_sp, gen_check_window_length.
  rewrite ?Z.gtb_ltb.
  destruct s; destruct wlo as [w|]; cbv beta iota zeta; rewrite ?Z.gtb_ltb; case_ifs;
    try reflexivity; try (f_equal; lia); exfalso; lia.
Qed.

(* sp_ is check_sp(sp) = sp wherever fit sets it - which is wherever the kernel reads it (seasonal
   last, mean) - so the kernel's `self.sp_` is the constructor argument *)
Definition model_sp_ (s : strategy) (sp : Z) : option Z :=
  match s with
  | SLast => if sp =? 1 then None else Some sp
  | SMean => Some sp
  | SDrift => None
  end.
Theorem bridge_fit_sp s sp wlo n :
  gen_fit_sp s sp wlo n = match resolve_wl s sp wlo n with Ok _ => Ok (model_sp_ s sp) | Err => Err end.
Proof.
  unfold gen_fit_sp, resolve_wl, wl_invalid, model_sp_, gen_check_sp, gen_check_window_length.
  rewrite ?Z.gtb_ltb.
  destruct s; destruct wlo as [w|]; cbv beta iota zeta; rewrite ?Z.gtb_ltb; case_ifs;
    try reflexivity; try (f_equal; lia); exfalso; lia.
Qed.

(* ---- NaiveForecaster._predict_last_window ----------------------------------------------------------- *)
Lemma repeat_const {A} (x : A) (hs : list Z) : repeat x (Z.to_nat (zlen hs)) = map (fun _ => x) hs.
Proof.
  unfold zlen. rewrite Nat2Z.id. induction hs as [|h t IH]; [reflexivity|].
  cbn [length repeat map]. rewrite IH. reflexivity.
Qed.

(* `_predict_nan(fh)` = np.full(len(fh), np.nan) is inlined into gen_kernel wherever the code calls it
   (resolved through the base class), or written out by the code itself *)
Lemma full_nan_const hs : np_full_nan (zlen hs) = const_all None hs.
Proof. unfold np_full_nan, const_all. apply repeat_const. Qed.

(* Semantic proof: both sides are unfolded down to list / Z operations, every boolean test of
   either side is case-split, and the leaves are closed by computation or by `lia` on the recorded
   tests - so a differently nested but equivalent control structure (guard clauses, conditional
   expressions, helpers inlined, `sp - len > 0` for `len < sp`, ...) still proves. *)
Ltac split_bools :=
  repeat match goal with
         | |- context [if ?c then _ else _] =>
             match type of c with bool => destruct c eqn:?; cbv beta iota zeta end
         end.

(* a pad of provably zero width disappears (e.g. `if len(w) <= sp: pad` pads by 0 when equal) *)
Ltac zero_pads :=
  repeat match goal with
         | |- context [repeat ?x (Z.to_nat ?z)] =>
             replace z with 0 by lia; cbn [Z.to_nat repeat app]
         end.

(* widths that are equal by linear arithmetic (e.g. `max (sp - len) 0` where len < sp) are unified *)
Ltac unify_nats :=
  repeat match goal with
         | |- context [Z.to_nat ?a] =>
             match goal with
             | |- context [Z.to_nat ?b] => assert_fails (constr_eq a b); replace a with b by lia
             end
         end.
Ltac close_leaf :=
  first [reflexivity | exfalso; lia | zero_pads; reflexivity | unify_nats; reflexivity
        | zero_pads; unify_nats; reflexivity].

Theorem bridge_kernel s sp w hs : gen_kernel s sp w hs = kernel s sp w hs.
Proof.
  unfold gen_kernel, kernel, steps_vals, np_all_isnan, np_any_isnan, np_index,
    np_tile, np_ceil_div, np_repeat, np_last, np_first, np_hstack, np_full_nan, np_reshape_cols,
    np_nanmean_axis0, const_all, sq_add_arr, sq_scale_idx, sq_divz, sq_sub.
  cbv beta iota zeta. rewrite ?Z.gtb_ltb, ?Z.geb_leb, ?map_indexer, ?repeat_const.
  destruct (all_nan w) eqn:Hnan; destruct (zlen w =? 0) eqn:Hz; cbn [orb andb negb];
    destruct s; cbv beta iota zeta; try reflexivity.
  - (* last *) split_bools; close_leaf.
  - (* mean *) split_bools; cbn [fst snd]; close_leaf.
  - (* drift *)
    destruct (hd None w) as [a|]; destruct (last w None) as [b|];
      cbn [existsb is_nan orb andb negb]; split_bools; try reflexivity; try (exfalso; lia).
    all: f_equal; rewrite ?map_map; apply map_ext; intro h;
      replace (h - 1 + 1) with h by lia; reflexivity.
Qed.

(* ---- window selection and in-sample cutoffs of _BaseWindowForecaster ---------------------------------- *)
Lemma bridge_window_start c wl : gen_window_start c wl = c - wl + 1.
Proof. unfold gen_window_start. lia. Qed.
Lemma bridge_insample_cutoff r n : gen_insample_cutoff r n = n - 2 + r.
Proof. unfold gen_insample_cutoff. lia. Qed.
Lemma bridge_insample_step : gen_insample_step = 1.
Proof. unfold gen_insample_step. lia. Qed.

(* `self._y.loc[start:cutoff]` on the contiguous index: positions max 0 start .. c *)
Definition gen_window (ys : list oq) (c wl : Z) : list oq :=
  zslice ys (Z.max 0 (gen_window_start c wl)) (c + 1).
Lemma bridge_window ys c wl : gen_window ys c wl = window ys c wl.
Proof. unfold gen_window, window. rewrite bridge_window_start. reflexivity. Qed.

(* what the code says now, assembled along the dispatch of `_predict` (pinned by the translator):
   in-sample steps one by one from the moved cutoffs, out-of-sample steps in one call *)
Definition gen_naive_predict_wl (s : strategy) (sp wl : Z) (ys : list oq) (fh : list Z)
  : res (list oq) :=
  let n := zlen ys in
  let ins := filter (fun r => r <=? 0) fh in
  let oos := filter (fun r => 0 <? r) fh in
  rconcat (map (fun r => gen_kernel s sp (gen_window ys (gen_insample_cutoff r n) wl)
                                    [gen_insample_step]) ins
           ++ match oos with [] => [] | _ => [gen_kernel s sp (gen_window ys (n - 1) wl) oos] end).
Definition gen_naive_predict (s : strategy) (sp : Z) (wlo : option Z) (ys : list oq) (fh : list Z)
  : res (list oq) :=
  match gen_resolve_wl s sp wlo (zlen ys) with
  | Ok wl => gen_naive_predict_wl s sp wl ys fh
  | Err => Err
  end.

Theorem bridge_naive_predict_wl s sp wl ys fh :
  gen_naive_predict_wl s sp wl ys fh = naive_predict_wl s sp wl ys fh.
Proof.
  unfold gen_naive_predict_wl, naive_predict_wl. cbv zeta. f_equal. f_equal.
  - apply map_ext. intro r. rewrite bridge_kernel, bridge_window, bridge_insample_cutoff.
    reflexivity.
  - destruct (filter (fun r => 0 <? r) fh); [reflexivity|].
    rewrite bridge_kernel, bridge_window. reflexivity.
Qed.

Theorem bridge_naive_predict s sp wlo ys fh :
  gen_naive_predict s sp wlo ys fh = naive_predict s sp wlo ys fh.
Proof.
  unfold gen_naive_predict, naive_predict. rewrite bridge_resolve_wl.
  destruct (resolve_wl s sp wlo (zlen ys)); [apply bridge_naive_predict_wl|reflexivity].
Qed.

(* ---- PolynomialTrendForecaster ----------------------------------------------------------------------- *)
(* options handed to sklearn: LinearRegression(fit_intercept=False) on
   PolynomialFeatures(degree=degree, include_bias=with_intercept), i.e. powers 0..degree with the
   bias column, 1..degree without - the model's poly_k0 / poly_m *)
Lemma bridge_poly_fit_intercept : gen_poly_fit_intercept = false.
Proof. reflexivity. Qed.
Lemma bridge_poly_degree d : gen_poly_degree d = d.
Proof. unfold gen_poly_degree. lia. Qed.
Lemma bridge_poly_include_bias ic : gen_poly_include_bias ic = ic.
Proof. unfold gen_poly_include_bias. destruct ic; reflexivity. Qed.
Lemma bridge_poly_features d ic :
  poly_k0 ic = (if gen_poly_include_bias ic then O else 1%nat) /\
  poly_m d ic = (if gen_poly_include_bias ic then Z.to_nat (gen_poly_degree d + 1)
                 else Z.to_nat (gen_poly_degree d)).
Proof. rewrite bridge_poly_include_bias, bridge_poly_degree. split; reflexivity. Qed.

(* the time variable at fit: np.arange(lo, hi) with lo = 0, hi = last - first + 1 = n on the contiguous
   index first = t0, last = t0 + n - 1: exactly the abscissae of the model's `points` *)
Lemma bridge_poly_time_axis t0 n : gen_poly_time_axis t0 (t0 + n - 1) = zrange 0 n 1.
Proof. unfold gen_poly_time_axis, gen_poly_time_lo, gen_poly_time_hi. f_equal; lia. Qed.
Definition gen_poly_points (t0 : Z) (v : list Q) : list (Q * Q) :=
  combine (map inject_Z (gen_poly_time_axis t0 (t0 + zlen v - 1))) v.
Lemma bridge_poly_points t0 v : gen_poly_points t0 v = points v.
Proof. unfold gen_poly_points, points. rewrite bridge_poly_time_axis. reflexivity. Qed.

(* the time variable at predict: to_absolute_int(index[0], cutoff) = cutoff + r - t0; with the cutoff
   at the last training time it is the model's position n - 1 + r; the label is cutoff + r *)
Lemma bridge_poly_origin : gen_poly_origin_pos = 0.
Proof. unfold gen_poly_origin_pos. lia. Qed.
Lemma bridge_poly_pred_time t0 c r : gen_poly_pred_time t0 c r = c - t0 + r.
Proof. unfold gen_poly_pred_time, gen_fh_abs_int, gen_fh_abs. lia. Qed.
Lemma bridge_poly_pred_time_fit t0 n r : gen_poly_pred_time t0 (t0 + n - 1) r = n - 1 + r.
Proof. rewrite bridge_poly_pred_time. lia. Qed.
Lemma bridge_poly_index c r : gen_poly_index c r = c + r.
Proof. unfold gen_poly_index. apply bridge_fh_abs. Qed.

(* the polynomial forecaster as the code assembles it: fit on gen_poly_points, evaluate at
   gen_poly_pred_time *)
Definition gen_poly_predict (degree : Z) (intercept : bool) (t0 : Z) (ys : list oq) (fh : list Z)
  : res (list oq) :=
  match poly_fit degree intercept ys with
  | Ok b => Ok (map (fun r => Some (pval (poly_k0 intercept) b
                                         (inject_Z (gen_poly_pred_time t0 (t0 + zlen ys - 1) r)))) fh)
  | Err => Err
  end.
Theorem bridge_poly_predict d ic t0 ys fh : gen_poly_predict d ic t0 ys fh = poly_predict d ic ys fh.
Proof.
  unfold gen_poly_predict, poly_predict. destruct (poly_fit d ic ys); [|reflexivity].
  f_equal. apply map_ext. intro r. rewrite bridge_poly_pred_time_fit. reflexivity.
Qed.
