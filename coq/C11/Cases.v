(* C11 correspondence: cases carry the implementation's canonicalised outputs (floats as exact
   rationals, NaN as None, a raised ValueError as None for the whole output); `mism` lists the
   indices on which the model disagrees (values compared in Q, relative tolerance 1e-9). *)
From Coq Require Import ZArith QArith Qabs List Bool.
Require Import SkV.Lib.Base SkV.Lib.ZRange SkV.C11.Model.
Import ListNotations.
Open Scope Z_scope.

Definition tol : Q := (1 # 1000000000)%Q.
Definition qclose (a b : Q) : bool :=
  Qle_bool (Qabs (a - b)) (tol * (1 + Qabs a))%Q.
Definition oq_close (a b : oq) : bool :=
  match a, b with
  | None, None => true
  | Some x, Some y => qclose x y
  | _, _ => false
  end.
Definition oqs_close (a b : list oq) : bool :=
  (length a =? length b)%nat && forallb (fun p => oq_close (fst p) (snd p)) (combine a b).

Definition agree (m : res (list oq)) (o : option (list oq)) : bool :=
  match m, o with
  | Err, None => true
  | Ok a, Some b => oqs_close a b
  | _, _ => false
  end.

Inductive case :=
  | CNaive (s : strategy) (sp : Z) (wlo : option Z) (ys : list oq) (fh : list Z)
           (o : option (list oq))
  | CPoly (degree : Z) (ic : bool) (ys : list oq) (fh : list Z) (o : option (list oq))
  (* dense = direct statsmodels forecast for positions n-1+fh[0] .. n-1+fh[-1] *)
  | CAdapter (n : Z) (dense : list oq) (fh : list Z) (o : option (list oq))
  (* fit on n0 observations, update(update_params=False) with k more; dense = forecast of the model
     fitted on the first n0 observations for positions n0+k-1+fh[0] .. n0+k-1+fh[-1] *)
  | CAdapterUpd (n0 k : Z) (dense : list oq) (fh : list Z) (o : option (list oq)).

Definition check (c : case) : bool :=
  match c with
  | CNaive s sp wlo ys fh o => agree (naive_predict s sp wlo ys fh) o
  | CPoly d ic ys fh o => agree (poly_predict d ic ys fh) o
  | CAdapter n dense fh o => agree (adapter_predict n dense fh) o
  | CAdapterUpd n0 k dense fh o => agree (adapter_predict_at n0 k dense fh) o
  end.

Fixpoint mism (cs : list (Z * case)) : list Z :=
  match cs with
  | [] => []
  | (i, c) :: t => if check c then mism t else i :: mism t
  end.
