(* C11 model: the elementary forecasters over integer positions (time = start + position).
   Executable definitions only.  The naive kernel mirrors naive.py `_predict_last_window`
   (NaN padding at the front, row-major reshape, column nanmean, tiling, `to_indexer` = step - 1;
   everything sized by the window actually available),
   the window selection mirrors `_get_last_window` / `_predict_in_sample` (moving cutoff, window
   cut at the start of the series), `resolve_wl` mirrors `NaiveForecaster.fit`.
   None of type `oq` stands for NaN; `Err` for a raised ValueError/IndexError. *)
From Coq Require Import ZArith QArith Qabs List Bool.
Require Import SkV.Lib.Base SkV.Lib.ZRange.
Import ListNotations.
Open Scope Z_scope.

Definition oq := option Q.
Inductive strategy := SLast | SMean | SDrift.

Definition zlen {A} (l : list A) : Z := Z.of_nat (length l).
(* l[i] for 0 <= i < len l (no negative-index wrap: callers only pass i >= 0) *)
Definition zget {A} (l : list A) (i : Z) : option A :=
  if i <? 0 then None else nth_error l (Z.to_nat i).
(* NaN-defaulting read, for arrays of floats *)
Definition znth (l : list oq) (i : Z) : oq :=
  match zget l i with Some x => x | None => None end.
(* l[a:b] for 0 <= a *)
Definition zslice {A} (l : list A) (a b : Z) : list A :=
  firstn (Z.to_nat (b - a)) (skipn (Z.to_nat a) l).

Definition somes (l : list oq) : list Q :=
  flat_map (fun x => match x with Some q => [q] | None => [] end) l.
Definition qsum (l : list Q) : Q := fold_right Qplus 0%Q l.
(* np.nanmean: NaN for an empty / all-NaN slice *)
Definition nanmean (l : list oq) : oq :=
  match somes l with
  | [] => None
  | v => Some (qsum v / inject_Z (zlen v))%Q
  end.
Definition is_nan (x : oq) : bool := match x with None => true | Some _ => false end.
Definition all_nan (l : list oq) : bool := forallb is_nan l.

Fixpoint tile {A} (reps : nat) (l : list A) : list A :=
  match reps with O => [] | S r => l ++ tile r l end.
Definition ceil_div (a b : Z) : Z := (a + b - 1) / b.

(* row-major reshape into rows of `sp` entries, and one column of it *)
Fixpoint chunks {A} (rows : nat) (sp : nat) (l : list A) : list (list A) :=
  match rows with O => [] | S r => firstn sp l :: chunks r sp (skipn sp l) end.
Definition zcol (j : Z) (table : list (list oq)) : list oq := map (fun row => znth row j) table.

Fixpoint index_all (l : list oq) (idx : list Z) : res (list oq) :=
  match idx with
  | [] => Ok []
  | i :: t => match zget l i with Some x => rcons x (index_all l t) | None => Err end
  end.

(* ---- numpy / float primitives of the code REGENERATED from naive.py (build/coq/C11/Gen.v, written
   by translator/naive_c11.py on every run; Bridge.v proves the generated functions equal to the
   model below).  Arrays are `list oq`, NaN = None. *)
Definition np_full_nan (k : Z) : list oq := repeat (None : oq) (Z.to_nat k).        (* np.full(k, np.nan) *)
Definition np_hstack (a b : list oq) : list oq := a ++ b.
Definition np_tile (a : list oq) (reps : Z) : list oq := tile (Z.to_nat reps) a.
Definition np_repeat (x : oq) (k : Z) : list oq := repeat x (Z.to_nat k).
Definition np_last (a : list oq) : oq := last a None.                        (* a[-1], a non-empty *)
Definition np_first (a : list oq) : oq := hd None a.                         (* a[0],  a non-empty *)
Definition np_all_isnan (a : list oq) : bool := all_nan a.                   (* np.all(np.isnan(a)) *)
Definition np_any_isnan (a : list oq) : bool := existsb is_nan a.            (* np.any(np.isnan(a)) *)
Definition np_ceil_div (a b : Z) : Z := ceil_div a b.                  (* int(np.ceil(a / b)), b > 0 *)
Definition np_index (a : list oq) (idx : list Z) : res (list oq) := index_all a idx.   (* a[idx] *)
(* a.reshape(-1, c): rows of c entries, ValueError unless len(a) is a multiple of c; the column
   count is kept with the table *)
Definition np_reshape_cols (a : list oq) (c : Z) : res (Z * list (list oq)) :=
  let rows := zlen a / c in
  if zlen a =? rows * c then Ok (c, chunks (Z.to_nat rows) (Z.to_nat c) a) else Err.
Definition np_nanmean_axis0 (t : Z * list (list oq)) : list oq :=
  map (fun j => nanmean (zcol j (snd t))) (zrange 0 (fst t) 1).
(* float arithmetic with NaN propagation *)
Definition sq_sub (a b : oq) : oq :=
  match a, b with Some x, Some y => Some (x - y)%Q | _, _ => None end.
Definition sq_divz (a : oq) (k : Z) : oq :=
  match a with Some x => Some (x / inject_Z k)%Q | None => None end.
Definition sq_scale_idx (idx : list Z) (s : oq) : list oq :=
  map (fun i => match s with Some x => Some (inject_Z i * x)%Q | None => None end) idx.
Definition sq_add_arr (b : oq) (a : list oq) : list oq :=
  map (fun v => match b, v with Some x, Some y => Some (x + y)%Q | _, _ => None end) a.

(* `if fh[-1] > sp: tile(ceil(fh[-1] / sp))`, then `[fh.to_indexer(cutoff)]` *)
Definition steps_vals (vals : list oq) (sp : Z) (hs : list Z) : res (list oq) :=
  let fhmax := zlast hs in
  let tiled := if sp <? fhmax then tile (Z.to_nat (ceil_div fhmax sp)) vals else vals in
  index_all tiled (map (fun h => h - 1) hs).

Definition const_all (x : oq) (hs : list Z) : list oq := map (fun _ => x) hs.

(* _predict_last_window on the window `w` it actually gets: for in-sample forecasts whose moving
   cutoff is near the start of the series `w` is shorter than the resolved window length, and
   since the fixes 73893fc / ea15ad0 / fe97d94 the code uses len(w) everywhere (window_length_
   no longer appears in it).  Steps hs >= 1. *)
Definition kernel (s : strategy) (sp : Z) (w : list oq) (hs : list Z) : res (list oq) :=
  if (zlen w =? 0) || all_nan w then Ok (const_all None hs)
  else match s with
  | SLast =>
      if sp =? 1 then Ok (const_all (last w None) hs)
      else
        (* fewer than sp observations: NaN padding at the front *)
        let padded := if zlen w <? sp then repeat (None : oq) (Z.to_nat (sp - zlen w)) ++ w
                      else w in
        steps_vals padded sp hs
  | SMean =>
      if sp =? 1 then Ok (const_all (nanmean w) hs)
      else
        let rem := zlen w mod sp in
        let pad := if 0 <? rem then sp - rem else 0 in
        let padded := repeat (None : oq) (Z.to_nat pad) ++ w in
        (* reshape(-1, sp) *)
        let rows := zlen padded / sp in
        if zlen padded =? rows * sp then
          let table := chunks (Z.to_nat rows) (Z.to_nat sp) padded in
          let ypred := map (fun j => nanmean (zcol j table)) (zrange 0 sp 1) in
          steps_vals ypred sp hs
        else Err
  | SDrift =>
      if zlen w <? 2 then Ok (const_all None hs)
      else match hd None w, last w None with
           | Some a, Some b =>
               Ok (map (fun h => Some (b + inject_Z h * ((b - a) / inject_Z (zlen w - 1)))%Q) hs)
           | _, _ => Err
           end
  end.

(* NaiveForecaster.fit: parameter validation (check_sp / check_window_length, only where fit calls
   them: "last" ignores window_length, "drift" ignores sp), window length per strategy, and the
   rejected configurations - an explicit or default window shorter than one season for the
   seasonal mean (ae04e61 for the default), a window / training series of a single point for
   drift (9814f9c for the default), a window longer than the training series *)
Definition wl_invalid (wlo : option Z) : bool :=
  match wlo with Some w => w <? 1 | None => false end.
Definition resolve_wl (s : strategy) (sp : Z) (wlo : option Z) (n : Z) : res Z :=
  let given := match wlo with Some w => w | None => n end in
  let r := match s with
    | SLast => if sp =? 1 then Ok 1 else if sp <? 1 then Err else Ok sp
    | SMean => if wl_invalid wlo || (sp <? 1) then Err
               else if negb (sp =? 1) && (given <? sp) then Err else Ok given
    | SDrift => if wl_invalid wlo then Err
                else if given =? 1 then Err else Ok given
    end in
  match r with Ok w => if n <? w then Err else Ok w | Err => Err end.

(* the observations at positions max(0, c - wl + 1) .. c  (c = cutoff position, c >= -1) *)
Definition window (ys : list oq) (c wl : Z) : list oq := zslice ys (Z.max 0 (c - wl + 1)) (c + 1).

(* one relative step r: out-of-sample steps are served from the window ending at the last
   observation; the in-sample step r <= 0 (target position n-1+r) is the one-step-ahead forecast
   from the moved cutoff n-2+r *)
Fixpoint rconcat {A} (l : list (res (list A))) : res (list A) :=
  match l with
  | [] => Ok []
  | Ok x :: t => rapp x (rconcat t)
  | Err :: _ => Err
  end.

Definition naive_predict_wl (s : strategy) (sp wl : Z) (ys : list oq) (fh : list Z) : res (list oq) :=
  let n := zlen ys in
  let ins := filter (fun r => r <=? 0) fh in
  let oos := filter (fun r => 0 <? r) fh in
  rconcat (map (fun r => kernel s sp (window ys (n - 2 + r) wl) [1]) ins
           ++ match oos with [] => [] | _ => [kernel s sp (window ys (n - 1) wl) oos] end).

Definition naive_predict (s : strategy) (sp : Z) (wlo : option Z) (ys : list oq) (fh : list Z)
  : res (list oq) :=
  match resolve_wl s sp wlo (zlen ys) with
  | Ok wl => naive_predict_wl s sp wl ys fh
  | Err => Err
  end.

(* ---- PolynomialTrendForecaster ---------------------------------------------------------------
   trend.py: features t^k0 .. t^(k0+m-1) of the zero-based time t = 0..n-1 (k0 = 0 with the
   intercept column, 1 without), ordinary least squares without a separate intercept, evaluated
   at position n-1+r.  The fit solves the normal equations by elimination in Q and then CHECKS
   them (normal_ok), so whatever it returns provably satisfies them. *)
Fixpoint qpw (t : Q) (e : nat) : Q := match e with O => 1%Q | S k => (t * qpw t k)%Q end.
Definition peval (b : list Q) (t : Q) : Q := fold_right (fun c acc => (c + t * acc)%Q) 0%Q b.
Definition pval (k0 : nat) (b : list Q) (t : Q) : Q := (qpw t k0 * peval b t)%Q.
Definition sumf {A} (f : A -> Q) (l : list A) : Q := fold_right (fun x acc => (f x + acc)%Q) 0%Q l.
Definition resid (k0 : nat) (b : list Q) (p : Q * Q) : Q := (snd p - pval k0 b (fst p))%Q.
Definition sse (k0 : nat) (b : list Q) (pts : list (Q * Q)) : Q :=
  sumf (fun p => resid k0 b p * resid k0 b p)%Q pts.
Definition normal_ok (k0 : nat) (b : list Q) (pts : list (Q * Q)) : bool :=
  forallb (fun j => Qeq_bool (sumf (fun p => qpw (fst p) (k0 + j) * resid k0 b p)%Q pts) 0)
          (seq 0 (length b)).

Fixpoint pick_pivot (pre rows : list (list Q)) : option (list Q * list (list Q)) :=
  match rows with
  | [] => None
  | r :: t => match r with
              | a :: _ => if Qeq_bool a 0 then pick_pivot (r :: pre) t else Some (r, rev pre ++ t)
              | [] => None
              end
  end.
Fixpoint map2 (f : Q -> Q -> Q) (a b : list Q) : list Q :=
  match a, b with x :: a', y :: b' => f x y :: map2 f a' b' | _, _ => [] end.
Definition dot (a b : list Q) : Q := fold_right Qplus 0%Q (map2 Qmult a b).
Fixpoint elim (fuel : nat) (rows : list (list Q)) : option (list Q) :=
  match fuel with
  | O => Some []
  | S f =>
    match pick_pivot [] rows with
    | Some (a :: pt, others) =>
        let pn := map (fun x => Qred (x / a)) pt in
        let others' := map (fun r => match r with
                                     | b :: rt => map2 (fun x y => Qred (x - b * y)) rt pn
                                     | [] => [] end) others in
        match elim f others' with
        | Some sol => Some (Qred (last pn 0%Q - dot (removelast pn) sol) :: sol)
        | None => None
        end
    | _ => None
    end
  end.

Definition points (ys : list Q) : list (Q * Q) :=
  combine (map inject_Z (zrange 0 (zlen ys) 1)) ys.
Definition normal_rows (k0 m : nat) (pts : list (Q * Q)) : list (list Q) :=
  map (fun j => map (fun k => Qred (sumf (fun p => qpw (fst p) (k0 + j) * qpw (fst p) (k0 + k))%Q pts))
                    (seq 0 m)
                ++ [Qred (sumf (fun p => qpw (fst p) (k0 + j) * snd p)%Q pts)])
      (seq 0 m).

Fixpoint all_some (l : list oq) : option (list Q) :=
  match l with
  | [] => Some []
  | Some q :: t => match all_some t with Some r => Some (q :: r) | None => None end
  | None :: _ => None
  end.

Definition poly_k0 (intercept : bool) : nat := if intercept then O else 1%nat.
Definition poly_m (degree : Z) (intercept : bool) : nat :=
  if intercept then Z.to_nat (degree + 1) else Z.to_nat degree.

Definition poly_fit (degree : Z) (intercept : bool) (ys : list oq) : res (list Q) :=
  match all_some ys with
  | None => Err                                   (* sklearn rejects NaN *)
  | Some v =>
    let k0 := poly_k0 intercept in let m := poly_m degree intercept in
    if (m =? 0)%nat then Err                     (* PolynomialFeatures(0, include_bias=False) *)
    else match elim m (normal_rows k0 m (points v)) with
         | Some b => if normal_ok k0 b (points v) && (length b =? m)%nat then Ok b else Err
         | None => Err
         end
  end.

Definition poly_predict (degree : Z) (intercept : bool) (ys : list oq) (fh : list Z) : res (list oq) :=
  match poly_fit degree intercept ys with
  | Ok b => Ok (map (fun r => Some (pval (poly_k0 intercept) b (inject_Z (zlen ys - 1 + r)))) fh)
  | Err => Err
  end.

(* ---- statsmodels adapters ---------------------------------------------------------------------
   _StatsModelsAdapter._predict: `dense` = wrapped_model.predict(start, end) for the zero-based
   positions start = n-1+fh[0] .. end = n-1+fh[-1]; the adapter returns the requested labels. *)
Definition adapter_predict (n : Z) (dense : list oq) (fh : list Z) : res (list oq) :=
  let start := n - 1 + zfirst fh in
  index_all dense (map (fun r => n - 1 + r - start) fh).

(* After fit(y1) (n0 observations) and update(y2, update_params=False) (k further observations, the
   wrapped model is NOT refitted) the cutoff is the position n0+k-1 counted from the start of y1, while
   the wrapped results still end at n0-1.  `dense` = wrapped_results.predict(start, end) for the
   positions cutoff+fh[0] .. cutoff+fh[-1] counted from the start of y1 (statsmodels' own positions);
   the adapter returns the entries labelled cutoff+r.  k = 0 is the plain fit/predict case. *)
Definition adapter_predict_at (n0 k : Z) (dense : list oq) (fh : list Z) : res (list oq) :=
  let cutoff := n0 + k - 1 in
  let start := cutoff + zfirst fh in
  index_all dense (map (fun r => cutoff + r - start) fh).
