(* C11, statsmodels adapters: the option-forwarding tables regenerated from the source on this run
   (C11/GenOpts.v, translator/adapters_c11.py) are the pinned ones (OptsModel.v), and - proved on the
   GENERATED tables themselves, by computation over the finite tables - every constructor option
   of the sktime class reaches the wrapped statsmodels constructor / fit call under the matching
   keyword, in the user-specified branch and in the automatic search. *)
From Coq Require Import List String Bool.
Require Import SkV.C11.OptsModel SkV.C11.GenOpts.
Import ListNotations.
Open Scope string_scope.

(* ---- the regenerated tables are the model's ----------------------------------------------------------- *)
Lemma bridge_ets_params : gen_ets_params = ets_params /\ gen_ets_not_stored = [].
Proof. split; reflexivity. Qed.
Lemma bridge_ets_ctor_fixed : gen_ets_ctor_fixed = ets_ctor_fixed.
Proof. reflexivity. Qed.
Lemma bridge_ets_fit_fixed : gen_ets_fit_fixed = ets_fit.
Proof. reflexivity. Qed.
Lemma bridge_ets_ctor_auto : gen_ets_ctor_auto = ets_ctor_auto.
Proof. reflexivity. Qed.
Lemma bridge_ets_fit_auto : gen_ets_fit_auto = ets_fit.
Proof. reflexivity. Qed.
Lemma bridge_es_params : gen_es_params = es_params /\ gen_es_not_stored = [].
Proof. split; reflexivity. Qed.
Lemma bridge_es_ctor : gen_es_ctor = es_ctor /\ gen_es_fit = [].
Proof. split; reflexivity. Qed.
Lemma bridge_theta : gen_theta_params = theta_params /\ gen_theta_super = theta_super.
Proof. split; reflexivity. Qed.

(* ---- what the code says now: every option is forwarded under the matching keyword ------------------------ *)
Theorem code_ets_fixed_forwards_every_option :
  forwarding_complete gen_ets_params ets_control gen_ets_ctor_fixed gen_ets_fit_fixed = true /\
  only_options gen_ets_params (gen_ets_ctor_fixed ++ gen_ets_fit_fixed)%list = true.
Proof. split; vm_compute; reflexivity. Qed.

Theorem code_ets_auto_forwards_every_option :
  same_but_searched gen_ets_ctor_fixed gen_ets_ctor_auto = true /\
  gen_ets_fit_auto = gen_ets_fit_fixed.
Proof. split; vm_compute; reflexivity. Qed.

Theorem code_es_forwards_every_option :
  forwarding_complete gen_es_params [] gen_es_ctor gen_es_fit = true /\
  only_options gen_es_params (gen_es_ctor ++ gen_es_fit)%list = true.
Proof. split; vm_compute; reflexivity. Qed.

(* the statements are not vacuous: a table that drops one option (the seeded change C11-d drops
   `error` in the user-specified branch) is rejected *)
Lemma dropped_option_is_rejected :
  forwarding_complete ets_params ets_control
    (filter (fun r => negb (String.eqb (fst r) "error")) ets_ctor_fixed) ets_fit = false.
Proof. vm_compute. reflexivity. Qed.
