(* C11, statsmodels adapters: the model of OPTION FORWARDING.  A table lists, for one call of the
   wrapped statsmodels constructor (or of its `.fit`), the pairs (statsmodels keyword, source of the
   value): "self.<o>" = the constructor option <o> of the sktime class, "candidate:<range>" = the
   component the automatic search draws from that range, "arg:<o>" = an __init__ argument.
   The tables regenerated from ets.py / exp_smoothing.py / theta.py on every run (C11/GenOpts.v)
   are compared with the ones below in OptsBridge.v, where the completeness statements are also
   proved on the GENERATED tables. *)
From Coq Require Import List String Bool.
Import ListNotations.
Open Scope string_scope.

Definition table := list (string * string).

Definition mem (x : string) (l : list string) : bool := existsb (String.eqb x) l.
Definition has (kw src : string) (t : table) : bool :=
  existsb (fun r => String.eqb (fst r) kw && String.eqb (snd r) src) t.
Fixpoint nodupb (l : list string) : bool :=
  match l with [] => true | x :: t => negb (mem x t) && nodupb t end.

(* the statsmodels keyword under which the sktime option <o> must arrive *)
Definition sm_keyword (o : string) : string :=
  if String.eqb o "sp" then "seasonal_periods" else o.

(* every constructor option that is not a control option of the sktime class itself reaches the
   constructor or the fit call of the wrapped model, under its statsmodels keyword, with the value
   stored by __init__ *)
Definition forwarded (o : string) (t : table) : bool := has (sm_keyword o) ("self." ++ o) t.
Definition forwarding_complete (params control : list string) (ctor fit : table) : bool :=
  forallb (fun o => mem o control || forwarded o (ctor ++ fit)%list) params.
(* ... and nothing else is passed: every value of the tables is a constructor option under its own
   keyword, no keyword twice *)
Definition only_options (params : list string) (t : table) : bool :=
  forallb (fun r => existsb (fun o => String.eqb (fst r) (sm_keyword o) && String.eqb (snd r) ("self." ++ o))
                            params) t
  && nodupb (map fst t).

(* the automatic search: the searched components come from the candidate ranges, all other options
   are forwarded exactly as for the user-specified model *)
Definition searched : list (string * string) :=
  [("error", "candidate:error_range"); ("trend", "candidate:trend_range");
   ("damped_trend", "candidate:damped_range"); ("seasonal", "candidate:seasonal_range")].
Definition same_but_searched (fixed auto : table) : bool :=
  forallb (fun r => if mem (fst r) (map fst searched)
                    then has (fst r) (match find (fun s => String.eqb (fst s) (fst r)) searched with
                                      | Some s => snd s | None => "" end) auto
                    else has (fst r) (snd r) auto) fixed
  && Nat.eqb (List.length fixed) (List.length auto) && nodupb (map fst auto).

(* ---- AutoETS ------------------------------------------------------------------------------------------ *)
Definition ets_params : list string :=
  ["error"; "trend"; "damped_trend"; "seasonal"; "sp"; "initialization_method"; "initial_level";
   "initial_trend"; "initial_seasonal"; "bounds"; "dates"; "freq"; "missing"; "start_params";
   "maxiter"; "full_output"; "disp"; "callback"; "return_params"; "auto"; "information_criterion";
   "allow_multiplicative_trend"; "restrict"; "additive_only"; "n_jobs"].
(* options of the model search, not of the statsmodels model *)
Definition ets_control : list string :=
  ["auto"; "information_criterion"; "allow_multiplicative_trend"; "restrict"; "additive_only"; "n_jobs"].
Definition ets_ctor_fixed : table :=
  [("bounds", "self.bounds"); ("damped_trend", "self.damped_trend"); ("dates", "self.dates");
   ("error", "self.error"); ("freq", "self.freq"); ("initial_level", "self.initial_level");
   ("initial_seasonal", "self.initial_seasonal"); ("initial_trend", "self.initial_trend");
   ("initialization_method", "self.initialization_method"); ("missing", "self.missing");
   ("seasonal", "self.seasonal"); ("seasonal_periods", "self.sp"); ("trend", "self.trend")].
Definition ets_fit : table :=
  [("callback", "self.callback"); ("disp", "self.disp"); ("full_output", "self.full_output");
   ("maxiter", "self.maxiter"); ("return_params", "self.return_params");
   ("start_params", "self.start_params")].
Definition ets_ctor_auto : table :=
  [("bounds", "self.bounds"); ("damped_trend", "candidate:damped_range"); ("dates", "self.dates");
   ("error", "candidate:error_range"); ("freq", "self.freq"); ("initial_level", "self.initial_level");
   ("initial_seasonal", "self.initial_seasonal"); ("initial_trend", "self.initial_trend");
   ("initialization_method", "self.initialization_method"); ("missing", "self.missing");
   ("seasonal", "candidate:seasonal_range"); ("seasonal_periods", "self.sp");
   ("trend", "candidate:trend_range")].

(* ---- ExponentialSmoothing (and ThetaForecaster, which inherits its _fit_forecaster) ---------------------- *)
Definition es_params : list string :=
  ["trend"; "damped_trend"; "seasonal"; "sp"; "initial_level"; "initial_trend"; "initial_seasonal";
   "use_boxcox"; "initialization_method"].
Definition es_ctor : table :=
  [("damped_trend", "self.damped_trend"); ("initial_level", "self.initial_level");
   ("initial_seasonal", "self.initial_seasonal"); ("initial_trend", "self.initial_trend");
   ("initialization_method", "self.initialization_method"); ("seasonal", "self.seasonal");
   ("seasonal_periods", "self.sp"); ("trend", "self.trend"); ("use_boxcox", "self.use_boxcox")].
Definition theta_params : list string := ["initial_level"; "deseasonalize"; "sp"].
(* ThetaForecaster hands its own initial_level and sp to ExponentialSmoothing.__init__ under the
   same names; deseasonalize is its own option *)
Definition theta_super : table := [("initial_level", "arg:initial_level"); ("sp", "arg:sp")].
