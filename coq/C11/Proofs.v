(* C11 proofs: the implementation-shaped model (Model.v) equals the textbook definitions, for all
   series, window lengths, seasonal periods and horizons. *)
From Coq Require Import ZArith QArith Qabs List Bool Lia ZifyBool Lqa.
Require Import SkV.Lib.Base SkV.Lib.ZRange SkV.C11.Model.
Import ListNotations.
Open Scope Z_scope.
Ltac Zify.zify_post_hook ::= Z.to_euclidean_division_equations.

(* ---- list access ------------------------------------------------------------------------------ *)

Lemma zlen_nonneg {A} (l : list A) : 0 <= zlen l.
Proof. unfold zlen. lia. Qed.
Lemma zlen_cons {A} (x : A) l : zlen (x :: l) = 1 + zlen l.
Proof. unfold zlen. cbn [length]. lia. Qed.
Lemma zlen_app {A} (a b : list A) : zlen (a ++ b) = zlen a + zlen b.
Proof. unfold zlen. rewrite app_length. lia. Qed.
Lemma zlen_nil {A} : zlen (@nil A) = 0.
Proof. reflexivity. Qed.
Lemma zlen_zero_nil {A} (l : list A) : zlen l = 0 -> l = [].
Proof. destruct l; [reflexivity|]. rewrite zlen_cons. pose proof (zlen_nonneg l). lia. Qed.
Lemma zlen_map {A B} (f : A -> B) l : zlen (map f l) = zlen l.
Proof. unfold zlen. rewrite map_length. reflexivity. Qed.

Lemma zget_cons {A} (x : A) l i : zget (x :: l) i = if i =? 0 then Some x else zget l (i - 1).
Proof.
  unfold zget. destruct (i <? 0) eqn:E1.
  - destruct (i =? 0) eqn:E2; [lia|]. destruct (i - 1 <? 0) eqn:E3; [reflexivity|lia].
  - destruct (i =? 0) eqn:E2.
    + assert (i = 0) by lia. subst. reflexivity.
    + destruct (i - 1 <? 0) eqn:E3; [lia|].
      replace (Z.to_nat i) with (S (Z.to_nat (i - 1))) by lia. reflexivity.
Qed.
Lemma zget_nil {A} i : zget (@nil A) i = None.
Proof. unfold zget. destruct (i <? 0); [reflexivity|]. destruct (Z.to_nat i); reflexivity. Qed.

Lemma zget_app {A} : forall (a b : list A) i, 0 <= i ->
  zget (a ++ b) i = if i <? zlen a then zget a i else zget b (i - zlen a).
Proof.
  induction a as [|x a IH]; intros b i Hi.
  - cbn [app]. rewrite zlen_nil. destruct (i <? 0) eqn:E; [lia|]. f_equal; lia.
  - cbn [app]. rewrite !zget_cons, zlen_cons. destruct (i =? 0) eqn:E0.
    + destruct (i <? 1 + zlen a) eqn:E; [reflexivity|]. pose proof (zlen_nonneg a). lia.
    + rewrite IH by lia. destruct (i - 1 <? zlen a) eqn:E1; destruct (i <? 1 + zlen a) eqn:E2;
        try lia; [reflexivity|]. f_equal; lia.
Qed.

Lemma zget_in_range {A} : forall (l : list A) i, 0 <= i < zlen l -> exists x, zget l i = Some x.
Proof.
  induction l as [|x l IH]; intros i Hi.
  - unfold zlen in Hi. cbn [length] in Hi. lia.
  - rewrite zget_cons. destruct (i =? 0) eqn:E; [eauto|]. apply IH. rewrite zlen_cons in Hi. lia.
Qed.
Lemma zget_out_of_range {A} : forall (l : list A) i, zlen l <= i -> zget l i = None.
Proof.
  induction l as [|x l IH]; intros i Hi; [apply zget_nil|].
  rewrite zget_cons. rewrite zlen_cons in Hi. pose proof (zlen_nonneg l).
  destruct (i =? 0) eqn:E; [lia|]. apply IH. lia.
Qed.

Lemma znth_cons x l i : znth (x :: l) i = if i =? 0 then x else znth l (i - 1).
Proof. unfold znth. rewrite zget_cons. destruct (i =? 0); reflexivity. Qed.
Lemma znth_app a b i : 0 <= i -> znth (a ++ b) i = if i <? zlen a then znth a i else znth b (i - zlen a).
Proof. intro H. unfold znth. rewrite zget_app by lia. destruct (i <? zlen a); reflexivity. Qed.

Lemma zget_skipn {A} : forall (k : nat) (l : list A) i, 0 <= i ->
  zget (skipn k l) i = zget l (Z.of_nat k + i).
Proof.
  induction k as [|k IH]; intros l i Hi.
  - cbn [skipn]. f_equal; lia.
  - destruct l as [|x l]; [cbn [skipn]; rewrite !zget_nil; reflexivity|].
    cbn [skipn]. rewrite IH by lia. rewrite (zget_cons x l). destruct (Z.of_nat (S k) + i =? 0) eqn:E; [lia|].
    f_equal; lia.
Qed.
Lemma zget_firstn {A} : forall (k : nat) (l : list A) i, i < Z.of_nat k -> zget (firstn k l) i = zget l i.
Proof.
  induction k as [|k IH]; intros l i Hi.
  - unfold zget. destruct (i <? 0) eqn:E; [reflexivity|lia].
  - destruct l as [|x l]; [reflexivity|]. cbn [firstn]. rewrite !zget_cons.
    destruct (i =? 0); [reflexivity|]. apply IH. lia.
Qed.

Lemma znth_neg (l : list oq) i : i < 0 -> znth l i = None.
Proof. intro H. unfold znth, zget. destruct (i <? 0) eqn:E; [reflexivity|lia]. Qed.

Lemma zlen_skipn {A} (k : nat) (l : list A) : zlen (skipn k l) = Z.max 0 (zlen l - Z.of_nat k).
Proof. unfold zlen. rewrite skipn_length. lia. Qed.
Lemma zlen_firstn {A} (k : nat) (l : list A) : zlen (firstn k l) = Z.min (Z.of_nat k) (zlen l).
Proof. unfold zlen. rewrite firstn_length. lia. Qed.

(* ---- windows ------------------------------------------------------------------------------------ *)

(* the window ending at the last observation is exactly the last wl observations *)
Lemma window_last ys wl : 1 <= wl <= zlen ys ->
  window ys (zlen ys - 1) wl = skipn (Z.to_nat (zlen ys - wl)) ys /\
  zlen (window ys (zlen ys - 1) wl) = wl.
Proof.
  intro H. unfold window, zslice.
  replace (Z.max 0 (zlen ys - 1 - wl + 1)) with (zlen ys - wl) by lia.
  replace (zlen ys - 1 + 1 - (zlen ys - wl)) with wl by lia.
  assert (E : firstn (Z.to_nat wl) (skipn (Z.to_nat (zlen ys - wl)) ys)
              = skipn (Z.to_nat (zlen ys - wl)) ys).
  { apply firstn_all2. rewrite skipn_length. unfold zlen in *. lia. }
  rewrite E. split; [reflexivity|]. rewrite zlen_skipn. lia.
Qed.

(* a complete window at cutoff position c holds positions c-wl+1 .. c *)
Lemma window_znth ys c wl i : 1 <= wl -> wl - 1 <= c < zlen ys -> 0 <= i < wl ->
  znth (window ys c wl) i = znth ys (c - wl + 1 + i).
Proof.
  intros Hw Hc Hi. unfold window, zslice, znth.
  replace (Z.max 0 (c - wl + 1)) with (c - wl + 1) by lia.
  rewrite zget_firstn by lia. rewrite zget_skipn by lia.
  replace (Z.of_nat (Z.to_nat (c - wl + 1)) + i) with (c - wl + 1 + i) by lia. reflexivity.
Qed.
Lemma window_len ys c wl : 1 <= wl -> wl - 1 <= c < zlen ys -> zlen (window ys c wl) = wl.
Proof.
  intros Hw Hc. unfold window, zslice.
  replace (Z.max 0 (c - wl + 1)) with (c - wl + 1) by lia.
  rewrite zlen_firstn, zlen_skipn. lia.
Qed.

(* the window at ANY cutoff position c >= -1, complete or cut by the start of the series: it holds
   the positions lo .. c with lo = max 0 (c - wl + 1) *)
Lemma window_gen_len ys c wl : 1 <= wl -> -1 <= c < zlen ys ->
  zlen (window ys c wl) = c + 1 - Z.max 0 (c - wl + 1).
Proof.
  intros Hw Hc. unfold window, zslice. rewrite zlen_firstn, zlen_skipn. lia.
Qed.
Lemma window_gen_znth ys c wl i : 1 <= wl -> -1 <= c < zlen ys ->
  0 <= i < c + 1 - Z.max 0 (c - wl + 1) ->
  znth (window ys c wl) i = znth ys (Z.max 0 (c - wl + 1) + i).
Proof.
  intros Hw Hc Hi. unfold window, zslice, znth.
  rewrite zget_firstn by lia. rewrite zget_skipn by lia.
  replace (Z.of_nat (Z.to_nat (Z.max 0 (c - wl + 1))) + i) with (Z.max 0 (c - wl + 1) + i) by lia.
  reflexivity.
Qed.

(* the window at a moved cutoff only looks at the observations up to that cutoff *)
Lemma window_prefix ys c wl (q : nat) : 0 <= wl -> c + 1 <= Z.of_nat q -> -1 <= c ->
  window (firstn q ys) c wl = window ys c wl.
Proof.
  intros Hwl Hq Hc. unfold window, zslice.
  assert (Ham : (Z.to_nat (Z.max 0 (c - wl + 1)) + Z.to_nat (c + 1 - Z.max 0 (c - wl + 1)) <= q)%nat)
    by lia.
  set (a := Z.to_nat (Z.max 0 (c - wl + 1))) in *.
  set (m := Z.to_nat (c + 1 - Z.max 0 (c - wl + 1))) in *.
  rewrite !firstn_skipn_comm. rewrite firstn_firstn.
  replace (Nat.min (a + m) q) with (a + m)%nat by lia. reflexivity.
Qed.

(* ---- tiling and step selection ------------------------------------------------------------------- *)

Lemma zlen_tile {A} (reps : nat) (l : list A) : zlen (tile reps l) = Z.of_nat reps * zlen l.
Proof.
  induction reps as [|r IH]; [reflexivity|]. cbn [tile]. rewrite zlen_app, IH. lia.
Qed.

Lemma zget_tile {A} : forall (reps : nat) (l : list A) i, 0 < zlen l ->
  0 <= i < Z.of_nat reps * zlen l -> zget (tile reps l) i = zget l (i mod zlen l).
Proof.
  induction reps as [|r IH]; intros l i Hl Hi; [lia|].
  cbn [tile]. rewrite zget_app by lia. destruct (i <? zlen l) eqn:E.
  - f_equal. rewrite Z.mod_small by lia. reflexivity.
  - rewrite IH by lia. f_equal.
    replace i with (i - zlen l + 1 * zlen l) at 2 by lia. rewrite Z.mod_add by lia. reflexivity.
Qed.

Definition all_pos (hs : list Z) : Prop := forall h, In h hs -> 1 <= h.

Lemma index_all_map : forall (l : list oq) (f : Z -> Z) (g : Z -> oq) hs,
  (forall h, In h hs -> zget l (f h) = Some (g h)) ->
  index_all l (map f hs) = Ok (map g hs).
Proof.
  induction hs as [|h t IH]; intro H; [reflexivity|].
  cbn [map index_all]. rewrite (H h (or_introl eq_refl)). rewrite IH; [reflexivity|].
  intros x Hx. apply H. right. exact Hx.
Qed.

Lemma znth_of_zget (l : list oq) i : 0 <= i < zlen l -> zget l i = Some (znth l i).
Proof.
  intro H. destruct (zget_in_range l i H) as [x Hx]. unfold znth. rewrite Hx. reflexivity.
Qed.

(* tile + to_indexer: step h reads entry (h - 1) mod sp of a table with one entry per season *)
Lemma steps_vals_spec vals sp hs : 0 < sp -> zlen vals = sp -> sorted_lt hs -> all_pos hs ->
  steps_vals vals sp hs = Ok (map (fun h => znth vals ((h - 1) mod sp)) hs).
Proof.
  intros Hsp Hlen Hsorted Hpos. unfold steps_vals.
  apply index_all_map. intros h Hin.
  pose proof (Hpos h Hin) as Hh. pose proof (sorted_lt_last_max hs h Hsorted Hin) as Hmax.
  destruct (sp <? zlast hs) eqn:E.
  - rewrite zget_tile by (rewrite ?Hlen; unfold ceil_div; nia).
    rewrite Hlen. apply znth_of_zget. rewrite Hlen. lia.
  - rewrite Z.mod_small by lia. apply znth_of_zget. lia.
Qed.

(* ---- selecting by position congruence (the textbook side) --------------------------------------- *)

(* the entries of l whose position (counted from i) satisfies P, in order *)
Fixpoint sel {A} (P : Z -> bool) (i : Z) (l : list A) : list A :=
  match l with
  | [] => []
  | x :: t => if P i then x :: sel P (i + 1) t else sel P (i + 1) t
  end.

Lemma sel_app {A} P : forall (a b : list A) i, sel P i (a ++ b) = sel P i a ++ sel P (i + zlen a) b.
Proof.
  induction a as [|x a IH]; intros b i.
  - cbn [app sel]. rewrite zlen_nil. f_equal; lia.
  - cbn [app sel]. rewrite IH, zlen_cons. replace (i + 1 + zlen a) with (i + (1 + zlen a)) by lia.
    destruct (P i); reflexivity.
Qed.

Lemma sel_ext {A} P Q : forall (l : list A) i j,
  (forall k, 0 <= k < zlen l -> P (i + k) = Q (j + k)) -> sel P i l = sel Q j l.
Proof.
  induction l as [|x l IH]; intros i j H; [reflexivity|].
  cbn [sel]. rewrite zlen_cons in H. pose proof (zlen_nonneg l).
  assert (E : P i = Q j). { specialize (H 0). rewrite !Z.add_0_r in H. apply H. lia. }
  rewrite E. rewrite (IH (i + 1) (j + 1)); [reflexivity|].
  intros k Hk. specialize (H (1 + k)). rewrite !Z.add_assoc in H. apply H. lia.
Qed.

Lemma mod_succ sp i m : 0 < sp -> i mod sp = m -> m + 1 < sp -> (i + 1) mod sp = m + 1.
Proof.
  intros Hsp Hm Hlt. subst m. rewrite Zplus_mod. rewrite (Z.mod_small 1) by lia.
  apply Z.mod_small. pose proof (Z.mod_pos_bound i sp Hsp). lia.
Qed.

(* within one season (positions i0 .. i0+len-1 with residues m0 .. m0+len-1 < sp) at most one
   position has residue j *)
Lemma sel_one_season sp j : 0 < sp -> forall (c : list oq) i0 m0,
  0 <= m0 -> m0 + zlen c <= sp -> i0 mod sp = m0 ->
  sel (fun i => i mod sp =? j) i0 c =
  if (m0 <=? j) && (j <? m0 + zlen c) then [znth c (j - m0)] else [].
Proof.
  intros Hsp. induction c as [|x c IH]; intros i0 m0 Hm0 Hlen Hmod.
  - cbn [sel]. rewrite zlen_nil. destruct ((m0 <=? j) && (j <? m0 + 0)) eqn:E; [lia|reflexivity].
  - cbn [sel]. rewrite zlen_cons in *. pose proof (zlen_nonneg c) as Hc.
    destruct c as [|y c'].
    + cbn [sel]. rewrite zlen_nil in *. rewrite Hmod.
      destruct (m0 =? j) eqn:E.
      * assert (j = m0) by lia. subst j. replace (m0 - m0) with 0 by lia.
        destruct ((m0 <=? m0) && (m0 <? m0 + (1 + 0))) eqn:E2; [reflexivity|lia].
      * destruct ((m0 <=? j) && (j <? m0 + (1 + 0))) eqn:E2; [lia|reflexivity].
    + assert (Hnext : (i0 + 1) mod sp = m0 + 1).
      { rewrite zlen_cons in Hlen. pose proof (zlen_nonneg c'). apply mod_succ; lia. }
      rewrite (IH (i0 + 1) (m0 + 1)) by lia. rewrite Hmod.
      destruct (m0 =? j) eqn:E.
      * assert (j = m0) by lia. subst j. replace (m0 - m0) with 0 by lia.
        destruct ((m0 + 1 <=? m0) && (m0 <? m0 + 1 + zlen (y :: c'))) eqn:E2; [lia|].
        destruct ((m0 <=? m0) && (m0 <? m0 + (1 + zlen (y :: c')))) eqn:E3; [reflexivity|lia].
      * destruct ((m0 + 1 <=? j) && (j <? m0 + 1 + zlen (y :: c'))) eqn:E2;
        destruct ((m0 <=? j) && (j <? m0 + (1 + zlen (y :: c')))) eqn:E3; try lia; [|reflexivity].
        rewrite (znth_cons x (y :: c')). destruct (j - m0 =? 0) eqn:E4; [lia|].
        replace (j - m0 - 1) with (j - (m0 + 1)) by lia. reflexivity.
Qed.

(* column j of the row-major reshape = the entries at positions congruent to j *)
Lemma zcol_chunks sp j : 0 < sp -> 0 <= j < sp -> forall (rows : nat) (l : list oq) i0,
  zlen l = Z.of_nat rows * sp -> i0 mod sp = 0 ->
  zcol j (chunks rows (Z.to_nat sp) l) = sel (fun i => i mod sp =? j) i0 l.
Proof.
  intros Hsp Hj. induction rows as [|r IH]; intros l i0 Hlen Hmod.
  - rewrite (zlen_zero_nil l) by lia. reflexivity.
  - cbn [chunks zcol map]. rewrite <- (firstn_skipn (Z.to_nat sp) l) at 3.
    rewrite sel_app.
    assert (Hc : zlen (firstn (Z.to_nat sp) l) = sp) by (rewrite zlen_firstn; nia).
    rewrite (sel_one_season sp j Hsp (firstn (Z.to_nat sp) l) i0 0) by lia.
    destruct ((0 <=? j) && (j <? 0 + zlen (firstn (Z.to_nat sp) l))) eqn:E; [|lia].
    rewrite Z.sub_0_r. cbn [app]. f_equal.
    change (map (fun row => znth row j) (chunks r (Z.to_nat sp) (skipn (Z.to_nat sp) l)))
      with (zcol j (chunks r (Z.to_nat sp) (skipn (Z.to_nat sp) l))).
    apply IH.
    + rewrite zlen_skipn. nia.
    + rewrite Hc. rewrite <- Hmod. replace (i0 + sp) with (i0 + 1 * sp) by lia.
      apply Z.mod_add. lia.
Qed.

(* ---- congruence ------------------------------------------------------------------------------------ *)

(* a = b (mod sp) *)
Definition congb (sp a b : Z) : bool := (a - b) mod sp =? 0.

Lemma eqmod_iff sp a b : 0 < sp -> (a mod sp = b mod sp <-> (a - b) mod sp = 0).
Proof.
  intro Hsp. split; intro H.
  - rewrite Zminus_mod, H, Z.sub_diag. apply Z.mod_0_l. lia.
  - replace a with (b + (a - b)) by lia. rewrite Zplus_mod, H, Z.add_0_r. apply Zmod_mod.
Qed.

Lemma mod_eqb_congb sp a b : 0 < sp -> (a mod sp =? b mod sp) = congb sp a b.
Proof.
  intro Hsp. unfold congb. pose proof (eqmod_iff sp a b Hsp) as [H1 H2].
  destruct (a mod sp =? b mod sp) eqn:E1; destruct ((a - b) mod sp =? 0) eqn:E2; try reflexivity.
  - apply Z.eqb_eq in E1. apply H1 in E1. lia.
  - apply Z.eqb_eq in E2. apply H2 in E2. lia.
Qed.

Lemma congb_shift sp a b d : 0 < sp -> a - b = d * sp -> forall x y, x - y = a - b ->
  congb sp x y = true.
Proof.
  intros Hsp H x y Hxy. unfold congb. rewrite Hxy, H. rewrite Z.mod_mul by lia. reflexivity.
Qed.

Lemma congb_add_multiple sp a b k : 0 < sp -> congb sp (a + k * sp) b = congb sp a b.
Proof.
  intro Hsp. unfold congb. replace (a + k * sp - b) with (a - b + k * sp) by lia.
  rewrite Z.mod_add by lia. reflexivity.
Qed.

(* ---- nanmean ignores NaN ---------------------------------------------------------------------------- *)

Lemma somes_app a b : somes (a ++ b) = somes a ++ somes b.
Proof. unfold somes. apply flat_map_app. Qed.

Lemma nanmean_somes a b : somes a = somes b -> nanmean a = nanmean b.
Proof. unfold nanmean. intros ->. reflexivity. Qed.

Lemma somes_sel_nan P : forall (l : list oq) i, all_nan l = true -> somes (sel P i l) = [].
Proof.
  induction l as [|x l IH]; intros i H; [reflexivity|].
  cbn [all_nan forallb] in H. apply andb_true_iff in H. destruct H as [Hx Hl].
  destruct x; [discriminate|]. cbn [sel]. destruct (P i); [|apply IH; exact Hl].
  change (somes (None :: sel P (i + 1) l)) with (somes (sel P (i + 1) l)). apply IH. exact Hl.
Qed.

Lemma all_nan_repeat k : all_nan (repeat None k) = true.
Proof. induction k as [|k IH]; [reflexivity|]. cbn [repeat all_nan forallb]. exact IH. Qed.

Lemma all_nan_znth : forall l i, all_nan l = true -> znth l i = None.
Proof.
  induction l as [|x l IH]; intros i H.
  - unfold znth. rewrite zget_nil. reflexivity.
  - cbn [all_nan forallb] in H. apply andb_true_iff in H. destruct H as [Hx Hl].
    destruct x; [discriminate|]. rewrite znth_cons. destruct (i =? 0); [reflexivity|].
    apply IH. exact Hl.
Qed.

Lemma all_nan_last : forall l, all_nan l = true -> last l None = None.
Proof.
  induction l as [|x l IH]; intro H; [reflexivity|].
  cbn [all_nan forallb] in H. apply andb_true_iff in H. destruct H as [Hx Hl].
  destruct x; [discriminate|]. destruct l as [|y l']; [reflexivity|].
  change (last (None :: y :: l') None) with (last (y :: l') None). apply IH. exact Hl.
Qed.

(* ---- arithmetic of the padded reshape ---------------------------------------------------------------- *)

Lemma pad_rows sp wl : 0 < sp -> 0 <= wl ->
  (if 0 <? wl mod sp then sp - wl mod sp else 0) + wl = ceil_div wl sp * sp.
Proof.
  intros Hsp Hwl. unfold ceil_div.
  pose proof (Z.div_mod wl sp ltac:(lia)) as E. pose proof (Z.mod_pos_bound wl sp Hsp) as B.
  destruct (0 <? wl mod sp) eqn:Hr.
  - assert (Hq : (wl + sp - 1) / sp = wl / sp + 1).
    { symmetry. apply (Z.div_unique _ _ _ (wl mod sp - 1)); lia. }
    rewrite Hq. lia.
  - assert (Hq : (wl + sp - 1) / sp = wl / sp).
    { symmetry. apply (Z.div_unique _ _ _ (sp - 1)); lia. }
    rewrite Hq. lia.
Qed.

Lemma znth_map_zrange (f : Z -> oq) n j : 0 <= j < n -> znth (map f (zrange 0 n 1)) j = f j.
Proof.
  intro Hj. unfold znth, zget. destruct (j <? 0) eqn:E; [lia|].
  assert (Hlen : (Z.to_nat j < length (zrange 0 n 1))%nat).
  { pose proof (zrange_length1 0 n). lia. }
  rewrite (map_nth_error f (Z.to_nat j) (zrange 0 n 1) (d := j)); [reflexivity|].
  rewrite (nth_error_nth' _ 0 Hlen). f_equal. rewrite zrange_nth1 by lia. lia.
Qed.

(* ---- the naive kernel on a complete window ------------------------------------------------------------ *)

Lemma empty_or_nan_all_nan (w : list oq) : (zlen w =? 0) || all_nan w = true -> all_nan w = true.
Proof.
  intro H. apply orb_true_iff in H. destruct H as [H|H]; [|exact H].
  rewrite (zlen_zero_nil w) by lia. reflexivity.
Qed.

(* textbook seasonal mean: the mean of the non-missing window observations whose position p in the
   window is congruent to the target's position wl - 1 + h *)
Definition seasonal_mean_spec (sp wl : Z) (w : list oq) (h : Z) : oq :=
  nanmean (sel (fun p => congb sp p (wl - 1 + h)) 0 w).

Lemma zlen_repeat {A} (x : A) k : zlen (repeat x k) = Z.of_nat k.
Proof. unfold zlen. rewrite repeat_length. reflexivity. Qed.

Lemma kernel_seasonal_mean_aux sp wl w hs :
  1 < sp -> zlen w = wl -> sorted_lt hs -> all_pos hs ->
  kernel SMean sp w hs = Ok (map (seasonal_mean_spec sp wl w) hs).
Proof.
  intros Hsp Hlen Hsorted Hpos. pose proof (zlen_nonneg w) as Hw0. unfold kernel.
  destruct ((zlen w =? 0) || all_nan w) eqn:E0.
  - apply empty_or_nan_all_nan in E0. unfold const_all. f_equal. apply map_ext. intro h.
    unfold seasonal_mean_spec, nanmean. rewrite somes_sel_nan by exact E0. reflexivity.
  - destruct (sp =? 1) eqn:E1; [lia|]. cbv zeta. rewrite Hlen.
    set (pad := if 0 <? wl mod sp then sp - wl mod sp else 0).
    assert (Hpad : pad + wl = ceil_div wl sp * sp) by (apply pad_rows; lia).
    assert (Hpad0 : 0 <= pad < sp).
    { subst pad. pose proof (Z.mod_pos_bound wl sp ltac:(lia)). destruct (0 <? wl mod sp) eqn:Epad; lia. }
    assert (Hrows : 0 <= ceil_div wl sp) by nia.
    rewrite zlen_app, zlen_repeat, Hlen, Z2Nat.id by lia.
    assert (Hrw : (pad + wl) / sp = ceil_div wl sp) by (rewrite Hpad; apply Z.div_mul; lia).
    rewrite Hrw.
    destruct (pad + wl =? ceil_div wl sp * sp) eqn:E2; [|lia].
    rewrite steps_vals_spec; try assumption; try lia.
    2:{ rewrite zlen_map. pose proof (zrange_length1 0 sp). unfold zlen. lia. }
    f_equal. apply map_ext_in. intros h Hin.
    pose proof (Z.mod_pos_bound (h - 1) sp ltac:(lia)) as Hj.
    rewrite znth_map_zrange by lia.
    rewrite (zcol_chunks sp ((h - 1) mod sp) ltac:(lia) Hj (Z.to_nat (ceil_div wl sp)) _ 0).
    2:{ rewrite zlen_app, zlen_repeat, Hlen. lia. }
    2:{ apply Z.mod_0_l. lia. }
    unfold seasonal_mean_spec. apply nanmean_somes.
    rewrite sel_app, somes_app. rewrite somes_sel_nan by apply all_nan_repeat. cbn [app].
    f_equal. rewrite zlen_repeat, Z2Nat.id by lia. apply sel_ext. intros k Hk.
    rewrite <- (Zmod_mod (h - 1) sp) at 1. rewrite Zmod_mod.
    rewrite mod_eqb_congb by lia.
    rewrite <- (congb_add_multiple sp (0 + k) (wl - 1 + h) (ceil_div wl sp)) by lia.
    unfold congb. f_equal. f_equal. lia.
Qed.

(* on ANY window - complete, or cut by the start of the series - whatever its length *)
Lemma kernel_seasonal_mean sp w hs :
  1 < sp -> sorted_lt hs -> all_pos hs ->
  kernel SMean sp w hs = Ok (map (seasonal_mean_spec sp (zlen w) w) hs).
Proof. intros Hsp Hs Hp. apply kernel_seasonal_mean_aux; [exact Hsp|reflexivity|exact Hs|exact Hp]. Qed.

(* seasonal last on a window of at most one season (shorter when cut by the start of the series):
   step h reads the window position congruent to the target among the last sp positions before
   the target, i.e. zlen w - sp + (h - 1) mod sp; when the window does not reach back that far
   (negative position) no same-season observation exists and the forecast is NaN *)
Lemma kernel_seasonal_last sp w hs :
  1 < sp -> zlen w <= sp -> sorted_lt hs -> all_pos hs ->
  kernel SLast sp w hs = Ok (map (fun h => znth w (zlen w - sp + (h - 1) mod sp)) hs).
Proof.
  intros Hsp Hlen Hsorted Hpos. pose proof (zlen_nonneg w) as Hw0. unfold kernel.
  destruct ((zlen w =? 0) || all_nan w) eqn:E0.
  - apply empty_or_nan_all_nan in E0. unfold const_all. f_equal. apply map_ext. intro h.
    rewrite all_nan_znth by exact E0. reflexivity.
  - destruct (sp =? 1) eqn:E1; [lia|]. cbv zeta.
    rewrite steps_vals_spec; try assumption; try lia.
    + f_equal. apply map_ext. intro h.
      pose proof (Z.mod_pos_bound (h - 1) sp ltac:(lia)) as Hj.
      destruct (zlen w <? sp) eqn:E2.
      * rewrite znth_app by lia. rewrite zlen_repeat, Z2Nat.id by lia.
        destruct ((h - 1) mod sp <? sp - zlen w) eqn:E3.
        -- rewrite all_nan_znth by apply all_nan_repeat. symmetry. apply znth_neg. lia.
        -- f_equal. lia.
      * f_equal. lia.
    + destruct (zlen w <? sp) eqn:E2; [|lia].
      rewrite zlen_app, zlen_repeat, Z2Nat.id by lia. lia.
Qed.

Lemma last_znth : forall (l : list oq), last l None = znth l (zlen l - 1).
Proof.
  induction l as [|x l IH]; [reflexivity|].
  destruct l as [|y l'].
  - reflexivity.
  - change (last (x :: y :: l') None) with (last (y :: l') None). rewrite IH.
    rewrite (znth_cons x (y :: l')). rewrite (zlen_cons x). pose proof (zlen_nonneg l').
    rewrite (zlen_cons y) in *. destruct (1 + (1 + zlen l') - 1 =? 0) eqn:E; [lia|].
    f_equal; lia.
Qed.

Lemma hd_znth (l : list oq) : hd None l = znth l 0.
Proof. destruct l; reflexivity. Qed.

Lemma kernel_last w hs : kernel SLast 1 w hs = Ok (map (fun _ => znth w (zlen w - 1)) hs).
Proof.
  unfold kernel. destruct ((zlen w =? 0) || all_nan w) eqn:E0.
  - apply empty_or_nan_all_nan in E0. rewrite all_nan_znth by exact E0. reflexivity.
  - cbn [Z.eqb Pos.eqb]. rewrite last_znth. reflexivity.
Qed.

Lemma kernel_mean w hs : kernel SMean 1 w hs = Ok (map (fun _ => nanmean w) hs).
Proof.
  unfold kernel. destruct ((zlen w =? 0) || all_nan w) eqn:E0; [|reflexivity].
  apply empty_or_nan_all_nan in E0. unfold const_all. f_equal. apply map_ext. intros _.
  unfold nanmean. replace (somes w) with (somes (sel (fun _ => true) 0 w)).
  - rewrite somes_sel_nan by exact E0. reflexivity.
  - f_equal. clear E0. generalize 0. induction w as [|x w IH]; intro i; [reflexivity|].
    cbn [sel]. rewrite IH. reflexivity.
Qed.

(* the straight line through (x0, a) and (x1, b) *)
Definition line (x0 x1 : Z) (a b : Q) (x : Z) : Q :=
  (a + inject_Z (x - x0) * ((b - a) / inject_Z (x1 - x0)))%Q.

Lemma line_through_first x0 x1 a b : (line x0 x1 a b x0 == a)%Q.
Proof. unfold line. rewrite Z.sub_diag. change (inject_Z 0) with 0%Q. ring. Qed.

Lemma inject_Z_nonzero z : z <> 0 -> ~ (inject_Z z == 0)%Q.
Proof. intros Hz H. unfold Qeq, inject_Z in H. cbn in H. lia. Qed.

Lemma line_through_last x0 x1 a b : x0 <> x1 -> (line x0 x1 a b x1 == b)%Q.
Proof.
  intro H. unfold line. field. apply inject_Z_nonzero. lia.
Qed.

(* drift: last + h * (last - first) / (wl - 1) is the line through the window's end points
   (positions 0 and wl-1 of the window) evaluated h steps after the window's end *)
Definition drift_value (wl : Z) (a b : Q) (h : Z) : Q :=
  (b + inject_Z h * ((b - a) / inject_Z (wl - 1)))%Q.

Lemma drift_value_on_line wl a b h : 2 <= wl ->
  (drift_value wl a b h == line 0 (wl - 1) a b (wl - 1 + h))%Q.
Proof.
  intro Hwl. unfold drift_value, line. rewrite !Z.sub_0_r. rewrite inject_Z_plus.
  field. apply inject_Z_nonzero. lia.
Qed.

Lemma kernel_drift sp w a b hs :
  2 <= zlen w -> znth w 0 = Some a -> znth w (zlen w - 1) = Some b ->
  kernel SDrift sp w hs = Ok (map (fun h => Some (drift_value (zlen w) a b h)) hs).
Proof.
  intros Hwl Ha Hb. unfold kernel.
  destruct ((zlen w =? 0) || all_nan w) eqn:E0.
  - apply empty_or_nan_all_nan in E0. rewrite all_nan_znth in Ha by exact E0. discriminate.
  - destruct (zlen w <? 2) eqn:E1; [lia|]. rewrite hd_znth, last_znth, Ha, Hb. reflexivity.
Qed.

Lemma kernel_drift_missing_end sp w hs :
  2 <= zlen w -> all_nan w = false -> (znth w 0 = None \/ znth w (zlen w - 1) = None) ->
  kernel SDrift sp w hs = Err.
Proof.
  intros Hwl Hnan H. unfold kernel.
  destruct (zlen w =? 0) eqn:E0; [lia|]. rewrite Hnan. cbn [orb].
  destruct (zlen w <? 2) eqn:E1; [lia|]. rewrite hd_znth, last_znth.
  destruct H as [H|H]; rewrite H; [reflexivity|]. destruct (znth w 0); reflexivity.
Qed.

(* no line through fewer than two points: NaN for every step *)
Lemma kernel_drift_one_point sp w hs : zlen w <= 1 ->
  kernel SDrift sp w hs = Ok (map (fun _ => None) hs).
Proof.
  intro H. unfold kernel, const_all.
  destruct ((zlen w =? 0) || all_nan w); [reflexivity|].
  destruct (zlen w <? 2) eqn:E; [reflexivity|lia].
Qed.

(* ---- from the kernel to predict -------------------------------------------------------------------- *)

Lemma filter_all {A} (f : A -> bool) l : (forall x, In x l -> f x = true) -> filter f l = l.
Proof.
  induction l as [|x l IH]; intro H; [reflexivity|]. cbn [filter].
  rewrite (H x (or_introl eq_refl)). f_equal. apply IH. intros y Hy. apply H. right. exact Hy.
Qed.
Lemma filter_none {A} (f : A -> bool) l : (forall x, In x l -> f x = false) -> filter f l = [].
Proof.
  induction l as [|x l IH]; intro H; [reflexivity|]. cbn [filter].
  rewrite (H x (or_introl eq_refl)). apply IH. intros y Hy. apply H. right. exact Hy.
Qed.

Lemma rconcat_single {A} (r : res (list A)) : rconcat [r] = r.
Proof. destruct r as [x|]; [|reflexivity]. cbn [rconcat rapp]. rewrite app_nil_r. reflexivity. Qed.

(* out-of-sample horizons are served by one kernel call on the window ending at the last
   observation *)
Lemma predict_oos s sp wl ys fh : all_pos fh ->
  naive_predict_wl s sp wl ys fh =
  match fh with [] => Ok [] | _ => kernel s sp (window ys (zlen ys - 1) wl) fh end.
Proof.
  intro Hpos. unfold naive_predict_wl.
  rewrite (filter_none (fun r => r <=? 0) fh) by (intros x Hx; specialize (Hpos x Hx); lia).
  rewrite (filter_all (fun r => 0 <? r) fh) by (intros x Hx; specialize (Hpos x Hx); lia).
  cbn [map app]. destruct fh as [|h t]; [reflexivity|]. apply rconcat_single.
Qed.

(* in-sample: the forecast for position q = n-1+r (r <= 0) is the one-step-ahead forecast made
   from the first q observations only, with the window length resolved at fit *)
Lemma predict_in_sample s sp wl ys r : 0 <= wl -> r <= 0 -> 0 <= zlen ys - 1 + r ->
  naive_predict_wl s sp wl ys [r] =
  naive_predict_wl s sp wl (firstn (Z.to_nat (zlen ys - 1 + r)) ys) [1].
Proof.
  intros Hwl Hr Hq. unfold naive_predict_wl. cbn [filter].
  destruct (r <=? 0) eqn:E1; [|lia]. destruct (0 <? r) eqn:E2; [lia|].
  cbn [Z.leb Z.ltb Z.compare map app].
  assert (Hlen : zlen (firstn (Z.to_nat (zlen ys - 1 + r)) ys) = zlen ys - 1 + r).
  { rewrite zlen_firstn. lia. }
  rewrite Hlen. rewrite window_prefix by lia.
  replace (zlen ys - 2 + r) with (zlen ys - 1 + r - 1) by lia. reflexivity.
Qed.

(* an in-sample step is one kernel call, for step 1, on the window ending just before the target *)
Lemma in_sample_kernel s sp wl ys r : r <= 0 ->
  naive_predict_wl s sp wl ys [r] = kernel s sp (window ys (zlen ys - 2 + r) wl) [1].
Proof.
  intro Hr. unfold naive_predict_wl. cbn [filter].
  destruct (r <=? 0) eqn:E1; [|lia]. destruct (0 <? r) eqn:E2; [lia|].
  cbn [map app]. apply rconcat_single.
Qed.

Lemma all_pos_one : all_pos [1].
Proof. intros h [<-|[]]. lia. Qed.

Lemma sel_true {A} P : (forall p, P p = true) -> forall (l : list A) i, sel P i l = l.
Proof.
  intro H. induction l as [|x l IH]; intro i; [reflexivity|]. cbn [sel]. rewrite H, IH. reflexivity.
Qed.

(* ---- in-sample forecasts, also where the window is cut by the start of the series ------------------
   q = target position, the forecast is made from the observations at positions lo .. q-1,
   lo = max 0 (q - wl) *)

(* last / seasonal last (window length sp >= 1): the observation one season before the target;
   NaN while no observation of the target's season exists *)
Lemma in_sample_last ys sp r q : 1 <= sp -> r <= 0 -> q = zlen ys - 1 + r -> 0 <= q ->
  naive_predict_wl SLast sp sp ys [r] = Ok [if q <? sp then None else znth ys (q - sp)].
Proof.
  intros Hsp Hr Eq Hq. rewrite in_sample_kernel by exact Hr.
  replace (zlen ys - 2 + r) with (q - 1) by lia.
  pose proof (window_gen_len ys (q - 1) sp ltac:(lia) ltac:(lia)) as Hlen.
  destruct (Z.eq_dec sp 1) as [->|Hne].
  - rewrite kernel_last. cbn [map]. f_equal. f_equal.
    destruct (q <? 1) eqn:E.
    + apply znth_neg. lia.
    + rewrite window_gen_znth by lia. f_equal. lia.
  - rewrite kernel_seasonal_last; try lia; [|exact I|exact all_pos_one].
    cbn [map]. f_equal. f_equal.
    replace ((1 - 1) mod sp) with 0 by (rewrite Z.sub_diag, Z.mod_0_l; lia).
    destruct (q <? sp) eqn:E.
    + apply znth_neg. lia.
    + rewrite window_gen_znth by lia. f_equal. lia.
Qed.

(* mean / seasonal mean: the mean of the non-missing observations among positions lo .. q-1 that
   are congruent to the target (all of them for sp = 1); NaN if there is none *)
Lemma in_sample_mean ys sp wl r q lo : 1 <= sp -> 1 <= wl -> r <= 0 ->
  q = zlen ys - 1 + r -> 0 <= q -> lo = Z.max 0 (q - wl) ->
  naive_predict_wl SMean sp wl ys [r] =
  Ok [nanmean (sel (fun p => congb sp p q) lo (zslice ys lo q))].
Proof.
  intros Hsp Hwl Hr Eq Hq Elo. rewrite in_sample_kernel by exact Hr.
  assert (Hw : window ys (zlen ys - 2 + r) wl = zslice ys lo q).
  { unfold window. f_equal; lia. }
  assert (Hlen : zlen (zslice ys lo q) = q - lo).
  { rewrite <- Hw. rewrite window_gen_len by lia. lia. }
  rewrite Hw.
  destruct (Z.eq_dec sp 1) as [->|Hne].
  - rewrite kernel_mean. cbn [map]. rewrite sel_true; [reflexivity|].
    intro p. unfold congb. rewrite Z.mod_1_r. reflexivity.
  - rewrite kernel_seasonal_mean; try lia; [|exact I|exact all_pos_one].
    cbn [map]. unfold seasonal_mean_spec. f_equal. f_equal. apply nanmean_somes. f_equal.
    apply sel_ext. intros k Hk. cbv beta. unfold congb. f_equal. f_equal. lia.
Qed.

(* drift: the line through the first and the last available point, (lo, y[lo]) and (q-1, y[q-1]),
   evaluated at q; NaN when fewer than two points are available *)
Lemma in_sample_drift ys sp wl r q lo : 1 <= wl -> r <= 0 ->
  q = zlen ys - 1 + r -> 0 <= q -> lo = Z.max 0 (q - wl) ->
  (q - lo <= 1 -> naive_predict_wl SDrift sp wl ys [r] = Ok [None]) /\
  (forall a b, 2 <= q - lo -> znth ys lo = Some a -> znth ys (q - 1) = Some b ->
     naive_predict_wl SDrift sp wl ys [r] = Ok [Some (drift_value (q - lo) a b 1)] /\
     (drift_value (q - lo) a b 1 == line lo (q - 1) a b q)%Q).
Proof.
  intros Hwl Hr Eq Hq Elo. rewrite in_sample_kernel by exact Hr.
  assert (Hlen : zlen (window ys (zlen ys - 2 + r) wl) = q - lo).
  { rewrite window_gen_len by lia. lia. }
  split.
  - intro H1. rewrite kernel_drift_one_point by lia. reflexivity.
  - intros a b H2 Ha Hb. split.
    + rewrite (kernel_drift sp _ a b [1]).
      * rewrite Hlen. reflexivity.
      * lia.
      * rewrite window_gen_znth by lia. rewrite <- Ha. f_equal. lia.
      * rewrite Hlen. rewrite window_gen_znth by lia. rewrite <- Hb. f_equal. lia.
    + unfold drift_value, line.
      replace (q - lo - 1) with (q - 1 - lo) by lia.
      replace (q - lo) with (q - 1 - lo + 1) by lia.
      rewrite inject_Z_plus. change (inject_Z 1) with 1%Q.
      field. apply inject_Z_nonzero. lia.
Qed.

(* ---- window length resolution (NaiveForecaster.fit) ------------------------------------------------ *)

Definition documented_wl (s : strategy) (sp : Z) (wlo : option Z) (n : Z) : Z :=
  match s with
  | SLast => if sp =? 1 then 1 else sp
  | _ => match wlo with Some w => w | None => n end
  end.
(* parameter domains, for the parameters the strategy reads ("last" ignores window_length,
   "drift" ignores sp) *)
Definition wl_ok (wlo : option Z) : Prop := match wlo with Some w => 1 <= w | None => True end.
Definition valid_params (s : strategy) (sp : Z) (wlo : option Z) : Prop :=
  match s with
  | SLast => 1 <= sp
  | SMean => 1 <= sp /\ wl_ok wlo
  | SDrift => wl_ok wlo
  end.
(* the documented rejections, in terms of the window the forecaster would use (the given
   window_length, or by default the whole training series): seasonal mean with a window shorter
   than one season; drift with a window of a single point *)
Definition documented_reject (s : strategy) (sp : Z) (wlo : option Z) (n : Z) : Prop :=
  match s with
  | SLast => False
  | SMean => sp <> 1 /\ documented_wl s sp wlo n < sp
  | SDrift => documented_wl s sp wlo n = 1
  end.

Ltac split_ifs :=
  repeat match goal with
         | H : context [if ?c then _ else _] |- _ => destruct c eqn:?
         | |- context [if ?c then _ else _] => destruct c eqn:?
         end.

Lemma resolve_ok s sp wlo n w : resolve_wl s sp wlo n = Ok w ->
  w = documented_wl s sp wlo n /\ w <= n /\ valid_params s sp wlo /\ ~ documented_reject s sp wlo n.
Proof.
  unfold resolve_wl, documented_wl, documented_reject, valid_params, wl_ok, wl_invalid. intro H.
  destruct s; destruct wlo as [x|]; cbn [documented_wl] in *; split_ifs; try discriminate;
    inversion H; subst; repeat split; try lia; try tauto.
Qed.

Lemma resolve_err s sp wlo n : resolve_wl s sp wlo n = Err <->
  (~ valid_params s sp wlo \/ documented_reject s sp wlo n \/ n < documented_wl s sp wlo n).
Proof.
  unfold resolve_wl, documented_reject, valid_params, wl_ok, wl_invalid, documented_wl.
  destruct s; destruct wlo as [x|]; split_ifs; split; intro H; try discriminate;
    try reflexivity; try lia; exfalso; lia.
Qed.

Lemma resolve_last sp wlo n : 1 <= sp <= n -> resolve_wl SLast sp wlo n = Ok sp.
Proof.
  intro H. unfold resolve_wl. destruct (sp =? 1) eqn:E1.
  - destruct (n <? 1) eqn:E; [lia|f_equal; lia].
  - destruct (sp <? 1) eqn:E2; [lia|]. destruct (n <? sp) eqn:E3; [lia|reflexivity].
Qed.

(* what an accepted configuration guarantees about the resolved window *)
Lemma resolve_ok_bounds s sp wlo n w : 1 <= n -> resolve_wl s sp wlo n = Ok w ->
  1 <= w <= n /\ match s with
                 | SLast => 1 <= sp /\ w = sp
                 | SMean => 1 <= sp /\ (sp = 1 \/ sp <= w)
                 | SDrift => 2 <= w
                 end.
Proof.
  intros Hn H. apply resolve_ok in H. destruct H as [Hw [Hle [Hv Hr]]].
  unfold documented_wl, valid_params, wl_ok, documented_reject in *.
  destruct s; destruct wlo as [x|]; cbn [documented_wl] in *; split_ifs; lia.
Qed.

(* ---- in-sample forecasts of the fitted forecaster ------------------------------------------------------ *)

Lemma naive_in_sample_last ys sp wlo r q : 1 <= sp <= zlen ys -> r <= 0 ->
  q = zlen ys - 1 + r -> 0 <= q ->
  naive_predict SLast sp wlo ys [r] = Ok [if q <? sp then None else znth ys (q - sp)].
Proof.
  intros Hsp Hr Eq Hq. unfold naive_predict. rewrite resolve_last by exact Hsp.
  apply in_sample_last; try assumption; lia.
Qed.

Lemma naive_in_sample_mean ys sp wlo wl r q lo :
  resolve_wl SMean sp wlo (zlen ys) = Ok wl -> r <= 0 ->
  q = zlen ys - 1 + r -> 0 <= q -> lo = Z.max 0 (q - wl) ->
  naive_predict SMean sp wlo ys [r] =
  Ok [nanmean (sel (fun p => congb sp p q) lo (zslice ys lo q))].
Proof.
  intros Hres Hr Eq Hq Elo. unfold naive_predict. rewrite Hres.
  apply resolve_ok_bounds in Hres; [|lia]. destruct Hres as [Hwl [Hsp _]].
  apply in_sample_mean; try assumption; lia.
Qed.

Lemma naive_in_sample_drift ys sp wlo wl r q lo :
  resolve_wl SDrift sp wlo (zlen ys) = Ok wl -> r <= 0 ->
  q = zlen ys - 1 + r -> 0 <= q -> lo = Z.max 0 (q - wl) ->
  (q - lo <= 1 -> naive_predict SDrift sp wlo ys [r] = Ok [None]) /\
  (forall a b, 2 <= q - lo -> znth ys lo = Some a -> znth ys (q - 1) = Some b ->
     naive_predict SDrift sp wlo ys [r] = Ok [Some (drift_value (q - lo) a b 1)] /\
     (drift_value (q - lo) a b 1 == line lo (q - 1) a b q)%Q).
Proof.
  intros Hres Hr Eq Hq Elo. unfold naive_predict. rewrite Hres.
  apply resolve_ok_bounds in Hres; [|lia]. destruct Hres as [Hwl _].
  apply in_sample_drift; try assumption; lia.
Qed.

(* ---- the property statements -------------------------------------------------------------------------- *)

Lemma map_nonempty_match {A B} (f : A -> B) (l : list A) (r : res (list B)) :
  (l <> [] -> r = Ok (map f l)) -> match l with [] => Ok [] | _ => r end = Ok (map f l).
Proof. destruct l; intro H; [reflexivity|]. apply H. discriminate. Qed.

(* last value *)
Lemma naive_last ys wlo fh : 1 <= zlen ys -> all_pos fh ->
  naive_predict SLast 1 wlo ys fh = Ok (map (fun _ => znth ys (zlen ys - 1)) fh).
Proof.
  intros Hn Hpos. unfold naive_predict.
  assert (Hres : resolve_wl SLast 1 wlo (zlen ys) = Ok 1).
  { unfold resolve_wl. cbn [Z.eqb Pos.eqb]. destruct (zlen ys <? 1) eqn:E; [lia|reflexivity]. }
  rewrite Hres.
  rewrite predict_oos by exact Hpos. apply map_nonempty_match. intros _.
  rewrite kernel_last. destruct (window_last ys 1 ltac:(lia)) as [_ Hl]. rewrite Hl.
  rewrite window_znth by lia. f_equal. apply map_ext. intros _. f_equal; lia.
Qed.

(* the position, inside the last season of the training series, that is congruent to the target
   n-1+h: the target moved back by the smallest whole number of seasons that lands in the sample *)
Definition last_same_season (n sp h : Z) : Z := n - 1 + h - sp * ceil_div h sp.

Lemma ceil_div_succ h sp : 0 < sp -> ceil_div h sp = (h - 1) / sp + 1.
Proof.
  intro Hsp. unfold ceil_div. replace (h + sp - 1) with (h - 1 + 1 * sp) by lia.
  rewrite Z.div_add by lia. reflexivity.
Qed.

Lemma last_same_season_spec n sp h : 0 < sp ->
  let p := last_same_season n sp h in
  n - sp <= p <= n - 1 /\ congb sp p (n - 1 + h) = true /\
  (forall p', n - sp <= p' <= n - 1 -> congb sp p' (n - 1 + h) = true -> p' = p).
Proof.
  intros Hsp p. subst p. unfold last_same_season. rewrite ceil_div_succ by lia.
  pose proof (Z.div_mod (h - 1) sp ltac:(lia)) as E.
  pose proof (Z.mod_pos_bound (h - 1) sp Hsp) as B.
  split; [nia|]. split.
  - unfold congb. replace (n - 1 + h - sp * ((h - 1) / sp + 1) - (n - 1 + h))
      with (- ((h - 1) / sp + 1) * sp) by lia. rewrite Z.mod_mul by lia. reflexivity.
  - intros p' Hp' Hc. unfold congb in Hc. apply Z.eqb_eq in Hc.
    apply Z.mod_divide in Hc; [|lia]. destruct Hc as [k Hk].
    remember ((h - 1) / sp) as q. remember ((h - 1) mod sp) as m.
    assert (Ht : sp * (q + k) = p' - n - m) by lia.
    remember (q + k) as t.
    assert (t = -1) by nia. nia.
Qed.

Lemma naive_seasonal_last ys sp wlo fh : 1 < sp <= zlen ys -> sorted_lt fh -> all_pos fh ->
  naive_predict SLast sp wlo ys fh =
  Ok (map (fun h => znth ys (last_same_season (zlen ys) sp h)) fh).
Proof.
  intros Hsp Hsorted Hpos. unfold naive_predict.
  assert (Hres : resolve_wl SLast sp wlo (zlen ys) = Ok sp).
  { unfold resolve_wl. destruct (sp =? 1) eqn:E1; [lia|]. destruct (sp <? 1) eqn:E2; [lia|].
    destruct (zlen ys <? sp) eqn:E3; [lia|reflexivity]. }
  rewrite Hres.
  rewrite predict_oos by exact Hpos. apply map_nonempty_match. intros _.
  destruct (window_last ys sp ltac:(lia)) as [_ Hl].
  rewrite kernel_seasonal_last; try assumption; try lia.
  f_equal. apply map_ext_in. intros h Hin. rewrite Hl.
  pose proof (Z.mod_pos_bound (h - 1) sp ltac:(lia)) as B.
  replace (sp - sp + (h - 1) mod sp) with ((h - 1) mod sp) by lia.
  rewrite window_znth by lia. f_equal. unfold last_same_season.
  rewrite ceil_div_succ by lia. pose proof (Z.div_mod (h - 1) sp ltac:(lia)). lia.
Qed.

(* mean of the last window *)
Lemma naive_mean ys wlo wl fh : resolve_wl SMean 1 wlo (zlen ys) = Ok wl -> 1 <= wl -> all_pos fh ->
  naive_predict SMean 1 wlo ys fh =
  Ok (map (fun _ => nanmean (skipn (Z.to_nat (zlen ys - wl)) ys)) fh).
Proof.
  intros Hres Hwl Hpos. unfold naive_predict. rewrite Hres.
  apply resolve_ok in Hres. destruct Hres as [_ [Hle _]].
  rewrite predict_oos by exact Hpos. apply map_nonempty_match. intros _.
  rewrite kernel_mean. destruct (window_last ys wl ltac:(lia)) as [Hw _]. rewrite Hw. reflexivity.
Qed.

(* seasonal mean, in series coordinates: the mean of the non-missing observations among the last wl
   whose position is congruent to the target position n-1+h, for EVERY window length wl *)
Definition seasonal_mean_series (sp wl : Z) (ys : list oq) (h : Z) : oq :=
  let n := zlen ys in
  nanmean (sel (fun p => congb sp p (n - 1 + h)) (n - wl) (skipn (Z.to_nat (n - wl)) ys)).

Lemma naive_seasonal_mean_aligned ys sp wlo wl fh :
  1 < sp -> resolve_wl SMean sp wlo (zlen ys) = Ok wl -> 1 <= wl -> sorted_lt fh -> all_pos fh ->
  naive_predict SMean sp wlo ys fh = Ok (map (seasonal_mean_series sp wl ys) fh).
Proof.
  intros Hsp Hres Hwl Hsorted Hpos. unfold naive_predict. rewrite Hres.
  apply resolve_ok in Hres. destruct Hres as [_ [Hle _]].
  rewrite predict_oos by exact Hpos. apply map_nonempty_match. intros _.
  destruct (window_last ys wl ltac:(lia)) as [Hw Hl].
  rewrite (kernel_seasonal_mean_aux sp wl); try assumption; try lia.
  f_equal. apply map_ext. intro h. unfold seasonal_mean_spec, seasonal_mean_series. cbv zeta.
  rewrite Hw. f_equal. apply sel_ext. intros k Hk. unfold congb. do 2 f_equal. lia.
Qed.

(* drift: the line through the first and last observation of the window (positions n-wl and n-1) *)
Lemma naive_drift ys sp wlo wl a b fh :
  resolve_wl SDrift sp wlo (zlen ys) = Ok wl -> 2 <= wl ->
  znth ys (zlen ys - wl) = Some a -> znth ys (zlen ys - 1) = Some b -> all_pos fh ->
  naive_predict SDrift sp wlo ys fh = Ok (map (fun h => Some (drift_value wl a b h)) fh) /\
  forall h, (drift_value wl a b h ==
             line (zlen ys - wl) (zlen ys - 1) a b (zlen ys - 1 + h))%Q.
Proof.
  intros Hres Hwl Ha Hb Hpos. split.
  - unfold naive_predict. rewrite Hres. apply resolve_ok in Hres. destruct Hres as [_ [Hle _]].
    rewrite predict_oos by exact Hpos. apply map_nonempty_match. intros _.
    destruct (window_last ys wl ltac:(lia)) as [_ Hl].
    rewrite (kernel_drift sp _ a b fh).
    + rewrite Hl. reflexivity.
    + lia.
    + rewrite window_znth by lia. rewrite <- Ha. f_equal; lia.
    + rewrite Hl. rewrite window_znth by lia. rewrite <- Hb. f_equal; lia.
  - intro h. rewrite drift_value_on_line by lia. unfold line.
    replace (wl - 1 + h - 0) with (zlen ys - 1 + h - (zlen ys - wl)) by lia.
    replace (wl - 1 - 0) with (zlen ys - 1 - (zlen ys - wl)) by lia. reflexivity.
Qed.

(* a horizon with in-sample and out-of-sample steps is served step by step for the in-sample part
   and in one go for the out-of-sample part *)
Lemma predict_split s sp wl ys fh :
  naive_predict_wl s sp wl ys fh =
  rconcat (map (fun r => naive_predict_wl s sp wl ys [r]) (filter (fun r => r <=? 0) fh)
           ++ match filter (fun r => 0 <? r) fh with
              | [] => []
              | oos => [naive_predict_wl s sp wl ys oos]
              end).
Proof.
  unfold naive_predict_wl at 1. f_equal. f_equal.
  - apply map_ext_in. intros r Hr. apply filter_In in Hr. destruct Hr as [_ Hr].
    unfold naive_predict_wl. cbn [filter]. rewrite Hr.
    destruct (0 <? r) eqn:E; [lia|]. cbn [map app]. rewrite rconcat_single. reflexivity.
  - destruct (filter (fun r => 0 <? r) fh) as [|h t] eqn:E; [reflexivity|].
    f_equal. rewrite predict_oos; [reflexivity|].
    intros x Hx. rewrite <- E in Hx. apply filter_In in Hx. lia.
Qed.

(* ---- polynomial trend: normal equations => least squares ---------------------------------------------- *)

Open Scope Q_scope.

Lemma sumf_cons {A} (f : A -> Q) x l : sumf f (x :: l) = f x + sumf f l.
Proof. reflexivity. Qed.
Lemma sumf_ext {A} (f g : A -> Q) l : (forall x, f x == g x) -> sumf f l == sumf g l.
Proof.
  intro H. induction l as [|x l IH]; [reflexivity|]. rewrite !sumf_cons, (H x), IH. reflexivity.
Qed.
Lemma sumf_plus {A} (f g : A -> Q) l : sumf (fun x => f x + g x) l == sumf f l + sumf g l.
Proof. induction l as [|x l IH]; [reflexivity|]. rewrite !sumf_cons, IH. ring. Qed.
Lemma sumf_scale {A} c (f : A -> Q) l : sumf (fun x => c * f x) l == c * sumf f l.
Proof. induction l as [|x l IH]; [cbn; ring|]. rewrite !sumf_cons, IH. ring. Qed.
Lemma sumf_zero {A} (l : list A) : sumf (fun _ => 0) l == 0.
Proof. induction l as [|x l IH]; [reflexivity|]. rewrite sumf_cons, IH. ring. Qed.
Lemma sumf_nonneg {A} (f : A -> Q) l : (forall x, 0 <= f x) -> 0 <= sumf f l.
Proof.
  intro H. induction l as [|x l IH]; [cbn; lra|]. rewrite sumf_cons. specialize (H x). lra.
Qed.

Lemma peval_cons c b t : peval (c :: b) t = c + t * peval b t.
Proof. reflexivity. Qed.

Lemma peval_sub : forall b' b t, length b' = length b ->
  peval (map2 Qminus b' b) t == peval b' t - peval b t.
Proof.
  induction b' as [|c' b' IH]; intros b t Hlen; destruct b as [|c b]; try discriminate.
  - cbn. ring.
  - cbn [map2]. rewrite !peval_cons, IH by (cbn in Hlen; congruence). ring.
Qed.

Lemma map2_length : forall (f : Q -> Q -> Q) a b, length a = length b -> length (map2 f a b) = length b.
Proof.
  induction a as [|x a IH]; intros b H; destruct b as [|y b]; try discriminate; [reflexivity|].
  cbn [map2 length]. f_equal. apply IH. cbn in H. congruence.
Qed.

(* if the residuals r are orthogonal to the features t^(k+j), j < len d, they are orthogonal to every
   polynomial t^k * d(t) *)
Lemma cross_zero (r : Q * Q -> Q) pts : forall d (k : nat),
  (forall j, (j < length d)%nat -> sumf (fun p => qpw (fst p) (k + j) * r p) pts == 0) ->
  sumf (fun p => qpw (fst p) k * peval d (fst p) * r p) pts == 0.
Proof.
  induction d as [|c d IH]; intros k H.
  - rewrite (sumf_ext _ (fun _ => 0)); [apply sumf_zero|]. intro p. cbn [peval fold_right]. ring.
  - rewrite (sumf_ext _ (fun p => c * (qpw (fst p) (k + 0) * r p)
                                  + qpw (fst p) (S k) * peval d (fst p) * r p)).
    2:{ intro p. rewrite peval_cons, Nat.add_0_r. cbn [qpw]. ring. }
    rewrite sumf_plus, sumf_scale. rewrite (H 0%nat) by (cbn [length]; lia).
    rewrite IH; [ring|]. intros j Hj.
    replace (S k + j)%nat with (k + S j)%nat by lia. apply H. cbn [length]. lia.
Qed.

Lemma normal_ok_spec k0 b pts : normal_ok k0 b pts = true ->
  forall j, (j < length b)%nat -> sumf (fun p => qpw (fst p) (k0 + j) * resid k0 b p) pts == 0.
Proof.
  unfold normal_ok. intros H j Hj. rewrite forallb_forall in H.
  apply Qeq_bool_iff. apply H. apply in_seq. lia.
Qed.

(* the textbook characterisation: coefficients satisfying the normal equations minimise the sum
   of squared residuals among all coefficient vectors of the same length *)
Lemma normal_eq_minimises k0 b pts : normal_ok k0 b pts = true ->
  forall b', length b' = length b -> sse k0 b pts <= sse k0 b' pts.
Proof.
  intros Hn b' Hlen. pose proof (normal_ok_spec k0 b pts Hn) as Horth.
  set (d := map2 Qminus b' b).
  assert (Hd : length d = length b) by (apply map2_length; exact Hlen).
  set (e := fun p : Q * Q => qpw (fst p) k0 * peval d (fst p)).
  assert (Hres : forall p, resid k0 b' p == resid k0 b p - e p).
  { intro p. unfold resid, pval, e, d. rewrite peval_sub by exact Hlen. ring. }
  assert (Hcross : sumf (fun p => e p * resid k0 b p) pts == 0).
  { unfold e. apply cross_zero. intros j Hj. apply Horth. lia. }
  unfold sse.
  rewrite (sumf_ext (fun p => resid k0 b' p * resid k0 b' p)
                    (fun p => resid k0 b p * resid k0 b p
                              + ((-2 # 1) * (e p * resid k0 b p) + e p * e p))).
  2:{ intro p. rewrite Hres. ring. }
  rewrite sumf_plus, sumf_plus, sumf_scale, Hcross.
  assert (H0 : 0 <= sumf (fun p => e p * e p) pts).
  { apply sumf_nonneg. intro p. nra. }
  lra.
Qed.

Lemma poly_is_lsq degree ic ys b : poly_fit degree ic ys = Ok b ->
  exists v, all_some ys = Some v /\ length b = poly_m degree ic /\
    forall b', length b' = length b ->
      sse (poly_k0 ic) b (points v) <= sse (poly_k0 ic) b' (points v).
Proof.
  unfold poly_fit. intro H. destruct (all_some ys) as [v|]; [|discriminate].
  exists v. split; [reflexivity|].
  destruct (poly_m degree ic =? 0)%nat; [discriminate|].
  destruct (elim (poly_m degree ic) (normal_rows (poly_k0 ic) (poly_m degree ic) (points v)))
    as [b0|]; [|discriminate].
  destruct (normal_ok (poly_k0 ic) b0 (points v) && (length b0 =? poly_m degree ic)%nat) eqn:E;
    [|discriminate].
  inversion H; subst b0. apply andb_true_iff in E. destruct E as [E1 E2].
  apply Nat.eqb_eq in E2. split; [exact E2|]. apply normal_eq_minimises. exact E1.
Qed.

Lemma poly_predict_evaluates degree ic ys fh vals : poly_predict degree ic ys fh = Ok vals ->
  exists b, poly_fit degree ic ys = Ok b /\
    vals = map (fun r => Some (pval (poly_k0 ic) b (inject_Z (zlen ys - 1 + r)))) fh.
Proof.
  unfold poly_predict. destruct (poly_fit degree ic ys) as [b|]; [|discriminate].
  intro H. inversion H. exists b. split; reflexivity.
Qed.

(* degree 1 with intercept: the normal equations are the two textbook equations of the OLS line *)
Lemma line_normal_equations a s pts : normal_ok 0 [a; s] pts = true ->
  let N := sumf (fun _ => 1) pts in
  let St := sumf (fun p => fst p) pts in let Sy := sumf (fun p => snd p) pts in
  let Stt := sumf (fun p => fst p * fst p) pts in let Sty := sumf (fun p => fst p * snd p) pts in
  s * (N * Stt - St * St) == N * Sty - St * Sy /\ a * N == Sy - s * St.
Proof.
  intros Hn N St Sy Stt Sty. pose proof (normal_ok_spec 0 [a; s] pts Hn) as H.
  pose proof (H 0%nat ltac:(cbn; lia)) as H0. pose proof (H 1%nat ltac:(cbn; lia)) as H1.
  clear H Hn.
  rewrite (sumf_ext _ (fun p => snd p + ((- a) * 1 + (- s) * fst p))) in H0.
  2:{ intro p. unfold resid, pval. cbn [qpw peval fold_right Nat.add]. ring. }
  rewrite (sumf_ext _ (fun p => fst p * snd p + ((- a) * fst p + (- s) * (fst p * fst p)))) in H1.
  2:{ intro p. unfold resid, pval. cbn [qpw peval fold_right Nat.add]. ring. }
  rewrite !sumf_plus, !sumf_scale in H0, H1.
  fold N St Sy in H0. fold St Sty Stt in H1.
  change (sumf snd pts) with Sy in H0. change (sumf fst pts) with St in H0, H1.
  assert (E0 : Sy == a * N + s * St) by lra.
  assert (E1 : Sty == a * St + s * Stt) by lra.
  split; rewrite ?E0, ?E1; ring.
Qed.

(* degree 1 through the origin (with_intercept=False) *)
Lemma origin_normal_equation s pts : normal_ok 1 [s] pts = true ->
  s * sumf (fun p => fst p * fst p) pts == sumf (fun p => fst p * snd p) pts.
Proof.
  intro Hn. pose proof (normal_ok_spec 1 [s] pts Hn 0%nat ltac:(cbn; lia)) as H0.
  rewrite (sumf_ext _ (fun p => fst p * snd p + (- s) * (fst p * fst p))) in H0.
  2:{ intro p. unfold resid, pval. cbn [qpw peval fold_right Nat.add]. ring. }
  rewrite sumf_plus, sumf_scale in H0. lra.
Qed.

(* degree 0: the mean *)
Lemma mean_normal_equation a pts : normal_ok 0 [a] pts = true ->
  a * sumf (fun _ => 1) pts == sumf (fun p => snd p) pts.
Proof.
  intro Hn. pose proof (normal_ok_spec 0 [a] pts Hn 0%nat ltac:(cbn; lia)) as H0.
  rewrite (sumf_ext _ (fun p => snd p + (- a) * 1)) in H0.
  2:{ intro p. unfold resid, pval. cbn [qpw peval fold_right Nat.add]. ring. }
  rewrite sumf_plus, sumf_scale in H0.
  change (sumf (fun p : Q * Q => snd p) pts) with (sumf (@snd Q Q) pts). lra.
Qed.

Close Scope Q_scope.

(* ---- statsmodels adapter: selection of the requested steps ------------------------------------------- *)

Lemma adapter_selects n (g : Z -> oq) fh : sorted_lt fh -> fh <> [] ->
  adapter_predict n (map g (zrange (n - 1 + zfirst fh) (n - 1 + zlast fh + 1) 1)) fh
  = Ok (map (fun r => g (n - 1 + r)) fh).
Proof.
  intros Hs Hne. unfold adapter_predict. apply index_all_map. intros r Hin.
  pose proof (sorted_lt_first_min fh r Hs Hin) as Hlo.
  pose proof (sorted_lt_last_max fh r Hs Hin) as Hhi.
  unfold zget. destruct (n - 1 + r - (n - 1 + zfirst fh) <? 0) eqn:E; [lia|].
  set (k := Z.to_nat (n - 1 + r - (n - 1 + zfirst fh))).
  set (rng := zrange (n - 1 + zfirst fh) (n - 1 + zlast fh + 1) 1).
  assert (Hk : (k < length rng)%nat).
  { subst k rng. pose proof (zrange_length1 (n - 1 + zfirst fh) (n - 1 + zlast fh + 1)). lia. }
  rewrite (map_nth_error g k rng (d := n - 1 + r)); [reflexivity|].
  rewrite (nth_error_nth' _ 0 Hk). f_equal. subst k rng. rewrite zrange_nth1 by lia. lia.
Qed.

(* the cutoff has moved k observations past the end of the wrapped model's data (no refit): the
   forecasts are the wrapped model's values at the ABSOLUTE positions cutoff + r, counted from the
   start of the data it was fitted on - not its k-steps-earlier forecasts relabelled *)
Lemma adapter_at_is_adapter n0 k dense fh :
  adapter_predict_at n0 k dense fh = adapter_predict (n0 + k) dense fh.
Proof. reflexivity. Qed.

Lemma adapter_at_selects n0 k (g : Z -> oq) fh : sorted_lt fh -> fh <> [] ->
  adapter_predict_at n0 k (map g (zrange (n0 + k - 1 + zfirst fh) (n0 + k - 1 + zlast fh + 1) 1)) fh
  = Ok (map (fun r => g (n0 + k - 1 + r)) fh).
Proof. intros Hs Hne. rewrite adapter_at_is_adapter. exact (adapter_selects (n0 + k) g fh Hs Hne). Qed.
