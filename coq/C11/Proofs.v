(* C11 proofs: the implementation-shaped model (Model.v) equals the textbook definitions, for all
   series, window lengths, seasonal periods and horizons. *)
From Coq Require Import ZArith QArith Qabs List Bool Lia ZifyBool Lqa.
Require Import SkV.Lib.Base SkV.Lib.ZRange SkV.C11.Model.
Import ListNotations.
Open Scope Z_scope.
Ltac Zify.zify_post_hook ::= Z.to_euclidean_division_equations.

(* ---- list access ------------------------------------------------------------------------------ *)

Lemma zlen_nonneg {A} (l : list A) : 0 <= zlen l.
Proof. unfold zlen. lia. Qed.
Lemma zlen_cons {A} (x : A) l : zlen (x :: l) = 1 + zlen l.
Proof. unfold zlen. cbn [length]. lia. Qed.
Lemma zlen_app {A} (a b : list A) : zlen (a ++ b) = zlen a + zlen b.
Proof. unfold zlen. rewrite app_length. lia. Qed.
Lemma zlen_nil {A} : zlen (@nil A) = 0.
Proof. reflexivity. Qed.
Lemma zlen_zero_nil {A} (l : list A) : zlen l = 0 -> l = [].
Proof. destruct l; [reflexivity|]. rewrite zlen_cons. pose proof (zlen_nonneg l). lia. Qed.
Lemma zlen_map {A B} (f : A -> B) l : zlen (map f l) = zlen l.
Proof. unfold zlen. rewrite map_length. reflexivity. Qed.

Lemma zget_cons {A} (x : A) l i : zget (x :: l) i = if i =? 0 then Some x else zget l (i - 1).
Proof.
  unfold zget. destruct (i <? 0) eqn:E1.
  - destruct (i =? 0) eqn:E2; [lia|]. destruct (i - 1 <? 0) eqn:E3; [reflexivity|lia].
  - destruct (i =? 0) eqn:E2.
    + assert (i = 0) by lia. subst. reflexivity.
    + destruct (i - 1 <? 0) eqn:E3; [lia|].
      replace (Z.to_nat i) with (S (Z.to_nat (i - 1))) by lia. reflexivity.
Qed.
Lemma zget_nil {A} i : zget (@nil A) i = None.
Proof. unfold zget. destruct (i <? 0); [reflexivity|]. destruct (Z.to_nat i); reflexivity. Qed.

Lemma zget_app {A} : forall (a b : list A) i, 0 <= i ->
  zget (a ++ b) i = if i <? zlen a then zget a i else zget b (i - zlen a).
Proof.
  induction a as [|x a IH]; intros b i Hi.
  - cbn [app]. rewrite zlen_nil. destruct (i <? 0) eqn:E; [lia|]. f_equal; lia.
  - cbn [app]. rewrite !zget_cons, zlen_cons. destruct (i =? 0) eqn:E0.
    + destruct (i <? 1 + zlen a) eqn:E; [reflexivity|]. pose proof (zlen_nonneg a). lia.
    + rewrite IH by lia. destruct (i - 1 <? zlen a) eqn:E1; destruct (i <? 1 + zlen a) eqn:E2;
        try lia; [reflexivity|]. f_equal; lia.
Qed.

Lemma zget_in_range {A} : forall (l : list A) i, 0 <= i < zlen l -> exists x, zget l i = Some x.
Proof.
  induction l as [|x l IH]; intros i Hi.
  - unfold zlen in Hi. cbn [length] in Hi. lia.
  - rewrite zget_cons. destruct (i =? 0) eqn:E; [eauto|]. apply IH. rewrite zlen_cons in Hi. lia.
Qed.
Lemma zget_out_of_range {A} : forall (l : list A) i, zlen l <= i -> zget l i = None.
Proof.
  induction l as [|x l IH]; intros i Hi; [apply zget_nil|].
  rewrite zget_cons. rewrite zlen_cons in Hi. pose proof (zlen_nonneg l).
  destruct (i =? 0) eqn:E; [lia|]. apply IH. lia.
Qed.

Lemma znth_cons x l i : znth (x :: l) i = if i =? 0 then x else znth l (i - 1).
Proof. unfold znth. rewrite zget_cons. destruct (i =? 0); reflexivity. Qed.
Lemma znth_app a b i : 0 <= i -> znth (a ++ b) i = if i <? zlen a then znth a i else znth b (i - zlen a).
Proof. intro H. unfold znth. rewrite zget_app by lia. destruct (i <? zlen a); reflexivity. Qed.

Lemma zget_skipn {A} : forall (k : nat) (l : list A) i, 0 <= i ->
  zget (skipn k l) i = zget l (Z.of_nat k + i).
Proof.
  induction k as [|k IH]; intros l i Hi.
  - cbn [skipn]. f_equal; lia.
  - destruct l as [|x l]; [cbn [skipn]; rewrite !zget_nil; reflexivity|].
    cbn [skipn]. rewrite IH by lia. rewrite (zget_cons x l). destruct (Z.of_nat (S k) + i =? 0) eqn:E; [lia|].
    f_equal; lia.
Qed.
Lemma zget_firstn {A} : forall (k : nat) (l : list A) i, i < Z.of_nat k -> zget (firstn k l) i = zget l i.
Proof.
  induction k as [|k IH]; intros l i Hi.
  - unfold zget. destruct (i <? 0) eqn:E; [reflexivity|lia].
  - destruct l as [|x l]; [reflexivity|]. cbn [firstn]. rewrite !zget_cons.
    destruct (i =? 0); [reflexivity|]. apply IH. lia.
Qed.

Lemma zlen_skipn {A} (k : nat) (l : list A) : zlen (skipn k l) = Z.max 0 (zlen l - Z.of_nat k).
Proof. unfold zlen. rewrite skipn_length. lia. Qed.
Lemma zlen_firstn {A} (k : nat) (l : list A) : zlen (firstn k l) = Z.min (Z.of_nat k) (zlen l).
Proof. unfold zlen. rewrite firstn_length. lia. Qed.

(* ---- windows ------------------------------------------------------------------------------------ *)

(* the window ending at the last observation is exactly the last wl observations *)
Lemma window_last ys wl : 1 <= wl <= zlen ys ->
  window ys (zlen ys - 1) wl = skipn (Z.to_nat (zlen ys - wl)) ys /\
  zlen (window ys (zlen ys - 1) wl) = wl.
Proof.
  intro H. unfold window, zslice.
  replace (Z.max 0 (zlen ys - 1 - wl + 1)) with (zlen ys - wl) by lia.
  replace (zlen ys - 1 + 1 - (zlen ys - wl)) with wl by lia.
  assert (E : firstn (Z.to_nat wl) (skipn (Z.to_nat (zlen ys - wl)) ys)
              = skipn (Z.to_nat (zlen ys - wl)) ys).
  { apply firstn_all2. rewrite skipn_length. unfold zlen in *. lia. }
  rewrite E. split; [reflexivity|]. rewrite zlen_skipn. lia.
Qed.

(* a complete window at cutoff position c holds positions c-wl+1 .. c *)
Lemma window_znth ys c wl i : 1 <= wl -> wl - 1 <= c < zlen ys -> 0 <= i < wl ->
  znth (window ys c wl) i = znth ys (c - wl + 1 + i).
Proof.
  intros Hw Hc Hi. unfold window, zslice, znth.
  replace (Z.max 0 (c - wl + 1)) with (c - wl + 1) by lia.
  rewrite zget_firstn by lia. rewrite zget_skipn by lia.
  replace (Z.of_nat (Z.to_nat (c - wl + 1)) + i) with (c - wl + 1 + i) by lia. reflexivity.
Qed.
Lemma window_len ys c wl : 1 <= wl -> wl - 1 <= c < zlen ys -> zlen (window ys c wl) = wl.
Proof.
  intros Hw Hc. unfold window, zslice.
  replace (Z.max 0 (c - wl + 1)) with (c - wl + 1) by lia.
  rewrite zlen_firstn, zlen_skipn. lia.
Qed.

(* the window at a moved cutoff only looks at the observations up to that cutoff *)
Lemma window_prefix ys c wl (q : nat) : 0 <= wl -> c + 1 <= Z.of_nat q -> -1 <= c ->
  window (firstn q ys) c wl = window ys c wl.
Proof.
  intros Hwl Hq Hc. unfold window, zslice.
  assert (Ham : (Z.to_nat (Z.max 0 (c - wl + 1)) + Z.to_nat (c + 1 - Z.max 0 (c - wl + 1)) <= q)%nat)
    by lia.
  set (a := Z.to_nat (Z.max 0 (c - wl + 1))) in *.
  set (m := Z.to_nat (c + 1 - Z.max 0 (c - wl + 1))) in *.
  rewrite !firstn_skipn_comm. rewrite firstn_firstn.
  replace (Nat.min (a + m) q) with (a + m)%nat by lia. reflexivity.
Qed.

(* ---- tiling and step selection ------------------------------------------------------------------- *)

Lemma zlen_tile {A} (reps : nat) (l : list A) : zlen (tile reps l) = Z.of_nat reps * zlen l.
Proof.
  induction reps as [|r IH]; [reflexivity|]. cbn [tile]. rewrite zlen_app, IH. lia.
Qed.

Lemma zget_tile {A} : forall (reps : nat) (l : list A) i, 0 < zlen l ->
  0 <= i < Z.of_nat reps * zlen l -> zget (tile reps l) i = zget l (i mod zlen l).
Proof.
  induction reps as [|r IH]; intros l i Hl Hi; [lia|].
  cbn [tile]. rewrite zget_app by lia. destruct (i <? zlen l) eqn:E.
  - f_equal. rewrite Z.mod_small by lia. reflexivity.
  - rewrite IH by lia. f_equal.
    replace i with (i - zlen l + 1 * zlen l) at 2 by lia. rewrite Z.mod_add by lia. reflexivity.
Qed.

Definition all_pos (hs : list Z) : Prop := forall h, In h hs -> 1 <= h.

Lemma index_all_map : forall (l : list oq) (f : Z -> Z) (g : Z -> oq) hs,
  (forall h, In h hs -> zget l (f h) = Some (g h)) ->
  index_all l (map f hs) = Ok (map g hs).
Proof.
  induction hs as [|h t IH]; intro H; [reflexivity|].
  cbn [map index_all]. rewrite (H h (or_introl eq_refl)). rewrite IH; [reflexivity|].
  intros x Hx. apply H. right. exact Hx.
Qed.

Lemma znth_of_zget (l : list oq) i : 0 <= i < zlen l -> zget l i = Some (znth l i).
Proof.
  intro H. destruct (zget_in_range l i H) as [x Hx]. unfold znth. rewrite Hx. reflexivity.
Qed.

(* tile + to_indexer: step h reads entry (h - 1) mod sp of a table with one entry per season *)
Lemma steps_vals_spec vals sp hs : 0 < sp -> zlen vals = sp -> sorted_lt hs -> all_pos hs ->
  steps_vals vals sp hs = Ok (map (fun h => znth vals ((h - 1) mod sp)) hs).
Proof.
  intros Hsp Hlen Hsorted Hpos. unfold steps_vals.
  apply index_all_map. intros h Hin.
  pose proof (Hpos h Hin) as Hh. pose proof (sorted_lt_last_max hs h Hsorted Hin) as Hmax.
  destruct (sp <? zlast hs) eqn:E.
  - rewrite zget_tile by (rewrite ?Hlen; unfold ceil_div; nia).
    rewrite Hlen. apply znth_of_zget. rewrite Hlen. lia.
  - rewrite Z.mod_small by lia. apply znth_of_zget. lia.
Qed.

(* ---- selecting by position congruence (the textbook side) --------------------------------------- *)

(* the entries of l whose position (counted from i) satisfies P, in order *)
Fixpoint sel {A} (P : Z -> bool) (i : Z) (l : list A) : list A :=
  match l with
  | [] => []
  | x :: t => if P i then x :: sel P (i + 1) t else sel P (i + 1) t
  end.

Lemma sel_app {A} P : forall (a b : list A) i, sel P i (a ++ b) = sel P i a ++ sel P (i + zlen a) b.
Proof.
  induction a as [|x a IH]; intros b i.
  - cbn [app sel]. rewrite zlen_nil. f_equal; lia.
  - cbn [app sel]. rewrite IH, zlen_cons. replace (i + 1 + zlen a) with (i + (1 + zlen a)) by lia.
    destruct (P i); reflexivity.
Qed.

Lemma sel_ext {A} P Q : forall (l : list A) i j,
  (forall k, 0 <= k < zlen l -> P (i + k) = Q (j + k)) -> sel P i l = sel Q j l.
Proof.
  induction l as [|x l IH]; intros i j H; [reflexivity|].
  cbn [sel]. rewrite zlen_cons in H. pose proof (zlen_nonneg l).
  assert (E : P i = Q j). { specialize (H 0). rewrite !Z.add_0_r in H. apply H. lia. }
  rewrite E. rewrite (IH (i + 1) (j + 1)); [reflexivity|].
  intros k Hk. specialize (H (1 + k)). rewrite !Z.add_assoc in H. apply H. lia.
Qed.

Lemma mod_succ sp i m : 0 < sp -> i mod sp = m -> m + 1 < sp -> (i + 1) mod sp = m + 1.
Proof.
  intros Hsp Hm Hlt. subst m. rewrite Zplus_mod. rewrite (Z.mod_small 1) by lia.
  apply Z.mod_small. pose proof (Z.mod_pos_bound i sp Hsp). lia.
Qed.

(* within one season (positions i0 .. i0+len-1 with residues m0 .. m0+len-1 < sp) at most one
   position has residue j *)
Lemma sel_one_season sp j : 0 < sp -> forall (c : list oq) i0 m0,
  0 <= m0 -> m0 + zlen c <= sp -> i0 mod sp = m0 ->
  sel (fun i => i mod sp =? j) i0 c =
  if (m0 <=? j) && (j <? m0 + zlen c) then [znth c (j - m0)] else [].
Proof.
  intros Hsp. induction c as [|x c IH]; intros i0 m0 Hm0 Hlen Hmod.
  - cbn [sel]. rewrite zlen_nil. destruct ((m0 <=? j) && (j <? m0 + 0)) eqn:E; [lia|reflexivity].
  - cbn [sel]. rewrite zlen_cons in *. pose proof (zlen_nonneg c) as Hc.
    destruct c as [|y c'].
    + cbn [sel]. rewrite zlen_nil in *. rewrite Hmod.
      destruct (m0 =? j) eqn:E.
      * assert (j = m0) by lia. subst j. replace (m0 - m0) with 0 by lia.
        destruct ((m0 <=? m0) && (m0 <? m0 + (1 + 0))) eqn:E2; [reflexivity|lia].
      * destruct ((m0 <=? j) && (j <? m0 + (1 + 0))) eqn:E2; [lia|reflexivity].
    + assert (Hnext : (i0 + 1) mod sp = m0 + 1).
      { rewrite zlen_cons in Hlen. pose proof (zlen_nonneg c'). apply mod_succ; lia. }
      rewrite (IH (i0 + 1) (m0 + 1)) by lia. rewrite Hmod.
      destruct (m0 =? j) eqn:E.
      * assert (j = m0) by lia. subst j. replace (m0 - m0) with 0 by lia.
        destruct ((m0 + 1 <=? m0) && (m0 <? m0 + 1 + zlen (y :: c'))) eqn:E2; [lia|].
        destruct ((m0 <=? m0) && (m0 <? m0 + (1 + zlen (y :: c')))) eqn:E3; [reflexivity|lia].
      * destruct ((m0 + 1 <=? j) && (j <? m0 + 1 + zlen (y :: c'))) eqn:E2;
        destruct ((m0 <=? j) && (j <? m0 + (1 + zlen (y :: c')))) eqn:E3; try lia; [|reflexivity].
        rewrite (znth_cons x (y :: c')). destruct (j - m0 =? 0) eqn:E4; [lia|].
        replace (j - m0 - 1) with (j - (m0 + 1)) by lia. reflexivity.
Qed.

(* column j of the row-major reshape = the entries at positions congruent to j *)
Lemma zcol_chunks sp j : 0 < sp -> 0 <= j < sp -> forall (rows : nat) (l : list oq) i0,
  zlen l = Z.of_nat rows * sp -> i0 mod sp = 0 ->
  zcol j (chunks rows (Z.to_nat sp) l) = sel (fun i => i mod sp =? j) i0 l.
Proof.
  intros Hsp Hj. induction rows as [|r IH]; intros l i0 Hlen Hmod.
  - rewrite (zlen_zero_nil l) by lia. reflexivity.
  - cbn [chunks zcol map]. rewrite <- (firstn_skipn (Z.to_nat sp) l) at 3.
    rewrite sel_app.
    assert (Hc : zlen (firstn (Z.to_nat sp) l) = sp) by (rewrite zlen_firstn; nia).
    rewrite (sel_one_season sp j Hsp (firstn (Z.to_nat sp) l) i0 0) by lia.
    destruct ((0 <=? j) && (j <? 0 + zlen (firstn (Z.to_nat sp) l))) eqn:E; [|lia].
    rewrite Z.sub_0_r. cbn [app]. f_equal.
    change (map (fun row => znth row j) (chunks r (Z.to_nat sp) (skipn (Z.to_nat sp) l)))
      with (zcol j (chunks r (Z.to_nat sp) (skipn (Z.to_nat sp) l))).
    apply IH.
    + rewrite zlen_skipn. nia.
    + rewrite Hc. rewrite <- Hmod. replace (i0 + sp) with (i0 + 1 * sp) by lia.
      apply Z.mod_add. lia.
Qed.

(* ---- congruence ------------------------------------------------------------------------------------ *)

(* a = b (mod sp) *)
Definition congb (sp a b : Z) : bool := (a - b) mod sp =? 0.

Lemma eqmod_iff sp a b : 0 < sp -> (a mod sp = b mod sp <-> (a - b) mod sp = 0).
Proof.
  intro Hsp. split; intro H.
  - rewrite Zminus_mod, H, Z.sub_diag. apply Z.mod_0_l. lia.
  - replace a with (b + (a - b)) by lia. rewrite Zplus_mod, H, Z.add_0_r. apply Zmod_mod.
Qed.

Lemma mod_eqb_congb sp a b : 0 < sp -> (a mod sp =? b mod sp) = congb sp a b.
Proof.
  intro Hsp. unfold congb. pose proof (eqmod_iff sp a b Hsp) as [H1 H2].
  destruct (a mod sp =? b mod sp) eqn:E1; destruct ((a - b) mod sp =? 0) eqn:E2; try reflexivity.
  - apply Z.eqb_eq in E1. apply H1 in E1. lia.
  - apply Z.eqb_eq in E2. apply H2 in E2. lia.
Qed.

Lemma congb_shift sp a b d : 0 < sp -> a - b = d * sp -> forall x y, x - y = a - b ->
  congb sp x y = true.
Proof.
  intros Hsp H x y Hxy. unfold congb. rewrite Hxy, H. rewrite Z.mod_mul by lia. reflexivity.
Qed.

Lemma congb_add_multiple sp a b k : 0 < sp -> congb sp (a + k * sp) b = congb sp a b.
Proof.
  intro Hsp. unfold congb. replace (a + k * sp - b) with (a - b + k * sp) by lia.
  rewrite Z.mod_add by lia. reflexivity.
Qed.

(* ---- nanmean ignores NaN ---------------------------------------------------------------------------- *)

Lemma somes_app a b : somes (a ++ b) = somes a ++ somes b.
Proof. unfold somes. apply flat_map_app. Qed.

Lemma nanmean_somes a b : somes a = somes b -> nanmean a = nanmean b.
Proof. unfold nanmean. intros ->. reflexivity. Qed.

Lemma somes_sel_nan P : forall (l : list oq) i, all_nan l = true -> somes (sel P i l) = [].
Proof.
  induction l as [|x l IH]; intros i H; [reflexivity|].
  cbn [all_nan forallb] in H. apply andb_true_iff in H. destruct H as [Hx Hl].
  destruct x; [discriminate|]. cbn [sel]. destruct (P i); [|apply IH; exact Hl].
  change (somes (None :: sel P (i + 1) l)) with (somes (sel P (i + 1) l)). apply IH. exact Hl.
Qed.

Lemma all_nan_repeat k : all_nan (repeat None k) = true.
Proof. induction k as [|k IH]; [reflexivity|]. cbn [repeat all_nan forallb]. exact IH. Qed.

Lemma all_nan_znth : forall l i, all_nan l = true -> znth l i = None.
Proof.
  induction l as [|x l IH]; intros i H.
  - unfold znth. rewrite zget_nil. reflexivity.
  - cbn [all_nan forallb] in H. apply andb_true_iff in H. destruct H as [Hx Hl].
    destruct x; [discriminate|]. rewrite znth_cons. destruct (i =? 0); [reflexivity|].
    apply IH. exact Hl.
Qed.

Lemma all_nan_last : forall l, all_nan l = true -> last l None = None.
Proof.
  induction l as [|x l IH]; intro H; [reflexivity|].
  cbn [all_nan forallb] in H. apply andb_true_iff in H. destruct H as [Hx Hl].
  destruct x; [discriminate|]. destruct l as [|y l']; [reflexivity|].
  change (last (None :: y :: l') None) with (last (y :: l') None). apply IH. exact Hl.
Qed.

(* ---- arithmetic of the padded reshape ---------------------------------------------------------------- *)

Lemma pad_rows sp wl : 0 < sp -> 0 <= wl ->
  (if 0 <? wl mod sp then sp - wl mod sp else 0) + wl = ceil_div wl sp * sp.
Proof.
  intros Hsp Hwl. unfold ceil_div.
  pose proof (Z.div_mod wl sp ltac:(lia)) as E. pose proof (Z.mod_pos_bound wl sp Hsp) as B.
  destruct (0 <? wl mod sp) eqn:Hr.
  - assert (Hq : (wl + sp - 1) / sp = wl / sp + 1).
    { symmetry. apply (Z.div_unique _ _ _ (wl mod sp - 1)); lia. }
    rewrite Hq. lia.
  - assert (Hq : (wl + sp - 1) / sp = wl / sp).
    { symmetry. apply (Z.div_unique _ _ _ (sp - 1)); lia. }
    rewrite Hq. lia.
Qed.

Lemma znth_map_zrange (f : Z -> oq) n j : 0 <= j < n -> znth (map f (zrange 0 n 1)) j = f j.
Proof.
  intro Hj. unfold znth, zget. destruct (j <? 0) eqn:E; [lia|].
  assert (Hlen : (Z.to_nat j < length (zrange 0 n 1))%nat).
  { pose proof (zrange_length1 0 n). lia. }
  rewrite (map_nth_error f (Z.to_nat j) (zrange 0 n 1) (d := j)); [reflexivity|].
  rewrite (nth_error_nth' _ 0 Hlen). f_equal. rewrite zrange_nth1 by lia. lia.
Qed.

(* ---- the naive kernel on a complete window ------------------------------------------------------------ *)

Lemma empty_or_nan_all_nan (w : list oq) : (zlen w =? 0) || all_nan w = true -> all_nan w = true.
Proof.
  intro H. apply orb_true_iff in H. destruct H as [H|H]; [|exact H].
  rewrite (zlen_zero_nil w) by lia. reflexivity.
Qed.

(* textbook seasonal mean: the mean of the non-missing window observations whose position p in the
   window is congruent to the target's position wl - 1 + h *)
Definition seasonal_mean_spec (sp wl : Z) (w : list oq) (h : Z) : oq :=
  nanmean (sel (fun p => congb sp p (wl - 1 + h)) 0 w).

Lemma zlen_repeat {A} (x : A) k : zlen (repeat x k) = Z.of_nat k.
Proof. unfold zlen. rewrite repeat_length. reflexivity. Qed.

Lemma kernel_seasonal_mean sp wl w hs :
  1 < sp -> zlen w = wl -> sorted_lt hs -> all_pos hs ->
  kernel SMean sp wl w hs = Ok (map (seasonal_mean_spec sp wl w) hs).
Proof.
  intros Hsp Hlen Hsorted Hpos. pose proof (zlen_nonneg w) as Hw0. unfold kernel.
  destruct ((zlen w =? 0) || all_nan w) eqn:E0.
  - apply empty_or_nan_all_nan in E0. unfold const_all. f_equal. apply map_ext. intro h.
    unfold seasonal_mean_spec, nanmean. rewrite somes_sel_nan by exact E0. reflexivity.
  - destruct (sp =? 1) eqn:E1; [lia|]. cbv zeta.
    set (pad := if 0 <? wl mod sp then sp - wl mod sp else 0).
    assert (Hpad : pad + wl = ceil_div wl sp * sp) by (apply pad_rows; lia).
    assert (Hpad0 : 0 <= pad < sp).
    { subst pad. pose proof (Z.mod_pos_bound wl sp ltac:(lia)). destruct (0 <? wl mod sp) eqn:Epad; lia. }
    assert (Hrows : 0 <= ceil_div wl sp) by nia.
    rewrite zlen_app, zlen_repeat, Hlen, Z2Nat.id by lia.
    destruct (pad + wl =? ceil_div wl sp * sp) eqn:E2; [|lia].
    rewrite steps_vals_spec; try assumption; try lia.
    2:{ rewrite zlen_map. pose proof (zrange_length1 0 sp). unfold zlen. lia. }
    f_equal. apply map_ext_in. intros h Hin.
    pose proof (Z.mod_pos_bound (h - 1) sp ltac:(lia)) as Hj.
    rewrite znth_map_zrange by lia.
    rewrite (zcol_chunks sp ((h - 1) mod sp) ltac:(lia) Hj (Z.to_nat (ceil_div wl sp)) _ 0).
    2:{ rewrite zlen_app, zlen_repeat, Hlen. lia. }
    2:{ apply Z.mod_0_l. lia. }
    unfold seasonal_mean_spec. apply nanmean_somes.
    rewrite sel_app, somes_app. rewrite somes_sel_nan by apply all_nan_repeat. cbn [app].
    f_equal. rewrite zlen_repeat, Z2Nat.id by lia. apply sel_ext. intros k Hk.
    rewrite <- (Zmod_mod (h - 1) sp) at 1. rewrite Zmod_mod.
    rewrite mod_eqb_congb by lia.
    rewrite <- (congb_add_multiple sp (0 + k) (wl - 1 + h) (ceil_div wl sp)) by lia.
    unfold congb. f_equal. f_equal. lia.
Qed.
