(* C11 property theorems: the implementation-shaped model of Model.v (front NaN padding, row-major
   reshape, column nanmean, tiling, step-1 indexing; moving-cutoff windows; normal equations)
   equals the textbook definitions.  Statements only, each closed by `exact`. *)
From Coq Require Import ZArith QArith List Bool.
Require Import SkV.Lib.Base SkV.Lib.ZRange SkV.C11.Model SkV.C11.Proofs.
Import ListNotations.
Open Scope Z_scope.

(* window length per strategy, and exactly the documented rejections *)
Theorem C11_window_length_resolution : forall s sp wlo n,
  (forall w, resolve_wl s sp wlo n = Ok w ->
     w = documented_wl s sp wlo n /\ w <= n /\ ~ documented_reject s sp wlo) /\
  (resolve_wl s sp wlo n = Err <-> (documented_reject s sp wlo \/ n < documented_wl s sp wlo n)).
Proof. intros s sp wlo n. split; [intro w; exact (resolve_ok s sp wlo n w)|exact (resolve_err s sp wlo n)]. Qed.
Print Assumptions C11_window_length_resolution.

(* strategy "last", sp = 1: every step gets the last observation *)
Theorem C11_naive_last : forall ys wlo fh, 1 <= zlen ys -> all_pos fh ->
  naive_predict SLast 1 wlo ys fh = Ok (map (fun _ => znth ys (zlen ys - 1)) fh).
Proof. exact naive_last. Qed.
Print Assumptions C11_naive_last.

(* strategy "last", sp > 1: step h gets the observation at THE position of the last season that is
   congruent to the target position n-1+h, for every horizon (also beyond one season) *)
Theorem C11_naive_seasonal_last_aligned : forall ys sp wlo fh,
  1 < sp <= zlen ys -> sorted_lt fh -> all_pos fh ->
  naive_predict SLast sp wlo ys fh =
    Ok (map (fun h => znth ys (last_same_season (zlen ys) sp h)) fh) /\
  forall h, let p := last_same_season (zlen ys) sp h in
    zlen ys - sp <= p <= zlen ys - 1 /\ congb sp p (zlen ys - 1 + h) = true /\
    (forall p', zlen ys - sp <= p' <= zlen ys - 1 -> congb sp p' (zlen ys - 1 + h) = true -> p' = p).
Proof.
  intros ys sp wlo fh Hsp Hs Hp. split; [exact (naive_seasonal_last ys sp wlo fh Hsp Hs Hp)|].
  intro h. apply last_same_season_spec. destruct Hsp as [Hsp _].
  exact (Z.lt_trans 0 1 sp Z.lt_0_1 Hsp).
Qed.
Print Assumptions C11_naive_seasonal_last_aligned.

(* strategy "mean", sp = 1: the mean of the non-missing observations among the last wl *)
Theorem C11_naive_mean : forall ys wlo wl fh,
  resolve_wl SMean 1 wlo (zlen ys) = Ok wl -> 1 <= wl -> all_pos fh ->
  naive_predict SMean 1 wlo ys fh =
  Ok (map (fun _ => nanmean (skipn (Z.to_nat (zlen ys - wl)) ys)) fh).
Proof. exact naive_mean. Qed.
Print Assumptions C11_naive_mean.

(* strategy "mean", sp > 1: step h gets the mean of the non-missing observations among the last wl
   whose position is congruent to the target position n-1+h - for EVERY window length wl, multiple
   of sp or not, and every horizon *)
Theorem C11_naive_seasonal_mean_aligned : forall ys sp wlo wl fh,
  1 < sp -> resolve_wl SMean sp wlo (zlen ys) = Ok wl -> 1 <= wl -> sorted_lt fh -> all_pos fh ->
  naive_predict SMean sp wlo ys fh =
  Ok (map (fun h => nanmean (sel (fun p => congb sp p (zlen ys - 1 + h)) (zlen ys - wl)
                                 (skipn (Z.to_nat (zlen ys - wl)) ys))) fh).
Proof. exact naive_seasonal_mean_aligned. Qed.
Print Assumptions C11_naive_seasonal_mean_aligned.

(* the same on the window itself (what `_predict_last_window` sees): positions p of the window
   congruent to wl-1+h *)
Theorem C11_seasonal_mean_kernel_any_window_length : forall sp wl w hs,
  1 < sp -> zlen w = wl -> sorted_lt hs -> all_pos hs ->
  kernel SMean sp wl w hs =
  Ok (map (fun h => nanmean (sel (fun p => congb sp p (wl - 1 + h)) 0 w)) hs).
Proof. exact kernel_seasonal_mean. Qed.
Print Assumptions C11_seasonal_mean_kernel_any_window_length.

(* strategy "drift": the straight line through the first and last observation of the window,
   evaluated at the target position; a missing end point is an error *)
Theorem C11_naive_drift : forall ys sp wlo wl a b fh,
  resolve_wl SDrift sp wlo (zlen ys) = Ok wl -> 2 <= wl ->
  znth ys (zlen ys - wl) = Some a -> znth ys (zlen ys - 1) = Some b -> all_pos fh ->
  naive_predict SDrift sp wlo ys fh = Ok (map (fun h => Some (drift_value wl a b h)) fh) /\
  forall h, (drift_value wl a b h == line (zlen ys - wl) (zlen ys - 1) a b (zlen ys - 1 + h))%Q.
Proof. exact naive_drift. Qed.
Print Assumptions C11_naive_drift.

Theorem C11_line_through_end_points : forall x0 x1 a b, x0 <> x1 ->
  (line x0 x1 a b x0 == a)%Q /\ (line x0 x1 a b x1 == b)%Q.
Proof. intros x0 x1 a b H. split; [exact (line_through_first x0 x1 a b)|exact (line_through_last x0 x1 a b H)]. Qed.
Print Assumptions C11_line_through_end_points.

Theorem C11_naive_drift_missing_end_point : forall sp wl w hs,
  2 <= wl -> zlen w = wl -> all_nan w = false -> (znth w 0 = None \/ znth w (wl - 1) = None) ->
  kernel SDrift sp wl w hs = Err.
Proof. exact kernel_drift_missing_end. Qed.
Print Assumptions C11_naive_drift_missing_end_point.

(* in-sample steps: the forecast for position q = n-1+r (r <= 0) is the one-step-ahead forecast made
   from the first q observations only (moving cutoff), with the window length resolved at fit;
   mixed horizons are served step by step in-sample, then out-of-sample *)
Theorem C11_naive_in_sample : forall s sp wl ys r, 0 <= wl -> r <= 0 -> 0 <= zlen ys - 1 + r ->
  naive_predict_wl s sp wl ys [r] =
  naive_predict_wl s sp wl (firstn (Z.to_nat (zlen ys - 1 + r)) ys) [1].
Proof. exact predict_in_sample. Qed.
Print Assumptions C11_naive_in_sample.

Theorem C11_naive_mixed_horizon : forall s sp wl ys fh,
  naive_predict_wl s sp wl ys fh =
  rconcat (map (fun r => naive_predict_wl s sp wl ys [r]) (filter (fun r => r <=? 0) fh)
           ++ match filter (fun r => 0 <? r) fh with
              | [] => []
              | oos => [naive_predict_wl s sp wl ys oos]
              end).
Proof. exact predict_split. Qed.
Print Assumptions C11_naive_mixed_horizon.

(* polynomial trend: coefficients satisfying the normal equations minimise the squared error *)
Theorem C11_normal_equations_minimise : forall k0 b pts, normal_ok k0 b pts = true ->
  forall b', length b' = length b -> (sse k0 b pts <= sse k0 b' pts)%Q.
Proof. exact normal_eq_minimises. Qed.
Print Assumptions C11_normal_equations_minimise.

(* partial: WHENEVER the model's fit returns coefficients they are the least-squares polynomial of
   the requested degree (all degrees, both intercept options) and predict evaluates it at the
   requested positions, in-sample or out-of-sample; that the elimination succeeds whenever the
   solution is unique is not proved (observed on every correspondence case) *)
Theorem C11_poly_is_lsq_partial : forall degree ic ys fh vals,
  poly_predict degree ic ys fh = Ok vals ->
  exists b v, all_some ys = Some v /\ length b = poly_m degree ic /\
    (forall b', length b' = length b ->
       (sse (poly_k0 ic) b (points v) <= sse (poly_k0 ic) b' (points v))%Q) /\
    vals = map (fun r => Some (pval (poly_k0 ic) b (inject_Z (zlen ys - 1 + r)))) fh.
Proof.
  intros degree ic ys fh vals H. destruct (poly_predict_evaluates degree ic ys fh vals H) as [b [Hf Hv]].
  destruct (poly_is_lsq degree ic ys b Hf) as [v [Hv1 [Hv2 Hv3]]].
  exists b, v. exact (conj Hv1 (conj Hv2 (conj Hv3 Hv))).
Qed.
Print Assumptions C11_poly_is_lsq_partial.

(* degree <= 1 in closed form: the normal equations are the textbook equations of the mean, the OLS
   line (slope * (N Stt - St^2) = N Sty - St Sy, intercept * N = Sy - slope * St) and the line
   through the origin *)
Theorem C11_poly_degree1_is_ols_line : forall a s pts, normal_ok 0 [a; s] pts = true ->
  let N := sumf (fun _ => 1%Q) pts in
  let St := sumf (fun p => fst p) pts in let Sy := sumf (fun p => snd p) pts in
  let Stt := sumf (fun p => fst p * fst p)%Q pts in let Sty := sumf (fun p => fst p * snd p)%Q pts in
  (s * (N * Stt - St * St) == N * Sty - St * Sy /\ a * N == Sy - s * St)%Q.
Proof. exact line_normal_equations. Qed.
Print Assumptions C11_poly_degree1_is_ols_line.

Theorem C11_poly_degree1_through_origin : forall s pts, normal_ok 1 [s] pts = true ->
  (s * sumf (fun p => fst p * fst p) pts == sumf (fun p => fst p * snd p) pts)%Q.
Proof. exact origin_normal_equation. Qed.
Print Assumptions C11_poly_degree1_through_origin.

Theorem C11_poly_degree0_is_mean : forall a pts, normal_ok 0 [a] pts = true ->
  (a * sumf (fun _ => 1) pts == sumf (fun p => snd p) pts)%Q.
Proof. exact mean_normal_equation. Qed.
Print Assumptions C11_poly_degree0_is_mean.

(* statsmodels adapters: out of the wrapped model's dense forecast g for positions
   n-1+fh[0] .. n-1+fh[-1] exactly the requested steps are returned, in order *)
Theorem C11_adapter_selects_requested_steps : forall n (g : Z -> oq) fh, sorted_lt fh -> fh <> [] ->
  adapter_predict n (map g (zrange (n - 1 + zfirst fh) (n - 1 + zlast fh + 1) 1)) fh
  = Ok (map (fun r => g (n - 1 + r)) fh).
Proof. exact adapter_selects. Qed.
Print Assumptions C11_adapter_selects_requested_steps.

(* the hypotheses are satisfiable by a non-trivial instance: sp = 3, window of 5 (not a multiple of
   3), a missing value, horizons beyond two seasons; and a quadratic fit exists *)
Example C11_nonvacuous :
  let ys := [Some 1; Some 2; Some 4; None; Some 16; Some 32; Some 64]%Q in
  resolve_wl SMean 3 (Some 5) (zlen ys) = Ok 5 /\ sorted_lt [1; 2; 5; 7] /\
  naive_predict SMean 3 (Some 5) ys [1; 2; 5; 7]
    = Ok [Some 16%Q; Some (36 # 2)%Q; Some (36 # 2)%Q; Some 16%Q] /\
  poly_fit 2 true [Some 1; Some 2; Some 4; Some 8]%Q = Ok [(21 # 20)%Q; (1 # 20)%Q; (3 # 4)%Q].
Proof. vm_compute. repeat split; reflexivity. Qed.
