(* C11 property theorems: the implementation-shaped model of Model.v (front NaN padding, row-major
   reshape, column nanmean, tiling, step-1 indexing; moving-cutoff windows; normal equations)
   equals the textbook definitions.  Statements only, each closed by `exact`. *)
From Coq Require Import ZArith QArith List Bool.
Require Import SkV.Lib.Base SkV.Lib.ZRange SkV.C11.Model SkV.C11.Proofs SkV.C11.Gen SkV.C11.Bridge.
Require Import SkV.C11.OptsModel SkV.C11.GenOpts SkV.C11.OptsBridge.
Require Import SkV.C11.GenAdapter SkV.C11.AdapterBridge.
Import ListNotations.
Open Scope Z_scope.

(* window length per strategy, and exactly the documented rejections: invalid sp / window_length
   (where the strategy reads them), a seasonal-mean window - given, or by default the whole
   training series - shorter than one season, a drift window - given or default - of a single
   point, a window longer than the training series *)
Theorem C11_window_length_resolution : forall s sp wlo n,
  (forall w, resolve_wl s sp wlo n = Ok w ->
     w = documented_wl s sp wlo n /\ w <= n /\ valid_params s sp wlo /\
     ~ documented_reject s sp wlo n) /\
  (resolve_wl s sp wlo n = Err <->
     (~ valid_params s sp wlo \/ documented_reject s sp wlo n \/ n < documented_wl s sp wlo n)).
Proof. intros s sp wlo n. split; [intro w; exact (resolve_ok s sp wlo n w)|exact (resolve_err s sp wlo n)]. Qed.
Print Assumptions C11_window_length_resolution.

(* strategy "last", sp = 1: every step gets the last observation *)
Theorem C11_naive_last : forall ys wlo fh, 1 <= zlen ys -> all_pos fh ->
  naive_predict SLast 1 wlo ys fh = Ok (map (fun _ => znth ys (zlen ys - 1)) fh).
Proof. exact naive_last. Qed.
Print Assumptions C11_naive_last.

(* strategy "last", sp > 1: step h gets the observation at THE position of the last season that is
   congruent to the target position n-1+h, for every horizon (also beyond one season) *)
Theorem C11_naive_seasonal_last_aligned : forall ys sp wlo fh,
  1 < sp <= zlen ys -> sorted_lt fh -> all_pos fh ->
  naive_predict SLast sp wlo ys fh =
    Ok (map (fun h => znth ys (last_same_season (zlen ys) sp h)) fh) /\
  forall h, let p := last_same_season (zlen ys) sp h in
    zlen ys - sp <= p <= zlen ys - 1 /\ congb sp p (zlen ys - 1 + h) = true /\
    (forall p', zlen ys - sp <= p' <= zlen ys - 1 -> congb sp p' (zlen ys - 1 + h) = true -> p' = p).
Proof.
  intros ys sp wlo fh Hsp Hs Hp. split; [exact (naive_seasonal_last ys sp wlo fh Hsp Hs Hp)|].
  intro h. apply last_same_season_spec. destruct Hsp as [Hsp _].
  exact (Z.lt_trans 0 1 sp Z.lt_0_1 Hsp).
Qed.
Print Assumptions C11_naive_seasonal_last_aligned.

(* strategy "mean", sp = 1: the mean of the non-missing observations among the last wl *)
Theorem C11_naive_mean : forall ys wlo wl fh,
  resolve_wl SMean 1 wlo (zlen ys) = Ok wl -> 1 <= wl -> all_pos fh ->
  naive_predict SMean 1 wlo ys fh =
  Ok (map (fun _ => nanmean (skipn (Z.to_nat (zlen ys - wl)) ys)) fh).
Proof. exact naive_mean. Qed.
Print Assumptions C11_naive_mean.

(* strategy "mean", sp > 1: step h gets the mean of the non-missing observations among the last wl
   whose position is congruent to the target position n-1+h - for EVERY window length wl, multiple
   of sp or not, and every horizon *)
Theorem C11_naive_seasonal_mean_aligned : forall ys sp wlo wl fh,
  1 < sp -> resolve_wl SMean sp wlo (zlen ys) = Ok wl -> 1 <= wl -> sorted_lt fh -> all_pos fh ->
  naive_predict SMean sp wlo ys fh =
  Ok (map (fun h => nanmean (sel (fun p => congb sp p (zlen ys - 1 + h)) (zlen ys - wl)
                                 (skipn (Z.to_nat (zlen ys - wl)) ys))) fh).
Proof. exact naive_seasonal_mean_aligned. Qed.
Print Assumptions C11_naive_seasonal_mean_aligned.

(* the same on the window itself (what `_predict_last_window` sees), WHATEVER its length - the
   resolved window length, or less when the moving cutoff of an in-sample forecast is near the
   start of the series: positions p of the window congruent to the target's position len-1+h *)
Theorem C11_seasonal_mean_kernel_any_window_length : forall sp w hs,
  1 < sp -> sorted_lt hs -> all_pos hs ->
  kernel SMean sp w hs =
  Ok (map (fun h => nanmean (sel (fun p => congb sp p (zlen w - 1 + h)) 0 w)) hs).
Proof. exact kernel_seasonal_mean. Qed.
Print Assumptions C11_seasonal_mean_kernel_any_window_length.

(* seasonal last on a window of at most one season: step h reads the window position, among the sp
   positions before the target, that is congruent to the target; if the window does not reach back
   that far (negative position: `znth` is NaN there) no same-season observation exists -> NaN *)
Theorem C11_seasonal_last_kernel_short_window : forall sp w hs,
  1 < sp -> zlen w <= sp -> sorted_lt hs -> all_pos hs ->
  kernel SLast sp w hs = Ok (map (fun h => znth w (zlen w - sp + (h - 1) mod sp)) hs) /\
  forall i, i < 0 -> znth w i = None.
Proof.
  intros sp w hs H1 H2 H3 H4. split; [exact (kernel_seasonal_last sp w hs H1 H2 H3 H4)|].
  exact (znth_neg w).
Qed.
Print Assumptions C11_seasonal_last_kernel_short_window.

(* strategy "drift": the straight line through the first and last observation of the window,
   evaluated at the target position; a missing end point is an error *)
Theorem C11_naive_drift : forall ys sp wlo wl a b fh,
  resolve_wl SDrift sp wlo (zlen ys) = Ok wl -> 2 <= wl ->
  znth ys (zlen ys - wl) = Some a -> znth ys (zlen ys - 1) = Some b -> all_pos fh ->
  naive_predict SDrift sp wlo ys fh = Ok (map (fun h => Some (drift_value wl a b h)) fh) /\
  forall h, (drift_value wl a b h == line (zlen ys - wl) (zlen ys - 1) a b (zlen ys - 1 + h))%Q.
Proof. exact naive_drift. Qed.
Print Assumptions C11_naive_drift.

Theorem C11_line_through_end_points : forall x0 x1 a b, x0 <> x1 ->
  (line x0 x1 a b x0 == a)%Q /\ (line x0 x1 a b x1 == b)%Q.
Proof. intros x0 x1 a b H. split; [exact (line_through_first x0 x1 a b)|exact (line_through_last x0 x1 a b H)]. Qed.
Print Assumptions C11_line_through_end_points.

Theorem C11_naive_drift_missing_end_point : forall sp w hs,
  2 <= zlen w -> all_nan w = false -> (znth w 0 = None \/ znth w (zlen w - 1) = None) ->
  kernel SDrift sp w hs = Err.
Proof. exact kernel_drift_missing_end. Qed.
Print Assumptions C11_naive_drift_missing_end_point.

(* no line through fewer than two points: every step is NaN (reachable only in-sample: fit rejects a
   window or training series of a single point, see C11_window_length_resolution) *)
Theorem C11_naive_drift_needs_two_points : forall sp w hs, zlen w <= 1 ->
  kernel SDrift sp w hs = Ok (map (fun _ => None) hs).
Proof. exact kernel_drift_one_point. Qed.
Print Assumptions C11_naive_drift_needs_two_points.

(* in-sample steps: the forecast for position q = n-1+r (r <= 0) is the one-step-ahead forecast made
   from the first q observations only (moving cutoff), with the window length resolved at fit;
   mixed horizons are served step by step in-sample, then out-of-sample *)
Theorem C11_naive_in_sample : forall s sp wl ys r, 0 <= wl -> r <= 0 -> 0 <= zlen ys - 1 + r ->
  naive_predict_wl s sp wl ys [r] =
  naive_predict_wl s sp wl (firstn (Z.to_nat (zlen ys - 1 + r)) ys) [1].
Proof. exact predict_in_sample. Qed.
Print Assumptions C11_naive_in_sample.

Theorem C11_naive_mixed_horizon : forall s sp wl ys fh,
  naive_predict_wl s sp wl ys fh =
  rconcat (map (fun r => naive_predict_wl s sp wl ys [r]) (filter (fun r => r <=? 0) fh)
           ++ match filter (fun r => 0 <? r) fh with
              | [] => []
              | oos => [naive_predict_wl s sp wl ys oos]
              end).
Proof. exact predict_split. Qed.
Print Assumptions C11_naive_mixed_horizon.

(* in-sample values, INCLUDING the steps whose moving window is cut by the start of the series
   (fixes 73893fc / ea15ad0 / fe97d94).  q = target position; the forecast is made from the
   observations at positions lo .. q-1 with lo = max 0 (q - window length). *)

(* last / seasonal last: the observation one season before the target; NaN while the training
   series has no earlier observation of the target's season *)
Theorem C11_in_sample_last : forall ys sp wlo r, 1 <= sp <= zlen ys -> r <= 0 ->
  let q := zlen ys - 1 + r in 0 <= q ->
  naive_predict SLast sp wlo ys [r] = Ok [if q <? sp then None else znth ys (q - sp)].
Proof. intros ys sp wlo r Hsp Hr q Hq. exact (naive_in_sample_last ys sp wlo r q Hsp Hr eq_refl Hq). Qed.
Print Assumptions C11_in_sample_last.

(* mean / seasonal mean: the mean of the non-missing observations at positions lo .. q-1 congruent to
   the target (every position for sp = 1); NaN if there is none *)
Theorem C11_in_sample_mean : forall ys sp wlo wl r,
  resolve_wl SMean sp wlo (zlen ys) = Ok wl -> r <= 0 ->
  let q := zlen ys - 1 + r in let lo := Z.max 0 (q - wl) in 0 <= q ->
  naive_predict SMean sp wlo ys [r] =
  Ok [nanmean (sel (fun p => congb sp p q) lo (zslice ys lo q))].
Proof.
  intros ys sp wlo wl r Hres Hr q lo Hq.
  exact (naive_in_sample_mean ys sp wlo wl r q lo Hres Hr eq_refl Hq eq_refl).
Qed.
Print Assumptions C11_in_sample_mean.

(* drift: the line through the first and last available point, evaluated at the target; NaN when
   fewer than two points are available *)
Theorem C11_in_sample_drift : forall ys sp wlo wl r,
  resolve_wl SDrift sp wlo (zlen ys) = Ok wl -> r <= 0 ->
  let q := zlen ys - 1 + r in let lo := Z.max 0 (q - wl) in 0 <= q ->
  (q - lo <= 1 -> naive_predict SDrift sp wlo ys [r] = Ok [None]) /\
  (forall a b, 2 <= q - lo -> znth ys lo = Some a -> znth ys (q - 1) = Some b ->
     exists v, naive_predict SDrift sp wlo ys [r] = Ok [Some v] /\
               (v == line lo (q - 1) a b q)%Q).
Proof.
  intros ys sp wlo wl r Hres Hr q lo Hq.
  destruct (naive_in_sample_drift ys sp wlo wl r q lo Hres Hr eq_refl Hq eq_refl) as [H1 H2].
  split; [exact H1|]. intros a b Hab Ha Hb. destruct (H2 a b Hab Ha Hb) as [Hv Hl].
  exists (drift_value (q - lo) a b 1). exact (conj Hv Hl).
Qed.
Print Assumptions C11_in_sample_drift.

(* polynomial trend: coefficients satisfying the normal equations minimise the squared error *)
Theorem C11_normal_equations_minimise : forall k0 b pts, normal_ok k0 b pts = true ->
  forall b', length b' = length b -> (sse k0 b pts <= sse k0 b' pts)%Q.
Proof. exact normal_eq_minimises. Qed.
Print Assumptions C11_normal_equations_minimise.

(* partial: WHENEVER the model's fit returns coefficients they are the least-squares polynomial of
   the requested degree (all degrees, both intercept options) and predict evaluates it at the
   requested positions, in-sample or out-of-sample; that the elimination succeeds whenever the
   solution is unique is not proved (observed on every correspondence case) *)
Theorem C11_poly_is_lsq_partial : forall degree ic ys fh vals,
  poly_predict degree ic ys fh = Ok vals ->
  exists b v, all_some ys = Some v /\ length b = poly_m degree ic /\
    (forall b', length b' = length b ->
       (sse (poly_k0 ic) b (points v) <= sse (poly_k0 ic) b' (points v))%Q) /\
    vals = map (fun r => Some (pval (poly_k0 ic) b (inject_Z (zlen ys - 1 + r)))) fh.
Proof.
  intros degree ic ys fh vals H. destruct (poly_predict_evaluates degree ic ys fh vals H) as [b [Hf Hv]].
  destruct (poly_is_lsq degree ic ys b Hf) as [v [Hv1 [Hv2 Hv3]]].
  exists b, v. exact (conj Hv1 (conj Hv2 (conj Hv3 Hv))).
Qed.
Print Assumptions C11_poly_is_lsq_partial.

(* degree <= 1 in closed form: the normal equations are the textbook equations of the mean, the OLS
   line (slope * (N Stt - St^2) = N Sty - St Sy, intercept * N = Sy - slope * St) and the line
   through the origin *)
Theorem C11_poly_degree1_is_ols_line : forall a s pts, normal_ok 0 [a; s] pts = true ->
  let N := sumf (fun _ => 1%Q) pts in
  let St := sumf (fun p => fst p) pts in let Sy := sumf (fun p => snd p) pts in
  let Stt := sumf (fun p => fst p * fst p)%Q pts in let Sty := sumf (fun p => fst p * snd p)%Q pts in
  (s * (N * Stt - St * St) == N * Sty - St * Sy /\ a * N == Sy - s * St)%Q.
Proof. exact line_normal_equations. Qed.
Print Assumptions C11_poly_degree1_is_ols_line.

Theorem C11_poly_degree1_through_origin : forall s pts, normal_ok 1 [s] pts = true ->
  (s * sumf (fun p => fst p * fst p) pts == sumf (fun p => fst p * snd p) pts)%Q.
Proof. exact origin_normal_equation. Qed.
Print Assumptions C11_poly_degree1_through_origin.

Theorem C11_poly_degree0_is_mean : forall a pts, normal_ok 0 [a] pts = true ->
  (a * sumf (fun _ => 1) pts == sumf (fun p => snd p) pts)%Q.
Proof. exact mean_normal_equation. Qed.
Print Assumptions C11_poly_degree0_is_mean.

(* statsmodels adapters: out of the wrapped model's dense forecast g for positions
   n-1+fh[0] .. n-1+fh[-1] exactly the requested steps are returned, in order *)
Theorem C11_adapter_selects_requested_steps : forall n (g : Z -> oq) fh, sorted_lt fh -> fh <> [] ->
  adapter_predict n (map g (zrange (n - 1 + zfirst fh) (n - 1 + zlast fh + 1) 1)) fh
  = Ok (map (fun r => g (n - 1 + r)) fh).
Proof. exact adapter_selects. Qed.
Print Assumptions C11_adapter_selects_requested_steps.

(* ... also when the cutoff differs from the end of the wrapped model's own data: after fit on n0
   observations and update(update_params=False) with k more (no refit), the forecasts are the wrapped
   model's values g at the absolute positions cutoff + r = n0+k-1+r counted from the start of the data
   it was fitted on (k = 0: the plain fit / predict case) *)
Theorem C11_adapter_forecasts_at_cutoff_plus_fh : forall n0 k (g : Z -> oq) fh, sorted_lt fh -> fh <> [] ->
  adapter_predict_at n0 k (map g (zrange (n0 + k - 1 + zfirst fh) (n0 + k - 1 + zlast fh + 1) 1)) fh
  = Ok (map (fun r => g (n0 + k - 1 + r)) fh).
Proof. exact adapter_at_selects. Qed.
Print Assumptions C11_adapter_forecasts_at_cutoff_plus_fh.

(* ==== THROUGH THE BRIDGE: the same statements about what the code says NOW ====================
   gen_resolve_wl / gen_kernel are regenerated on this run from NaiveForecaster.fit and
   NaiveForecaster._predict_last_window (whole function bodies), gen_naive_predict assembles them
   with the regenerated window / in-sample-cutoff / indexer expressions along the dispatch of
   `_predict`; gen_poly_points / gen_poly_pred_time are the regenerated time axes of
   PolynomialTrendForecaster.fit / _predict (C11/Gen.v, C11/Bridge.v). *)

Theorem C11_code_is_model :
  (forall s sp wlo n, gen_resolve_wl s sp wlo n = resolve_wl s sp wlo n) /\
  (forall s sp w hs, gen_kernel s sp w hs = kernel s sp w hs) /\
  (forall s sp wlo ys fh, gen_naive_predict s sp wlo ys fh = naive_predict s sp wlo ys fh) /\
  (forall d ic t0 ys fh, gen_poly_predict d ic t0 ys fh = poly_predict d ic ys fh) /\
  (forall t0 v, gen_poly_points t0 v = points v) /\
  (forall c r, gen_poly_index c r = c + r).
Proof.
  exact (conj bridge_resolve_wl (conj bridge_kernel (conj bridge_naive_predict
        (conj bridge_poly_predict (conj bridge_poly_points bridge_poly_index))))).
Qed.
Print Assumptions C11_code_is_model.

Theorem C11_code_window_length_resolution : forall s sp wlo n,
  (forall w, gen_resolve_wl s sp wlo n = Ok w ->
     w = documented_wl s sp wlo n /\ w <= n /\ valid_params s sp wlo /\
     ~ documented_reject s sp wlo n) /\
  (gen_resolve_wl s sp wlo n = Err <->
     (~ valid_params s sp wlo \/ documented_reject s sp wlo n \/ n < documented_wl s sp wlo n)).
Proof. intros s sp wlo n. rewrite bridge_resolve_wl. exact (C11_window_length_resolution s sp wlo n). Qed.
Print Assumptions C11_code_window_length_resolution.

(* wherever the kernel reads `self.sp_`, fit has set it to the constructor's sp *)
Theorem C11_code_fit_sp : forall s sp wlo n o, gen_fit_sp s sp wlo n = Ok o ->
  match s with
  | SLast => o = if sp =? 1 then None else Some sp
  | SMean => o = Some sp
  | SDrift => o = None
  end.
Proof.
  intros s sp wlo n o H. rewrite bridge_fit_sp in H.
  destruct (resolve_wl s sp wlo n); [|discriminate]. inversion H. destruct s; reflexivity.
Qed.
Print Assumptions C11_code_fit_sp.

Theorem C11_code_seasonal_last_aligned : forall ys sp wlo fh,
  1 < sp <= zlen ys -> sorted_lt fh -> all_pos fh ->
  gen_naive_predict SLast sp wlo ys fh =
    Ok (map (fun h => znth ys (last_same_season (zlen ys) sp h)) fh).
Proof.
  intros ys sp wlo fh H1 H2 H3. rewrite bridge_naive_predict.
  exact (proj1 (C11_naive_seasonal_last_aligned ys sp wlo fh H1 H2 H3)).
Qed.
Print Assumptions C11_code_seasonal_last_aligned.

Theorem C11_code_seasonal_mean_aligned : forall ys sp wlo wl fh,
  1 < sp -> gen_resolve_wl SMean sp wlo (zlen ys) = Ok wl -> 1 <= wl -> sorted_lt fh -> all_pos fh ->
  gen_naive_predict SMean sp wlo ys fh =
  Ok (map (fun h => nanmean (sel (fun p => congb sp p (zlen ys - 1 + h)) (zlen ys - wl)
                                 (skipn (Z.to_nat (zlen ys - wl)) ys))) fh).
Proof.
  intros ys sp wlo wl fh H1 H2 H3 H4 H5. rewrite bridge_resolve_wl in H2.
  rewrite bridge_naive_predict. exact (C11_naive_seasonal_mean_aligned ys sp wlo wl fh H1 H2 H3 H4 H5).
Qed.
Print Assumptions C11_code_seasonal_mean_aligned.

Theorem C11_code_seasonal_mean_kernel_any_window_length : forall sp w hs,
  1 < sp -> sorted_lt hs -> all_pos hs ->
  gen_kernel SMean sp w hs =
  Ok (map (fun h => nanmean (sel (fun p => congb sp p (zlen w - 1 + h)) 0 w)) hs).
Proof. intros sp w hs H1 H2 H3. rewrite bridge_kernel. exact (kernel_seasonal_mean sp w hs H1 H2 H3). Qed.
Print Assumptions C11_code_seasonal_mean_kernel_any_window_length.

Theorem C11_code_drift : forall ys sp wlo wl a b fh,
  gen_resolve_wl SDrift sp wlo (zlen ys) = Ok wl -> 2 <= wl ->
  znth ys (zlen ys - wl) = Some a -> znth ys (zlen ys - 1) = Some b -> all_pos fh ->
  gen_naive_predict SDrift sp wlo ys fh = Ok (map (fun h => Some (drift_value wl a b h)) fh) /\
  forall h, (drift_value wl a b h == line (zlen ys - wl) (zlen ys - 1) a b (zlen ys - 1 + h))%Q.
Proof.
  intros ys sp wlo wl a b fh H1 H2 H3 H4 H5. rewrite bridge_resolve_wl in H1.
  rewrite bridge_naive_predict. exact (C11_naive_drift ys sp wlo wl a b fh H1 H2 H3 H4 H5).
Qed.
Print Assumptions C11_code_drift.

Theorem C11_code_in_sample_last : forall ys sp wlo r, 1 <= sp <= zlen ys -> r <= 0 ->
  let q := zlen ys - 1 + r in 0 <= q ->
  gen_naive_predict SLast sp wlo ys [r] = Ok [if q <? sp then None else znth ys (q - sp)].
Proof.
  intros ys sp wlo r H1 H2 q H3. rewrite bridge_naive_predict.
  exact (C11_in_sample_last ys sp wlo r H1 H2 H3).
Qed.
Print Assumptions C11_code_in_sample_last.

Theorem C11_code_in_sample_mean : forall ys sp wlo wl r,
  gen_resolve_wl SMean sp wlo (zlen ys) = Ok wl -> r <= 0 ->
  let q := zlen ys - 1 + r in let lo := Z.max 0 (q - wl) in 0 <= q ->
  gen_naive_predict SMean sp wlo ys [r] =
  Ok [nanmean (sel (fun p => congb sp p q) lo (zslice ys lo q))].
Proof.
  intros ys sp wlo wl r H1 H2 q lo H3. rewrite bridge_resolve_wl in H1.
  rewrite bridge_naive_predict. exact (C11_in_sample_mean ys sp wlo wl r H1 H2 H3).
Qed.
Print Assumptions C11_code_in_sample_mean.

Theorem C11_code_in_sample_drift : forall ys sp wlo wl r,
  gen_resolve_wl SDrift sp wlo (zlen ys) = Ok wl -> r <= 0 ->
  let q := zlen ys - 1 + r in let lo := Z.max 0 (q - wl) in 0 <= q ->
  (q - lo <= 1 -> gen_naive_predict SDrift sp wlo ys [r] = Ok [None]) /\
  (forall a b, 2 <= q - lo -> znth ys lo = Some a -> znth ys (q - 1) = Some b ->
     exists v, gen_naive_predict SDrift sp wlo ys [r] = Ok [Some v] /\
               (v == line lo (q - 1) a b q)%Q).
Proof.
  intros ys sp wlo wl r H1 H2 q lo H3. rewrite bridge_resolve_wl in H1.
  destruct (C11_in_sample_drift ys sp wlo wl r H1 H2 H3) as [Ha Hb]. split.
  - intro H. rewrite bridge_naive_predict. exact (Ha H).
  - intros a b H4 H5 H6. destruct (Hb a b H4 H5 H6) as [v [Hv Hl]]. exists v.
    rewrite bridge_naive_predict. exact (conj Hv Hl).
Qed.
Print Assumptions C11_code_in_sample_drift.

(* the polynomial forecaster with the regenerated time axes: fitted on the points
   (np.arange(n_timepoints), y), evaluated at to_absolute_int(index[0], cutoff) for the step *)
Theorem C11_code_poly_is_lsq_partial : forall degree ic t0 ys fh vals,
  gen_poly_predict degree ic t0 ys fh = Ok vals ->
  exists b v, all_some ys = Some v /\ length b = poly_m degree ic /\
    (forall b', length b' = length b ->
       (sse (poly_k0 ic) b (gen_poly_points t0 v) <= sse (poly_k0 ic) b' (gen_poly_points t0 v))%Q) /\
    vals = map (fun r => Some (pval (poly_k0 ic) b
                                    (inject_Z (gen_poly_pred_time t0 (t0 + zlen ys - 1) r)))) fh.
Proof.
  intros degree ic t0 ys fh vals H. rewrite bridge_poly_predict in H.
  destruct (C11_poly_is_lsq_partial degree ic ys fh vals H) as [b [v [H1 [H2 [H3 H4]]]]].
  exists b, v. rewrite bridge_poly_points. repeat split; try assumption.
  rewrite H4. apply map_ext. intro r. rewrite bridge_poly_pred_time_fit. reflexivity.
Qed.
Print Assumptions C11_code_poly_is_lsq_partial.

(* "... fitted with the same options": the option-forwarding tables of the statsmodels adapters,
   regenerated from ets.py / exp_smoothing.py / theta.py on this run (C11/GenOpts.v).  Every
   constructor option of AutoETS that is not an option of the model search reaches the ETSModel
   constructor or its fit call under the matching statsmodels keyword (sp -> seasonal_periods) with
   the value __init__ stored, nothing else is passed and no keyword twice - for the user-specified
   model; the candidates of the automatic search get the searched components (error, trend,
   damped_trend, seasonal) from their ranges and everything else exactly like the user-specified
   model; the same for ExponentialSmoothing (whose _fit_forecaster ThetaForecaster inherits). *)
Theorem C11_code_adapters_forward_every_option :
  (gen_ets_not_stored = [] /\
   forwarding_complete gen_ets_params ets_control gen_ets_ctor_fixed gen_ets_fit_fixed = true /\
   only_options gen_ets_params (gen_ets_ctor_fixed ++ gen_ets_fit_fixed) = true) /\
  (same_but_searched gen_ets_ctor_fixed gen_ets_ctor_auto = true /\
   gen_ets_fit_auto = gen_ets_fit_fixed) /\
  (gen_es_not_stored = [] /\
   forwarding_complete gen_es_params [] gen_es_ctor gen_es_fit = true /\
   only_options gen_es_params (gen_es_ctor ++ gen_es_fit) = true) /\
  (gen_theta_params = theta_params /\ gen_theta_super = theta_super).
Proof.
  exact (conj (conj (proj2 bridge_ets_params) code_ets_fixed_forwards_every_option)
        (conj code_ets_auto_forwards_every_option
        (conj (conj (proj2 bridge_es_params) code_es_forwards_every_option) bridge_theta))).
Qed.
Print Assumptions C11_code_adapters_forward_every_option.

(* _StatsModelsAdapter._predict as regenerated on this run (C11/GenAdapter.v): start / end handed to the
   wrapped results are the positions of the first / last requested step counted from the first time
   stamp t0 of the training series and placed by the cutoff t0+n0+k-1, and the values returned are the
   wrapped model's at cutoff + r *)
Theorem C11_code_adapter_forecasts_at_cutoff_plus_fh : forall t0 n0 k (g : Z -> oq) fh,
  sorted_lt fh -> fh <> [] ->
  (gen_adapter_start t0 (t0 + n0 + k - 1) fh = n0 + k - 1 + zfirst fh /\
   gen_adapter_end t0 (t0 + n0 + k - 1) fh = n0 + k - 1 + zlast fh) /\
  gen_adapter_predict t0 (t0 + n0 + k - 1)
    (map g (zrange (gen_adapter_start t0 (t0 + n0 + k - 1) fh)
                   (gen_adapter_end t0 (t0 + n0 + k - 1) fh + 1) 1)) fh
  = Ok (map (fun r => g (n0 + k - 1 + r)) fh).
Proof.
  intros t0 n0 k g fh Hs Hne. split; [apply bridge_adapter_range|].
  exact (code_adapter_forecasts_at_cutoff_plus_fh t0 n0 k g fh Hs Hne).
Qed.
Print Assumptions C11_code_adapter_forecasts_at_cutoff_plus_fh.

(* the hypotheses are satisfiable by a non-trivial instance: sp = 3, window of 5 (not a multiple of
   3), a missing value, horizons beyond two seasons; and a quadratic fit exists *)
Example C11_nonvacuous :
  let ys := [Some 1; Some 2; Some 4; None; Some 16; Some 32; Some 64]%Q in
  resolve_wl SMean 3 (Some 5) (zlen ys) = Ok 5 /\ sorted_lt [1; 2; 5; 7] /\
  naive_predict SMean 3 (Some 5) ys [1; 2; 5; 7]
    = Ok [Some 16%Q; Some (36 # 2)%Q; Some (36 # 2)%Q; Some 16%Q] /\
  (* in-sample steps whose window is cut by the start of the series: targets 0..3 *)
  naive_predict SMean 3 (Some 5) ys [-6; -5; -4; -3] = Ok [None; None; None; Some (1 # 1)%Q] /\
  naive_predict SLast 3 None ys [-5; -3; -2] = Ok [None; Some 1%Q; Some 2%Q] /\
  naive_predict SDrift 1 None [Some 1; Some 2; Some 4; Some 8]%Q [-2; -1; 0]
    = Ok [None; Some (3 # 1)%Q; Some (11 # 2)%Q] /\
  resolve_wl SDrift 1 None 1 = Err /\ resolve_wl SMean 4 None 2 = Err /\
  gen_resolve_wl SDrift 1 None 1 = Err /\ gen_resolve_wl SMean 4 None 2 = Err /\
  gen_naive_predict SMean 3 (Some 5) ys [-3; 1; 7] = Ok [Some (1 # 1)%Q; Some 16%Q; Some 16%Q] /\
  poly_fit 2 true [Some 1; Some 2; Some 4; Some 8]%Q = Ok [(21 # 20)%Q; (1 # 20)%Q; (3 # 4)%Q] /\
  (* adapter, 4 observations at fit + 2 by update without refit: steps 1 and 3 from cutoff position 5 *)
  adapter_predict_at 4 2 [Some 7; Some 8; Some 9]%Q [1; 3] = Ok [Some 7%Q; Some 9%Q] /\
  gen_adapter_start 10 15 [1; 3] = 6 /\ gen_adapter_end 10 15 [1; 3] = 8.
Proof. vm_compute. repeat split; reflexivity. Qed.
