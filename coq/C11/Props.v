From Coq Require Import ZArith QArith List Bool.
Require Import SkV.Lib.Base SkV.Lib.ZRange SkV.C11.Model SkV.C11.Proofs.
Import ListNotations.
Open Scope Z_scope.
Theorem C11_stub : True. Proof. exact stub_true. Qed.
Print Assumptions C11_stub.
