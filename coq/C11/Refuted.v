(* C11 open findings: the faithful model of the implementation (Model.v agrees with the real code
   on these inputs in every run) violates the property statement for in-sample steps whose moving
   window is cut by the start of the series.  Witnesses by computation. *)
From Coq Require Import ZArith QArith List Bool Lia.
Require Import SkV.Lib.Base SkV.Lib.ZRange SkV.C11.Model SkV.C11.Proofs.
Import ListNotations.
Open Scope Z_scope.

Definition q (z : Z) : oq := Some (inject_Z z).

(* F-C11-2: drift, training series 1 2 4 8, window_length_ = 4 (default = len(y)).  The in-sample
   forecast for position 2 is made from the observations 1 2 (positions 0, 1): the line through
   the window's end points gives 3, the implementation returns 2 + (2-1)/(4-1) = 7/3. *)
Lemma drift_short_window_refuted :
  exists ys wl r v, r <= 0 /\ naive_predict_wl SDrift 1 wl ys [r] = Ok [Some v] /\
    window ys (zlen ys - 2 + r) wl = [q 1; q 2] /\
    ~ (v == line 0 1 (inject_Z 1) (inject_Z 2) 2)%Q.
Proof.
  exists [q 1; q 2; q 4; q 8], 4, (-1), (7 # 3)%Q. repeat split; try reflexivity; try lia.
  vm_compute. discriminate.
Qed.

(* F-C11-1: seasonal mean, sp = 2, window_length_ = 4, series 1..6.  The in-sample forecast for
   position 2 is made from the observations at positions 0, 1; position 0 is in the target's
   season, so the textbook value is defined (1), the implementation raises (reshape). *)
Lemma seasonal_mean_short_window_refuted :
  exists ys sp wl r, r <= 0 /\ naive_predict_wl SMean sp wl ys [r] = Err /\
    nanmean (sel (fun p => congb sp p (zlen ys - 1 + r)) 0 (window ys (zlen ys - 2 + r) wl))
    = Some (inject_Z 1 / inject_Z 1)%Q.
Proof.
  exists [q 1; q 2; q 3; q 4; q 5; q 6], 2, 4, (-3). repeat split; try reflexivity; lia.
Qed.

(* F-C11-3: seasonal last, sp = 3, series 1 2 3 4.  No observation before position 1 is in
   position 1's season, yet the in-sample forecast for position 1 is the first observation. *)
Lemma seasonal_last_short_window_refuted :
  exists ys sp r, r <= 0 /\ naive_predict_wl SLast sp sp ys [r] = Ok [q 1] /\
    (forall p, 0 <= p < zlen ys - 1 + r -> congb sp p (zlen ys - 1 + r) = false).
Proof.
  exists [q 1; q 2; q 3; q 4], 3, (-2). repeat split; try reflexivity; try lia.
  intros p Hp. assert (p = 0) by (cbn in Hp; lia). subst p. reflexivity.
Qed.
