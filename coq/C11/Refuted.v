(* C11, historical witnesses (no open finding is expressed here any more).  `old_kernel` is the
   kernel the code had BEFORE the fixes 73893fc (seasonal mean), ea15ad0 (drift) and fe97d94
   (seasonal last): padding, reshape and slope sized by the resolved `window_length_` instead of
   the window actually available, no front padding for the seasonal last value.  On in-sample
   steps whose moving window is cut by the start of the series it violates the conclusions of
   C11_in_sample_mean / C11_in_sample_drift / C11_in_sample_last, which the current model
   satisfies (Props.v) - so those theorems do tell the two behaviours apart.  If a revert of one
   of the fixes came back, the correspondence run would disagree with Model.v on such inputs and
   the Python oracle would flag them (`insample-short-window-*`). *)
From Coq Require Import ZArith QArith List Bool Lia.
Require Import SkV.Lib.Base SkV.Lib.ZRange SkV.C11.Model SkV.C11.Proofs.
Import ListNotations.
Open Scope Z_scope.

Definition q (z : Z) : oq := Some (inject_Z z).

Definition old_kernel (s : strategy) (sp wl : Z) (w : list oq) (hs : list Z) : res (list oq) :=
  if (zlen w =? 0) || all_nan w then Ok (const_all None hs)
  else match s with
  | SLast =>
      if sp =? 1 then Ok (const_all (last w None) hs) else steps_vals w sp hs
  | SMean =>
      if sp =? 1 then Ok (const_all (nanmean w) hs)
      else
        let rem := wl mod sp in
        let pad := if 0 <? rem then sp - rem else 0 in
        let padded := repeat (None : oq) (Z.to_nat pad) ++ w in
        let rows := ceil_div wl sp in
        if zlen padded =? rows * sp then
          let table := chunks (Z.to_nat rows) (Z.to_nat sp) padded in
          let ypred := map (fun j => nanmean (zcol j table)) (zrange 0 sp 1) in
          steps_vals ypred sp hs
        else Err
  | SDrift =>
      if wl =? 1 then Ok (const_all None hs)
      else match hd None w, last w None with
           | Some a, Some b =>
               Ok (map (fun h => Some (b + inject_Z h * ((b - a) / inject_Z (wl - 1)))%Q) hs)
           | _, _ => Err
           end
  end.

(* the in-sample step r <= 0 as the old code served it *)
Definition old_in_sample (s : strategy) (sp wl : Z) (ys : list oq) (r : Z) : res (list oq) :=
  old_kernel s sp wl (window ys (zlen ys - 2 + r) wl) [1].

(* former F-C11-2 (fixed by ea15ad0): drift, series 1 2 4 8, window_length_ = 4.  The forecast for
   position 2 is made from the observations 1 2 (positions 0, 1): the line through them gives 3;
   the old slope (2-1)/(4-1) gave 7/3, the current model gives 3. *)
Lemma old_drift_short_window_refuted :
  exists ys wl r v, r <= 0 /\ old_in_sample SDrift 1 wl ys r = Ok [Some v] /\
    window ys (zlen ys - 2 + r) wl = [q 1; q 2] /\
    ~ (v == line 0 1 (inject_Z 1) (inject_Z 2) 2)%Q /\
    exists v', naive_predict_wl SDrift 1 wl ys [r] = Ok [Some v'] /\
               (v' == line 0 1 (inject_Z 1) (inject_Z 2) 2)%Q.
Proof.
  exists [q 1; q 2; q 4; q 8], 4, (-1), (7 # 3)%Q. repeat split; try reflexivity; try lia.
  - vm_compute. discriminate.
  - exists (3 # 1)%Q. split; reflexivity.
Qed.

(* former F-C11-1 (fixed by 73893fc): seasonal mean, sp = 2, window_length_ = 4, series 1..6.  The
   forecast for position 2 is made from positions 0, 1; position 0 is in the target's season, so
   the textbook value is 1; the old code raised (reshape of 2 values into 2 x 2), the current
   model returns 1. *)
Lemma old_seasonal_mean_short_window_refuted :
  exists ys sp wl r, r <= 0 /\ old_in_sample SMean sp wl ys r = Err /\
    nanmean (sel (fun p => congb sp p (zlen ys - 1 + r)) 0 (window ys (zlen ys - 2 + r) wl))
    = Some (inject_Z 1 / inject_Z 1)%Q /\
    naive_predict_wl SMean sp wl ys [r] = Ok [Some (inject_Z 1 / inject_Z 1)%Q].
Proof.
  exists [q 1; q 2; q 3; q 4; q 5; q 6], 2, 4, (-3). repeat split; try reflexivity; lia.
Qed.

(* former F-C11-3 (fixed by fe97d94): seasonal last, sp = 3, series 1 2 3 4.  No observation before
   position 1 is in position 1's season, yet the old code returned the first observation; the
   current model returns NaN. *)
Lemma old_seasonal_last_short_window_refuted :
  exists ys sp r, r <= 0 /\ old_in_sample SLast sp sp ys r = Ok [q 1] /\
    (forall p, 0 <= p < zlen ys - 1 + r -> congb sp p (zlen ys - 1 + r) = false) /\
    naive_predict_wl SLast sp sp ys [r] = Ok [None].
Proof.
  exists [q 1; q 2; q 3; q 4], 3, (-2). repeat split; try reflexivity; try lia.
  intros p Hp. assert (p = 0) by (cbn in Hp; lia). subst p. reflexivity.
Qed.
