(* C12 bridge (a): the call-site facts regenerated from the source on this run (Sites.v) satisfy
   the preconditions of the ordered-collection contract - n_jobs=None included: n_jobs is only
   handed on to Parallel / check_n_jobs - and the anchored sites are all there.
   (Bridge (b), the regenerated ownership programs, is C12/BridgeOwn.v.) *)
From Coq Require Import ZArith List Bool Arith String.
Require Import SkV.C12.Model SkV.C12.Sites SkV.C12.Proofs.
Import ListNotations.

(* every Parallel(...) call site of the scanned files: generator form, order-preserving binding of
   the delivered list, task resolved, no generator shared with the tasks, no global draws, task
   generators built from seed values, no writes to shared objects, enclosing draws before dispatch,
   n_jobs only handed on (so n_jobs=None reaches Parallel / check_n_jobs instead of a comparison) *)
Theorem all_sites_satisfy_contract : forallb site_ok sites = true.
Proof. vm_compute. reflexivity. Qed.

Definition anchored_keys : list string := [
  "forecasting/base/_meta.py:_fit_forecasters:_fit_forecaster";
  "series_as_features/base/estimators/interval_based/_tsf.py:fit:_fit_estimator";
  "classification/interval_based/_tsf.py:predict_proba:_predict_proba";
  "classification/dictionary_based/_boss.py:_get_train_probs:_train_predict";
  "classification/dictionary_based/_boss.py:_individual_train_acc:_train_predict";
  "classification/dictionary_based/_boss.py:predict:_test_nn";
  "classification/dictionary_based/_cboss.py:_get_train_probs:_train_predict";
  "classification/dictionary_based/_cboss.py:_individual_train_acc:_train_predict"
]%string.

(* the sites the property names are still Parallel call sites (nothing silently dropped), and the
   key list is aligned with the fact list *)
Theorem anchored_sites_present :
  forallb (fun k => existsb (String.eqb k) site_keys) anchored_keys = true /\
  List.length site_keys = List.length sites.
Proof. vm_compute. split; reflexivity. Qed.

(* hence each of them denotes a pool run whose collection does not depend on the schedule *)
Theorem every_site_schedule_free : forall s, In s sites ->
  forall (A B : Type) (next : Z -> Z * Z) (f : A -> Z -> B) (tasks : list A) (s0 : Z) sched sched',
  complete (List.length tasks) sched -> complete (List.length tasks) sched' ->
  site_pool s next f tasks s0 sched = site_pool s next f tasks s0 sched'.
Proof.
  intros s Hin A B next f tasks s0 sched sched' Hc Hc'.
  pose proof all_sites_satisfy_contract as Hall. rewrite forallb_forall in Hall.
  exact (proj1 (site_schedule_free A B s next f tasks s0 sched sched' (Hall s Hin) Hc Hc')).
Qed.
