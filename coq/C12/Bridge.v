(* C12 bridge (a): the call-site facts regenerated from the source on this run (Sites.v) satisfy
   the preconditions of the ordered-collection contract - n_jobs=None included: n_jobs is only
   handed on to Parallel / check_n_jobs - and the anchored sites are all there.
   (Bridge (b), the regenerated ownership programs, is C12/BridgeOwn.v.) *)
From Coq Require Import ZArith List Bool Arith String.
Require Import SkV.C12.Model SkV.C12.Sites SkV.C12.Proofs.
Import ListNotations.

(* every Parallel(...) call site of the scanned files: generator form, order-preserving binding of
   the delivered list, task resolved, no generator shared with the tasks, no global draws, task
   generators built from seed values, no writes to shared objects, enclosing draws before dispatch,
   n_jobs only handed on (so n_jobs=None reaches Parallel / check_n_jobs instead of a comparison) *)
Theorem all_sites_satisfy_contract : forallb site_ok sites = true.
Proof. vm_compute. reflexivity. Qed.

(* the classes the property names (and the BOSS family of finding F-C12-3) still dispatch through
   joblib.Parallel - nothing silently dropped or moved to a mechanism the extractor does not see -
   and the tables are aligned.  Anchored by file and class, not by the names of helper methods or
   task functions: renaming / extracting helpers inside the class does not matter. *)
Definition anchored_owners : list string := [
  "forecasting/base/_meta.py:_HeterogenousEnsembleForecaster";
  "series_as_features/base/estimators/interval_based/_tsf.py:BaseTimeSeriesForest";
  "classification/interval_based/_tsf.py:TimeSeriesForestClassifier";
  "classification/dictionary_based/_boss.py:BOSSEnsemble";
  "classification/dictionary_based/_boss.py:IndividualBOSS";
  "classification/dictionary_based/_cboss.py:ContractableBOSS"
]%string.

Theorem anchored_sites_present :
  forallb (fun k => existsb (String.eqb k) site_owners) anchored_owners = true /\
  List.length site_keys = List.length sites /\ List.length site_owners = List.length sites.
Proof. vm_compute. repeat split; reflexivity. Qed.

(* hence each of them denotes a pool run whose collection does not depend on the schedule *)
Theorem every_site_schedule_free : forall s, In s sites ->
  forall (A B : Type) (next : Z -> Z * Z) (f : A -> Z -> B) (tasks : list A) (s0 : Z) sched sched',
  complete (List.length tasks) sched -> complete (List.length tasks) sched' ->
  site_pool s next f tasks s0 sched = site_pool s next f tasks s0 sched'.
Proof.
  intros s Hin A B next f tasks s0 sched sched' Hc Hc'.
  pose proof all_sites_satisfy_contract as Hall. rewrite forallb_forall in Hall.
  exact (proj1 (site_schedule_free A B s next f tasks s0 sched sched' (Hall s Hin) Hc Hc')).
Qed.
