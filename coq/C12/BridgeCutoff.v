(* C12 bridge (c): the cutoff discipline regenerated from the source on this run (Cutoff.v): in the
   code reachable from `predict` of every listed forecaster - followed by virtual dispatch through
   the package, in-sample path of the window forecasters included - every assignment of the cutoff
   lies inside a `with self._detached_cutoff():` region, hence (Proofs.guarded_keeps_cutoff)
   predict leaves the cutoff where it was on every path.  Moving the wrapper somewhere else,
   dropping it, or a new `self._cutoff = ..` / `self._set_cutoff(..)` on a predict path makes
   `predict_paths_guarded` fail. *)
From Coq Require Import ZArith List Bool String.
Require Import SkV.C12.Model SkV.C12.Cutoff SkV.C12.Proofs.
Import ListNotations.

Theorem predict_paths_guarded : forallb (fun p => guarded (snd p)) cutoff_progs = true.
Proof. vm_compute. reflexivity. Qed.

(* the window forecaster whose in-sample predictions run the moving-cutoff pass is among them, and
   its program does contain cutoff assignments (the theorem is not about an empty skeleton) *)
Fixpoint has_set (p : kstmt) : bool :=
  match p with
  | KSet _ => true
  | KSeq a b | KIf _ a b => has_set a || has_set b
  | KLoop _ b | KCall b | KDetached b => has_set b
  | _ => false
  end.

Theorem naive_predict_moves_and_restores :
  existsb (fun p => String.eqb (fst p) "NaiveForecaster" && has_set (snd p)) cutoff_progs = true.
Proof. vm_compute. reflexivity. Qed.

Theorem predict_keeps_cutoff : forall name p, In (name, p) cutoff_progs ->
  forall setv kcond kcnt s, fst (kexec setv kcond kcnt p s) = s.
Proof.
  intros name p Hin setv kcond kcnt s. apply guarded_keeps_cutoff.
  pose proof predict_paths_guarded as H. rewrite forallb_forall in H. exact (H (name, p) Hin).
Qed.
