(* C12 bridge (b): the ownership programs regenerated from the source on this run (Own.v) pass the
   aliasing analysis for ALL branch conditions, loop counts and written contents, hence (Proofs.v)
   the real shape of HampelFilter.transform, Imputer.transform, ... never writes a buffer of the
   caller nor (apply-type methods) the estimator, and returns a new object.  Re-introducing
   `Z[col] = ..` on the validated input, `forecaster = self.forecaster; forecaster.fit(..)`, a
   `self.x = ..` in transform, `inplace=True` ... makes `generated_methods_accepted` fail. *)
From Coq Require Import ZArith List Bool Arith String.
Require Import SkV.C12.Model SkV.C12.Own SkV.C12.Proofs.
Import ListNotations.

Section Generated.
  Variable cond : nat -> buf -> list buf -> bool.
  Variable fn : nat -> buf -> list buf -> buf.
  Variable cnt : nat -> buf -> list buf -> nat.

  (* every regenerated method passes the analysis: apply-type methods with self_ok = false,
     fit / update with self_ok = true *)
  Theorem generated_methods_accepted :
    forallb (fun p => is_safe (snd p) (fst p)) (combine (gen_methods cond fn cnt) gen_self_ok) = true.
  Proof. vm_compute. reflexivity. Qed.

  (* every regenerated apply-type method returns a new object on every path - except
     OptionalPassthrough, which hands the (validated) argument back when `passthrough` is set *)
  Definition may_return_argument : list string :=
    ["OptionalPassthrough.transform"; "OptionalPassthrough.inverse_transform"]%string.

  Theorem generated_apply_methods_return_new_objects :
    forallb (fun q => snd (snd q) || returns_fresh (fst (snd q)) ||
                      existsb (String.eqb (fst q)) may_return_argument)
            (combine gen_names (combine (gen_methods cond fn cnt) gen_self_ok)) = true.
  Proof. vm_compute. reflexivity. Qed.

  (* the tables are aligned and the two anchored transformers are among them, in this order *)
  Theorem generated_tables_aligned :
    List.length (gen_methods cond fn cnt) = List.length gen_names /\
    List.length gen_self_ok = List.length gen_names /\
    nth_error gen_names 0 = Some "HampelFilter.transform"%string /\
    nth_error gen_names 1 = Some "Imputer.transform"%string /\
    nth_error (gen_methods cond fn cnt) 0 = Some (hampelfilter_transform cond fn cnt) /\
    nth_error (gen_methods cond fn cnt) 1 = Some (imputer_transform cond fn cnt) /\
    nth_error gen_self_ok 0 = Some false /\ nth_error gen_self_ok 1 = Some false.
  Proof. vm_compute. repeat split; reflexivity. Qed.

  Lemma imputer_accepted : is_safe false (imputer_transform cond fn cnt) = true.
  Proof. vm_compute. reflexivity. Qed.

  Lemma hampel_accepted : is_safe false (hampelfilter_transform cond fn cnt) = true.
  Proof. vm_compute. reflexivity. Qed.

  (* Imputer.transform as it is in /repo now - every method, Series or DataFrame, with or
     without a `missing_values` placeholder, whatever is imputed: no buffer that existed before
     the call changes (the caller's data, its index, anything else the caller holds, and the
     estimator's own state, `forecaster` parameter included), and the result is a new object *)
  Theorem imputer_transform_is_pure : forall e st0 caller,
    e < List.length st0 -> caller < List.length st0 ->
    (forall i, i < List.length st0 ->
       get (fst (apply e (imputer_transform cond fn cnt) st0 caller)) i = get st0 i) /\
    List.length st0 <= snd (apply e (imputer_transform cond fn cnt) st0 caller).
  Proof.
    intros e st0 c He Hc. split.
    - intros i Hi. destruct (Nat.eq_dec i e) as [->|Hne].
      + apply preserves_estimator_state; try assumption. apply imputer_accepted.
      + apply (preserves_caller_buffers false); try assumption. apply imputer_accepted.
    - apply returns_fresh_sound; try assumption. vm_compute. reflexivity.
  Qed.

  (* the same for HampelFilter.transform, including the in-place writes of _hampel_filter, which
     the inlining shows to go through the copy *)
  Theorem hampel_transform_is_pure : forall e st0 caller,
    e < List.length st0 -> caller < List.length st0 ->
    (forall i, i < List.length st0 ->
       get (fst (apply e (hampelfilter_transform cond fn cnt) st0 caller)) i = get st0 i) /\
    List.length st0 <= snd (apply e (hampelfilter_transform cond fn cnt) st0 caller).
  Proof.
    intros e st0 c He Hc. split.
    - intros i Hi. destruct (Nat.eq_dec i e) as [->|Hne].
      + apply preserves_estimator_state; try assumption. apply hampel_accepted.
      + apply (preserves_caller_buffers false); try assumption. apply hampel_accepted.
    - apply returns_fresh_sound; try assumption. vm_compute. reflexivity.
  Qed.
End Generated.

(* every regenerated method (fit and update included) leaves the caller's buffers alone *)
Theorem generated_methods_preserve_caller_data : forall cond fn cnt k m so,
  nth_error (gen_methods cond fn cnt) k = Some m -> nth_error gen_self_ok k = Some so ->
  forall e st0 caller, e < List.length st0 -> caller < List.length st0 ->
  forall i, i < List.length st0 -> i <> e -> get (fst (apply e m st0 caller)) i = get st0 i.
Proof.
  intros cond fn cnt k m so Hm Hso.
  assert (Hs : is_safe so m = true).
  { pose proof (generated_methods_accepted cond fn cnt) as H. rewrite forallb_forall in H.
    apply (H (m, so)). clear H.
    revert k Hm Hso. generalize (gen_methods cond fn cnt) gen_self_ok.
    induction l as [|x t IH]; intros [|y u] [|k] Hm Hso; cbn in *; try discriminate.
    - injection Hm as ->. injection Hso as ->. left. reflexivity.
    - right. eapply IH; eauto. }
  intros. eapply preserves_caller_buffers; eauto.
Qed.
