(* C12 bridge (d): the seed-flow facts regenerated from the source on this run (Seeds.v): in every
   seeded estimator of the list (and in every class of the package it constructs with the seed)
   the `random_state` parameter reaches check_random_state / RandomState / np.random.seed unchanged
   on every path: it is only copied, handed on as an argument, converted by int(..), or tested with
   `is None` / isinstance - never tested for truthiness, computed with, or put into a container
   whose entries are filtered or forwarded later.  With that, "fit with random_state = Some seed"
   is `fit_intervals .. (Some seed) ..` of the model for EVERY seed, 0 included, which
   Proofs.seeded_fit_function_of_seed shows to be a function of the seed alone.  A seed filtered
   by truthiness is `truthy_filter`: Refuted.truthiness_filter_drops_zero_seed_refuted. *)
From Coq Require Import ZArith List Bool String.
Require Import SkV.C12.Model SkV.C12.Seeds SkV.C12.Proofs.
Import ListNotations.

Theorem seed_reaches_generator_unchanged : forallb snd seed_flows = true.
Proof. vm_compute. reflexivity. Qed.

(* the estimators the finding of wave 13 was about are among them *)
Theorem seeded_estimators_present :
  forallb (fun k => existsb (fun p => String.eqb (fst p) k) seed_flows)
          ["RandomIntervalSegmenter"; "RandomIntervalFeatureExtractor"; "Rocket"; "Imputer";
           "BOSSEnsemble"; "ContractableBOSS"]%string = true.
Proof. vm_compute. reflexivity. Qed.

(* hence, for each of them, the fit seen through the model: whatever seed value the user passes -
   zero included - arrives as `Some seed`, and the sampled intervals are a function of it alone *)
Theorem seeded_estimators_fit_is_function_of_seed : forall name, In (name, true) seed_flows ->
  forall (St : Type) (randint : Z -> St -> option (Z * St)) (mk : Z -> St)
         seed n_est k mi sl (w1 w2 : world St),
  fst (fit_intervals randint mk (forwarded true (Some seed)) n_est k mi sl w1) =
  fst (fit_intervals randint mk (forwarded true (Some seed)) n_est k mi sl w2).
Proof.
  intros name _ St randint mk seed n_est k mi sl w1 w2. unfold forwarded.
  exact (proj1 (seeded_fit_function_of_seed St randint mk seed n_est k mi sl w1 w2)).
Qed.
