(* C12 correspondence: cases carry the implementation's observations; `mism` lists the indices on
   which the model's prediction disagrees.
   CEst       : per call (fit first, then every first-pass apply call) the ownership program of the
                function that actually ran (`type(est).<method>.__qualname__`): the program
                REGENERATED from /repo's source (C12/Own.v, `MGen k bits`: bits = the values of
                the method's own branch conditions that the estimator's parameters and the
                container decide) when there is one, else the generic copy-first / fit shape.
                Prediction of a program the analysis accepts: every caller buffer unchanged after
                the call, the result is not the caller's object when the run says it is a new one,
                no attribute of the estimator changed by a regenerated apply-type method,
                constructor parameters unchanged by apply-type calls; a forecaster class whose
                regenerated cutoff skeleton (C12/Cutoff.v) is guarded: no predict call moved the
                cutoff.  Programs the analysis
                rejects make no prediction (C12/Bridge.v proves there is none among the generated).
   CPool      : the observed completion order of EnsembleForecaster's member fits, fed to the pool
                semantics, must deliver the observed `forecasters_` contents.
   CIntervals : _get_intervals over the recorded generator calls must give the observed array. *)
From Coq Require Import ZArith List Bool Arith.
From Coq Require String.
Require Import SkV.C12.Model SkV.C12.Own SkV.C12.Cutoff.
Import ListNotations.

Definition zlist_eqb (a b : list Z) : bool :=
  (length a =? length b)%nat && forallb (fun p => Z.eqb (fst p) (snd p)) (combine a b).
Definition store_eqb (a b : store) : bool :=
  (length a =? length b)%nat && forallb (fun p => zlist_eqb (fst p) (snd p)) (combine a b).
Definition pairs_eqb (a b : list (Z * Z)) : bool :=
  zlist_eqb (map fst a) (map fst b) && zlist_eqb (map snd a) (map snd b).

Inductive mref := MCopyFirst | MFitShape | MGen (k : nat) (bits : list bool).

Definition kfn (_ : buf) (_ : list buf) : buf := [].
Definition kone (_ : buf) (_ : list buf) : nat := 1%nat.

(* the program of the function that ran.  Contents are irrelevant for the prediction (an accepted
   program never writes a caller buffer), every loop runs once, branch k goes as bit k says *)
Definition prog_of (r : mref) : method :=
  match r with
  | MCopyFirst => copy_first kfn
  | MFitShape => fit_shape kfn kfn
  | MGen k bits =>
      nth k (gen_methods (fun i _ _ => nth i bits false) (fun _ => kfn) (fun _ => kone))
          (copy_first kfn)
  end.

Definition so_of (r : mref) : bool :=
  match r with
  | MCopyFirst => false
  | MFitShape => true
  | MGen k _ => nth k gen_self_ok false
  end.

Definition accepted (r : mref) : bool := is_safe (so_of r) (prog_of r).

(* (program, (caller buffers before, after),
    (the result IS the first argument object, some attribute of the estimator changed)) *)
Definition call := (mref * (store * store) * (bool * bool))%type.

(* the estimator's state buffer: [] before; the model writes [] too (kfn), so "unchanged" is
   visible as: the accepted apply-type program leaves buffer n alone - which Proofs.v guarantees;
   the observation `state_changed` must then be false *)
Definition call_ok (c : call) : bool :=
  let '(r, (before, after), (res_is_arg, state_changed)) := c in
  let n := length before in
  if accepted r
  then let res := apply n (prog_of r) (before ++ [[]]) 0 in
       store_eqb (firstn n (fst res)) after &&
       match r with
       | MGen _ _ =>
           (if (n <=? snd res)%nat then negb res_is_arg else true) &&
           (if so_of r then true else negb state_changed)
       | _ => true
       end
  else true.

(* predict of a class whose regenerated cutoff skeleton is guarded leaves the cutoff alone *)
Definition cutoff_guarded (cls : String.string) : bool :=
  existsb (fun p => String.eqb (fst p) cls && guarded (snd p)) cutoff_progs.

Inductive case :=
  | CEst (calls : list call) (params_changed : bool) (cls : String.string) (cutoff_moved : list bool)
  | CPool (a b : Z) (tasks : list Z) (sched : list nat) (observed : list Z)
  | CIntervals (ni : nat) (mi sl : Z) (draws : list (Z * Z)) (observed : option (list (Z * Z))).

Definition check (c : case) : bool :=
  match c with
  | CEst calls pc cls moved =>
      match calls with
      | [] => false
      | _ :: applies =>
          forallb call_ok calls &&
          (if forallb (fun c => accepted (fst (fst c)) && negb (so_of (fst (fst c)))) applies
           then negb pc else true) &&
          (if cutoff_guarded cls then forallb negb moved else true)
      end
  | CPool a b tasks sched observed =>
      match parallel_map (pure_task (St := unit) (fun t => (a * t + b)%Z)) tasks tt sched with
      | Some l => zlist_eqb l observed
      | None => false
      end
  | CIntervals ni mi sl draws observed =>
      match get_intervals rec_randint ni mi sl draws, observed with
      | Some (l, []), Some o => pairs_eqb l o
      | None, None => true
      | _, _ => false
      end
  end.

Fixpoint mism (cs : list (Z * case)) : list Z :=
  match cs with
  | [] => []
  | (i, c) :: t => if check c then mism t else i :: mism t
  end.
