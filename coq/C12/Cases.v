(* C12 correspondence: cases carry the implementation's observations; `mism` lists the indices on
   which the model's prediction disagrees.
   CEst       : the ownership model's prediction for fit and for every first-pass apply call
                (safe program => every caller buffer unchanged, constructor parameters unchanged);
                programs the analysis rejects (open findings) make no prediction.
   CPool      : the observed completion order of EnsembleForecaster's member fits, fed to the pool
                semantics, must deliver the observed `forecasters_` contents.
   CIntervals : _get_intervals over the recorded generator calls must give the observed array. *)
From Coq Require Import ZArith List Bool Arith.
Require Import SkV.C12.Model.
Import ListNotations.

Definition zlist_eqb (a b : list Z) : bool :=
  (length a =? length b)%nat && forallb (fun p => Z.eqb (fst p) (snd p)) (combine a b).
Definition store_eqb (a b : store) : bool :=
  (length a =? length b)%nat && forallb (fun p => zlist_eqb (fst p) (snd p)) (combine a b).
Definition pairs_eqb (a b : list (Z * Z)) : bool :=
  zlist_eqb (map fst a) (map fst b) && zlist_eqb (map snd a) (map snd b).

Inductive disc := DCopyFirst | DHampel (frame : bool) | DImputer (m : imethod) (frame : bool).

Definition kkeep (_ cb : buf) : buf := cb.
Definition kone (_ _ : buf) : nat := 1%nat.
Definition kfalse (_ _ : buf) : bool := false.

(* the program of the estimator's apply-type method; `w` = what an in-place write would store
   (taken from the observation - only rejected programs ever use it on a caller buffer) *)
Definition prog_of (d : disc) (w : buf) : prog :=
  match d with
  | DCopyFirst => copy_first kkeep
  | DHampel frame => hampel_now kkeep kkeep (fun _ _ => w) (fun _ _ => frame) kfalse kone kone
  | DImputer m frame => imputer kkeep (fun _ _ => w) kkeep kfalse kone m frame
  end.

Definition call_ok (self_ok : bool) (mkp : buf -> prog) (c : store * store) : bool :=
  let before := fst c in
  let after := snd c in
  let p := mkp (hd [] after) in
  if is_safe self_ok p
  then store_eqb (firstn (length before) (fst (apply (length before) p (before ++ [[]]) 0))) after
  else true.

Inductive case :=
  | CEst (d : disc) (calls : list (store * store)) (params_changed : bool)
  | CPool (a b : Z) (tasks : list Z) (sched : list nat) (observed : list Z)
  | CIntervals (ni : nat) (mi sl : Z) (draws : list (Z * Z)) (observed : option (list (Z * Z))).

Definition check (c : case) : bool :=
  match c with
  | CEst d calls pc =>
      match calls with
      | [] => false
      | fitc :: applies =>
          call_ok true (fun _ => fit_shape kkeep kkeep) fitc &&
          forallb (call_ok false (prog_of d)) applies &&
          (if is_safe false (prog_of d []) then negb pc else true)
      end
  | CPool a b tasks sched observed =>
      match parallel_map (pure_task (St := unit) (fun t => (a * t + b)%Z)) tasks tt sched with
      | Some l => zlist_eqb l observed
      | None => false
      end
  | CIntervals ni mi sl draws observed =>
      match get_intervals rec_randint ni mi sl draws, observed with
      | Some (l, []), Some o => pairs_eqb l o
      | None, None => true
      | _, _ => false
      end
  end.

Fixpoint mism (cs : list (Z * case)) : list Z :=
  match cs with
  | [] => []
  | (i, c) :: t => if check c then mism t else i :: mism t
  end.
