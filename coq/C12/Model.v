(* C12 model (executable definitions only).

   (i)   ownership: a store maps buffer ids (positions) to buffers; an apply-type method is a
         small program over "the object the local name Z refers to"; `exec` runs it and returns
         the new store and the id of the result.  `safe` is the aliasing analysis.
   (ii)  pool: tasks, slots, a schedule = any sequence of worker picks; a task may read and write
         a shared state (pure tasks ignore it).
   (iii) seeded sampling in the style of _get_intervals over an abstract RNG stream; worlds with a
         global RNG; estimators that keep (or do not keep) a generator between calls.
   What is NOT here: threads, pickle, BLAS - sampled by the correspondence run (props/c12.py). *)
From Coq Require Import ZArith List Bool Arith.
Import ListNotations.

(* ================================================================================ (i) *)

Definition buf := list Z.
Definition store := list buf.

Definition get (st : store) (i : nat) : buf := nth i st [].

Fixpoint update (st : store) (i : nat) (b : buf) : store :=
  match st, i with
  | [], _ => []
  | _ :: t, O => b :: t
  | x :: t, S j => x :: update t j b
  end.

Definition alloc (st : store) (b : buf) : store * nat := (st ++ [b], length st).

(* Statements of an apply-type (or fit) method, as far as ownership is concerned.  Every function
   receives the estimator's state buffer and the contents of the object Z currently refers to. *)
Inductive prog :=
  | PKeep                                   (* Z = check_series(Z): the same object           *)
  | PFresh (h : buf -> buf -> buf)          (* Z = Z.copy() / Z.fillna(..) / Z.apply(..): new  *)
  | PWrite (g : buf -> buf -> buf)          (* Z.iloc[j] = .. / Z[col] = ..: in place         *)
  | PSelf (g : buf -> buf -> buf)           (* self.attr = .. / self.param.fit(..)            *)
  | PSeq (a b : prog)
  | PIf (c : buf -> buf -> bool) (a b : prog)
  | PLoop (n : buf -> buf -> nat) (body : prog).

Fixpoint iter_exec (k : nat) (f : store -> nat -> store * nat) (st : store) (cur : nat)
  : store * nat :=
  match k with
  | O => (st, cur)
  | S k' => let '(st1, c1) := f st cur in iter_exec k' f st1 c1
  end.

(* e = id of the estimator's state buffer, cur = id of the object Z refers to *)
Fixpoint exec (e : nat) (p : prog) (st : store) (cur : nat) : store * nat :=
  match p with
  | PKeep => (st, cur)
  | PFresh h => alloc st (h (get st e) (get st cur))
  | PWrite g => (update st cur (g (get st e) (get st cur)), cur)
  | PSelf g => (update st e (g (get st e) (get st cur)), cur)
  | PSeq a b => let '(st1, c1) := exec e a st cur in exec e b st1 c1
  | PIf c a b => if c (get st e) (get st cur) then exec e a st cur else exec e b st cur
  | PLoop n body => iter_exec (n (get st e) (get st cur)) (exec e body) st cur
  end.

(* apply : store -> caller's buffer id -> store * result buffer id *)
Definition apply (e : nat) (p : prog) (st : store) (caller : nat) : store * nat :=
  exec e p st caller.

(* Aliasing analysis.  `al` = "Z may still be the caller's object".  `self_ok` = writes to the
   estimator's state are allowed (true for fit, false for apply-type methods).
   Result: None = rejected; Some al' = accepted, with the flag after the statement. *)
Fixpoint safe (self_ok : bool) (p : prog) (al : bool) : option bool :=
  match p with
  | PKeep => Some al
  | PFresh _ => Some false
  | PWrite _ => if al then None else Some false
  | PSelf _ => if self_ok then Some al else None
  | PSeq a b => match safe self_ok a al with Some x => safe self_ok b x | None => None end
  | PIf _ a b =>
      match safe self_ok a al, safe self_ok b al with
      | Some x, Some y => Some (x || y)
      | _, _ => None
      end
  | PLoop _ body => match safe self_ok body al with Some _ => Some al | None => None end
  end.

Definition is_safe (self_ok : bool) (p : prog) : bool :=
  match safe self_ok p true with Some _ => true | None => false end.

Fixpoint iter_run (k : nat) (f : buf -> buf) (x : buf) : buf :=
  match k with
  | O => x
  | S k' => iter_run k' f (f x)
  end.

(* what the result holds, as a pure function of (estimator state, caller's data) - meaningful for
   programs that do not write estimator state *)
Fixpoint run (p : prog) (eb cb : buf) : buf :=
  match p with
  | PKeep => cb
  | PFresh h => h eb cb
  | PWrite g => g eb cb
  | PSelf _ => cb
  | PSeq a b => run b eb (run a eb cb)
  | PIf c a b => if c eb cb then run a eb cb else run b eb cb
  | PLoop n body => iter_run (n eb cb) (run body eb) cb
  end.

(* ---- the shapes the anchored transformers have (hand models of the source) ---- *)

Section Shapes.
  Variable copy h g : buf -> buf -> buf.
  Variable isframe retbool hasmv : buf -> buf -> bool.
  Variable ncols nwin : buf -> buf -> nat.

  (* the generic copy-first discipline: validate, then derive a new object *)
  Definition copy_first : prog := PSeq PKeep (PFresh h).

  (* HampelFilter._transform_series: for each window: Z.iloc[j] = _compare(..)  (in place);
     if self.return_bool: Z = Z.apply(..) *)
  Definition hampel_series : prog :=
    PSeq (PLoop nwin (PWrite g)) (PIf retbool (PFresh h) PKeep).

  (* HampelFilter.transform as in /repo now:  Z = check_series(Z).copy();
     DataFrame: for col in Z: Z[col] = self._transform_series(Z[col]);  else the series path *)
  Definition hampel_now : prog :=
    PSeq PKeep (PSeq (PFresh copy) (PIf isframe (PLoop ncols (PWrite g)) hampel_series)).

  (* the OLD HampelFilter.transform:  Z = check_series(Z)  - no copy *)
  Definition hampel_old : prog :=
    PSeq PKeep (PIf isframe (PLoop ncols (PWrite g)) hampel_series).

  (* a transformer that caches something on self during transform and reads it next time *)
  Definition caches_on_self : prog := PSeq PKeep (PSeq (PFresh h) (PSelf g)).
End Shapes.

(* Imputer.transform, by method and container *)
Inductive imethod := MRandom | MConstant | MFill | MDrift | MForecaster | MMean | MMedian | MInterp.

Section Imputer.
  Variable h g fitg : buf -> buf -> buf.
  Variable hasmv : buf -> buf -> bool.
  Variable ncols : buf -> buf -> nat.

  Definition imputer_branch (m : imethod) (frame : bool) : prog :=
    match m with
    | MRandom =>
        if frame then PLoop ncols (PWrite g)      (* for col in Z: Z[col] = Z[col].apply(..) *)
        else PFresh h                             (* Z = Z.apply(..)                         *)
    | MDrift =>                                   (* a local PolynomialTrendForecaster       *)
        PSeq (PFresh h)                           (* Z = Z.fillna(ffill).fillna(backfill)    *)
             (if frame then PLoop ncols (PWrite g) else PFresh h)
    | MForecaster =>                              (* forecaster = self.forecaster; .fit(..)  *)
        PSeq (PFresh h)
             (if frame then PLoop ncols (PSeq (PSelf fitg) (PWrite g))
              else PSeq (PSelf fitg) (PFresh h))
    | _ => PFresh h                               (* Z = Z.fillna(..) / Z.interpolate(..)    *)
    end.

  (* Z = check_series(Z); if self.missing_values: Z = Z.replace(..); <branch>;
     Z = Z.fillna(ffill).fillna(backfill) *)
  Definition imputer (m : imethod) (frame : bool) : prog :=
    PSeq PKeep (PSeq (PIf hasmv (PFresh h) PKeep) (PSeq (imputer_branch m frame) (PFresh h))).
End Imputer.

(* a history of apply-type calls on one estimator: (program, caller's buffer id) *)
Fixpoint play (e : nat) (hs : list (prog * nat)) (st : store) : store :=
  match hs with
  | [] => st
  | (q, c) :: t => play e t (fst (exec e q st c))
  end.

(* fit of a transformer / forecaster: validates, derives, stores on self *)
Definition fit_shape (h g : buf -> buf -> buf) : prog := PSeq PKeep (PSeq (PFresh h) (PSelf g)).

(* ================================================================================ (ii) *)

Section Pool.
  Variables A B St : Type.
  (* a task: reads/writes the shared state, consumes its own input, produces its result *)
  Variable g : St -> A -> St * B.

  Definition slots := list (option B).

  Fixpoint set_slot (sl : slots) (i : nat) (b : B) : slots :=
    match sl, i with
    | [], _ => []
    | _ :: t, O => Some b :: t
    | x :: t, S j => x :: set_slot t j b
    end.

  (* one worker pick: run task i (atomically) and write its result into slot i *)
  Definition step (tasks : list A) (st : St * slots) (i : nat) : St * slots :=
    match nth_error tasks i with
    | Some a => let '(s', b) := g (fst st) a in (s', set_slot (snd st) i b)
    | None => st
    end.

  Definition init_slots (tasks : list A) : slots := repeat None (length tasks).

  (* a schedule is ANY sequence of picks: any order, repeats and out-of-range picks allowed *)
  Definition run_pool (tasks : list A) (s0 : St) (sched : list nat) : St * slots :=
    fold_left (step tasks) sched (s0, init_slots tasks).

  Fixpoint collect (sl : slots) : option (list B) :=
    match sl with
    | [] => Some []
    | Some b :: t => match collect t with Some l => Some (b :: l) | None => None end
    | None :: _ => None
    end.

  Definition parallel_map (tasks : list A) (s0 : St) (sched : list nat) : option (list B) :=
    collect (snd (run_pool tasks s0 sched)).
End Pool.

Arguments set_slot {B}.
Arguments step {A B St}.
Arguments init_slots {A B}.
Arguments run_pool {A B St}.
Arguments collect {B}.
Arguments parallel_map {A B St}.

(* a task that is a pure function of its own input *)
Definition pure_task {A B St} (f : A -> B) : St -> A -> St * B := fun s a => (s, f a).

(* a task that draws from a generator shared between the tasks (state = generator state) *)
Definition shared_rng_task {A B St} (next : St -> St * Z) (f : A -> Z -> B) : St -> A -> St * B :=
  fun s a => let '(s', r) := next s in (s', f a r).

(* seeds drawn sequentially BEFORE dispatch *)
Fixpoint draw_seeds {St} (next : St -> St * Z) (n : nat) (s : St) : list Z * St :=
  match n with
  | O => ([], s)
  | S k => let '(s1, r) := next s in let '(l, s2) := draw_seeds next k s1 in (r :: l, s2)
  end.

(* two-phase variant: a worker first STARTS a task (computes, keeps the result in its register),
   later FINISHES it (writes the register into the slot) *)
Inductive event := Start (w i : nat) | Finish (w : nat).

Section Pool2.
  Variables A B : Type.
  Variable f : A -> B.
  Definition regs := list (nat * (nat * B)).      (* worker -> (task index, result) *)

  Fixpoint reg_find (r : regs) (w : nat) : option (nat * B) :=
    match r with
    | [] => None
    | (w', v) :: t => if Nat.eqb w w' then Some v else reg_find t w
    end.
  Fixpoint reg_del (r : regs) (w : nat) : regs :=
    match r with
    | [] => []
    | (w', v) :: t => if Nat.eqb w w' then reg_del t w else (w', v) :: reg_del t w
    end.

  Definition step2 (tasks : list A) (st : regs * list (option B)) (ev : event)
    : regs * list (option B) :=
    match ev with
    | Start w i =>
        match nth_error tasks i with
        | Some a => ((w, (i, f a)) :: reg_del (fst st) w, snd st)
        | None => st
        end
    | Finish w =>
        match reg_find (fst st) w with
        | Some (i, b) => (reg_del (fst st) w, set_slot (snd st) i b)
        | None => st
        end
    end.

  Definition run_pool2 (tasks : list A) (evs : list event) : regs * list (option B) :=
    fold_left (step2 tasks) evs ([], init_slots tasks).
End Pool2.

Arguments run_pool2 {A B}.
Arguments step2 {A B}.

(* ================================================================================ (iii) *)

Section Rng.
  Variable St : Type.
  (* rng.randint(bound): None = ValueError (bound <= 0) or stream exhausted *)
  Variable randint : Z -> St -> option (Z * St).

  (* _get_intervals(n_intervals, min_interval, series_length, rng) *)
  Fixpoint get_intervals (k : nat) (mi sl : Z) (s : St) : option (list (Z * Z) * St) :=
    match k with
    | O => Some ([], s)
    | S k' =>
        match randint (sl - mi)%Z s with
        | None => None
        | Some (a, s1) =>
            match randint (sl - a - 1)%Z s1 with
            | None => None
            | Some (len0, s2) =>
                let len := if (len0 <? mi)%Z then mi else len0 in
                match get_intervals k' mi sl s2 with
                | Some (l, s3) => Some ((a, a + len)%Z :: l, s3)
                | None => None
                end
            end
        end
    end.

  (* intervals for n_estimators trees, drawn sequentially from one stream (TSF.fit) *)
  Fixpoint forest_intervals (n_est k : nat) (mi sl : Z) (s : St)
    : option (list (list (Z * Z)) * St) :=
    match n_est with
    | O => Some ([], s)
    | S n' =>
        match get_intervals k mi sl s with
        | None => None
        | Some (iv, s1) =>
            match forest_intervals n' k mi sl s1 with
            | Some (l, s2) => Some (iv :: l, s2)
            | None => None
            end
        end
    end.

  (* the world has a global generator; check_random_state(int) builds a fresh stream from the
     seed and leaves the global one alone; check_random_state(None) IS the global one *)
  Variable mk : Z -> St.
  Record world := { global_rng : St }.

  Definition fit_intervals (random_state : option Z) (n_est k : nat) (mi sl : Z) (w : world)
    : option (list (list (Z * Z))) * world :=
    match random_state with
    | Some seed =>
        (match forest_intervals n_est k mi sl (mk seed) with
         | Some (l, _) => Some l | None => None end, w)
    | None =>
        match forest_intervals n_est k mi sl (global_rng w) with
        | Some (l, s') => (Some l, {| global_rng := s' |})
        | None => (None, w)
        end
    end.

  (* an estimator that breaks ties at random in predict (BOSS): either a fresh stream per call
     (what /repo does) or a generator kept on self and advanced by every call *)
  Record est := { seed : Z; kept : St }.

  Definition pick (ties : list Z) (s : St) : option (Z * St) :=
    match randint (Z.of_nat (length ties)) s with
    | Some (j, s') => Some (nth (Z.to_nat j) ties 0%Z, s')
    | None => None
    end.

  Definition predict_fresh (e : est) (ties : list Z) : est * option Z :=
    (e, match pick ties (mk (seed e)) with Some (v, _) => Some v | None => None end).

  Definition predict_kept (e : est) (ties : list Z) : est * option Z :=
    match pick ties (kept e) with
    | Some (v, s') => ({| seed := seed e; kept := s' |}, Some v)
    | None => (e, None)
    end.
End Rng.

Arguments get_intervals {St}.
Arguments forest_intervals {St}.
Arguments fit_intervals {St}.
Arguments global_rng {St}.
Arguments Build_world {St}.
Arguments predict_fresh {St}.
Arguments predict_kept {St}.
Arguments Build_est {St}.
Arguments seed {St}.
Arguments kept {St}.
Arguments pick {St}.

(* concrete streams used by the refutation witnesses and by the correspondence *)

(* a linear congruential toy generator on Z *)
Definition lcg_next (s : Z) : Z * Z := ((s * 1103515245 + 12345) mod 2147483648, s mod 1000)%Z.
Definition lcg_randint (bound : Z) (s : Z) : option (Z * Z) :=
  if (bound <=? 0)%Z then None
  else let '(s', r) := lcg_next s in Some ((r mod bound)%Z, s').

(* a recorded stream: the (bound, value) pairs the real generator was asked for / returned *)
Definition rec_randint (bound : Z) (s : list (Z * Z)) : option (Z * list (Z * Z)) :=
  match s with
  | (b, v) :: t => if (b =? bound)%Z && (0 <=? v)%Z && (v <? bound)%Z then Some (v, t) else None
  | [] => None
  end.

(* ================================================================== call-site facts *)

Record site := {
  sid : nat;                      (* position in the generated list *)
  gen_form : bool;                (* Parallel(..)(delayed(F)(args) for v in iterable)            *)
  kw_ok : bool;                   (* only n_jobs / verbose / pre_dispatch / backend / prefer      *)
  bound_whole : bool;             (* the delivered list is bound as is (name / attribute / sum)   *)
  task_resolved : bool;           (* the task function's body was found and inspected             *)
  no_shared_rng_arg : bool;       (* no RNG object of the enclosing scope reaches the task        *)
  task_no_global_rng : bool;      (* the task never calls np.random.<draw>                        *)
  task_rng_from_seed : bool;      (* every generator used in the task is built in the task from a
                                     seed value (check_random_state(<param or self.random_state>)) *)
  task_no_shared_write : bool;    (* the task assigns no self.<attr>, has no global / nonlocal    *)
  draws_before_dispatch : bool    (* enclosing draws on a generator precede the Parallel call     *)
}.

Definition site_ok (s : site) : bool :=
  gen_form s && kw_ok s && bound_whole s && task_resolved s && no_shared_rng_arg s &&
  task_no_global_rng s && task_rng_from_seed s && task_no_shared_write s &&
  draws_before_dispatch s.

(* what a call site denotes in the pool model: tasks that draw from a generator shared between
   them if an RNG object reaches the tasks, otherwise tasks whose seeds were drawn before
   dispatch (a pure function of task input and own seed) *)
Definition site_pool {A B} (s : site) (next : Z -> Z * Z) (f : A -> Z -> B)
  (tasks : list A) (s0 : Z) (sched : list nat) : option (list B) :=
  if no_shared_rng_arg s && task_no_global_rng s && task_rng_from_seed s && draws_before_dispatch s
  then parallel_map (pure_task (fun p : A * Z => f (fst p) (snd p)))
         (combine tasks (fst (draw_seeds next (length tasks) s0))) s0 sched
  else parallel_map (shared_rng_task next f) tasks s0 sched.
