(* C12 model (executable definitions only).

   (i)   ownership: a store maps buffer ids (positions) to buffers; an apply-type method (or a fit)
         is a small program over LOCAL VARIABLES that refer to buffers (`Z`, `Z_aux`, `forecaster`,
         the parameter of an inlined helper, ...); `exec` runs it and returns the new store and
         the new variable binding.  `safe` is the aliasing analysis (per variable: may it still be
         an object the caller owns? may it be the estimator's own state?).  The programs of
         HampelFilter.transform and Imputer.transform are NOT written here: they are regenerated
         from /repo's source on every run (translator/own_c12.py -> C12/Own.v).
   (ii)  pool: tasks, slots, a schedule = any sequence of worker picks; a task may read and write
         a shared state (pure tasks ignore it).
   (iii) seeded sampling in the style of _get_intervals over an abstract RNG stream; worlds with a
         global RNG; estimators that keep (or do not keep) a generator between calls.
   (iv)  the cutoff discipline of predict: programs over one field of the estimator with
         save / restore regions; regenerated (translator/cutoff_c12.py -> C12/Cutoff.v).
   What is NOT here: threads, pickle, BLAS - sampled by the correspondence run (props/c12.py). *)
From Coq Require Import ZArith List Bool Arith.
Import ListNotations.

(* ================================================================================ (i) *)

Definition buf := list Z.
Definition store := list buf.

Definition get (st : store) (i : nat) : buf := nth i st [].

Fixpoint update (st : store) (i : nat) (b : buf) : store :=
  match st, i with
  | [], _ => []
  | _ :: t, O => b :: t
  | x :: t, S j => x :: update t j b
  end.

(* variable binding: local variable (a number) -> buffer id *)
Definition env := nat -> nat.
Definition setv (en : env) (x i : nat) : env := fun y => if Nat.eqb y x then i else en y.

(* what the code can read: the contents of the objects its variables refer to *)
Definition view (nv : nat) (st : store) (en : env) : list buf :=
  map (fun x => get st (en x)) (seq 0 nv).

(* Statements, as far as ownership is concerned.  Every function receives the estimator's state
   buffer and the view (contents of all variables). *)
Inductive stmt :=
  | SSkip
  | SAlias (x y : nat)                              (* x = y / x = check_series(y) / x = y[col]  *)
  | SSelfRef (x : nat)                              (* x = self.attr: an object the estimator holds *)
  | SFresh (x : nat) (h : buf -> list buf -> buf)   (* x = y.copy() / y.fillna(..) / clone(..): new *)
  | SWrite (x : nat) (g : buf -> list buf -> buf)   (* x.iloc[j] = .. / x[col] = .. / x.fit(..)     *)
  | SSelf (g : buf -> list buf -> buf)              (* self.attr = ..                                *)
  | SSeq (a b : stmt)
  | SIf (c : buf -> list buf -> bool) (a b : stmt)
  | SLoop (n : buf -> list buf -> nat) (body : stmt).

Fixpoint iter_exec (k : nat) (f : store -> env -> store * env) (st : store) (en : env)
  : store * env :=
  match k with
  | O => (st, en)
  | S k' => let '(st1, en1) := f st en in iter_exec k' f st1 en1
  end.

(* nv = number of variables, e = id of the estimator's state buffer *)
Fixpoint exec (nv e : nat) (p : stmt) (st : store) (en : env) : store * env :=
  match p with
  | SSkip => (st, en)
  | SAlias x y => (st, setv en x (en y))
  | SSelfRef x => (st, setv en x e)
  | SFresh x h => (st ++ [h (get st e) (view nv st en)], setv en x (length st))
  | SWrite x g => (update st (en x) (g (get st e) (view nv st en)), en)
  | SSelf g => (update st e (g (get st e) (view nv st en)), en)
  | SSeq a b => let '(st1, en1) := exec nv e a st en in exec nv e b st1 en1
  | SIf c a b => if c (get st e) (view nv st en) then exec nv e a st en else exec nv e b st en
  | SLoop n body => iter_exec (n (get st e) (view nv st en)) (exec nv e body) st en
  end.

(* a method: its variables, its body, the variable it returns *)
Record method := { nvars : nat; body : stmt; ret : nat }.

(* apply : store -> caller's buffer id -> store * result buffer id.  Every variable (the data
   argument and any other argument) starts out referring to the caller's object. *)
Definition apply (e : nat) (m : method) (st : store) (caller : nat) : store * nat :=
  let r := exec (nvars m) e (body m) st (fun _ => caller) in (fst r, snd r (ret m)).

(* Aliasing analysis.  Per variable two flags: (may be an object that existed before the call and
   is not the estimator's state, may be the estimator's state).  Unknown variables: (true, true).
   `self_ok` = writes to the estimator's state are allowed (true for fit, false for apply-type
   methods).  Result: None = rejected; Some a' = accepted, with the flags after the statement. *)
Definition flags := list (bool * bool).
Definition top : bool * bool := (true, true).
Definition fl (a : flags) (x : nat) : bool * bool := nth x a top.

Fixpoint setf (a : flags) (x : nat) (v : bool * bool) : flags :=
  match a, x with
  | [], _ => []
  | _ :: t, O => v :: t
  | u :: t, S j => u :: setf t j v
  end.

Definition fjoin (a b : flags) : flags :=
  map (fun i => (fst (fl a i) || fst (fl b i), snd (fl a i) || snd (fl b i))) (seq 0 (length a)).

Definition fle1 (u v : bool * bool) : bool := implb (fst u) (fst v) && implb (snd u) (snd v).

Definition fle (a b : flags) : bool :=
  Nat.eqb (length a) (length b) && forallb (fun i => fle1 (fl a i) (fl b i)) (seq 0 (length a)).

Fixpoint safe (self_ok : bool) (p : stmt) (a : flags) : option flags :=
  match p with
  | SSkip => Some a
  | SAlias x y => Some (setf a x (fl a y))
  | SSelfRef x => Some (setf a x (false, true))
  | SFresh x _ => Some (setf a x (false, false))
  | SWrite x _ =>
      if fst (fl a x) then None
      else if snd (fl a x) && negb self_ok then None else Some a
  | SSelf _ => if self_ok then Some a else None
  | SSeq p1 p2 => match safe self_ok p1 a with Some a1 => safe self_ok p2 a1 | None => None end
  | SIf _ p1 p2 =>
      match safe self_ok p1 a, safe self_ok p2 a with
      | Some a1, Some a2 => Some (fjoin a1 a2)
      | _, _ => None
      end
  | SLoop _ b =>
      (* the flags at loop entry must be a loop invariant *)
      match safe self_ok b a with
      | Some a1 => if fle a1 a then Some a else None
      | None => None
      end
  end.

Definition is_safe (self_ok : bool) (m : method) : bool :=
  match safe self_ok (body m) (repeat top (nvars m)) with Some _ => true | None => false end.

(* the analysis flags the returned variable as a new object (neither the caller's nor the
   estimator's) *)
Definition returns_fresh (m : method) : bool :=
  match safe false (body m) (repeat top (nvars m)) with
  | Some a => negb (fst (fl a (ret m))) && negb (snd (fl a (ret m)))
  | None => false
  end.

(* ---- generic shapes (hand-written; the anchored transformers' programs are generated) ---- *)

Section Shapes.
  Variable h g : buf -> list buf -> buf.
  Variable isframe : buf -> list buf -> bool.
  Variable ncols : buf -> list buf -> nat.

  (* the generic copy-first discipline: validate, then derive a new object *)
  Definition copy_first : method :=
    {| nvars := 1; body := SSeq (SAlias 0 0) (SFresh 0 h); ret := 0 |}.

  (* fit of a transformer / forecaster: validates, derives, stores on self *)
  Definition fit_shape : method :=
    {| nvars := 1; body := SSeq (SAlias 0 0) (SSeq (SFresh 0 h) (SSelf g)); ret := 0 |}.

  (* a transformer that caches something on self during transform and reads it next time *)
  Definition caches_on_self : method :=
    {| nvars := 1; body := SSeq (SFresh 0 h) (SSelf g); ret := 0 |}.

  (* HISTORICAL shapes of defects repaired in /repo (kept only as negative witnesses):
     HampelFilter.transform without the copy;  Imputer(method="random") writing `Z[col] = ..` into
     the validated input;  Imputer(method="forecaster") fitting `self.forecaster` itself *)
  Definition old_inplace_loop : method :=
    {| nvars := 1; body := SSeq (SAlias 0 0) (SLoop ncols (SWrite 0 g)); ret := 0 |}.
  Definition old_random_frame : method :=
    {| nvars := 1;
       body := SSeq (SAlias 0 0)
                 (SSeq (SIf isframe (SLoop ncols (SWrite 0 g)) (SFresh 0 h)) (SFresh 0 h));
       ret := 0 |}.
  Definition old_fits_own_param : method :=
    {| nvars := 2;
       body := SSeq (SSelfRef 1) (SSeq (SFresh 0 h) (SSeq (SWrite 1 g) (SFresh 0 h)));
       ret := 0 |}.
End Shapes.

(* a history of apply-type calls on one estimator: (method, caller's buffer id) *)
Fixpoint play (e : nat) (hs : list (method * nat)) (st : store) : store :=
  match hs with
  | [] => st
  | (q, c) :: t => play e t (fst (apply e q st c))
  end.

(* ================================================================================ (ii) *)

Section Pool.
  Variables A B St : Type.
  (* a task: reads/writes the shared state, consumes its own input, produces its result *)
  Variable g : St -> A -> St * B.

  Definition slots := list (option B).

  Fixpoint set_slot (sl : slots) (i : nat) (b : B) : slots :=
    match sl, i with
    | [], _ => []
    | _ :: t, O => Some b :: t
    | x :: t, S j => x :: set_slot t j b
    end.

  (* one worker pick: run task i (atomically) and write its result into slot i *)
  Definition step (tasks : list A) (st : St * slots) (i : nat) : St * slots :=
    match nth_error tasks i with
    | Some a => let '(s', b) := g (fst st) a in (s', set_slot (snd st) i b)
    | None => st
    end.

  Definition init_slots (tasks : list A) : slots := repeat None (length tasks).

  (* a schedule is ANY sequence of picks: any order, repeats and out-of-range picks allowed *)
  Definition run_pool (tasks : list A) (s0 : St) (sched : list nat) : St * slots :=
    fold_left (step tasks) sched (s0, init_slots tasks).

  Fixpoint collect (sl : slots) : option (list B) :=
    match sl with
    | [] => Some []
    | Some b :: t => match collect t with Some l => Some (b :: l) | None => None end
    | None :: _ => None
    end.

  Definition parallel_map (tasks : list A) (s0 : St) (sched : list nat) : option (list B) :=
    collect (snd (run_pool tasks s0 sched)).
End Pool.

Arguments set_slot {B}.
Arguments step {A B St}.
Arguments init_slots {A B}.
Arguments run_pool {A B St}.
Arguments collect {B}.
Arguments parallel_map {A B St}.

(* a task that is a pure function of its own input *)
Definition pure_task {A B St} (f : A -> B) : St -> A -> St * B := fun s a => (s, f a).

(* a task that draws from a generator shared between the tasks (state = generator state) *)
Definition shared_rng_task {A B St} (next : St -> St * Z) (f : A -> Z -> B) : St -> A -> St * B :=
  fun s a => let '(s', r) := next s in (s', f a r).

(* seeds drawn sequentially BEFORE dispatch *)
Fixpoint draw_seeds {St} (next : St -> St * Z) (n : nat) (s : St) : list Z * St :=
  match n with
  | O => ([], s)
  | S k => let '(s1, r) := next s in let '(l, s2) := draw_seeds next k s1 in (r :: l, s2)
  end.

(* two-phase variant: a worker first STARTS a task (computes, keeps the result in its register),
   later FINISHES it (writes the register into the slot) *)
Inductive event := Start (w i : nat) | Finish (w : nat).

Section Pool2.
  Variables A B : Type.
  Variable f : A -> B.
  Definition regs := list (nat * (nat * B)).      (* worker -> (task index, result) *)

  Fixpoint reg_find (r : regs) (w : nat) : option (nat * B) :=
    match r with
    | [] => None
    | (w', v) :: t => if Nat.eqb w w' then Some v else reg_find t w
    end.
  Fixpoint reg_del (r : regs) (w : nat) : regs :=
    match r with
    | [] => []
    | (w', v) :: t => if Nat.eqb w w' then reg_del t w else (w', v) :: reg_del t w
    end.

  Definition step2 (tasks : list A) (st : regs * list (option B)) (ev : event)
    : regs * list (option B) :=
    match ev with
    | Start w i =>
        match nth_error tasks i with
        | Some a => ((w, (i, f a)) :: reg_del (fst st) w, snd st)
        | None => st
        end
    | Finish w =>
        match reg_find (fst st) w with
        | Some (i, b) => (reg_del (fst st) w, set_slot (snd st) i b)
        | None => st
        end
    end.

  Definition run_pool2 (tasks : list A) (evs : list event) : regs * list (option B) :=
    fold_left (step2 tasks) evs ([], init_slots tasks).
End Pool2.

Arguments run_pool2 {A B}.
Arguments step2 {A B}.

(* ================================================================================ (iii) *)

Section Rng.
  Variable St : Type.
  (* rng.randint(bound): None = ValueError (bound <= 0) or stream exhausted *)
  Variable randint : Z -> St -> option (Z * St).

  (* _get_intervals(n_intervals, min_interval, series_length, rng) *)
  Fixpoint get_intervals (k : nat) (mi sl : Z) (s : St) : option (list (Z * Z) * St) :=
    match k with
    | O => Some ([], s)
    | S k' =>
        match randint (sl - mi)%Z s with
        | None => None
        | Some (a, s1) =>
            match randint (sl - a - 1)%Z s1 with
            | None => None
            | Some (len0, s2) =>
                let len := if (len0 <? mi)%Z then mi else len0 in
                match get_intervals k' mi sl s2 with
                | Some (l, s3) => Some ((a, a + len)%Z :: l, s3)
                | None => None
                end
            end
        end
    end.

  (* intervals for n_estimators trees, drawn sequentially from one stream (TSF.fit) *)
  Fixpoint forest_intervals (n_est k : nat) (mi sl : Z) (s : St)
    : option (list (list (Z * Z)) * St) :=
    match n_est with
    | O => Some ([], s)
    | S n' =>
        match get_intervals k mi sl s with
        | None => None
        | Some (iv, s1) =>
            match forest_intervals n' k mi sl s1 with
            | Some (l, s2) => Some (iv :: l, s2)
            | None => None
            end
        end
    end.

  (* the world has a global generator; check_random_state(int) builds a fresh stream from the
     seed and leaves the global one alone; check_random_state(None) IS the global one *)
  Variable mk : Z -> St.
  Record world := { global_rng : St }.

  Definition fit_intervals (random_state : option Z) (n_est k : nat) (mi sl : Z) (w : world)
    : option (list (list (Z * Z))) * world :=
    match random_state with
    | Some seed =>
        (match forest_intervals n_est k mi sl (mk seed) with
         | Some (l, _) => Some l | None => None end, w)
    | None =>
        match forest_intervals n_est k mi sl (global_rng w) with
        | Some (l, s') => (Some l, {| global_rng := s' |})
        | None => (None, w)
        end
    end.

  (* an estimator that breaks ties at random in predict (BOSS): either a fresh stream per call
     (what /repo does) or a generator kept on self and advanced by every call *)
  Record est := { seed : Z; kept : St }.

  Definition pick (ties : list Z) (s : St) : option (Z * St) :=
    match randint (Z.of_nat (length ties)) s with
    | Some (j, s') => Some (nth (Z.to_nat j) ties 0%Z, s')
    | None => None
    end.

  Definition predict_fresh (e : est) (ties : list Z) : est * option Z :=
    (e, match pick ties (mk (seed e)) with Some (v, _) => Some v | None => None end).

  Definition predict_kept (e : est) (ties : list Z) : est * option Z :=
    match pick ties (kept e) with
    | Some (v, s') => ({| seed := seed e; kept := s' |}, Some v)
    | None => (e, None)
    end.
End Rng.

Arguments get_intervals {St}.
Arguments forest_intervals {St}.
Arguments fit_intervals {St}.
Arguments global_rng {St}.
Arguments Build_world {St}.
Arguments predict_fresh {St}.
Arguments predict_kept {St}.
Arguments Build_est {St}.
Arguments seed {St}.
Arguments kept {St}.
Arguments pick {St}.

(* how the `random_state` the user passed arrives at the generator: unchanged (the regenerated
   seed-flow fact of the estimator holds), or - the shape of a seed filtered by truthiness, `if
   value` - with a zero seed dropped *)
Definition truthy_filter (rs : option Z) : option Z :=
  match rs with Some 0%Z => None | x => x end.
Definition forwarded (unchanged : bool) (rs : option Z) : option Z :=
  if unchanged then rs else truthy_filter rs.

(* concrete streams used by the refutation witnesses and by the correspondence *)

(* a linear congruential toy generator on Z *)
Definition lcg_next (s : Z) : Z * Z := ((s * 1103515245 + 12345) mod 2147483648, s mod 1000)%Z.
Definition lcg_randint (bound : Z) (s : Z) : option (Z * Z) :=
  if (bound <=? 0)%Z then None
  else let '(s', r) := lcg_next s in Some ((r mod bound)%Z, s').

(* a recorded stream: the (bound, value) pairs the real generator was asked for / returned *)
Definition rec_randint (bound : Z) (s : list (Z * Z)) : option (Z * list (Z * Z)) :=
  match s with
  | (b, v) :: t => if (b =? bound)%Z && (0 <=? v)%Z && (v <? bound)%Z then Some (v, t) else None
  | [] => None
  end.

(* ================================================================================ (iv) *)

(* The cutoff discipline of `predict`: the code reachable from predict reduced to what it does to
   ONE field of the estimator (the cutoff).  `KSet k` = an assignment of the field (any new value),
   `KDetached b` = `with self._detached_cutoff(): b` (save the field, run b, put it back - also when
   b is left by return / raise), `KAbort` = return / raise (leaves the enclosing function: `KCall`
   is a function boundary), conditions and loop counts opaque. *)
Inductive kstmt :=
  | KSkip
  | KSet (k : nat)
  | KAbort
  | KSeq (a b : kstmt)
  | KIf (c : nat) (a b : kstmt)
  | KLoop (n : nat) (b : kstmt)
  | KDetached (b : kstmt)
  | KCall (b : kstmt).

Section Cutoff.
  Variable setv : nat -> Z -> Z.        (* the value the k-th assignment stores *)
  Variable kcond : nat -> Z -> bool.
  Variable kcnt : nat -> Z -> nat.

  Fixpoint kiter (n : nat) (f : Z -> Z * bool) (s : Z) : Z * bool :=
    match n with
    | O => (s, false)
    | S n' => let '(s1, ab) := f s in if ab then (s1, true) else kiter n' f s1
    end.

  (* (cutoff afterwards, left by return / raise) *)
  Fixpoint kexec (p : kstmt) (s : Z) : Z * bool :=
    match p with
    | KSkip => (s, false)
    | KSet k => (setv k s, false)
    | KAbort => (s, true)
    | KSeq a b => let '(s1, ab) := kexec a s in if ab then (s1, true) else kexec b s1
    | KIf c a b => if kcond c s then kexec a s else kexec b s
    | KLoop n b => kiter (kcnt n s) (kexec b) s
    | KDetached b => let '(_, ab) := kexec b s in (s, ab)
    | KCall b => (fst (kexec b s), false)
    end.
End Cutoff.

(* every assignment of the field lies inside a detached region *)
Fixpoint guarded (p : kstmt) : bool :=
  match p with
  | KSet _ => false
  | KDetached _ => true
  | KSeq a b | KIf _ a b => guarded a && guarded b
  | KLoop _ b | KCall b => guarded b
  | KSkip | KAbort => true
  end.

(* ================================================================== call-site facts *)

Record site := {
  sid : nat;                      (* position in the generated list *)
  gen_form : bool;                (* Parallel(..)(delayed(F)(args) for v in iterable)            *)
  kw_ok : bool;                   (* only n_jobs / verbose / pre_dispatch / backend / prefer      *)
  bound_whole : bool;             (* the delivered list is bound as is (name / attribute / sum)   *)
  task_resolved : bool;           (* the task function's body was found and inspected             *)
  no_shared_rng_arg : bool;       (* no RNG object of the enclosing scope reaches the task        *)
  task_no_global_rng : bool;      (* the task never calls np.random.<draw>                        *)
  task_rng_from_seed : bool;      (* every generator used in the task is built in the task from a
                                     seed value (check_random_state(<param or self.random_state>)) *)
  task_no_shared_write : bool;    (* the task assigns no self.<attr>, has no global / nonlocal    *)
  draws_before_dispatch : bool;   (* enclosing draws on a generator precede the Parallel call     *)
  njobs_none_ok : bool            (* n_jobs is only handed on (Parallel / check_n_jobs), never
                                     compared or computed with: n_jobs=None reaches the pool       *)
}.

Definition site_ok (s : site) : bool :=
  gen_form s && kw_ok s && bound_whole s && task_resolved s && no_shared_rng_arg s &&
  task_no_global_rng s && task_rng_from_seed s && task_no_shared_write s &&
  draws_before_dispatch s && njobs_none_ok s.

(* what a call site denotes in the pool model: tasks that draw from a generator shared between
   them if an RNG object reaches the tasks, otherwise tasks whose seeds were drawn before
   dispatch (a pure function of task input and own seed) *)
Definition site_pool {A B} (s : site) (next : Z -> Z * Z) (f : A -> Z -> B)
  (tasks : list A) (s0 : Z) (sched : list nat) : option (list B) :=
  if no_shared_rng_arg s && task_no_global_rng s && task_rng_from_seed s && draws_before_dispatch s
  then parallel_map (pure_task (fun p : A * Z => f (fst p) (snd p)))
         (combine tasks (fst (draw_seeds next (length tasks) s0))) s0 sched
  else parallel_map (shared_rng_task next f) tasks s0 sched.
