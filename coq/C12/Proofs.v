(* C12 lemmas: ownership (i), pool (ii), seeded sampling (iii). *)
From Coq Require Import ZArith List Bool Arith Lia Permutation.
Require Import SkV.C12.Model.
Import ListNotations.

(* ================================================================================ (i) *)

Lemma update_length : forall st i b, length (update st i b) = length st.
Proof. induction st as [|x t IH]; intros [|j] b; cbn; auto. Qed.

Lemma get_update_other : forall st i j b, i <> j -> get (update st i b) j = get st j.
Proof.
  unfold get. induction st as [|x t IH]; intros [|i] [|j] b H; cbn; auto; try congruence.
Qed.

Lemma get_update_same : forall st i b, i < length st -> get (update st i b) i = b.
Proof.
  unfold get. induction st as [|x t IH]; intros [|i] b H; cbn in *; try lia; auto.
  apply IH. lia.
Qed.

Lemma get_app_old : forall (st : store) b j, j < length st -> get (st ++ [b]) j = get st j.
Proof. intros. unfold get. apply app_nth1. assumption. Qed.

Lemma get_app_new : forall (st : store) b, get (st ++ [b]) (length st) = b.
Proof. intros. unfold get. rewrite app_nth2 by lia. rewrite Nat.sub_diag. reflexivity. Qed.

(* ---- flags ---- *)

Lemma setf_length : forall a x v, length (setf a x v) = length a.
Proof. induction a as [|u t IH]; intros [|j] v; cbn; auto. Qed.

Lemma fl_setf_other : forall a x y v, y <> x -> fl (setf a x v) y = fl a y.
Proof.
  unfold fl. induction a as [|u t IH]; intros [|x] [|y] v H; cbn; auto; try congruence.
Qed.

Lemma fl_setf_same : forall a x v, fl (setf a x v) x = v \/ fl (setf a x v) x = top.
Proof.
  unfold fl. induction a as [|u t IH]; intros [|x] v; cbn; auto.
Qed.

Lemma fl_repeat_top : forall n x, fl (repeat top n) x = top.
Proof.
  unfold fl. induction n as [|n IH]; intros [|x]; cbn; auto.
Qed.

(* a <= b pointwise: b is the less precise (more "may alias") flag list *)
Definition fle_all (a b : flags) : Prop :=
  forall x, (fst (fl b x) = false -> fst (fl a x) = false) /\
            (snd (fl b x) = false -> snd (fl a x) = false).

Lemma fle_sound : forall a b, fle a b = true -> fle_all a b.
Proof.
  intros a b H x. unfold fle in H. apply andb_true_iff in H. destruct H as [Hl Hf].
  apply Nat.eqb_eq in Hl. rewrite forallb_forall in Hf.
  destruct (Nat.lt_ge_cases x (length a)) as [Hx|Hx].
  - assert (Hin : In x (seq 0 (length a))) by (apply in_seq; lia).
    specialize (Hf x Hin). unfold fle1 in Hf. apply andb_true_iff in Hf. destruct Hf as [H1 H2].
    destruct (fl a x) as [c s], (fl b x) as [c' s']. cbn in *.
    split; intro E; subst; [destruct c|destruct s]; cbn in *; congruence.
  - assert (E : fl b x = top) by (unfold fl; apply nth_overflow; lia).
    rewrite E. cbn. split; discriminate.
Qed.

Lemma nth_map_seq : forall (A : Type) (f : nat -> A) n x d, x < n -> nth x (map f (seq 0 n)) d = f x.
Proof.
  intros A f n x d H. rewrite (nth_indep _ d (f 0)) by (rewrite map_length, seq_length; exact H).
  rewrite map_nth. rewrite seq_nth by exact H. reflexivity.
Qed.

Lemma fl_fjoin : forall a b x,
  fl (fjoin a b) x = top \/
  fl (fjoin a b) x = (fst (fl a x) || fst (fl b x), snd (fl a x) || snd (fl b x)).
Proof.
  intros a b x. destruct (Nat.lt_ge_cases x (length a)) as [Hx|Hx].
  - right. unfold fjoin, fl at 1. rewrite nth_map_seq by exact Hx. reflexivity.
  - left. unfold fjoin, fl at 1. apply nth_overflow. rewrite map_length, seq_length. exact Hx.
Qed.

Lemma fjoin_ge_l : forall a b, fle_all a (fjoin a b).
Proof.
  intros a b x. destruct (fl_fjoin a b x) as [E|E]; rewrite E; cbn.
  - split; discriminate.
  - split; intro H; apply orb_false_iff in H; tauto.
Qed.

Lemma fjoin_ge_r : forall a b, fle_all b (fjoin a b).
Proof.
  intros a b x. destruct (fl_fjoin a b x) as [E|E]; rewrite E; cbn.
  - split; discriminate.
  - split; intro H; apply orb_false_iff in H; tauto.
Qed.

(* ---- the invariant of a run, relative to the store st0 the call started from ---- *)

Definition inv (so : bool) (e : nat) (st0 : store) (a : flags) (st : store) (en : env) : Prop :=
  length st0 <= length st /\
  (forall x, en x < length st) /\
  (forall x, fst (fl a x) = false -> en x = e \/ length st0 <= en x) /\
  (forall x, snd (fl a x) = false -> en x <> e) /\
  (forall i, i < length st0 -> i <> e -> get st i = get st0 i) /\
  (so = false -> get st e = get st0 e).

Lemma inv_weaken : forall so e st0 a a' st en,
  fle_all a a' -> inv so e st0 a st en -> inv so e st0 a' st en.
Proof.
  intros so e st0 a a' st en Hle (H1 & H2 & H3 & H4 & H5 & H6).
  repeat split; auto.
  - intros x Hx. apply H3. apply (proj1 (Hle x)). exact Hx.
  - intros x Hx. apply H4. apply (proj2 (Hle x)). exact Hx.
Qed.

Lemma inv_set : forall so e st0 a st en x v i,
  inv so e st0 a st en -> i < length st ->
  (fst v = false -> i = e \/ length st0 <= i) -> (snd v = false -> i <> e) ->
  inv so e st0 (setf a x v) st (setv en x i).
Proof.
  intros so e st0 a st en x v i (H1 & H2 & H3 & H4 & H5 & H6) Hi Hc Hs.
  repeat split; auto.
  - intro y. unfold setv. destruct (Nat.eqb y x); auto.
  - intros y Hy. unfold setv. destruct (Nat.eqb y x) eqn:E.
    + apply Nat.eqb_eq in E. subst y. destruct (fl_setf_same a x v) as [Ev|Ev]; rewrite Ev in Hy.
      * auto.
      * discriminate.
    + apply Nat.eqb_neq in E. rewrite fl_setf_other in Hy by exact E. auto.
  - intros y Hy. unfold setv. destruct (Nat.eqb y x) eqn:E.
    + apply Nat.eqb_eq in E. subst y. destruct (fl_setf_same a x v) as [Ev|Ev]; rewrite Ev in Hy.
      * auto.
      * discriminate.
    + apply Nat.eqb_neq in E. rewrite fl_setf_other in Hy by exact E. auto.
Qed.

Lemma inv_alloc : forall so e st0 a st en b, e < length st0 ->
  inv so e st0 a st en -> inv so e st0 a (st ++ [b]) en.
Proof.
  intros so e st0 a st en b He (H1 & H2 & H3 & H4 & H5 & H6).
  unfold inv. rewrite app_length. cbn [length]. repeat split; auto.
  - lia.
  - intro x. specialize (H2 x). lia.
  - intros i Hi Hne. rewrite get_app_old by lia. auto.
  - intro Hso. rewrite get_app_old by lia. auto.
Qed.

Lemma iter_exec_ok : forall so e st0 a (f : store -> env -> store * env),
  (forall st en, inv so e st0 a st en -> inv so e st0 a (fst (f st en)) (snd (f st en))) ->
  forall k st en, inv so e st0 a st en ->
  inv so e st0 a (fst (iter_exec k f st en)) (snd (iter_exec k f st en)).
Proof.
  intros so e st0 a f Hf. induction k as [|k IH]; intros st en H; cbn; [exact H|].
  specialize (Hf st en H). destruct (f st en) as [st1 en1]. cbn in Hf. apply IH. exact Hf.
Qed.

Lemma exec_ok : forall so p a a', safe so p a = Some a' ->
  forall nv e st0 st en, e < length st0 -> inv so e st0 a st en ->
  inv so e st0 a' (fst (exec nv e p st en)) (snd (exec nv e p st en)).
Proof.
  induction p as [|x y|x|x h|x g|g|p1 IH1 p2 IH2|c p1 IH1 p2 IH2|n b IH];
    intros a a' Hs nv e st0 st en He Hok; cbn in Hs.
  - injection Hs as <-. exact Hok.
  - injection Hs as <-. cbn [exec fst snd].
    pose proof Hok as (H1 & H2 & H3 & H4 & H5 & H6). apply inv_set; auto.
  - injection Hs as <-. cbn [exec fst snd].
    pose proof Hok as (H1 & H2 & H3 & H4 & H5 & H6). apply inv_set; cbn; auto; try lia; try discriminate.
  - injection Hs as <-. cbn [exec fst snd].
    pose proof Hok as (H1 & H2 & H3 & H4 & H5 & H6).
    apply inv_set.
    + apply inv_alloc; assumption.
    + rewrite app_length. cbn. lia.
    + intros _. right. exact H1.
    + intros _. lia.
  - destruct (fst (fl a x)) eqn:Ec; [discriminate|].
    destruct (snd (fl a x) && negb so) eqn:Es; [discriminate|]. injection Hs as <-.
    destruct Hok as (H1 & H2 & H3 & H4 & H5 & H6). cbn [exec fst snd].
    unfold inv. rewrite update_length. repeat split; auto.
    + intros i Hi Hne. rewrite get_update_other; auto.
      destruct (H3 x Ec) as [E|E]; [congruence|lia].
    + intro Hso. subst so. rewrite andb_true_r in Es.
      rewrite get_update_other; auto.
  - destruct so; [|discriminate]. injection Hs as <-.
    destruct Hok as (H1 & H2 & H3 & H4 & H5 & H6). cbn [exec fst snd].
    unfold inv. rewrite update_length. repeat split; auto.
    + intros i Hi Hne. rewrite get_update_other by congruence. auto.
    + discriminate.
  - destruct (safe so p1 a) as [a1|] eqn:E1; [|discriminate].
    specialize (IH1 _ _ E1 nv e st0 st en He Hok). cbn [exec].
    destruct (exec nv e p1 st en) as [st1 en1]. cbn [fst snd] in IH1.
    apply (IH2 _ _ Hs nv e st0 st1 en1 He IH1).
  - destruct (safe so p1 a) as [a1|] eqn:E1; [|discriminate].
    destruct (safe so p2 a) as [a2|] eqn:E2; [|discriminate].
    injection Hs as <-. cbn [exec]. destruct (c (get st e) (view nv st en)).
    + eapply inv_weaken; [apply fjoin_ge_l|]. apply (IH1 _ _ E1 nv e st0 st en He Hok).
    + eapply inv_weaken; [apply fjoin_ge_r|]. apply (IH2 _ _ E2 nv e st0 st en He Hok).
  - destruct (safe so b a) as [a1|] eqn:E1; [|discriminate].
    destruct (fle a1 a) eqn:El; [|discriminate]. injection Hs as <-.
    cbn [exec]. apply iter_exec_ok; [|exact Hok].
    intros st' en' H'. eapply inv_weaken; [apply fle_sound; exact El|].
    apply (IH _ _ E1 nv e st0 st' en' He H').
Qed.

Lemma inv_init : forall so e st0 nv c, c < length st0 ->
  inv so e st0 (repeat top nv) st0 (fun _ => c).
Proof.
  intros. unfold inv. repeat split; auto; intros x Hx; rewrite fl_repeat_top in Hx; discriminate.
Qed.

Lemma is_safe_inv : forall so m, is_safe so m = true ->
  exists a', safe so (body m) (repeat top (nvars m)) = Some a'.
Proof.
  unfold is_safe. intros so m H. destruct (safe so (body m) _); [eauto|discriminate].
Qed.

Lemma apply_inv : forall so m, is_safe so m = true ->
  forall e st0 caller, e < length st0 -> caller < length st0 ->
  exists a', inv so e st0 a' (fst (exec (nvars m) e (body m) st0 (fun _ => caller)))
                             (snd (exec (nvars m) e (body m) st0 (fun _ => caller))).
Proof.
  intros so m Hs e st0 c He Hc. destruct (is_safe_inv _ _ Hs) as [a' Ha]. exists a'.
  apply (exec_ok _ _ _ _ Ha (nvars m) e st0 st0 (fun _ => c) He). apply inv_init. exact Hc.
Qed.

(* fit or apply: no buffer the caller owns is touched *)
Lemma preserves_caller_buffers : forall so m, is_safe so m = true ->
  forall e st0 caller, e < length st0 -> caller < length st0 ->
  forall i, i < length st0 -> i <> e -> get (fst (apply e m st0 caller)) i = get st0 i.
Proof.
  intros so m Hs e st0 c He Hc i Hi Hne.
  destruct (apply_inv so m Hs e st0 c He Hc) as (a' & _ & _ & _ & _ & Hk & _).
  unfold apply. cbn [fst]. apply Hk; assumption.
Qed.

(* apply-type methods: the estimator's state is not touched either *)
Lemma preserves_estimator_state : forall m, is_safe false m = true ->
  forall e st0 caller, e < length st0 -> caller < length st0 ->
  get (fst (apply e m st0 caller)) e = get st0 e.
Proof.
  intros m Hs e st0 c He Hc.
  destruct (apply_inv false m Hs e st0 c He Hc) as (a' & _ & _ & _ & _ & _ & Hself).
  unfold apply. cbn [fst]. apply Hself. reflexivity.
Qed.

Lemma apply_store_grows : forall so m, is_safe so m = true ->
  forall e st0 caller, e < length st0 -> caller < length st0 ->
  length st0 <= length (fst (apply e m st0 caller)) /\
  snd (apply e m st0 caller) < length (fst (apply e m st0 caller)).
Proof.
  intros so m Hs e st0 c He Hc.
  destruct (apply_inv so m Hs e st0 c He Hc) as (a' & H1 & H2 & _).
  unfold apply. cbn [fst snd]. split; [exact H1|apply H2].
Qed.

(* ---- the result is a function of (estimator state, caller's data) only ---- *)

(* two runs of the same program, on stores that agree on the estimator's state and on the
   caller's data (and may differ in everything else, ids included), stay in step: the objects
   allocated so far have pairwise equal contents and every variable refers to corresponding
   objects *)
Definition sim (e caller n : nat) (st : store) (en : env)
               (e' caller' n' : nat) (st' : store) (en' : env) : Prop :=
  exists k, length st = n + k /\ length st' = n' + k /\
    (forall j, j < k -> get st (n + j) = get st' (n' + j)) /\
    get st e = get st' e' /\ get st caller = get st' caller' /\
    (forall x, (en x = caller /\ en' x = caller') \/ (en x = e /\ en' x = e') \/
               (exists j, j < k /\ en x = n + j /\ en' x = n' + j)).

Lemma sim_get : forall e c n st en e' c' n' st' en' x,
  sim e c n st en e' c' n' st' en' -> get st (en x) = get st' (en' x).
Proof.
  intros e c n st en e' c' n' st' en' x (k & _ & _ & Hf & He & Hc & Hen).
  destruct (Hen x) as [[-> ->]|[[-> ->]|(j & Hj & -> & ->)]]; auto.
Qed.

Lemma sim_view : forall nv e c n st en e' c' n' st' en',
  sim e c n st en e' c' n' st' en' -> view nv st en = view nv st' en'.
Proof.
  intros. unfold view. apply map_ext. intro x. eapply sim_get; eauto.
Qed.

Lemma sim_e : forall e c n st en e' c' n' st' en',
  sim e c n st en e' c' n' st' en' -> get st e = get st' e'.
Proof. intros e c n st en e' c' n' st' en' (k & _ & _ & _ & He & _). exact He. Qed.

Section Sim.
  Variables (nv e caller : nat) (st0 : store) (e' caller' n' : nat).
  Hypothesis He : e < length st0.
  Hypothesis Hc : caller < length st0.
  Hypothesis Hec : e <> caller.
  Hypothesis He' : e' < n'.
  Hypothesis Hc' : caller' < n'.

  Definition both (a : flags) (st : store) (en : env) (st' : store) (en' : env) : Prop :=
    inv false e st0 a st en /\ sim e caller (length st0) st en e' caller' n' st' en'.

  Lemma iter_exec_both : forall a (f f' : store -> env -> store * env),
    (forall st en st' en', both a st en st' en' ->
       both a (fst (f st en)) (snd (f st en)) (fst (f' st' en')) (snd (f' st' en'))) ->
    forall k st en st' en', both a st en st' en' ->
    both a (fst (iter_exec k f st en)) (snd (iter_exec k f st en))
           (fst (iter_exec k f' st' en')) (snd (iter_exec k f' st' en')).
  Proof.
    intros a f f' Hf. induction k as [|k IH]; intros st en st' en' H; cbn; [exact H|].
    specialize (Hf st en st' en' H).
    destruct (f st en) as [st1 en1]. destruct (f' st' en') as [st1' en1']. cbn [fst snd] in Hf.
    apply IH. exact Hf.
  Qed.

  Lemma exec_both : forall p a a', safe false p a = Some a' ->
    forall st en st' en', both a st en st' en' ->
    both a' (fst (exec nv e p st en)) (snd (exec nv e p st en))
            (fst (exec nv e' p st' en')) (snd (exec nv e' p st' en')).
  Proof.
    induction p as [|x y|x|x h|x g|g|p1 IH1 p2 IH2|c p1 IH1 p2 IH2|n b IH];
      intros a a' Hs st en st' en' [Hi Hsim];
      (split; [apply (exec_ok false _ _ _ Hs nv e st0 st en He Hi)|]); cbn in Hs.
    - exact Hsim.
    - cbn [exec fst snd]. destruct Hsim as (k & L1 & L2 & Hf & Hee & Hcc & Hen).
      exists k. repeat split; auto. intro z. unfold setv. destruct (Nat.eqb z x); auto.
    - cbn [exec fst snd]. destruct Hsim as (k & L1 & L2 & Hf & Hee & Hcc & Hen).
      exists k. repeat split; auto. intro z. unfold setv. destruct (Nat.eqb z x); auto.
    - cbn [exec fst snd].
      rewrite (sim_view nv _ _ _ _ _ _ _ _ _ _ Hsim), (sim_e _ _ _ _ _ _ _ _ _ _ Hsim).
      destruct Hi as (I1 & _).
      destruct Hsim as (k & L1 & L2 & Hf & Hee & Hcc & Hen).
      exists (S k). rewrite !app_length. cbn [length]. repeat split; try lia.
      + intros j Hj. destruct (Nat.eq_dec j k) as [->|Hne].
        * rewrite <- L1, <- L2, !get_app_new. reflexivity.
        * rewrite !get_app_old by lia. apply Hf. lia.
      + rewrite !get_app_old by lia. exact Hee.
      + rewrite !get_app_old by lia. exact Hcc.
      + intro z. unfold setv. destruct (Nat.eqb z x).
        * right. right. exists k. repeat split; lia.
        * destruct (Hen z) as [H|[H|(j & Hj & H1 & H2)]]; auto.
          right. right. exists j. repeat split; auto.
    - destruct (fst (fl a x)) eqn:Ec; [discriminate|].
      destruct (snd (fl a x)) eqn:Es; cbn in Hs; [discriminate|]. cbn [exec fst snd].
      rewrite (sim_view nv _ _ _ _ _ _ _ _ _ _ Hsim), (sim_e _ _ _ _ _ _ _ _ _ _ Hsim).
      destruct Hi as (I1 & I2 & I3 & I4 & _).
      assert (Hfresh : length st0 <= en x).
      { destruct (I3 x Ec) as [E|E]; [|exact E]. exfalso. exact (I4 x Es E). }
      destruct Hsim as (k & L1 & L2 & Hf & Hee & Hcc & Hen).
      destruct (Hen x) as [[E _]|[[E _]|(j & Hj & E1 & E2)]]; [lia|lia|].
      rewrite E1, E2. exists k. rewrite !update_length. repeat split; auto.
      + intros j2 Hj2. destruct (Nat.eq_dec j2 j) as [->|Hne].
        * rewrite !get_update_same by lia. reflexivity.
        * rewrite !get_update_other by lia. apply Hf. exact Hj2.
      + rewrite !get_update_other by lia. exact Hee.
      + rewrite !get_update_other by lia. exact Hcc.
    - discriminate.
    - destruct (safe false p1 a) as [a1|] eqn:E1; [|discriminate].
      specialize (IH1 _ _ E1 st en st' en' (conj Hi Hsim)). cbn [exec].
      destruct (exec nv e p1 st en) as [st1 en1]. destruct (exec nv e' p1 st' en') as [st1' en1'].
      cbn [fst snd] in IH1. apply (IH2 _ _ Hs st1 en1 st1' en1' IH1).
    - destruct (safe false p1 a) as [a1|] eqn:E1; [|discriminate].
      destruct (safe false p2 a) as [a2|] eqn:E2; [|discriminate].
      injection Hs as <-. cbn [exec].
      rewrite (sim_view nv _ _ _ _ _ _ _ _ _ _ Hsim), (sim_e _ _ _ _ _ _ _ _ _ _ Hsim).
      destruct (c (get st' e') (view nv st' en')).
      + apply (IH1 _ _ E1 st en st' en' (conj Hi Hsim)).
      + apply (IH2 _ _ E2 st en st' en' (conj Hi Hsim)).
    - destruct (safe false b a) as [a1|] eqn:E1; [|discriminate].
      destruct (fle a1 a) eqn:El; [|discriminate]. injection Hs as <-. cbn [exec].
      rewrite (sim_view nv _ _ _ _ _ _ _ _ _ _ Hsim), (sim_e _ _ _ _ _ _ _ _ _ _ Hsim).
      refine (proj2 (iter_exec_both a _ _ _ _ st en st' en' (conj Hi Hsim))).
      intros s1 n1 s1' n1' Hb. destruct (IH _ _ E1 s1 n1 s1' n1' Hb) as [Hi1 Hs1].
      split; [|exact Hs1]. eapply inv_weaken; [apply fle_sound; exact El|exact Hi1].
  Qed.
End Sim.

(* the result of a safe apply depends only on the contents of the estimator's state and of the
   caller's data: two stores that agree on these two buffers (and differ in anything else, the
   buffer ids included) give results with equal contents *)
Lemma apply_result_function_of_state_and_data : forall m, is_safe false m = true ->
  forall e st caller e' st' caller',
  e < length st -> caller < length st -> e <> caller ->
  e' < length st' -> caller' < length st' ->
  get st e = get st' e' -> get st caller = get st' caller' ->
  get (fst (apply e m st caller)) (snd (apply e m st caller)) =
  get (fst (apply e' m st' caller')) (snd (apply e' m st' caller')).
Proof.
  intros m Hs e st c e' st' c' He Hc Hec He' Hc' Ee Ec.
  destruct (is_safe_inv _ _ Hs) as [a' Ha].
  assert (H0 : both e c st e' c' (length st') (repeat top (nvars m)) st (fun _ => c) st' (fun _ => c')).
  { split; [apply inv_init; exact Hc|]. exists 0. rewrite !Nat.add_0_r.
    repeat split; auto. intros j Hj. lia. }
  destruct (exec_both (nvars m) e c st e' c' (length st') He Hc Hec He' Hc' _ _ _ Ha _ _ _ _ H0)
    as [_ Hsim].
  unfold apply. cbn [fst snd]. eapply sim_get. exact Hsim.
Qed.

Definition valid_history (e : nat) (st0 : store) (hs : list (method * nat)) : Prop :=
  Forall (fun qc => is_safe false (fst qc) = true /\ snd qc < length st0) hs.

Lemma play_preserves : forall e hs st0 st, e < length st0 -> valid_history e st0 hs ->
  length st0 <= length st -> (forall i, i < length st0 -> get st i = get st0 i) ->
  length st0 <= length (play e hs st) /\
  (forall i, i < length st0 -> get (play e hs st) i = get st0 i).
Proof.
  intros e hs st0. induction hs as [|[q c] t IH]; intros st He Hv Hl Hk; cbn [play]; [auto|].
  inversion Hv as [|? ? [Hq Hc] Hv']; subst. cbn [fst snd] in *.
  assert (He2 : e < length st) by lia. assert (Hc2 : c < length st) by lia.
  pose proof (apply_store_grows false q Hq e st c He2 Hc2) as [G _].
  apply IH; auto; [lia|].
  intros i Hi. destruct (Nat.eq_dec i e) as [->|Hne].
  - rewrite (preserves_estimator_state q Hq e st c He2 Hc2). apply Hk. exact Hi.
  - rewrite (preserves_caller_buffers false q Hq e st c He2 Hc2 i) by lia. apply Hk. exact Hi.
Qed.

(* repeat the call after ANY history of safe apply-type calls: same result *)
Lemma history_independent : forall m, is_safe false m = true ->
  forall e st0 caller hs, e < length st0 -> caller < length st0 -> caller <> e ->
  valid_history e st0 hs ->
  let st := play e hs st0 in
  get (fst (apply e m st caller)) (snd (apply e m st caller)) =
  get (fst (apply e m st0 caller)) (snd (apply e m st0 caller)).
Proof.
  intros m Hs e st0 c hs He Hc Hne Hv st.
  destruct (play_preserves e hs st0 st0 He Hv (le_n _) (fun _ _ => eq_refl)) as [Hl Hk].
  fold st in Hl, Hk.
  apply (apply_result_function_of_state_and_data m Hs e st c e st0 c); try lia; auto.
Qed.

(* the result is never the caller's object when the returned variable is flagged fresh *)
Lemma result_is_new_object : forall m a', 
  safe false (body m) (repeat top (nvars m)) = Some a' -> fl a' (ret m) = (false, false) ->
  forall e st0 caller, e < length st0 -> caller < length st0 ->
  length st0 <= snd (apply e m st0 caller).
Proof.
  intros m a' Ha Hr e st0 c He Hc.
  pose proof (exec_ok _ _ _ _ Ha (nvars m) e st0 st0 (fun _ => c) He (inv_init _ _ _ _ _ Hc))
    as (_ & _ & H3 & H4 & _).
  unfold apply. cbn [snd].
  destruct (H3 (ret m)) as [E|E]; [rewrite Hr; reflexivity| |exact E].
  exfalso. apply (H4 (ret m)); [rewrite Hr; reflexivity|exact E].
Qed.

(* ================================================================================ (ii) *)

Section PoolProofs.
  Variables A B St : Type.
  Variable f : A -> B.

  Lemma set_slot_length : forall (sl : list (option B)) i b, length (set_slot sl i b) = length sl.
  Proof. induction sl as [|x t IH]; intros [|i] b; cbn; auto. Qed.

  Lemma nth_error_set_slot : forall (sl : list (option B)) i j b,
    nth_error (set_slot sl i b) j =
    if Nat.eqb i j then (if j <? length sl then Some (Some b) else None) else nth_error sl j.
  Proof.
    induction sl as [|x t IH]; intros [|i] [|j] b; cbn [set_slot nth_error length Nat.eqb]; auto.
    - destruct (Nat.eqb i j); reflexivity.
    - rewrite IH. destruct (Nat.eqb i j); [|reflexivity].
      change (S j <? S (length t)) with (j <? length t). reflexivity.
  Qed.

  Definition picked (j : nat) (sched : list nat) : bool := existsb (Nat.eqb j) sched.

  Definition expected (tasks : list A) (j : nat) : option (option B) :=
    option_map (fun a => Some (f a)) (nth_error tasks j).

  Lemma step_pure : forall (tasks : list A) (s : St) (sl : list (option B)) i,
    step (pure_task f) tasks (s, sl) i =
    (s, match nth_error tasks i with Some a => set_slot sl i (f a) | None => sl end).
  Proof.
    intros. unfold step, pure_task. cbn [fst snd]. destruct (nth_error tasks i); reflexivity.
  Qed.

  Lemma fold_pure : forall (tasks : list A) sched (s : St) (sl : list (option B)),
    length sl = length tasks ->
    fst (fold_left (step (pure_task f) tasks) sched (s, sl)) = s /\
    length (snd (fold_left (step (pure_task f) tasks) sched (s, sl))) = length tasks /\
    forall j, nth_error (snd (fold_left (step (pure_task f) tasks) sched (s, sl))) j =
              if picked j sched && (j <? length tasks) then expected tasks j else nth_error sl j.
  Proof.
    intros tasks. induction sched as [|i t IH]; intros s sl Hl.
    - cbn. auto.
    - cbn [fold_left]. rewrite step_pure.
      destruct (nth_error tasks i) as [a|] eqn:Ei.
      + assert (Hl' : length (set_slot sl i (f a)) = length tasks)
          by (rewrite set_slot_length; exact Hl).
        destruct (IH s (set_slot sl i (f a)) Hl') as (H1 & H2 & H3).
        split; [exact H1|]. split; [exact H2|]. intro j. rewrite H3.
        unfold picked. cbn [existsb]. fold (picked j t).
        destruct (picked j t && (j <? length tasks)) eqn:Ep.
        * apply andb_true_iff in Ep. destruct Ep as [-> ->]. rewrite orb_true_r. reflexivity.
        * rewrite nth_error_set_slot. rewrite (Nat.eqb_sym j i).
          destruct (Nat.eqb i j) eqn:Eij.
          -- apply Nat.eqb_eq in Eij. subst j. rewrite Hl.
             assert (Hlt : i < length tasks) by (apply nth_error_Some; congruence).
             apply Nat.ltb_lt in Hlt. rewrite Hlt. cbn. unfold expected. rewrite Ei. reflexivity.
          -- cbn [orb]. rewrite Ep. reflexivity.
      + destruct (IH s sl Hl) as (H1 & H2 & H3).
        split; [exact H1|]. split; [exact H2|]. intro j. rewrite H3.
        unfold picked. cbn [existsb]. fold (picked j t).
        destruct (Nat.eqb j i) eqn:Eji; [|reflexivity].
        apply Nat.eqb_eq in Eji. subst j.
        assert (Hge : (i <? length tasks) = false)
          by (apply Nat.ltb_ge; apply nth_error_None; exact Ei).
        rewrite Hge, !andb_false_r. reflexivity.
  Qed.

  Lemma nth_error_repeat_none : forall n j, nth_error (repeat (@None B) n) j =
    if j <? n then Some None else None.
  Proof.
    induction n as [|n IH]; intros [|j]; cbn [repeat nth_error]; auto.
    rewrite IH. reflexivity.
  Qed.

  Lemma nth_error_ext : forall (X : Type) (l l' : list X),
    (forall j, nth_error l j = nth_error l' j) -> l = l'.
  Proof.
    induction l as [|x t IH]; intros [|y t'] H.
    - reflexivity.
    - specialize (H 0). discriminate.
    - specialize (H 0). discriminate.
    - pose proof (H 0) as H0. cbn in H0. injection H0 as ->. f_equal. apply IH.
      intro j. exact (H (S j)).
  Qed.

  Lemma collect_map_some : forall l : list B, collect (map (@Some B) l) = Some l.
  Proof. induction l as [|b t IH]; cbn; [reflexivity|]. rewrite IH. reflexivity. Qed.

  Lemma collect_some_inv : forall (sl : list (option B)) l, collect sl = Some l -> sl = map (@Some B) l.
  Proof.
    induction sl as [|[b|] t IH]; intros l H; cbn in H.
    - injection H as <-. reflexivity.
    - destruct (collect t) as [l'|] eqn:E; [|discriminate]. injection H as <-.
      cbn. f_equal. apply IH. reflexivity.
    - discriminate.
  Qed.

  Definition complete (n : nat) (sched : list nat) : Prop := forall j, j < n -> In j sched.

  Lemma picked_in : forall j sched, In j sched -> picked j sched = true.
  Proof.
    intros j sched H. unfold picked. apply existsb_exists. exists j. split; [exact H|].
    apply Nat.eqb_refl.
  Qed.

  (* at ANY moment of ANY schedule, a filled slot i holds f (task i) *)
  Lemma slots_invariant : forall (tasks : list A) (s0 : St) sched j b,
    nth_error (snd (run_pool (pure_task f) tasks s0 sched)) j = Some (Some b) ->
    exists a, nth_error tasks j = Some a /\ b = f a.
  Proof.
    intros tasks s0 sched j b H. unfold run_pool in H.
    destruct (fold_pure tasks sched s0 (init_slots tasks)) as (_ & _ & H3).
    { unfold init_slots. apply repeat_length. }
    rewrite H3 in H. destruct (picked j sched && (j <? length tasks)).
    - unfold expected in H. destruct (nth_error tasks j) as [a|]; [|discriminate].
      cbn in H. injection H as <-. eauto.
    - unfold init_slots in H. rewrite nth_error_repeat_none in H.
      destruct (j <? length tasks); discriminate.
  Qed.

  Lemma schedule_free : forall (tasks : list A) (s0 : St) sched,
    complete (length tasks) sched ->
    parallel_map (pure_task f) tasks s0 sched = Some (map f tasks) /\
    fst (run_pool (pure_task f) tasks s0 sched) = s0.
  Proof.
    intros tasks s0 sched Hc. unfold parallel_map, run_pool.
    destruct (fold_pure tasks sched s0 (init_slots tasks)) as (H1 & H2 & H3).
    { unfold init_slots. apply repeat_length. }
    split; [|exact H1].
    assert (E : snd (fold_left (step (pure_task f) tasks) sched (s0, init_slots tasks)) =
                map (@Some B) (map f tasks)).
    { apply nth_error_ext. intro j. rewrite H3.
      destruct (j <? length tasks) eqn:Ej.
      - apply Nat.ltb_lt in Ej. rewrite (picked_in j sched (Hc j Ej)). cbn [andb].
        unfold expected. rewrite map_map. rewrite nth_error_map. reflexivity.
      - rewrite andb_false_r. unfold init_slots. rewrite nth_error_repeat_none, Ej.
        symmetry. apply nth_error_None. rewrite !map_length. apply Nat.ltb_ge. exact Ej. }
    rewrite E. apply collect_map_some.
  Qed.

  Lemma permutation_complete : forall n sched, Permutation sched (seq 0 n) -> complete n sched.
  Proof.
    intros n sched HP j Hj. apply (Permutation_in j (Permutation_sym HP)).
    apply in_seq. lia.
  Qed.

  Lemma schedule_free_any_two : forall (tasks : list A) (s0 s0' : St) sched sched',
    complete (length tasks) sched -> complete (length tasks) sched' ->
    parallel_map (pure_task f) tasks s0 sched = parallel_map (pure_task f) tasks s0' sched'.
  Proof.
    intros. rewrite (proj1 (schedule_free tasks s0 sched H)).
    rewrite (proj1 (schedule_free tasks s0' sched' H0)). reflexivity.
  Qed.

  (* n_jobs = None / 1: one worker takes the tasks in order; every other complete schedule (any
     n_jobs, any interleaving) delivers what that sequential run delivers *)
  Lemma sequential_run_agrees : forall (tasks : list A) (s0 : St) sched,
    complete (length tasks) sched ->
    parallel_map (pure_task f) tasks s0 sched =
    parallel_map (pure_task f) tasks s0 (seq 0 (length tasks)).
  Proof.
    intros tasks s0 sched Hc. apply schedule_free_any_two; [exact Hc|].
    apply permutation_complete. apply Permutation_refl.
  Qed.

  (* ---- two-phase pool: starts and finishes interleave arbitrarily ---- *)

  Definition reg_good (tasks : list A) (r : regs B) : Prop :=
    forall w i b, In (w, (i, b)) r -> exists a, nth_error tasks i = Some a /\ b = f a.
  Definition slots_good (tasks : list A) (sl : list (option B)) : Prop :=
    length sl = length tasks /\
    forall j b, nth_error sl j = Some (Some b) -> exists a, nth_error tasks j = Some a /\ b = f a.

  Lemma reg_del_in : forall (r : regs B) w x, In x (reg_del B r w) -> In x r.
  Proof.
    induction r as [|[w' v] t IH]; intros w x H; cbn in *; [exact H|].
    destruct (Nat.eqb w w'); [right; eapply IH; eauto|].
    destruct H as [H|H]; [left; exact H|right; eapply IH; eauto].
  Qed.

  Lemma reg_find_in : forall (r : regs B) w v, reg_find B r w = Some v -> In (w, v) r.
  Proof.
    induction r as [|[w' v'] t IH]; intros w v H; cbn in *; [discriminate|].
    destruct (Nat.eqb w w') eqn:E.
    - apply Nat.eqb_eq in E. subst. injection H as ->. left. reflexivity.
    - right. apply IH. exact H.
  Qed.

  Lemma step2_good : forall tasks st ev,
    reg_good tasks (fst st) -> slots_good tasks (snd st) ->
    reg_good tasks (fst (step2 f tasks st ev)) /\ slots_good tasks (snd (step2 f tasks st ev)).
  Proof.
    intros tasks [r sl] ev Hr Hs. cbn [fst snd] in *. destruct ev as [w i|w]; cbn [step2 fst snd].
    - destruct (nth_error tasks i) as [a|] eqn:Ei; cbn [fst snd]; [|auto].
      split; [|exact Hs]. intros w' i' b' [H|H].
      + injection H as <- <- <-. eauto.
      + eapply Hr. eapply reg_del_in. exact H.
    - destruct (reg_find B r w) as [[i b]|] eqn:Ef; cbn [fst snd]; [|auto].
      split.
      + intros w' i' b' H. eapply Hr. eapply reg_del_in. exact H.
      + destruct Hs as [Hl Hs]. split; [rewrite set_slot_length; exact Hl|].
        intros j b' Hj. rewrite nth_error_set_slot in Hj.
        destruct (Nat.eqb i j) eqn:Eij; [|eapply Hs; exact Hj].
        apply Nat.eqb_eq in Eij. subst j. destruct (i <? length sl); [|discriminate].
        injection Hj as <-. apply (Hr w i b). apply reg_find_in. exact Ef.
  Qed.

  Lemma run2_good : forall tasks evs st,
    reg_good tasks (fst st) -> slots_good tasks (snd st) ->
    slots_good tasks (snd (fold_left (step2 f tasks) evs st)).
  Proof.
    intros tasks. induction evs as [|ev t IH]; intros st Hr Hs; cbn [fold_left]; [exact Hs|].
    destruct (step2_good tasks st ev Hr Hs) as [Hr' Hs']. apply IH; assumption.
  Qed.

  (* whenever the two-phase pool has filled every slot - whatever the interleaving of starts and
     finishes, with tasks started twice, abandoned, or workers re-used - it delivers map f tasks *)
  Lemma pool2_delivers : forall (tasks : list A) evs l,
    collect (snd (run_pool2 f tasks evs)) = Some l -> l = map f tasks.
  Proof.
    intros tasks evs l H. unfold run_pool2 in H.
    assert (Hg : slots_good tasks (snd (fold_left (step2 f tasks) evs ([], init_slots tasks)))).
    { apply run2_good; cbn [fst snd].
      - intros w i b [].
      - split; [apply repeat_length|]. intros j b Hj. unfold init_slots in Hj.
        rewrite nth_error_repeat_none in Hj. destruct (j <? length tasks); discriminate. }
    destruct Hg as [Hl Hg]. apply collect_some_inv in H. rewrite H in Hl, Hg.
    rewrite map_length in Hl. apply nth_error_ext. intro j.
    rewrite nth_error_map. destruct (nth_error l j) as [b|] eqn:Ej.
    - destruct (Hg j b) as (a & Ha & ->).
      { rewrite nth_error_map, Ej. reflexivity. }
      rewrite Ha. reflexivity.
    - apply nth_error_None in Ej. assert (Hn : nth_error tasks j = None)
        by (apply nth_error_None; lia). rewrite Hn. reflexivity.
  Qed.
End PoolProofs.

(* seeds drawn before dispatch: the length bookkeeping *)
Lemma draw_seeds_length : forall St (next : St -> St * Z) n s,
  length (fst (draw_seeds next n s)) = n.
Proof.
  intros St next. induction n as [|n IH]; intro s; cbn; [reflexivity|].
  destruct (next s) as [s1 r]. specialize (IH s1). destruct (draw_seeds next n s1) as [l s2].
  cbn in *. congruence.
Qed.

Lemma seeded_tasks_schedule_free : forall A B St (next : St -> St * Z) (f : A -> Z -> B)
  (tasks : list A) (s0 : St) sched,
  complete (length tasks) sched ->
  let seeded := combine tasks (fst (draw_seeds next (length tasks) s0)) in
  parallel_map (pure_task (fun p : A * Z => f (fst p) (snd p))) seeded s0 sched =
  Some (map (fun p : A * Z => f (fst p) (snd p)) seeded).
Proof.
  intros A B St next f tasks s0 sched Hc seeded.
  apply (schedule_free (A * Z) B St). unfold seeded.
  rewrite combine_length, draw_seeds_length, Nat.min_id. exact Hc.
Qed.

Lemma site_schedule_free : forall A B (s : site) (next : Z -> Z * Z) (f : A -> Z -> B)
  (tasks : list A) (s0 : Z) sched sched',
  site_ok s = true ->
  complete (length tasks) sched -> complete (length tasks) sched' ->
  site_pool s next f tasks s0 sched = site_pool s next f tasks s0 sched' /\
  site_pool s next f tasks s0 sched =
    Some (map (fun p : A * Z => f (fst p) (snd p))
              (combine tasks (fst (draw_seeds next (length tasks) s0)))).
Proof.
  intros A B s next f tasks s0 sched sched' Hok Hc Hc'. unfold site_ok in Hok.
  repeat (apply andb_true_iff in Hok; destruct Hok as [Hok ?]).
  unfold site_pool.
  replace (no_shared_rng_arg s && task_no_global_rng s && task_rng_from_seed s &&
           draws_before_dispatch s) with true
    by (symmetry; repeat (apply andb_true_iff; split); assumption).
  rewrite (seeded_tasks_schedule_free A B Z next f tasks s0 sched Hc).
  rewrite (seeded_tasks_schedule_free A B Z next f tasks s0 sched' Hc').
  split; reflexivity.
Qed.

(* ================================================================================ (iii) *)

Section RngProofs.
  Variable St : Type.
  Variable randint : Z -> St -> option (Z * St).
  Variable mk : Z -> St.

  (* with an int seed the fit reads nothing of the world and leaves its generator alone *)
  Lemma seeded_fit_function_of_seed : forall seed n_est k mi sl (w1 w2 : world St),
    fst (fit_intervals randint mk (Some seed) n_est k mi sl w1) =
    fst (fit_intervals randint mk (Some seed) n_est k mi sl w2) /\
    snd (fit_intervals randint mk (Some seed) n_est k mi sl w1) = w1.
  Proof. intros. cbn. split; reflexivity. Qed.

  (* predict with a fresh stream per call: estimator unchanged, repeat gives the same pick, and
     other predict calls in between do not matter *)
  Lemma predict_fresh_pure : forall (e : est St) ties ties',
    fst (predict_fresh randint mk e ties) = e /\
    snd (predict_fresh randint mk (fst (predict_fresh randint mk e ties')) ties) =
    snd (predict_fresh randint mk e ties).
  Proof. intros. cbn. split; reflexivity. Qed.

  (* intervals are a function of the stream position only: equal streams, equal intervals and
     equal stream afterwards (so the NEXT tree's intervals are determined too) *)
  Lemma get_intervals_deterministic : forall k mi sl s s',
    s = s' -> get_intervals randint k mi sl s = get_intervals randint k mi sl s'.
  Proof. intros. subst. reflexivity. Qed.

  Lemma forest_intervals_length : forall n_est k mi sl s l s',
    forest_intervals randint n_est k mi sl s = Some (l, s') -> length l = n_est.
  Proof.
    induction n_est as [|n IH]; intros k mi sl s l s' H; cbn in H.
    - injection H as <- _. reflexivity.
    - destruct (get_intervals randint k mi sl s) as [[iv s1]|]; [|discriminate].
      destruct (forest_intervals randint n k mi sl s1) as [[l' s2]|] eqn:E; [|discriminate].
      injection H as <- _. cbn. f_equal. eapply IH. exact E.
  Qed.

  Lemma get_intervals_length : forall k mi sl s l s',
    get_intervals randint k mi sl s = Some (l, s') -> length l = k.
  Proof.
    induction k as [|k IH]; intros mi sl s l s' H; cbn in H.
    - injection H as <- _. reflexivity.
    - destruct (randint (sl - mi)%Z s) as [[a s1]|]; [|discriminate].
      destruct (randint (sl - a - 1)%Z s1) as [[len0 s2]|]; [|discriminate].
      destruct (get_intervals randint k mi sl s2) as [[l' s3]|] eqn:E; [|discriminate].
      injection H as <- _. cbn. f_equal. eapply IH. exact E.
  Qed.

  (* if the generator honours 0 <= randint(b) < b, every interval lies inside the series and is
     at least min_interval long *)
  Hypothesis randint_range : forall b s v s', randint b s = Some (v, s') -> (0 <= v < b)%Z.

  Lemma get_intervals_in_range : forall k mi sl s l s', (0 < mi)%Z ->
    get_intervals randint k mi sl s = Some (l, s') ->
    Forall (fun iv => (0 <= fst iv /\ fst iv + mi <= snd iv /\ snd iv < sl)%Z) l.
  Proof.
    induction k as [|k IH]; intros mi sl s l s' Hmi H; cbn in H.
    - injection H as <- _. constructor.
    - destruct (randint (sl - mi)%Z s) as [[a s1]|] eqn:E1; [|discriminate].
      destruct (randint (sl - a - 1)%Z s1) as [[len0 s2]|] eqn:E2; [|discriminate].
      destruct (get_intervals randint k mi sl s2) as [[l' s3]|] eqn:E; [|discriminate].
      injection H as <- _. apply randint_range in E1. apply randint_range in E2.
      constructor; [|eapply IH; eauto]. cbn [fst snd].
      destruct (len0 <? mi)%Z eqn:El; [apply Z.ltb_lt in El|apply Z.ltb_ge in El]; lia.
  Qed.
End RngProofs.

Lemma intervals_well_formed :
  forall (St : Type) (randint : Z -> St -> option (Z * St)),
  (forall b s v s', randint b s = Some (v, s') -> (0 <= v < b)%Z) ->
  forall k mi sl s l s', (0 < mi)%Z -> get_intervals randint k mi sl s = Some (l, s') ->
  length l = k /\
  Forall (fun iv => (0 <= fst iv /\ fst iv + mi <= snd iv /\ snd iv < sl)%Z) l.
Proof.
  intros St randint Hr k mi sl s l s' Hmi H. split.
  - exact (get_intervals_length St randint k mi sl s l s' H).
  - exact (get_intervals_in_range St randint Hr k mi sl s l s' Hmi H).
Qed.

(* ================================================================================ (iv) *)

Section CutoffProofs.
  Variable setv : nat -> Z -> Z.
  Variable kcond : nat -> Z -> bool.
  Variable kcnt : nat -> Z -> nat.

  Lemma kiter_keeps : forall (f : Z -> Z * bool), (forall s, fst (f s) = s) ->
    forall n s, fst (kiter n f s) = s.
  Proof.
    intros f Hf. induction n as [|n IH]; intro s; cbn; [reflexivity|].
    specialize (Hf s). destruct (f s) as [s1 ab]. cbn in Hf. subst s1.
    destruct ab; [reflexivity|apply IH].
  Qed.

  (* a guarded program leaves the cutoff where it was: for all stored values, conditions, loop
     counts, and wherever it is left by return / raise *)
  Lemma guarded_keeps_cutoff : forall p, guarded p = true ->
    forall s, fst (kexec setv kcond kcnt p s) = s.
  Proof.
    induction p as [|k| |a IHa b IHb|c a IHa b IHb|n b IHb|b IHb|b IHb]; intros G s; cbn in G |- *.
    - reflexivity.
    - discriminate.
    - reflexivity.
    - apply andb_true_iff in G. destruct G as [Ga Gb]. specialize (IHa Ga s).
      destruct (kexec setv kcond kcnt a s) as [s1 ab]. cbn in IHa. subst s1.
      destruct ab; [reflexivity|apply IHb; exact Gb].
    - apply andb_true_iff in G. destruct G as [Ga Gb].
      destruct (kcond c s); [apply IHa|apply IHb]; assumption.
    - apply kiter_keeps. intro s'. apply IHb. exact G.
    - destruct (kexec setv kcond kcnt b s) as [s1 ab]. reflexivity.
    - cbn. apply IHb. exact G.
  Qed.
End CutoffProofs.

(* not trivially so: one assignment outside a detached region moves the cutoff, also when the
   same code further down is wrapped (the shape of seed C12-d: the wrapper moved to another
   caller) *)
Lemma unguarded_moves_cutoff :
  exists setv kcond kcnt s,
    fst (kexec setv kcond kcnt (KCall (KSeq (KSet 0) (KLoop 0 (KCall (KSet 1))))) s) <> s /\
    fst (kexec setv kcond kcnt (KCall (KDetached (KSeq (KSet 0) (KLoop 0 (KCall (KSet 1)))))) s) = s /\
    guarded (KCall (KSeq (KSet 0) (KLoop 0 (KCall (KSet 1))))) = false.
Proof.
  exists (fun k s => (s + 1 + Z.of_nat k)%Z), (fun _ _ => true), (fun _ _ => 2), 5%Z.
  vm_compute. repeat split; congruence.
Qed.

(* ================================================================ the generic shapes *)

Lemma copy_first_is_safe : forall h, is_safe false (copy_first h) = true.
Proof. intros. reflexivity. Qed.

Lemma fit_shape_is_safe_for_fit : forall h g, is_safe true (fit_shape h g) = true.
Proof. intros. reflexivity. Qed.

(* the analysis is not trivially accepting: a fit-shaped method is rejected as an apply-type
   method, and so are the three shapes /repo had before the repairs *)
Lemma fit_shape_rejected_as_apply : forall h g, is_safe false (fit_shape h g) = false.
Proof. intros. reflexivity. Qed.

Lemma old_shapes_rejected : forall h g isframe ncols,
  is_safe false (old_inplace_loop g ncols) = false /\
  is_safe false (old_random_frame h g isframe ncols) = false /\
  is_safe false (old_fits_own_param h g) = false.
Proof. intros. repeat split; reflexivity. Qed.

(* the returned variable is flagged "new object" by the analysis *)
Lemma returns_fresh_sound : forall m, returns_fresh m = true ->
  forall e st0 caller, e < length st0 -> caller < length st0 ->
  length st0 <= snd (apply e m st0 caller).
Proof.
  intros m H e st0 c He Hc. unfold returns_fresh in H.
  destruct (safe false (body m) (repeat top (nvars m))) as [a'|] eqn:Ha; [|discriminate].
  apply (result_is_new_object m a' Ha); auto.
  destruct (fl a' (ret m)) as [x y]. cbn in H. apply andb_true_iff in H. destruct H as [H1 H2].
  apply negb_true_iff in H1, H2. subst. reflexivity.
Qed.

(* a concrete non-trivial instance of the hypotheses used throughout: a copy-first program that
   really writes (into its copy, through a view variable) and conditionally re-derives *)
Definition ex_store : store := [[60; 2; 3]%Z; [7]%Z; [1; 1]%Z].
Definition ex_prog : method :=
  {| nvars := 2; ret := 0;
     body := SSeq (SAlias 0 0)
            (SSeq (SFresh 0 (fun _ v => nth 0 v []))
            (SSeq (SAlias 1 0)
            (SSeq (SLoop (fun _ v => List.length (nth 0 v [])) (SWrite 1 (fun _ v => 1%Z :: tl (nth 1 v []))))
                  (SIf (fun _ _ => false) (SFresh 0 (fun _ v => map (Z.add 1) (nth 0 v []))) SSkip)))) |}.

Lemma ex_nonvacuous :
  is_safe false ex_prog = true /\
  fst (apply 1 ex_prog ex_store 0) = ex_store ++ [[1; 2; 3]%Z] /\
  snd (apply 1 ex_prog ex_store 0) = 3 /\
  complete 3 [2; 0; 2; 1] /\
  parallel_map (pure_task (St := unit) (Z.mul 2)) [5; 6; 7]%Z tt [2; 0; 2; 1] = Some [10; 12; 14]%Z /\
  collect (snd (run_pool2 (Z.mul 2) [5; 6; 7]%Z
     [Start 0 2; Start 1 0; Finish 1; Start 1 1; Finish 0; Finish 1])) = Some [10; 12; 14]%Z /\
  get_intervals lcg_randint 2 3%Z 20%Z 5%Z = Some ([(5, 13); (16, 19)]%Z, 2089129857%Z).
Proof.
  repeat split; try reflexivity.
  intros j Hj. destruct j as [|[|[|j]]]; cbn; auto. lia.
Qed.
