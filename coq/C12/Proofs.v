(* C12 lemmas: ownership (i), pool (ii), seeded sampling (iii). *)
From Coq Require Import ZArith List Bool Arith Lia Permutation.
Require Import SkV.C12.Model.
Import ListNotations.

(* ================================================================================ (i) *)

Lemma update_length : forall st i b, length (update st i b) = length st.
Proof. induction st as [|x t IH]; intros [|j] b; cbn; auto. Qed.

Lemma get_update_other : forall st i j b, i <> j -> get (update st i b) j = get st j.
Proof.
  unfold get. induction st as [|x t IH]; intros [|i] [|j] b H; cbn; auto; try congruence.
Qed.

Lemma get_update_same : forall st i b, i < length st -> get (update st i b) i = b.
Proof.
  unfold get. induction st as [|x t IH]; intros [|i] b H; cbn in *; try lia; auto.
  apply IH. lia.
Qed.

Lemma get_app_old : forall (st : store) b j, j < length st -> get (st ++ [b]) j = get st j.
Proof. intros. unfold get. apply app_nth1. assumption. Qed.

Lemma get_app_new : forall (st : store) b, get (st ++ [b]) (length st) = b.
Proof. intros. unfold get. rewrite app_nth2 by lia. rewrite Nat.sub_diag. reflexivity. Qed.

(* the flag can only go from "may alias" to "fresh", never back *)
Lemma post_le_pre : forall so p a x, safe so p a = Some x -> a = false -> x = false.
Proof.
  induction p as [|h|g|g|p1 IH1 p2 IH2|c p1 IH1 p2 IH2|n body IH]; intros a x H Ha; cbn in H.
  - congruence.
  - congruence.
  - subst a. congruence.
  - destruct so; congruence.
  - destruct (safe so p1 a) as [y|] eqn:E1; [|discriminate].
    eapply IH2; [exact H|]. eapply IH1; eauto.
  - destruct (safe so p1 a) as [y1|] eqn:E1; [|discriminate].
    destruct (safe so p2 a) as [y2|] eqn:E2; [|discriminate].
    injection H as <-. rewrite (IH1 _ _ E1 Ha), (IH2 _ _ E2 Ha). reflexivity.
  - destruct (safe so body a); [|discriminate]. congruence.
Qed.

(* what holds of (store, current object) relative to the store st0 the call started from *)
Definition okst (so : bool) (e : nat) (st0 : store) (a : bool) (st : store) (cur : nat) : Prop :=
  length st0 <= length st /\ cur < length st /\ (a = false -> length st0 <= cur) /\
  (forall i, i < length st0 -> i <> e -> get st i = get st0 i) /\
  (so = false -> get st e = get st0 e).

Lemma okst_weaken : forall so e st0 a a' st cur,
  (a' = false -> a = false) -> okst so e st0 a st cur -> okst so e st0 a' st cur.
Proof. unfold okst. intros. intuition. Qed.

Lemma iter_exec_ok : forall so e st0 a (f : store -> nat -> store * nat),
  (forall st cur, okst so e st0 a st cur -> okst so e st0 a (fst (f st cur)) (snd (f st cur))) ->
  forall k st cur, okst so e st0 a st cur ->
  okst so e st0 a (fst (iter_exec k f st cur)) (snd (iter_exec k f st cur)).
Proof.
  intros so e st0 a f Hf. induction k as [|k IH]; intros st cur H; cbn; [exact H|].
  specialize (Hf st cur H). destruct (f st cur) as [st1 c1]. cbn in Hf. apply IH. exact Hf.
Qed.

Lemma exec_ok : forall so p a x, safe so p a = Some x ->
  forall e st0 st cur, e < length st0 -> okst so e st0 a st cur ->
  okst so e st0 x (fst (exec e p st cur)) (snd (exec e p st cur)).
Proof.
  induction p as [|h|g|g|p1 IH1 p2 IH2|c p1 IH1 p2 IH2|n body IH];
    intros a x Hs e st0 st cur He Hok; cbn in Hs.
  - injection Hs as <-. exact Hok.
  - injection Hs as <-. destruct Hok as (Hl & Hc & Ha & Hk & Hself). cbn [exec alloc fst snd].
    unfold okst. rewrite app_length. cbn [length]. repeat split.
    + lia.
    + lia.
    + intros _. exact Hl.
    + intros i Hi Hne. rewrite get_app_old by lia. apply Hk; assumption.
    + intro Hso. rewrite get_app_old by lia. apply Hself. exact Hso.
  - destruct a; [discriminate|]. injection Hs as <-.
    destruct Hok as (Hl & Hc & Ha & Hk & Hself). specialize (Ha eq_refl).
    cbn [exec fst snd]. unfold okst. rewrite update_length. repeat split; auto.
    + intros i Hi Hne. rewrite get_update_other by lia. apply Hk; assumption.
    + intro Hso. rewrite get_update_other by lia. apply Hself. exact Hso.
  - destruct so; [|discriminate]. injection Hs as <-.
    destruct Hok as (Hl & Hc & Ha & Hk & Hself).
    cbn [exec fst snd]. unfold okst. rewrite update_length. repeat split; auto.
    + intros i Hi Hne. rewrite get_update_other by congruence. apply Hk; assumption.
    + discriminate.
  - destruct (safe so p1 a) as [y|] eqn:E1; [|discriminate].
    specialize (IH1 _ _ E1 e st0 st cur He Hok). cbn [exec].
    destruct (exec e p1 st cur) as [st1 c1]. cbn [fst snd] in IH1.
    apply (IH2 _ _ Hs e st0 st1 c1 He IH1).
  - destruct (safe so p1 a) as [y1|] eqn:E1; [|discriminate].
    destruct (safe so p2 a) as [y2|] eqn:E2; [|discriminate].
    injection Hs as <-. cbn [exec]. destruct (c (get st e) (get st cur)).
    + eapply okst_weaken; [|apply (IH1 _ _ E1 e st0 st cur He Hok)].
      intro H. apply orb_false_iff in H. tauto.
    + eapply okst_weaken; [|apply (IH2 _ _ E2 e st0 st cur He Hok)].
      intro H. apply orb_false_iff in H. tauto.
  - destruct (safe so body a) as [y|] eqn:E; [|discriminate]. injection Hs as <-.
    cbn [exec]. apply iter_exec_ok; [|exact Hok].
    intros st' cur' H'. eapply okst_weaken; [|apply (IH _ _ E e st0 st' cur' He H')].
    intro Ha. eapply post_le_pre; eauto.
Qed.

Lemma okst_init : forall so e st0 c, c < length st0 -> okst so e st0 true st0 c.
Proof. unfold okst. intros. repeat split; auto; discriminate. Qed.

Lemma is_safe_inv : forall so p, is_safe so p = true -> exists x, safe so p true = Some x.
Proof. unfold is_safe. intros so p H. destruct (safe so p true); [eauto|discriminate]. Qed.

(* fit or apply: no buffer the caller owns is touched *)
Lemma preserves_caller_buffers : forall so p, is_safe so p = true ->
  forall e st0 caller, e < length st0 -> caller < length st0 ->
  forall i, i < length st0 -> i <> e -> get (fst (apply e p st0 caller)) i = get st0 i.
Proof.
  intros so p Hs e st0 c He Hc i Hi Hne. destruct (is_safe_inv _ _ Hs) as [x Hx].
  destruct (exec_ok _ _ _ _ Hx e st0 st0 c He (okst_init _ _ _ _ Hc)) as (_ & _ & _ & Hk & _).
  apply Hk; assumption.
Qed.

(* apply-type methods: the estimator's state is not touched either *)
Lemma preserves_estimator_state : forall p, is_safe false p = true ->
  forall e st0 caller, e < length st0 -> caller < length st0 ->
  get (fst (apply e p st0 caller)) e = get st0 e.
Proof.
  intros p Hs e st0 c He Hc. destruct (is_safe_inv _ _ Hs) as [x Hx].
  destruct (exec_ok _ _ _ _ Hx e st0 st0 c He (okst_init _ _ _ _ Hc)) as (_ & _ & _ & _ & Hself).
  apply Hself. reflexivity.
Qed.

Lemma apply_store_grows : forall so p, is_safe so p = true ->
  forall e st0 caller, e < length st0 -> caller < length st0 ->
  length st0 <= length (fst (apply e p st0 caller)) /\
  snd (apply e p st0 caller) < length (fst (apply e p st0 caller)).
Proof.
  intros so p Hs e st0 c He Hc. destruct (is_safe_inv _ _ Hs) as [x Hx].
  destruct (exec_ok _ _ _ _ Hx e st0 st0 c He (okst_init _ _ _ _ Hc)) as (H1 & H2 & _).
  split; assumption.
Qed.

(* ---- the result is a pure function of (estimator state, caller's data) ---- *)

Fixpoint noself (p : prog) : bool :=
  match p with
  | PSelf _ => false
  | PSeq a b | PIf _ a b => noself a && noself b
  | PLoop _ b => noself b
  | _ => true
  end.

Lemma safe_noself : forall p a x, safe false p a = Some x -> noself p = true.
Proof.
  induction p as [|h|g|g|p1 IH1 p2 IH2|c p1 IH1 p2 IH2|n body IH]; intros a x H; cbn in *; auto.
  - discriminate.
  - destruct (safe false p1 a) as [y|] eqn:E1; [|discriminate].
    rewrite (IH1 _ _ E1), (IH2 _ _ H). reflexivity.
  - destruct (safe false p1 a) as [y1|] eqn:E1; [|discriminate].
    destruct (safe false p2 a) as [y2|] eqn:E2; [|discriminate].
    rewrite (IH1 _ _ E1), (IH2 _ _ E2). reflexivity.
  - destruct (safe false body a) as [y|] eqn:E; [|discriminate]. eapply IH; eauto.
Qed.

Definition content (e : nat) (eb : buf) (st : store) (cur : nat) : Prop :=
  e < length st /\ cur < length st /\ cur <> e /\ get st e = eb.

Lemma iter_exec_run : forall e eb (f : store -> nat -> store * nat) (r : buf -> buf),
  (forall st cur, content e eb st cur ->
     content e eb (fst (f st cur)) (snd (f st cur)) /\
     get (fst (f st cur)) (snd (f st cur)) = r (get st cur)) ->
  forall k st cur, content e eb st cur ->
    content e eb (fst (iter_exec k f st cur)) (snd (iter_exec k f st cur)) /\
    get (fst (iter_exec k f st cur)) (snd (iter_exec k f st cur)) = iter_run k r (get st cur).
Proof.
  intros e eb f r Hf. induction k as [|k IH]; intros st cur H; cbn; [auto|].
  destruct (Hf st cur H) as [H1 H2]. destruct (f st cur) as [st1 c1]. cbn [fst snd] in *.
  destruct (IH st1 c1 H1) as [H3 H4]. split; [exact H3|]. rewrite H4, H2. reflexivity.
Qed.

Lemma exec_run : forall p, noself p = true ->
  forall e eb st cur, content e eb st cur ->
    content e eb (fst (exec e p st cur)) (snd (exec e p st cur)) /\
    get (fst (exec e p st cur)) (snd (exec e p st cur)) = run p eb (get st cur).
Proof.
  induction p as [|h|g|g|p1 IH1 p2 IH2|c p1 IH1 p2 IH2|n body IH];
    intros Hn e eb st cur Hc; cbn in Hn.
  - cbn. auto.
  - destruct Hc as (He & Hcur & Hne & Heb). cbn [exec alloc fst snd run]. unfold content.
    rewrite app_length. cbn [length]. rewrite get_app_new, get_app_old by lia.
    rewrite Heb. repeat split; try lia; try reflexivity.
  - destruct Hc as (He & Hcur & Hne & Heb). cbn [exec fst snd run]. unfold content.
    rewrite update_length, get_update_same by lia. rewrite get_update_other by lia.
    rewrite Heb. repeat split; auto.
  - discriminate.
  - apply andb_true_iff in Hn. destruct Hn as [Hn1 Hn2].
    destruct (IH1 Hn1 e eb st cur Hc) as [H1 H2]. cbn [exec run].
    destruct (exec e p1 st cur) as [st1 c1]. cbn [fst snd] in *.
    destruct (IH2 Hn2 e eb st1 c1 H1) as [H3 H4]. split; [exact H3|]. rewrite H4, H2. reflexivity.
  - apply andb_true_iff in Hn. destruct Hn as [Hn1 Hn2]. cbn [exec run].
    assert (Heb : get st e = eb) by (destruct Hc as (_ & _ & _ & H); exact H).
    rewrite Heb. destruct (c eb (get st cur)); [apply IH1|apply IH2]; assumption.
  - cbn [exec run]. assert (Heb : get st e = eb) by (destruct Hc as (_ & _ & _ & H); exact H).
    rewrite Heb. apply iter_exec_run; [|exact Hc]. intros st' cur' H'. apply IH; assumption.
Qed.

(* the result of a safe apply, as contents *)
Lemma apply_result : forall p, is_safe false p = true ->
  forall e st caller, e < length st -> caller < length st -> caller <> e ->
  get (fst (apply e p st caller)) (snd (apply e p st caller)) = run p (get st e) (get st caller).
Proof.
  intros p Hs e st c He Hc Hne. destruct (is_safe_inv _ _ Hs) as [x Hx].
  apply (exec_run p (safe_noself _ _ _ Hx) e (get st e) st c). unfold content. auto.
Qed.

Definition valid_history (e : nat) (st0 : store) (hs : list (prog * nat)) : Prop :=
  Forall (fun qc => is_safe false (fst qc) = true /\ snd qc < length st0) hs.

Lemma play_preserves : forall e hs st0 st, e < length st0 -> valid_history e st0 hs ->
  length st0 <= length st -> (forall i, i < length st0 -> get st i = get st0 i) ->
  length st0 <= length (play e hs st) /\
  (forall i, i < length st0 -> get (play e hs st) i = get st0 i).
Proof.
  intros e hs st0. induction hs as [|[q c] t IH]; intros st He Hv Hl Hk; cbn [play]; [auto|].
  inversion Hv as [|? ? [Hq Hc] Hv']; subst. cbn [fst snd] in *.
  destruct (is_safe_inv _ _ Hq) as [x Hx].
  assert (Hok : okst false e st true st c) by (apply okst_init; lia).
  destruct (exec_ok _ _ _ _ Hx e st st c ltac:(lia) Hok) as (H1 & _ & _ & H4 & H5).
  apply IH; auto; [lia|].
  intros i Hi. destruct (Nat.eq_dec i e) as [->|Hne].
  - rewrite H5 by reflexivity. apply Hk. exact Hi.
  - rewrite H4 by lia. apply Hk. exact Hi.
Qed.

(* repeat the call after ANY history of safe apply-type calls: same result *)
Lemma history_independent : forall p, is_safe false p = true ->
  forall e st0 caller hs, e < length st0 -> caller < length st0 -> caller <> e ->
  valid_history e st0 hs ->
  let st := play e hs st0 in
  get (fst (apply e p st caller)) (snd (apply e p st caller)) =
  get (fst (apply e p st0 caller)) (snd (apply e p st0 caller)).
Proof.
  intros p Hs e st0 c hs He Hc Hne Hv st.
  destruct (play_preserves e hs st0 st0 He Hv (le_n _) (fun _ _ => eq_refl)) as [Hl Hk].
  fold st in Hl, Hk.
  rewrite (apply_result p Hs e st c) by lia.
  rewrite (apply_result p Hs e st0 c) by lia.
  rewrite (Hk e He), (Hk c Hc). reflexivity.
Qed.

(* ================================================================================ (ii) *)

Section PoolProofs.
  Variables A B St : Type.
  Variable f : A -> B.

  Lemma set_slot_length : forall (sl : list (option B)) i b, length (set_slot sl i b) = length sl.
  Proof. induction sl as [|x t IH]; intros [|i] b; cbn; auto. Qed.

  Lemma nth_error_set_slot : forall (sl : list (option B)) i j b,
    nth_error (set_slot sl i b) j =
    if Nat.eqb i j then (if j <? length sl then Some (Some b) else None) else nth_error sl j.
  Proof.
    induction sl as [|x t IH]; intros [|i] [|j] b; cbn [set_slot nth_error length Nat.eqb]; auto.
    - destruct (Nat.eqb i j); reflexivity.
    - rewrite IH. destruct (Nat.eqb i j); [|reflexivity].
      change (S j <? S (length t)) with (j <? length t). reflexivity.
  Qed.

  Definition picked (j : nat) (sched : list nat) : bool := existsb (Nat.eqb j) sched.

  Definition expected (tasks : list A) (j : nat) : option (option B) :=
    option_map (fun a => Some (f a)) (nth_error tasks j).

  Lemma step_pure : forall (tasks : list A) (s : St) (sl : list (option B)) i,
    step (pure_task f) tasks (s, sl) i =
    (s, match nth_error tasks i with Some a => set_slot sl i (f a) | None => sl end).
  Proof.
    intros. unfold step, pure_task. cbn [fst snd]. destruct (nth_error tasks i); reflexivity.
  Qed.

  Lemma fold_pure : forall (tasks : list A) sched (s : St) (sl : list (option B)),
    length sl = length tasks ->
    fst (fold_left (step (pure_task f) tasks) sched (s, sl)) = s /\
    length (snd (fold_left (step (pure_task f) tasks) sched (s, sl))) = length tasks /\
    forall j, nth_error (snd (fold_left (step (pure_task f) tasks) sched (s, sl))) j =
              if picked j sched && (j <? length tasks) then expected tasks j else nth_error sl j.
  Proof.
    intros tasks. induction sched as [|i t IH]; intros s sl Hl.
    - cbn. auto.
    - cbn [fold_left]. rewrite step_pure.
      destruct (nth_error tasks i) as [a|] eqn:Ei.
      + assert (Hl' : length (set_slot sl i (f a)) = length tasks)
          by (rewrite set_slot_length; exact Hl).
        destruct (IH s (set_slot sl i (f a)) Hl') as (H1 & H2 & H3).
        split; [exact H1|]. split; [exact H2|]. intro j. rewrite H3.
        unfold picked. cbn [existsb]. fold (picked j t).
        destruct (picked j t && (j <? length tasks)) eqn:Ep.
        * apply andb_true_iff in Ep. destruct Ep as [-> ->]. rewrite orb_true_r. reflexivity.
        * rewrite nth_error_set_slot. rewrite (Nat.eqb_sym j i).
          destruct (Nat.eqb i j) eqn:Eij.
          -- apply Nat.eqb_eq in Eij. subst j. rewrite Hl.
             assert (Hlt : i < length tasks) by (apply nth_error_Some; congruence).
             apply Nat.ltb_lt in Hlt. rewrite Hlt. cbn. unfold expected. rewrite Ei. reflexivity.
          -- cbn [orb]. rewrite Ep. reflexivity.
      + destruct (IH s sl Hl) as (H1 & H2 & H3).
        split; [exact H1|]. split; [exact H2|]. intro j. rewrite H3.
        unfold picked. cbn [existsb]. fold (picked j t).
        destruct (Nat.eqb j i) eqn:Eji; [|reflexivity].
        apply Nat.eqb_eq in Eji. subst j.
        assert (Hge : (i <? length tasks) = false)
          by (apply Nat.ltb_ge; apply nth_error_None; exact Ei).
        rewrite Hge, !andb_false_r. reflexivity.
  Qed.

  Lemma nth_error_repeat_none : forall n j, nth_error (repeat (@None B) n) j =
    if j <? n then Some None else None.
  Proof.
    induction n as [|n IH]; intros [|j]; cbn [repeat nth_error]; auto.
    rewrite IH. reflexivity.
  Qed.

  Lemma nth_error_ext : forall (X : Type) (l l' : list X),
    (forall j, nth_error l j = nth_error l' j) -> l = l'.
  Proof.
    induction l as [|x t IH]; intros [|y t'] H.
    - reflexivity.
    - specialize (H 0). discriminate.
    - specialize (H 0). discriminate.
    - pose proof (H 0) as H0. cbn in H0. injection H0 as ->. f_equal. apply IH.
      intro j. exact (H (S j)).
  Qed.

  Lemma collect_map_some : forall l : list B, collect (map (@Some B) l) = Some l.
  Proof. induction l as [|b t IH]; cbn; [reflexivity|]. rewrite IH. reflexivity. Qed.

  Lemma collect_some_inv : forall (sl : list (option B)) l, collect sl = Some l -> sl = map (@Some B) l.
  Proof.
    induction sl as [|[b|] t IH]; intros l H; cbn in H.
    - injection H as <-. reflexivity.
    - destruct (collect t) as [l'|] eqn:E; [|discriminate]. injection H as <-.
      cbn. f_equal. apply IH. reflexivity.
    - discriminate.
  Qed.

  Definition complete (n : nat) (sched : list nat) : Prop := forall j, j < n -> In j sched.

  Lemma picked_in : forall j sched, In j sched -> picked j sched = true.
  Proof.
    intros j sched H. unfold picked. apply existsb_exists. exists j. split; [exact H|].
    apply Nat.eqb_refl.
  Qed.

  (* at ANY moment of ANY schedule, a filled slot i holds f (task i) *)
  Lemma slots_invariant : forall (tasks : list A) (s0 : St) sched j b,
    nth_error (snd (run_pool (pure_task f) tasks s0 sched)) j = Some (Some b) ->
    exists a, nth_error tasks j = Some a /\ b = f a.
  Proof.
    intros tasks s0 sched j b H. unfold run_pool in H.
    destruct (fold_pure tasks sched s0 (init_slots tasks)) as (_ & _ & H3).
    { unfold init_slots. apply repeat_length. }
    rewrite H3 in H. destruct (picked j sched && (j <? length tasks)).
    - unfold expected in H. destruct (nth_error tasks j) as [a|]; [|discriminate].
      cbn in H. injection H as <-. eauto.
    - unfold init_slots in H. rewrite nth_error_repeat_none in H.
      destruct (j <? length tasks); discriminate.
  Qed.

  Lemma schedule_free : forall (tasks : list A) (s0 : St) sched,
    complete (length tasks) sched ->
    parallel_map (pure_task f) tasks s0 sched = Some (map f tasks) /\
    fst (run_pool (pure_task f) tasks s0 sched) = s0.
  Proof.
    intros tasks s0 sched Hc. unfold parallel_map, run_pool.
    destruct (fold_pure tasks sched s0 (init_slots tasks)) as (H1 & H2 & H3).
    { unfold init_slots. apply repeat_length. }
    split; [|exact H1].
    assert (E : snd (fold_left (step (pure_task f) tasks) sched (s0, init_slots tasks)) =
                map (@Some B) (map f tasks)).
    { apply nth_error_ext. intro j. rewrite H3.
      destruct (j <? length tasks) eqn:Ej.
      - apply Nat.ltb_lt in Ej. rewrite (picked_in j sched (Hc j Ej)). cbn [andb].
        unfold expected. rewrite map_map. rewrite nth_error_map. reflexivity.
      - rewrite andb_false_r. unfold init_slots. rewrite nth_error_repeat_none, Ej.
        symmetry. apply nth_error_None. rewrite !map_length. apply Nat.ltb_ge. exact Ej. }
    rewrite E. apply collect_map_some.
  Qed.

  Lemma permutation_complete : forall n sched, Permutation sched (seq 0 n) -> complete n sched.
  Proof.
    intros n sched HP j Hj. apply (Permutation_in j (Permutation_sym HP)).
    apply in_seq. lia.
  Qed.

  Lemma schedule_free_any_two : forall (tasks : list A) (s0 s0' : St) sched sched',
    complete (length tasks) sched -> complete (length tasks) sched' ->
    parallel_map (pure_task f) tasks s0 sched = parallel_map (pure_task f) tasks s0' sched'.
  Proof.
    intros. rewrite (proj1 (schedule_free tasks s0 sched H)).
    rewrite (proj1 (schedule_free tasks s0' sched' H0)). reflexivity.
  Qed.

  (* ---- two-phase pool: starts and finishes interleave arbitrarily ---- *)

  Definition reg_good (tasks : list A) (r : regs B) : Prop :=
    forall w i b, In (w, (i, b)) r -> exists a, nth_error tasks i = Some a /\ b = f a.
  Definition slots_good (tasks : list A) (sl : list (option B)) : Prop :=
    length sl = length tasks /\
    forall j b, nth_error sl j = Some (Some b) -> exists a, nth_error tasks j = Some a /\ b = f a.

  Lemma reg_del_in : forall (r : regs B) w x, In x (reg_del B r w) -> In x r.
  Proof.
    induction r as [|[w' v] t IH]; intros w x H; cbn in *; [exact H|].
    destruct (Nat.eqb w w'); [right; eapply IH; eauto|].
    destruct H as [H|H]; [left; exact H|right; eapply IH; eauto].
  Qed.

  Lemma reg_find_in : forall (r : regs B) w v, reg_find B r w = Some v -> In (w, v) r.
  Proof.
    induction r as [|[w' v'] t IH]; intros w v H; cbn in *; [discriminate|].
    destruct (Nat.eqb w w') eqn:E.
    - apply Nat.eqb_eq in E. subst. injection H as ->. left. reflexivity.
    - right. apply IH. exact H.
  Qed.

  Lemma step2_good : forall tasks st ev,
    reg_good tasks (fst st) -> slots_good tasks (snd st) ->
    reg_good tasks (fst (step2 f tasks st ev)) /\ slots_good tasks (snd (step2 f tasks st ev)).
  Proof.
    intros tasks [r sl] ev Hr Hs. cbn [fst snd] in *. destruct ev as [w i|w]; cbn [step2 fst snd].
    - destruct (nth_error tasks i) as [a|] eqn:Ei; cbn [fst snd]; [|auto].
      split; [|exact Hs]. intros w' i' b' [H|H].
      + injection H as <- <- <-. eauto.
      + eapply Hr. eapply reg_del_in. exact H.
    - destruct (reg_find B r w) as [[i b]|] eqn:Ef; cbn [fst snd]; [|auto].
      split.
      + intros w' i' b' H. eapply Hr. eapply reg_del_in. exact H.
      + destruct Hs as [Hl Hs]. split; [rewrite set_slot_length; exact Hl|].
        intros j b' Hj. rewrite nth_error_set_slot in Hj.
        destruct (Nat.eqb i j) eqn:Eij; [|eapply Hs; exact Hj].
        apply Nat.eqb_eq in Eij. subst j. destruct (i <? length sl); [|discriminate].
        injection Hj as <-. apply (Hr w i b). apply reg_find_in. exact Ef.
  Qed.

  Lemma run2_good : forall tasks evs st,
    reg_good tasks (fst st) -> slots_good tasks (snd st) ->
    slots_good tasks (snd (fold_left (step2 f tasks) evs st)).
  Proof.
    intros tasks. induction evs as [|ev t IH]; intros st Hr Hs; cbn [fold_left]; [exact Hs|].
    destruct (step2_good tasks st ev Hr Hs) as [Hr' Hs']. apply IH; assumption.
  Qed.

  (* whenever the two-phase pool has filled every slot - whatever the interleaving of starts and
     finishes, with tasks started twice, abandoned, or workers re-used - it delivers map f tasks *)
  Lemma pool2_delivers : forall (tasks : list A) evs l,
    collect (snd (run_pool2 f tasks evs)) = Some l -> l = map f tasks.
  Proof.
    intros tasks evs l H. unfold run_pool2 in H.
    assert (Hg : slots_good tasks (snd (fold_left (step2 f tasks) evs ([], init_slots tasks)))).
    { apply run2_good; cbn [fst snd].
      - intros w i b [].
      - split; [apply repeat_length|]. intros j b Hj. unfold init_slots in Hj.
        rewrite nth_error_repeat_none in Hj. destruct (j <? length tasks); discriminate. }
    destruct Hg as [Hl Hg]. apply collect_some_inv in H. rewrite H in Hl, Hg.
    rewrite map_length in Hl. apply nth_error_ext. intro j.
    rewrite nth_error_map. destruct (nth_error l j) as [b|] eqn:Ej.
    - destruct (Hg j b) as (a & Ha & ->).
      { rewrite nth_error_map, Ej. reflexivity. }
      rewrite Ha. reflexivity.
    - apply nth_error_None in Ej. assert (Hn : nth_error tasks j = None)
        by (apply nth_error_None; lia). rewrite Hn. reflexivity.
  Qed.
End PoolProofs.

(* seeds drawn before dispatch: the length bookkeeping *)
Lemma draw_seeds_length : forall St (next : St -> St * Z) n s,
  length (fst (draw_seeds next n s)) = n.
Proof.
  intros St next. induction n as [|n IH]; intro s; cbn; [reflexivity|].
  destruct (next s) as [s1 r]. specialize (IH s1). destruct (draw_seeds next n s1) as [l s2].
  cbn in *. congruence.
Qed.

Lemma seeded_tasks_schedule_free : forall A B St (next : St -> St * Z) (f : A -> Z -> B)
  (tasks : list A) (s0 : St) sched,
  complete (length tasks) sched ->
  let seeded := combine tasks (fst (draw_seeds next (length tasks) s0)) in
  parallel_map (pure_task (fun p : A * Z => f (fst p) (snd p))) seeded s0 sched =
  Some (map (fun p : A * Z => f (fst p) (snd p)) seeded).
Proof.
  intros A B St next f tasks s0 sched Hc seeded.
  apply (schedule_free (A * Z) B St). unfold seeded.
  rewrite combine_length, draw_seeds_length, Nat.min_id. exact Hc.
Qed.

Lemma site_schedule_free : forall A B (s : site) (next : Z -> Z * Z) (f : A -> Z -> B)
  (tasks : list A) (s0 : Z) sched sched',
  site_ok s = true ->
  complete (length tasks) sched -> complete (length tasks) sched' ->
  site_pool s next f tasks s0 sched = site_pool s next f tasks s0 sched' /\
  site_pool s next f tasks s0 sched =
    Some (map (fun p : A * Z => f (fst p) (snd p))
              (combine tasks (fst (draw_seeds next (length tasks) s0)))).
Proof.
  intros A B s next f tasks s0 sched sched' Hok Hc Hc'. unfold site_ok in Hok.
  repeat (apply andb_true_iff in Hok; destruct Hok as [Hok ?]).
  unfold site_pool.
  replace (no_shared_rng_arg s && task_no_global_rng s && task_rng_from_seed s &&
           draws_before_dispatch s) with true
    by (symmetry; repeat (apply andb_true_iff; split); assumption).
  rewrite (seeded_tasks_schedule_free A B Z next f tasks s0 sched Hc).
  rewrite (seeded_tasks_schedule_free A B Z next f tasks s0 sched' Hc').
  split; reflexivity.
Qed.

(* ================================================================================ (iii) *)

Section RngProofs.
  Variable St : Type.
  Variable randint : Z -> St -> option (Z * St).
  Variable mk : Z -> St.

  (* with an int seed the fit reads nothing of the world and leaves its generator alone *)
  Lemma seeded_fit_function_of_seed : forall seed n_est k mi sl (w1 w2 : world St),
    fst (fit_intervals randint mk (Some seed) n_est k mi sl w1) =
    fst (fit_intervals randint mk (Some seed) n_est k mi sl w2) /\
    snd (fit_intervals randint mk (Some seed) n_est k mi sl w1) = w1.
  Proof. intros. cbn. split; reflexivity. Qed.

  (* predict with a fresh stream per call: estimator unchanged, repeat gives the same pick, and
     other predict calls in between do not matter *)
  Lemma predict_fresh_pure : forall (e : est St) ties ties',
    fst (predict_fresh randint mk e ties) = e /\
    snd (predict_fresh randint mk (fst (predict_fresh randint mk e ties')) ties) =
    snd (predict_fresh randint mk e ties).
  Proof. intros. cbn. split; reflexivity. Qed.

  (* intervals are a function of the stream position only: equal streams, equal intervals and
     equal stream afterwards (so the NEXT tree's intervals are determined too) *)
  Lemma get_intervals_deterministic : forall k mi sl s s',
    s = s' -> get_intervals randint k mi sl s = get_intervals randint k mi sl s'.
  Proof. intros. subst. reflexivity. Qed.

  Lemma forest_intervals_length : forall n_est k mi sl s l s',
    forest_intervals randint n_est k mi sl s = Some (l, s') -> length l = n_est.
  Proof.
    induction n_est as [|n IH]; intros k mi sl s l s' H; cbn in H.
    - injection H as <- _. reflexivity.
    - destruct (get_intervals randint k mi sl s) as [[iv s1]|]; [|discriminate].
      destruct (forest_intervals randint n k mi sl s1) as [[l' s2]|] eqn:E; [|discriminate].
      injection H as <- _. cbn. f_equal. eapply IH. exact E.
  Qed.

  Lemma get_intervals_length : forall k mi sl s l s',
    get_intervals randint k mi sl s = Some (l, s') -> length l = k.
  Proof.
    induction k as [|k IH]; intros mi sl s l s' H; cbn in H.
    - injection H as <- _. reflexivity.
    - destruct (randint (sl - mi)%Z s) as [[a s1]|]; [|discriminate].
      destruct (randint (sl - a - 1)%Z s1) as [[len0 s2]|]; [|discriminate].
      destruct (get_intervals randint k mi sl s2) as [[l' s3]|] eqn:E; [|discriminate].
      injection H as <- _. cbn. f_equal. eapply IH. exact E.
  Qed.

  (* if the generator honours 0 <= randint(b) < b, every interval lies inside the series and is
     at least min_interval long *)
  Hypothesis randint_range : forall b s v s', randint b s = Some (v, s') -> (0 <= v < b)%Z.

  Lemma get_intervals_in_range : forall k mi sl s l s', (0 < mi)%Z ->
    get_intervals randint k mi sl s = Some (l, s') ->
    Forall (fun iv => (0 <= fst iv /\ fst iv + mi <= snd iv /\ snd iv < sl)%Z) l.
  Proof.
    induction k as [|k IH]; intros mi sl s l s' Hmi H; cbn in H.
    - injection H as <- _. constructor.
    - destruct (randint (sl - mi)%Z s) as [[a s1]|] eqn:E1; [|discriminate].
      destruct (randint (sl - a - 1)%Z s1) as [[len0 s2]|] eqn:E2; [|discriminate].
      destruct (get_intervals randint k mi sl s2) as [[l' s3]|] eqn:E; [|discriminate].
      injection H as <- _. apply randint_range in E1. apply randint_range in E2.
      constructor; [|eapply IH; eauto]. cbn [fst snd].
      destruct (len0 <? mi)%Z eqn:El; [apply Z.ltb_lt in El|apply Z.ltb_ge in El]; lia.
  Qed.
End RngProofs.

Lemma intervals_well_formed :
  forall (St : Type) (randint : Z -> St -> option (Z * St)),
  (forall b s v s', randint b s = Some (v, s') -> (0 <= v < b)%Z) ->
  forall k mi sl s l s', (0 < mi)%Z -> get_intervals randint k mi sl s = Some (l, s') ->
  length l = k /\
  Forall (fun iv => (0 <= fst iv /\ fst iv + mi <= snd iv /\ snd iv < sl)%Z) l.
Proof.
  intros St randint Hr k mi sl s l s' Hmi H. split.
  - exact (get_intervals_length St randint k mi sl s l s' H).
  - exact (get_intervals_in_range St randint Hr k mi sl s l s' Hmi H).
Qed.

(* ================================================================ the anchored shapes *)

Lemma hampel_now_is_safe : forall copy h g isf rb nc nw,
  is_safe false (hampel_now copy h g isf rb nc nw) = true.
Proof. intros. reflexivity. Qed.

Lemma hampel_old_is_rejected : forall h g isf rb nc nw,
  is_safe false (hampel_old h g isf rb nc nw) = false.
Proof. intros. reflexivity. Qed.

Lemma copy_first_is_safe : forall h, is_safe false (copy_first h) = true.
Proof. intros. reflexivity. Qed.

Lemma fit_shape_is_safe_for_fit : forall h g, is_safe true (fit_shape h g) = true.
Proof. intros. reflexivity. Qed.

Lemma imputer_safe_iff : forall h g fitg mv nc m frame,
  is_safe false (imputer h g fitg mv nc m frame) = true <->
  ~ (m = MRandom /\ frame = true) /\ m <> MForecaster.
Proof.
  intros h g fitg mv nc m frame. destruct m, frame; cbn; split; intro H;
    try reflexivity; try discriminate;
    try (split; [intros [? ?]; discriminate | discriminate]);
    try (destruct H as [H1 H2]; exfalso; (apply H1; split; reflexivity) || (apply H2; reflexivity)).
Qed.

(* a concrete non-trivial instance of the hypotheses used throughout *)
Definition ex_store : store := [[60; 2; 3]%Z; [7]%Z; [1; 1]%Z].
Definition ex_hampel : prog :=
  hampel_now (fun _ cb => cb) (fun _ cb => map (Z.add 1) cb) (fun _ cb => 1%Z :: tl cb)
             (fun _ _ => false) (fun _ _ => false) (fun _ _ => 1) (fun _ cb => List.length cb).

Lemma ex_nonvacuous :
  is_safe false ex_hampel = true /\
  fst (apply 1 ex_hampel ex_store 0) = ex_store ++ [[1; 2; 3]%Z] /\
  snd (apply 1 ex_hampel ex_store 0) = 3 /\
  complete 3 [2; 0; 2; 1] /\
  parallel_map (pure_task (St := unit) (Z.mul 2)) [5; 6; 7]%Z tt [2; 0; 2; 1] = Some [10; 12; 14]%Z /\
  collect (snd (run_pool2 (Z.mul 2) [5; 6; 7]%Z
     [Start 0 2; Start 1 0; Finish 1; Start 1 1; Finish 0; Finish 1])) = Some [10; 12; 14]%Z /\
  get_intervals lcg_randint 2 3%Z 20%Z 5%Z = Some ([(5, 13); (16, 19)]%Z, 2089129857%Z).
Proof.
  repeat split; try reflexivity.
  intros j Hj. destruct j as [|[|[|j]]]; cbn; auto. lia.
Qed.
