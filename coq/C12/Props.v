(* C12 property theorems (PARTIAL: the modelled logic; threads, pickle and BLAS are sampled by the
   correspondence run).  Nothing but statements closed by `exact`, each followed by
   Print Assumptions. *)
From Coq Require Import ZArith List Bool Arith Permutation.
Require Import SkV.C12.Model SkV.C12.Own SkV.C12.Cutoff SkV.C12.Proofs SkV.C12.BridgeOwn
  SkV.C12.BridgeCutoff SkV.C12.Seeds SkV.C12.BridgeSeeds.
Import ListNotations.

(* ---- (i) ownership: "never modify the caller's data and never change the estimator" ---- *)

(* a method (apply-type, or a fit) whose program passes the aliasing analysis leaves EVERY buffer
   that existed before the call - the caller's argument, its index, any other object the caller
   holds - exactly as it was, for all stores, all written values, all branch outcomes, all loop
   counts, all local variables and views *)
Theorem C12_apply_preserves_caller_buffers : forall self_ok m, is_safe self_ok m = true ->
  forall e st0 caller, e < length st0 -> caller < length st0 ->
  forall i, i < length st0 -> i <> e -> get (fst (apply e m st0 caller)) i = get st0 i.
Proof. exact preserves_caller_buffers. Qed.
Print Assumptions C12_apply_preserves_caller_buffers.

(* apply-type methods: the estimator's state buffer is not changed either *)
Theorem C12_apply_preserves_estimator_state : forall m, is_safe false m = true ->
  forall e st0 caller, e < length st0 -> caller < length st0 ->
  get (fst (apply e m st0 caller)) e = get st0 e.
Proof. exact preserves_estimator_state. Qed.
Print Assumptions C12_apply_preserves_estimator_state.

(* the result is a new or existing buffer of a store that only grew *)
Theorem C12_apply_allocates_only : forall self_ok m, is_safe self_ok m = true ->
  forall e st0 caller, e < length st0 -> caller < length st0 ->
  length st0 <= length (fst (apply e m st0 caller)) /\
  snd (apply e m st0 caller) < length (fst (apply e m st0 caller)).
Proof. exact apply_store_grows. Qed.
Print Assumptions C12_apply_allocates_only.

(* the result of an accepted apply-type method is a function of the CONTENTS of the estimator's
   state and of the caller's data, and of nothing else in the store (not of other objects, not of
   the buffer ids): this is what makes it repeatable, interleavable and what a pickled copy (equal
   state contents in another store) must reproduce *)
Theorem C12_apply_result_function_of_state_and_data : forall m, is_safe false m = true ->
  forall e st caller e' st' caller',
  e < length st -> caller < length st -> e <> caller ->
  e' < length st' -> caller' < length st' ->
  get st e = get st' e' -> get st caller = get st' caller' ->
  get (fst (apply e m st caller)) (snd (apply e m st caller)) =
  get (fst (apply e' m st' caller')) (snd (apply e' m st' caller')).
Proof. exact apply_result_function_of_state_and_data. Qed.
Print Assumptions C12_apply_result_function_of_state_and_data.

(* "repeating the call, or calling other apply-type methods in between, returns the same result":
   after ANY history of accepted apply-type calls (any programs, on any of the caller's buffers)
   the call returns the same contents as it did at the start *)
Theorem C12_apply_same_result_after_any_history : forall m, is_safe false m = true ->
  forall e st0 caller hs, e < length st0 -> caller < length st0 -> caller <> e ->
  valid_history e st0 hs ->
  let st := play e hs st0 in
  get (fst (apply e m st caller)) (snd (apply e m st caller)) =
  get (fst (apply e m st0 caller)) (snd (apply e m st0 caller)).
Proof. exact history_independent. Qed.
Print Assumptions C12_apply_same_result_after_any_history.

(* a returned variable the analysis flags as new is a new object on every path *)
Theorem C12_result_is_a_new_object : forall m, returns_fresh m = true ->
  forall e st0 caller, e < length st0 -> caller < length st0 ->
  length st0 <= snd (apply e m st0 caller).
Proof. exact returns_fresh_sound. Qed.
Print Assumptions C12_result_is_a_new_object.

(* the programs REGENERATED from /repo's source on this run: Imputer.transform and
   HampelFilter.transform (helpers inlined) are pure for all branch conditions, loop counts and
   contents; every regenerated method (fit / update of Detrender, Deseasonalizer, ... included)
   leaves the caller's buffers alone *)
Theorem C12_imputer_transform_is_pure : forall cond fn cnt e st0 caller,
  e < length st0 -> caller < length st0 ->
  (forall i, i < length st0 ->
     get (fst (apply e (imputer_transform cond fn cnt) st0 caller)) i = get st0 i) /\
  length st0 <= snd (apply e (imputer_transform cond fn cnt) st0 caller).
Proof. exact imputer_transform_is_pure. Qed.
Print Assumptions C12_imputer_transform_is_pure.

Theorem C12_hampel_transform_is_pure : forall cond fn cnt e st0 caller,
  e < length st0 -> caller < length st0 ->
  (forall i, i < length st0 ->
     get (fst (apply e (hampelfilter_transform cond fn cnt) st0 caller)) i = get st0 i) /\
  length st0 <= snd (apply e (hampelfilter_transform cond fn cnt) st0 caller).
Proof. exact hampel_transform_is_pure. Qed.
Print Assumptions C12_hampel_transform_is_pure.

Theorem C12_generated_methods_preserve_caller_data : forall cond fn cnt k m so,
  nth_error (gen_methods cond fn cnt) k = Some m -> nth_error gen_self_ok k = Some so ->
  forall e st0 caller, e < length st0 -> caller < length st0 ->
  forall i, i < length st0 -> i <> e -> get (fst (apply e m st0 caller)) i = get st0 i.
Proof. exact generated_methods_preserve_caller_data. Qed.
Print Assumptions C12_generated_methods_preserve_caller_data.

(* predict of a forecaster never changes the estimator's cutoff: a program over that field in
   which every assignment lies inside a save / restore region leaves it where it was, for all
   stored values, conditions, loop counts and exits by return / raise ... *)
Theorem C12_guarded_program_keeps_cutoff : forall setv kcond kcnt p, guarded p = true ->
  forall s, fst (kexec setv kcond kcnt p s) = s.
Proof. exact guarded_keeps_cutoff. Qed.
Print Assumptions C12_guarded_program_keeps_cutoff.

(* ... and the programs REGENERATED from the code reachable from `predict` of the listed
   forecasters (virtual dispatch through the package; the in-sample moving-cutoff pass of the
   window forecasters included) are of that kind *)
Theorem C12_predict_keeps_cutoff : forall name p, In (name, p) cutoff_progs ->
  forall setv kcond kcnt s, fst (kexec setv kcond kcnt p s) = s.
Proof. exact predict_keeps_cutoff. Qed.
Print Assumptions C12_predict_keeps_cutoff.

(* ---- (ii) scheduling: "equal results whatever n_jobs is" ---- *)

(* tasks that are pure functions of their own inputs, results written into slots by task index:
   EVERY schedule (any order of picks, repeats and stray picks included) that runs each task at
   least once delivers map f tasks, and leaves the shared state alone *)
Theorem C12_ordered_collection_schedule_free :
  forall (A B St : Type) (f : A -> B) (tasks : list A) (s0 : St) sched,
  complete (length tasks) sched ->
  parallel_map (pure_task f) tasks s0 sched = Some (map f tasks) /\
  fst (run_pool (pure_task f) tasks s0 sched) = s0.
Proof. exact schedule_free. Qed.
Print Assumptions C12_ordered_collection_schedule_free.

(* in particular every permutation schedule, and any two schedules agree *)
Theorem C12_every_permutation_is_complete : forall n sched,
  Permutation sched (seq 0 n) -> complete n sched.
Proof. exact permutation_complete. Qed.
Print Assumptions C12_every_permutation_is_complete.

Theorem C12_any_two_schedules_agree :
  forall (A B St : Type) (f : A -> B) (tasks : list A) (s0 s0' : St) sched sched',
  complete (length tasks) sched -> complete (length tasks) sched' ->
  parallel_map (pure_task f) tasks s0 sched = parallel_map (pure_task f) tasks s0' sched'.
Proof. exact schedule_free_any_two. Qed.
Print Assumptions C12_any_two_schedules_agree.

(* n_jobs = None or 1 (one worker, tasks in order) and any other n_jobs (any complete schedule)
   deliver the same list *)
Theorem C12_sequential_run_agrees_with_any_schedule :
  forall (A B St : Type) (f : A -> B) (tasks : list A) (s0 : St) sched,
  complete (length tasks) sched ->
  parallel_map (pure_task f) tasks s0 sched =
  parallel_map (pure_task f) tasks s0 (seq 0 (length tasks)).
Proof. exact sequential_run_agrees. Qed.
Print Assumptions C12_sequential_run_agrees_with_any_schedule.

(* at any moment of any schedule a filled slot i holds f (task i) *)
Theorem C12_slots_invariant :
  forall (A B St : Type) (f : A -> B) (tasks : list A) (s0 : St) sched j b,
  nth_error (snd (run_pool (pure_task f) tasks s0 sched)) j = Some (Some b) ->
  exists a, nth_error tasks j = Some a /\ b = f a.
Proof. exact slots_invariant. Qed.
Print Assumptions C12_slots_invariant.

(* two-phase workers (start now, write the slot later; arbitrary interleaving of starts and
   finishes): whenever every slot is filled, the delivered list is map f tasks *)
Theorem C12_two_phase_pool_delivers_map :
  forall (A B : Type) (f : A -> B) (tasks : list A) evs l,
  collect (snd (run_pool2 f tasks evs)) = Some l -> l = map f tasks.
Proof. exact pool2_delivers. Qed.
Print Assumptions C12_two_phase_pool_delivers_map.

(* per-task seeds drawn sequentially BEFORE dispatch make randomised tasks pure again *)
Theorem C12_seeds_before_dispatch_schedule_free :
  forall A B St (next : St -> St * Z) (f : A -> Z -> B) (tasks : list A) (s0 : St) sched,
  complete (length tasks) sched ->
  let seeded := combine tasks (fst (draw_seeds next (length tasks) s0)) in
  parallel_map (pure_task (fun p : A * Z => f (fst p) (snd p))) seeded s0 sched =
  Some (map (fun p : A * Z => f (fst p) (snd p)) seeded).
Proof. exact seeded_tasks_schedule_free. Qed.
Print Assumptions C12_seeds_before_dispatch_schedule_free.

(* a call site whose regenerated facts hold denotes a schedule-free pool run *)
Theorem C12_site_contract_schedule_free :
  forall A B (s : site) (next : Z -> Z * Z) (f : A -> Z -> B) (tasks : list A) (s0 : Z) sched sched',
  site_ok s = true ->
  complete (length tasks) sched -> complete (length tasks) sched' ->
  site_pool s next f tasks s0 sched = site_pool s next f tasks s0 sched' /\
  site_pool s next f tasks s0 sched =
    Some (map (fun p : A * Z => f (fst p) (snd p))
              (combine tasks (fst (draw_seeds next (length tasks) s0)))).
Proof. exact site_schedule_free. Qed.
Print Assumptions C12_site_contract_schedule_free.

(* ---- (iii) seeds: "equal parameters (including random_state) ... equal results" ---- *)

(* with an int seed the sampled intervals do not depend on the world the fit runs in (global
   generator, earlier fits), and the world's generator is not advanced *)
Theorem C12_seeded_fit_is_function_of_seed :
  forall (St : Type) (randint : Z -> St -> option (Z * St)) (mk : Z -> St)
         seed n_est k mi sl (w1 w2 : world St),
  fst (fit_intervals randint mk (Some seed) n_est k mi sl w1) =
  fst (fit_intervals randint mk (Some seed) n_est k mi sl w2) /\
  snd (fit_intervals randint mk (Some seed) n_est k mi sl w1) = w1.
Proof. exact seeded_fit_function_of_seed. Qed.
Print Assumptions C12_seeded_fit_is_function_of_seed.

(* the seeded estimators whose regenerated seed-flow fact holds (the random_state parameter
   reaches the generator unchanged on every path): every seed, 0 included, arrives as it is, and
   the sampled intervals do not depend on the world the fit runs in *)
Theorem C12_seeded_estimators_fit_is_function_of_seed : forall name, In (name, true) seed_flows ->
  forall (St : Type) (randint : Z -> St -> option (Z * St)) (mk : Z -> St)
         seed n_est k mi sl (w1 w2 : world St),
  fst (fit_intervals randint mk (forwarded true (Some seed)) n_est k mi sl w1) =
  fst (fit_intervals randint mk (forwarded true (Some seed)) n_est k mi sl w2).
Proof. exact seeded_estimators_fit_is_function_of_seed. Qed.
Print Assumptions C12_seeded_estimators_fit_is_function_of_seed.

(* predict with a stream built per call from the seed: the estimator is unchanged and a repeat -
   also after other predict calls - picks the same *)
Theorem C12_apply_does_not_consume_rng :
  forall (St : Type) (randint : Z -> St -> option (Z * St)) (mk : Z -> St) (e : est St) ties ties',
  fst (predict_fresh randint mk e ties) = e /\
  snd (predict_fresh randint mk (fst (predict_fresh randint mk e ties')) ties) =
  snd (predict_fresh randint mk e ties).
Proof. exact predict_fresh_pure. Qed.
Print Assumptions C12_apply_does_not_consume_rng.

(* _get_intervals over any generator honouring 0 <= randint(b) < b: as many intervals as asked,
   each inside the series and at least min_interval long *)
Theorem C12_intervals_well_formed :
  forall (St : Type) (randint : Z -> St -> option (Z * St)),
  (forall b s v s', randint b s = Some (v, s') -> (0 <= v < b)%Z) ->
  forall k mi sl s l s', (0 < mi)%Z -> get_intervals randint k mi sl s = Some (l, s') ->
  length l = k /\
  Forall (fun iv => (0 <= fst iv /\ fst iv + mi <= snd iv /\ snd iv < sl)%Z) l.
Proof. exact intervals_well_formed. Qed.
Print Assumptions C12_intervals_well_formed.

(* the hypotheses are satisfiable by non-trivial instances: an accepted copy-first program that
   really writes (into its copy, through a view variable), a complete schedule with a repeat that is not the identity, a
   two-phase interleaving, a sampled pair of intervals *)
Example C12_nonvacuous :
  is_safe false ex_prog = true /\
  fst (apply 1 ex_prog ex_store 0) = ex_store ++ [[1; 2; 3]%Z] /\
  snd (apply 1 ex_prog ex_store 0) = 3 /\
  complete 3 [2; 0; 2; 1] /\
  parallel_map (pure_task (St := unit) (Z.mul 2)) [5; 6; 7]%Z tt [2; 0; 2; 1] = Some [10; 12; 14]%Z /\
  collect (snd (run_pool2 (Z.mul 2) [5; 6; 7]%Z
     [Start 0 2; Start 1 0; Finish 1; Start 1 1; Finish 0; Finish 1])) = Some [10; 12; 14]%Z /\
  get_intervals lcg_randint 2 3%Z 20%Z 5%Z = Some ([(5, 13); (16, 19)]%Z, 2089129857%Z).
Proof. exact ex_nonvacuous. Qed.
