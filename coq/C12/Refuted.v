(* C12 negative witnesses: shapes that VIOLATE the property statements are rejected by the analyses
   and really violate (each by an explicit instance, checked by computation).  None of them is an
   open finding any more: the three in-place / own-parameter shapes are what /repo had BEFORE the
   repairs (HampelFilter.transform without the copy; Imputer(method="random") on a DataFrame;
   Imputer(method="forecaster") fitting its own `forecaster` parameter) - kept as historical
   witnesses that the aliasing analysis is not trivially accepting; C12/Bridge.v proves that the
   programs regenerated from the present source are all accepted. *)
From Coq Require Import ZArith List Bool Arith Lia Permutation.
Require Import SkV.C12.Model.
Import ListNotations.
Open Scope Z_scope.

Definition nan : Z := 1.                       (* any marker value *)
Definition ff (_ : buf) (_ : list buf) : bool := false.
Definition tt' (_ : buf) (_ : list buf) : bool := true.
Definition one (_ : buf) (_ : list buf) : nat := 1%nat.
Definition keep (_ : buf) (v : list buf) : buf := nth 0 v [].
Definition write_nan (_ : buf) (v : list buf) : buf := nan :: tl (nth 0 v []).   (* Z.iloc[0] = nan *)

(* the caller's series [60; 2; 3] at id 0, the estimator's state at id 1 *)
Definition st_ex : store := [[60; 2; 3]; [7]].

(* HISTORICAL (repaired): transform writing `Z.iloc[j] = ..` into the validated input *)
Lemma inplace_loop_modifies_caller_refuted :
  exists g nc st caller,
    get (fst (apply 1 (old_inplace_loop g nc) st caller)) caller <> get st caller /\
    is_safe false (old_inplace_loop g nc) = false /\
    (* ... while deriving a copy first leaves it alone on the same input *)
    get (fst (apply 1 (copy_first g) st caller)) caller = get st caller.
Proof.
  exists write_nan, one, st_ex, 0%nat. vm_compute. repeat split; congruence.
Qed.

(* HISTORICAL (repaired): Imputer(method="random") on a DataFrame: `Z[col] = ...` on the caller's
   frame - only on the frame branch, which is why one dataset did not show it *)
Lemma random_frame_modifies_caller_refuted :
  exists h g st caller,
    get (fst (apply 1 (old_random_frame h g tt' one) st caller)) caller <> get st caller /\
    get (fst (apply 1 (old_random_frame h g ff one) st caller)) caller = get st caller /\
    is_safe false (old_random_frame h g tt' one) = false.
Proof.
  exists keep, write_nan, st_ex, 0%nat. vm_compute. repeat split; congruence.
Qed.

(* HISTORICAL (repaired): Imputer(method="forecaster"): transform fits the estimator's own
   `forecaster` parameter (a variable that refers to the estimator's state, written through) *)
Lemma fitting_own_param_changes_estimator_refuted :
  exists h g st caller,
    get (fst (apply 1 (old_fits_own_param h g) st caller)) 1%nat <> get st 1%nat /\
    is_safe false (old_fits_own_param h g) = false.
Proof.
  exists keep, (fun _ v => nth 0 v []), st_ex, 0%nat. vm_compute. split; congruence.
Qed.

(* a transformer that caches on self during transform: the second call returns something else *)
Lemma caching_on_self_not_repeatable_refuted :
  exists h g st caller,
    let p := caches_on_self h g in
    let r1 := apply 1 p st caller in
    let r2 := apply 1 p (fst r1) caller in
    get (fst r2) (snd r2) <> get (fst r1) (snd r1) /\ is_safe false p = false.
Proof.
  exists (fun eb v => eb ++ nth 0 v []), (fun eb _ => 0 :: eb), st_ex, 0%nat.
  vm_compute. split; congruence.
Qed.

(* tasks that draw from a generator they share: the collection depends on the schedule *)
Definition counter_next (s : Z) : Z * Z := (s + 1, s).

Lemma shared_rng_schedule_dependent_refuted :
  exists (tasks : list Z) s0 sched1 sched2,
    Permutation sched1 (seq 0 (length tasks)) /\ Permutation sched2 (seq 0 (length tasks)) /\
    parallel_map (shared_rng_task counter_next Z.add) tasks s0 sched1 <>
    parallel_map (shared_rng_task counter_next Z.add) tasks s0 sched2.
Proof.
  exists [10; 20], 0, [0%nat; 1%nat], [1%nat; 0%nat]. repeat split.
  - apply Permutation_refl.
  - apply perm_swap.
  - vm_compute. congruence.
Qed.

(* the same through the call-site reading: a site that hands a generator to its tasks *)
Definition bad_site : site :=
  {| sid := 0; gen_form := true; kw_ok := true; bound_whole := true; task_resolved := true;
     no_shared_rng_arg := false; task_no_global_rng := true; task_rng_from_seed := true;
     task_no_shared_write := true; draws_before_dispatch := true;
     njobs_none_ok := true |}.

Lemma site_with_shared_rng_schedule_dependent_refuted :
  exists (tasks : list Z) s0 sched1 sched2,
    Permutation sched1 sched2 /\ site_ok bad_site = false /\
    site_pool bad_site counter_next Z.add tasks s0 sched1 <>
    site_pool bad_site counter_next Z.add tasks s0 sched2.
Proof.
  exists [10; 20], 0, [0%nat; 1%nat], [1%nat; 0%nat]. repeat split.
  - apply perm_swap.
  - vm_compute. congruence.
Qed.

(* random_state=None: the fit reads (and advances) the world's global generator *)
Definition lcg_mk (seed : Z) : Z := seed.

Lemma unseeded_fit_depends_on_world_refuted :
  exists w1 w2 : world Z,
    fst (fit_intervals lcg_randint lcg_mk None 2 2 3 20 w1) <>
    fst (fit_intervals lcg_randint lcg_mk None 2 2 3 20 w2) /\
    snd (fit_intervals lcg_randint lcg_mk None 2 2 3 20 w1) <> w1.
Proof.
  exists (Build_world 5), (Build_world 6). vm_compute. split; congruence.
Qed.

(* a predict that keeps its generator on self: the estimator changes and a repeat differs *)
Lemma predict_with_kept_rng_not_repeatable_refuted :
  exists (e : est Z) ties,
    let r1 := predict_kept lcg_randint e ties in
    let r2 := predict_kept lcg_randint (fst r1) ties in
    fst r1 <> e /\ snd r2 <> snd r1.
Proof.
  exists (Build_est 3 3), [0; 1]. vm_compute. split; congruence.
Qed.

(* a seed that is dropped when it is falsy (`{..}.items() if value`, `seed or None`): the fit with
   random_state = 0 reads the world's global generator - two equal-parameter estimators differ -
   while every other seed still behaves *)
Lemma truthiness_filter_drops_zero_seed_refuted :
  exists w1 w2 : world Z,
    fst (fit_intervals lcg_randint lcg_mk (forwarded false (Some 0)) 2 2 3 20 w1) <>
    fst (fit_intervals lcg_randint lcg_mk (forwarded false (Some 0)) 2 2 3 20 w2) /\
    fst (fit_intervals lcg_randint lcg_mk (forwarded false (Some 7)) 2 2 3 20 w1) =
    fst (fit_intervals lcg_randint lcg_mk (forwarded false (Some 7)) 2 2 3 20 w2) /\
    fst (fit_intervals lcg_randint lcg_mk (forwarded true (Some 0)) 2 2 3 20 w1) =
    fst (fit_intervals lcg_randint lcg_mk (forwarded true (Some 0)) 2 2 3 20 w2).
Proof.
  exists (Build_world 5), (Build_world 6). vm_compute. repeat split; congruence.
Qed.
