(* C12 refutation witnesses: the faithful in-place / shared-state variants VIOLATE the property
   statements (each by an explicit instance, checked by computation). *)
From Coq Require Import ZArith List Bool Arith Lia Permutation.
Require Import SkV.C12.Model.
Import ListNotations.
Open Scope Z_scope.

Definition nan : Z := 1.                       (* any marker value *)
Definition ff (_ _ : buf) : bool := false.
Definition tt' (_ _ : buf) : bool := true.
Definition one (_ _ : buf) : nat := 1%nat.
Definition keep (_ cb : buf) : buf := cb.
Definition write_nan (_ cb : buf) : buf := nan :: tl cb.      (* Z.iloc[0] = np.nan *)

(* the caller's series [60; 2; 3] at id 0, the estimator's state at id 1 *)
Definition st_ex : store := [[60; 2; 3]; [7]].

(* OLD HampelFilter.transform (no copy): the caller's series gets the NaN *)
Lemma hampel_old_modifies_caller_refuted :
  exists copy h g isf rb nc nw st caller,
    get (fst (apply 1 (hampel_old h g isf rb nc nw) st caller)) caller <> get st caller /\
    is_safe false (hampel_old h g isf rb nc nw) = false /\
    (* ... while the copying version of /repo leaves it alone on the same input *)
    get (fst (apply 1 (hampel_now copy h g isf rb nc nw) st caller)) caller = get st caller.
Proof.
  exists keep, keep, write_nan, ff, ff, one, one, st_ex, 0%nat.
  vm_compute. repeat split; congruence.
Qed.

(* Imputer(method="random") on a DataFrame: `Z[col] = ...` on the caller's frame (open finding) *)
Lemma imputer_random_frame_modifies_caller_refuted :
  exists h g fitg mv nc st caller,
    get (fst (apply 1 (imputer h g fitg mv nc MRandom true) st caller)) caller <> get st caller /\
    is_safe false (imputer h g fitg mv nc MRandom true) = false.
Proof.
  exists keep, write_nan, keep, ff, one, st_ex, 0%nat. vm_compute. split; congruence.
Qed.

(* Imputer(method="forecaster"): transform fits the estimator's own `forecaster` parameter *)
Lemma imputer_forecaster_changes_estimator_refuted :
  exists h g fitg mv nc st caller,
    get (fst (apply 1 (imputer h g fitg mv nc MForecaster false) st caller)) 1%nat <> get st 1%nat /\
    is_safe false (imputer h g fitg mv nc MForecaster false) = false.
Proof.
  exists keep, keep, (fun eb cb => cb), ff, one, st_ex, 0%nat. vm_compute. split; congruence.
Qed.

(* a transformer that caches on self during transform: the second call returns something else *)
Lemma caching_on_self_not_repeatable_refuted :
  exists h g st caller,
    let p := caches_on_self h g in
    let r1 := apply 1 p st caller in
    let r2 := apply 1 p (fst r1) caller in
    get (fst r2) (snd r2) <> get (fst r1) (snd r1) /\ is_safe false p = false.
Proof.
  exists (fun eb cb => eb ++ cb), (fun eb _ => 0 :: eb), st_ex, 0%nat.
  vm_compute. split; congruence.
Qed.

(* tasks that draw from a generator they share: the collection depends on the schedule *)
Definition counter_next (s : Z) : Z * Z := (s + 1, s).

Lemma shared_rng_schedule_dependent_refuted :
  exists (tasks : list Z) s0 sched1 sched2,
    Permutation sched1 (seq 0 (length tasks)) /\ Permutation sched2 (seq 0 (length tasks)) /\
    parallel_map (shared_rng_task counter_next Z.add) tasks s0 sched1 <>
    parallel_map (shared_rng_task counter_next Z.add) tasks s0 sched2.
Proof.
  exists [10; 20], 0, [0%nat; 1%nat], [1%nat; 0%nat]. repeat split.
  - apply Permutation_refl.
  - apply perm_swap.
  - vm_compute. congruence.
Qed.

(* the same through the call-site reading: a site that hands a generator to its tasks *)
Definition bad_site : site :=
  {| sid := 0; gen_form := true; kw_ok := true; bound_whole := true; task_resolved := true;
     no_shared_rng_arg := false; task_no_global_rng := true; task_rng_from_seed := true;
     task_no_shared_write := true; draws_before_dispatch := true |}.

Lemma site_with_shared_rng_schedule_dependent_refuted :
  exists (tasks : list Z) s0 sched1 sched2,
    Permutation sched1 sched2 /\ site_ok bad_site = false /\
    site_pool bad_site counter_next Z.add tasks s0 sched1 <>
    site_pool bad_site counter_next Z.add tasks s0 sched2.
Proof.
  exists [10; 20], 0, [0%nat; 1%nat], [1%nat; 0%nat]. repeat split.
  - apply perm_swap.
  - vm_compute. congruence.
Qed.

(* random_state=None: the fit reads (and advances) the world's global generator *)
Definition lcg_mk (seed : Z) : Z := seed.

Lemma unseeded_fit_depends_on_world_refuted :
  exists w1 w2 : world Z,
    fst (fit_intervals lcg_randint lcg_mk None 2 2 3 20 w1) <>
    fst (fit_intervals lcg_randint lcg_mk None 2 2 3 20 w2) /\
    snd (fit_intervals lcg_randint lcg_mk None 2 2 3 20 w1) <> w1.
Proof.
  exists (Build_world 5), (Build_world 6). vm_compute. split; congruence.
Qed.

(* a predict that keeps its generator on self: the estimator changes and a repeat differs *)
Lemma predict_with_kept_rng_not_repeatable_refuted :
  exists (e : est Z) ties,
    let r1 := predict_kept lcg_randint e ties in
    let r2 := predict_kept lcg_randint (fst r1) ties in
    fst r1 <> e /\ snd r2 <> snd r1.
Proof.
  exists (Build_est 3 3), [0; 1]. vm_compute. split; congruence.
Qed.
