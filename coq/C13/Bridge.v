(* C13 bridge: the definitions regenerated from the source on this run (Gen.v) are the model the
   theorems are about and the correspondence run evaluates - for all arguments.  Any change of the
   per-time-point phase expression (operand order, reference time point, modulus, an off-by-one),
   of which index the comprehension ranges over, of the operator per model, of what update() does
   to the stored training index, of the horizon Detrender forecasts at, or of fit_transform's body
   makes one of these lemmas fail (or the translator fail closed). *)
From Coq Require Import ZArith QArith List Bool.
Require Import SkV.C13.Model SkV.C13.Gen SkV.C13.Proofs.
Import ListNotations.
Open Scope Z_scope.

Lemma gen_get_duration_eq x y : gen_get_duration x y = get_duration x y.
Proof. reflexivity. Qed.

Lemma gen_align_eq d s :
  gen_align_seasonal (d_seasonal d) (sindex s) (d_t0 d) (d_sp d) = align_seasonal d s.
Proof. reflexivity. Qed.

Lemma gen_des_op_eq m : gen_des_op m = op_fwd m /\ gen_des_inv_op m = op_inv m.
Proof. destruct m; split; reflexivity. Qed.

Lemma gen_des_transform_eq d s : gen_des_transform d s = des_transform d s.
Proof. unfold gen_des_transform, des_transform. destruct (d_model d); reflexivity. Qed.

Lemma gen_des_inverse_eq d s : gen_des_inverse d s = des_inverse d s.
Proof. unfold gen_des_inverse, des_inverse. destruct (d_model d); reflexivity. Qed.

Lemma gen_des_update_eq d z : gen_des_update d z = des_update d z.
Proof. reflexivity. Qed.

Lemma gen_des_after_eq d zs : fold_left gen_des_update zs d = des_after des_update d zs.
Proof.
  unfold des_after. revert d. induction zs as [|z zs IH]; intro d; cbn [fold_left]; [reflexivity|].
  rewrite gen_des_update_eq. apply IH.
Qed.

Lemma gen_det_transform_eq trend s : gen_det_transform trend s = det_transform trend s.
Proof. reflexivity. Qed.

Lemma gen_det_inverse_eq trend s : gen_det_inverse trend s = det_inverse trend s.
Proof. reflexivity. Qed.

(* fit_transform(Z, X) = fit(Z, X).transform(Z), for every fit / transform pair *)
Lemma gen_fit_transform_eq (ST XV : Type) (fit : series -> option XV -> ST)
      (transform : ST -> series -> series) Z_ X :
  gen_fit_transform ST XV fit transform Z_ X = transform (fit Z_ X) Z_.
Proof. destruct X; reflexivity. Qed.

(* ---- the property's sentences about the regenerated code ---------------------------------------- *)
Lemma code_seasonal_phase_only_mod_sp decompose sp m y zs s i :
  let d := fold_left gen_des_update zs (des_fit decompose sp m y) in
  (i < length s)%nat ->
  nth i (gen_align_seasonal (d_seasonal d) (sindex s) (d_t0 d) (d_sp d)) 0%Q =
  zn (decompose m sp (svals y)) ((time_at s i - sstart y) mod sp).
Proof.
  intros d Hi. unfold d. rewrite gen_align_eq, gen_des_after_eq.
  apply seasonal_phase_only_mod_sp; assumption.
Qed.

(* the position looked up in seasonal_ is a valid one: 0 <= (t - t0) mod sp < sp = len(seasonal_) *)
Lemma code_phase_in_range decompose sp m y zs s i :
  let d := fold_left gen_des_update zs (des_fit decompose sp m y) in
  wf (des_fit decompose sp m y) -> (i < length s)%nat ->
  0 <= (time_at s i - sstart y) mod sp < Z.of_nat (length (decompose m sp (svals y))) /\
  In (nth i (gen_align_seasonal (d_seasonal d) (sindex s) (d_t0 d) (d_sp d)) 0%Q)
     (decompose m sp (svals y)).
Proof.
  intros d W Hi. pose proof W as [Hsp HL]. cbn [des_fit d_sp d_seasonal] in Hsp, HL.
  split; [rewrite HL; apply Z.mod_pos_bound; exact Hsp|].
  unfold d. rewrite code_seasonal_phase_only_mod_sp by exact Hi.
  apply zn_in. rewrite HL. apply Z.mod_pos_bound. exact Hsp.
Qed.

Lemma code_same_phase_same_component decompose sp m y zs zs' s s' i i' :
  let d := fold_left gen_des_update zs (des_fit decompose sp m y) in
  let d' := fold_left gen_des_update zs' (des_fit decompose sp m y) in
  (i < length s)%nat -> (i' < length s')%nat ->
  time_at s i mod sp = time_at s' i' mod sp ->
  nth i (gen_align_seasonal (d_seasonal d) (sindex s) (d_t0 d) (d_sp d)) 0%Q =
  nth i' (gen_align_seasonal (d_seasonal d') (sindex s') (d_t0 d') (d_sp d')) 0%Q.
Proof.
  intros d d' Hi Hi' E. unfold d, d'. rewrite !gen_align_eq, !gen_des_after_eq.
  apply same_phase_same_component; assumption.
Qed.

Lemma code_des_transform_nth d s i : (i < length s)%nat ->
  val_at (gen_des_transform d s) i =
  gen_des_op (d_model d) (val_at s i) (zn (d_seasonal d) ((time_at s i - d_t0 d) mod d_sp d)) /\
  val_at (gen_des_inverse d s) i =
  gen_des_inv_op (d_model d) (val_at s i) (zn (d_seasonal d) ((time_at s i - d_t0 d) mod d_sp d)).
Proof.
  intros Hi. rewrite gen_des_transform_eq, gen_des_inverse_eq.
  rewrite des_transform_nth, des_inverse_nth by assumption.
  destruct (gen_des_op_eq (d_model d)) as [-> ->]. split; reflexivity.
Qed.

Lemma code_des_roundtrip decompose sp m y zs s :
  let d := fold_left gen_des_update zs (des_fit decompose sp m y) in
  wf (des_fit decompose sp m y) ->
  (m = Additive \/ Forall (fun c => ~ c == 0)%Q (decompose m sp (svals y))) ->
  seq_eq (gen_des_inverse d (gen_des_transform d s)) s.
Proof.
  intros d W Hc. unfold d. rewrite gen_des_after_eq, gen_des_inverse_eq, !gen_des_transform_eq.
  exact (proj1 (des_roundtrip decompose sp m y zs s W Hc)).
Qed.

Lemma code_des_index_preserved d s :
  sindex (gen_des_transform d s) = sindex s /\ sindex (gen_des_inverse d s) = sindex s.
Proof. rewrite gen_des_transform_eq, gen_des_inverse_eq. apply des_index_preserved. Qed.

Lemma code_des_roundtrip_at d s i : (i < length s)%nat ->
  (d_model d = Additive \/
   ~ zn (d_seasonal d) ((time_at s i - d_t0 d) mod d_sp d) == 0)%Q ->
  (val_at (gen_des_inverse d (gen_des_transform d s)) i == val_at s i)%Q /\
  (val_at (gen_des_transform d (gen_des_inverse d s)) i == val_at s i)%Q.
Proof.
  intros Hi Hc. rewrite !gen_des_inverse_eq, !gen_des_transform_eq. split.
  - apply des_roundtrip_at; assumption.
  - apply des_roundtrip_at'; assumption.
Qed.

Lemma code_det_roundtrip trend s :
  seq_eq (gen_det_inverse trend (gen_det_transform trend s)) s /\
  seq_eq (gen_det_transform trend (gen_det_inverse trend s)) s /\
  sindex (gen_det_transform trend s) = sindex s /\ sindex (gen_det_inverse trend s) = sindex s.
Proof. exact (det_roundtrip trend s). Qed.

Lemma code_det_transform_nth trend s i : (i < length s)%nat ->
  val_at (gen_det_transform trend s) i = (val_at s i - trend (time_at s i))%Q /\
  val_at (gen_det_inverse trend s) i = (val_at s i + trend (time_at s i))%Q.
Proof.
  intro Hi. split; [exact (det_transform_nth trend s i Hi)|exact (det_inverse_nth trend s i Hi)].
Qed.

Lemma code_des_shift_equivariant decompose sp m y zs s k : y <> [] ->
  let d := fold_left gen_des_update zs (des_fit decompose sp m y) in
  let d' := fold_left gen_des_update (map (shift_series k) zs)
                      (des_fit decompose sp m (shift_series k y)) in
  gen_des_transform d' (shift_series k s) = shift_series k (gen_des_transform d s) /\
  gen_des_inverse d' (shift_series k s) = shift_series k (gen_des_inverse d s).
Proof.
  intro H. cbv zeta. rewrite !gen_des_after_eq, !gen_des_transform_eq, !gen_des_inverse_eq.
  apply des_shift_equivariant. exact H.
Qed.

Lemma code_det_shift_equivariant trend trend' s k :
  (forall t : Z, trend' (t + k)%Z == trend t)%Q ->
  seq_eq (gen_det_transform trend' (shift_series k s)) (shift_series k (gen_det_transform trend s)) /\
  seq_eq (gen_det_inverse trend' (shift_series k s)) (shift_series k (gen_det_inverse trend s)).
Proof. exact (det_shift_equivariant trend trend' s k). Qed.

(* the sentence "for the training series and for any later or overlapping stretch of time", spelled
   out: the training series itself, and a stretch starting at ANY offset off from the training
   start (off < 0 before, 0 <= off < len(y) overlapping, off >= len(y) later), after any updates *)
Lemma code_des_roundtrip_training_and_stretches decompose sp m y zs off vals :
  let d := fold_left gen_des_update zs (des_fit decompose sp m y) in
  let s := contiguous (sstart y + off) vals in
  wf (des_fit decompose sp m y) ->
  (m = Additive \/ Forall (fun c => ~ c == 0)%Q (decompose m sp (svals y))) ->
  seq_eq (gen_des_inverse d (gen_des_transform d y)) y /\
  seq_eq (gen_des_inverse d (gen_des_transform d s)) s.
Proof. intros d s W Hc. split; apply code_des_roundtrip; assumption. Qed.

(* ---- call histories over the regenerated transform / inverse_transform -------------------------- *)
(* Detrender over an ABSTRACT refitting trend forecaster: FS = forecaster state, ffit / fupdate
   arbitrary (fupdate may refit or not depending on the flag), fpredict s t = its forecast at the
   absolute time point t.  After any history, inverse(transform z) = z with the CURRENT trend. *)
Lemma code_det_roundtrip_after_any_history (FS : Type) (ffit : series -> FS)
      (fupdate : FS -> series -> bool -> FS) (fpredict : FS -> Z -> Q) h qs z zt :
  let tr := fun s => gen_det_transform (fpredict s) in
  let inv := fun s => gen_det_inverse (fpredict s) in
  forallb is_query qs = true ->
  answer FS ffit fupdate tr inv h (Transform z) = Some zt ->
  exists zi, answer FS ffit fupdate tr inv (h ++ Transform z :: qs) (Inverse zt) = Some zi /\
             seq_eq zi z.
Proof.
  intros tr inv. apply (roundtrip_after_any_history FS ffit fupdate tr inv (fun _ => True)); auto.
  intros s z0 _. exact (proj1 (code_det_roundtrip (fpredict s) z0)).
Qed.

(* Deseasonalizer / ConditionalDeseasonalizer: fit = des_fit (or cond_fit), update = the
   regenerated update (whatever the flag), given a decomposition oracle that always returns sp
   components, none of them zero in the multiplicative case *)
Lemma code_des_roundtrip_after_any_history decompose sp m h qs z zt :
  let upd := fun d z (_ : bool) => gen_des_update d z in
  0 < sp ->
  (forall y, Z.of_nat (length (decompose m sp (svals y))) = sp) ->
  (m = Additive \/ forall y, Forall (fun c => ~ c == 0)%Q (decompose m sp (svals y))) ->
  forallb is_query qs = true ->
  answer dstate (des_fit decompose sp m) upd gen_des_transform gen_des_inverse h (Transform z)
    = Some zt ->
  exists zi, answer dstate (des_fit decompose sp m) upd gen_des_transform gen_des_inverse
                    (h ++ Transform z :: qs) (Inverse zt) = Some zi /\ seq_eq zi z.
Proof.
  intros upd Hsp HL Hc.
  apply (roundtrip_after_any_history dstate (des_fit decompose sp m) upd gen_des_transform
           gen_des_inverse (fun d => exists y, d = des_fit decompose sp m y)).
  - intro y. exists y. reflexivity.
  - intros s z0 p Hs. exact Hs.
  - intros s z0 [y ->].
    apply (code_des_roundtrip decompose sp m y [] z0).
    + split; cbn [des_fit d_sp d_seasonal]; [exact Hsp|apply HL].
    + destruct Hc as [Hc|Hc]; [left; exact Hc|right; apply Hc].
Qed.

Lemma code_transform_restriction d trend keep s :
  gen_des_transform d (restrict keep s) = restrict keep (gen_des_transform d s) /\
  gen_des_inverse d (restrict keep s) = restrict keep (gen_des_inverse d s) /\
  gen_det_transform trend (restrict keep s) = restrict keep (gen_det_transform trend s) /\
  gen_det_inverse trend (restrict keep s) = restrict keep (gen_det_inverse trend s).
Proof.
  rewrite !gen_des_transform_eq, !gen_des_inverse_eq.
  split; [apply des_restrict|]. split; [apply des_restrict|]. apply det_restrict.
Qed.
