(* C13 bridge: the definitions regenerated from the source on this run (Gen.v) are the model the
   theorems are about and the correspondence run evaluates - for all arguments.  Any change of the
   shift expression, of np.roll's direction/amount, of the operator per model, of what update()
   does to the stored training index, of the horizon Detrender forecasts at, or of fit_transform's
   body makes one of these lemmas fail. *)
From Coq Require Import ZArith QArith List Bool.
Require Import SkV.C13.Model SkV.C13.Gen SkV.C13.Proofs.
Import ListNotations.
Open Scope Z_scope.

Lemma gen_get_duration_eq x y : gen_get_duration x y = get_duration x y.
Proof. reflexivity. Qed.

Lemma gen_align_eq d s :
  gen_align_seasonal (d_seasonal d) (sstart s) (d_t0 d) (d_sp d) (slen s) = align_seasonal d s.
Proof. reflexivity. Qed.

Lemma gen_des_op_eq m : gen_des_op m = op_fwd m /\ gen_des_inv_op m = op_inv m.
Proof. destruct m; split; reflexivity. Qed.

Lemma gen_des_transform_eq d s : gen_des_transform d s = des_transform d s.
Proof. unfold gen_des_transform, des_transform. destruct (d_model d); reflexivity. Qed.

Lemma gen_des_inverse_eq d s : gen_des_inverse d s = des_inverse d s.
Proof. unfold gen_des_inverse, des_inverse. destruct (d_model d); reflexivity. Qed.

Lemma gen_des_update_eq d z : gen_des_update d z = des_update d z.
Proof. reflexivity. Qed.

Lemma gen_des_after_eq d zs : fold_left gen_des_update zs d = des_after des_update d zs.
Proof.
  unfold des_after. revert d. induction zs as [|z zs IH]; intro d; cbn [fold_left]; [reflexivity|].
  rewrite gen_des_update_eq. apply IH.
Qed.

Lemma gen_det_transform_eq trend s : gen_det_transform trend s = det_transform trend s.
Proof. reflexivity. Qed.

Lemma gen_det_inverse_eq trend s : gen_det_inverse trend s = det_inverse trend s.
Proof. reflexivity. Qed.

(* fit_transform(Z, X) = fit(Z, X).transform(Z), for every fit / transform pair *)
Lemma gen_fit_transform_eq (ST XV : Type) (fit : series -> option XV -> ST)
      (transform : ST -> series -> series) Z_ X :
  gen_fit_transform ST XV fit transform Z_ X = transform (fit Z_ X) Z_.
Proof. destruct X; reflexivity. Qed.

(* ---- the property's sentences about the regenerated code ---------------------------------------- *)
Lemma code_seasonal_phase_only_mod_sp decompose sp m y zs s i :
  let d := fold_left gen_des_update zs (des_fit decompose sp m y) in
  wf (des_fit decompose sp m y) -> (i < length (svals s))%nat ->
  nth i (gen_align_seasonal (d_seasonal d) (sstart s) (d_t0 d) (d_sp d) (slen s)) 0%Q =
  zn (decompose m sp (svals y)) ((sstart s + Z.of_nat i - sstart y) mod sp).
Proof.
  intros d W Hi. unfold d. rewrite gen_align_eq, gen_des_after_eq.
  apply seasonal_phase_only_mod_sp; assumption.
Qed.

Lemma code_same_phase_same_component decompose sp m y zs zs' s s' i i' :
  let d := fold_left gen_des_update zs (des_fit decompose sp m y) in
  let d' := fold_left gen_des_update zs' (des_fit decompose sp m y) in
  wf (des_fit decompose sp m y) ->
  (i < length (svals s))%nat -> (i' < length (svals s'))%nat ->
  (sstart s + Z.of_nat i) mod sp = (sstart s' + Z.of_nat i') mod sp ->
  nth i (gen_align_seasonal (d_seasonal d) (sstart s) (d_t0 d) (d_sp d) (slen s)) 0%Q =
  nth i' (gen_align_seasonal (d_seasonal d') (sstart s') (d_t0 d') (d_sp d') (slen s')) 0%Q.
Proof.
  intros d d' W Hi Hi' E. unfold d, d'. rewrite !gen_align_eq, !gen_des_after_eq.
  apply same_phase_same_component; assumption.
Qed.

Lemma code_des_transform_nth d s i : wf d -> (i < length (svals s))%nat ->
  nth i (svals (gen_des_transform d s)) 0%Q =
  gen_des_op (d_model d) (nth i (svals s) 0%Q)
             (zn (d_seasonal d) ((sstart s + Z.of_nat i - d_t0 d) mod d_sp d)).
Proof.
  intros W Hi. rewrite gen_des_transform_eq. rewrite des_transform_nth by assumption.
  destruct (gen_des_op_eq (d_model d)) as [-> _]. reflexivity.
Qed.

Lemma code_des_roundtrip decompose sp m y zs s :
  let d := fold_left gen_des_update zs (des_fit decompose sp m y) in
  wf (des_fit decompose sp m y) ->
  (m = Additive \/ Forall (fun c => ~ c == 0)%Q (decompose m sp (svals y))) ->
  seq_eq (gen_des_inverse d (gen_des_transform d s)) s /\
  sindex (gen_des_transform d s) = sindex s /\ sindex (gen_des_inverse d s) = sindex s.
Proof.
  intros d W Hc. unfold d. rewrite gen_des_after_eq, gen_des_inverse_eq, !gen_des_transform_eq.
  destruct (des_roundtrip decompose sp m y zs s W Hc) as [H1 H2]. split; [exact H1|].
  split; [exact H2|]. rewrite gen_des_inverse_eq. apply des_index_preserved.
  rewrite des_after_update. exact W.
Qed.

Lemma code_des_roundtrip_at d s i : wf d -> (i < length (svals s))%nat ->
  (d_model d = Additive \/
   ~ zn (d_seasonal d) ((sstart s + Z.of_nat i - d_t0 d) mod d_sp d) == 0)%Q ->
  (nth i (svals (gen_des_inverse d (gen_des_transform d s))) 0 == nth i (svals s) 0)%Q /\
  (nth i (svals (gen_des_transform d (gen_des_inverse d s))) 0 == nth i (svals s) 0)%Q.
Proof.
  intros W Hi Hc. rewrite !gen_des_inverse_eq, !gen_des_transform_eq. split.
  - apply des_roundtrip_at; assumption.
  - apply des_roundtrip_at'; assumption.
Qed.

Lemma code_det_roundtrip trend s :
  seq_eq (gen_det_inverse trend (gen_det_transform trend s)) s /\
  seq_eq (gen_det_transform trend (gen_det_inverse trend s)) s /\
  sindex (gen_det_transform trend s) = sindex s /\ sindex (gen_det_inverse trend s) = sindex s.
Proof. exact (det_roundtrip trend s). Qed.

Lemma code_det_transform_nth trend s i : (i < length (svals s))%nat ->
  nth i (svals (gen_det_transform trend s)) 0%Q =
  (nth i (svals s) 0 - trend (sstart s + Z.of_nat i)%Z)%Q.
Proof. exact (det_transform_nth trend s i). Qed.

Lemma code_des_shift_equivariant decompose sp m y zs s k :
  let d := fold_left gen_des_update zs (des_fit decompose sp m y) in
  let d' := fold_left gen_des_update (map (shift_series k) zs)
                      (des_fit decompose sp m (shift_series k y)) in
  gen_des_transform d' (shift_series k s) = shift_series k (gen_des_transform d s) /\
  gen_des_inverse d' (shift_series k s) = shift_series k (gen_des_inverse d s).
Proof.
  cbv zeta. rewrite !gen_des_after_eq, !gen_des_transform_eq, !gen_des_inverse_eq.
  apply des_shift_equivariant.
Qed.

Lemma code_det_shift_equivariant trend trend' s k :
  (forall t : Z, trend' (t + k)%Z == trend t)%Q ->
  seq_eq (gen_det_transform trend' (shift_series k s)) (shift_series k (gen_det_transform trend s)) /\
  seq_eq (gen_det_inverse trend' (shift_series k s)) (shift_series k (gen_det_inverse trend s)).
Proof. exact (det_shift_equivariant trend trend' s k). Qed.
