(* C13 correspondence: cases carry the implementation's canonicalised outputs (index as a list of
   integers, floats as exact rationals, NaN/inf as None) together with the fitted quantities the
   model treats as oracles (seasonal_, trend coefficients, scaler statistics) read from the fitted
   object; `mism` lists the indices on which the model disagrees.  Values are compared in Q with
   relative tolerance 1e-9. *)
From Coq Require Import ZArith QArith Qabs List Bool.
Require Import SkV.C13.Model.
Import ListNotations.
Open Scope Z_scope.

Definition tol : Q := (1 # 1000000000)%Q.
Definition qclose (a b : Q) : bool :=
  Qle_bool (Qabs (a - b)) (tol * (1 + Qabs a))%Q.

Definition oq := option Q.
(* implementation series: (index, values) *)
Definition iseries := (list Z * list oq)%type.

Definition zlist_eqb (a b : list Z) : bool :=
  (length a =? length b)%nat && forallb (fun p => fst p =? snd p) (combine a b).
Definition vals_close (a : list Q) (b : list oq) : bool :=
  (length a =? length b)%nat &&
  forallb (fun p => match snd p with Some y => qclose (fst p) y | None => false end) (combine a b).
Definition oq_close (a b : oq) : bool :=
  match a, b with
  | None, None => true
  | Some x, Some y => qclose x y
  | _, _ => false
  end.
Definition ovals_close (a b : list oq) : bool :=
  (length a =? length b)%nat && forallb (fun p => oq_close (fst p) (snd p)) (combine a b).
(* model series vs implementation series: same index, close values *)
Definition ser_close (m : series) (o : iseries) : bool :=
  zlist_eqb (sindex m) (fst o) && vals_close (svals m) (snd o).

Fixpoint all_some (l : list oq) : option (list Q) :=
  match l with
  | [] => Some []
  | Some x :: r => match all_some r with Some r' => Some (x :: r') | None => None end
  | None :: _ => None
  end.
(* the implementation's (finite) output re-read as a model series, on whatever index it carries *)
Definition to_series (o : iseries) : option series :=
  match all_some (snd o) with
  | Some v => if (length v =? length (fst o))%nat then Some (combine (fst o) v) else None
  | None => None
  end.

(* transform of z must be zt, the model inverse applied to the implementation's zt must be zi,
   and zi must be z again, all on z's index *)
Definition agree (fwd inv : series -> series) (z : series) (zt zi : iseries) : bool :=
  ser_close (fwd z) zt &&
  match to_series zt with
  | Some s => ser_close (inv s) zi
  | None => false
  end &&
  ser_close z zi.

Definition qlist_close (a b : list Q) : bool :=
  (length a =? length b)%nat && forallb (fun p => qclose (fst p) (snd p)) (combine a b).

Inductive case :=
  (* d0: sp, model, first TRAINING time point (from the case), seasonal_ (from the fitted object);
     cond = Some b for the conditional variant with is_seasonal_ = b;
     ups: first time point of each update batch, in call order *)
  | CDes (d0 : dstate) (cond : option bool) (ups : list Z) (z : series) (zt zi : iseries)
  (* training series: full = the seasonal series returned by the decomposition call inside fit
     (recorded by a spy), seasonal = the fitted seasonal_, yt = fit_transform(y) *)
  | CTrain (sp : Z) (m : smodel) (full seasonal : list Q) (y : series) (yt : iseries)
  (* t0: first TRAINING time point; coef: the fitted polynomial's coefficients after all updates *)
  | CDet (t0 : Z) (coef : list Q) (z : series) (zt zi : iseries)
  | CStd (m s : Q) (z : series) (zt zi : iseries)
  | CMinMax (s mn : Q) (z : series) (zt zi : iseries)
  (* OptionalPassthrough(passthrough=True) *)
  | CPass (z : series) (zt zi : iseries)
  (* log / Box-Cox (exp, ln, pow are not computable in Q): same index and round trip only *)
  | COpaque (z : series) (zt zi : iseries)
  (* metamorphic pair of implementation outputs: o1 on the original index, o2 with every input
     index shifted by k; lagged = output indexed by lag (ACF/PACF), not by time *)
  | CShift (k : Z) (lagged : bool) (o1 o2 : iseries)
  (* a call history: one case per transform + inverse_transform probe (each with the quantities of
     the fitted object AT THAT POINT of the history), all of which must agree *)
  | CSeq (c1 c2 : case).

Fixpoint check (c : case) : bool :=
  match c with
  | CDes d0 cond ups z zt zi =>
      let d1 := match cond with
                | Some false =>
                    cond_fit (fun _ _ => false) (fun _ _ _ => []) (d_sp d0) (d_model d0)
                             [(d_t0 d0, 0%Q)]
                | _ => d0
                end in
      let d := des_after des_update d1 (map (fun u => [(u, 0%Q)]) ups) in
      qlist_close (d_seasonal d1) (d_seasonal d0) &&
      (Z.of_nat (length (d_seasonal d0)) =? d_sp d0) &&
      agree (des_transform d) (des_inverse d) z zt zi
  | CTrain sp m full seasonal y yt =>
      let d := {| d_sp := sp; d_model := m; d_t0 := sstart y; d_seasonal := seasonal |} in
      qlist_close (firstn (Z.to_nat sp) full) seasonal &&
      ser_close (des_transform d y) yt &&
      ser_close (series_arr_op (op_fwd m) y full) yt
  | CDet t0 coef z zt zi =>
      agree (det_transform (poly_trend coef t0)) (det_inverse (poly_trend coef t0)) z zt zi
  | CStd m s z zt zi => agree (pw_apply (std_fwd m s)) (pw_apply (std_inv m s)) z zt zi
  | CMinMax s mn z zt zi => agree (pw_apply (minmax_fwd s mn)) (pw_apply (minmax_inv s mn)) z zt zi
  | CPass z zt zi =>
      agree (opt_apply true (fun s => s)) (opt_apply true (fun s => s)) z zt zi
  | COpaque z zt zi =>
      zlist_eqb (sindex z) (fst zt) && ser_close z zi &&
      match all_some (snd zt) with Some _ => true | None => false end
  | CShift k lagged o1 o2 =>
      zlist_eqb (map (fun t => if lagged then t else t + k) (fst o1)) (fst o2) &&
      ovals_close (snd o1) (snd o2)
  | CSeq c1 c2 => check c1 && check c2
  end.

Fixpoint mism (cs : list (Z * case)) : list Z :=
  match cs with
  | [] => []
  | (i, c) :: t => if check c then mism t else i :: mism t
  end.
