(* C13 model: series transformers over integer time.
   A series is the list of its (time point, value) observations in index order; the index may
   start anywhere and may have gaps (e.g. the prediction index of a gapped forecasting horizon).
   Executable definitions only.  Fitted quantities that come out of numerical libraries (the
   seasonal vector of statsmodels' seasonal_decompose, the trend forecast, Box-Cox lambda, the
   scaler's statistics) are ORACLES: arguments of the model, read from the fitted object in the
   correspondence run and universally quantified in the theorems. *)
From Coq Require Import ZArith QArith List Bool.
Import ListNotations.
Open Scope Z_scope.

Definition series := list (Z * Q).
Definition sindex (s : series) : list Z := map fst s.
Definition svals (s : series) : list Q := map snd s.
(* y.index[0] (0 on the empty series, which fit rejects) *)
Definition sstart (s : series) : Z := hd 0 (sindex s).
Definition slen (s : series) : Z := Z.of_nat (length s).
Fixpoint times_from (t : Z) (n : nat) : list Z :=
  match n with O => [] | S k => t :: times_from (t + 1) k end.
(* a series on the contiguous index start, start+1, ... *)
Definition contiguous (start : Z) (vals : list Q) : series :=
  combine (times_from start (length vals)) vals.
(* the same observations with every time point moved by k *)
Definition shift_series (k : Z) (s : series) : series := map (fun p => (fst p + k, snd p)) s.

Definition zn (l : list Q) (i : Z) : Q := nth (Z.to_nat i) l 0%Q.

Fixpoint zip_with (f : Q -> Q -> Q) (a b : list Q) : list Q :=
  match a, b with
  | x :: a', y :: b' => f x y :: zip_with f a' b'
  | _, _ => []
  end.
(* pandas: Series (op) ndarray is positional and keeps the Series' index; Series (op) Series whose
   indices are identical likewise *)
Fixpoint series_arr_op (f : Q -> Q -> Q) (s : series) (arr : list Q) : series :=
  match s, arr with
  | (t, x) :: s', c :: arr' => (t, f x c) :: series_arr_op f s' arr'
  | _, _ => []
  end.
(* a transformer acting on each observation through its own time point *)
Definition tmap (F : Z -> Q -> Q) (s : series) : series :=
  map (fun p => (fst p, F (fst p) (snd p))) s.

(* ---- Deseasonalizer ------------------------------------------------------------------------- *)
Inductive smodel := Additive | Multiplicative.
(* fitted state: sp, model, first time point of the stored training index, seasonal_ *)
Record dstate := { d_sp : Z; d_model : smodel; d_t0 : Z; d_seasonal : list Q }.

(* _get_duration(x, y, coerce_to_int=True) on integer time points *)
Definition get_duration (x y : Z) : Z := x - y.
(* the position in seasonal_ that belongs to time t (Python % is the floor modulus = Z.modulo) *)
Definition phase (t0 sp t : Z) : Z := get_duration t t0 mod sp.
Definition comp_at (seasonal : list Q) (t0 sp t : Z) : Q := zn seasonal (phase t0 sp t).
(* _align_seasonal: phase = [_get_duration(t, self._y_index[0]) % self.sp for t in y.index];
   np.asarray(self.seasonal_)[phase] *)
Definition align_seasonal (d : dstate) (s : series) : list Q :=
  map (fun ph => zn (d_seasonal d) ph) (map (fun t => phase (d_t0 d) (d_sp d) t) (sindex s)).

Definition op_fwd (m : smodel) : Q -> Q -> Q :=
  match m with Additive => Qminus | Multiplicative => Qdiv end.
Definition op_inv (m : smodel) : Q -> Q -> Q :=
  match m with Additive => Qplus | Multiplicative => Qmult end.
Definition des_transform (d : dstate) (s : series) : series :=
  series_arr_op (op_fwd (d_model d)) s (align_seasonal d s).
Definition des_inverse (d : dstate) (s : series) : series :=
  series_arr_op (op_inv (d_model d)) s (align_seasonal d s).

(* fit: t0 := first training time point; seasonal_ := oracle on (model, sp, training values) *)
Definition des_fit (decompose : smodel -> Z -> list Q -> list Q) (sp : Z) (m : smodel)
           (y : series) : dstate :=
  {| d_sp := sp; d_model := m; d_t0 := sstart y; d_seasonal := decompose m sp (svals y) |}.
(* update: validates its argument, changes nothing *)
Definition des_update (d : dstate) (z : series) : dstate := d.
(* the pre-fix variant: re-bases the phase reference on the update batch *)
Definition des_update_rebased (d : dstate) (z : series) : dstate :=
  {| d_sp := d_sp d; d_model := d_model d; d_t0 := sstart z; d_seasonal := d_seasonal d |}.
Definition des_after (upd : dstate -> series -> dstate) (d : dstate) (zs : list series) : dstate :=
  fold_left upd zs d.

(* the previous implementation of _align_seasonal: roll the seasonal vector to the phase of the
   FIRST time point and tile it over the length of the data *)
Definition np_roll {A} (l : list A) (k : Z) : list A :=
  let n := Z.of_nat (length l) in
  if n =? 0 then l
  else let r := Z.to_nat (k mod n) in
       skipn (length l - r) l ++ firstn (length l - r) l.
Fixpoint cycle_fill {A} (l cur : list A) (n : nat) : list A :=
  match n with
  | O => []
  | S m => match cur with
           | x :: r => x :: cycle_fill l r m
           | [] => match l with
                   | [] => []
                   | x :: r => x :: cycle_fill l r m
                   end
           end
  end.
Definition np_resize {A} (l : list A) (n : Z) : list A := cycle_fill l l (Z.to_nat n).
Definition align_roll_tile (d : dstate) (s : series) : list Q :=
  np_resize (np_roll (d_seasonal d) ((- get_duration (sstart s) (d_t0 d)) mod d_sp d)) (slen s).

(* ConditionalDeseasonalizer: the seasonality test is an oracle on (sp, training values) *)
Definition neutral (m : smodel) : Q := match m with Additive => 0%Q | Multiplicative => 1%Q end.
Definition cond_fit (test : Z -> list Q -> bool) (decompose : smodel -> Z -> list Q -> list Q)
           (sp : Z) (m : smodel) (y : series) : dstate :=
  if test sp (svals y) then des_fit decompose sp m y
  else {| d_sp := sp; d_model := m; d_t0 := sstart y;
          d_seasonal := repeat (neutral m) (Z.to_nat sp) |}.

(* ---- Detrender ------------------------------------------------------------------------------ *)
(* trend t = what forecaster_.predict returns for the absolute time point t (oracle);
   fh = ForecastingHorizon(z.index, is_relative=False); z_pred = predict(fh); z - z_pred *)
Definition predict_at (trend : Z -> Q) (idx : list Z) : list Q := map trend idx.
Definition det_transform (trend : Z -> Q) (s : series) : series :=
  series_arr_op Qminus s (predict_at trend (sindex s)).
Definition det_inverse (trend : Z -> Q) (s : series) : series :=
  series_arr_op Qplus s (predict_at trend (sindex s)).
(* PolynomialTrendForecaster: coefficients (oracle, least squares) applied to t - first training
   time point *)
Fixpoint poly_eval (coef : list Q) (x : Q) : Q :=
  match coef with [] => 0 | c :: r => c + x * poly_eval r x end%Q.
Definition poly_trend (coef : list Q) (t0 : Z) (t : Z) : Q := poly_eval coef (inject_Z (t - t0)).

(* ---- time-independent pointwise transformers ------------------------------------------------ *)
Definition pw_apply (f : Q -> Q) (s : series) : series := tmap (fun _ => f) s.
(* sklearn scalers on one column, as TabularToSeriesAdaptor applies them *)
Definition std_fwd (m s x : Q) : Q := ((x - m) / s)%Q.
Definition std_inv (m s y : Q) : Q := (y * s + m)%Q.
Definition minmax_fwd (s mn x : Q) : Q := (x * s + mn)%Q.
Definition minmax_inv (s mn y : Q) : Q := ((y - mn) / s)%Q.
Definition affine (a b x : Q) : Q := (a * x + b)%Q.
Definition affine_inv (a b y : Q) : Q := ((y - b) / a)%Q.
(* Box-Cox over abstract ln / exp / pow *)
Definition boxcox (ln : Q -> Q) (pow : Q -> Q -> Q) (lam x : Q) : Q :=
  if Qeq_bool lam 0 then ln x else ((pow x lam - 1) / lam)%Q.
Definition inv_boxcox (exp : Q -> Q) (pow : Q -> Q -> Q) (lam y : Q) : Q :=
  if Qeq_bool lam 0 then exp y else pow (lam * y + 1)%Q (1 / lam)%Q.

(* OptionalPassthrough *)
Definition opt_apply (passthrough : bool) (f : series -> series) (s : series) : series :=
  if passthrough then s else f s.

(* transformers whose output values are a function of the input VALUES only (HampelFilter,
   Imputer, CosineTransformer keep the index; ACF, PACF return a lag-indexed series) *)
Definition positional_same_index (g : list Q -> list Q) (s : series) : series :=
  combine (sindex s) (g (svals s)).
Definition positional_lag_index (g : list Q -> list Q) (s : series) : series :=
  contiguous 0 (g (svals s)).
(* window selection by position (Z.iloc[w]) and by label (Z[w], the pre-fix HampelFilter) *)
Definition take_pos (s : series) (w : list Z) : list (option Q) :=
  map (fun p => if 0 <=? p then nth_error (svals s) (Z.to_nat p) else None) w.
Fixpoint lookup (s : series) (t : Z) : option Q :=
  match s with
  | [] => None
  | (u, x) :: r => if u =? t then Some x else lookup r t
  end.
Definition take_label (s : series) (w : list Z) : list (option Q) := map (lookup s) w.

(* ---- call histories --------------------------------------------------------------------------- *)
(* transform of a sub-stretch: the observations of s whose time point is kept *)
Definition restrict (keep : Z -> bool) (s : series) : series := filter (fun p => keep (fst p)) s.

(* The calls made on one estimator object, in order.  The fitted state is determined by the Fit /
   Update calls alone: Transform / Inverse are QUERIES - they return a function of (current state,
   passed series) and leave the state as it is.  update_params is the flag passed to update(). *)
Inductive op :=
  | Fit (y : series)
  | Update (z : series) (params : bool)
  | Transform (z : series)
  | Inverse (z : series).
Definition is_query (o : op) : bool :=
  match o with Transform _ | Inverse _ => true | _ => false end.
(* the history without its transform / inverse_transform calls *)
Definition strip (h : list op) : list op := filter (fun o => negb (is_query o)) h.

Section History.
  Variable ST : Type.
  Variable fit : series -> ST.
  Variable update : ST -> series -> bool -> ST.
  Variable transform inverse : ST -> series -> series.
  (* None = not fitted yet *)
  Definition step (st : option ST) (o : op) : option ST :=
    match o with
    | Fit y => Some (fit y)
    | Update z p => match st with Some s => Some (update s z p) | None => None end
    | Transform _ | Inverse _ => st
    end.
  Definition run (h : list op) : option ST := fold_left step h None.
  (* what the call q returns when it is made after the calls h *)
  Definition answer (h : list op) (q : op) : option series :=
    match run h, q with
    | Some s, Transform z => Some (transform s z)
    | Some s, Inverse z => Some (inverse s z)
    | _, _ => None
    end.
End History.

(* WITNESS of the class of defect this excludes (never in /repo; seeded regression C13-c): a
   Detrender whose transform remembers the in-sample trend of the training index the first time it
   is asked for it, whose update never clears it, and whose inverse asks the current trend *)
Record mstate := { m_trend : Z -> Q; m_train : list Z; m_cache : option (list Q) }.
Definition memo_transform (st : mstate) (z : series) : series * mstate :=
  if list_eq_dec Z.eq_dec (sindex z) (m_train st) then
    match m_cache st with
    | Some c => (series_arr_op Qminus z c, st)
    | None => let c := predict_at (m_trend st) (sindex z) in
              (series_arr_op Qminus z c,
               {| m_trend := m_trend st; m_train := m_train st; m_cache := Some c |})
    end
  else (series_arr_op Qminus z (predict_at (m_trend st) (sindex z)), st).
Definition memo_inverse (st : mstate) (z : series) : series := det_inverse (m_trend st) z.
(* a refit: the trend function changes, the remembered in-sample trend stays *)
Definition memo_update (st : mstate) (refitted : Z -> Q) : mstate :=
  {| m_trend := refitted; m_train := m_train st; m_cache := m_cache st |}.
