(* C13 model: series transformers over integer time.
   A series is a start time plus its values; the observation at position i has time start + i
   (contiguous integer index, the domain the property's shift clause talks about).
   Executable definitions only.  Fitted quantities that come out of numerical libraries (the
   seasonal vector of statsmodels' seasonal_decompose, the trend forecast, Box-Cox lambda, the
   scaler's statistics) are ORACLES: arguments of the model, read from the fitted object in the
   correspondence run and universally quantified in the theorems. *)
From Coq Require Import ZArith QArith List Bool.
Import ListNotations.
Open Scope Z_scope.

Definition series := (Z * list Q)%type.
Definition sstart (s : series) : Z := fst s.
Definition svals (s : series) : list Q := snd s.
Definition slen (s : series) : Z := Z.of_nat (length (snd s)).
Fixpoint times_from (t : Z) (n : nat) : list Z :=
  match n with O => [] | S k => t :: times_from (t + 1) k end.
(* the time index of a series *)
Definition sindex (s : series) : list Z := times_from (fst s) (length (snd s)).
(* the same observations with every time point moved by k *)
Definition shift_series (k : Z) (s : series) : series := (fst s + k, snd s).
(* z.iloc[a : a+n] *)
Definition stretch (s : series) (a : nat) (n : nat) : series :=
  (fst s + Z.of_nat a, firstn n (skipn a (snd s))).

Definition zn (l : list Q) (i : Z) : Q := nth (Z.to_nat i) l 0%Q.

(* ---- numpy primitives used by _align_seasonal ------------------------------------------------ *)
(* np.roll(l, k): elements that roll beyond the last position re-enter at the first *)
Definition np_roll {A} (l : list A) (k : Z) : list A :=
  let n := Z.of_nat (length l) in
  if n =? 0 then l
  else let r := Z.to_nat (k mod n) in
       skipn (length l - r) l ++ firstn (length l - r) l.
(* np.resize(l, n): n elements, filled with repeated copies of l *)
Fixpoint cycle_fill {A} (l cur : list A) (n : nat) : list A :=
  match n with
  | O => []
  | S m => match cur with
           | x :: r => x :: cycle_fill l r m
           | [] => match l with
                   | [] => []
                   | x :: r => x :: cycle_fill l r m
                   end
           end
  end.
Definition np_resize {A} (l : list A) (n : Z) : list A := cycle_fill l l (Z.to_nat n).

Fixpoint zip_with (f : Q -> Q -> Q) (a b : list Q) : list Q :=
  match a, b with
  | x :: a', y :: b' => f x y :: zip_with f a' b'
  | _, _ => []
  end.
(* pandas: Series (op) ndarray is positional and keeps the Series' index *)
Definition series_arr_op (f : Q -> Q -> Q) (s : series) (arr : list Q) : series :=
  (sstart s, zip_with f (svals s) arr).

(* ---- Deseasonalizer ------------------------------------------------------------------------- *)
Inductive smodel := Additive | Multiplicative.
(* fitted state: sp, model, first time point of the stored training index, seasonal_ *)
Record dstate := { d_sp : Z; d_model : smodel; d_t0 : Z; d_seasonal : list Q }.

(* _get_duration(x, y, coerce_to_int=True) on integer time points *)
Definition get_duration (x y : Z) : Z := x - y.
(* shift = -_get_duration(y.index[0], self._y_index[0], ...) % self.sp
   (Python: unary minus binds tighter than %, and % is the floor modulus = Z.modulo) *)
Definition align_shift (y_first t0 sp : Z) : Z := (- get_duration y_first t0) mod sp.
Definition align_seasonal (d : dstate) (s : series) : list Q :=
  np_resize (np_roll (d_seasonal d) (align_shift (sstart s) (d_t0 d) (d_sp d))) (slen s).

Definition op_fwd (m : smodel) : Q -> Q -> Q :=
  match m with Additive => Qminus | Multiplicative => Qdiv end.
Definition op_inv (m : smodel) : Q -> Q -> Q :=
  match m with Additive => Qplus | Multiplicative => Qmult end.
Definition des_transform (d : dstate) (s : series) : series :=
  series_arr_op (op_fwd (d_model d)) s (align_seasonal d s).
Definition des_inverse (d : dstate) (s : series) : series :=
  series_arr_op (op_inv (d_model d)) s (align_seasonal d s).

(* fit: t0 := first training time point; seasonal_ := oracle on (model, sp, training values) *)
Definition des_fit (decompose : smodel -> Z -> list Q -> list Q) (sp : Z) (m : smodel)
           (y : series) : dstate :=
  {| d_sp := sp; d_model := m; d_t0 := sstart y; d_seasonal := decompose m sp (svals y) |}.
(* update: validates its argument, changes nothing *)
Definition des_update (d : dstate) (z : series) : dstate := d.
(* the pre-fix variant: re-bases the phase reference on the update batch *)
Definition des_update_rebased (d : dstate) (z : series) : dstate :=
  {| d_sp := d_sp d; d_model := d_model d; d_t0 := sstart z; d_seasonal := d_seasonal d |}.
Definition des_after (upd : dstate -> series -> dstate) (d : dstate) (zs : list series) : dstate :=
  fold_left upd zs d.

(* the seasonal component that belongs to time t *)
Definition phase (t0 sp t : Z) : Z := (t - t0) mod sp.
Definition comp_at (seasonal : list Q) (t0 sp t : Z) : Q := zn seasonal (phase t0 sp t).

(* ConditionalDeseasonalizer: the seasonality test is an oracle on (sp, training values) *)
Definition neutral (m : smodel) : Q := match m with Additive => 0%Q | Multiplicative => 1%Q end.
Definition cond_fit (test : Z -> list Q -> bool) (decompose : smodel -> Z -> list Q -> list Q)
           (sp : Z) (m : smodel) (y : series) : dstate :=
  if test sp (svals y) then des_fit decompose sp m y
  else {| d_sp := sp; d_model := m; d_t0 := sstart y;
          d_seasonal := repeat (neutral m) (Z.to_nat sp) |}.

(* ---- Detrender ------------------------------------------------------------------------------ *)
(* trend t = what forecaster_.predict returns for the absolute time point t (oracle);
   fh = ForecastingHorizon(z.index, is_relative=False); z_pred = predict(fh); z - z_pred *)
Definition predict_at (trend : Z -> Q) (idx : list Z) : list Q := map trend idx.
Definition det_transform (trend : Z -> Q) (s : series) : series :=
  series_arr_op Qminus s (predict_at trend (sindex s)).
Definition det_inverse (trend : Z -> Q) (s : series) : series :=
  series_arr_op Qplus s (predict_at trend (sindex s)).
(* PolynomialTrendForecaster: coefficients (oracle, least squares) applied to t - first training
   time point *)
Fixpoint poly_eval (coef : list Q) (x : Q) : Q :=
  match coef with [] => 0 | c :: r => c + x * poly_eval r x end%Q.
Definition poly_trend (coef : list Q) (t0 : Z) (t : Z) : Q := poly_eval coef (inject_Z (t - t0)).

(* ---- time-independent pointwise transformers ------------------------------------------------ *)
Definition pw_apply (f : Q -> Q) (s : series) : series := (sstart s, map f (svals s)).
(* sklearn scalers on one column, as TabularToSeriesAdaptor applies them *)
Definition std_fwd (m s x : Q) : Q := ((x - m) / s)%Q.
Definition std_inv (m s y : Q) : Q := (y * s + m)%Q.
Definition minmax_fwd (s mn x : Q) : Q := (x * s + mn)%Q.
Definition minmax_inv (s mn y : Q) : Q := ((y - mn) / s)%Q.
Definition affine (a b x : Q) : Q := (a * x + b)%Q.
Definition affine_inv (a b y : Q) : Q := ((y - b) / a)%Q.

(* OptionalPassthrough *)
Definition opt_apply (passthrough : bool) (f : series -> series) (s : series) : series :=
  if passthrough then s else f s.

(* transformers whose output values are a function of the input VALUES only (HampelFilter,
   Imputer, ACF, PACF: positional access to the observations) *)
Definition positional_same_index (g : list Q -> list Q) (s : series) : series :=
  (sstart s, g (svals s)).
Definition positional_lag_index (g : list Q -> list Q) (s : series) : series := (0, g (svals s)).
(* window selection by position (Z.iloc[w]) and by label (Z[w], the pre-fix HampelFilter) *)
Definition take_pos (s : series) (w : list Z) : list (option Q) :=
  map (fun p => if (0 <=? p) && (p <? slen s) then Some (zn (svals s) p) else None) w.
Definition take_label (s : series) (w : list Z) : list (option Q) :=
  map (fun p => let i := p - sstart s in
                if (0 <=? i) && (i <? slen s) then Some (zn (svals s) i) else None) w.
