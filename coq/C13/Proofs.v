(* C13 proofs.  Everything is for all series, all periods, all start offsets, all update
   histories; the numerical oracles (seasonal vector, trend function, exp/ln/pow, scaler
   statistics) are universally quantified. *)
From Coq Require Import ZArith QArith List Bool Lia Lqa.
Require Import SkV.C13.Model.
Import ListNotations.
Open Scope Z_scope.

(* ---- list facts -------------------------------------------------------------------------------- *)
Lemma nth_skipn_c13 : forall A (l : list A) k i d, nth i (skipn k l) d = nth (k + i) l d.
Proof.
  intros A l k. revert l. induction k as [|k IH]; intros l i d; [reflexivity|].
  destruct l as [|a l]; cbn [skipn Nat.add].
  - destruct i; reflexivity.
  - cbn [nth]. apply IH.
Qed.

Lemma nth_firstn_c13 : forall A (l : list A) k i d,
  (i < k)%nat -> nth i (firstn k l) d = nth i l d.
Proof.
  intros A l. induction l as [|a l IH]; intros k i d H.
  - rewrite firstn_nil. reflexivity.
  - destruct k as [|k]; [lia|]. cbn [firstn]. destruct i as [|i]; [reflexivity|].
    cbn [nth]. apply IH. lia.
Qed.

Lemma nth_repeat_lt : forall A (a d : A) n i, (i < n)%nat -> nth i (repeat a n) d = a.
Proof.
  intros A a d n. induction n as [|n IH]; intros i H; [lia|].
  cbn [repeat]. destruct i as [|i]; [reflexivity|]. cbn [nth]. apply IH. lia.
Qed.

Lemma times_from_length t n : length (times_from t n) = n.
Proof. revert t. induction n as [|n IH]; intro t; cbn [times_from length]; [|rewrite IH]; reflexivity. Qed.

Lemma times_from_nth : forall n t i d, (i < n)%nat -> nth i (times_from t n) d = t + Z.of_nat i.
Proof.
  induction n as [|n IH]; intros t i d H; [lia|].
  cbn [times_from]. destruct i as [|i]; cbn [nth]; [lia|].
  rewrite IH by lia. lia.
Qed.

Lemma times_from_shift : forall n t k, times_from (t + k) n = map (fun x => x + k) (times_from t n).
Proof.
  induction n as [|n IH]; intros t k; [reflexivity|].
  cbn [times_from map]. f_equal. replace (t + k + 1) with (t + 1 + k) by lia. apply IH.
Qed.

Lemma zip_with_length : forall f a b, length b = length a -> length (zip_with f a b) = length a.
Proof.
  intros f a. induction a as [|x a IH]; intros [|y b] H; cbn in *; try lia.
  rewrite IH; lia.
Qed.

Lemma zip_with_nth : forall f a b i,
  (i < length a)%nat -> (i < length b)%nat ->
  nth i (zip_with f a b) 0%Q = f (nth i a 0%Q) (nth i b 0%Q).
Proof.
  intros f a. induction a as [|x a IH]; intros [|y b] i Ha Hb; cbn in *; try lia.
  destruct i as [|i]; [reflexivity|]. apply IH; lia.
Qed.

Lemma Forall2_Qeq_nth : forall a b : list Q, length a = length b ->
  (forall i, (i < length a)%nat -> nth i a 0%Q == nth i b 0%Q) -> Forall2 Qeq a b.
Proof.
  induction a as [|x a IH]; intros [|y b] HL H; cbn in HL; try lia; constructor.
  - apply (H 0%nat). cbn. lia.
  - apply IH; [lia|]. intros i Hi. apply (H (S i)). cbn. lia.
Qed.

Lemma Forall2_Qeq_length : forall a b : list Q, Forall2 Qeq a b -> length a = length b.
Proof. intros a b H. induction H; cbn; [reflexivity|f_equal; assumption]. Qed.

Lemma Forall2_Qeq_refl : forall a : list Q, Forall2 Qeq a a.
Proof. induction a; constructor; [reflexivity|assumption]. Qed.

(* ---- np.roll / np.resize ----------------------------------------------------------------------- *)
Lemma np_roll_length A (l : list A) k : length (np_roll l k) = length l.
Proof.
  unfold np_roll. destruct (Z.of_nat (length l) =? 0) eqn:E; [reflexivity|].
  rewrite app_length, skipn_length, firstn_length. lia.
Qed.

(* position i of the rolled array holds the element that was r places earlier (cyclically) *)
Lemma np_roll_nth A (l : list A) k i d :
  (i < length l)%nat ->
  nth i (np_roll l k) d =
  nth (Z.to_nat ((Z.of_nat i - k) mod Z.of_nat (length l))) l d.
Proof.
  intro Hi. unfold np_roll.
  set (n := Z.of_nat (length l)).
  assert (Hn : 0 < n) by (unfold n; lia).
  destruct (n =? 0) eqn:E; [lia|].
  pose proof (Z.mod_pos_bound k n Hn) as Hr.
  set (r := Z.to_nat (k mod n)).
  assert (Hrn : (r <= length l)%nat) by (unfold r, n in *; lia).
  assert (Hmod : (Z.of_nat i - k) mod n = (Z.of_nat i - k mod n) mod n).
  { rewrite Zminus_mod_idemp_r. reflexivity. }
  rewrite Hmod.
  destruct (Nat.ltb_spec i r) as [Hlt|Hge].
  - rewrite app_nth1 by (rewrite skipn_length; lia).
    rewrite nth_skipn_c13. f_equal.
    replace ((Z.of_nat i - k mod n) mod n) with (Z.of_nat i - k mod n + n).
    + unfold r, n in *. lia.
    + apply Z.mod_unique with (q := -1); [left|]; unfold r, n in *; lia.
  - rewrite app_nth2 by (rewrite skipn_length; lia).
    rewrite skipn_length.
    rewrite nth_firstn_c13 by lia. f_equal.
    rewrite Z.mod_small by (unfold r, n in *; lia).
    unfold r, n in *. lia.
Qed.

Lemma cycle_fill_length A (l : list A) : l <> [] ->
  forall n cur, length (cycle_fill l cur n) = n.
Proof.
  intros Hl. induction n as [|n IH]; intro cur; [reflexivity|].
  cbn [cycle_fill]. destruct cur as [|x r].
  - destruct l as [|x r]; [congruence|]. cbn [length]. rewrite IH. reflexivity.
  - cbn [length]. rewrite IH. reflexivity.
Qed.

Lemma cycle_fill_nth A (l : list A) d : l <> [] ->
  forall n cur i, (i < n)%nat ->
  nth i (cycle_fill l cur n) d =
  if (i <? length cur)%nat then nth i cur d
  else nth ((i - length cur) mod length l)%nat l d.
Proof.
  intros Hl. induction n as [|n IH]; intros cur i Hi; [lia|].
  cbn [cycle_fill]. destruct cur as [|x r].
  - destruct l as [|x r] eqn:El; [congruence|]. rewrite <- El in *.
    assert (HL : length l = S (length r)) by (rewrite El; reflexivity).
    cbn [length]. destruct i as [|i].
    + cbn [nth Nat.ltb Nat.leb Nat.sub]. rewrite Nat.mod_small by lia. rewrite El. reflexivity.
    + cbn [nth]. rewrite IH by lia.
      replace (S i <? 0)%nat with false by reflexivity.
      rewrite Nat.sub_0_r.
      destruct (Nat.ltb_spec i (length r)) as [Hlt|Hge].
      * rewrite Nat.mod_small by lia. rewrite El. reflexivity.
      * replace (S i) with ((i - length r) + 1 * length l)%nat by lia.
        rewrite Nat.mod_add by lia. reflexivity.
  - cbn [length]. destruct i as [|i]; [reflexivity|].
    cbn [nth]. rewrite IH by lia.
    replace (S i <? S (length r))%nat with (i <? length r)%nat by reflexivity.
    reflexivity.
Qed.

Lemma np_resize_length A (l : list A) n : l <> [] -> 0 <= n ->
  Z.of_nat (length (np_resize l n)) = n.
Proof. intros Hl Hn. unfold np_resize. rewrite cycle_fill_length by assumption. lia. Qed.

Lemma np_resize_nth A (l : list A) n i d : l <> [] -> (i < Z.to_nat n)%nat ->
  nth i (np_resize l n) d = nth (i mod length l)%nat l d.
Proof.
  intros Hl Hi. unfold np_resize. rewrite cycle_fill_nth by assumption.
  assert (0 < length l)%nat by (destruct l; [congruence|cbn; lia]).
  destruct (Nat.ltb_spec i (length l)) as [Hlt|Hge].
  - rewrite Nat.mod_small by lia. reflexivity.
  - replace i with ((i - length l) + 1 * length l)%nat at 2 by lia.
    rewrite Nat.mod_add by lia. reflexivity.
Qed.

Lemma nth_map_lt A B (f : A -> B) (l : list A) : forall i da db,
  (i < length l)%nat -> nth i (map f l) db = f (nth i l da).
Proof.
  induction l as [|a l IH]; intros [|i] da db H; cbn in *; try lia; [reflexivity|].
  apply IH. lia.
Qed.

Lemma map_fst_combine_c13 A B : forall (a : list A) (b : list B),
  length a = length b -> map fst (combine a b) = a.
Proof.
  induction a as [|x a IH]; intros [|y b] H; cbn in *; try lia; [reflexivity|].
  f_equal. apply IH. lia.
Qed.

Lemma map_snd_combine_c13 A B : forall (a : list A) (b : list B),
  length a = length b -> map snd (combine a b) = b.
Proof.
  induction a as [|x a IH]; intros [|y b] H; cbn in *; try lia; [reflexivity|].
  f_equal. apply IH. lia.
Qed.

(* ---- series vocabulary ------------------------------------------------------------------------- *)
(* the time point of observation i *)
Definition time_at (s : series) (i : nat) : Z := nth i (sindex s) 0.
(* the value of observation i *)
Definition val_at (s : series) (i : nat) : Q := nth i (svals s) 0%Q.

Lemma sindex_length (s : series) : length (sindex s) = length s.
Proof. apply map_length. Qed.
Lemma svals_length (s : series) : length (svals s) = length s.
Proof. apply map_length. Qed.

Lemma contiguous_length start vals : length (contiguous start vals) = length vals.
Proof. unfold contiguous. rewrite combine_length, times_from_length. lia. Qed.
Lemma contiguous_index start vals : sindex (contiguous start vals) = times_from start (length vals).
Proof. apply map_fst_combine_c13. apply times_from_length. Qed.
Lemma contiguous_vals start vals : svals (contiguous start vals) = vals.
Proof. apply map_snd_combine_c13. apply times_from_length. Qed.
Lemma contiguous_time_at start vals i : (i < length vals)%nat ->
  time_at (contiguous start vals) i = start + Z.of_nat i.
Proof. intro H. unfold time_at. rewrite contiguous_index. apply times_from_nth. exact H. Qed.
Lemma contiguous_start start vals : vals <> [] -> sstart (contiguous start vals) = start.
Proof.
  intro H. unfold sstart. rewrite contiguous_index. destruct vals; [congruence|reflexivity].
Qed.

Lemma shift_index k s : sindex (shift_series k s) = map (fun t => t + k) (sindex s).
Proof. unfold sindex, shift_series. rewrite !map_map. reflexivity. Qed.
Lemma shift_vals k s : svals (shift_series k s) = svals s.
Proof. unfold svals, shift_series. rewrite map_map. reflexivity. Qed.
Lemma shift_length k s : length (shift_series k s) = length s.
Proof. apply map_length. Qed.
Lemma shift_start k s : s <> [] -> sstart (shift_series k s) = sstart s + k.
Proof. intro H. destruct s as [|[t x] s]; [congruence|reflexivity]. Qed.
Lemma shift_time_at k s i : (i < length s)%nat ->
  time_at (shift_series k s) i = time_at s i + k.
Proof.
  intro H. unfold time_at. rewrite shift_index.
  apply (nth_map_lt _ _ (fun t => t + k)). rewrite sindex_length. exact H.
Qed.

(* two series are the same observations: identical index, values equal as rationals *)
Definition seq_eq (a b : series) : Prop :=
  sindex a = sindex b /\ Forall2 Qeq (svals a) (svals b).

Lemma seq_eq_index a b : seq_eq a b -> sindex a = sindex b.
Proof. intros [H _]. exact H. Qed.

(* ---- Deseasonalizer: alignment ----------------------------------------------------------------- *)
Definition wf (d : dstate) : Prop :=
  0 < d_sp d /\ Z.of_nat (length (d_seasonal d)) = d_sp d.

Lemma wf_nonempty d : wf d -> d_seasonal d <> [].
Proof. intros [H1 H2] E. rewrite E in H2. cbn in H2. lia. Qed.

Lemma align_length d s : length (align_seasonal d s) = length s.
Proof. unfold align_seasonal. rewrite !map_length. apply sindex_length. Qed.

(* the array handed to _transform holds, at position i, the component of the time point of
   observation i - whether or not the index is contiguous *)
Lemma align_nth d s i : (i < length s)%nat ->
  nth i (align_seasonal d s) 0%Q = comp_at (d_seasonal d) (d_t0 d) (d_sp d) (time_at s i).
Proof.
  intro Hi. unfold align_seasonal, comp_at, time_at.
  rewrite (nth_map_lt _ _ _ _ i 0) by (rewrite map_length, sindex_length; exact Hi).
  rewrite (nth_map_lt _ _ _ _ i 0) by (rewrite sindex_length; exact Hi).
  reflexivity.
Qed.

Lemma des_after_update d zs : des_after des_update d zs = d.
Proof. unfold des_after. induction zs as [|z zs IH]; cbn [fold_left]; [reflexivity|exact IH]. Qed.

Lemma phase_range t0 sp t : 0 < sp -> 0 <= phase t0 sp t < sp.
Proof. intro H. unfold phase. apply Z.mod_pos_bound. exact H. Qed.

(* seasonal_phase_only_mod_sp: s is ANY series - any start, contiguous or gapped *)
Lemma seasonal_phase_only_mod_sp decompose sp m y zs s i :
  (i < length s)%nat ->
  nth i (align_seasonal (des_after des_update (des_fit decompose sp m y) zs) s) 0%Q =
  zn (decompose m sp (svals y)) ((time_at s i - sstart y) mod sp).
Proof. intro Hi. rewrite des_after_update. rewrite align_nth by assumption. reflexivity. Qed.

(* two time points in the same position modulo sp get the same component, whatever stretches they
   are part of and whatever update histories precede the two calls *)
Lemma same_phase_same_component decompose sp m y zs zs' s s' i i' :
  (i < length s)%nat -> (i' < length s')%nat ->
  time_at s i mod sp = time_at s' i' mod sp ->
  nth i (align_seasonal (des_after des_update (des_fit decompose sp m y) zs) s) 0%Q =
  nth i' (align_seasonal (des_after des_update (des_fit decompose sp m y) zs') s') 0%Q.
Proof.
  intros Hi Hi' E. rewrite !seasonal_phase_only_mod_sp by assumption.
  f_equal. rewrite (Zminus_mod (time_at s i)), (Zminus_mod (time_at s' i')).
  rewrite E. reflexivity.
Qed.

(* HISTORICAL (before fix 79cabe3): update() re-based the reference on the update batch; that
   variant violates the statement *)
Lemma rebased_update_refuted :
  exists decompose sp m y zs s i,
    wf (des_fit decompose sp m y) /\ (i < length s)%nat /\
    ~ nth i (align_seasonal (des_after des_update_rebased (des_fit decompose sp m y) zs) s) 0%Q
      == zn (decompose m sp (svals y)) ((time_at s i - sstart y) mod sp).
Proof.
  exists (fun _ _ _ => [1; 2; 3]%Q), 3, Additive, (contiguous 0 [5; 6; 7; 5; 6; 7]%Q),
         [contiguous 7 [5; 6]%Q], (contiguous 9 [1; 1]%Q), 0%nat.
  split; [split; [cbn; lia|reflexivity]|]. split; [cbn; lia|].
  vm_compute. discriminate.
Qed.

(* HISTORICAL (before fix 16caac4): roll the seasonal vector to the phase of the FIRST time point
   and tile it.  On a contiguous index that is the same array ... *)
Lemma roll_tile_contiguous d start vals i : wf d -> (i < length vals)%nat ->
  nth i (align_roll_tile d (contiguous start vals)) 0%Q =
  nth i (align_seasonal d (contiguous start vals)) 0%Q.
Proof.
  intros W Hi. pose proof W as [Hsp HL]. pose proof (wf_nonempty d W) as Hne.
  rewrite align_nth by (rewrite contiguous_length; exact Hi).
  rewrite contiguous_time_at by exact Hi.
  unfold align_roll_tile.
  assert (Hv : vals <> []) by (destruct vals; [cbn in Hi; lia|discriminate]).
  rewrite contiguous_start by exact Hv.
  unfold slen. rewrite contiguous_length.
  set (sh := (- get_duration start (d_t0 d)) mod d_sp d).
  assert (Hrne : np_roll (d_seasonal d) sh <> []).
  { intro E. apply (f_equal (@length Q)) in E. rewrite np_roll_length in E.
    cbn in E. lia. }
  rewrite np_resize_nth by (try assumption; lia).
  rewrite np_roll_length.
  assert (Hlpos : (0 < length (d_seasonal d))%nat) by lia.
  rewrite np_roll_nth by (apply Nat.mod_upper_bound; lia).
  unfold comp_at, zn, phase. f_equal. f_equal.
  rewrite HL.
  assert (Hm : Z.of_nat (i mod length (d_seasonal d)) = Z.of_nat i mod d_sp d).
  { rewrite <- HL. apply Nat2Z.inj_mod. }
  rewrite Hm. unfold sh, get_duration.
  rewrite Zminus_mod_idemp_l.
  rewrite Zminus_mod_idemp_r.
  f_equal. lia.
Qed.

(* ... but on a gapped index every point after the first gap gets the component of the wrong
   season: the roll-and-tile variant violates the statement *)
Lemma roll_tile_gapped_refuted :
  exists d s i, wf d /\ (i < length s)%nat /\
    ~ nth i (align_roll_tile d s) 0%Q
      == comp_at (d_seasonal d) (d_t0 d) (d_sp d) (time_at s i).
Proof.
  exists {| d_sp := 3; d_model := Additive; d_t0 := 0; d_seasonal := [1; 2; 3]%Q |},
         [(6, 0%Q); (8, 0%Q)], 1%nat.
  split; [split; [cbn; lia|reflexivity]|]. split; [cbn; lia|].
  vm_compute. discriminate.
Qed.

(* ---- series (op) array ------------------------------------------------------------------------- *)
Lemma arr_op_index f s : forall arr, length arr = length s ->
  sindex (series_arr_op f s arr) = sindex s.
Proof.
  induction s as [|[t x] s IH]; intros [|c arr] H; cbn in *; try lia; try reflexivity.
  f_equal. apply IH. lia.
Qed.

Lemma arr_op_length f s : forall arr, length arr = length s ->
  length (series_arr_op f s arr) = length s.
Proof.
  induction s as [|[t x] s IH]; intros [|c arr] H; cbn in *; try lia; try reflexivity.
  f_equal. apply IH. lia.
Qed.

Lemma arr_op_nth f s : forall arr i, length arr = length s -> (i < length s)%nat ->
  nth i (svals (series_arr_op f s arr)) 0%Q = f (nth i (svals s) 0%Q) (nth i arr 0%Q).
Proof.
  induction s as [|[t x] s IH]; intros [|c arr] i H Hi; cbn in *; try lia.
  destruct i as [|i]; [reflexivity|]. apply IH; lia.
Qed.

Lemma arr_op_shift f k s : forall arr,
  series_arr_op f (shift_series k s) arr = shift_series k (series_arr_op f s arr).
Proof.
  induction s as [|[t x] s IH]; intros [|c arr]; cbn in *; try reflexivity.
  f_equal. apply IH.
Qed.

(* ---- Deseasonalizer: transform / inverse ------------------------------------------------------- *)
Lemma des_transform_length d s : length (des_transform d s) = length s.
Proof. apply arr_op_length. apply align_length. Qed.
Lemma des_inverse_length d s : length (des_inverse d s) = length s.
Proof. apply arr_op_length. apply align_length. Qed.

Lemma des_index_preserved d s :
  sindex (des_transform d s) = sindex s /\ sindex (des_inverse d s) = sindex s.
Proof. split; apply arr_op_index; apply align_length. Qed.

Lemma des_transform_time_at d s i : time_at (des_transform d s) i = time_at s i.
Proof. unfold time_at. rewrite (proj1 (des_index_preserved d s)). reflexivity. Qed.
Lemma des_inverse_time_at d s i : time_at (des_inverse d s) i = time_at s i.
Proof. unfold time_at. rewrite (proj2 (des_index_preserved d s)). reflexivity. Qed.

(* what transform computes at position i: the value (op) the component of ITS time point *)
Lemma des_transform_nth d s i : (i < length s)%nat ->
  val_at (des_transform d s) i =
  op_fwd (d_model d) (val_at s i) (comp_at (d_seasonal d) (d_t0 d) (d_sp d) (time_at s i)).
Proof.
  intros Hi. unfold des_transform, val_at.
  rewrite arr_op_nth by (try apply align_length; assumption).
  rewrite align_nth by assumption. reflexivity.
Qed.
Lemma des_inverse_nth d s i : (i < length s)%nat ->
  val_at (des_inverse d s) i =
  op_inv (d_model d) (val_at s i) (comp_at (d_seasonal d) (d_t0 d) (d_sp d) (time_at s i)).
Proof.
  intros Hi. unfold des_inverse, val_at.
  rewrite arr_op_nth by (try apply align_length; assumption).
  rewrite align_nth by assumption. reflexivity.
Qed.

Lemma op_roundtrip m x c : (m = Additive \/ ~ c == 0)%Q -> (op_inv m (op_fwd m x c) c == x)%Q.
Proof.
  intros H. destruct m; cbn [op_inv op_fwd].
  - ring.
  - destruct H as [H|H]; [discriminate|]. field. exact H.
Qed.
Lemma op_roundtrip' m x c : (m = Additive \/ ~ c == 0)%Q -> (op_fwd m (op_inv m x c) c == x)%Q.
Proof.
  intros H. destruct m; cbn [op_inv op_fwd].
  - ring.
  - destruct H as [H|H]; [discriminate|]. field. exact H.
Qed.

(* inverse_transform(transform(z))[i] == z[i] wherever the divisor is non-zero (= wherever
   transform(z)[i] is finite) *)
Lemma des_roundtrip_at d s i : (i < length s)%nat ->
  (d_model d = Additive \/
   ~ comp_at (d_seasonal d) (d_t0 d) (d_sp d) (time_at s i) == 0)%Q ->
  (val_at (des_inverse d (des_transform d s)) i == val_at s i)%Q.
Proof.
  intros Hi Hc.
  rewrite des_inverse_nth by (rewrite des_transform_length; assumption).
  rewrite des_transform_time_at, des_transform_nth by assumption.
  apply op_roundtrip. exact Hc.
Qed.
(* and the other way round: transform(inverse_transform(z)) *)
Lemma des_roundtrip_at' d s i : (i < length s)%nat ->
  (d_model d = Additive \/
   ~ comp_at (d_seasonal d) (d_t0 d) (d_sp d) (time_at s i) == 0)%Q ->
  (val_at (des_transform d (des_inverse d s)) i == val_at s i)%Q.
Proof.
  intros Hi Hc.
  rewrite des_transform_nth by (rewrite des_inverse_length; assumption).
  rewrite des_inverse_time_at, des_inverse_nth by assumption.
  apply op_roundtrip'. exact Hc.
Qed.

Lemma zn_in (l : list Q) i : 0 <= i < Z.of_nat (length l) -> In (zn l i) l.
Proof. intro H. unfold zn. apply nth_In. lia. Qed.

Lemma comp_in d t : wf d -> In (comp_at (d_seasonal d) (d_t0 d) (d_sp d) t) (d_seasonal d).
Proof.
  intros [Hsp HL]. unfold comp_at. apply zn_in. rewrite HL. apply phase_range. exact Hsp.
Qed.

(* whole-series form, for the state after ANY update history, for ANY stretch s *)
Lemma des_roundtrip decompose sp m y zs s :
  let d := des_after des_update (des_fit decompose sp m y) zs in
  wf (des_fit decompose sp m y) ->
  (m = Additive \/ Forall (fun c => ~ c == 0)%Q (decompose m sp (svals y))) ->
  seq_eq (des_inverse d (des_transform d s)) s /\ sindex (des_transform d s) = sindex s.
Proof.
  intros d W Hc. unfold d. rewrite des_after_update.
  set (d0 := des_fit decompose sp m y) in *.
  split; [split|].
  - rewrite (proj2 (des_index_preserved d0 _)). apply des_index_preserved.
  - apply Forall2_Qeq_nth.
    + rewrite !svals_length, des_inverse_length, des_transform_length. reflexivity.
    + intros i Hi. rewrite svals_length, des_inverse_length, des_transform_length in Hi.
      apply des_roundtrip_at; try assumption.
      destruct Hc as [Hc|Hc]; [left; exact Hc|right].
      rewrite Forall_forall in Hc. apply Hc. apply (comp_in d0). exact W.
  - apply des_index_preserved.
Qed.

(* fit keeps the FIRST period of the decomposition's seasonal series S (periodic, as long as the
   training series): on the (contiguous) training series itself, transform removes exactly S *)
Lemma training_component (S : list Q) sp m t0 vals i :
  0 < sp -> (Z.to_nat sp <= length S)%nat ->
  (forall j, (j < length S)%nat -> nth j S 0%Q = nth (j mod Z.to_nat sp)%nat S 0%Q) ->
  length S = length vals -> (i < length vals)%nat ->
  let y := contiguous t0 vals in
  let d := {| d_sp := sp; d_model := m; d_t0 := sstart y;
              d_seasonal := firstn (Z.to_nat sp) S |} in
  wf d /\
  val_at (des_transform d y) i = op_fwd m (nth i vals 0%Q) (nth i S 0%Q).
Proof.
  intros Hsp HS Hper HL Hi y d.
  assert (W : wf d).
  { split; cbn [d d_sp d_seasonal]; [exact Hsp|]. rewrite firstn_length. lia. }
  split; [exact W|].
  assert (Hv : vals <> []) by (destruct vals; [cbn in Hi; lia|discriminate]).
  rewrite des_transform_nth by (unfold y; rewrite contiguous_length; exact Hi).
  cbn [d d_model d_seasonal d_t0 d_sp].
  unfold y at 1, val_at. rewrite contiguous_vals.
  f_equal. unfold comp_at, zn, phase, get_duration, y.
  rewrite contiguous_time_at by exact Hi. rewrite contiguous_start by exact Hv.
  replace (t0 + Z.of_nat i - t0) with (Z.of_nat i) by lia.
  assert (Hnz : Z.to_nat sp <> 0%nat) by lia.
  assert (E : Z.to_nat (Z.of_nat i mod sp) = (i mod Z.to_nat sp)%nat).
  { rewrite <- (Z2Nat.id sp) at 1 by lia. rewrite <- Nat2Z.inj_mod. apply Nat2Z.id. }
  rewrite E. rewrite nth_firstn_c13 by (apply Nat.mod_upper_bound; exact Hnz).
  symmetry. apply Hper. lia.
Qed.

(* ---- ConditionalDeseasonalizer ----------------------------------------------------------------- *)
Lemma cond_fit_wf test decompose sp m y : 0 < sp ->
  Z.of_nat (length (decompose m sp (svals y))) = sp -> wf (cond_fit test decompose sp m y).
Proof.
  intros Hsp HL. unfold cond_fit. destruct (test sp (svals y)).
  - split; cbn; assumption.
  - split; cbn [d_sp d_seasonal]; [assumption|]. rewrite repeat_length. lia.
Qed.

Lemma cond_seasonal test decompose sp m y :
  test sp (svals y) = true -> cond_fit test decompose sp m y = des_fit decompose sp m y.
Proof. intro H. unfold cond_fit. rewrite H. reflexivity. Qed.

(* not seasonal: transform and inverse_transform return the series unchanged *)
Lemma cond_passthrough test decompose sp m y s :
  0 < sp -> test sp (svals y) = false ->
  let d := cond_fit test decompose sp m y in
  seq_eq (des_transform d s) s /\ seq_eq (des_inverse d s) s.
Proof.
  intros Hsp Ht d.
  assert (Hcomp : forall t, comp_at (d_seasonal d) (d_t0 d) (d_sp d) t = neutral m).
  { intro t. unfold d, cond_fit. rewrite Ht. cbn [d_seasonal d_t0 d_sp].
    unfold comp_at, zn. apply nth_repeat_lt.
    pose proof (phase_range (sstart y) sp t Hsp). lia. }
  assert (Hm : d_model d = m) by (unfold d, cond_fit; rewrite Ht; reflexivity).
  split; (split; [apply des_index_preserved|]); apply Forall2_Qeq_nth.
  - rewrite !svals_length. apply des_transform_length.
  - intros i Hi. rewrite svals_length, des_transform_length in Hi.
    change (val_at (des_transform d s) i == val_at s i)%Q.
    rewrite des_transform_nth, Hcomp, Hm by assumption.
    destruct m; cbn [op_fwd neutral]; field.
  - rewrite !svals_length. apply des_inverse_length.
  - intros i Hi. rewrite svals_length, des_inverse_length in Hi.
    change (val_at (des_inverse d s) i == val_at s i)%Q.
    rewrite des_inverse_nth, Hcomp, Hm by assumption.
    destruct m; cbn [op_inv neutral]; ring.
Qed.

(* ---- Detrender --------------------------------------------------------------------------------- *)
Lemma predict_at_length trend s : length (predict_at trend (sindex s)) = length s.
Proof. unfold predict_at. rewrite map_length. apply sindex_length. Qed.

Lemma predict_at_nth trend s i : (i < length s)%nat ->
  nth i (predict_at trend (sindex s)) 0%Q = trend (time_at s i).
Proof.
  intro Hi. unfold predict_at, time_at. apply nth_map_lt. rewrite sindex_length. exact Hi.
Qed.

(* the trend removed from observation i is the forecast for the TIME POINT of observation i of
   the PASSED series (not for its position, not for a time point of the training series) *)
Lemma det_transform_nth trend s i : (i < length s)%nat ->
  val_at (det_transform trend s) i = (val_at s i - trend (time_at s i))%Q.
Proof.
  intro Hi. unfold det_transform, val_at.
  rewrite arr_op_nth by (try apply predict_at_length; exact Hi).
  rewrite predict_at_nth by exact Hi. reflexivity.
Qed.
Lemma det_inverse_nth trend s i : (i < length s)%nat ->
  val_at (det_inverse trend s) i = (val_at s i + trend (time_at s i))%Q.
Proof.
  intro Hi. unfold det_inverse, val_at.
  rewrite arr_op_nth by (try apply predict_at_length; exact Hi).
  rewrite predict_at_nth by exact Hi. reflexivity.
Qed.
Lemma det_transform_length trend s : length (det_transform trend s) = length s.
Proof. apply arr_op_length. apply predict_at_length. Qed.
Lemma det_inverse_length trend s : length (det_inverse trend s) = length s.
Proof. apply arr_op_length. apply predict_at_length. Qed.
Lemma det_index_preserved trend s :
  sindex (det_transform trend s) = sindex s /\ sindex (det_inverse trend s) = sindex s.
Proof. split; apply arr_op_index; apply predict_at_length. Qed.
Lemma det_transform_time_at trend s i : time_at (det_transform trend s) i = time_at s i.
Proof. unfold time_at. rewrite (proj1 (det_index_preserved trend s)). reflexivity. Qed.
Lemma det_inverse_time_at trend s i : time_at (det_inverse trend s) i = time_at s i.
Proof. unfold time_at. rewrite (proj2 (det_index_preserved trend s)). reflexivity. Qed.

(* for ANY trend function, i.e. for the forecaster state after any fit / update history *)
Lemma det_roundtrip trend s :
  seq_eq (det_inverse trend (det_transform trend s)) s /\
  seq_eq (det_transform trend (det_inverse trend s)) s /\
  sindex (det_transform trend s) = sindex s /\ sindex (det_inverse trend s) = sindex s.
Proof.
  split; [|split; [|apply det_index_preserved]].
  - split.
    + rewrite (proj2 (det_index_preserved trend _)). apply det_index_preserved.
    + apply Forall2_Qeq_nth.
      * rewrite !svals_length, det_inverse_length, det_transform_length. reflexivity.
      * intros i Hi. rewrite svals_length, det_inverse_length, det_transform_length in Hi.
        change (val_at (det_inverse trend (det_transform trend s)) i == val_at s i)%Q.
        rewrite det_inverse_nth by (rewrite det_transform_length; exact Hi).
        rewrite det_transform_nth by exact Hi.
        rewrite det_transform_time_at. ring.
  - split.
    + rewrite (proj1 (det_index_preserved trend _)). apply det_index_preserved.
    + apply Forall2_Qeq_nth.
      * rewrite !svals_length, det_transform_length, det_inverse_length. reflexivity.
      * intros i Hi. rewrite svals_length, det_transform_length, det_inverse_length in Hi.
        change (val_at (det_transform trend (det_inverse trend s)) i == val_at s i)%Q.
        rewrite det_transform_nth by (rewrite det_inverse_length; exact Hi).
        rewrite det_inverse_nth by exact Hi.
        rewrite det_inverse_time_at. ring.
Qed.

(* ---- pointwise, time-independent --------------------------------------------------------------- *)
Lemma pw_index f s : sindex (pw_apply f s) = sindex s.
Proof. unfold pw_apply, tmap, sindex. rewrite map_map. reflexivity. Qed.
Lemma pw_vals f s : svals (pw_apply f s) = map f (svals s).
Proof. unfold pw_apply, tmap, svals. rewrite !map_map. reflexivity. Qed.

Lemma pw_roundtrip (P : Q -> Prop) f g s :
  (forall x, P x -> g (f x) == x)%Q -> Forall P (svals s) ->
  seq_eq (pw_apply g (pw_apply f s)) s /\ sindex (pw_apply f s) = sindex s.
Proof.
  intros H HP. split; [split|].
  - rewrite !pw_index. reflexivity.
  - rewrite !pw_vals. induction (svals s) as [|x l IH]; cbn [map]; constructor.
    + apply H. inversion HP; assumption.
    + apply IH. inversion HP; assumption.
  - apply pw_index.
Qed.

Lemma std_roundtrip m s x : (~ s == 0 -> std_inv m s (std_fwd m s x) == x)%Q.
Proof. intro H. unfold std_inv, std_fwd. field. exact H. Qed.
Lemma minmax_roundtrip s mn x : (~ s == 0 -> minmax_inv s mn (minmax_fwd s mn x) == x)%Q.
Proof. intro H. unfold minmax_inv, minmax_fwd. field. exact H. Qed.
Lemma affine_roundtrip a b x : (~ a == 0 -> affine_inv a b (affine a b x) == x)%Q.
Proof. intro H. unfold affine_inv, affine. field. exact H. Qed.

Lemma adaptor_roundtrip a b s : (~ a == 0)%Q ->
  seq_eq (pw_apply (affine_inv a b) (pw_apply (affine a b) s)) s /\
  sindex (pw_apply (affine a b) s) = sindex s.
Proof.
  intro H. apply (pw_roundtrip (fun _ => True)).
  - intros x _. apply affine_roundtrip. exact H.
  - apply Forall_forall. trivial.
Qed.
Lemma std_is_affine m s x : (~ s == 0 -> std_fwd m s x == affine (1 / s) (- m / s) x)%Q.
Proof. intro H. unfold std_fwd, affine. field. exact H. Qed.
Lemma minmax_is_affine s mn x : (minmax_fwd s mn x == affine s mn x)%Q.
Proof. unfold minmax_fwd, affine. ring. Qed.

(* Log and Box-Cox over abstract exp / ln / pow with exactly the algebraic facts used *)
Section LogBoxCox.
  Variable ln exp : Q -> Q.
  Variable pow : Q -> Q -> Q.
  Hypothesis exp_ln : forall x, (0 < x -> exp (ln x) == x)%Q.
  Hypothesis pow_proper : forall a b c, (a == b -> pow a c == pow b c)%Q.
  Hypothesis pow_inv : forall x l, (0 < x -> ~ l == 0 -> pow (pow x l) (1 / l) == x)%Q.

  Lemma boxcox_roundtrip_pt lam x :
    (0 < x -> inv_boxcox exp pow lam (boxcox ln pow lam x) == x)%Q.
  Proof.
    intro Hx. unfold inv_boxcox, boxcox. destruct (Qeq_bool lam 0) eqn:E.
    - apply exp_ln. exact Hx.
    - assert (Hl : ~ (lam == 0)%Q) by (apply Qeq_bool_neq; exact E).
      rewrite (pow_proper _ (pow x lam)); [apply pow_inv; assumption|].
      field. exact Hl.
  Qed.

  Lemma log_roundtrip s : Forall (fun x => 0 < x)%Q (svals s) ->
    seq_eq (pw_apply exp (pw_apply ln s)) s /\ sindex (pw_apply ln s) = sindex s.
  Proof. apply pw_roundtrip. exact exp_ln. Qed.

  Lemma boxcox_roundtrip lam s : Forall (fun x => 0 < x)%Q (svals s) ->
    seq_eq (pw_apply (inv_boxcox exp pow lam) (pw_apply (boxcox ln pow lam) s)) s /\
    sindex (pw_apply (boxcox ln pow lam) s) = sindex s.
  Proof. apply pw_roundtrip. intros x Hx. apply boxcox_roundtrip_pt. exact Hx. Qed.
End LogBoxCox.

(* ---- OptionalPassthrough ----------------------------------------------------------------------- *)
Lemma opt_roundtrip b (f g : series -> series) s :
  seq_eq (g (f s)) s -> sindex (f s) = sindex s ->
  seq_eq (opt_apply b g (opt_apply b f s)) s /\ sindex (opt_apply b f s) = sindex s /\
  (b = true -> opt_apply b f s = s /\ opt_apply b g s = s).
Proof.
  intros H Hi. destruct b; cbn [opt_apply].
  - split; [split; [reflexivity|apply Forall2_Qeq_refl]|]. split; [reflexivity|]. auto.
  - split; [exact H|]. split; [exact Hi|]. discriminate.
Qed.

(* ---- shifting the time index ------------------------------------------------------------------- *)
Lemma phase_shift_invariant t0 sp t k : phase (t0 + k) sp (t + k) = phase t0 sp t.
Proof. unfold phase, get_duration. f_equal. lia. Qed.

Definition shift_state (k : Z) (d : dstate) : dstate :=
  {| d_sp := d_sp d; d_model := d_model d; d_t0 := d_t0 d + k; d_seasonal := d_seasonal d |}.

(* fit rejects an empty training series (check_series, allow_empty=False) *)
Lemma des_fit_shift decompose sp m y k : y <> [] ->
  des_fit decompose sp m (shift_series k y) = shift_state k (des_fit decompose sp m y).
Proof.
  intro H. unfold des_fit, shift_state. cbn [d_sp d_model d_t0 d_seasonal].
  rewrite shift_vals, shift_start by exact H. reflexivity.
Qed.

Lemma align_shift_state d s k :
  align_seasonal (shift_state k d) (shift_series k s) = align_seasonal d s.
Proof.
  unfold align_seasonal, shift_state. cbn [d_sp d_t0 d_seasonal].
  rewrite shift_index, !map_map. apply map_ext. intro t.
  rewrite phase_shift_invariant. reflexivity.
Qed.

Lemma des_shift_state d s k :
  des_transform (shift_state k d) (shift_series k s) = shift_series k (des_transform d s) /\
  des_inverse (shift_state k d) (shift_series k s) = shift_series k (des_inverse d s).
Proof.
  unfold des_transform, des_inverse. rewrite align_shift_state.
  change (d_model (shift_state k d)) with (d_model d).
  split; apply arr_op_shift.
Qed.

(* fit on the shifted training series, update with the shifted batches, transform the shifted
   stretch: same values, index shifted by k *)
Lemma des_shift_equivariant decompose sp m y zs s k : y <> [] ->
  let d := des_after des_update (des_fit decompose sp m y) zs in
  let d' := des_after des_update (des_fit decompose sp m (shift_series k y))
                      (map (shift_series k) zs) in
  des_transform d' (shift_series k s) = shift_series k (des_transform d s) /\
  des_inverse d' (shift_series k s) = shift_series k (des_inverse d s).
Proof.
  intro H. cbv zeta. rewrite !des_after_update, des_fit_shift by exact H. apply des_shift_state.
Qed.

Lemma cond_fit_shift test decompose sp m y k : y <> [] ->
  cond_fit test decompose sp m (shift_series k y) = shift_state k (cond_fit test decompose sp m y).
Proof.
  intro H. unfold cond_fit. rewrite shift_vals.
  destruct (test sp (svals y)).
  - apply des_fit_shift. exact H.
  - unfold shift_state. cbn [d_sp d_model d_t0 d_seasonal]. rewrite shift_start by exact H.
    reflexivity.
Qed.

Lemma det_shift_equivariant trend trend' s k :
  (forall t : Z, trend' (t + k)%Z == trend t)%Q ->
  seq_eq (det_transform trend' (shift_series k s)) (shift_series k (det_transform trend s)) /\
  seq_eq (det_inverse trend' (shift_series k s)) (shift_series k (det_inverse trend s)).
Proof.
  intro H.
  split; split.
  - rewrite (proj1 (det_index_preserved _ _)), !shift_index,
      (proj1 (det_index_preserved _ _)). reflexivity.
  - apply Forall2_Qeq_nth.
    + rewrite !svals_length, det_transform_length, !shift_length, det_transform_length.
      reflexivity.
    + intros i Hi. rewrite svals_length, det_transform_length, shift_length in Hi.
      rewrite shift_vals.
      change (val_at (det_transform trend' (shift_series k s)) i ==
              val_at (det_transform trend s) i)%Q.
      rewrite det_transform_nth by (rewrite shift_length; exact Hi).
      rewrite det_transform_nth by exact Hi.
      rewrite shift_time_at by exact Hi. unfold val_at. rewrite shift_vals.
      rewrite H. reflexivity.
  - rewrite (proj2 (det_index_preserved _ _)), !shift_index,
      (proj2 (det_index_preserved _ _)). reflexivity.
  - apply Forall2_Qeq_nth.
    + rewrite !svals_length, det_inverse_length, !shift_length, det_inverse_length.
      reflexivity.
    + intros i Hi. rewrite svals_length, det_inverse_length, shift_length in Hi.
      rewrite shift_vals.
      change (val_at (det_inverse trend' (shift_series k s)) i ==
              val_at (det_inverse trend s) i)%Q.
      rewrite det_inverse_nth by (rewrite shift_length; exact Hi).
      rewrite det_inverse_nth by exact Hi.
      rewrite shift_time_at by exact Hi. unfold val_at. rewrite shift_vals.
      rewrite H. reflexivity.
Qed.

(* the polynomial trend forecaster is a shift-invariant oracle: its coefficients depend on the
   training VALUES only and it is evaluated at t - first training time point *)
Lemma poly_trend_shift coef t0 t k : poly_trend coef (t0 + k) (t + k) = poly_trend coef t0 t.
Proof. unfold poly_trend. f_equal. f_equal. lia. Qed.

Lemma pw_shift_equivariant f s k : pw_apply f (shift_series k s) = shift_series k (pw_apply f s).
Proof. unfold pw_apply, tmap, shift_series. rewrite !map_map. reflexivity. Qed.

Lemma opt_shift_equivariant b (f f' : series -> series) s k :
  f' (shift_series k s) = shift_series k (f s) ->
  opt_apply b f' (shift_series k s) = shift_series k (opt_apply b f s).
Proof. intro H. destruct b; cbn [opt_apply]; [reflexivity|exact H]. Qed.

Lemma combine_map_l_c13 A B C (f : A -> C) : forall (a : list A) (b : list B),
  combine (map f a) b = map (fun p => (f (fst p), snd p)) (combine a b).
Proof.
  induction a as [|x a IH]; intros [|y b]; cbn; try reflexivity. f_equal. apply IH.
Qed.

Lemma positional_shift g s k :
  positional_same_index g (shift_series k s) = shift_series k (positional_same_index g s) /\
  positional_lag_index g (shift_series k s) = positional_lag_index g s.
Proof.
  unfold positional_same_index, positional_lag_index. rewrite shift_index, shift_vals.
  split; [|reflexivity]. apply combine_map_l_c13.
Qed.

Lemma positional_index g s : (forall l, length (g l) = length l) ->
  sindex (positional_same_index g s) = sindex s.
Proof.
  intro H. unfold positional_same_index. apply map_fst_combine_c13.
  rewrite H, sindex_length, svals_length. reflexivity.
Qed.

Lemma take_pos_shift s w k : take_pos (shift_series k s) w = take_pos s w.
Proof. unfold take_pos. rewrite shift_vals. reflexivity. Qed.

(* HISTORICAL (before fix 6500dd2): selecting the window observations by LABEL is not
   shift-invariant *)
Lemma take_label_refuted :
  exists s w k, take_label (shift_series k s) w <> take_label s w.
Proof.
  exists (contiguous 0 [1; 2; 3]%Q), [0; 1], 1. vm_compute. discriminate.
Qed.

(* ---- non-vacuity ------------------------------------------------------------------------------- *)
Definition ex_dec : smodel -> Z -> list Q -> list Q := fun _ _ _ => [(-1); 0; 1]%Q.
Definition ex_y : series := contiguous 5 [1; 2; 3; 1; 2; 3; 1]%Q.
(* sp = 3, training starts at 5, one update batch starting at 12, a GAPPED stretch 9, 10, 13, 17 *)
Lemma ex_nonvacuous :
  wf (des_fit ex_dec 3 Additive ex_y) /\ ex_y <> [] /\
  des_transform (des_after des_update (des_fit ex_dec 3 Additive ex_y) [contiguous 12 [9; 9]%Q])
                (combine [9; 10; 13; 17] [10; 10; 10; 10]%Q)
  = combine [9; 10; 13; 17] [10 - 0; 10 - 1; 10 - 1; 10 - -1]%Q.
Proof. split; [split; [cbn; lia|reflexivity]|]. split; [discriminate|reflexivity]. Qed.

(* ---- transform is a function of (fitted state after the fit / update history, series) ---------- *)
Section HistoryFacts.
  Variable ST : Type.
  Variable fit : series -> ST.
  Variable update : ST -> series -> bool -> ST.
  Variable transform inverse : ST -> series -> series.
  Notation stp := (step ST fit update).
  Notation rn := (run ST fit update).
  Notation ans := (answer ST fit update transform inverse).

  Lemma step_query st o : is_query o = true -> stp st o = st.
  Proof. destruct o; cbn; intro H; try discriminate; reflexivity. Qed.

  Lemma fold_strip : forall h st, fold_left stp h st = fold_left stp (strip h) st.
  Proof.
    induction h as [|o h IH]; intro st; [reflexivity|].
    cbn [fold_left strip filter]. destruct (is_query o) eqn:E; cbn [negb].
    - rewrite step_query by exact E. apply IH.
    - cbn [fold_left]. apply IH.
  Qed.

  (* the transform / inverse_transform calls of a history have no influence on the state *)
  Lemma transform_calls_do_not_change_state h : rn h = rn (strip h).
  Proof. unfold run. apply fold_strip. Qed.

  Lemma answer_strip h q : ans h q = ans (strip h) q.
  Proof. unfold answer. rewrite transform_calls_do_not_change_state. reflexivity. Qed.

  (* two histories with the same fit / update calls give the same answer to every call *)
  Lemma answer_independent_of_call_history h h' q : strip h = strip h' -> ans h q = ans h' q.
  Proof. intro E. rewrite (answer_strip h), (answer_strip h'), E. reflexivity. Qed.

  Lemma run_app h1 h2 : rn (h1 ++ h2) = fold_left stp h2 (rn h1).
  Proof. unfold run. apply fold_left_app. Qed.

  Lemma fold_queries : forall qs st, forallb is_query qs = true -> fold_left stp qs st = st.
  Proof.
    induction qs as [|o qs IH]; intros st H; [reflexivity|].
    cbn [forallb] in H. apply andb_prop in H. destruct H as [H1 H2].
    cbn [fold_left]. rewrite step_query by exact H1. apply IH. exact H2.
  Qed.

  Lemma run_queries h qs : forallb is_query qs = true -> rn (h ++ qs) = rn h.
  Proof. intro H. rewrite run_app. apply fold_queries. exact H. Qed.

  (* an invariant of the reachable states (e.g. "seasonal_ has sp non-zero entries") *)
  Variable Inv : ST -> Prop.
  Hypothesis inv_fit : forall y, Inv (fit y).
  Hypothesis inv_update : forall s z p, Inv s -> Inv (update s z p).

  Lemma run_inv : forall h s, rn h = Some s -> Inv s.
  Proof.
    intro h. unfold run.
    assert (G : forall st, (forall s, st = Some s -> Inv s) ->
                forall s, fold_left stp h st = Some s -> Inv s).
    { induction h as [|o h IH]; intros st Hst s H; cbn [fold_left] in H; [apply Hst; exact H|].
      apply (IH (stp st o)); [|exact H].
      intros s' E. destruct o; cbn in E.
      - inversion E. apply inv_fit.
      - destruct st as [s0|]; [|discriminate]. inversion E. apply inv_update. apply Hst. reflexivity.
      - apply Hst. exact E.
      - apply Hst. exact E. }
    apply G. intros s E. discriminate.
  Qed.

  Hypothesis rt : forall s z, Inv s -> seq_eq (inverse s (transform s z)) z.

  (* after ANY history h (fits, updates with either flag, earlier transform / inverse calls), what
     transform(z) returns, handed to inverse_transform - directly or after further queries qs -
     comes back as z: the inverse is taken with the CURRENT state, which is the one transform used *)
  Lemma roundtrip_after_any_history h qs z zt :
    forallb is_query qs = true -> ans h (Transform z) = Some zt ->
    exists zi, ans (h ++ Transform z :: qs) (Inverse zt) = Some zi /\ seq_eq zi z.
  Proof.
    intros Hq Ha. unfold answer in *.
    assert (E : rn (h ++ Transform z :: qs) = rn h).
    { apply (run_queries h (Transform z :: qs)). cbn [forallb is_query]. exact Hq. }
    rewrite E. destruct (rn h) as [s|] eqn:Es; [|discriminate].
    inversion Ha; subst zt. eexists. split; [reflexivity|].
    apply rt. apply (run_inv h). exact Es.
  Qed.
End HistoryFacts.

(* ---- transform of a sub-stretch = restriction of transform of the whole ------------------------ *)
Lemma arr_op_is_tmap f (G : Z -> Q) s :
  series_arr_op f s (map G (sindex s)) = tmap (fun t x => f x (G t)) s.
Proof.
  induction s as [|[t x] s IH]; [reflexivity|].
  cbn [sindex map series_arr_op tmap fst snd]. f_equal. exact IH.
Qed.

Lemma tmap_restrict F keep s : tmap F (restrict keep s) = restrict keep (tmap F s).
Proof.
  unfold restrict, tmap. induction s as [|[t x] s IH]; [reflexivity|].
  cbn [filter map fst snd]. destruct (keep t); cbn [map fst snd]; rewrite IH; reflexivity.
Qed.

Lemma des_transform_is_tmap d s :
  des_transform d s =
  tmap (fun t x => op_fwd (d_model d) x (comp_at (d_seasonal d) (d_t0 d) (d_sp d) t)) s /\
  des_inverse d s =
  tmap (fun t x => op_inv (d_model d) x (comp_at (d_seasonal d) (d_t0 d) (d_sp d) t)) s.
Proof.
  unfold des_transform, des_inverse, align_seasonal. rewrite map_map.
  split; apply (arr_op_is_tmap _ (fun t => comp_at (d_seasonal d) (d_t0 d) (d_sp d) t)).
Qed.

Lemma det_transform_is_tmap trend s :
  det_transform trend s = tmap (fun t x => x - trend t)%Q s /\
  det_inverse trend s = tmap (fun t x => x + trend t)%Q s.
Proof. unfold det_transform, det_inverse, predict_at. split; apply arr_op_is_tmap. Qed.

Lemma des_restrict d keep s :
  des_transform d (restrict keep s) = restrict keep (des_transform d s) /\
  des_inverse d (restrict keep s) = restrict keep (des_inverse d s).
Proof.
  rewrite !(proj1 (des_transform_is_tmap d _)), !(proj2 (des_transform_is_tmap d _)).
  split; apply tmap_restrict.
Qed.

Lemma det_restrict trend keep s :
  det_transform trend (restrict keep s) = restrict keep (det_transform trend s) /\
  det_inverse trend (restrict keep s) = restrict keep (det_inverse trend s).
Proof.
  rewrite !(proj1 (det_transform_is_tmap trend _)), !(proj2 (det_transform_is_tmap trend _)).
  split; apply tmap_restrict.
Qed.

Lemma pw_restrict f keep s : pw_apply f (restrict keep s) = restrict keep (pw_apply f s).
Proof. apply tmap_restrict. Qed.

Lemma opt_restrict b (f : series -> series) keep s :
  f (restrict keep s) = restrict keep (f s) ->
  opt_apply b f (restrict keep s) = restrict keep (opt_apply b f s).
Proof. intro H. destruct b; cbn [opt_apply]; [reflexivity|exact H]. Qed.

(* a contiguous sub-stretch is a restriction: the stretch [a, b) of a series *)
Lemma restrict_contiguous_example :
  restrict (fun t => (3 <=? t) && (t <? 5)) (contiguous 1 [10; 11; 12; 13; 14; 15]%Q)
  = contiguous 3 [12; 13]%Q.
Proof. reflexivity. Qed.

(* WITNESS: the memoising Detrender violates the round trip on the training series after a refit *)
Lemma memoised_trend_refuted :
  exists st0 y refitted,
    let '(yt1, st1) := memo_transform st0 y in           (* fit_transform: remembers the trend *)
    let st2 := memo_update st1 refitted in                (* update(update_params=True) *)
    let '(yt2, st3) := memo_transform st2 y in           (* transform(train): the OLD trend *)
    ~ (val_at (memo_inverse st3 yt2) 0 == val_at y 0)%Q   (* inverse: the NEW trend *)
    /\ ~ (val_at yt2 0 == val_at (det_transform refitted y) 0)%Q.
Proof.
  exists {| m_trend := fun _ => 0%Q; m_train := [0; 1]; m_cache := None |},
         (contiguous 0 [1; 2]%Q), (fun _ => 1%Q).
  vm_compute. split; discriminate.
Qed.
