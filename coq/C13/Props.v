(* C13 property theorems.  Nothing but statements closed by `exact`, each followed by
   Print Assumptions.  `gen_*` are the functions regenerated from the source on this run (Gen.v).
   A series s is ANY list of (time point, value) observations: any start (before, inside, after the
   training series), any length, contiguous or gapped index.  time_at s i / val_at s i are the time
   point and the value of observation i. *)
From Coq Require Import ZArith QArith List Bool.
Require Import SkV.C13.Model SkV.C13.Gen SkV.C13.Proofs SkV.C13.Bridge.
Import ListNotations.
Open Scope Z_scope.

(* _align_seasonal (regenerated): position i of the array holds the component
   seasonal[(t_i - t0) mod sp] of the time point t_i of observation i, t0 = first TRAINING time
   point - wherever the passed stretch starts, whether or not its index has gaps, after ANY
   sequence of update() calls *)
Theorem C13_seasonal_phase_only_mod_sp : forall decompose sp m y zs s i,
  let d := fold_left gen_des_update zs (des_fit decompose sp m y) in
  (i < length s)%nat ->
  nth i (gen_align_seasonal (d_seasonal d) (sindex s) (d_t0 d) (d_sp d)) 0%Q =
  zn (decompose m sp (svals y)) ((time_at s i - sstart y) mod sp).
Proof. exact code_seasonal_phase_only_mod_sp. Qed.
Print Assumptions C13_seasonal_phase_only_mod_sp.

(* ... and that position exists: with sp > 0 and len(seasonal_) = sp the looked-up entry is an
   element of the fitted seasonal vector *)
Theorem C13_phase_lookup_in_range : forall decompose sp m y zs s i,
  let d := fold_left gen_des_update zs (des_fit decompose sp m y) in
  wf (des_fit decompose sp m y) -> (i < length s)%nat ->
  0 <= (time_at s i - sstart y) mod sp < Z.of_nat (length (decompose m sp (svals y))) /\
  In (nth i (gen_align_seasonal (d_seasonal d) (sindex s) (d_t0 d) (d_sp d)) 0%Q)
     (decompose m sp (svals y)).
Proof. exact code_phase_in_range. Qed.
Print Assumptions C13_phase_lookup_in_range.

(* ... hence two time points congruent modulo sp get the same component, whatever stretches they
   belong to and whatever update histories precede the two calls *)
Theorem C13_same_phase_same_component : forall decompose sp m y zs zs' s s' i i',
  let d := fold_left gen_des_update zs (des_fit decompose sp m y) in
  let d' := fold_left gen_des_update zs' (des_fit decompose sp m y) in
  (i < length s)%nat -> (i' < length s')%nat ->
  time_at s i mod sp = time_at s' i' mod sp ->
  nth i (gen_align_seasonal (d_seasonal d) (sindex s) (d_t0 d) (d_sp d)) 0%Q =
  nth i' (gen_align_seasonal (d_seasonal d') (sindex s') (d_t0 d') (d_sp d')) 0%Q.
Proof. exact code_same_phase_same_component. Qed.
Print Assumptions C13_same_phase_same_component.

(* HISTORICAL witnesses (both defects are repaired in the code; these show that the OLD expressions
   violate the statement above): update() re-basing the phase reference on the update batch ... *)
Theorem C13_historical_rebased_update_refuted :
  exists decompose sp m y zs s i,
    wf (des_fit decompose sp m y) /\ (i < length s)%nat /\
    ~ nth i (align_seasonal (des_after des_update_rebased (des_fit decompose sp m y) zs) s) 0%Q
      == zn (decompose m sp (svals y)) ((time_at s i - sstart y) mod sp).
Proof. exact rebased_update_refuted. Qed.
Print Assumptions C13_historical_rebased_update_refuted.

(* ... and rolling the seasonal vector to the phase of the FIRST time point and tiling it: the same
   array on every contiguous stretch, wrong after the first gap of a gapped one *)
Theorem C13_historical_roll_and_tile :
  (forall d start vals i, wf d -> (i < length vals)%nat ->
     nth i (align_roll_tile d (contiguous start vals)) 0%Q =
     nth i (align_seasonal d (contiguous start vals)) 0%Q) /\
  (exists d s i, wf d /\ (i < length s)%nat /\
     ~ nth i (align_roll_tile d s) 0%Q
       == comp_at (d_seasonal d) (d_t0 d) (d_sp d) (time_at s i)).
Proof. exact (conj roll_tile_contiguous roll_tile_gapped_refuted). Qed.
Print Assumptions C13_historical_roll_and_tile.

(* what Deseasonalizer.transform removes from / inverse_transform restores to observation i: the
   component of ITS time point *)
Theorem C13_deseasonalizer_uses_component_of_time_point : forall d s i,
  (i < length s)%nat ->
  val_at (gen_des_transform d s) i =
  gen_des_op (d_model d) (val_at s i) (zn (d_seasonal d) ((time_at s i - d_t0 d) mod d_sp d)) /\
  val_at (gen_des_inverse d s) i =
  gen_des_inv_op (d_model d) (val_at s i) (zn (d_seasonal d) ((time_at s i - d_t0 d) mod d_sp d)).
Proof. exact code_des_transform_nth. Qed.
Print Assumptions C13_deseasonalizer_uses_component_of_time_point.

(* fit keeps the FIRST period of the decomposition's seasonal series S (periodic with period sp, as
   long as the training series): on the training series itself transform removes exactly S *)
Theorem C13_training_series_component : forall (S : list Q) sp m t0 vals i,
  0 < sp -> (Z.to_nat sp <= length S)%nat ->
  (forall j, (j < length S)%nat -> nth j S 0%Q = nth (j mod Z.to_nat sp)%nat S 0%Q) ->
  length S = length vals -> (i < length vals)%nat ->
  let y := contiguous t0 vals in
  let d := {| d_sp := sp; d_model := m; d_t0 := sstart y;
              d_seasonal := firstn (Z.to_nat sp) S |} in
  wf d /\
  val_at (des_transform d y) i = op_fwd m (nth i vals 0%Q) (nth i S 0%Q).
Proof. exact training_component. Qed.
Print Assumptions C13_training_series_component.

(* inverse_transform(transform(z)) == z with the same index, after any update history, for any
   stretch; additive always, multiplicative when no seasonal component is zero *)
Theorem C13_deseasonalizer_inverse_id : forall decompose sp m y zs s,
  let d := fold_left gen_des_update zs (des_fit decompose sp m y) in
  wf (des_fit decompose sp m y) ->
  (m = Additive \/ Forall (fun c => ~ c == 0)%Q (decompose m sp (svals y))) ->
  seq_eq (gen_des_inverse d (gen_des_transform d s)) s.
Proof. exact code_des_roundtrip. Qed.
Print Assumptions C13_deseasonalizer_inverse_id.

(* ... in particular for the training series itself and for a stretch starting at any offset from
   the training start (before / overlapping / later) *)
Theorem C13_inverse_id_training_later_overlapping : forall decompose sp m y zs off vals,
  let d := fold_left gen_des_update zs (des_fit decompose sp m y) in
  let s := contiguous (sstart y + off) vals in
  wf (des_fit decompose sp m y) ->
  (m = Additive \/ Forall (fun c => ~ c == 0)%Q (decompose m sp (svals y))) ->
  seq_eq (gen_des_inverse d (gen_des_transform d y)) y /\
  seq_eq (gen_des_inverse d (gen_des_transform d s)) s.
Proof. exact code_des_roundtrip_training_and_stretches. Qed.
Print Assumptions C13_inverse_id_training_later_overlapping.

(* tagged "transform-returns-same-time-index": exactly the input's index, unconditionally *)
Theorem C13_deseasonalizer_index_preserved : forall d s,
  sindex (gen_des_transform d s) = sindex s /\ sindex (gen_des_inverse d s) = sindex s.
Proof. exact code_des_index_preserved. Qed.
Print Assumptions C13_deseasonalizer_index_preserved.

(* ... and position by position wherever the divisor is non-zero, i.e. wherever transform(z) is
   finite (both directions) *)
Theorem C13_deseasonalizer_inverse_id_where_finite : forall d s i,
  (i < length s)%nat ->
  (d_model d = Additive \/
   ~ zn (d_seasonal d) ((time_at s i - d_t0 d) mod d_sp d) == 0)%Q ->
  (val_at (gen_des_inverse d (gen_des_transform d s)) i == val_at s i)%Q /\
  (val_at (gen_des_transform d (gen_des_inverse d s)) i == val_at s i)%Q.
Proof. exact code_des_roundtrip_at. Qed.
Print Assumptions C13_deseasonalizer_inverse_id_where_finite.

(* ConditionalDeseasonalizer: the series passes through unchanged when the test says "not
   seasonal"; otherwise it IS the Deseasonalizer's fitted state *)
Theorem C13_conditional_passthrough : forall test decompose sp m y s,
  0 < sp -> test sp (svals y) = false ->
  let d := cond_fit test decompose sp m y in
  seq_eq (des_transform d s) s /\ seq_eq (des_inverse d s) s.
Proof. exact cond_passthrough. Qed.
Print Assumptions C13_conditional_passthrough.

Theorem C13_conditional_seasonal : forall test decompose sp m y,
  test sp (svals y) = true -> cond_fit test decompose sp m y = des_fit decompose sp m y.
Proof. exact cond_seasonal. Qed.
Print Assumptions C13_conditional_seasonal.

(* Detrender: for ANY trend forecast function (= forecaster state after any fit/update history)
   the trend removed from / added to observation i is the forecast for the TIME POINT of
   observation i of the PASSED series, and inverse o transform = transform o inverse = identity on
   the same index *)
Theorem C13_detrender_uses_time_points_of_passed_data : forall trend s i,
  (i < length s)%nat ->
  val_at (gen_det_transform trend s) i = (val_at s i - trend (time_at s i))%Q /\
  val_at (gen_det_inverse trend s) i = (val_at s i + trend (time_at s i))%Q.
Proof. exact code_det_transform_nth. Qed.
Print Assumptions C13_detrender_uses_time_points_of_passed_data.

Theorem C13_detrender_inverse_id : forall trend s,
  seq_eq (gen_det_inverse trend (gen_det_transform trend s)) s /\
  seq_eq (gen_det_transform trend (gen_det_inverse trend s)) s /\
  sindex (gen_det_transform trend s) = sindex s /\ sindex (gen_det_inverse trend s) = sindex s.
Proof. exact code_det_roundtrip. Qed.
Print Assumptions C13_detrender_inverse_id.

(* Log and Box-Cox with fitted lambda, over ANY exp / ln / pow satisfying the three algebraic facts
   used (exp (ln x) == x for x > 0; pow respects ==; (x^l)^(1/l) == x for x > 0, l <> 0) *)
Theorem C13_log_boxcox_inverse_id : forall (ln exp : Q -> Q) (pow : Q -> Q -> Q),
  (forall x, 0 < x -> exp (ln x) == x)%Q ->
  (forall a b c, a == b -> pow a c == pow b c)%Q ->
  (forall x l, 0 < x -> ~ l == 0 -> pow (pow x l) (1 / l) == x)%Q ->
  forall lam s, Forall (fun x => 0 < x)%Q (svals s) ->
  (seq_eq (pw_apply exp (pw_apply ln s)) s /\ sindex (pw_apply ln s) = sindex s) /\
  (seq_eq (pw_apply (inv_boxcox exp pow lam) (pw_apply (boxcox ln pow lam) s)) s /\
   sindex (pw_apply (boxcox ln pow lam) s) = sindex s).
Proof.
  exact (fun ln exp pow H1 H2 H3 lam s Hs =>
           conj (log_roundtrip ln exp H1 s Hs) (boxcox_roundtrip ln exp pow H1 H2 H3 lam s Hs)).
Qed.
Print Assumptions C13_log_boxcox_inverse_id.

(* TabularToSeriesAdaptor around an affine scaler a*x+b, a <> 0; StandardScaler and MinMaxScaler
   are such maps *)
Theorem C13_adaptor_inverse_id : forall a b s, (~ a == 0)%Q ->
  seq_eq (pw_apply (affine_inv a b) (pw_apply (affine a b) s)) s /\
  sindex (pw_apply (affine a b) s) = sindex s.
Proof. exact adaptor_roundtrip. Qed.
Print Assumptions C13_adaptor_inverse_id.

Theorem C13_scalers_are_affine_and_invert : forall m sc mn x, (~ sc == 0)%Q ->
  (std_fwd m sc x == affine (1 / sc) (- m / sc) x /\ std_inv m sc (std_fwd m sc x) == x /\
   minmax_fwd sc mn x == affine sc mn x /\ minmax_inv sc mn (minmax_fwd sc mn x) == x)%Q.
Proof.
  exact (fun m sc mn x H => conj (std_is_affine m sc x H) (conj (std_roundtrip m sc x H)
           (conj (minmax_is_affine sc mn x) (minmax_roundtrip sc mn x H)))).
Qed.
Print Assumptions C13_scalers_are_affine_and_invert.

(* OptionalPassthrough keeps invertibility and the index of what it wraps; identity when passing *)
Theorem C13_optional_passthrough : forall b (f g : series -> series) s,
  seq_eq (g (f s)) s -> sindex (f s) = sindex s ->
  seq_eq (opt_apply b g (opt_apply b f s)) s /\ sindex (opt_apply b f s) = sindex s /\
  (b = true -> opt_apply b f s = s /\ opt_apply b g s = s).
Proof. exact opt_roundtrip. Qed.
Print Assumptions C13_optional_passthrough.

(* fit_transform(Z, X) is fit(Z, X) followed by transform(Z), for every transformer (the body of
   BaseTransformer.fit_transform, regenerated; no in-scope class overrides it) *)
Theorem C13_fit_transform_is_fit_then_transform :
  forall (ST XV : Type) (fit : series -> option XV -> ST) (transform : ST -> series -> series) Z_ X,
  gen_fit_transform ST XV fit transform Z_ X = transform (fit Z_ X) Z_.
Proof. exact gen_fit_transform_eq. Qed.
Print Assumptions C13_fit_transform_is_fit_then_transform.

(* shifting every time index (training series, update batches, transformed stretch) by k shifts the
   output index by k and leaves the values unchanged (y <> []: fit rejects an empty series) *)
Theorem C13_shift_equivariance_deseasonalizer : forall decompose sp m y zs s k, y <> [] ->
  let d := fold_left gen_des_update zs (des_fit decompose sp m y) in
  let d' := fold_left gen_des_update (map (shift_series k) zs)
                      (des_fit decompose sp m (shift_series k y)) in
  gen_des_transform d' (shift_series k s) = shift_series k (gen_des_transform d s) /\
  gen_des_inverse d' (shift_series k s) = shift_series k (gen_des_inverse d s).
Proof. exact code_des_shift_equivariant. Qed.
Print Assumptions C13_shift_equivariance_deseasonalizer.

(* the conditional variant's fitted state shifts the same way, so the theorem above applies to it *)
Theorem C13_shift_equivariance_conditional : forall test decompose sp m y s k, y <> [] ->
  cond_fit test decompose sp m (shift_series k y) = shift_state k (cond_fit test decompose sp m y) /\
  des_transform (shift_state k (cond_fit test decompose sp m y)) (shift_series k s) =
    shift_series k (des_transform (cond_fit test decompose sp m y) s) /\
  des_inverse (shift_state k (cond_fit test decompose sp m y)) (shift_series k s) =
    shift_series k (des_inverse (cond_fit test decompose sp m y) s).
Proof.
  exact (fun test decompose sp m y s k H =>
           conj (cond_fit_shift test decompose sp m y k H)
                (des_shift_state (cond_fit test decompose sp m y) s k)).
Qed.
Print Assumptions C13_shift_equivariance_conditional.

(* Detrender, given a shift-invariant trend oracle; the polynomial trend is one *)
Theorem C13_shift_equivariance_detrender : forall trend trend' s k,
  (forall t : Z, trend' (t + k)%Z == trend t)%Q ->
  seq_eq (gen_det_transform trend' (shift_series k s)) (shift_series k (gen_det_transform trend s)) /\
  seq_eq (gen_det_inverse trend' (shift_series k s)) (shift_series k (gen_det_inverse trend s)).
Proof. exact code_det_shift_equivariant. Qed.
Print Assumptions C13_shift_equivariance_detrender.

Theorem C13_polynomial_trend_is_shift_invariant : forall coef t0 t k,
  poly_trend coef (t0 + k) (t + k) = poly_trend coef t0 t.
Proof. exact poly_trend_shift. Qed.
Print Assumptions C13_polynomial_trend_is_shift_invariant.

(* pointwise maps, OptionalPassthrough, and every transformer that reads its observations by
   POSITION (values-only function g: HampelFilter, Imputer, CosineTransformer keep the index;
   ACF/PACF return a lag-indexed series, so only the values are invariant) *)
Theorem C13_shift_equivariance_positional : forall (f : Q -> Q) (g : list Q -> list Q) b
    (h h' : series -> series) s k,
  pw_apply f (shift_series k s) = shift_series k (pw_apply f s) /\
  (h' (shift_series k s) = shift_series k (h s) ->
   opt_apply b h' (shift_series k s) = shift_series k (opt_apply b h s)) /\
  positional_same_index g (shift_series k s) = shift_series k (positional_same_index g s) /\
  positional_lag_index g (shift_series k s) = positional_lag_index g s /\
  ((forall l, length (g l) = length l) -> sindex (positional_same_index g s) = sindex s).
Proof.
  exact (fun f g b h h' s k =>
    conj (pw_shift_equivariant f s k) (conj (opt_shift_equivariant b h h' s k)
      (conj (proj1 (positional_shift g s k)) (conj (proj2 (positional_shift g s k))
        (positional_index g s))))).
Qed.
Print Assumptions C13_shift_equivariance_positional.

(* HISTORICAL: selecting window observations by label (the pre-fix HampelFilter) is not
   shift-invariant, selecting them by position is *)
Theorem C13_historical_label_access_refuted :
  (exists s w k, take_label (shift_series k s) w <> take_label s w) /\
  (forall s w k, take_pos (shift_series k s) w = take_pos s w).
Proof. exact (conj take_label_refuted take_pos_shift). Qed.
Print Assumptions C13_historical_label_access_refuted.

(* ---- call histories: transform is a function of (fitted state, passed series) only ------------ *)
(* In the history semantics (ops Fit / Update with its update_params flag / Transform / Inverse; the
   last two are queries) removing every transform / inverse_transform call from a history changes
   neither the state nor the answer to any later call; two histories with the same fit / update
   calls answer every call identically.  For every estimator (any state type, fit, update,
   transform, inverse). *)
Theorem C13_transform_calls_do_not_change_state :
  forall (ST : Type) (fit : series -> ST) (update : ST -> series -> bool -> ST)
         (transform inverse : ST -> series -> series) h h' q,
  run ST fit update h = run ST fit update (strip h) /\
  answer ST fit update transform inverse h q = answer ST fit update transform inverse (strip h) q /\
  (strip h = strip h' ->
   answer ST fit update transform inverse h q = answer ST fit update transform inverse h' q).
Proof.
  exact (fun ST fit update transform inverse h h' q =>
    conj (transform_calls_do_not_change_state ST fit update h)
      (conj (answer_strip ST fit update transform inverse h q)
            (answer_independent_of_call_history ST fit update transform inverse h h' q))).
Qed.
Print Assumptions C13_transform_calls_do_not_change_state.

(* Detrender (regenerated transform / inverse_transform) over an ABSTRACT refitting trend forecaster
   (any state type, any fit, any update - refitting or not according to the flag -, any forecast
   function): after ANY history of fits, updates and earlier transform / inverse calls, what
   transform(z) returns comes back from inverse_transform as z, on z's index - the inverse uses the
   CURRENT trend, which is the one transform used *)
Theorem C13_roundtrip_after_any_history_detrender :
  forall (FS : Type) (ffit : series -> FS) (fupdate : FS -> series -> bool -> FS)
         (fpredict : FS -> Z -> Q) h qs z zt,
  let tr := fun s => gen_det_transform (fpredict s) in
  let inv := fun s => gen_det_inverse (fpredict s) in
  forallb is_query qs = true ->
  answer FS ffit fupdate tr inv h (Transform z) = Some zt ->
  exists zi, answer FS ffit fupdate tr inv (h ++ Transform z :: qs) (Inverse zt) = Some zi /\
             seq_eq zi z.
Proof. exact code_det_roundtrip_after_any_history. Qed.
Print Assumptions C13_roundtrip_after_any_history_detrender.

Theorem C13_roundtrip_after_any_history_deseasonalizer : forall decompose sp m h qs z zt,
  let upd := fun d z (_ : bool) => gen_des_update d z in
  0 < sp ->
  (forall y, Z.of_nat (length (decompose m sp (svals y))) = sp) ->
  (m = Additive \/ forall y, Forall (fun c => ~ c == 0)%Q (decompose m sp (svals y))) ->
  forallb is_query qs = true ->
  answer dstate (des_fit decompose sp m) upd gen_des_transform gen_des_inverse h (Transform z)
    = Some zt ->
  exists zi, answer dstate (des_fit decompose sp m) upd gen_des_transform gen_des_inverse
                    (h ++ Transform z :: qs) (Inverse zt) = Some zi /\ seq_eq zi z.
Proof. exact code_des_roundtrip_after_any_history. Qed.
Print Assumptions C13_roundtrip_after_any_history_deseasonalizer.

(* transform (inverse_transform) of a sub-stretch - the observations whose time point satisfies any
   predicate `keep`, e.g. the training part of the whole series - is the restriction of the
   transform of the whole; also for pointwise maps and OptionalPassthrough *)
Theorem C13_transform_restriction : forall d trend keep s,
  gen_des_transform d (restrict keep s) = restrict keep (gen_des_transform d s) /\
  gen_des_inverse d (restrict keep s) = restrict keep (gen_des_inverse d s) /\
  gen_det_transform trend (restrict keep s) = restrict keep (gen_det_transform trend s) /\
  gen_det_inverse trend (restrict keep s) = restrict keep (gen_det_inverse trend s).
Proof. exact code_transform_restriction. Qed.
Print Assumptions C13_transform_restriction.

Theorem C13_transform_restriction_pointwise : forall (f : Q -> Q) b (h : series -> series) keep s,
  pw_apply f (restrict keep s) = restrict keep (pw_apply f s) /\
  (h (restrict keep s) = restrict keep (h s) ->
   opt_apply b h (restrict keep s) = restrict keep (opt_apply b h s)).
Proof. exact (fun f b h keep s => conj (pw_restrict f keep s) (opt_restrict b h keep s)). Qed.
Print Assumptions C13_transform_restriction_pointwise.

(* WITNESS of the excluded class of defect (not in /repo; seeded regression C13-c): a transform that
   remembers the in-sample trend of the training index across an update breaks the round trip on
   the training series and disagrees with the transform under the refitted trend *)
Theorem C13_witness_memoised_trend_refuted :
  exists st0 y refitted,
    let '(yt1, st1) := memo_transform st0 y in
    let st2 := memo_update st1 refitted in
    let '(yt2, st3) := memo_transform st2 y in
    ~ (val_at (memo_inverse st3 yt2) 0 == val_at y 0)%Q
    /\ ~ (val_at yt2 0 == val_at (det_transform refitted y) 0)%Q.
Proof. exact memoised_trend_refuted. Qed.
Print Assumptions C13_witness_memoised_trend_refuted.

(* hypotheses are satisfiable by a non-trivial instance: sp = 3, training starts at 5, one update
   batch starting at 12, a GAPPED stretch with time points 9, 10, 13, 17 *)
Example C13_nonvacuous :
  wf (des_fit ex_dec 3 Additive ex_y) /\ ex_y <> [] /\
  des_transform (des_after des_update (des_fit ex_dec 3 Additive ex_y) [contiguous 12 [9; 9]%Q])
                (combine [9; 10; 13; 17] [10; 10; 10; 10]%Q)
  = combine [9; 10; 13; 17] [10 - 0; 10 - 1; 10 - 1; 10 - -1]%Q.
Proof. exact ex_nonvacuous. Qed.
