(* C14 bridge: the expressions regenerated from the sources on this run (C14/Gen.v, written by
   translator/closedform_c14.py) are, for ALL arguments, what the hand model of Model.v is built
   from.  If an index expression, a comparison, a loop bound, the body of the PAA running-sum loop
   or the data flow of the drift branch changes in the source, the corresponding lemma stops
   checking (a broken tie for the harness).

   Conventions: integers of the source are Z in Gen.v and nat in the model (`zn` converts);
   numpy / pandas primitives are spelled out here once: np.arange(a, b) = `arange`,
   series.iloc[idxs] = `iloc`, out = np.full(L, fill); out[:hi] = s = prefix / suffix statements,
   np.linspace(lo, hi, num)[j] = lo + j (hi - lo) / (num - 1), as_strided with item strides
   (s0, s1): element (i, j) = base[i s0 + j s1]. *)
From Coq Require Import QArith Qround List Bool ZArith Arith Lia Lqa ZifyBool.
Require Import SkV.Lib.Base SkV.C14.Model SkV.C14.PaaProof SkV.C14.Proofs SkV.C14.Gen.
Import ListNotations.
Ltac Zify.zify_post_hook ::= Z.to_euclidean_division_equations.

Definition zn (n : nat) : Z := Z.of_nat n.

(* ---------- PaddingTransformer ---------- *)

Lemma bridge_pad_reject mx L : gen_pad_reject (zn mx) (zn L) = (L <? mx)%nat.
Proof. unfold gen_pad_reject, zn. lia. Qed.

(* out = np.full(alloc, fill); out[:hi] = series : length alloc, the first hi values are the
   series, everything behind them is the fill value *)
Lemma bridge_pad_series L fill (s : series) : (length s <= L)%nat ->
  let alloc := Z.to_nat (gen_pad_alloc (zn L)) in
  let hi := Z.to_nat (gen_pad_copy_hi (zn (length s))) in
  hi = length s /\
  length (pad_series L fill s) = alloc /\
  firstn hi (pad_series L fill s) = s /\
  skipn hi (pad_series L fill s) = repeat fill (alloc - hi).
Proof.
  intro H. cbv zeta. unfold gen_pad_alloc, gen_pad_copy_hi, zn. rewrite !Nat2Z.id.
  unfold pad_series. split; [reflexivity|]. split; [|split].
  - rewrite app_length, repeat_length. lia.
  - rewrite firstn_app, firstn_all, Nat.sub_diag. cbn [firstn]. apply app_nil_r.
  - rewrite skipn_app, skipn_all, Nat.sub_diag. reflexivity.
Qed.

(* ---------- TruncationTransformer ---------- *)

Definition arange (a b : Z) : list nat := seq (Z.to_nat a) (Z.to_nat (b - a)).
Definition iloc (idxs : list nat) (s : series) : series := map (fun i => nth i s 0%Q) idxs.

Lemma skipn_cons_nth {A} (d : A) : forall a (s : list A), (a < length s)%nat ->
  skipn a s = nth a s d :: skipn (S a) s.
Proof.
  induction a as [|a IH]; intros [|x s] H; cbn [length] in H; try lia; [reflexivity|].
  cbn [skipn nth]. apply IH. lia.
Qed.
Lemma iloc_seq : forall k a (s : series), (a + k <= length s)%nat ->
  iloc (seq a k) s = firstn k (skipn a s).
Proof.
  induction k as [|k IH]; intros a s H; [reflexivity|].
  cbn [seq iloc map]. rewrite (skipn_cons_nth 0%Q a s) by lia. cbn [firstn]. f_equal.
  apply IH. lia.
Qed.

Lemma bridge_trunc_reject mn lo : gen_trunc_reject (zn mn) (zn lo) = (mn <? lo)%nat.
Proof. unfold gen_trunc_reject, zn. lia. Qed.
Lemma bridge_trunc_none lo (s : series) : (lo <= length s)%nat ->
  iloc (arange 0 (gen_trunc_none_stop (zn lo))) s = slice 0 lo s.
Proof.
  intro H. unfold arange, gen_trunc_none_stop, zn, slice.
  replace (Z.to_nat (Z.of_nat lo - 0)) with lo by lia. change (Z.to_nat 0) with 0%nat.
  rewrite iloc_seq by lia. rewrite Nat.sub_0_r. reflexivity.
Qed.
Lemma bridge_trunc_range lo u (s : series) : (u <= length s)%nat ->
  iloc (arange (gen_trunc_start (zn lo) (zn u)) (gen_trunc_stop (zn lo) (zn u))) s = slice lo u s.
Proof.
  intro H. unfold arange, gen_trunc_start, gen_trunc_stop, zn, slice.
  replace (Z.to_nat (Z.of_nat u - Z.of_nat lo)) with (u - lo)%nat by lia. rewrite Nat2Z.id.
  destruct (le_lt_dec lo u) as [Hle|Hlt].
  - apply iloc_seq. lia.
  - replace (u - lo)%nat with 0%nat by lia. reflexivity.
Qed.

(* ---------- TSInterpolator ---------- *)

Lemma Qn_pred n : (1 <= n)%nat -> Qn (n - 1) == inject_Z (zn n) - 1.
Proof.
  intro H. unfold Qn, zn. rewrite Nat2Z.inj_sub by exact H.
  unfold Qeq, Qminus, Qplus, Qopp, inject_Z. cbn. lia.
Qed.

(* knots: np.linspace(klo, khi, knum), i.e. knot i sits at klo + i h with h = (khi-klo)/(knum-1);
   query j: np.linspace(qlo, qhi, qnum)[j].  In index units of the knots query j sits at
   (q_j - klo) / h - the model's interp_pos *)
Lemma bridge_interp_pos n m j : (2 <= n)%nat -> (2 <= m)%nat ->
  let klo := inject_Z (gen_interp_knot_lo (zn n) (zn m)) in
  let khi := inject_Z (gen_interp_knot_hi (zn n) (zn m)) in
  let knum := inject_Z (gen_interp_knot_num (zn n) (zn m)) in
  let qlo := inject_Z (gen_interp_query_lo (zn n) (zn m)) in
  let qhi := inject_Z (gen_interp_query_hi (zn n) (zn m)) in
  let qnum := inject_Z (gen_interp_query_num (zn n) (zn m)) in
  let h := (khi - klo) / (knum - 1) in
  let qj := qlo + Qn j * ((qhi - qlo) / (qnum - 1)) in
  ((qj - klo) / h == interp_pos n m j)%Q.
Proof.
  intros Hn Hm. cbv zeta.
  unfold gen_interp_knot_lo, gen_interp_knot_hi, gen_interp_knot_num, gen_interp_query_lo,
    gen_interp_query_hi, gen_interp_query_num, interp_pos.
  rewrite <- (Qn_pred n) by lia. rewrite <- (Qn_pred m) by lia.
  pose proof (Qn_pos (n - 1) ltac:(lia)). pose proof (Qn_pos (m - 1) ltac:(lia)).
  change (inject_Z 0) with 0%Q. change (inject_Z 1) with 1%Q. field. split; lra.
Qed.

(* ---------- IntervalSegmenter ---------- *)

Lemma bridge_iseg_reject k n : gen_iseg_reject (zn k) (zn n) = (n / 2 <? k)%nat.
Proof.
  unfold gen_iseg_reject, zn. change 2%Z with (Z.of_nat 2). rewrite <- Nat2Z.inj_div. lia.
Qed.

(* np.array_split yields chunks of consecutive indices; (first, last) index of every chunk *)
Fixpoint chunk_ends (a : nat) (sizes : list nat) : list (nat * nat) :=
  match sizes with [] => [] | z :: t => (a, a + z - 1)%nat :: chunk_ends (a + z) t end.
(* fit composed with transform: the slice bounds X[:, start:end] of a chunk *)
Definition gen_interval (c : nat * nat) : nat * nat :=
  (Z.to_nat (gen_iseg_start (zn (fst c)) (zn (snd c))),
   Z.to_nat (gen_iseg_end (zn (fst c)) (zn (snd c)))).

Lemma bridge_iseg_chunks : forall sizes a, Forall (fun z => (1 <= z)%nat) sizes ->
  chunks_from a sizes = map gen_interval (chunk_ends a sizes).
Proof.
  induction sizes as [|z t IH]; intros a H; [reflexivity|].
  inversion H as [|? ? Hz Ht]; subst. cbn [chunks_from chunk_ends map]. f_equal.
  - unfold gen_interval, gen_iseg_start, gen_iseg_end, zn. cbn [fst snd]. f_equal; lia.
  - apply IH. exact Ht.
Qed.
Lemma bridge_iseg_bounds n k : (1 <= k <= n)%nat ->
  split_bounds n k = map gen_interval (chunk_ends 0 (split_sizes n k)).
Proof.
  intro H. unfold split_bounds. apply bridge_iseg_chunks.
  assert (Hq : (1 <= n / k)%nat) by (apply Nat.div_le_lower_bound; lia).
  unfold split_sizes. apply Forall_app. split; apply Forall_forall; intros z Hz;
    apply repeat_spec in Hz; lia.
Qed.

(* ---------- SlidingWindowSegmenter ---------- *)

Lemma bridge_slide_reject w : gen_slide_reject (zn w) = (w =? 0)%nat.
Proof. unfold gen_slide_reject, zn. lia. Qed.
Lemma bridge_slide_pad w : Z.to_nat (gen_slide_pad (zn w)) = (w / 2)%nat.
Proof.
  unfold gen_slide_pad, zn. change 2%Z with (Z.of_nat 2). rewrite <- Nat2Z.inj_div.
  apply Nat2Z.id.
Qed.
Lemma bridge_slide_padded_len w (s : series) :
  length (edge_pad (Z.to_nat (gen_slide_pad (zn w))) s)
  = Z.to_nat (gen_slide_padded_len (zn (length s)) (gen_slide_pad (zn w))).
Proof.
  unfold gen_slide_padded_len. rewrite <- (Z2Nat.id (gen_slide_pad (zn w))).
  - rewrite bridge_slide_pad. unfold edge_pad. rewrite !app_length, !repeat_length. unfold zn. lia.
  - unfold gen_slide_pad, zn. lia.
Qed.
(* as_strided(padded, shape = (rows, cols), strides = (s0, s1) items): rows x cols windows and
   element (i, j) is padded[i s0 + j s1] *)
Lemma bridge_slide_windows w (s : series) : (1 <= w)%nat -> s <> [] ->
  let n := zn (length s) in
  let padded := edge_pad (Z.to_nat (gen_slide_pad (zn w))) s in
  length (sliding_coded w s) = Z.to_nat (gen_slide_rows n (zn w)) /\
  forall i, (i < length s)%nat ->
    length (nth i (sliding_coded w s) []) = Z.to_nat (gen_slide_cols n (zn w)) /\
    forall j, (j < w)%nat ->
      nth j (nth i (sliding_coded w s) []) 0%Q =
      nth (Z.to_nat (zn i * gen_slide_stride0 n (zn w) + zn j * gen_slide_stride1 n (zn w)))
          padded 0%Q.
Proof.
  intros Hw Hne. cbv zeta. rewrite bridge_slide_pad.
  destruct (sliding_segment_spec w s Hw Hne) as (Hrows & Hwin).
  unfold gen_slide_rows, gen_slide_cols, gen_slide_stride0, gen_slide_stride1, zn.
  rewrite !Nat2Z.id. split; [exact Hrows|].
  intros i Hi. destruct (Hwin i Hi) as (Hlen & _). split; [exact Hlen|].
  intros j Hj. unfold sliding_coded. rewrite map_seq_nth by exact Hi.
  rewrite slice_nth by lia. f_equal. lia.
Qed.

(* ---------- PAA ---------- *)

Lemma bridge_paa_reject m na :
  gen_paa_reject_low (zn m) (zn na) || gen_paa_reject_high (zn m) (zn na)
  = (m =? 0)%nat || (na <? m)%nat.
Proof. unfold gen_paa_reject_low, gen_paa_reject_high, zn. lia. Qed.
Lemma bridge_paa_len m (s : series) : gen_paa_len (Qn (length s)) (Qn m) = paa_len m s.
Proof. reflexivity. Qed.

(* the body of `for n in range(num_atts)` (symbolically executed) is the model's step function *)
Lemma bridge_paa_step L st x : gen_paa_step L st x = paa_step L st x.
Proof.
  unfold gen_paa_step, paa_step. destruct st as [f c z a]. cbn [fr cur sz sm]. cbv zeta.
  destruct (qltb 1 (L - z)); destruct (Qeq_bool _ L); f_equal; apply Nat.add_1_r.
Qed.
Lemma fold_left_ext {A B} (f g : A -> B -> A) : (forall a b, f a b = g a b) ->
  forall l a, fold_left f l a = fold_left g l a.
Proof. intros H l. induction l as [|b l IH]; intro a; cbn; [reflexivity|]. rewrite H. apply IH. Qed.

(* the whole per-series algorithm: initial state, loop, lost-last-frame repair *)
Lemma bridge_paa_coded m (s : series) : (1 <= m)%nat ->
  paa_coded m s =
  let L := gen_paa_len (Qn (length s)) (Qn m) in
  let st := fold_left (gen_paa_step L) s paa_init in
  if gen_paa_last (zn (cur st)) (zn m) then fr st ++ [gen_paa_tail (sm st) L] else fr st.
Proof.
  intro Hm. unfold paa_coded. cbv zeta. rewrite bridge_paa_len.
  rewrite (fold_left_ext (gen_paa_step (paa_len m s)) (paa_step (paa_len m s))
             (bridge_paa_step (paa_len m s))).
  replace (gen_paa_last (zn (cur (fold_left (paa_step (paa_len m s)) s paa_init))) (zn m))
    with (cur (fold_left (paa_step (paa_len m s)) s paa_init) =? m - 1)%nat
    by (unfold gen_paa_last, zn; lia).
  reflexivity.
Qed.

(* ---------- RandomIntervalFeatureExtractor ---------- *)

Lemma bridge_rife feats ivs (s : series) :
  let nf := zn (length feats) in
  let ni := zn (length ivs) in
  length (rife_row feats ivs s) = Z.to_nat (gen_rife_width nf ni) /\
  forall f v, (f < length feats)%nat -> (v < length ivs)%nat ->
    let iv := nth v ivs (0, 0)%nat in
    nth (Z.to_nat (gen_rife_pos nf ni (zn f) (zn v))) (rife_row feats ivs s) (0%Q, false) =
    feat_apply (nth f feats FMean)
      (slice (Z.to_nat (gen_rife_lo (zn (fst iv)) (zn (snd iv))))
             (Z.to_nat (gen_rife_hi (zn (fst iv)) (zn (snd iv)))) s).
Proof.
  cbv zeta. destruct (rife_spec feats ivs s) as (Hlen & Hnth).
  unfold gen_rife_width, gen_rife_pos, gen_rife_lo, gen_rife_hi, zn. split.
  - rewrite Hlen. lia.
  - intros f v Hf Hv. rewrite !Nat2Z.id.
    replace (Z.to_nat (Z.of_nat f * Z.of_nat (length ivs) + Z.of_nat v))
      with (f * length ivs + v)%nat by lia.
    apply Hnth; assumption.
Qed.

(* ---------- Imputer(method="drift") ---------- *)

(* the trend is fitted on the forward/backward-filled COPY and the predictions fill the gaps of
   the ORIGINAL series - the data flow of Model.impute_core IDrift (fit on final_fill l, fill l) *)
Lemma bridge_drift_flow : gen_drift_fit_on = ZFilledCopy /\ gen_drift_fill_into = ZOriginal.
Proof. split; reflexivity. Qed.
