(* C14 bridge: the expressions regenerated from the sources on this run (C14/Gen.v, written by
   translator/closedform_c14.py) are, for ALL arguments, what the hand model of Model.v is built
   from.  If an index expression, a comparison, a loop bound, the body of the PAA running-sum loop
   or the data flow of the drift branch changes in the source, the corresponding lemma stops
   checking (a broken tie for the harness).

   Conventions: integers of the source are Z in Gen.v and nat in the model (`zn` converts);
   numpy / pandas primitives are spelled out here once: np.arange(a, b) = `arange`,
   series.iloc[idxs] = `iloc`, out = np.full(L, fill); out[:hi] = s = prefix / suffix statements,
   np.linspace(lo, hi, num)[j] = lo + j (hi - lo) / (num - 1), as_strided with item strides
   (s0, s1): element (i, j) = base[i s0 + j s1]. *)
From Coq Require Import QArith Qround List Bool ZArith Arith Lia Lqa ZifyBool.
Require Import SkV.Lib.Base SkV.C14.Model SkV.C14.PaaProof SkV.C14.Proofs SkV.C14.Gen.
Import ListNotations.
Ltac Zify.zify_post_hook ::= Z.to_euclidean_division_equations.

Definition zn (n : nat) : Z := Z.of_nat n.

(* ---------- PaddingTransformer ---------- *)

Lemma bridge_pad_reject mx L : gen_pad_reject (zn mx) (zn L) = (L <? mx)%nat.
Proof. unfold gen_pad_reject, zn. lia. Qed.

(* out = np.full(alloc, fill); out[:hi] = series : length alloc, the first hi values are the
   series, everything behind them is the fill value *)
Lemma bridge_pad_series L fill (s : series) : (length s <= L)%nat ->
  let alloc := Z.to_nat (gen_pad_alloc (zn L)) in
  let hi := Z.to_nat (gen_pad_copy_hi (zn (length s))) in
  hi = length s /\
  length (pad_series L fill s) = alloc /\
  firstn hi (pad_series L fill s) = s /\
  skipn hi (pad_series L fill s) = repeat fill (alloc - hi).
Proof.
  intro H. cbv zeta.
  replace (Z.to_nat (gen_pad_alloc (zn L))) with L by (unfold gen_pad_alloc, zn; lia).
  replace (Z.to_nat (gen_pad_copy_hi (zn (length s)))) with (length s)
    by (unfold gen_pad_copy_hi, zn; lia).
  unfold pad_series. split; [reflexivity|]. split; [|split].
  - rewrite app_length, repeat_length. lia.
  - rewrite firstn_app, firstn_all, Nat.sub_diag. cbn [firstn]. apply app_nil_r.
  - rewrite skipn_app, skipn_all, Nat.sub_diag. reflexivity.
Qed.

(* ---------- TruncationTransformer ---------- *)

Definition arange (a b : Z) : list nat := seq (Z.to_nat a) (Z.to_nat (b - a)).
Definition iloc (idxs : list nat) (s : series) : series := map (fun i => nth i s 0%Q) idxs.

Lemma skipn_cons_nth {A} (d : A) : forall a (s : list A), (a < length s)%nat ->
  skipn a s = nth a s d :: skipn (S a) s.
Proof.
  induction a as [|a IH]; intros [|x s] H; cbn [length] in H; try lia; [reflexivity|].
  cbn [skipn nth]. apply IH. lia.
Qed.
Lemma iloc_seq : forall k a (s : series), (a + k <= length s)%nat ->
  iloc (seq a k) s = firstn k (skipn a s).
Proof.
  induction k as [|k IH]; intros a s H; [reflexivity|].
  cbn [seq iloc map]. rewrite (skipn_cons_nth 0%Q a s) by lia. cbn [firstn]. f_equal.
  apply IH. lia.
Qed.

Lemma bridge_trunc_reject mn lo : gen_trunc_reject (zn mn) (zn lo) = (mn <? lo)%nat.
Proof. unfold gen_trunc_reject, zn. lia. Qed.
Lemma bridge_trunc_none lo (s : series) : (lo <= length s)%nat ->
  iloc (arange 0 (gen_trunc_none_stop (zn lo))) s = slice 0 lo s.
Proof.
  intro H. unfold arange, slice.
  replace (Z.to_nat (gen_trunc_none_stop (zn lo) - 0)) with lo
    by (unfold gen_trunc_none_stop, zn; lia).
  change (Z.to_nat 0) with 0%nat. rewrite iloc_seq by lia. rewrite Nat.sub_0_r. reflexivity.
Qed.
Lemma bridge_trunc_range lo u (s : series) : (u <= length s)%nat ->
  iloc (arange (gen_trunc_start (zn lo) (zn u)) (gen_trunc_stop (zn lo) (zn u))) s = slice lo u s.
Proof.
  intro H. unfold arange, slice.
  replace (Z.to_nat (gen_trunc_stop (zn lo) (zn u) - gen_trunc_start (zn lo) (zn u)))
    with (u - lo)%nat by (unfold gen_trunc_start, gen_trunc_stop, zn; lia).
  replace (Z.to_nat (gen_trunc_start (zn lo) (zn u))) with lo
    by (unfold gen_trunc_start, zn; lia).
  destruct (le_lt_dec lo u) as [Hle|Hlt].
  - apply iloc_seq. lia.
  - replace (u - lo)%nat with 0%nat by lia. reflexivity.
Qed.

(* ---------- TSInterpolator ---------- *)

Lemma Qn_pred n : (1 <= n)%nat -> Qn (n - 1) == inject_Z (zn n) - 1.
Proof.
  intro H. unfold Qn, zn. rewrite Nat2Z.inj_sub by exact H.
  unfold Qeq, Qminus, Qplus, Qopp, inject_Z. cbn. lia.
Qed.

(* knots: np.linspace(klo, khi, knum), i.e. knot i sits at klo + i h with h = (khi-klo)/(knum-1);
   query j: np.linspace(qlo, qhi, qnum)[j].  In index units of the knots query j sits at
   (q_j - klo) / h - the model's interp_pos *)
Lemma bridge_interp_pos n m j : (2 <= n)%nat -> (2 <= m)%nat ->
  let klo := inject_Z (gen_interp_knot_lo (zn n) (zn m)) in
  let khi := inject_Z (gen_interp_knot_hi (zn n) (zn m)) in
  let knum := inject_Z (gen_interp_knot_num (zn n) (zn m)) in
  let qlo := inject_Z (gen_interp_query_lo (zn n) (zn m)) in
  let qhi := inject_Z (gen_interp_query_hi (zn n) (zn m)) in
  let qnum := inject_Z (gen_interp_query_num (zn n) (zn m)) in
  let h := (khi - klo) / (knum - 1) in
  let qj := qlo + Qn j * ((qhi - qlo) / (qnum - 1)) in
  ((qj - klo) / h == interp_pos n m j)%Q.
Proof.
  intros Hn Hm. cbv zeta.
  unfold gen_interp_knot_lo, gen_interp_knot_hi, gen_interp_knot_num, gen_interp_query_lo,
    gen_interp_query_hi, gen_interp_query_num, interp_pos.
  rewrite <- (Qn_pred n) by lia. rewrite <- (Qn_pred m) by lia.
  pose proof (Qn_pos (n - 1) ltac:(lia)). pose proof (Qn_pos (m - 1) ltac:(lia)).
  change (inject_Z 0) with 0%Q. change (inject_Z 1) with 1%Q. field. split; lra.
Qed.

(* ---------- IntervalSegmenter ---------- *)

Lemma bridge_iseg_reject k n : gen_iseg_reject (zn k) (zn n) = (n / 2 <? k)%nat.
Proof.
  pose proof (Nat2Z.inj_div n 2) as H. change (Z.of_nat 2) with 2%Z in H.
  unfold gen_iseg_reject, zn. lia.
Qed.

(* np.array_split yields chunks of consecutive indices; (first, last) index of every chunk *)
Fixpoint chunk_ends (a : nat) (sizes : list nat) : list (nat * nat) :=
  match sizes with [] => [] | z :: t => (a, a + z - 1)%nat :: chunk_ends (a + z) t end.
(* fit composed with transform: the slice bounds X[:, start:end] of a chunk *)
Definition gen_interval (c : nat * nat) : nat * nat :=
  (Z.to_nat (gen_iseg_start (zn (fst c)) (zn (snd c))),
   Z.to_nat (gen_iseg_end (zn (fst c)) (zn (snd c)))).

Lemma bridge_iseg_chunks : forall sizes a, Forall (fun z => (1 <= z)%nat) sizes ->
  chunks_from a sizes = map gen_interval (chunk_ends a sizes).
Proof.
  induction sizes as [|z t IH]; intros a H; [reflexivity|].
  inversion H as [|? ? Hz Ht]; subst. cbn [chunks_from chunk_ends map]. f_equal.
  - unfold gen_interval, gen_iseg_start, gen_iseg_end, zn. cbn [fst snd]. f_equal; lia.
  - apply IH. exact Ht.
Qed.
Lemma bridge_iseg_bounds n k : (1 <= k <= n)%nat ->
  split_bounds n k = map gen_interval (chunk_ends 0 (split_sizes n k)).
Proof.
  intro H. unfold split_bounds. apply bridge_iseg_chunks.
  assert (Hq : (1 <= n / k)%nat) by (apply Nat.div_le_lower_bound; lia).
  unfold split_sizes. apply Forall_app. split; apply Forall_forall; intros z Hz;
    apply repeat_spec in Hz; lia.
Qed.

(* ---------- SlidingWindowSegmenter ---------- *)

Lemma bridge_slide_reject w : gen_slide_reject (zn w) = (w =? 0)%nat.
Proof. unfold gen_slide_reject, zn. lia. Qed.
Lemma bridge_slide_pad w : Z.to_nat (gen_slide_pad (zn w)) = (w / 2)%nat.
Proof.
  pose proof (Nat2Z.inj_div w 2) as H. change (Z.of_nat 2) with 2%Z in H.
  unfold gen_slide_pad, zn. lia.
Qed.
Lemma bridge_slide_padded_len w (s : series) :
  length (edge_pad (Z.to_nat (gen_slide_pad (zn w))) s)
  = Z.to_nat (gen_slide_padded_len (zn (length s)) (gen_slide_pad (zn w))).
Proof.
  unfold gen_slide_padded_len. rewrite <- (Z2Nat.id (gen_slide_pad (zn w))).
  - rewrite bridge_slide_pad. unfold edge_pad. rewrite !app_length, !repeat_length. unfold zn. lia.
  - unfold gen_slide_pad, zn. lia.
Qed.
(* as_strided(padded, shape = (rows, cols), strides = (s0, s1) items): rows x cols windows and
   element (i, j) is padded[i s0 + j s1] *)
Lemma bridge_slide_windows w (s : series) : (1 <= w)%nat -> s <> [] ->
  let n := zn (length s) in
  let padded := edge_pad (Z.to_nat (gen_slide_pad (zn w))) s in
  length (sliding_coded w s) = Z.to_nat (gen_slide_rows n (zn w)) /\
  forall i, (i < length s)%nat ->
    length (nth i (sliding_coded w s) []) = Z.to_nat (gen_slide_cols n (zn w)) /\
    forall j, (j < w)%nat ->
      nth j (nth i (sliding_coded w s) []) 0%Q =
      nth (Z.to_nat (zn i * gen_slide_stride0 n (zn w) + zn j * gen_slide_stride1 n (zn w)))
          padded 0%Q.
Proof.
  intros Hw Hne. cbv zeta. rewrite bridge_slide_pad.
  destruct (sliding_segment_spec w s Hw Hne) as (Hrows & Hwin).
  unfold gen_slide_rows, gen_slide_cols, gen_slide_stride0, gen_slide_stride1, zn.
  rewrite !Nat2Z.id. split; [exact Hrows|].
  intros i Hi. destruct (Hwin i Hi) as (Hlen & _). split; [exact Hlen|].
  intros j Hj. unfold sliding_coded. rewrite map_seq_nth by exact Hi.
  rewrite slice_nth by lia. f_equal. lia.
Qed.

(* ---------- PAA ---------- *)

Lemma bridge_paa_reject m na :
  gen_paa_reject_low (zn m) (zn na) || gen_paa_reject_high (zn m) (zn na)
  = (m =? 0)%nat || (na <? m)%nat.
Proof. unfold gen_paa_reject_low, gen_paa_reject_high, zn. lia. Qed.
Lemma bridge_paa_len m (s : series) : gen_paa_len (Qn (length s)) (Qn m) = paa_len m s.
Proof. reflexivity. Qed.

(* The body of `for n in range(num_atts)` (symbolically executed; the state variables are found by
   their role) against the model's step function.  The comparison is SEMANTIC: states are compared
   field by field up to == on Q, the tests of both sides are case-split independently and
   contradictory combinations are discharged by arithmetic, so an equivalent but differently
   written loop body still proves. *)
Definition st_eq (a b : paa_st) : Prop :=
  Forall2 Qeq (fr a) (fr b) /\ cur a = cur b /\ sz a == sz b /\ sm a == sm b.

Lemma Forall2_Qeq_refl : forall l : list Q, Forall2 Qeq l l.
Proof. induction l; constructor; [reflexivity|assumption]. Qed.
Lemma Forall2_Qeq_trans : forall l1 l2 l3 : list Q,
  Forall2 Qeq l1 l2 -> Forall2 Qeq l2 l3 -> Forall2 Qeq l1 l3.
Proof.
  intros l1 l2 l3 H. revert l3. induction H as [|a b l1 l2 Hab _ IH]; intros l3 H3;
    inversion H3; subst; constructor; [rewrite Hab; assumption|apply IH; assumption].
Qed.
Lemma st_eq_refl a : st_eq a a.
Proof. repeat split; try reflexivity. apply Forall2_Qeq_refl. Qed.
Lemma st_eq_trans a b c : st_eq a b -> st_eq b c -> st_eq a c.
Proof.
  intros (H1 & H2 & H3 & H4) (G1 & G2 & G3 & G4). repeat split.
  - eapply Forall2_Qeq_trans; eassumption.
  - congruence.
  - rewrite H3. exact G3.
  - rewrite H4. exact G4.
Qed.

Lemma qltb_true a b : qltb a b = true -> a < b.
Proof.
  unfold qltb. intro H. apply negb_true_iff in H. apply Qnot_le_lt. intro Hle.
  apply Qle_bool_iff in Hle. congruence.
Qed.
Lemma qltb_false a b : qltb a b = false -> b <= a.
Proof. unfold qltb. intro H. apply negb_false_iff in H. apply Qle_bool_iff. exact H. Qed.
Lemma Qle_bool_true a b : Qle_bool a b = true -> a <= b.
Proof. apply Qle_bool_iff. Qed.
Lemma Qle_bool_false a b : Qle_bool a b = false -> b < a.
Proof. intro H. apply Qnot_le_lt. intro Hle. apply Qle_bool_iff in Hle. congruence. Qed.

Ltac q_tests :=
  repeat match goal with
  | |- context [qltb ?a ?b] =>
      let H := fresh "T" in
      destruct (qltb a b) eqn:H; [apply qltb_true in H|apply qltb_false in H]; cbv beta iota
  | |- context [Qle_bool ?a ?b] =>
      let H := fresh "T" in
      destruct (Qle_bool a b) eqn:H; [apply Qle_bool_true in H|apply Qle_bool_false in H];
      cbv beta iota
  end;
  repeat match goal with
  | |- context [Qeq_bool ?a ?b] =>
      let H := fresh "T" in
      destruct (Qeq_bool a b) eqn:H; [apply Qeq_bool_eq in H|apply Qeq_bool_neq in H];
      cbv beta iota
  end.
Ltac q_eq := first [reflexivity | ring | lra | (field; lra)].
Ltac q_div := first [reflexivity | (unfold Qdiv; apply Qmult_comp; [q_eq|reflexivity])].
Ltac q_frames :=
  first [ apply Forall2_Qeq_refl
        | apply Forall2_app; [apply Forall2_Qeq_refl|constructor; [q_div|constructor]] ].
Ltac q_state :=
  unfold st_eq; cbn [fr cur sz sm];
  first [ solve [split; [q_frames
                        |split; [first [reflexivity|lia|(rewrite ?app_length; cbn [length]; lia)]
                                |split; q_eq]]]
        | exfalso; lra ].

(* The model counts the completed frames in `cur`; the source may keep such a counter or use
   len(frames) instead.  Both agree on the states the loop can reach: cur = length fr. *)
Lemma bridge_paa_step L st x : cur st = length (fr st) ->
  st_eq (gen_paa_step L st x) (paa_step L st x).
Proof.
  unfold gen_paa_step, paa_step. destruct st as [f c z a]. cbn [fr cur sz sm]. intro Hinv.
  cbv zeta. q_tests; q_state.
Qed.

(* the invariant is kept by the model's step (a property of Model.v alone) *)
Lemma paa_step_counts L st x : cur st = length (fr st) ->
  cur (paa_step L st x) = length (fr (paa_step L st x)).
Proof.
  destruct st as [f c z a]. unfold paa_step. cbn [fr cur sz sm]. intro Hinv. cbv zeta.
  destruct (Qeq_bool _ L); cbn [fr cur]; [rewrite app_length; cbn [length]; lia|exact Hinv].
Qed.

(* the model's step respects == (a property of Model.v alone) *)
Lemma paa_step_proper L a b x : st_eq a b -> st_eq (paa_step L a x) (paa_step L b x).
Proof.
  destruct a as [f c z m], b as [f' c' z' m']. unfold st_eq. cbn [fr cur sz sm].
  intros (Hf & Hc & Hz & Hm). subst c'. unfold paa_step. cbn [fr cur sz sm]. cbv zeta.
  q_tests; cbn [fr cur sz sm];
    first [ exfalso; lra
          | split; [first [ exact Hf
                          | apply Forall2_app; [exact Hf|constructor; [|constructor]];
                            rewrite ?Hz, ?Hm; reflexivity ]
                   |split; [reflexivity|split; rewrite ?Hz, ?Hm; reflexivity]] ].
Qed.

Lemma bridge_paa_fold L : forall (s : series) a b, st_eq a b -> cur b = length (fr b) ->
  st_eq (fold_left (gen_paa_step L) s a) (fold_left (paa_step L) s b).
Proof.
  induction s as [|x s IH]; intros a b H Hinv; cbn [fold_left]; [exact H|].
  assert (Ha : cur a = length (fr a)).
  { destruct H as (Hf & Hc & _). rewrite Hc, Hinv. apply eq_sym. eapply Forall2_len. exact Hf. }
  apply IH; [|apply paa_step_counts; exact Hinv].
  eapply st_eq_trans; [apply bridge_paa_step; exact Ha|apply paa_step_proper; exact H].
Qed.

(* the whole per-series algorithm as regenerated: initial state, loop, lost-last-frame repair *)
Definition gen_paa_coded (m : nat) (s : series) : series :=
  let L := gen_paa_len (Qn (length s)) (Qn m) in
  let st := fold_left (gen_paa_step L) s paa_init in
  if gen_paa_last (zn (cur st)) (zn m) then fr st ++ [gen_paa_tail (sm st) L] else fr st.

Lemma bridge_paa_coded m (s : series) : (1 <= m)%nat ->
  Forall2 Qeq (gen_paa_coded m s) (paa_coded m s).
Proof.
  intro Hm. unfold gen_paa_coded, paa_coded. cbv zeta. rewrite bridge_paa_len.
  destruct (bridge_paa_fold (paa_len m s) s paa_init paa_init (st_eq_refl _) eq_refl)
    as (Hf & Hc & _ & Hs).
  replace (gen_paa_last (zn (cur (fold_left (gen_paa_step (paa_len m s)) s paa_init))) (zn m))
    with (cur (fold_left (paa_step (paa_len m s)) s paa_init) =? m - 1)%nat
    by (rewrite <- Hc; unfold gen_paa_last, zn; lia).
  destruct (_ =? _)%nat; [|exact Hf].
  apply Forall2_app; [exact Hf|]. constructor; [|constructor].
  unfold gen_paa_tail. rewrite Hs. q_div.
Qed.

(* hence the REGENERATED algorithm computes the documented frame means *)
Lemma bridge_paa_gen_is_frame_mean (m : nat) (s : series) : (1 <= m <= length s)%nat ->
  Forall2 Qeq (gen_paa_coded m s) (paa_spec m s).
Proof.
  intro H. eapply Forall2_Qeq_trans; [apply bridge_paa_coded; lia|].
  apply paa_coded_is_frame_mean. exact H.
Qed.

(* ---------- RandomIntervalFeatureExtractor ---------- *)

Lemma bridge_rife feats ivs (s : series) :
  let nf := zn (length feats) in
  let ni := zn (length ivs) in
  length (rife_row feats ivs s) = Z.to_nat (gen_rife_width nf ni) /\
  forall f v, (f < length feats)%nat -> (v < length ivs)%nat ->
    let iv := nth v ivs (0, 0)%nat in
    nth (Z.to_nat (gen_rife_pos nf ni (zn f) (zn v))) (rife_row feats ivs s) (0%Q, false) =
    feat_apply (nth f feats FMean)
      (slice (Z.to_nat (gen_rife_lo (zn (fst iv)) (zn (snd iv))))
             (Z.to_nat (gen_rife_hi (zn (fst iv)) (zn (snd iv)))) s).
Proof.
  cbv zeta. destruct (rife_spec feats ivs s) as (Hlen & Hnth).
  unfold gen_rife_width, gen_rife_pos, gen_rife_lo, gen_rife_hi, zn. split.
  - rewrite Hlen. lia.
  - intros f v Hf Hv.
    replace (Z.to_nat (Z.of_nat f * Z.of_nat (length ivs) + Z.of_nat v))
      with (f * length ivs + v)%nat by lia.
    replace (Z.to_nat (Z.of_nat (fst (nth v ivs (0, 0)%nat)))) with (fst (nth v ivs (0, 0)%nat))
      by lia.
    replace (Z.to_nat (Z.of_nat (snd (nth v ivs (0, 0)%nat)))) with (snd (nth v ivs (0, 0)%nat))
      by lia.
    apply Hnth; assumption.
Qed.

(* ---------- Imputer(method="drift") ---------- *)

(* the trend is fitted on the forward/backward-filled COPY and the predictions fill the gaps of
   the ORIGINAL series - the data flow of Model.impute_core IDrift (fit on final_fill l, fill l) *)
Lemma bridge_drift_flow : gen_drift_fit_on = ZFilledCopy /\ gen_drift_fill_into = ZOriginal.
Proof. split; reflexivity. Qed.

(* ---------- row transformers ---------- *)

(* instance i's clone of the wrapped transformer is applied to X[i].T - an object derived from X and
   i alone (Model.row_s2s / row_s2p map the wrapped function over every instance's OWN cells); the
   translator accepts no other per-instance input and no state shared between the iterations *)
Lemma bridge_row_input : gen_row_s2s_input = RowInstanceT /\ gen_row_s2p_input = RowInstanceT.
Proof. split; reflexivity. Qed.
