(* C14 correspondence: every case carries the inputs AND the implementation's canonicalised output
   (floats as exact rationals; None = the implementation raised).  `mism` lists the indices on
   which the model disagrees.  Values are compared in Q with tolerance 1e-9 * (1 + |model|). *)
From Coq Require Import QArith Qabs List Bool ZArith.
Require Import SkV.Lib.Base SkV.C14.Model.
Import ListNotations.
Open Scope Q_scope.

Definition tol : Q := 1 # 1000000000.
Definition qclose (a b : Q) : bool := Qle_bool (Qabs (Qred (a - b))) (tol * (1 + Qabs (Qred a))).

Fixpoint list_close {A} (f : A -> A -> bool) (a b : list A) : bool :=
  match a, b with
  | [], [] => true
  | x :: a', y :: b' => f x y && list_close f a' b'
  | _, _ => false
  end.
Definition series_close := list_close qclose.
Definition inst_close := list_close series_close.
Definition panel_close := list_close inst_close.

Definition agree (m : res panel) (o : option panel) : bool :=
  match m, o with
  | Err, None => true
  | Ok a, Some b => panel_close a b
  | _, _ => false
  end.

Definition rows_as_panel (r : res (list series)) : res panel :=
  match r with Ok l => Ok (map (fun s => [s]) l) | Err => Err end.

Inductive case :=
  | CPad (req : option nat) (fill : Q) (pfit p : panel) (o : option panel)
  | CTrunc (lower upper : option nat) (pfit p : panel) (o : option panel)
  | CInterp (m : nat) (p : panel) (o : option panel)
  | CTab (p : panel) (o : option panel)
  | CConcat (p : panel) (o : option panel)
  | CPaa (m : nat) (p : panel) (o : option panel)
  | CISegInt (k : nat) (pfit p : panel) (o : option panel)
  | CISegArr (ivs : list (nat * nat)) (p : panel) (o : option panel)
  | CSlide (w : nat) (p : panel) (o : option panel).

(* what the model says (documented function); the int interval segmenter has an open finding:
   `check` accepts the documented tiling OR the unchanged code's faithful variant (the oracle
   decides which one is a property failure), anything else is a disagreement. *)
Definition model_says (c : case) : res panel :=
  match c with
  | CPad req fill pfit p _ => pad_apply (pad_fit req pfit) fill p
  | CTrunc lower upper pfit p _ => trunc_apply (trunc_fit lower pfit) upper p
  | CInterp m p _ => interp_apply m p
  | CTab p _ => rows_as_panel (tabularize p)
  | CConcat p _ => col_concat p
  | CPaa m p _ => paa_apply m p
  | CISegInt k pfit p _ => iseg_int k pfit p
  | CISegArr ivs p _ => iseg_arr ivs p
  | CSlide w p _ => sliding_apply w p
  end.

Definition impl_says (c : case) : option panel :=
  match c with
  | CPad _ _ _ _ o | CTrunc _ _ _ _ o | CInterp _ _ o | CTab _ o | CConcat _ o | CPaa _ _ o
  | CISegInt _ _ _ o | CISegArr _ _ o | CSlide _ _ o => o
  end.

Definition check (c : case) : bool :=
  agree (model_says c) (impl_says c) ||
  match c with
  | CISegInt k pfit p o => agree (iseg_int_faithful k pfit p) o
  | _ => false
  end.

Fixpoint mism (cs : list (Z * case)) : list Z :=
  match cs with
  | [] => []
  | (i, c) :: t => if check c then mism t else i :: mism t
  end.
