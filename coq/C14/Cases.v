(* C14 correspondence: every case carries the inputs AND the implementation's canonicalised output
   (floats as exact rationals; None = the implementation raised).  `mism` lists the indices on
   which the model disagrees.  Values are compared in Q with tolerance 1e-9 * (1 + |model|). *)
From Coq Require Import QArith Qabs List Bool ZArith.
Require Import SkV.Lib.Base SkV.C14.Model.
Import ListNotations.
Open Scope Q_scope.

Definition tol : Q := 1 # 1000000000.
Definition qclose (a b : Q) : bool := Qle_bool (Qabs (Qred (a - b))) (tol * (1 + Qabs (Qred a))).

Fixpoint list_close {A B} (f : A -> B -> bool) (a : list A) (b : list B) : bool :=
  match a, b with
  | [], [] => true
  | x :: a', y :: b' => f x y && list_close f a' b'
  | _, _ => false
  end.
Definition series_close := list_close qclose.
Definition inst_close := list_close series_close.
Definition panel_close := list_close inst_close.

Definition agree (m : res panel) (o : option panel) : bool :=
  match m, o with
  | Err, None => true
  | Ok a, Some b => panel_close a b
  | _, _ => false
  end.

Definition rows_as_panel (r : res (list series)) : res panel :=
  match r with Ok l => Ok (map (fun s => [s]) l) | Err => Err end.

Inductive case :=
  | CPad (req : option nat) (fill : Q) (pfit p : panel) (o : option panel)
  | CTrunc (lower upper : option nat) (pfit p : panel) (o : option panel)
  | CInterp (m : nat) (p : panel) (o : option panel)
  | CTab (p : panel) (o : option panel)
  | CConcat (p : panel) (o : option panel)
  | CPaa (m : nat) (p : panel) (o : option panel)
  | CISegInt (k : nat) (pfit p : panel) (o : option panel)
  | CISegArr (ivs : list (nat * nat)) (p : panel) (o : option panel)
  | CSlide (w : nat) (p : panel) (o : option panel)
  | CRife (feats : list feat) (ivs : list (nat * nat)) (p : panel) (o : option (list series))
  | CRowS2S (f : sfun) (p : panel) (o : option panel)
  | CRowS2P (g : pfun) (p : panel) (o : option panel)
  | CImpute (m : imethod) (l : oseries) (o : option oseries)
  | CCos (cols : inst) (o : option panel)
  | CAcf (adjusted : bool) (nlags : option nat) (z : series) (o : option panel)
  | CAdapt (fit cols : inst) (o : option panel).

(* square-root witnesses: the implementation's v is "the std" iff v >= 0 and v^2 ~ variance *)
Definition tagged_close (m : Q * bool) (v : Q) : bool :=
  if snd m then Qle_bool 0 v && qclose (fst m) (v * v) else qclose (fst m) v.
Fixpoint tagged_row_close (a : list (Q * bool)) (b : series) : bool :=
  match a, b with
  | [], [] => true
  | x :: a', y :: b' => tagged_close x y && tagged_row_close a' b'
  | _, _ => false
  end.
Definition agree_tagged (m : res (list (list (Q * bool)))) (o : option (list series)) : bool :=
  match m, o with
  | Err, None => true
  | Ok a, Some b => list_close tagged_row_close a b
  | _, _ => false
  end.
Definition oq_close (a b : oq) : bool :=
  match a, b with
  | None, None => true
  | Some x, Some y => qclose x y
  | _, _ => false
  end.
Definition agree_oseries (m : res oseries) (o : option oseries) : bool :=
  match m, o with
  | Ok a, Some b => list_close oq_close a b
  | Err, None => true
  | _, _ => false
  end.
Definition one_inst (r : res inst) : res panel := match r with Ok i => Ok [i] | Err => Err end.

(* what the model says (the documented function) *)
Definition model_says (c : case) : res panel :=
  match c with
  | CPad req fill pfit p _ => pad_apply (pad_fit req pfit) fill p
  | CTrunc lower upper pfit p _ => trunc_apply (trunc_fit lower pfit) upper p
  | CInterp m p _ => interp_apply m p
  | CTab p _ => rows_as_panel (tabularize p)
  | CConcat p _ => col_concat p
  | CPaa m p _ => paa_apply m p
  | CISegInt k pfit p _ => iseg_int k pfit p
  | CISegArr ivs p _ => iseg_arr ivs p
  | CSlide w p _ => sliding_apply w p
  | CRowS2S f p _ => row_s2s f p
  | CRowS2P g p _ => rows_as_panel (row_s2p g p)
  | CCos cols _ => Ok [map (map cos_taylor) cols]
  | CAcf adj nl z _ => one_inst (rmap (fun s => [s]) (acf adj nl z))
  | CAdapt fit cols _ => one_inst (adapt_minmax fit cols)
  | CRife _ _ _ _ | CImpute _ _ _ => Err   (* own output types: see check *)
  end.

Definition impl_says (c : case) : option panel :=
  match c with
  | CPad _ _ _ _ o | CTrunc _ _ _ _ o | CInterp _ _ o | CTab _ o | CConcat _ o | CPaa _ _ o
  | CISegInt _ _ _ o | CISegArr _ _ o | CSlide _ _ o | CRowS2S _ _ o | CRowS2P _ _ o
  | CCos _ o | CAcf _ _ _ o | CAdapt _ _ o => o
  | CRife _ _ _ _ | CImpute _ _ _ => None
  end.

Definition check (c : case) : bool :=
  match c with
  | CRife feats ivs p o => agree_tagged (rife_apply feats ivs p) o
  | CImpute m l o => agree_oseries (impute_res m l) o
  | _ => agree (model_says c) (impl_says c)
  end.

Fixpoint mism (cs : list (Z * case)) : list Z :=
  match cs with
  | [] => []
  | (i, c) :: t => if check c then mism t else i :: mism t
  end.
