(* C14 HISTORY - not part of the property's obligations.

   Two defects of the unchanged sktime 0.6.0 tree were repaired by `fix:` commits (F-C14-1,
   F-C14-2, see notes/C14.md).  The model and the theorems of Props.v describe the repaired code
   only.  This file keeps, for the record, why the OLD expressions violate the property; the
   definitions below exist nowhere else and are not tied to the code any more. *)
From Coq Require Import QArith List Bool ZArith Arith Lia.
Require Import SkV.Lib.Base SkV.C14.Model SkV.C14.Proofs.
Import ListNotations.
Open Scope Q_scope.

(* OLD IntervalSegmenter(int): `start, end = chunk[0], chunk[-1]; X[:, start:end]` - the slice
   stops one before the last index of the chunk.  16 points / 3 intervals: the first cell has 5
   values instead of 6 and the cells do not concatenate back to the series. *)
Definition old_segment (ivs : list (nat * nat)) (s : series) : inst :=
  map (fun iv => slice (fst iv) (snd iv - 1) s) ivs.
Lemma old_interval_slice_loses_points :
  let s := map Qn (seq 0 16) in
  map (@length Q) (old_segment (split_bounds 16 3) s) = [5; 4; 4]%nat /\
  concat (old_segment (split_bounds 16 3) s) <> s /\
  concat (segment (split_bounds 16 3) s) = s.
Proof. cbv zeta. split; [reflexivity|]. split; [vm_compute; discriminate|reflexivity]. Qed.

(* OLD Imputer("drift"): `Z = Z.fillna("ffill").fillna("backfill")` replaced the series BEFORE the
   trend was fitted and `Z.fillna(value=Z_pred)` was applied to the filled series: once anything
   is observed nothing is missing any more, so filling with ANY values is the identity and the
   trend never reached a gap. *)
Lemma old_drift_fill_is_identity : forall (l : oseries) (v : oq),
  (exists w, nth w l None <> None) -> fill_with v (final_fill l) = final_fill l.
Proof.
  intros l v Hw.
  assert (Hc : forall t, (t < length (final_fill l))%nat -> nth t (final_fill l) None <> None).
  { intros t Ht. apply final_fill_complete; [|exact Hw].
    rewrite (Forall2_len _ _ _ (ext_final_fill l)). exact Ht. }
  revert Hc. generalize (final_fill l). clear. intro f.
  induction f as [|[x|] f IH]; intro Hc.
  - reflexivity.
  - cbn [fill_with map]. f_equal. apply IH. intros t Ht. apply (Hc (S t)). cbn. lia.
  - exfalso. apply (Hc 0%nat); [cbn; lia|reflexivity].
Qed.
