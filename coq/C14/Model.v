(* C14 model: closed-form transformers as total list functions over Q.

   A panel is a list (instances) of lists (columns) of lists of rationals (time points).
   Executable definitions only.  Positions / lengths are `nat` inside the model (they only index
   lists); the case interface in Cases.v converts from Z.  Everything is exact arithmetic in Q;
   numpy's float64 rounding is outside the model (the correspondence compares with tolerance).

   Each definition follows what the transformer DOCUMENTS; where the code is an algorithm with its
   own loop structure (PAA running sums, edge padding + strided windows, np.array_split) the model
   has the algorithm *as coded* and Proofs.v proves it equal to the documented closed form. *)
From Coq Require Import QArith Qround List Bool ZArith Arith.
Require Import SkV.Lib.Base.
Import ListNotations.
Open Scope Q_scope.

Definition series := list Q.
Definition inst := list series.
Definition panel := list inst.

Definition Qn (n : nat) : Q := inject_Z (Z.of_nat n).
Definition qltb (a b : Q) : bool := negb (Qle_bool b a).
Definition qmax (a b : Q) : Q := if Qle_bool a b then b else a.
Definition qmin (a b : Q) : Q := if Qle_bool a b then a else b.
Definition qnth (s : series) (i : nat) : Q := nth i s 0.
Definition qsum (l : list Q) : Q := fold_right Qplus 0 l.
Definition qmean (l : list Q) : Q := qsum l / Qn (length l).

(* s[a:b] for 0 <= a *)
Definition slice {A} (a b : nat) (s : list A) : list A := firstn (b - a) (skipn a s).

Definition cell_lengths (p : panel) : list nat := concat (map (map (@length Q)) p).
Definition max_len (p : panel) : nat := fold_right Nat.max 0%nat (cell_lengths p).
Definition min_len (p : panel) : nat :=
  match cell_lengths p with [] => 0%nat | a :: t => fold_right Nat.min a t end.

Definition map_cells (f : series -> series) (p : panel) : panel := map (map f) p.

(* ------------------------------------------------------------------------------------------ *)
(* PaddingTransformer: out = np.full(L, fill); out[:len(s)] = s                                *)

Definition pad_series (L : nat) (fill : Q) (s : series) : series :=
  s ++ repeat fill (L - length s).
Definition pad_fit (req : option nat) (pfit : panel) : nat :=
  match req with Some L => L | None => max_len pfit end.
Definition pad_apply (L : nat) (fill : Q) (p : panel) : res panel :=
  if (L <? max_len p)%nat then Err else Ok (map_cells (pad_series L fill) p).

(* ------------------------------------------------------------------------------------------ *)
(* TruncationTransformer: idxs = arange(lower_) or arange(lower_, upper); series.iloc[idxs]    *)

Definition trunc_fit (lower : option nat) (pfit : panel) : nat :=
  match lower with Some l => l | None => min_len pfit end.
Definition trunc_apply (lo : nat) (upper : option nat) (p : panel) : res panel :=
  if (min_len p <? lo)%nat then Err
  else match upper with
       | None => Ok (map_cells (slice 0 lo) p)
       | Some u => if (lo <? u)%nat && (min_len p <? u)%nat then Err  (* iloc out of bounds *)
                   else Ok (map_cells (slice lo u) p)
       end.

(* ------------------------------------------------------------------------------------------ *)
(* TSInterpolator: scipy interp1d(linspace(0,1,n), s)(linspace(0,1,m)), in index units:
   query j sits at x_j = j (n-1)/(m-1); value = s[k] + (x_j - k)(s[k+1] - s[k]), k = floor x_j
   (clamped to the last segment).  m = 1 samples the first point only. *)

Definition interp_at (s : series) (x : Q) : Q :=
  let k := Nat.min (Z.to_nat (Qfloor x)) (length s - 2) in
  qnth s k + (x - Qn k) * (qnth s (S k) - qnth s k).
Definition interp_pos (n m j : nat) : Q := Qn j * Qn (n - 1) / Qn (m - 1).
Definition interp_series (m : nat) (s : series) : series :=
  map (fun j => interp_at s (interp_pos (length s) m j)) (seq 0 m).
Definition interp_apply (m : nat) (p : panel) : res panel :=
  (* a one-point series can only be sampled at its own point (m = 1) *)
  if (min_len p <? 2)%nat && (2 <=? m)%nat then Err else Ok (map_cells (interp_series m) p).

(* ------------------------------------------------------------------------------------------ *)
(* Tabularizer / ColumnConcatenator: np.hstack of the per-column 2-d arrays: column-then-time.
   Requires every column to have one common length over the instances (otherwise numpy raises). *)

Definition shape_of (i : inst) : list nat := map (@length Q) i.
Definition nat_list_eqb (a b : list nat) : bool :=
  (length a =? length b)%nat && forallb (fun p => (fst p =? snd p)%nat) (combine a b).
Definition rectangular (p : panel) : bool :=
  match p with [] => true | i0 :: _ => forallb (fun i => nat_list_eqb (shape_of i) (shape_of i0)) p end.
Definition tab_row (i : inst) : series := concat i.
Definition tabularize (p : panel) : res (list series) :=
  if rectangular p then Ok (map tab_row p) else Err.
Definition col_concat (p : panel) : res panel :=
  if rectangular p then Ok (map (fun i => [tab_row i]) p) else Err.

(* ------------------------------------------------------------------------------------------ *)
(* PAA as CODED (_perform_paa_along_dim): running sums with fractional frames.                 *)

Record paa_st := { fr : list Q; cur : nat; sz : Q; sm : Q }.
Definition paa_init : paa_st := {| fr := []; cur := 0; sz := 0; sm := 0 |}.
Definition paa_step (L : Q) (st : paa_st) (x : Q) : paa_st :=
  let rem := L - sz st in
  let sm1 := if qltb 1 rem then sm st + x else sm st + rem * x in
  let sz1 := if qltb 1 rem then sz st + 1 else sz st + rem in
  if Qeq_bool sz1 L
  then {| fr := fr st ++ [sm1 / L]; cur := S (cur st); sz := 1 - rem; sm := (1 - rem) * x |}
  else {| fr := fr st; cur := cur st; sz := sz1; sm := sm1 |}.
Definition paa_len (m : nat) (s : series) : Q := Qn (length s) / Qn m.
Definition paa_coded (m : nat) (s : series) : series :=
  let L := paa_len m s in
  let st := fold_left (paa_step L) s paa_init in
  (* "if the last frame was lost due to double imprecision" *)
  if (cur st =? m - 1)%nat then fr st ++ [sm st / L] else fr st.

(* PAA as SPECIFIED: frame k = (1/L) * integral over [kL, (k+1)L) of the step function
   f(x) = s[floor x], L = n/m.  The integral of a step function is the sum over samples of
   value * |[t, t+1) /\ [a, b)|. *)
Definition ov (t : nat) (a b : Q) : Q := qmax 0 (qmin (Qn t + 1) b - qmax (Qn t) a).
Fixpoint wsum (a b : Q) (t0 : nat) (l : series) : Q :=
  match l with [] => 0 | x :: r => x * ov t0 a b + wsum a b (S t0) r end.
Definition step_integral (s : series) (a b : Q) : Q := wsum a b 0 s.
Definition paa_frame (m : nat) (s : series) (k : nat) : Q :=
  let L := paa_len m s in step_integral s (Qn k * L) ((Qn k + 1) * L) / L.
Definition paa_spec (m : nat) (s : series) : series := map (paa_frame m s) (seq 0 m).

(* the transformer: num_atts is read from the first cell; every column is reduced on its own *)
Definition first_len (p : panel) : nat :=
  match p with (s :: _) :: _ => length s | _ => 0%nat end.
Definition paa_apply (m : nat) (p : panel) : res panel :=
  if (m =? 0)%nat || (first_len p <? m)%nat || negb (rectangular p) then Err
  else Ok (map_cells (paa_coded m) p).

(* ------------------------------------------------------------------------------------------ *)
(* IntervalSegmenter.  np.array_split(arange(n), k): the first n mod k chunks have n/k + 1
   points, the others n/k; chunk boundaries are the cumulative sums.  fit stores every chunk as
   the half-open range [start, end) = [chunk[0], chunk[-1] + 1), the same convention as the rows
   of an explicit interval array; transform slices X[:, start:end].                           *)

Definition split_sizes (n k : nat) : list nat :=
  repeat (S (n / k)) (n mod k) ++ repeat (n / k)%nat (k - n mod k).
Fixpoint chunks_from (start : nat) (sizes : list nat) : list (nat * nat) :=
  match sizes with [] => [] | z :: t => (start, start + z)%nat :: chunks_from (start + z) t end.
Definition split_bounds (n k : nat) : list (nat * nat) := chunks_from 0 (split_sizes n k).

Definition segment (ivs : list (nat * nat)) (s : series) : inst :=
  map (fun iv => slice (fst iv) (snd iv) s) ivs.
Definition univariate (p : panel) : bool := forallb (fun i => (length i =? 1)%nat) p.
Definition equal_length (p : panel) : bool := (max_len p =? min_len p)%nat.
Definition only_col (i : inst) : series := hd [] i.

Definition iseg_int (k : nat) (pfit p : panel) : res panel :=
  let n := first_len pfit in
  if negb (univariate p) || negb (equal_length p) || (k =? 0)%nat || (n / 2 <? k)%nat then Err
  else Ok (map (fun i => segment (split_bounds n k) (only_col i)) p).
Definition iseg_arr (ivs : list (nat * nat)) (p : panel) : res panel :=
  if negb (univariate p) || negb (equal_length p) then Err
  else Ok (map (fun i => segment ivs (only_col i)) p).

(* ------------------------------------------------------------------------------------------ *)
(* SlidingWindowSegmenter as CODED: np.pad(s, w // 2, mode="edge"), then windows
   padded[i : i + w] for i in range(n).                                                       *)

Definition edge_pad (k : nat) (s : series) : series :=
  repeat (hd 0 s) k ++ s ++ repeat (last s 0) k.
Definition sliding_coded (w : nat) (s : series) : inst :=
  let padded := edge_pad (w / 2) s in
  map (fun i => slice i (i + w) padded) (seq 0 (length s)).
Definition sliding_apply (w : nat) (p : panel) : res panel :=
  if negb (univariate p) || negb (equal_length p) || (w =? 0)%nat then Err
  else Ok (map (fun i => sliding_coded w (only_col i)) p).

(* ------------------------------------------------------------------------------------------ *)
(* RandomIntervalFeatureExtractor GIVEN the fitted intervals: for func in features:
   for (start, end) in intervals_: func(X[:, :, start:end]).  Features: np.mean, np.std
   (population; a square root: the model carries the variance and the case check verifies the
   implementation's value is its non-negative root), utils.slope_and_trend._slope.            *)

Definition map2 {A B C} (f : A -> B -> C) (l1 : list A) (l2 : list B) : list C :=
  map (fun p => f (fst p) (snd p)) (combine l1 l2).

Inductive feat := FMean | FStd | FSlope.
Definition variance (l : series) : Q :=
  let mu := qmean l in qmean (map (fun x => (x - mu) * (x - mu)) l).
Definition time_axis (n : nat) : series := map (fun i => Qn (S i)) (seq 0 n).   (* 1..n *)
(* _slope as coded: (mean(y*x) - mean(x) mean(y)) / (mean(x*x) - mean(x)^2), x = 1..n *)
Definition slope_coded (y : series) : Q :=
  let x := time_axis (length y) in
  let xm := qmean x in
  (qmean (map2 Qmult y x) - xm * qmean y) / (qmean (map2 Qmult x x) - xm * xm).
(* value, and whether the implementation's number is the square ROOT of it *)
Definition feat_apply (f : feat) (s : series) : Q * bool :=
  match f with
  | FMean => (qmean s, false)
  | FStd => (variance s, true)
  | FSlope => (slope_coded s, false)
  end.
Definition rife_row (feats : list feat) (ivs : list (nat * nat)) (s : series) : list (Q * bool) :=
  concat (map (fun f => map (fun iv => feat_apply f (slice (fst iv) (snd iv) s)) ivs) feats).
Definition rife_apply (feats : list feat) (ivs : list (nat * nat)) (p : panel)
  : res (list (list (Q * bool))) :=
  if negb (univariate p) || negb (equal_length p) then Err
  else Ok (map (fun i => rife_row feats ivs (only_col i)) p).

(* ------------------------------------------------------------------------------------------ *)
(* Row transformers: the wrapped series transformer applied to every cell.                    *)

Fixpoint cumsum_from (acc : Q) (s : series) : series :=
  match s with [] => [] | x :: t => (acc + x) :: cumsum_from (acc + x) t end.
(* s[::2] *)
Fixpoint stride2 (s : series) : series :=
  match s with
  | x :: _ :: t => x :: stride2 t
  | l => l
  end.
(* wrapped series transformers used by the cases: some compute new values, some return their
   input or a part of it (identity, head slice, stride, reversal) *)
Inductive sfun := SAffine (a b : Q) | SCumsum | SReverse | SIdent | SHead (k : nat) | SStride2.
Definition sfun_apply (f : sfun) (s : series) : series :=
  match f with
  | SAffine a b => map (fun x => a * x + b) s
  | SCumsum => cumsum_from 0 s
  | SReverse => rev s
  | SIdent => s
  | SHead k => firstn k s
  | SStride2 => stride2 s
  end.
Inductive pfun := PMean | PWeighted | PFirst.
Definition pfun_apply (g : pfun) (s : series) : Q :=
  match g with
  | PMean => qmean s
  | PWeighted => qsum (map2 Qmult s (time_axis (length s)))
  | PFirst => qnth s 0
  end.
Definition row_s2s (f : sfun) (p : panel) : res panel :=
  if equal_length p then Ok (map_cells (sfun_apply f) p) else Err.
(* series-to-primitives: one row per instance, one value per column *)
Definition row_s2p (g : pfun) (p : panel) : res (list series) :=
  if equal_length p then Ok (map (map (pfun_apply g)) p) else Err.

(* ------------------------------------------------------------------------------------------ *)
(* Imputer on a single series with missing values (None).                                     *)

Notation oq := (option Q).
Notation oseries := (list (option Q)).
Fixpoint ffill_from (prev : oq) (l : oseries) : oseries :=
  match l with
  | [] => []
  | Some x :: t => Some x :: ffill_from (Some x) t
  | None :: t => prev :: ffill_from prev t
  end.
Definition ffill (l : oseries) : oseries := ffill_from None l.
Definition bfill (l : oseries) : oseries := rev (ffill (rev l)).
Definition observed (l : oseries) : series :=
  flat_map (fun o => match o with Some x => [x] | None => [] end) l.
Definition fill_with (v : oq) (l : oseries) : oseries :=
  map (fun o => match o with None => v | Some x => Some x end) l.

Fixpoint insert_sorted (x : Q) (l : series) : series :=
  match l with
  | [] => [x]
  | y :: t => if Qle_bool x y then x :: l else y :: insert_sorted x t
  end.
Definition sort_q (l : series) : series := fold_right insert_sorted [] l.
Definition median (l : series) : Q :=
  let s := sort_q l in let n := length s in
  if Nat.even n then (qnth s (n / 2 - 1) + qnth s (n / 2)) / 2 else qnth s (n / 2).

(* nearest observed neighbours of position t: (index, value) *)
Fixpoint prev_obs (l : oseries) (t : nat) : option (nat * Q) :=
  match t with
  | O => None
  | S t' => match nth t' l None with Some v => Some (t', v) | None => prev_obs l t' end
  end.
Fixpoint next_obs_fuel (fuel : nat) (l : oseries) (t : nat) : option (nat * Q) :=
  match fuel with
  | O => None
  | S f => match nth t l None with Some v => Some (t, v) | None => next_obs_fuel f l (S t) end
  end.
Definition next_obs (l : oseries) (t : nat) : option (nat * Q) :=
  next_obs_fuel (length l - S t) l (S t).

(* pd.Series.interpolate(method="linear"): interior gaps on the straight line between the
   neighbours (equally spaced positions), trailing gaps repeat the last observation, leading
   gaps stay missing *)
Definition lin_at (l : oseries) (t : nat) : oq :=
  match nth t l None with
  | Some v => Some v
  | None =>
    match prev_obs l t, next_obs l t with
    | Some (tp, vp), Some (tn, vn) =>
        Some (vp + (Qn t - Qn tp) / (Qn tn - Qn tp) * (vn - vp))
    | Some (_, vp), None => Some vp
    | None, _ => None
    end
  end.
(* interpolate(method="nearest") (scipy interp1d kind="nearest"): interior gaps take the nearer
   neighbour, the EARLIER one on a tie; leading / trailing gaps stay missing *)
Definition near_at (l : oseries) (t : nat) : oq :=
  match nth t l None with
  | Some v => Some v
  | None =>
    match prev_obs l t, next_obs l t with
    | Some (tp, vp), Some (tn, vn) => if (t - tp <=? tn - t)%nat then Some vp else Some vn
    | _, _ => None
    end
  end.
Definition positions {A} (l : list A) : list nat := seq 0 (length l).

(* least-squares line through (t, y_t), t = 0..n-1: (intercept, slope) *)
Definition ols_line (y : series) : Q * Q :=
  let n := length y in
  let x := map Qn (seq 0 n) in
  let xm := qmean x in let ym := qmean y in
  let sxx := qsum (map (fun a => (a - xm) * (a - xm)) x) in
  let sxy := qsum (map2 (fun a b => (a - xm) * (b - ym)) x y) in
  let b := if Qeq_bool sxx 0 then 0 else sxy / sxx in
  (ym - b * xm, b).

Inductive imethod :=
  | IMean | IMedian | IConstant (v : Q) | IFfill | IBfill | INearest | ILinear | IDrift.

Definition final_fill (l : oseries) : oseries := bfill (ffill l).
Definition impute_core (m : imethod) (l : oseries) : oseries :=
  match m with
  | IMean => fill_with (match observed l with [] => None | o => Some (qmean o) end) l
  | IMedian => fill_with (match observed l with [] => None | o => Some (median o) end) l
  | IConstant v => fill_with (Some v) l
  | IFfill => ffill l
  | IBfill => bfill l
  | INearest => map (near_at l) (positions l)
  | ILinear => map (lin_at l) (positions l)
  | IDrift =>
      (* trend (PolynomialTrendForecaster(degree=1) = least-squares line over positions
         0..n-1) fitted on the ffill/bfill-ed COPY of the series; the gaps of the series itself
         take the in-sample value of the line *)
      match observed l with
      | [] => l
      | _ => let '(a, b) := ols_line (observed (final_fill l)) in
             map (fun t => match nth t l None with
                           | Some v => Some v
                           | None => Some (a + b * Qn t)
                           end) (positions l)
      end
  end.
Definition impute (m : imethod) (l : oseries) : oseries := final_fill (impute_core m l).
(* a trend cannot be fitted when nothing is observed (the forecaster rejects all-NaN input) *)
Definition impute_res (m : imethod) (l : oseries) : res oseries :=
  match m, observed l with
  | IDrift, [] => Err
  | _, _ => Ok (impute m l)
  end.

(* ------------------------------------------------------------------------------------------ *)
(* CosineTransformer: cos is not rational; degree-2N Taylor polynomial, exact in Q.           *)

Fixpoint cos_terms (fuel : nat) (k : Z) (term x2 acc : Q) : Q :=
  match fuel with
  | O => acc
  | S f => let term' := Qred (- term * x2 / inject_Z ((2 * k + 1) * (2 * k + 2))) in
           cos_terms f (k + 1)%Z term' x2 (Qred (acc + term'))
  end.
Definition cos_taylor (x : Q) : Q := cos_terms 40 0%Z 1 (x * x) 1.

(* ------------------------------------------------------------------------------------------ *)
(* AutoCorrelationTransformer (statsmodels acf): r_k = c_k / c_0,
   c_k = sum_t (z_t - mean)(z_{t+k} - mean) / (n - k if adjusted else n), k = 0..nlags (< n)  *)

Definition acov (adjusted : bool) (z : series) (k : nat) : Q :=
  let n := length z in
  let mu := qmean z in
  let d := map (fun x => x - mu) z in
  qsum (map2 Qmult (firstn (n - k) d) (skipn k d)) / (if adjusted then Qn (n - k) else Qn n).
Definition acf (adjusted : bool) (nlags : option nat) (z : series) : res series :=
  let n := length z in
  let lags := match nlags with Some k => Nat.min (S k) n | None => n end in
  if Qeq_bool (acov adjusted z 0) 0 then Err
  else Ok (map (fun k => acov adjusted z k / acov adjusted z 0) (seq 0 lags)).

(* ------------------------------------------------------------------------------------------ *)
(* TabularToSeriesAdaptor(MinMaxScaler()): column-wise (x - min) / (max - min) with min / max
   of the FITTED column (range 0 -> scale 1)                                                  *)

Definition qmin_list (l : series) : Q := fold_right qmin (hd 0 l) l.
Definition qmax_list (l : series) : Q := fold_right qmax (hd 0 l) l.
Definition minmax_col (cfit c : series) : series :=
  let mn := qmin_list cfit in let mx := qmax_list cfit in
  let range := if Qeq_bool (mx - mn) 0 then 1 else mx - mn in
  map (fun x => (x - mn) / range) c.
Definition adapt_minmax (fit cols : inst) : res inst :=
  if (length fit =? length cols)%nat then Ok (map2 minmax_col fit cols) else Err.
