(* C14 flagship: the PAA running-sum algorithm as coded equals the documented frame means
   (1/L) * integral of the step function over [kL, (k+1)L), L = n/m, for EVERY n and every
   1 <= m <= n (dividing or not).  Loop-invariant proof over Q. *)
From Coq Require Import QArith Qround List Bool ZArith Arith Lia Lqa.
Require Import SkV.Lib.Base SkV.C14.Model.
Import ListNotations.
Open Scope Q_scope.

(* ---------- small facts about Q helpers ---------- *)

Lemma qltb_true a b : qltb a b = true <-> a < b.
Proof.
  unfold qltb. rewrite negb_true_iff. split; intro H.
  - apply Qnot_le_lt. intro Hle. apply Qle_bool_iff in Hle. congruence.
  - destruct (Qle_bool b a) eqn:E; [|reflexivity]. apply Qle_bool_iff in E. lra.
Qed.
Lemma qltb_false a b : qltb a b = false <-> b <= a.
Proof.
  unfold qltb. rewrite negb_false_iff. apply Qle_bool_iff.
Qed.

Lemma qmax_case a b : (a <= b /\ qmax a b = b) \/ (b < a /\ qmax a b = a).
Proof.
  unfold qmax. destruct (Qle_bool a b) eqn:E.
  - left. split; [apply Qle_bool_iff; exact E|reflexivity].
  - right. split; [|reflexivity]. apply Qnot_le_lt. intro H. apply Qle_bool_iff in H. congruence.
Qed.
Lemma qmin_case a b : (a <= b /\ qmin a b = a) \/ (b < a /\ qmin a b = b).
Proof.
  unfold qmin. destruct (Qle_bool a b) eqn:E.
  - left. split; [apply Qle_bool_iff; exact E|reflexivity].
  - right. split; [|reflexivity]. apply Qnot_le_lt. intro H. apply Qle_bool_iff in H. congruence.
Qed.

Lemma Qn_S n : Qn (S n) == Qn n + 1.
Proof. unfold Qn. rewrite Nat2Z.inj_succ, <- Z.add_1_r, inject_Z_plus. reflexivity. Qed.
Lemma Qn_0 : Qn 0 == 0.
Proof. reflexivity. Qed.
Lemma Qn_le a b : (a <= b)%nat -> Qn a <= Qn b.
Proof. intro H. unfold Qn. rewrite <- Zle_Qle. lia. Qed.
Lemma Qn_lt a b : (a < b)%nat -> Qn a + 1 <= Qn b.
Proof. intro H. rewrite <- Qn_S. apply Qn_le. lia. Qed.
Lemma Qn_nonneg a : 0 <= Qn a.
Proof. change 0 with (Qn 0). apply Qn_le. lia. Qed.
Lemma Qn_plus a b : Qn (a + b) == Qn a + Qn b.
Proof. unfold Qn. rewrite Nat2Z.inj_add, inject_Z_plus. reflexivity. Qed.

(* overlap of sample cell [t, t+1) with [a, b) in the three situations the loop meets *)
Lemma ov_inside t a b : a <= Qn t -> Qn t + 1 <= b -> ov t a b == 1.
Proof.
  intros H1 H2. unfold ov.
  destruct (qmin_case (Qn t + 1) b) as [[? ->]|[? ->]];
  destruct (qmax_case (Qn t) a) as [[? ->]|[? ->]];
  match goal with |- qmax 0 ?x == _ => destruct (qmax_case 0 x) as [[? ->]|[? ->]] end; lra.
Qed.
Lemma ov_after t a b : b <= Qn t -> ov t a b == 0.
Proof.
  intros H1. unfold ov.
  destruct (qmin_case (Qn t + 1) b) as [[? ->]|[? ->]];
  destruct (qmax_case (Qn t) a) as [[? ->]|[? ->]];
  match goal with |- qmax 0 ?x == _ => destruct (qmax_case 0 x) as [[? ->]|[? ->]] end; lra.
Qed.
Lemma ov_before t a b : Qn t + 1 <= a -> ov t a b == 0.
Proof.
  intros H1. unfold ov.
  destruct (qmin_case (Qn t + 1) b) as [[? ->]|[? ->]];
  destruct (qmax_case (Qn t) a) as [[? ->]|[? ->]];
  match goal with |- qmax 0 ?x == _ => destruct (qmax_case 0 x) as [[? ->]|[? ->]] end; lra.
Qed.
Lemma ov_tail t a b : a <= Qn t -> Qn t <= b -> b <= Qn t + 1 -> ov t a b == b - Qn t.
Proof.
  intros H1 H2 H3. unfold ov.
  destruct (qmin_case (Qn t + 1) b) as [[? ->]|[? ->]];
  destruct (qmax_case (Qn t) a) as [[? ->]|[? ->]];
  match goal with |- qmax 0 ?x == _ => destruct (qmax_case 0 x) as [[? ->]|[? ->]] end; lra.
Qed.
Lemma ov_head t a b : Qn t <= a -> a <= Qn t + 1 -> Qn t + 1 <= b -> ov t a b == Qn t + 1 - a.
Proof.
  intros H1 H2 H3. unfold ov.
  destruct (qmin_case (Qn t + 1) b) as [[? ->]|[? ->]];
  destruct (qmax_case (Qn t) a) as [[? ->]|[? ->]];
  match goal with |- qmax 0 ?x == _ => destruct (qmax_case 0 x) as [[? ->]|[? ->]] end; lra.
Qed.

Lemma wsum_app a b : forall l1 l2 t0,
  wsum a b t0 (l1 ++ l2) == wsum a b t0 l1 + wsum a b (t0 + length l1) l2.
Proof.
  induction l1 as [|x l1 IH]; intros l2 t0; cbn [app wsum length].
  - rewrite Nat.add_0_r. lra.
  - rewrite IH. replace (S t0 + length l1)%nat with (t0 + S (length l1))%nat by lia. lra.
Qed.

Lemma wsum_before a b : forall l t0, Qn (t0 + length l) <= a -> wsum a b t0 l == 0.
Proof.
  induction l as [|x l IH]; intros t0 H; cbn [wsum]; [reflexivity|].
  cbn [length] in H.
  rewrite IH by (replace (S t0 + length l)%nat with (t0 + S (length l))%nat by lia; exact H).
  rewrite ov_before.
  - lra.
  - rewrite <- Qn_S. eapply Qle_trans; [|exact H]. apply Qn_le. lia.
Qed.

Lemma wsum_snoc a b l x : wsum a b 0 (l ++ [x]) == wsum a b 0 l + x * ov (length l) a b.
Proof. rewrite wsum_app. cbn [wsum plus]. lra. Qed.

(* ---------- the loop invariant ---------- *)

Definition frame_of (L : Q) (pre : series) (k : nat) : Q :=
  wsum (Qn k * L) ((Qn k + 1) * L) 0 pre / L.

Definition Inv (L : Q) (pre : series) (st : paa_st) : Prop :=
  sz st == Qn (length pre) - Qn (cur st) * L /\
  0 <= sz st /\ sz st < L /\
  sm st == wsum (Qn (cur st) * L) ((Qn (cur st) + 1) * L) 0 pre /\
  Forall2 (fun k v => v == frame_of L pre k) (seq 0 (cur st)) (fr st).

Lemma Forall2_snoc {A B} (R : A -> B -> Prop) l1 l2 a b :
  Forall2 R l1 l2 -> R a b -> Forall2 R (l1 ++ [a]) (l2 ++ [b]).
Proof. intros H1 H2. apply Forall2_app; [exact H1|constructor; [exact H2|constructor]]. Qed.

Lemma Forall2_seq_weaken (P Q' : nat -> Q -> Prop) : forall n s l,
  (forall k v, (s <= k < s + n)%nat -> P k v -> Q' k v) ->
  Forall2 P (seq s n) l -> Forall2 Q' (seq s n) l.
Proof.
  induction n as [|n IH]; intros s l Himp H; cbn [seq] in *; inversion H; subst; constructor.
  - apply Himp; [lia|assumption].
  - apply IH; [|assumption]. intros k v Hk. apply Himp. lia.
Qed.

Lemma mul_le_mono_L (L x y : Q) : 0 <= L -> x <= y -> x * L <= y * L.
Proof. intros HL H. apply Qmult_le_compat_r; assumption. Qed.

Lemma frame_stable L pre x k c :
  0 < L -> (k < c)%nat -> Qn c * L <= Qn (length pre) ->
  frame_of L (pre ++ [x]) k == frame_of L pre k.
Proof.
  intros HL Hk Ht. unfold frame_of. rewrite wsum_snoc. rewrite ov_after.
  - apply Qdiv_comp; [lra|reflexivity].
  - eapply Qle_trans; [|exact Ht]. apply mul_le_mono_L; [lra|]. apply Qn_lt. exact Hk.
Qed.

Lemma paa_step_inv L pre st x :
  1 <= L -> Inv L pre st -> Inv L (pre ++ [x]) (paa_step L st x).
Proof.
  intros HL (Hsz & H0 & HltL & Hsm & Hfr).
  assert (HLpos : 0 < L) by lra.
  set (t := Qn (length pre)) in *. set (c := Qn (cur st)) in *.
  assert (Hlen : Qn (length (pre ++ [x])) == t + 1).
  { rewrite app_length. cbn [length]. rewrite Nat.add_1_r, Qn_S. reflexivity. }
  assert (HcL : c * L <= t) by lra.
  assert (Hold : Forall2 (fun k v => v == frame_of L (pre ++ [x]) k) (seq 0 (cur st)) (fr st)).
  { eapply Forall2_seq_weaken; [|exact Hfr]. intros k v Hk Hv. cbn beta in *.
    rewrite Hv. symmetry. apply frame_stable with (c := cur st); [exact HLpos|lia|exact HcL]. }
  unfold paa_step.
  destruct (qltb 1 (L - sz st)) eqn:Erem.
  - (* the sample lies strictly inside the current frame *)
    apply qltb_true in Erem.
    assert (Hne : Qeq_bool (sz st + 1) L = false).
    { destruct (Qeq_bool (sz st + 1) L) eqn:E; [|reflexivity]. apply Qeq_bool_iff in E. lra. }
    rewrite Hne. unfold Inv. cbn [fr cur sz sm]. fold c.
    repeat split.
    + rewrite Hlen. lra.
    + lra.
    + lra.
    + rewrite wsum_snoc. fold t. rewrite ov_inside; [lra| |]; fold t; lra.
    + exact Hold.
  - (* the frame boundary falls into this sample *)
    apply qltb_false in Erem.
    assert (Heq : Qeq_bool (sz st + (L - sz st)) L = true).
    { apply Qeq_bool_iff. ring. }
    rewrite Heq. unfold Inv. cbn [fr cur sz sm].
    assert (HcS : Qn (S (cur st)) == c + 1) by (apply Qn_S).
    assert (HcSL : Qn (S (cur st)) * L == c * L + L) by (rewrite HcS; ring).
    repeat split.
    + rewrite Hlen. lra.
    + lra.
    + lra.
    + rewrite wsum_snoc. fold t.
      rewrite wsum_before.
      * rewrite ov_head; fold t; [|lra|lra|lra].
        rewrite Hsz, HcSL. ring.
      * cbn [plus]. fold t. lra.
    + cbn [seq]. rewrite <- seq_shift.
      change (0%nat :: map S (seq 0 (cur st))) with (seq 0 1 ++ map S (seq 0 (cur st))).
      replace (seq 0 1 ++ map S (seq 0 (cur st))) with (seq 0 (cur st) ++ [cur st]).
      2:{ rewrite seq_shift. change (seq 0 1 ++ seq 1 (cur st)) with (seq 0 (S (cur st))).
          rewrite seq_S. reflexivity. }
      apply Forall2_snoc; [exact Hold|].
      unfold frame_of. fold c. apply Qdiv_comp; [|reflexivity].
      rewrite wsum_snoc. fold t. rewrite ov_tail; fold t; [|lra|lra|lra].
      rewrite Hsm, Hsz. ring.
Qed.

Lemma paa_loop_inv L : 1 <= L -> forall post pre st,
  Inv L pre st -> Inv L (pre ++ post) (fold_left (paa_step L) post st).
Proof.
  intros HL. induction post as [|x post IH]; intros pre st H; cbn [fold_left].
  - rewrite app_nil_r. exact H.
  - replace (pre ++ x :: post) with ((pre ++ [x]) ++ post) by (rewrite <- app_assoc; reflexivity).
    apply IH. apply paa_step_inv; assumption.
Qed.

Lemma paa_init_inv L : 0 < L -> Inv L [] paa_init.
Proof.
  intro HL. unfold Inv, paa_init. cbn [fr cur sz sm length wsum seq].
  repeat split; try (change (Qn 0) with 0; lra). constructor.
Qed.

(* after the whole series exactly m frames have been emitted *)
Lemma paa_final_count L (n m c : nat) (s : Q) :
  0 < L -> Qn n == Qn m * L -> s == Qn n - Qn c * L -> 0 <= s -> s < L -> c = m.
Proof.
  intros HL Hn Hs H0 H1.
  destruct (lt_eq_lt_dec c m) as [[Hlt|Heq]|Hgt]; [exfalso|exact Heq|exfalso].
  - assert (H : (Qn c + 1) * L <= Qn m * L) by (apply mul_le_mono_L; [lra|apply Qn_lt; exact Hlt]).
    lra.
  - assert (H : (Qn m + 1) * L <= Qn c * L) by (apply mul_le_mono_L; [lra|apply Qn_lt; exact Hgt]).
    lra.
Qed.

Lemma Forall2_to_map (f : nat -> Q) : forall l v,
  Forall2 (fun k x => x == f k) l v -> Forall2 Qeq v (map f l).
Proof. induction 1; cbn [map]; constructor; assumption. Qed.

Theorem paa_coded_is_frame_mean (m : nat) (s : series) :
  (1 <= m <= length s)%nat -> Forall2 Qeq (paa_coded m s) (paa_spec m s).
Proof.
  intros [Hm1 Hmn]. unfold paa_coded, paa_spec, paa_frame.
  set (L := paa_len m s).
  assert (Hmpos : 0 < Qn m) by (pose proof (Qn_lt 0 m Hm1) as H; change (Qn 0) with 0 in H; lra).
  assert (HnL : Qn (length s) == Qn m * L).
  { unfold L, paa_len. field. lra. }
  assert (HL1 : 1 <= L).
  { unfold L, paa_len. apply Qle_shift_div_l; [exact Hmpos|]. rewrite Qmult_1_l. apply Qn_le. exact Hmn. }
  pose proof (paa_loop_inv L HL1 s [] paa_init (paa_init_inv L ltac:(lra))) as HI.
  cbn [app] in HI. destruct HI as (Hsz & H0 & HltL & Hsm & Hfr).
  set (st := fold_left (paa_step L) s paa_init) in *.
  assert (Hc : cur st = m).
  { eapply paa_final_count with (L := L) (n := length s) (s := sz st); try eassumption; lra. }
  replace (cur st =? m - 1)%nat with false by (symmetry; apply Nat.eqb_neq; lia).
  rewrite Hc in Hfr. apply Forall2_to_map. exact Hfr.
Qed.
