(* C14 lemmas: each transformer's documented function, stated independently of the loop /
   slicing structure of the model, for ALL panels and parameters. *)
From Coq Require Import QArith Qround List Bool ZArith Arith Lia Lqa.
Require Import SkV.Lib.Base SkV.C14.Model SkV.C14.PaaProof.
Import ListNotations.
Open Scope Q_scope.

(* ---------- generic list facts ---------- *)

Lemma nth_firstn_lt {A} (d : A) : forall k l j, (j < k)%nat -> nth j (firstn k l) d = nth j l d.
Proof.
  induction k as [|k IH]; intros l j H; [lia|]. destruct l as [|x l]; [destruct j; reflexivity|].
  destruct j as [|j]; cbn; [reflexivity|]. apply IH. lia.
Qed.
Lemma nth_skipn_add {A} (d : A) : forall a l j, nth j (skipn a l) d = nth (a + j) l d.
Proof.
  induction a as [|a IH]; intros l j; [reflexivity|]. destruct l as [|x l]; cbn.
  - destruct j; reflexivity.
  - apply IH.
Qed.
Lemma slice_length {A} (a b : nat) (s : list A) :
  (b <= length s)%nat -> length (slice a b s) = (b - a)%nat.
Proof. intro H. unfold slice. rewrite firstn_length, skipn_length. lia. Qed.
Lemma slice_nth {A} (d : A) (a b : nat) (s : list A) j :
  (j < b - a)%nat -> nth j (slice a b s) d = nth (a + j) s d.
Proof. intro H. unfold slice. rewrite nth_firstn_lt by exact H. apply nth_skipn_add. Qed.
Lemma nth_repeat_lt {A} (d x : A) : forall k j, (j < k)%nat -> nth j (repeat x k) d = x.
Proof. induction k as [|k IH]; intros j H; [lia|]. destruct j; cbn; [reflexivity|]. apply IH. lia. Qed.
Lemma last_nth {A} (d : A) : forall l, l <> [] -> last l d = nth (length l - 1) l d.
Proof.
  induction l as [|x l IH]; [congruence|]. intros _. destruct l as [|y l]; [reflexivity|].
  change (last (x :: y :: l) d) with (last (y :: l) d). rewrite IH by congruence.
  cbn [length]. replace (S (S (length l)) - 1)%nat with (S (S (length l) - 1)) by lia. reflexivity.
Qed.
Lemma map_seq_nth {A} (f : nat -> A) (d : A) n i :
  (i < n)%nat -> nth i (map f (seq 0 n)) d = f i.
Proof.
  intro H. rewrite nth_indep with (d' := f 0%nat) by (rewrite map_length, seq_length; exact H).
  rewrite map_nth. rewrite seq_nth by exact H. reflexivity.
Qed.

(* cell-wise relation between an input panel and an output panel: same instances in the same
   order, same columns in the same order *)
Definition cellwise (R : series -> series -> Prop) (p out : panel) : Prop :=
  Forall2 (Forall2 R) p out.

Lemma Forall2_map_in {A B} (R : A -> B -> Prop) (f : A -> B) : forall l,
  (forall x, In x l -> R x (f x)) -> Forall2 R l (map f l).
Proof.
  induction l as [|x l IH]; intro H; cbn; constructor.
  - apply H. left. reflexivity.
  - apply IH. intros y Hy. apply H. right. exact Hy.
Qed.
Lemma cellwise_map (R : series -> series -> Prop) f p :
  (forall i s, In i p -> In s i -> R s (f s)) -> cellwise R p (map_cells f p).
Proof.
  intro H. unfold cellwise, map_cells. apply Forall2_map_in. intros i Hi.
  apply Forall2_map_in. intros s Hs. eapply H; eassumption.
Qed.

Lemma in_cell_lengths p i s : In i p -> In s i -> In (length s) (cell_lengths p).
Proof.
  intros Hi Hs. unfold cell_lengths. apply in_concat. exists (map (@length Q) i). split.
  - apply in_map. exact Hi.
  - apply in_map. exact Hs.
Qed.
Lemma fold_max_ge : forall l x, In x l -> (x <= fold_right Nat.max 0 l)%nat.
Proof.
  induction l as [|a l IH]; intros x H; [destruct H|]. destruct H as [<-|H]; cbn; [lia|].
  specialize (IH x H). lia.
Qed.
Lemma fold_max_in : forall l, l <> [] -> In (fold_right Nat.max 0%nat l) l.
Proof.
  induction l as [|a l IH]; [congruence|]. intros _. cbn [fold_right].
  destruct l as [|b l]; [left; cbn; lia|].
  destruct (Nat.max_spec a (fold_right Nat.max 0%nat (b :: l))) as [[_ E]|[_ E]]; rewrite E.
  - right. apply IH. congruence.
  - left. reflexivity.
Qed.
Lemma fold_min_le : forall l a x, In x (a :: l) -> (fold_right Nat.min a l <= x)%nat.
Proof.
  induction l as [|b l IH]; intros a x H; cbn.
  - destruct H as [<-|[]]. lia.
  - destruct H as [<-|[<-|H]].
    + specialize (IH a a (or_introl eq_refl)). lia.
    + lia.
    + specialize (IH a x (or_intror H)). lia.
Qed.
Lemma fold_min_in : forall l a, In (fold_right Nat.min a l) (a :: l).
Proof.
  induction l as [|b l IH]; intro a; cbn [fold_right]; [left; reflexivity|].
  destruct (Nat.min_spec b (fold_right Nat.min a l)) as [[_ E]|[_ E]]; rewrite E.
  - right. left. reflexivity.
  - destruct (IH a) as [H|H]; [left; exact H|right; right; exact H].
Qed.
Lemma max_len_ge p i s : In i p -> In s i -> (length s <= max_len p)%nat.
Proof. intros. apply fold_max_ge. eapply in_cell_lengths; eassumption. Qed.
Lemma min_len_le p i s : In i p -> In s i -> (min_len p <= length s)%nat.
Proof.
  intros Hi Hs. pose proof (in_cell_lengths p i s Hi Hs) as H. unfold min_len.
  destruct (cell_lengths p) as [|a l]; [destruct H|]. apply fold_min_le. exact H.
Qed.
Lemma in_cell_lengths_inv p n : In n (cell_lengths p) -> exists i s, In i p /\ In s i /\ length s = n.
Proof.
  unfold cell_lengths. intro H. apply in_concat in H. destruct H as (l & Hl & Hn).
  apply in_map_iff in Hl. destruct Hl as (i & <- & Hi). apply in_map_iff in Hn.
  destruct Hn as (s & <- & Hs). exists i, s. auto.
Qed.

(* ---------- padding ---------- *)

Definition pad_cell_ok (L : nat) (fill : Q) (s o : series) : Prop :=
  length o = L /\
  forall j, (j < L)%nat -> nth j o 0 = if (j <? length s)%nat then nth j s 0 else fill.

Lemma pad_series_ok L fill s : (length s <= L)%nat -> pad_cell_ok L fill s (pad_series L fill s).
Proof.
  intro H. unfold pad_cell_ok, pad_series. split.
  - rewrite app_length, repeat_length. lia.
  - intros j Hj. destruct (j <? length s)%nat eqn:E.
    + apply Nat.ltb_lt in E. apply app_nth1. exact E.
    + apply Nat.ltb_ge in E. rewrite app_nth2 by exact E. apply nth_repeat_lt. lia.
Qed.

Lemma pad_spec L fill p out : pad_apply L fill p = Ok out -> cellwise (pad_cell_ok L fill) p out.
Proof.
  unfold pad_apply. destruct (L <? max_len p)%nat eqn:E; [discriminate|]. intro H. injection H as <-.
  apply Nat.ltb_ge in E. apply cellwise_map. intros i s Hi Hs. apply pad_series_ok.
  pose proof (max_len_ge p i s Hi Hs). lia.
Qed.

Lemma pad_rejects_iff L fill p :
  pad_apply L fill p = Err <-> exists i s, In i p /\ In s i /\ (L < length s)%nat.
Proof.
  unfold pad_apply. destruct (L <? max_len p)%nat eqn:E; split; intro H; try discriminate; try reflexivity.
  - apply Nat.ltb_lt in E. assert (Hne : cell_lengths p <> []).
    { intro Hnil. unfold max_len in E. rewrite Hnil in E. cbn in E. lia. }
    pose proof (fold_max_in _ Hne) as Hin. apply in_cell_lengths_inv in Hin.
    destruct Hin as (i & s & Hi & Hs & Hl). exists i, s. repeat split; try assumption.
    unfold max_len in E. lia.
  - exfalso. apply Nat.ltb_ge in E. destruct H as (i & s & Hi & Hs & Hl).
    pose proof (max_len_ge p i s Hi Hs). lia.
Qed.

(* pad_length=None: the fitted length is the LONGEST series of the fitted panel *)
Lemma pad_default_is_longest pfit :
  (forall i s, In i pfit -> In s i -> (length s <= pad_fit None pfit)%nat) /\
  (cell_lengths pfit <> [] -> exists i s, In i pfit /\ In s i /\ length s = pad_fit None pfit).
Proof.
  split.
  - intros. cbn. eapply max_len_ge; eassumption.
  - intro Hne. cbn. apply in_cell_lengths_inv. apply fold_max_in. exact Hne.
Qed.

(* ---------- truncation ---------- *)

Definition trunc_cell_ok (lo : nat) (upper : option nat) (s o : series) : Prop :=
  match upper with
  | None => length o = lo /\ forall j, (j < lo)%nat -> nth j o 0 = nth j s 0
  | Some u => length o = (u - lo)%nat /\ forall j, (j < u - lo)%nat -> nth j o 0 = nth (lo + j) s 0
  end.

Lemma truncate_spec lo upper p out :
  trunc_apply lo upper p = Ok out -> cellwise (trunc_cell_ok lo upper) p out.
Proof.
  unfold trunc_apply. destruct (min_len p <? lo)%nat eqn:E; [discriminate|].
  apply Nat.ltb_ge in E. destruct upper as [u|].
  - destruct ((lo <? u)%nat && (min_len p <? u)%nat) eqn:E2; [discriminate|].
    intro H. injection H as <-. apply cellwise_map. intros i s Hi Hs.
    pose proof (min_len_le p i s Hi Hs) as Hm. unfold trunc_cell_ok.
    apply andb_false_iff in E2. destruct E2 as [E2|E2].
    + apply Nat.ltb_ge in E2. replace (u - lo)%nat with 0%nat by lia. split.
      * unfold slice. replace (u - lo)%nat with 0%nat by lia. reflexivity.
      * intros j Hj. lia.
    + apply Nat.ltb_ge in E2. split.
      * apply slice_length. lia.
      * intros j Hj. apply slice_nth. exact Hj.
  - intro H. injection H as <-. apply cellwise_map. intros i s Hi Hs.
    pose proof (min_len_le p i s Hi Hs) as Hm. unfold trunc_cell_ok. split.
    + rewrite slice_length by lia. lia.
    + intros j Hj. rewrite slice_nth by lia. reflexivity.
Qed.

(* lower=None: the fitted bound is the SHORTEST series of the fitted panel *)
Lemma trunc_default_is_shortest pfit :
  (forall i s, In i pfit -> In s i -> (trunc_fit None pfit <= length s)%nat) /\
  (cell_lengths pfit <> [] -> exists i s, In i pfit /\ In s i /\ length s = trunc_fit None pfit).
Proof.
  split.
  - intros. cbn. eapply min_len_le; eassumption.
  - intro Hne. cbn. apply in_cell_lengths_inv. unfold min_len.
    destruct (cell_lengths pfit) as [|a l]; [congruence|]. apply fold_min_in.
Qed.

(* ---------- tabularisation / column concatenation: column-then-time ---------- *)

Definition col_offset (i : inst) (c : nat) : nat := length (concat (firstn c i)).

Lemma firstn_S_nth {A} (d : A) : forall (l : list A) c, (c < length l)%nat ->
  firstn (S c) l = firstn c l ++ [nth c l d].
Proof.
  induction l as [|x l IH]; intros c H; cbn [length] in H; [lia|].
  destruct c as [|c]; [reflexivity|].
  change (firstn (S (S c)) (x :: l)) with (x :: firstn (S c) l).
  rewrite (IH c) by lia. reflexivity.
Qed.
Lemma col_offset_eq i n : col_offset i n = length (concat (firstn n i)).
Proof. reflexivity. Qed.
Lemma col_offset_S i c : (c < length i)%nat ->
  col_offset i (S c) = (col_offset i c + length (nth c i []))%nat.
Proof.
  intro H. rewrite !col_offset_eq. rewrite (firstn_S_nth ([] : series) i c H), concat_app, app_length.
  cbn [concat]. rewrite app_nil_r. reflexivity.
Qed.

Lemma concat_block_nth : forall (i : inst) c t,
  (c < length i)%nat -> (t < length (nth c i []))%nat ->
  nth (col_offset i c + t) (concat i) 0 = nth t (nth c i []) 0.
Proof.
  unfold col_offset. induction i as [|s i IH]; intros c t Hc Ht; cbn in Hc; [lia|].
  destruct c as [|c]; cbn [firstn concat nth length] in *.
  - cbn. apply app_nth1. exact Ht.
  - rewrite app_length. rewrite app_nth2 by lia.
    replace (length s + length (concat (firstn c i)) + t - length s)%nat
      with (length (concat (firstn c i)) + t)%nat by lia.
    apply IH; [lia|exact Ht].
Qed.

Definition tab_row_ok (i : inst) (r : series) : Prop :=
  length r = col_offset i (length i) /\
  forall c t, (c < length i)%nat -> (t < length (nth c i []))%nat ->
    nth (col_offset i c + t) r 0 = nth t (nth c i []) 0.

Lemma tab_row_spec i : tab_row_ok i (tab_row i).
Proof.
  split.
  - unfold col_offset, tab_row. rewrite firstn_all. reflexivity.
  - intros. apply concat_block_nth; assumption.
Qed.

Lemma tabularize_spec p rows : tabularize p = Ok rows -> Forall2 tab_row_ok p rows.
Proof.
  unfold tabularize. destruct (rectangular p); [|discriminate]. intro H. injection H as <-.
  apply Forall2_map_in. intros. apply tab_row_spec.
Qed.
Lemma col_concat_spec p out : col_concat p = Ok out ->
  Forall2 (fun i o => exists r, o = [r] /\ tab_row_ok i r) p out.
Proof.
  unfold col_concat. destruct (rectangular p); [|discriminate]. intro H. injection H as <-.
  apply Forall2_map_in. intros i _. exists (tab_row i). split; [reflexivity|apply tab_row_spec].
Qed.

(* ---------- PAA on panels ---------- *)

Lemma paa_panel_spec m p out : (1 <= m <= min_len p)%nat -> paa_apply m p = Ok out ->
  cellwise (fun s o => Forall2 Qeq o (paa_spec m s) /\ length o = m) p out.
Proof.
  intros Hm. unfold paa_apply.
  destruct ((m =? 0)%nat || (first_len p <? m)%nat || negb (rectangular p)); [discriminate|].
  intro H. injection H as <-. apply cellwise_map. intros i s Hi Hs.
  pose proof (min_len_le p i s Hi Hs) as Hl.
  assert (HF : Forall2 Qeq (paa_coded m s) (paa_spec m s)) by (apply paa_coded_is_frame_mean; lia).
  split; [exact HF|]. apply Forall2_length in HF. rewrite HF. unfold paa_spec.
  rewrite map_length, seq_length. reflexivity.
Qed.

(* when m divides n every frame is the plain mean of its block of n/m consecutive values *)
Lemma wsum_inside a b : forall l t0, a <= Qn t0 -> Qn (t0 + length l) <= b ->
  wsum a b t0 l == qsum l.
Proof.
  induction l as [|x l IH]; intros t0 Ha Hb; cbn [wsum qsum fold_right]; [reflexivity|].
  cbn [length] in Hb. change (fold_right Qplus 0 l) with (qsum l).
  rewrite IH.
  - rewrite ov_inside; [lra|exact Ha|].
    rewrite <- Qn_S. eapply Qle_trans; [|exact Hb]. apply Qn_le. lia.
  - rewrite Qn_S. pose proof (Qn_nonneg t0). lra.
  - replace (S t0 + length l)%nat with (t0 + S (length l))%nat by lia. exact Hb.
Qed.
Lemma wsum_after a b : forall l t0, b <= Qn t0 -> wsum a b t0 l == 0.
Proof.
  induction l as [|x l IH]; intros t0 Hb; cbn [wsum]; [reflexivity|].
  rewrite IH by (rewrite Qn_S; lra). rewrite ov_after by exact Hb. lra.
Qed.

Lemma paa_divisible_block_mean (q m k : nat) (s : series) :
  (1 <= q)%nat -> (1 <= m)%nat -> length s = (m * q)%nat -> (k < m)%nat ->
  paa_frame m s k == qmean (slice (k * q) (k * q + q) s).
Proof.
  intros Hq Hm Hlen Hk. unfold paa_frame, step_integral, paa_len. rewrite Hlen.
  assert (HL : Qn (m * q) / Qn m == Qn q).
  { unfold Qn. rewrite Nat2Z.inj_mul, inject_Z_mult. field.
    pose proof (Qn_lt 0 m Hm) as H. unfold Qn in H. cbn in H. lra. }
  assert (Hs : s = firstn (k * q) s ++ slice (k * q) (k * q + q) s ++ skipn (k * q + q) s).
  { unfold slice. replace (k * q + q - k * q)%nat with q by lia.
    rewrite <- (firstn_skipn (k * q) s) at 1. f_equal.
    rewrite <- (firstn_skipn q (skipn (k * q) s)) at 1. f_equal.
    rewrite skipn_skipn. f_equal. lia. }
  assert (Hkq : (k * q + q <= m * q)%nat) by nia.
  assert (Hl1 : length (firstn (k * q) s) = (k * q)%nat) by (rewrite firstn_length; lia).
  assert (Hl2 : length (slice (k * q) (k * q + q) s) = q) by (rewrite slice_length; lia).
  assert (Ha : Qn k * (Qn (m * q) / Qn m) == Qn (k * q)).
  { rewrite HL. unfold Qn. rewrite Nat2Z.inj_mul, inject_Z_mult. reflexivity. }
  assert (Hb : (Qn k + 1) * (Qn (m * q) / Qn m) == Qn (k * q + q)).
  { rewrite HL. rewrite Qn_plus. unfold Qn at 3. rewrite Nat2Z.inj_mul, inject_Z_mult.
    fold (Qn k) (Qn q). ring. }
  unfold qmean. rewrite Hl2.
  apply Qdiv_comp; [|exact HL].
  rewrite Hs at 1. rewrite !wsum_app. rewrite Hl1, Hl2. cbn [plus].
  rewrite wsum_before by (rewrite Hl1; cbn [plus]; rewrite Ha; lra).
  rewrite wsum_inside by (rewrite ?Hl2; rewrite ?Ha, ?Hb; lra).
  rewrite wsum_after by (rewrite Hb; lra).
  lra.
Qed.

(* ---------- interval segmentation ---------- *)

Fixpoint tiles (start : nat) (bs : list (nat * nat)) (stop : nat) : Prop :=
  match bs with
  | [] => start = stop
  | (a, b) :: t => a = start /\ (a <= b)%nat /\ tiles b t stop
  end.

Lemma chunks_from_tiles : forall sizes start,
  tiles start (chunks_from start sizes) (start + list_sum sizes).
Proof.
  induction sizes as [|z t IH]; intro start; cbn [chunks_from tiles list_sum fold_right].
  - lia.
  - split; [reflexivity|]. split; [lia|].
    replace (start + (z + list_sum t))%nat with (start + z + list_sum t)%nat by lia. apply IH.
Qed.
Lemma list_sum_repeat a k : list_sum (repeat a k) = (k * a)%nat.
Proof. induction k as [|k IH]; cbn; [reflexivity|]. rewrite IH. lia. Qed.
Lemma split_sizes_sum n k : (0 < k)%nat -> list_sum (split_sizes n k) = n.
Proof.
  intro Hk. unfold split_sizes. rewrite list_sum_app, !list_sum_repeat.
  pose proof (Nat.div_mod n k ltac:(lia)) as Hd.
  pose proof (Nat.mod_upper_bound n k ltac:(lia)) as Hr.
  set (q := (n / k)%nat) in *. set (r := (n mod k)%nat) in *. nia.
Qed.
Lemma split_sizes_length n k : (0 < k)%nat -> length (split_sizes n k) = k.
Proof.
  intro Hk. unfold split_sizes. rewrite app_length, !repeat_length.
  pose proof (Nat.mod_upper_bound n k ltac:(lia)). lia.
Qed.
Lemma chunks_from_length : forall sizes start, length (chunks_from start sizes) = length sizes.
Proof. induction sizes; intros; cbn; [reflexivity|]. rewrite IHsizes. reflexivity. Qed.
Lemma chunks_from_sizes : forall sizes start a b,
  In (a, b) (chunks_from start sizes) -> In (b - a)%nat sizes.
Proof.
  induction sizes as [|z t IH]; intros start a b H; cbn in H; [destruct H|].
  destruct H as [H|H].
  - injection H as <- <-. left. lia.
  - right. eapply IH. exact H.
Qed.

Lemma segment_tiles_data : forall bs a (s : series),
  tiles a bs (length s) -> concat (segment bs s) = skipn a s.
Proof.
  induction bs as [|[a' b] t IH]; intros a s H; cbn [tiles segment map concat] in *.
  - subst a. rewrite skipn_all. reflexivity.
  - destruct H as (-> & Hab & Ht). cbn [fst snd]. fold (segment t s). rewrite (IH b s Ht).
    unfold slice. replace (skipn b s) with (skipn (b - a) (skipn a s))
      by (rewrite skipn_skipn; f_equal; lia).
    apply firstn_skipn.
Qed.

Lemma tiles_stop_ge : forall bs a n, tiles a bs n -> (a <= n)%nat.
Proof.
  induction bs as [|[a' b] t IH]; intros a n H; cbn in H; [lia|].
  destruct H as (-> & Hab & Ht). specialize (IH b n Ht). lia.
Qed.

Lemma interval_segment_spec n k (s : series) :
  (1 <= k <= n)%nat -> length s = n ->
  let bs := split_bounds n k in
  length bs = k /\ tiles 0 bs n /\
  (forall a b, In (a, b) bs -> (a < b)%nat /\ ((b - a = n / k)%nat \/ (b - a = S (n / k))%nat)) /\
  concat (segment bs s) = s.
Proof.
  intros Hk Hlen bs. unfold bs, split_bounds.
  assert (Hq : (1 <= n / k)%nat) by (apply Nat.div_le_lower_bound; lia).
  repeat split.
  - rewrite chunks_from_length. apply split_sizes_length. lia.
  - pose proof (chunks_from_tiles (split_sizes n k) 0) as H.
    rewrite split_sizes_sum in H by lia. exact H.
  - apply chunks_from_sizes in H. unfold split_sizes in H. apply in_app_or in H.
    destruct H as [H|H]; apply repeat_spec in H; lia.
  - apply chunks_from_sizes in H. unfold split_sizes in H. apply in_app_or in H.
    destruct H as [H|H]; apply repeat_spec in H; [right|left]; lia.
  - pose proof (chunks_from_tiles (split_sizes n k) 0) as H.
    rewrite split_sizes_sum in H by lia. cbn [plus] in H. rewrite <- Hlen in H.
    rewrite (segment_tiles_data _ 0 s H). reflexivity.
Qed.

(* explicit / fitted intervals: every cell is exactly the half-open slice *)
Lemma segment_spec ivs (s : series) :
  Forall2 (fun iv o => forall j, (j < snd iv - fst iv)%nat -> (snd iv <= length s)%nat ->
                       length o = (snd iv - fst iv)%nat /\ nth j o 0 = nth (fst iv + j) s 0)
          ivs (segment ivs s).
Proof.
  unfold segment. apply Forall2_map_in. intros [a b] _ j Hj Hb. cbn [fst snd] in *. split.
  - apply slice_length. exact Hb.
  - apply slice_nth. exact Hj.
Qed.

(* ---------- sliding windows ---------- *)

Lemma edge_pad_nth k (s : series) j : s <> [] -> (j < length s + 2 * k)%nat ->
  nth j (edge_pad k s) 0 = nth (Nat.min (j - k) (length s - 1)) s 0.
Proof.
  intros Hne Hj. unfold edge_pad.
  assert (Hlen : (0 < length s)%nat) by (destruct s; [congruence|cbn; lia]).
  destruct (lt_dec j k) as [H1|H1].
  - rewrite app_nth1 by (rewrite repeat_length; exact H1). rewrite nth_repeat_lt by exact H1.
    replace (j - k)%nat with 0%nat by lia. rewrite Nat.min_0_l. destruct s; [congruence|reflexivity].
  - rewrite app_nth2 by (rewrite repeat_length; lia). rewrite repeat_length.
    destruct (lt_dec (j - k) (length s)) as [H2|H2].
    + rewrite app_nth1 by exact H2. f_equal. lia.
    + rewrite app_nth2 by lia. rewrite nth_repeat_lt by lia.
      rewrite last_nth by exact Hne. f_equal. lia.
Qed.

Lemma sliding_segment_spec w (s : series) : (1 <= w)%nat -> s <> [] ->
  length (sliding_coded w s) = length s /\
  forall i, (i < length s)%nat ->
    let win := nth i (sliding_coded w s) [] in
    length win = w /\
    forall j, (j < w)%nat -> nth j win 0 = nth (Nat.min (i + j - w / 2) (length s - 1)) s 0.
Proof.
  intros Hw Hne. unfold sliding_coded. split; [rewrite map_length, seq_length; reflexivity|].
  intros i Hi win. unfold win. rewrite map_seq_nth by exact Hi.
  assert (Hpl : length (edge_pad (w / 2) s) = (length s + 2 * (w / 2))%nat).
  { unfold edge_pad. rewrite !app_length, !repeat_length. lia. }
  assert (Hw2 : (w - 1 <= 2 * (w / 2))%nat).
  { pose proof (Nat.div_mod w 2 ltac:(lia)). pose proof (Nat.mod_upper_bound w 2 ltac:(lia)). lia. }
  split.
  - rewrite slice_length by (rewrite Hpl; lia). lia.
  - intros j Hj. rewrite slice_nth by lia. apply edge_pad_nth; [exact Hne|lia].
Qed.
