From Coq Require Import QArith List Bool ZArith Arith Lia Lqa.
Require Import SkV.Lib.Base SkV.C14.Model SkV.C14.PaaProof.
Import ListNotations.
Open Scope Q_scope.
