(* C14 lemmas: each transformer's documented function, stated independently of the loop /
   slicing structure of the model, for ALL panels and parameters. *)
From Coq Require Import QArith Qround List Bool ZArith Arith Lia Lqa.
Require Import SkV.Lib.Base SkV.C14.Model SkV.C14.PaaProof.
Import ListNotations.
Open Scope Q_scope.

(* ---------- generic list facts ---------- *)

Lemma nth_firstn_lt {A} (d : A) : forall k l j, (j < k)%nat -> nth j (firstn k l) d = nth j l d.
Proof.
  induction k as [|k IH]; intros l j H; [lia|]. destruct l as [|x l]; [destruct j; reflexivity|].
  destruct j as [|j]; cbn; [reflexivity|]. apply IH. lia.
Qed.
Lemma nth_skipn_add {A} (d : A) : forall a l j, nth j (skipn a l) d = nth (a + j) l d.
Proof.
  induction a as [|a IH]; intros l j; [reflexivity|]. destruct l as [|x l]; cbn.
  - destruct j; reflexivity.
  - apply IH.
Qed.
Lemma skipn_add {A} : forall b a (l : list A), skipn a (skipn b l) = skipn (b + a) l.
Proof.
  induction b as [|b IH]; intros a l; [reflexivity|]. destruct l as [|x l]; cbn.
  - destruct a; reflexivity.
  - apply IH.
Qed.
Lemma slice_length {A} (a b : nat) (s : list A) :
  (b <= length s)%nat -> length (slice a b s) = (b - a)%nat.
Proof. intro H. unfold slice. rewrite firstn_length, skipn_length. lia. Qed.
Lemma slice_nth {A} (d : A) (a b : nat) (s : list A) j :
  (j < b - a)%nat -> nth j (slice a b s) d = nth (a + j) s d.
Proof. intro H. unfold slice. rewrite nth_firstn_lt by exact H. apply nth_skipn_add. Qed.
Lemma nth_repeat_lt {A} (d x : A) : forall k j, (j < k)%nat -> nth j (repeat x k) d = x.
Proof. induction k as [|k IH]; intros j H; [lia|]. destruct j; cbn; [reflexivity|]. apply IH. lia. Qed.
Lemma last_nth {A} (d : A) : forall l, l <> [] -> last l d = nth (length l - 1) l d.
Proof.
  induction l as [|x l IH]; [congruence|]. intros _. destruct l as [|y l]; [reflexivity|].
  change (last (x :: y :: l) d) with (last (y :: l) d). rewrite IH by congruence.
  cbn [length]. replace (S (S (length l)) - 1)%nat with (S (S (length l) - 1)) by lia. reflexivity.
Qed.
Lemma map_seq_nth {A} (f : nat -> A) (d : A) n i :
  (i < n)%nat -> nth i (map f (seq 0 n)) d = f i.
Proof.
  intro H. rewrite nth_indep with (d' := f 0%nat) by (rewrite map_length, seq_length; exact H).
  rewrite map_nth. rewrite seq_nth by exact H. reflexivity.
Qed.

(* cell-wise relation between an input panel and an output panel: same instances in the same
   order, same columns in the same order *)
Definition cellwise (R : series -> series -> Prop) (p out : panel) : Prop :=
  Forall2 (Forall2 R) p out.

Lemma Forall2_map_in {A B} (R : A -> B -> Prop) (f : A -> B) : forall l,
  (forall x, In x l -> R x (f x)) -> Forall2 R l (map f l).
Proof.
  induction l as [|x l IH]; intro H; cbn; constructor.
  - apply H. left. reflexivity.
  - apply IH. intros y Hy. apply H. right. exact Hy.
Qed.
Lemma cellwise_map (R : series -> series -> Prop) f p :
  (forall i s, In i p -> In s i -> R s (f s)) -> cellwise R p (map_cells f p).
Proof.
  intro H. unfold cellwise, map_cells. apply Forall2_map_in. intros i Hi.
  apply Forall2_map_in. intros s Hs. eapply H; eassumption.
Qed.

Lemma in_cell_lengths p i s : In i p -> In s i -> In (length s) (cell_lengths p).
Proof.
  intros Hi Hs. unfold cell_lengths. apply in_concat. exists (map (@length Q) i). split.
  - apply in_map. exact Hi.
  - apply in_map. exact Hs.
Qed.
Lemma fold_max_ge : forall l x, In x l -> (x <= fold_right Nat.max 0 l)%nat.
Proof.
  induction l as [|a l IH]; intros x H; [destruct H|]. destruct H as [<-|H]; cbn; [lia|].
  specialize (IH x H). lia.
Qed.
Lemma fold_max_in : forall l, l <> [] -> In (fold_right Nat.max 0%nat l) l.
Proof.
  induction l as [|a l IH]; [congruence|]. intros _. cbn [fold_right].
  destruct l as [|b l]; [left; cbn; lia|].
  destruct (Nat.max_spec a (fold_right Nat.max 0%nat (b :: l))) as [[_ E]|[_ E]]; rewrite E.
  - right. apply IH. congruence.
  - left. reflexivity.
Qed.
Lemma fold_min_le : forall l a x, In x (a :: l) -> (fold_right Nat.min a l <= x)%nat.
Proof.
  induction l as [|b l IH]; intros a x H; cbn.
  - destruct H as [<-|[]]. lia.
  - destruct H as [<-|[<-|H]].
    + specialize (IH a a (or_introl eq_refl)). lia.
    + lia.
    + specialize (IH a x (or_intror H)). lia.
Qed.
Lemma fold_min_in : forall l a, In (fold_right Nat.min a l) (a :: l).
Proof.
  induction l as [|b l IH]; intro a; cbn [fold_right]; [left; reflexivity|].
  destruct (Nat.min_spec b (fold_right Nat.min a l)) as [[_ E]|[_ E]]; rewrite E.
  - right. left. reflexivity.
  - destruct (IH a) as [H|H]; [left; exact H|right; right; exact H].
Qed.
Lemma max_len_ge p i s : In i p -> In s i -> (length s <= max_len p)%nat.
Proof. intros. apply fold_max_ge. eapply in_cell_lengths; eassumption. Qed.
Lemma min_len_le p i s : In i p -> In s i -> (min_len p <= length s)%nat.
Proof.
  intros Hi Hs. pose proof (in_cell_lengths p i s Hi Hs) as H. unfold min_len.
  destruct (cell_lengths p) as [|a l]; [destruct H|]. apply fold_min_le. exact H.
Qed.
Lemma in_cell_lengths_inv p n : In n (cell_lengths p) -> exists i s, In i p /\ In s i /\ length s = n.
Proof.
  unfold cell_lengths. intro H. apply in_concat in H. destruct H as (l & Hl & Hn).
  apply in_map_iff in Hl. destruct Hl as (i & <- & Hi). apply in_map_iff in Hn.
  destruct Hn as (s & <- & Hs). exists i, s. auto.
Qed.

(* ---------- padding ---------- *)

Definition pad_cell_ok (L : nat) (fill : Q) (s o : series) : Prop :=
  length o = L /\
  forall j, (j < L)%nat -> nth j o 0 = if (j <? length s)%nat then nth j s 0 else fill.

Lemma pad_series_ok L fill s : (length s <= L)%nat -> pad_cell_ok L fill s (pad_series L fill s).
Proof.
  intro H. unfold pad_cell_ok, pad_series. split.
  - rewrite app_length, repeat_length. lia.
  - intros j Hj. destruct (j <? length s)%nat eqn:E.
    + apply Nat.ltb_lt in E. apply app_nth1. exact E.
    + apply Nat.ltb_ge in E. rewrite app_nth2 by exact E. apply nth_repeat_lt. lia.
Qed.

Lemma pad_spec L fill p out : pad_apply L fill p = Ok out -> cellwise (pad_cell_ok L fill) p out.
Proof.
  unfold pad_apply. destruct (L <? max_len p)%nat eqn:E; [discriminate|]. intro H. injection H as <-.
  apply Nat.ltb_ge in E. apply cellwise_map. intros i s Hi Hs. apply pad_series_ok.
  pose proof (max_len_ge p i s Hi Hs). lia.
Qed.

Lemma pad_rejects_iff L fill p :
  pad_apply L fill p = Err <-> exists i s, In i p /\ In s i /\ (L < length s)%nat.
Proof.
  unfold pad_apply. destruct (L <? max_len p)%nat eqn:E; split; intro H; try discriminate; try reflexivity.
  - apply Nat.ltb_lt in E. assert (Hne : cell_lengths p <> []).
    { intro Hnil. unfold max_len in E. rewrite Hnil in E. cbn in E. lia. }
    pose proof (fold_max_in _ Hne) as Hin. apply in_cell_lengths_inv in Hin.
    destruct Hin as (i & s & Hi & Hs & Hl). exists i, s. repeat split; try assumption.
    unfold max_len in E. lia.
  - exfalso. apply Nat.ltb_ge in E. destruct H as (i & s & Hi & Hs & Hl).
    pose proof (max_len_ge p i s Hi Hs). lia.
Qed.

(* pad_length=None: the fitted length is the LONGEST series of the fitted panel *)
Lemma pad_default_is_longest pfit :
  (forall i s, In i pfit -> In s i -> (length s <= pad_fit None pfit)%nat) /\
  (cell_lengths pfit <> [] -> exists i s, In i pfit /\ In s i /\ length s = pad_fit None pfit).
Proof.
  split.
  - intros. cbn. eapply max_len_ge; eassumption.
  - intro Hne. cbn. apply in_cell_lengths_inv. apply fold_max_in. exact Hne.
Qed.

(* ---------- truncation ---------- *)

Definition trunc_cell_ok (lo : nat) (upper : option nat) (s o : series) : Prop :=
  match upper with
  | None => length o = lo /\ forall j, (j < lo)%nat -> nth j o 0 = nth j s 0
  | Some u => length o = (u - lo)%nat /\ forall j, (j < u - lo)%nat -> nth j o 0 = nth (lo + j) s 0
  end.

Lemma truncate_spec lo upper p out :
  trunc_apply lo upper p = Ok out -> cellwise (trunc_cell_ok lo upper) p out.
Proof.
  unfold trunc_apply. destruct (min_len p <? lo)%nat eqn:E; [discriminate|].
  apply Nat.ltb_ge in E. destruct upper as [u|].
  - destruct ((lo <? u)%nat && (min_len p <? u)%nat) eqn:E2; [discriminate|].
    intro H. injection H as <-. apply cellwise_map. intros i s Hi Hs.
    pose proof (min_len_le p i s Hi Hs) as Hm. unfold trunc_cell_ok.
    apply andb_false_iff in E2. destruct E2 as [E2|E2].
    + apply Nat.ltb_ge in E2. replace (u - lo)%nat with 0%nat by lia. split.
      * unfold slice. replace (u - lo)%nat with 0%nat by lia. reflexivity.
      * intros j Hj. lia.
    + apply Nat.ltb_ge in E2. split.
      * apply slice_length. lia.
      * intros j Hj. apply slice_nth. exact Hj.
  - intro H. injection H as <-. apply cellwise_map. intros i s Hi Hs.
    pose proof (min_len_le p i s Hi Hs) as Hm. unfold trunc_cell_ok. split.
    + rewrite slice_length by lia. lia.
    + intros j Hj. rewrite slice_nth by lia. reflexivity.
Qed.

(* lower=None: the fitted bound is the SHORTEST series of the fitted panel *)
Lemma trunc_default_is_shortest pfit :
  (forall i s, In i pfit -> In s i -> (trunc_fit None pfit <= length s)%nat) /\
  (cell_lengths pfit <> [] -> exists i s, In i pfit /\ In s i /\ length s = trunc_fit None pfit).
Proof.
  split.
  - intros. cbn. eapply min_len_le; eassumption.
  - intro Hne. cbn. apply in_cell_lengths_inv. unfold min_len.
    destruct (cell_lengths pfit) as [|a l]; [congruence|]. apply fold_min_in.
Qed.

(* ---------- tabularisation / column concatenation: column-then-time ---------- *)

Definition col_offset (i : inst) (c : nat) : nat := length (concat (firstn c i)).

Lemma firstn_S_nth {A} (d : A) : forall (l : list A) c, (c < length l)%nat ->
  firstn (S c) l = firstn c l ++ [nth c l d].
Proof.
  induction l as [|x l IH]; intros c H; cbn [length] in H; [lia|].
  destruct c as [|c]; [reflexivity|].
  change (firstn (S (S c)) (x :: l)) with (x :: firstn (S c) l).
  rewrite (IH c) by lia. reflexivity.
Qed.
Lemma col_offset_eq i n : col_offset i n = length (concat (firstn n i)).
Proof. reflexivity. Qed.
Lemma col_offset_S i c : (c < length i)%nat ->
  col_offset i (S c) = (col_offset i c + length (nth c i []))%nat.
Proof.
  intro H. rewrite !col_offset_eq. rewrite (firstn_S_nth ([] : series) i c H), concat_app, app_length.
  cbn [concat]. rewrite app_nil_r. reflexivity.
Qed.

Lemma concat_block_nth : forall (i : inst) c t,
  (c < length i)%nat -> (t < length (nth c i []))%nat ->
  nth (col_offset i c + t) (concat i) 0 = nth t (nth c i []) 0.
Proof.
  unfold col_offset. induction i as [|s i IH]; intros c t Hc Ht; cbn in Hc; [lia|].
  destruct c as [|c]; cbn [firstn concat nth length] in *.
  - cbn. apply app_nth1. exact Ht.
  - rewrite app_length. rewrite app_nth2 by lia.
    replace (length s + length (concat (firstn c i)) + t - length s)%nat
      with (length (concat (firstn c i)) + t)%nat by lia.
    apply IH; [lia|exact Ht].
Qed.

Definition tab_row_ok (i : inst) (r : series) : Prop :=
  length r = col_offset i (length i) /\
  forall c t, (c < length i)%nat -> (t < length (nth c i []))%nat ->
    nth (col_offset i c + t) r 0 = nth t (nth c i []) 0.

Lemma tab_row_spec i : tab_row_ok i (tab_row i).
Proof.
  split.
  - unfold col_offset, tab_row. rewrite firstn_all. reflexivity.
  - intros. apply concat_block_nth; assumption.
Qed.

Lemma tabularize_spec p rows : tabularize p = Ok rows -> Forall2 tab_row_ok p rows.
Proof.
  unfold tabularize. destruct (rectangular p); [|discriminate]. intro H. injection H as <-.
  apply Forall2_map_in. intros. apply tab_row_spec.
Qed.
Lemma Forall2_impl {A B} (R R' : A -> B -> Prop) l l' :
  (forall a b, R a b -> R' a b) -> Forall2 R l l' -> Forall2 R' l l'.
Proof. intros H HF. induction HF; constructor; auto. Qed.

Lemma tabularize_column_then_time p rows : tabularize p = Ok rows ->
  Forall2 (fun i r =>
    length r = col_offset i (length i) /\
    (forall c, (c < length i)%nat -> col_offset i (S c) = (col_offset i c + length (nth c i []))%nat) /\
    forall c t, (c < length i)%nat -> (t < length (nth c i []))%nat ->
      nth (col_offset i c + t) r 0 = nth t (nth c i []) 0) p rows.
Proof.
  intro H. eapply Forall2_impl; [|apply tabularize_spec; exact H].
  intros i r [Hl Hn]. split; [exact Hl|]. split; [intros c Hc; apply col_offset_S; exact Hc|exact Hn].
Qed.

Lemma col_concat_spec p out : col_concat p = Ok out ->
  Forall2 (fun i o => exists r, o = [r] /\ tab_row_ok i r) p out.
Proof.
  unfold col_concat. destruct (rectangular p); [|discriminate]. intro H. injection H as <-.
  apply Forall2_map_in. intros i _. exists (tab_row i). split; [reflexivity|apply tab_row_spec].
Qed.

(* ---------- PAA on panels ---------- *)

Lemma Forall2_len {A B} (R : A -> B -> Prop) l1 l2 : Forall2 R l1 l2 -> length l1 = length l2.
Proof. induction 1; cbn; congruence. Qed.

Lemma paa_panel_spec m p out : (1 <= m <= min_len p)%nat -> paa_apply m p = Ok out ->
  cellwise (fun s o => Forall2 Qeq o (paa_spec m s) /\ length o = m) p out.
Proof.
  intros Hm. unfold paa_apply.
  destruct ((m =? 0)%nat || (first_len p <? m)%nat || negb (rectangular p)); [discriminate|].
  intro H. injection H as <-. apply cellwise_map. intros i s Hi Hs.
  pose proof (min_len_le p i s Hi Hs) as Hl.
  assert (HF : Forall2 Qeq (paa_coded m s) (paa_spec m s)) by (apply paa_coded_is_frame_mean; lia).
  split; [exact HF|]. apply Forall2_len in HF. rewrite HF. unfold paa_spec.
  rewrite map_length, seq_length. reflexivity.
Qed.

(* when m divides n every frame is the plain mean of its block of n/m consecutive values *)
Lemma wsum_inside a b : forall l t0, a <= Qn t0 -> Qn (t0 + length l) <= b ->
  wsum a b t0 l == qsum l.
Proof.
  induction l as [|x l IH]; intros t0 Ha Hb; cbn [wsum qsum fold_right]; [reflexivity|].
  cbn [length] in Hb. change (fold_right Qplus 0 l) with (qsum l).
  rewrite IH.
  - rewrite ov_inside; [lra|exact Ha|].
    rewrite <- Qn_S. eapply Qle_trans; [|exact Hb]. apply Qn_le. lia.
  - rewrite Qn_S. pose proof (Qn_nonneg t0). lra.
  - replace (S t0 + length l)%nat with (t0 + S (length l))%nat by lia. exact Hb.
Qed.
Lemma wsum_after a b : forall l t0, b <= Qn t0 -> wsum a b t0 l == 0.
Proof.
  induction l as [|x l IH]; intros t0 Hb; cbn [wsum]; [reflexivity|].
  rewrite IH by (rewrite Qn_S; lra). rewrite ov_after by exact Hb. lra.
Qed.

Lemma Qn_mult a b : Qn (a * b) == Qn a * Qn b.
Proof. unfold Qn. rewrite Nat2Z.inj_mul, inject_Z_mult. reflexivity. Qed.
Lemma Qn_pos m : (1 <= m)%nat -> 0 < Qn m.
Proof. intro H. pose proof (Qn_lt 0 m H) as H1. change (Qn 0) with 0 in H1. lra. Qed.

Lemma paa_divisible_block_mean (q m k : nat) (s : series) :
  (1 <= q)%nat -> (1 <= m)%nat -> length s = (m * q)%nat -> (k < m)%nat ->
  paa_frame m s k == qmean (slice (k * q) (k * q + q) s).
Proof.
  intros Hq Hm Hlen Hk. unfold paa_frame, step_integral, paa_len. rewrite Hlen.
  assert (HL : Qn (m * q) / Qn m == Qn q).
  { rewrite Qn_mult. field. pose proof (Qn_pos m Hm). lra. }
  assert (Hs : s = firstn (k * q) s ++ slice (k * q) (k * q + q) s ++ skipn (k * q + q) s).
  { unfold slice. replace (k * q + q - k * q)%nat with q by lia.
    rewrite <- (firstn_skipn (k * q) s) at 1. f_equal.
    rewrite <- (firstn_skipn q (skipn (k * q) s)) at 1. f_equal.
    rewrite skipn_add. reflexivity. }
  assert (Hkq : (k * q + q <= m * q)%nat) by nia.
  assert (Hl1 : length (firstn (k * q) s) = (k * q)%nat) by (rewrite firstn_length; lia).
  assert (Hl2 : length (slice (k * q) (k * q + q) s) = q) by (rewrite slice_length; lia).
  assert (Ha : Qn k * (Qn (m * q) / Qn m) == Qn (k * q)).
  { rewrite HL. rewrite Qn_mult. reflexivity. }
  assert (Hb : (Qn k + 1) * (Qn (m * q) / Qn m) == Qn (k * q + q)).
  { rewrite HL. rewrite Qn_plus, Qn_mult. ring. }
  unfold qmean. rewrite Hl2.
  apply Qdiv_comp; [|exact HL].
  rewrite Hs at 1. rewrite !wsum_app. rewrite Hl1, Hl2. cbn [plus].
  rewrite wsum_before by (rewrite Hl1; cbn [plus]; rewrite Ha; lra).
  rewrite wsum_inside by (rewrite ?Hl2; rewrite ?Ha, ?Hb; lra).
  rewrite wsum_after by (rewrite Hb; lra).
  lra.
Qed.

(* ---------- interval segmentation ---------- *)

Fixpoint tiles (start : nat) (bs : list (nat * nat)) (stop : nat) : Prop :=
  match bs with
  | [] => start = stop
  | (a, b) :: t => a = start /\ (a <= b)%nat /\ tiles b t stop
  end.

Lemma chunks_from_tiles : forall sizes start,
  tiles start (chunks_from start sizes) (start + list_sum sizes).
Proof.
  induction sizes as [|z t IH]; intro start; cbn [chunks_from tiles].
  - cbn. lia.
  - split; [reflexivity|]. split; [lia|].
    change (list_sum (z :: t)) with (z + list_sum t)%nat.
    replace (start + (z + list_sum t))%nat with (start + z + list_sum t)%nat by lia. apply IH.
Qed.
Lemma list_sum_repeat a k : list_sum (repeat a k) = (k * a)%nat.
Proof.
  induction k as [|k IH]; [reflexivity|]. cbn [repeat].
  change (list_sum (a :: repeat a k)) with (a + list_sum (repeat a k))%nat. rewrite IH. lia.
Qed.
Lemma split_sizes_sum n k : (0 < k)%nat -> list_sum (split_sizes n k) = n.
Proof.
  intro Hk. unfold split_sizes. rewrite list_sum_app, !list_sum_repeat.
  pose proof (Nat.div_mod n k ltac:(lia)) as Hd.
  pose proof (Nat.mod_upper_bound n k ltac:(lia)) as Hr.
  set (q := (n / k)%nat) in *. set (r := (n mod k)%nat) in *. nia.
Qed.
Lemma split_sizes_length n k : (0 < k)%nat -> length (split_sizes n k) = k.
Proof.
  intro Hk. unfold split_sizes. rewrite app_length, !repeat_length.
  pose proof (Nat.mod_upper_bound n k ltac:(lia)). lia.
Qed.
Lemma chunks_from_length : forall sizes start, length (chunks_from start sizes) = length sizes.
Proof. induction sizes; intros; cbn; [reflexivity|]. rewrite IHsizes. reflexivity. Qed.
Lemma chunks_from_sizes : forall sizes start a b,
  In (a, b) (chunks_from start sizes) -> In (b - a)%nat sizes.
Proof.
  induction sizes as [|z t IH]; intros start a b H; cbn in H; [destruct H|].
  destruct H as [H|H].
  - injection H as <- <-. left. lia.
  - right. eapply IH. exact H.
Qed.

Lemma segment_tiles_data : forall bs a (s : series),
  tiles a bs (length s) -> concat (segment bs s) = skipn a s.
Proof.
  induction bs as [|[a' b] t IH]; intros a s H; cbn [tiles segment map concat] in *.
  - subst a. rewrite skipn_all. reflexivity.
  - destruct H as (-> & Hab & Ht). cbn [fst snd]. fold (segment t s). rewrite (IH b s Ht).
    unfold slice. replace (skipn b s) with (skipn (b - a) (skipn a s))
      by (rewrite skipn_add; f_equal; lia).
    apply firstn_skipn.
Qed.

Lemma tiles_stop_ge : forall bs a n, tiles a bs n -> (a <= n)%nat.
Proof.
  induction bs as [|[a' b] t IH]; intros a n H; cbn in H; [lia|].
  destruct H as (-> & Hab & Ht). specialize (IH b n Ht). lia.
Qed.

Lemma interval_segment_spec n k (s : series) :
  (1 <= k <= n)%nat -> length s = n ->
  let bs := split_bounds n k in
  length bs = k /\ tiles 0 bs n /\
  (forall a b, In (a, b) bs -> (a < b)%nat /\ ((b - a = n / k)%nat \/ (b - a = S (n / k))%nat)) /\
  concat (segment bs s) = s.
Proof.
  intros Hk Hlen bs. unfold bs, split_bounds.
  assert (Hq : (1 <= n / k)%nat) by (apply Nat.div_le_lower_bound; lia).
  repeat split.
  - rewrite chunks_from_length. apply split_sizes_length. lia.
  - pose proof (chunks_from_tiles (split_sizes n k) 0) as H.
    rewrite split_sizes_sum in H by lia. exact H.
  - apply chunks_from_sizes in H. unfold split_sizes in H. apply in_app_or in H.
    destruct H as [H|H]; apply repeat_spec in H; lia.
  - apply chunks_from_sizes in H. unfold split_sizes in H. apply in_app_or in H.
    destruct H as [H|H]; apply repeat_spec in H; [right|left]; lia.
  - pose proof (chunks_from_tiles (split_sizes n k) 0) as H.
    rewrite split_sizes_sum in H by lia. cbn [plus] in H.
    rewrite (segment_tiles_data _ 0 s); [reflexivity|]. rewrite Hlen. exact H.
Qed.

(* explicit / fitted intervals: every cell is exactly the half-open slice *)
Lemma segment_spec ivs (s : series) :
  Forall2 (fun iv o => forall j, (j < snd iv - fst iv)%nat -> (snd iv <= length s)%nat ->
                       length o = (snd iv - fst iv)%nat /\ nth j o 0 = nth (fst iv + j) s 0)
          ivs (segment ivs s).
Proof.
  unfold segment. apply Forall2_map_in. intros [a b] _ j Hj Hb. cbn [fst snd] in *. split.
  - apply slice_length. exact Hb.
  - apply slice_nth. exact Hj.
Qed.

(* ---------- sliding windows ---------- *)

Lemma edge_pad_nth k (s : series) j : s <> [] -> (j < length s + 2 * k)%nat ->
  nth j (edge_pad k s) 0 = nth (Nat.min (j - k) (length s - 1)) s 0.
Proof.
  intros Hne Hj. unfold edge_pad.
  assert (Hlen : (0 < length s)%nat) by (destruct s; [congruence|cbn; lia]).
  destruct (lt_dec j k) as [H1|H1].
  - rewrite app_nth1 by (rewrite repeat_length; exact H1). rewrite nth_repeat_lt by exact H1.
    replace (j - k)%nat with 0%nat by lia. rewrite Nat.min_0_l. destruct s; [congruence|reflexivity].
  - rewrite app_nth2 by (rewrite repeat_length; lia). rewrite repeat_length.
    destruct (lt_dec (j - k) (length s)) as [H2|H2].
    + rewrite app_nth1 by exact H2. f_equal. lia.
    + rewrite app_nth2 by lia. rewrite nth_repeat_lt by lia.
      rewrite last_nth by exact Hne. f_equal. lia.
Qed.

Lemma sliding_segment_spec w (s : series) : (1 <= w)%nat -> s <> [] ->
  length (sliding_coded w s) = length s /\
  forall i, (i < length s)%nat ->
    let win := nth i (sliding_coded w s) [] in
    length win = w /\
    forall j, (j < w)%nat -> nth j win 0 = nth (Nat.min (i + j - w / 2) (length s - 1)) s 0.
Proof.
  intros Hw Hne. unfold sliding_coded. split; [rewrite map_length, seq_length; reflexivity|].
  intros i Hi. cbv zeta. rewrite map_seq_nth by exact Hi.
  assert (Hpl : length (edge_pad (w / 2) s) = (length s + 2 * (w / 2))%nat).
  { unfold edge_pad. rewrite !app_length, !repeat_length. lia. }
  assert (Hw2 : (w - 1 <= 2 * (w / 2))%nat).
  { pose proof (Nat.div_mod w 2 ltac:(lia)). pose proof (Nat.mod_upper_bound w 2 ltac:(lia)). lia. }
  split.
  - rewrite slice_length by (rewrite Hpl; lia). lia.
  - intros j Hj. rewrite slice_nth by lia. apply edge_pad_nth; [exact Hne|lia].
Qed.

(* ---------- linear interpolation onto an equally spaced grid ---------- *)

Lemma Qn_le_inv a b : Qn a <= Qn b -> (a <= b)%nat.
Proof. unfold Qn. rewrite <- Zle_Qle. lia. Qed.
Lemma Qn_to_nat z : (0 <= z)%Z -> Qn (Z.to_nat z) == inject_Z z.
Proof. intro H. unfold Qn. rewrite Z2Nat.id by exact H. reflexivity. Qed.

Definition interp_k (s : series) (x : Q) : nat := Nat.min (Z.to_nat (Qfloor x)) (length s - 2).

Lemma interp_bracket (s : series) x : (2 <= length s)%nat -> 0 <= x -> x <= Qn (length s - 1) ->
  (S (interp_k s x) < length s)%nat /\ Qn (interp_k s x) <= x /\ x <= Qn (interp_k s x) + 1.
Proof.
  intros Hn H0 Hx. unfold interp_k.
  assert (Hf0 : (0 <= Qfloor x)%Z).
  { change 0%Z with (Qfloor 0). apply Qfloor_resp_le. exact H0. }
  pose proof (Qfloor_le x) as Hfl. pose proof (Qlt_floor x) as Hfu.
  rewrite inject_Z_plus in Hfu. change (inject_Z 1) with 1 in Hfu.
  pose proof (Qn_to_nat _ Hf0) as Hq.
  destruct (le_lt_dec (Z.to_nat (Qfloor x)) (length s - 2)) as [Hle|Hgt].
  - rewrite Nat.min_l by exact Hle. split; [lia|]. rewrite Hq. split; lra.
  - rewrite Nat.min_r by lia. split; [lia|].
    assert (H1 : Qn (length s - 1) <= Qn (Z.to_nat (Qfloor x))) by (apply Qn_le; lia).
    assert (H2 : Qn (length s - 1) == Qn (length s - 2) + 1).
    { rewrite <- Qn_S. replace (S (length s - 2)) with (length s - 1)%nat by lia. reflexivity. }
    split; lra.
Qed.

Lemma interp_at_convex (s : series) x :
  interp_at s x == (1 - (x - Qn (interp_k s x))) * qnth s (interp_k s x)
                   + (x - Qn (interp_k s x)) * qnth s (S (interp_k s x)).
Proof. unfold interp_at. fold (interp_k s x). ring. Qed.

Lemma interp_at_knot (s : series) x i : (2 <= length s)%nat -> (i < length s)%nat ->
  x == Qn i -> interp_at s x == qnth s i.
Proof.
  intros Hn Hi Hx.
  assert (H0 : 0 <= x) by (rewrite Hx; apply Qn_nonneg).
  assert (H1 : x <= Qn (length s - 1)) by (rewrite Hx; apply Qn_le; lia).
  destruct (interp_bracket s x Hn H0 H1) as (Hk & Hlo & Hhi).
  rewrite interp_at_convex. remember (interp_k s x) as k eqn:Ek. clear Ek.
  assert (Hcases : i = k \/ i = S k).
  { assert (k <= i)%nat by (apply Qn_le_inv; lra).
    assert (i <= S k)%nat by (apply Qn_le_inv; rewrite Qn_S; lra). lia. }
  destruct Hcases as [->| ->].
  - assert (E : x - Qn k == 0) by lra. rewrite E. ring.
  - assert (E : x - Qn k == 1) by (rewrite Qn_S in Hx; lra). rewrite E. ring.
Qed.

Lemma interp_pos_range n m j : (j < m)%nat ->
  0 <= interp_pos n m j /\ interp_pos n m j <= Qn (n - 1).
Proof.
  intro Hj. unfold interp_pos. destruct (le_lt_dec m 1) as [Hm|Hm].
  - assert (j = 0%nat) by lia. subst j. change (Qn 0) with 0.
    assert (E : 0 * Qn (n - 1) / Qn (m - 1) == 0) by (unfold Qdiv; ring).
    rewrite E. split; [lra|apply Qn_nonneg].
  - assert (Hd : 0 < Qn (m - 1)) by (apply Qn_pos; lia).
    pose proof (Qn_nonneg j). pose proof (Qn_nonneg (n - 1)).
    split.
    + apply Qle_shift_div_l; [exact Hd|]. rewrite Qmult_0_l. apply Qmult_le_0_compat; assumption.
    + apply Qle_shift_div_r; [exact Hd|]. rewrite (Qmult_comm (Qn (n - 1))).
      apply Qmult_le_compat_r; [apply Qn_le; lia|assumption].
Qed.

Definition interp_cell_ok (m : nat) (s o : series) : Prop :=
  let n := length s in
  length o = m /\
  (* every output value is the convex combination of the two samples that bracket its grid point *)
  (forall j, (j < m)%nat -> exists k, (S k < n)%nat /\
     Qn k <= interp_pos n m j <= Qn k + 1 /\
     nth j o 0 == (1 - (interp_pos n m j - Qn k)) * qnth s k + (interp_pos n m j - Qn k) * qnth s (S k)) /\
  (* grid points that fall on a sample return that sample *)
  (forall j i, (j < m)%nat -> (i < n)%nat -> interp_pos n m j == Qn i -> nth j o 0 == qnth s i) /\
  (* first and last point are kept; resampling to the same length is the identity *)
  ((2 <= m)%nat -> nth 0 o 0 == qnth s 0 /\ nth (m - 1) o 0 == qnth s (n - 1)) /\
  (m = n -> forall j, (j < m)%nat -> nth j o 0 == qnth s j).

Lemma interp_series_ok m (s : series) : (2 <= length s)%nat -> interp_cell_ok m s (interp_series m s).
Proof.
  intro Hn. unfold interp_cell_ok. cbv zeta.
  assert (Hnth : forall j, (j < m)%nat ->
            nth j (interp_series m s) 0 = interp_at s (interp_pos (length s) m j)).
  { intros j Hj. unfold interp_series.
    apply (map_seq_nth (fun j => interp_at s (interp_pos (length s) m j))). exact Hj. }
  assert (Hknot : forall j i, (j < m)%nat -> (i < length s)%nat ->
            interp_pos (length s) m j == Qn i -> nth j (interp_series m s) 0 == qnth s i).
  { intros j i Hj Hi Hx. rewrite (Hnth j Hj). apply interp_at_knot; assumption. }
  split; [unfold interp_series; rewrite map_length, seq_length; reflexivity|].
  split; [|split; [exact Hknot|split]].
  - intros j Hj. destruct (interp_pos_range (length s) m j Hj) as [H0 H1].
    destruct (interp_bracket s _ Hn H0 H1) as (Hk & Hlo & Hhi).
    exists (interp_k s (interp_pos (length s) m j)). split; [exact Hk|]. split; [split; assumption|].
    rewrite (Hnth j Hj). apply interp_at_convex.
  - intro Hm. split.
    + apply Hknot; [lia|lia|]. unfold interp_pos. change (Qn 0) with 0. unfold Qdiv. ring.
    + apply Hknot; [lia|lia|]. unfold interp_pos. field.
      pose proof (Qn_pos (m - 1) ltac:(lia)). lra.
  - intros Hmn j Hj. apply Hknot; [exact Hj|lia|]. unfold interp_pos. rewrite <- Hmn. field.
    pose proof (Qn_pos (m - 1) ltac:(lia)). lra.
Qed.

Lemma interp_spec m p out : (2 <= min_len p)%nat -> interp_apply m p = Ok out ->
  cellwise (interp_cell_ok m) p out.
Proof.
  intro Hmin. unfold interp_apply.
  destruct ((min_len p <? 2)%nat && (2 <=? m)%nat); [discriminate|].
  intro H. injection H as <-. apply cellwise_map. intros i s Hi Hs.
  apply interp_series_ok. pose proof (min_len_le p i s Hi Hs). lia.
Qed.

(* ---------- one row per instance, in input order; exact lengths ---------- *)

Inductive xf :=
  | XPad (L : nat) (fill : Q)
  | XTrunc (lo : nat) (upper : option nat)
  | XInterp (m : nat)
  | XConcat
  | XPaa (m : nat)
  | XISegInt (k : nat) (pfit : panel)
  | XISegArr (ivs : list (nat * nat))
  | XSlide (w : nat)
  | XRowS2S (f : sfun).

Definition apply_xf (t : xf) (p : panel) : res panel :=
  match t with
  | XPad L fill => pad_apply L fill p
  | XTrunc lo upper => trunc_apply lo upper p
  | XInterp m => interp_apply m p
  | XConcat => col_concat p
  | XPaa m => paa_apply m p
  | XISegInt k pfit => iseg_int k pfit p
  | XISegArr ivs => iseg_arr ivs p
  | XSlide w => sliding_apply w p
  | XRowS2S f => row_s2s f p
  end.

(* what happens to ONE instance: depends on the fitted configuration only, never on the other
   instances of the panel being transformed *)
Definition row_xf (t : xf) (i : inst) : inst :=
  match t with
  | XPad L fill => map (pad_series L fill) i
  | XTrunc lo None => map (slice 0 lo) i
  | XTrunc lo (Some u) => map (slice lo u) i
  | XInterp m => map (interp_series m) i
  | XConcat => [tab_row i]
  | XPaa m => map (paa_coded m) i
  | XISegInt k pfit => segment (split_bounds (first_len pfit) k) (only_col i)
  | XISegArr ivs => segment ivs (only_col i)
  | XSlide w => sliding_coded w (only_col i)
  | XRowS2S f => map (sfun_apply f) i
  end.

Lemma one_row_per_instance_in_order t p out :
  apply_xf t p = Ok out ->
  out = map (row_xf t) p /\ length out = length p /\
  forall i, (i < length p)%nat -> nth i out [] = row_xf t (nth i p []).
Proof.
  intro H. assert (E : out = map (row_xf t) p).
  { destruct t; cbn [apply_xf row_xf] in *.
    - unfold pad_apply in H. destruct (L <? max_len p)%nat; [discriminate|]. injection H as <-. reflexivity.
    - unfold trunc_apply in H. destruct (min_len p <? lo)%nat; [discriminate|].
      destruct upper as [u|].
      + destruct ((lo <? u)%nat && (min_len p <? u)%nat); [discriminate|]. injection H as <-. reflexivity.
      + injection H as <-. reflexivity.
    - unfold interp_apply in H. destruct ((min_len p <? 2)%nat && (2 <=? m)%nat); [discriminate|].
      injection H as <-. reflexivity.
    - unfold col_concat in H. destruct (rectangular p); [|discriminate]. injection H as <-. reflexivity.
    - unfold paa_apply in H.
      destruct ((m =? 0)%nat || (first_len p <? m)%nat || negb (rectangular p)); [discriminate|].
      injection H as <-. reflexivity.
    - unfold iseg_int in H.
      destruct (negb (univariate p) || negb (equal_length p) || (k =? 0)%nat
                || (first_len pfit / 2 <? k)%nat); [discriminate|].
      injection H as <-. reflexivity.
    - unfold iseg_arr in H. destruct (negb (univariate p) || negb (equal_length p)); [discriminate|].
      injection H as <-. reflexivity.
    - unfold sliding_apply in H.
      destruct (negb (univariate p) || negb (equal_length p) || (w =? 0)%nat); [discriminate|].
      injection H as <-. reflexivity.
    - unfold row_s2s in H. destruct (equal_length p); [|discriminate]. injection H as <-. reflexivity. }
  split; [exact E|]. subst out. split; [apply map_length|].
  intros i Hi. rewrite nth_indep with (d' := row_xf t []) by (rewrite map_length; exact Hi).
  apply map_nth.
Qed.

(* the transformers with a tabular output: one row per instance as well *)
Lemma tabular_one_row_per_instance p :
  (forall rows, tabularize p = Ok rows -> rows = map tab_row p) /\
  (forall g rows, row_s2p g p = Ok rows -> rows = map (map (pfun_apply g)) p) /\
  (forall feats ivs rows, rife_apply feats ivs p = Ok rows ->
     rows = map (fun i => rife_row feats ivs (only_col i)) p).
Proof.
  repeat split.
  - intros rows H. unfold tabularize in H. destruct (rectangular p); [|discriminate].
    injection H as <-. reflexivity.
  - intros g rows H. unfold row_s2p in H. destruct (equal_length p); [|discriminate].
    injection H as <-. reflexivity.
  - intros feats ivs rows H. unfold rife_apply in H.
    destruct (negb (univariate p) || negb (equal_length p)); [discriminate|].
    injection H as <-. reflexivity.
Qed.

Lemma cellwise_out_forall (R : series -> series -> Prop) (P : series -> Prop) p out :
  cellwise R p out -> (forall s o, R s o -> P o) -> forall io o, In io out -> In o io -> P o.
Proof.
  intros Hc HR. induction Hc as [|i io' p' out' Hrow _ IH]; intros io o Hio Ho; [destruct Hio|].
  destruct Hio as [<-|Hio]; [|eapply IH; eassumption].
  clear IH. induction Hrow as [|s o' i' io'' HRso _ IH2]; [destruct Ho|].
  destruct Ho as [<-|Ho]; [eapply HR; exact HRso|apply IH2; exact Ho].
Qed.

(* no assumption on the input lengths: the panel may be ragged *)
Lemma exact_lengths_for_unequal_panels (p out : panel) :
  (forall L fill, pad_apply L fill p = Ok out ->
     forall io o, In io out -> In o io -> length o = L) /\
  (forall lo upper, trunc_apply lo upper p = Ok out ->
     forall io o, In io out -> In o io ->
       length o = match upper with None => lo | Some u => (u - lo)%nat end) /\
  (forall m, interp_apply m p = Ok out -> forall io o, In io out -> In o io -> length o = m) /\
  (forall m, (1 <= m <= min_len p)%nat -> paa_apply m p = Ok out ->
     forall io o, In io out -> In o io -> length o = m).
Proof.
  repeat split.
  - intros L fill H. eapply cellwise_out_forall; [apply pad_spec; exact H|]. intros s o [Hl _]. exact Hl.
  - intros lo upper H. eapply cellwise_out_forall; [apply truncate_spec; exact H|].
    intros s o Hc. unfold trunc_cell_ok in Hc. destruct upper; destruct Hc as [Hl _]; exact Hl.
  - intros m H. unfold interp_apply in H.
    destruct ((min_len p <? 2)%nat && (2 <=? m)%nat); [discriminate|]. injection H as <-.
    intros io o Hio Ho. unfold map_cells in Hio. apply in_map_iff in Hio. destruct Hio as (i & <- & _).
    apply in_map_iff in Ho. destruct Ho as (s & <- & _). unfold interp_series.
    rewrite map_length, seq_length. reflexivity.
  - intros m Hm H. eapply cellwise_out_forall; [apply paa_panel_spec; eassumption|].
    intros s o [_ Hl]. exact Hl.
Qed.

(* ---------- features of the fitted random intervals ---------- *)

Lemma nth_concat_uniform {A} (d : A) k : forall (ll : list (list A)) a b,
  (forall l, In l ll -> length l = k) -> (a < length ll)%nat -> (b < k)%nat ->
  nth (a * k + b) (concat ll) d = nth b (nth a ll []) d.
Proof.
  induction ll as [|l ll IH]; intros a b Hall Ha Hb; cbn [length] in Ha; [lia|].
  assert (Hl : length l = k) by (apply Hall; left; reflexivity).
  destruct a as [|a]; cbn [concat nth].
  - cbn [Nat.mul plus]. apply app_nth1. lia.
  - rewrite app_nth2 by (rewrite Hl; cbn [Nat.mul]; lia).
    replace (S a * k + b - length l)%nat with (a * k + b)%nat by (rewrite Hl; cbn [Nat.mul]; lia).
    apply IH; [|lia|exact Hb]. intros l' Hl'. apply Hall. right. exact Hl'.
Qed.
Lemma length_concat_uniform {A} k : forall (ll : list (list A)),
  (forall l, In l ll -> length l = k) -> length (concat ll) = (length ll * k)%nat.
Proof.
  induction ll as [|l ll IH]; intro Hall; [reflexivity|]. cbn [concat length]. rewrite app_length.
  rewrite IH by (intros l' Hl'; apply Hall; right; exact Hl').
  rewrite (Hall l (or_introl eq_refl)). cbn [Nat.mul]. reflexivity.
Qed.

(* feature-major layout: column f * |intervals| + v holds feature f of the half-open slice v *)
Lemma rife_spec feats ivs (s : series) :
  length (rife_row feats ivs s) = (length feats * length ivs)%nat /\
  forall f v, (f < length feats)%nat -> (v < length ivs)%nat ->
    nth (f * length ivs + v) (rife_row feats ivs s) (0, false) =
    feat_apply (nth f feats FMean) (slice (fst (nth v ivs (0, 0)%nat)) (snd (nth v ivs (0, 0)%nat)) s).
Proof.
  unfold rife_row.
  set (row := fun f => map (fun iv => feat_apply f (slice (fst iv) (snd iv) s)) ivs).
  assert (Hall : forall l, In l (map row feats) -> length l = length ivs).
  { intros l Hl. apply in_map_iff in Hl. destruct Hl as (f & <- & _). unfold row. apply map_length. }
  split.
  - rewrite (length_concat_uniform (length ivs)) by exact Hall. rewrite map_length. reflexivity.
  - intros f v Hf Hv. rewrite (nth_concat_uniform (0, false) (length ivs)); [|exact Hall| |exact Hv].
    2:{ rewrite map_length. exact Hf. }
    rewrite nth_indep with (d' := row FMean) by (rewrite map_length; exact Hf).
    rewrite map_nth. unfold row.
    rewrite nth_indep with (d' := feat_apply (nth f feats FMean)
      (slice (fst (0, 0)%nat) (snd (0, 0)%nat) s)) by (rewrite map_length; exact Hv).
    rewrite (map_nth (fun iv => feat_apply (nth f feats FMean) (slice (fst iv) (snd iv) s))).
    reflexivity.
Qed.

(* ---------- slope feature (utils/slope_and_trend._slope) is the least-squares slope ---------- *)

Lemma qsum_app l1 l2 : qsum (l1 ++ l2) == qsum l1 + qsum l2.
Proof.
  unfold qsum. induction l1 as [|x l1 IH]; cbn [app fold_right]; [lra|]. rewrite IH. lra.
Qed.
Lemma time_axis_S n : time_axis (S n) = time_axis n ++ [Qn (S n)].
Proof. unfold time_axis. rewrite seq_S, map_app. reflexivity. Qed.
Lemma time_axis_length n : length (time_axis n) = n.
Proof. unfold time_axis. rewrite map_length, seq_length. reflexivity. Qed.
Lemma sum_axis n : qsum (time_axis n) == Qn n * (Qn n + 1) / 2.
Proof.
  induction n as [|n IH].
  - cbn. reflexivity.
  - rewrite time_axis_S, qsum_app, IH. cbn [qsum fold_right]. rewrite Qn_S. field.
Qed.
Lemma sum_axis_sq n :
  qsum (map (fun v => v * v) (time_axis n)) == Qn n * (Qn n + 1) * (2 * Qn n + 1) / 6.
Proof.
  induction n as [|n IH].
  - cbn. reflexivity.
  - rewrite time_axis_S, map_app, qsum_app, IH. cbn [map qsum fold_right]. rewrite Qn_S. field.
Qed.
Lemma map2_self (l : series) : map2 Qmult l l = map (fun v => v * v) l.
Proof. unfold map2. induction l as [|x l IH]; cbn; [reflexivity|]. rewrite IH. reflexivity. Qed.

Definition axis_var (n : nat) : Q :=
  let x := time_axis n in qmean (map2 Qmult x x) - qmean x * qmean x.

Lemma axis_var_closed n : (1 <= n)%nat -> axis_var n == (Qn n + 1) * (Qn n - 1) / 12.
Proof.
  intro Hn. unfold axis_var. cbv zeta. unfold qmean. rewrite map2_self, map_length, time_axis_length.
  rewrite sum_axis, sum_axis_sq. field. pose proof (Qn_pos n Hn). lra.
Qed.
Lemma axis_var_pos n : (2 <= n)%nat -> 0 < axis_var n.
Proof.
  intro Hn. rewrite axis_var_closed by lia.
  assert (H : 2 <= Qn n) by (change 2 with (Qn 2); apply Qn_le; exact Hn).
  apply Qlt_shift_div_l; [lra|]. rewrite Qmult_0_l.
  apply Qmult_lt_0_compat; lra.
Qed.

Lemma resid_sum a b : forall (y x : series), length y = length x ->
  qsum (map2 (fun yi xi => yi - a - b * xi) y x) == qsum y - Qn (length y) * a - b * qsum x.
Proof.
  unfold map2. induction y as [|yi y IH]; intros [|xi x] H; cbn [length] in H; try discriminate.
  - cbn [combine map qsum fold_right length]. change (Qn 0) with 0. ring.
  - cbn [combine map qsum fold_right fst snd length].
    change (fold_right Qplus 0 (map (fun p => fst p - a - b * snd p) (combine y x)))
      with (qsum (map (fun p => fst p - a - b * snd p) (combine y x))).
    change (fold_right Qplus 0 y) with (qsum y). change (fold_right Qplus 0 x) with (qsum x).
    rewrite IH by lia. rewrite Qn_S. ring.
Qed.
Lemma resid_x_sum a b : forall (y x : series), length y = length x ->
  qsum (map2 (fun yi xi => (yi - a - b * xi) * xi) y x) ==
  qsum (map2 Qmult y x) - a * qsum x - b * qsum (map2 Qmult x x).
Proof.
  unfold map2. induction y as [|yi y IH]; intros [|xi x] H; cbn [length] in H; try discriminate.
  - cbn [combine map qsum fold_right]. ring.
  - cbn [combine map qsum fold_right fst snd].
    change (fold_right Qplus 0 (map (fun p => (fst p - a - b * snd p) * snd p) (combine y x)))
      with (qsum (map (fun p => (fst p - a - b * snd p) * snd p) (combine y x))).
    change (fold_right Qplus 0 (map (fun p => fst p * snd p) (combine y x)))
      with (qsum (map (fun p => fst p * snd p) (combine y x))).
    change (fold_right Qplus 0 (map (fun p => fst p * snd p) (combine x x)))
      with (qsum (map (fun p => fst p * snd p) (combine x x))).
    change (fold_right Qplus 0 x) with (qsum x).
    rewrite IH by lia. ring.
Qed.

(* normal equations: with b = _slope(y) and a = mean(y) - b mean(x), the residuals of the line
   a + b x (x = 1..n) sum to zero and are orthogonal to x - the defining property of the
   ordinary-least-squares line *)
Lemma slope_is_ols (y : series) : (2 <= length y)%nat ->
  let x := time_axis (length y) in
  let b := slope_coded y in
  let a := qmean y - b * qmean x in
  qsum (map2 (fun yi xi => yi - a - b * xi) y x) == 0 /\
  qsum (map2 (fun yi xi => (yi - a - b * xi) * xi) y x) == 0.
Proof.
  intro Hn. cbv zeta.
  pose proof (axis_var_pos (length y) Hn) as HD. unfold axis_var in HD. cbv zeta in HD.
  pose proof (Qn_pos (length y) ltac:(lia)) as HN.
  assert (Hlen : length y = length (time_axis (length y))) by (rewrite time_axis_length; reflexivity).
  assert (Hb : slope_coded y * (qmean (map2 Qmult (time_axis (length y)) (time_axis (length y)))
                                - qmean (time_axis (length y)) * qmean (time_axis (length y)))
               == qmean (map2 Qmult y (time_axis (length y)))
                  - qmean (time_axis (length y)) * qmean y).
  { unfold slope_coded. cbv zeta. field. lra. }
  remember (slope_coded y) as b eqn:Eb. clear Eb.
  rewrite resid_sum, resid_x_sum by exact Hlen.
  unfold qmean in *. unfold map2 in *.
  rewrite !map_length, !combine_length, !time_axis_length, !Nat.min_id in Hb.
  rewrite time_axis_length.
  set (N := Qn (length y)) in *. set (Sy := qsum y) in *.
  set (Sx := qsum (time_axis (length y))) in *.
  set (Sxy := qsum (map (fun p => fst p * snd p) (combine y (time_axis (length y))))) in *.
  set (Sxx := qsum (map (fun p => fst p * snd p)
                        (combine (time_axis (length y)) (time_axis (length y))))) in *.
  split.
  - field. lra.
  - assert (E : Sxy - (Sy / N - b * (Sx / N)) * Sx - b * Sxx
                == N * ((Sxy / N - Sx / N * (Sy / N)) - b * (Sxx / N - Sx / N * (Sx / N)))).
    { field. lra. }
    rewrite E, Hb. ring.
Qed.

(* ---------- autocorrelation ---------- *)

Lemma acf_spec adjusted nlags (z r : series) : acf adjusted nlags z = Ok r ->
  length r = match nlags with Some k => Nat.min (S k) (length z) | None => length z end /\
  (forall k, (k < length r)%nat -> nth k r 0 == acov adjusted z k / acov adjusted z 0) /\
  ((1 <= length r)%nat -> nth 0 r 0 == 1).
Proof.
  unfold acf. cbv zeta. destruct (Qeq_bool (acov adjusted z 0) 0) eqn:E; [discriminate|].
  intro H. injection H as <-. rewrite map_length, seq_length.
  assert (Hne : ~ acov adjusted z 0 == 0).
  { intro H0. apply Qeq_bool_iff in H0. congruence. }
  split; [reflexivity|]. split.
  - intros k Hk. rewrite (map_seq_nth (fun k => acov adjusted z k / acov adjusted z 0)) by exact Hk.
    reflexivity.
  - intro H1. rewrite (map_seq_nth (fun k => acov adjusted z k / acov adjusted z 0)) by exact H1.
    field. exact Hne.
Qed.

(* ---------- column-wise MinMax adaptor ---------- *)

Lemma qmin_list_le : forall (l : series) d x, In x l -> fold_right qmin d l <= x.
Proof.
  induction l as [|a l IH]; intros d x H; [destruct H|]. cbn [fold_right].
  destruct (qmin_case a (fold_right qmin d l)) as [[Hc ->]|[Hc ->]]; destruct H as [<-|H].
  - lra.
  - specialize (IH d x H). lra.
  - lra.
  - apply IH. exact H.
Qed.
Lemma qmax_list_ge : forall (l : series) d x, In x l -> x <= fold_right qmax d l.
Proof.
  induction l as [|a l IH]; intros d x H; [destruct H|]. cbn [fold_right].
  destruct (qmax_case a (fold_right qmax d l)) as [[Hc ->]|[Hc ->]]; destruct H as [<-|H].
  - lra.
  - apply IH. exact H.
  - lra.
  - specialize (IH d x H). lra.
Qed.

Lemma minmax_col_spec (cfit c : series) :
  let mn := qmin_list cfit in let mx := qmax_list cfit in
  length (minmax_col cfit c) = length c /\
  (forall x, In x cfit -> mn <= x <= mx) /\
  (~ mx - mn == 0 -> forall j, (j < length c)%nat ->
     nth j (minmax_col cfit c) 0 == (qnth c j - mn) / (mx - mn)) /\
  (* transforming the fitted column itself lands in [0, 1] *)
  (~ mx - mn == 0 -> forall j, (j < length cfit)%nat ->
     0 <= nth j (minmax_col cfit cfit) 0 <= 1).
Proof.
  cbv zeta. unfold minmax_col. cbv zeta. split; [apply map_length|].
  assert (Hb : forall x, In x cfit -> qmin_list cfit <= x <= qmax_list cfit).
  { intros x Hx. split; [apply qmin_list_le|apply qmax_list_ge]; exact Hx. }
  split; [exact Hb|].
  assert (Hnth : forall (c0 : series) j, (j < length c0)%nat -> ~ qmax_list cfit - qmin_list cfit == 0 ->
     nth j (map (fun x => (x - qmin_list cfit) /
        (if Qeq_bool (qmax_list cfit - qmin_list cfit) 0 then 1 else qmax_list cfit - qmin_list cfit)) c0) 0
     == (qnth c0 j - qmin_list cfit) / (qmax_list cfit - qmin_list cfit)).
  { intros c0 j Hj Hne.
    destruct (Qeq_bool (qmax_list cfit - qmin_list cfit) 0) eqn:E;
      [apply Qeq_bool_iff in E; contradiction|].
    rewrite nth_indep with (d' := (0 - qmin_list cfit) / (qmax_list cfit - qmin_list cfit))
      by (rewrite map_length; exact Hj).
    rewrite (map_nth (fun x => (x - qmin_list cfit) / (qmax_list cfit - qmin_list cfit))).
    reflexivity. }
  split.
  - intros Hne j Hj. apply Hnth; assumption.
  - intros Hne j Hj. rewrite (Hnth cfit j Hj Hne).
    assert (Hin : In (qnth cfit j) cfit) by (apply nth_In; exact Hj).
    destruct (Hb _ Hin) as [H1 H2].
    assert (Hpos : 0 < qmax_list cfit - qmin_list cfit).
    { destruct (Qlt_le_dec 0 (qmax_list cfit - qmin_list cfit)) as [H|H]; [exact H|].
      exfalso. apply Hne. lra. }
    split.
    + apply Qle_shift_div_l; [exact Hpos|]. lra.
    + apply Qle_shift_div_r; [exact Hpos|]. lra.
Qed.

(* ---------- imputation ---------- *)

(* l' extends l: same length, every observed value kept in place *)
Definition keeps (a b : oq) : Prop := match a with Some x => b = Some x | None => True end.
Definition ext (l l' : oseries) : Prop := Forall2 keeps l l'.

Lemma keeps_refl a : keeps a a.
Proof. destruct a; cbn; reflexivity. Qed.
Lemma ext_refl l : ext l l.
Proof. induction l; constructor; [apply keeps_refl|assumption]. Qed.
Lemma ext_trans l1 l2 l3 : ext l1 l2 -> ext l2 l3 -> ext l1 l3.
Proof.
  intro H. revert l3. induction H as [|a b l1 l2 Hab _ IH]; intros l3 H3; inversion H3; subst; constructor.
  - destruct a as [x|]; cbn in *; [|exact I]. subst b. assumption.
  - apply IH. assumption.
Qed.
Lemma Forall2_rev {A B} (R : A -> B -> Prop) l1 l2 : Forall2 R l1 l2 -> Forall2 R (rev l1) (rev l2).
Proof.
  induction 1; cbn; [constructor|]. apply Forall2_app; [assumption|constructor; [assumption|constructor]].
Qed.
Lemma ext_ffill_from : forall l prev, ext l (ffill_from prev l).
Proof.
  induction l as [|[x|] l IH]; intro prev; cbn; constructor; try apply IH; cbn; auto.
Qed.
Lemma ext_bfill l : ext l (bfill l).
Proof.
  unfold bfill. rewrite <- (rev_involutive l) at 1. apply Forall2_rev. apply ext_ffill_from.
Qed.
Lemma ext_final_fill l : ext l (final_fill l).
Proof. unfold final_fill. eapply ext_trans; [apply ext_ffill_from|apply ext_bfill]. Qed.
Lemma ext_fill_with v l : ext l (fill_with v l).
Proof. induction l as [|[x|] l IH]; cbn; constructor; cbn; auto. Qed.
Lemma Forall2_positions {A B} (R : A -> B -> Prop) (d : A) (f : nat -> B) : forall (l : list A) a,
  (forall t, (t < length l)%nat -> R (nth t l d) (f (a + t)%nat)) ->
  Forall2 R l (map f (seq a (length l))).
Proof.
  induction l as [|x l IH]; intros a H; cbn [length seq map]; constructor.
  - specialize (H 0%nat). cbn in H. rewrite Nat.add_0_r in H. apply H. lia.
  - apply IH. intros t Ht. specialize (H (S t)). cbn [nth] in H.
    replace (S a + t)%nat with (a + S t)%nat by lia. apply H. cbn. lia.
Qed.

Lemma ext_impute_core m l : ext l (impute_core m l).
Proof.
  destruct m; cbn [impute_core]; try apply ext_fill_with.
  - apply ext_ffill_from.
  - apply ext_bfill.
  - unfold positions. apply (Forall2_positions keeps None). intros t Ht. cbn [plus].
    unfold near_at. destruct (nth t l None); cbn; auto.
  - unfold positions. apply (Forall2_positions keeps None). intros t Ht. cbn [plus].
    unfold lin_at. destruct (nth t l None); cbn; auto.
  - destruct (observed l); [apply ext_refl|].
    destruct (ols_line _) as [a b]. unfold positions.
    apply (Forall2_positions keeps None). intros t Ht. cbn [plus].
    destruct (nth t l None); cbn; auto.
Qed.
Lemma ext_impute m l : ext l (impute m l).
Proof. unfold impute. eapply ext_trans; [apply ext_impute_core|apply ext_final_fill]. Qed.

Lemma ext_nth l l' : ext l l' -> forall t x, nth t l None = Some x -> nth t l' None = Some x.
Proof.
  induction 1 as [|a b l l' Hab _ IH]; intros t x Ht; [destruct t; discriminate|].
  destruct t as [|t]; cbn in *; [subst a; exact Hab|]. apply IH. exact Ht.
Qed.

(* forward fill reaches every position at or after an observation *)
Lemma ffill_from_some : forall l prev t, (t < length l)%nat ->
  (prev <> None \/ exists u, (u <= t)%nat /\ nth u l None <> None) ->
  nth t (ffill_from prev l) None <> None.
Proof.
  induction l as [|o l IH]; intros prev t Ht H; cbn [length] in Ht; [lia|].
  destruct o as [x|]; cbn [ffill_from].
  - destruct t as [|t]; cbn [nth]; [discriminate|]. apply IH; [lia|]. left. discriminate.
  - destruct t as [|t]; cbn [nth].
    + destruct H as [H|(u & Hu & Hn)]; [exact H|]. assert (u = 0%nat) by lia. subst u. cbn in Hn. congruence.
    + apply IH; [lia|]. destruct H as [H|(u & Hu & Hn)]; [left; exact H|].
      destruct u as [|u]; [cbn in Hn; congruence|]. right. exists u. split; [lia|exact Hn].
Qed.
Lemma bfill_some l t : (t < length l)%nat ->
  (exists u, (t <= u < length l)%nat /\ nth u l None <> None) -> nth t (bfill l) None <> None.
Proof.
  intros Ht (u & Hu & Hn). unfold bfill.
  assert (Hlen : length (ffill (rev l)) = length l).
  { apply eq_sym. rewrite <- (rev_length l). eapply Forall2_len. apply ext_ffill_from. }
  rewrite rev_nth by lia. rewrite Hlen. unfold ffill.
  apply ffill_from_some; [rewrite rev_length; lia|]. right.
  exists (length l - S u)%nat. split; [lia|]. rewrite rev_nth by lia.
  replace (length l - S (length l - S u))%nat with u by lia. exact Hn.
Qed.
Lemma final_fill_complete l t : (t < length l)%nat ->
  (exists w, nth w l None <> None) -> nth t (final_fill l) None <> None.
Proof.
  intros Ht (w & Hw). unfold final_fill.
  assert (Hwl : (w < length l)%nat).
  { destruct (lt_dec w (length l)); [assumption|]. rewrite nth_overflow in Hw by lia. congruence. }
  assert (Hlen : length (ffill l) = length l).
  { apply eq_sym. eapply Forall2_len. apply ext_ffill_from. }
  apply bfill_some; [lia|].
  destruct (le_lt_dec t w) as [Hle|Hlt].
  - exists w. split; [lia|]. unfold ffill. apply ffill_from_some; [exact Hwl|].
    right. exists w. split; [lia|exact Hw].
  - exists t. split; [lia|]. unfold ffill. apply ffill_from_some; [exact Ht|].
    right. exists w. split; [lia|exact Hw].
Qed.

Lemma nth_positions {B} (f : nat -> B) (d : B) {A} (l : list A) t :
  (t < length l)%nat -> nth t (map f (positions l)) d = f t.
Proof. intro H. unfold positions. apply map_seq_nth. exact H. Qed.

(* what the neighbour search returns *)
Lemma prev_obs_spec l : forall t tp vp, prev_obs l t = Some (tp, vp) ->
  (tp < t)%nat /\ nth tp l None = Some vp /\ forall u, (tp < u < t)%nat -> nth u l None = None.
Proof.
  induction t as [|t IH]; intros tp vp H; cbn [prev_obs] in H; [discriminate|].
  destruct (nth t l None) as [v|] eqn:E.
  - injection H as <- <-. split; [lia|]. split; [exact E|]. intros u Hu. lia.
  - destruct (IH tp vp H) as (H1 & H2 & H3). split; [lia|]. split; [exact H2|].
    intros u Hu. destruct (Nat.eq_dec u t) as [->|Hne]; [exact E|]. apply H3. lia.
Qed.
Lemma next_obs_fuel_spec l : forall fuel t tn vn, next_obs_fuel fuel l t = Some (tn, vn) ->
  (t <= tn)%nat /\ nth tn l None = Some vn /\ forall u, (t <= u < tn)%nat -> nth u l None = None.
Proof.
  induction fuel as [|f IH]; intros t tn vn H; cbn [next_obs_fuel] in H; [discriminate|].
  destruct (nth t l None) as [v|] eqn:E.
  - injection H as <- <-. split; [lia|]. split; [exact E|]. intros u Hu. lia.
  - destruct (IH (S t) tn vn H) as (H1 & H2 & H3). split; [lia|]. split; [exact H2|].
    intros u Hu. destruct (Nat.eq_dec u t) as [->|Hne]; [exact E|]. apply H3. lia.
Qed.
Lemma next_obs_spec l t tn vn : next_obs l t = Some (tn, vn) ->
  (t < tn)%nat /\ nth tn l None = Some vn /\ forall u, (t < u < tn)%nat -> nth u l None = None.
Proof.
  unfold next_obs. intro H. destruct (next_obs_fuel_spec l _ _ _ _ H) as (H1 & H2 & H3).
  split; [lia|]. split; [exact H2|]. intros u Hu. apply H3. lia.
Qed.

Theorem impute_spec m (l : oseries) :
  (* same length, observed values untouched *)
  length (impute m l) = length l /\
  (forall t x, nth t l None = Some x -> nth t (impute m l) None = Some x) /\
  (* once anything is observed, nothing stays missing (the final ffill + bfill) *)
  ((exists w, nth w l None <> None) -> forall t, (t < length l)%nat -> nth t (impute m l) None <> None).
Proof.
  pose proof (ext_impute m l) as He. split; [apply eq_sym; eapply Forall2_len; exact He|].
  split; [apply ext_nth; exact He|].
  intros (w & Hw) t Ht. unfold impute.
  assert (Hlen : length (impute_core m l) = length l).
  { apply eq_sym. eapply Forall2_len. apply ext_impute_core. }
  apply final_fill_complete; [lia|]. exists w.
  destruct (nth w l None) as [x|] eqn:E; [|congruence].
  rewrite (ext_nth _ _ (ext_impute_core m l) w x E). discriminate.
Qed.

Lemma nth_fill_with v : forall (l : oseries) t, (t < length l)%nat -> nth t l None = None ->
  nth t (fill_with v l) None = v.
Proof.
  induction l as [|o l IH]; intros t Ht Hg; cbn [length] in Ht; [lia|].
  destruct t as [|t]; cbn [nth fill_with map] in *.
  - subst o. reflexivity.
  - apply IH; [lia|exact Hg].
Qed.

(* the value a gap receives, per rule *)
Theorem impute_rules (l : oseries) t : (t < length l)%nat -> nth t l None = None ->
  (observed l <> [] -> nth t (impute IMean l) None = Some (qmean (observed l))) /\
  (observed l <> [] -> nth t (impute IMedian l) None = Some (median (observed l))) /\
  (forall v, nth t (impute (IConstant v) l) None = Some v) /\
  (forall tp vp tn vn, prev_obs l t = Some (tp, vp) -> next_obs l t = Some (tn, vn) ->
     nth t (impute ILinear l) None = Some (vp + (Qn t - Qn tp) / (Qn tn - Qn tp) * (vn - vp)) /\
     nth t (impute INearest l) None = Some (if (t - tp <=? tn - t)%nat then vp else vn)) /\
  (forall tp vp, prev_obs l t = Some (tp, vp) -> next_obs l t = None ->
     nth t (impute ILinear l) None = Some vp).
Proof.
  intros Ht Hgap.
  assert (Hfw : forall v, nth t (fill_with v l) None = v).
  { intro v. apply nth_fill_with; assumption. }
  assert (Hfin : forall c x, nth t c None = Some x -> nth t (final_fill c) None = Some x).
  { intros c x. apply ext_nth. apply ext_final_fill. }
  repeat split.
  - intro Hobs. unfold impute. apply Hfin. cbn [impute_core]. rewrite Hfw.
    destruct (observed l); [congruence|reflexivity].
  - intro Hobs. unfold impute. apply Hfin. cbn [impute_core]. rewrite Hfw.
    destruct (observed l); [congruence|reflexivity].
  - intro v. unfold impute. apply Hfin. cbn [impute_core]. apply Hfw.
  - unfold impute. apply Hfin. cbn [impute_core]. rewrite (nth_positions (lin_at l) None l t Ht).
    unfold lin_at. rewrite Hgap, H, H0. reflexivity.
  - unfold impute. apply Hfin. cbn [impute_core]. rewrite (nth_positions (near_at l) None l t Ht).
    unfold near_at. rewrite Hgap, H, H0. destruct (t - tp <=? tn - t)%nat; reflexivity.
  - intros tp vp Hp Hn. unfold impute. apply Hfin. cbn [impute_core].
    rewrite (nth_positions (lin_at l) None l t Ht). unfold lin_at. rewrite Hgap, Hp, Hn. reflexivity.
Qed.

Lemma impute_neighbours (l : oseries) t :
  (forall tp vp, prev_obs l t = Some (tp, vp) ->
     (tp < t)%nat /\ nth tp l None = Some vp /\ forall u, (tp < u < t)%nat -> nth u l None = None) /\
  (forall tn vn, next_obs l t = Some (tn, vn) ->
     (t < tn)%nat /\ nth tn l None = Some vn /\ forall u, (t < u < tn)%nat -> nth u l None = None).
Proof. split; [apply prev_obs_spec|apply next_obs_spec]. Qed.

(* ---------- drift: the fitted trend is the least-squares line; every gap takes its value ------ *)

Lemma qsum_cons x l : qsum (x :: l) = x + qsum l.
Proof. reflexivity. Qed.
Lemma map2_cons {A B C} (f : A -> B -> C) a b l1 l2 :
  map2 f (a :: l1) (b :: l2) = f a b :: map2 f l1 l2.
Proof. reflexivity. Qed.

Lemma qsum_nonneg_sq c : forall (l : series), 0 <= qsum (map (fun a => (a - c) * (a - c)) l).
Proof.
  induction l as [|x l IH]; cbn [map]; [apply Qle_refl|]. rewrite qsum_cons.
  assert (0 <= (x - c) * (x - c)) by (set (d := x - c); nra). lra.
Qed.
Lemma centered_sq_pos c n : (2 <= n)%nat ->
  0 < qsum (map (fun a => (a - c) * (a - c)) (map Qn (seq 0 n))).
Proof.
  destruct n as [|[|n]]; try lia. intros _. cbn [seq map]. rewrite !qsum_cons.
  pose proof (qsum_nonneg_sq c (map Qn (seq 2 n))) as H.
  change (Qn 0) with 0. change (Qn 1) with 1.
  assert (0 <= (2 * c - 1) * (2 * c - 1)) by (set (d := 2 * c - 1); nra). lra.
Qed.

(* sum of residual * x  =  sum of residual * (x - c)  +  c * sum of residuals *)
Lemma resid_split (f : Q -> Q -> Q) c : forall (y x : series), length y = length x ->
  qsum (map2 (fun yi xi => f yi xi * xi) y x) ==
  qsum (map2 (fun yi xi => f yi xi * (xi - c)) y x) + c * qsum (map2 f y x).
Proof.
  induction y as [|yi y IH]; intros [|xi x] H; cbn [length] in H; try discriminate.
  - cbn. ring.
  - rewrite !map2_cons, !qsum_cons, IH by lia. ring.
Qed.
(* with intercept ym - b xm the residuals are the centred ones *)
Lemma resid_centered xm ym b : forall (y x : series), length y = length x ->
  qsum (map2 (fun yi xi => (yi - (ym - b * xm) - b * xi) * (xi - xm)) y x) ==
  qsum (map2 (fun a c => (a - xm) * (c - ym)) x y)
  - b * qsum (map (fun a => (a - xm) * (a - xm)) x).
Proof.
  induction y as [|yi y IH]; intros [|xi x] H; cbn [length] in H; try discriminate.
  - cbn. ring.
  - rewrite !map2_cons. cbn [map]. rewrite !qsum_cons, IH by lia. ring.
Qed.

(* normal equations of the line fitted by Imputer("drift") (PolynomialTrendForecaster(degree=1)
   over the positions 0..n-1): residuals sum to zero and are orthogonal to the regressor *)
Lemma ols_line_is_ols (y : series) : (2 <= length y)%nat ->
  let x := map Qn (seq 0 (length y)) in
  let a := fst (ols_line y) in
  let b := snd (ols_line y) in
  qsum (map2 (fun yi xi => yi - a - b * xi) y x) == 0 /\
  qsum (map2 (fun yi xi => (yi - a - b * xi) * xi) y x) == 0.
Proof.
  intro Hn. cbv zeta. unfold ols_line. cbv zeta.
  pose proof (centered_sq_pos (qmean (map Qn (seq 0 (length y)))) (length y) Hn) as Hpos.
  pose proof (Qn_pos (length y) ltac:(lia)) as HN.
  assert (Hlen : length y = length (map Qn (seq 0 (length y)))).
  { rewrite map_length, seq_length. reflexivity. }
  destruct (Qeq_bool _ 0) eqn:E; [apply Qeq_bool_eq in E; lra|]. clear E.
  cbn [fst snd].
  set (x := map Qn (seq 0 (length y))) in *.
  set (xm := qmean x) in *. set (ym := qmean y).
  set (sxx := qsum (map (fun a => (a - xm) * (a - xm)) x)) in *.
  set (sxy := qsum (map2 (fun a b => (a - xm) * (b - ym)) x y)).
  assert (Hb : sxy / sxx * sxx == sxy) by (field; lra).
  set (b := sxy / sxx) in *.
  assert (H1 : qsum (map2 (fun yi xi => yi - (ym - b * xm) - b * xi) y x) == 0).
  { rewrite resid_sum by exact Hlen. unfold ym, xm, qmean. rewrite <- Hlen. field. lra. }
  split; [exact H1|].
  rewrite (resid_split (fun yi xi => yi - (ym - b * xm) - b * xi) xm) by exact Hlen.
  rewrite H1, resid_centered by exact Hlen. fold sxy. fold sxx. rewrite <- Hb. ring.
Qed.

Lemma all_some_observed : forall (l : oseries),
  (forall t, (t < length l)%nat -> nth t l None <> None) -> map Some (observed l) = l.
Proof.
  induction l as [|[x|] l IH]; intro H.
  - reflexivity.
  - cbn [observed flat_map app map]. f_equal. apply IH. intros t Ht. apply (H (S t)). cbn. lia.
  - exfalso. apply (H 0%nat); [cbn; lia|reflexivity].
Qed.
Lemma observed_nonempty : forall (l : oseries), observed l <> [] -> exists w, nth w l None <> None.
Proof.
  induction l as [|[x|] l IH]; intro H.
  - exfalso. apply H. reflexivity.
  - exists 0%nat. discriminate.
  - destruct (IH H) as (w & Hw). exists (S w). exact Hw.
Qed.

(* the drift rule: the trend is fitted on the forward/backward-filled copy (a series without
   gaps, of the same length), and a gap at position t takes the line's value a + b t *)
Theorem impute_drift_rule (l : oseries) t : (t < length l)%nat -> nth t l None = None ->
  observed l <> [] ->
  let y := observed (final_fill l) in
  map Some y = final_fill l /\ length y = length l /\
  nth t (impute IDrift l) None = Some (fst (ols_line y) + snd (ols_line y) * Qn t).
Proof.
  intros Ht Hgap Hobs. cbv zeta.
  assert (Hy : map Some (observed (final_fill l)) = final_fill l).
  { apply all_some_observed. intros u Hu. apply final_fill_complete.
    - rewrite <- (Forall2_len _ _ _ (ext_final_fill l)) in Hu. exact Hu.
    - apply observed_nonempty. exact Hobs. }
  split; [exact Hy|]. split.
  - rewrite <- (map_length Some), Hy. apply eq_sym. eapply Forall2_len. apply ext_final_fill.
  - unfold impute. apply (ext_nth _ _ (ext_final_fill _)). cbn [impute_core].
    destruct (observed l) eqn:E; [congruence|].
    destruct (ols_line (observed (final_fill l))) as [a b]. cbn [fst snd].
    rewrite (nth_positions _ None l t Ht). rewrite Hgap. reflexivity.
Qed.

(* panel level: every instance is cut by the same k tiling intervals of the FITTED length *)
Lemma interval_segment_panel_spec k pfit p out : iseg_int k pfit p = Ok out ->
  let n := first_len pfit in
  (1 <= k <= n / 2)%nat /\
  Forall2 (fun i o => o = segment (split_bounds n k) (only_col i) /\ length o = k /\
                      (length (only_col i) = n -> concat o = only_col i)) p out.
Proof.
  unfold iseg_int. cbv zeta. intro H.
  destruct (negb (univariate p) || negb (equal_length p) || (k =? 0)%nat
            || (first_len pfit / 2 <? k)%nat) eqn:E; [discriminate|].
  injection H as <-.
  apply orb_false_iff in E. destruct E as (E & E2). apply orb_false_iff in E. destruct E as (_ & E1).
  apply Nat.eqb_neq in E1. apply Nat.ltb_ge in E2.
  assert (Hk : (1 <= k <= first_len pfit / 2)%nat) by lia.
  split; [exact Hk|].
  assert (Hn : (1 <= k <= first_len pfit)%nat).
  { assert (first_len pfit / 2 <= first_len pfit)%nat by (apply Nat.div_le_upper_bound; lia). lia. }
  apply Forall2_map_in. intros i _.
  split; [reflexivity|]. split.
  - unfold segment. rewrite map_length.
    destruct (interval_segment_spec (first_len pfit) k (repeat 0 (first_len pfit)) Hn
                (repeat_length _ _)) as (HL & _). exact HL.
  - intro Hlen. destruct (interval_segment_spec (first_len pfit) k (only_col i) Hn Hlen)
      as (_ & _ & _ & Hc). exact Hc.
Qed.

Lemma nonvacuous_example :
  let p0 : panel := [[[1; 2; 3]; [4; 5]]; [[6; 7; 8; 9]; [1; 0]]] in
  pad_apply (pad_fit None p0) (-1 # 1) p0
    = Ok [[[1; 2; 3; -1 # 1]; [4; 5; -1 # 1; -1 # 1]]; [[6; 7; 8; 9]; [1; 0; -1 # 1; -1 # 1]]] /\
  trunc_apply (trunc_fit None p0) None p0 = Ok [[[1; 2]; [4; 5]]; [[6; 7]; [1; 0]]] /\
  (exists out, interp_apply 3 p0 = Ok out /\ (2 <= min_len p0)%nat) /\
  map Qred (paa_coded 3 [1; 2; 3; 4; 5; 6; 7]) = [12 # 7; 4; 44 # 7] /\
  split_bounds 16 3 = [(0, 6); (6, 11); (11, 16)]%nat /\
  sliding_coded 3 [1; 2; 3] = [[1; 1; 2]; [1; 2; 3]; [2; 3; 3]] /\
  impute ILinear [None; Some 1; None; None; Some 4; None] = 
    [Some 1; Some 1; Some (1 + (2 - 1) / (4 - 1) * (4 - 1)); Some (1 + (3 - 1) / (4 - 1) * (4 - 1));
     Some 4; Some 4] /\
  map (option_map Qred) (impute IDrift [Some 0; None; Some 4]) = [Some 0; Some (4 # 3); Some 4] /\
  (exists out, iseg_int 3 [[map Qn (seq 0 16)]] [[map Qn (seq 0 16)]] = Ok [out] /\
               map (@length Q) out = [6; 5; 5]%nat).
Proof.
  cbv zeta. repeat split; try reflexivity.
  - eexists. split; [reflexivity|]. cbn. lia.
  - eexists. split; [vm_compute; reflexivity|]. reflexivity.
Qed.
