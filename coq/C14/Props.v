(* C14 property theorems.  Nothing but statements closed by `exact`, each followed by
   Print Assumptions.  The definitions quantified over are the executable model of Model.v, which
   the correspondence run compares with the real transformers on every check. *)
From Coq Require Import QArith List Bool ZArith Arith.
Require Import SkV.Lib.Base SkV.C14.Model SkV.C14.PaaProof SkV.C14.Proofs.
Import ListNotations.
Open Scope Q_scope.

(* padding: every cell has exactly the fitted / requested length L, keeps its values as a prefix
   and is filled with the fill value behind them; rows and columns stay in place *)
Theorem C14_pad_spec : forall L fill p out,
  pad_apply L fill p = Ok out ->
  cellwise (fun s o => length o = L /\
     forall j, (j < L)%nat -> nth j o 0 = if (j <? length s)%nat then nth j s 0 else fill) p out.
Proof. exact pad_spec. Qed.
Print Assumptions C14_pad_spec.

Theorem C14_pad_rejects_iff_a_series_is_longer : forall L fill p,
  pad_apply L fill p = Err <-> exists i s, In i p /\ In s i /\ (L < length s)%nat.
Proof. exact pad_rejects_iff. Qed.
Print Assumptions C14_pad_rejects_iff_a_series_is_longer.

Theorem C14_pad_default_is_longest : forall pfit,
  (forall i s, In i pfit -> In s i -> (length s <= pad_fit None pfit)%nat) /\
  (cell_lengths pfit <> [] -> exists i s, In i pfit /\ In s i /\ length s = pad_fit None pfit).
Proof. exact pad_default_is_longest. Qed.
Print Assumptions C14_pad_default_is_longest.

(* truncation: [0, lower) or [lower, upper) of every cell, exactly that many values *)
Theorem C14_truncate_spec : forall lo upper p out,
  trunc_apply lo upper p = Ok out ->
  cellwise (fun s o =>
    match upper with
    | None => length o = lo /\ forall j, (j < lo)%nat -> nth j o 0 = nth j s 0
    | Some u => length o = (u - lo)%nat /\
                forall j, (j < u - lo)%nat -> nth j o 0 = nth (lo + j) s 0
    end) p out.
Proof. exact truncate_spec. Qed.
Print Assumptions C14_truncate_spec.

Theorem C14_truncate_default_is_shortest : forall pfit,
  (forall i s, In i pfit -> In s i -> (trunc_fit None pfit <= length s)%nat) /\
  (cell_lengths pfit <> [] -> exists i s, In i pfit /\ In s i /\ length s = trunc_fit None pfit).
Proof. exact trunc_default_is_shortest. Qed.
Print Assumptions C14_truncate_default_is_shortest.

(* linear interpolation onto m equally spaced points: grid point j sits at j (n-1)/(m-1) in index
   units; its value is the convex combination of the two bracketing samples; samples hit exactly
   are returned exactly (first / last point, identity for m = n) *)
Theorem C14_interp_spec : forall m p out, (2 <= min_len p)%nat ->
  interp_apply m p = Ok out -> cellwise (interp_cell_ok m) p out.
Proof. exact interp_spec. Qed.
Print Assumptions C14_interp_spec.

(* tabularisation: column-then-time order: value t of column c sits at offset(c) + t, where
   offset(c+1) = offset(c) + length of column c *)
Theorem C14_tabularize_column_then_time : forall p rows, tabularize p = Ok rows ->
  Forall2 (fun i r =>
    length r = col_offset i (length i) /\
    (forall c, (c < length i)%nat -> col_offset i (S c) = (col_offset i c + length (nth c i []))%nat) /\
    forall c t, (c < length i)%nat -> (t < length (nth c i []))%nat ->
      nth (col_offset i c + t) r 0 = nth t (nth c i []) 0) p rows.
Proof. exact tabularize_column_then_time. Qed.
Print Assumptions C14_tabularize_column_then_time.

Theorem C14_column_concat_spec : forall p out, col_concat p = Ok out ->
  Forall2 (fun i o => exists r, o = [r] /\ tab_row_ok i r) p out.
Proof. exact col_concat_spec. Qed.
Print Assumptions C14_column_concat_spec.

(* FLAGSHIP: the running-sum algorithm of PAA._perform_paa_along_dim (fractional frames, as
   coded) returns, for EVERY series length n and every 1 <= m <= n (dividing n or not), exactly
   the m frame means (1/L) * integral over [kL, (k+1)L) of the step function, L = n/m *)
Theorem C14_paa_is_frame_mean : forall (m : nat) (s : series),
  (1 <= m <= length s)%nat -> Forall2 Qeq (paa_coded m s) (paa_spec m s).
Proof. exact paa_coded_is_frame_mean. Qed.
Print Assumptions C14_paa_is_frame_mean.

Theorem C14_paa_panel_spec : forall m p out, (1 <= m <= min_len p)%nat -> paa_apply m p = Ok out ->
  cellwise (fun s o => Forall2 Qeq o (paa_spec m s) /\ length o = m) p out.
Proof. exact paa_panel_spec. Qed.
Print Assumptions C14_paa_panel_spec.

(* when m divides n, frame k is the plain mean of the k-th block of n/m consecutive values *)
Theorem C14_paa_divisible_block_mean : forall (q m k : nat) (s : series),
  (1 <= q)%nat -> (1 <= m)%nat -> length s = (m * q)%nat -> (k < m)%nat ->
  paa_frame m s k == qmean (slice (k * q) (k * q + q) s).
Proof. exact paa_divisible_block_mean. Qed.
Print Assumptions C14_paa_divisible_block_mean.

(* k intervals: they tile [0, n) (start_0 = 0, end_i = start_{i+1}, end_last = n), are non-empty,
   their sizes differ by at most one, and the cells concatenate back to the series *)
Theorem C14_interval_segment_spec : forall n k (s : series),
  (1 <= k <= n)%nat -> length s = n ->
  let bs := split_bounds n k in
  length bs = k /\ tiles 0 bs n /\
  (forall a b, In (a, b) bs -> (a < b)%nat /\ ((b - a = n / k)%nat \/ (b - a = S (n / k))%nat)) /\
  concat (segment bs s) = s.
Proof. exact interval_segment_spec. Qed.
Print Assumptions C14_interval_segment_spec.

(* the transformer on a panel: accepted iff 1 <= k <= n/2 (n = fitted length); every instance
   is cut into the same k cells, which concatenate back to the instance's series *)
Theorem C14_interval_segment_panel_spec : forall k pfit p out, iseg_int k pfit p = Ok out ->
  let n := first_len pfit in
  (1 <= k <= n / 2)%nat /\
  Forall2 (fun i o => o = segment (split_bounds n k) (only_col i) /\ length o = k /\
                      (length (only_col i) = n -> concat o = only_col i)) p out.
Proof. exact interval_segment_panel_spec. Qed.
Print Assumptions C14_interval_segment_panel_spec.

(* explicit interval arrays / fitted random intervals: each cell is the half-open slice *)
Theorem C14_explicit_interval_segment_spec : forall ivs (s : series),
  Forall2 (fun iv o => forall j, (j < snd iv - fst iv)%nat -> (snd iv <= length s)%nat ->
                       length o = (snd iv - fst iv)%nat /\ nth j o 0 = nth (fst iv + j) s 0)
          ivs (segment ivs s).
Proof. exact segment_spec. Qed.
Print Assumptions C14_explicit_interval_segment_spec.

(* sliding windows (edge padding floor(w/2), as coded): one window per time point, each of exactly
   w values; value j of window i is s[clamp(i + j - floor(w/2), 0, n-1)] *)
Theorem C14_sliding_segment_spec : forall w (s : series), (1 <= w)%nat -> s <> [] ->
  length (sliding_coded w s) = length s /\
  forall i, (i < length s)%nat ->
    let win := nth i (sliding_coded w s) [] in
    length win = w /\
    forall j, (j < w)%nat -> nth j win 0 = nth (Nat.min (i + j - w / 2) (length s - 1)) s 0.
Proof. exact sliding_segment_spec. Qed.
Print Assumptions C14_sliding_segment_spec.

(* features of the fitted intervals: feature-major layout over the half-open slices *)
Theorem C14_rife_spec : forall feats ivs (s : series),
  length (rife_row feats ivs s) = (length feats * length ivs)%nat /\
  forall f v, (f < length feats)%nat -> (v < length ivs)%nat ->
    nth (f * length ivs + v) (rife_row feats ivs s) (0, false) =
    feat_apply (nth f feats FMean) (slice (fst (nth v ivs (0, 0)%nat)) (snd (nth v ivs (0, 0)%nat)) s).
Proof. exact rife_spec. Qed.
Print Assumptions C14_rife_spec.

(* utils.slope_and_trend._slope as coded is the ordinary-least-squares slope against 1..n:
   the residuals of the fitted line sum to zero and are orthogonal to the regressor *)
Theorem C14_slope_is_ols : forall (y : series), (2 <= length y)%nat ->
  let x := time_axis (length y) in
  let b := slope_coded y in
  let a := qmean y - b * qmean x in
  qsum (map2 (fun yi xi => yi - a - b * xi) y x) == 0 /\
  qsum (map2 (fun yi xi => (yi - a - b * xi) * xi) y x) == 0.
Proof. exact slope_is_ols. Qed.
Print Assumptions C14_slope_is_ols.

(* imputation: length kept, observed values untouched, nothing missing afterwards *)
Theorem C14_impute_spec : forall m (l : oseries),
  length (impute m l) = length l /\
  (forall t x, nth t l None = Some x -> nth t (impute m l) None = Some x) /\
  ((exists w, nth w l None <> None) -> forall t, (t < length l)%nat -> nth t (impute m l) None <> None).
Proof. exact impute_spec. Qed.
Print Assumptions C14_impute_spec.

(* the value a gap receives under the mean / median / constant / linear / nearest rule *)
Theorem C14_impute_rules : forall (l : oseries) t, (t < length l)%nat -> nth t l None = None ->
  (observed l <> [] -> nth t (impute IMean l) None = Some (qmean (observed l))) /\
  (observed l <> [] -> nth t (impute IMedian l) None = Some (median (observed l))) /\
  (forall v, nth t (impute (IConstant v) l) None = Some v) /\
  (forall tp vp tn vn, prev_obs l t = Some (tp, vp) -> next_obs l t = Some (tn, vn) ->
     nth t (impute ILinear l) None = Some (vp + (Qn t - Qn tp) / (Qn tn - Qn tp) * (vn - vp)) /\
     nth t (impute INearest l) None = Some (if (t - tp <=? tn - t)%nat then vp else vn)) /\
  (forall tp vp, prev_obs l t = Some (tp, vp) -> next_obs l t = None ->
     nth t (impute ILinear l) None = Some vp).
Proof. exact impute_rules. Qed.
Print Assumptions C14_impute_rules.

(* the drift rule: the trend is fitted on the forward/backward-filled copy y of the series (no
   gaps, same length) and a gap at position t takes the value a + b t of the fitted line ... *)
Theorem C14_impute_drift_rule : forall (l : oseries) t,
  (t < length l)%nat -> nth t l None = None -> observed l <> [] ->
  let y := observed (final_fill l) in
  map Some y = final_fill l /\ length y = length l /\
  nth t (impute IDrift l) None = Some (fst (ols_line y) + snd (ols_line y) * Qn t).
Proof. exact impute_drift_rule. Qed.
Print Assumptions C14_impute_drift_rule.

(* ... which is the least-squares line over the positions 0..n-1 (normal equations) *)
Theorem C14_drift_line_is_least_squares : forall (y : series), (2 <= length y)%nat ->
  let x := map Qn (seq 0 (length y)) in
  let a := fst (ols_line y) in
  let b := snd (ols_line y) in
  qsum (map2 (fun yi xi => yi - a - b * xi) y x) == 0 /\
  qsum (map2 (fun yi xi => (yi - a - b * xi) * xi) y x) == 0.
Proof. exact ols_line_is_ols. Qed.
Print Assumptions C14_drift_line_is_least_squares.

(* prev_obs / next_obs are the nearest observations before / after the gap *)
Theorem C14_impute_neighbours : forall (l : oseries) t,
  (forall tp vp, prev_obs l t = Some (tp, vp) ->
     (tp < t)%nat /\ nth tp l None = Some vp /\ forall u, (tp < u < t)%nat -> nth u l None = None) /\
  (forall tn vn, next_obs l t = Some (tn, vn) ->
     (t < tn)%nat /\ nth tn l None = Some vn /\ forall u, (t < u < tn)%nat -> nth u l None = None).
Proof. exact impute_neighbours. Qed.
Print Assumptions C14_impute_neighbours.

Theorem C14_acf_spec : forall adjusted nlags (z r : series), acf adjusted nlags z = Ok r ->
  length r = match nlags with Some k => Nat.min (S k) (length z) | None => length z end /\
  (forall k, (k < length r)%nat -> nth k r 0 == acov adjusted z k / acov adjusted z 0) /\
  ((1 <= length r)%nat -> nth 0 r 0 == 1).
Proof. exact acf_spec. Qed.
Print Assumptions C14_acf_spec.

Theorem C14_minmax_adaptor_spec : forall (cfit c : series),
  let mn := qmin_list cfit in let mx := qmax_list cfit in
  length (minmax_col cfit c) = length c /\
  (forall x, In x cfit -> mn <= x <= mx) /\
  (~ mx - mn == 0 -> forall j, (j < length c)%nat ->
     nth j (minmax_col cfit c) 0 == (qnth c j - mn) / (mx - mn)) /\
  (~ mx - mn == 0 -> forall j, (j < length cfit)%nat ->
     0 <= nth j (minmax_col cfit cfit) 0 <= 1).
Proof. exact minmax_col_spec. Qed.
Print Assumptions C14_minmax_adaptor_spec.

(* every panel transformer (incl. the row transformer = map of the wrapped series function over
   every cell): the output is the per-instance function mapped over the instances, in order *)
Theorem C14_one_row_per_instance_in_order : forall t p out,
  apply_xf t p = Ok out ->
  out = map (row_xf t) p /\ length out = length p /\
  forall i, (i < length p)%nat -> nth i out [] = row_xf t (nth i p []).
Proof. exact one_row_per_instance_in_order. Qed.
Print Assumptions C14_one_row_per_instance_in_order.

Theorem C14_tabular_one_row_per_instance : forall p,
  (forall rows, tabularize p = Ok rows -> rows = map tab_row p) /\
  (forall g rows, row_s2p g p = Ok rows -> rows = map (map (pfun_apply g)) p) /\
  (forall feats ivs rows, rife_apply feats ivs p = Ok rows ->
     rows = map (fun i => rife_row feats ivs (only_col i)) p).
Proof. exact tabular_one_row_per_instance. Qed.
Print Assumptions C14_tabular_one_row_per_instance.

(* length-changing transformers return exactly the requested length for EVERY cell of ANY panel
   (no equal-length assumption) *)
Theorem C14_exact_lengths_for_unequal_panels : forall (p out : panel),
  (forall L fill, pad_apply L fill p = Ok out ->
     forall io o, In io out -> In o io -> length o = L) /\
  (forall lo upper, trunc_apply lo upper p = Ok out ->
     forall io o, In io out -> In o io ->
       length o = match upper with None => lo | Some u => (u - lo)%nat end) /\
  (forall m, interp_apply m p = Ok out -> forall io o, In io out -> In o io -> length o = m) /\
  (forall m, (1 <= m <= min_len p)%nat -> paa_apply m p = Ok out ->
     forall io o, In io out -> In o io -> length o = m).
Proof. exact exact_lengths_for_unequal_panels. Qed.
Print Assumptions C14_exact_lengths_for_unequal_panels.

(* the hypotheses are satisfiable by non-trivial instances: a ragged two-column panel is padded,
   truncated and resampled; 7 points in 3 fractional frames; 16 points in 3 intervals *)
Example C14_nonvacuous :
  let p0 : panel := [[[1; 2; 3]; [4; 5]]; [[6; 7; 8; 9]; [1; 0]]] in
  pad_apply (pad_fit None p0) (-1 # 1) p0
    = Ok [[[1; 2; 3; -1 # 1]; [4; 5; -1 # 1; -1 # 1]]; [[6; 7; 8; 9]; [1; 0; -1 # 1; -1 # 1]]] /\
  trunc_apply (trunc_fit None p0) None p0 = Ok [[[1; 2]; [4; 5]]; [[6; 7]; [1; 0]]] /\
  (exists out, interp_apply 3 p0 = Ok out /\ (2 <= min_len p0)%nat) /\
  map Qred (paa_coded 3 [1; 2; 3; 4; 5; 6; 7]) = [12 # 7; 4; 44 # 7] /\
  split_bounds 16 3 = [(0, 6); (6, 11); (11, 16)]%nat /\
  sliding_coded 3 [1; 2; 3] = [[1; 1; 2]; [1; 2; 3]; [2; 3; 3]] /\
  impute ILinear [None; Some 1; None; None; Some 4; None] = 
    [Some 1; Some 1; Some (1 + (2 - 1) / (4 - 1) * (4 - 1)); Some (1 + (3 - 1) / (4 - 1) * (4 - 1));
     Some 4; Some 4] /\
  map (option_map Qred) (impute IDrift [Some 0; None; Some 4]) = [Some 0; Some (4 # 3); Some 4] /\
  (exists out, iseg_int 3 [[map Qn (seq 0 16)]] [[map Qn (seq 0 16)]] = Ok [out] /\
               map (@length Q) out = [6; 5; 5]%nat).
Proof. exact nonvacuous_example. Qed.
