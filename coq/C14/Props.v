From Coq Require Import QArith List Bool ZArith Arith.
Require Import SkV.Lib.Base SkV.C14.Model SkV.C14.PaaProof SkV.C14.Proofs.
Import ListNotations.
Open Scope Q_scope.

Theorem C14_paa_is_frame_mean : forall (m : nat) (s : series),
  (1 <= m <= length s)%nat -> Forall2 Qeq (paa_coded m s) (paa_spec m s).
Proof. exact paa_coded_is_frame_mean. Qed.
Print Assumptions C14_paa_is_frame_mean.
