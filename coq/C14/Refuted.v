(* C14 open finding F-C14-1: IntervalSegmenter(int) as coded (faithful variant, tied by the
   correspondence run) does not tile the series. *)
From Coq Require Import QArith List Bool ZArith Arith Lia.
Require Import SkV.Lib.Base SkV.C14.Model.
Import ListNotations.
Open Scope Q_scope.

Definition s16 : series := map (fun i => Qn i) (seq 0 16).

(* 16 points / 3 intervals: the first cell has 5 values (0..4) instead of 6, and the cells do not
   concatenate back to the series *)
Lemma interval_segment_tiles_refuted :
  exists (s : series) (k : nat) out, (1 <= k <= length s / 2)%nat /\
    iseg_int_faithful k [[s]] [[s]] = Ok [out] /\
    length (hd [] out) = 5%nat /\ concat out <> s.
Proof.
  exists s16, 3%nat. eexists. split; [cbn; lia|]. split; [vm_compute; reflexivity|].
  split; [reflexivity|]. vm_compute. discriminate.
Qed.

(* F-C14-2: Imputer(method="drift") as coded forward/backward-fills the gaps BEFORE the trend is
   fitted (faithful variant = final_fill, tied by the correspondence run), so the gap receives
   the previous observation, not the value of the fitted trend line. *)
Lemma impute_drift_fill_refuted :
  exists (l : list (option Q)) (t : nat) (v w : Q),
    nth t l None = None /\
    nth t (impute_drift_faithful l) None = Some v /\
    (exists tp, prev_obs l t = Some (tp, v)) /\
    nth t (impute IDrift l) None = Some w /\
    (let '(a, b) := ols_line (observed (final_fill l)) in w == a + b * Qn t) /\
    ~ v == w.
Proof.
  exists [Some 0; None; Some 4], 1%nat, 0. eexists.
  split; [reflexivity|]. split; [reflexivity|]. split; [exists 0%nat; reflexivity|].
  split; [vm_compute; reflexivity|]. split; [vm_compute; reflexivity|].
  vm_compute. discriminate.
Qed.
