(* C15 Bridge: every function of the GENERATED file Gen.v (translator/panel_c15.py, one definition
   per function of sktime/utils/data_processing.py, statement by statement) equals the hand model of
   Model.v that the property theorems are about.  An edit of a conversion changes Gen.v and breaks
   the corresponding lemma here (or stops the translator).  Equalities hold for ALL arguments where
   the two algorithms agree unconditionally, else for the well-formed containers of the property
   (rectangular panel, n >= 1, c >= 1, T >= 2, distinct names). *)
From Coq Require Import ZArith List Bool Lia Sorted Permutation.
Require Import SkV.Lib.Base SkV.C15.Model SkV.C15.Lemmas SkV.C15.Proofs SkV.C15.Long SkV.C15.Paths
  SkV.C15.Prims SkV.C15.Gen.
Import ListNotations.
Open Scope Z_scope.

Definition kind_of (cells_as_numpy : bool) : cellkind := if cells_as_numpy then KArray else KSeries.

(* ---------------------------------------------------------------------------------------------- *)
(* list facts *)

Lemma map_of_nat_seq s k : map Z.of_nat (seq s k) = ziota (Z.of_nat s) k.
Proof.
  revert s. induction k as [|k IH]; intro s; cbn [seq map ziota]; [reflexivity|].
  f_equal. rewrite IH. f_equal. lia.
Qed.

Lemma concat_concat_map {A} (l : list (list (list A))) : concat (concat l) = concat (map (@concat A) l).
Proof.
  induction l as [|a l IH]; [reflexivity|]. cbn [concat map]. rewrite concat_app, IH. reflexivity.
Qed.

Lemma at_cons_S {A} (a : A) l i : at_ (a :: l) (S i) = at_ l i.
Proof. reflexivity. Qed.

Lemma at_tl {A} (l : list A) i : at_ (tl l) i = at_ l (S i).
Proof. destruct l; [destruct i; reflexivity|reflexivity]. Qed.

(* [l[j] for j in range(len(l))] = l *)
Lemma at_table {A} (l : list (list A)) : map (fun j => concat (at_ l j)) (seq 0 (length l)) = l.
Proof.
  induction l as [|a l IH]; [reflexivity|]. cbn [length seq map]. f_equal.
  - cbn. apply app_nil_r.
  - rewrite <- seq_shift, map_map. exact IH.
Qed.

Lemma at_in_range {A} (l : list A) i d : (i < length l)%nat -> at_ l i = [nth i l d].
Proof.
  revert i. induction l as [|a l IH]; intros i H; cbn in H; [lia|].
  destruct i; [reflexivity|]. rewrite at_cons_S. cbn [nth]. apply IH. lia.
Qed.

(* the columns of a row-major matrix, by position *)
Lemma transpose_at {A} w (M : list (list A)) :
  transpose w M = map (fun j => flat_map (fun row => at_ row j) M) (seq 0 w).
Proof.
  revert M. induction w as [|w IH]; intro M; [reflexivity|]. cbn [transpose seq map]. f_equal.
  - unfold heads. apply flat_map_ext_in. intros [|a r] _; reflexivity.
  - rewrite IH, <- seq_shift, map_map. apply map_ext. intro j. unfold tails.
    rewrite flat_map_map. apply flat_map_ext_in. intros row _. apply at_tl.
Qed.

(* transposing a matrix given column by column *)
Lemma transpose_map_map {A I J} (f : I -> J -> A) (ids : list I) (js : list J) :
  transpose (length ids) (map (fun j => map (fun i => f i j) ids) js) =
  map (fun i => map (fun j => f i j) js) ids.
Proof.
  induction ids as [|i ids IH]; cbn [length transpose map]; [reflexivity|]. f_equal.
  - unfold heads. rewrite flat_map_map. cbn. apply flat_map_singleton.
  - unfold tails. rewrite map_map. cbn [tl]. exact IH.
Qed.

Lemma transpose_one_column {A} (l : list A) : transpose (length l) [l] = map (fun a => [a]) l.
Proof. induction l as [|a l IH]; [reflexivity|]. cbn. f_equal. exact IH. Qed.

Lemma names_eqb_refl l : names_eqb l l = true.
Proof. induction l as [|a l IH]; [reflexivity|]. cbn. rewrite name_eqb_refl. exact IH. Qed.

Lemma name_sorted_NoDup l : Sorted name_lt l -> NoDup l.
Proof. apply sorted_NoDup; [apply name_ltb_irrefl|apply name_ltb_trans]. Qed.

(* ---------------------------------------------------------------------------------------------- *)
(* _make_column_names, the nestedness predicates *)

(* [f"var_{i}" for i in range(c)], wherever the generated code spells it out (the private helper
   _make_column_names is inlined into its callers by the translator) *)
Lemma bridge_make_column_names c :
  map (fun i => fstr [118; 97; 114; 95] i) (py_range c) = default_names c.
Proof.
  unfold default_names, py_range, fstr, default_name.
  pose proof (map_of_nat_seq 0 c) as H. cbn [Z.of_nat] in H. rewrite <- H, map_map. reflexivity.
Qed.

Section Bridge.
  Context {V : Type}.
  Implicit Types (X p : panel V) (x : nested V) (m : mi V) (L : long V) (t : tab2 V).

  (* a well-formed nested frame: rectangular panel and as many column labels as variables *)
  Definition wf_nested_ (n c T : nat) x : Prop := wf_panel n c T (n_rows x) /\ length (n_cols x) = c.

  Lemma bridge_cell_is_series_or_array (c : cell V) :
    isinstance_cell c [TySeries; TyNdarray] = cell_nested c.
  Proof. destruct c; reflexivity. Qed.

  Lemma bridge_are_columns_nested (f : frame V) :
    gen_are_columns_nested f = are_columns_nested f.
  Proof.
    unfold gen_are_columns_nested, bf_any, frame_applymap, are_columns_nested.
    cbn [fst snd]. do 2 f_equal. apply map_ext. intro row. apply map_ext. intro c.
    (* whichever way the type test is spelt (tuple, constant, chain of isinstance) *)
    destruct c; reflexivity.
  Qed.

  Lemma bridge_is_nested_dataframe (f : frame V) :
    gen_is_nested_dataframe f = is_nested_dataframe f.
  Proof.
    unfold gen_is_nested_dataframe, is_nested_dataframe, bools_any. cbn [negb andb].
    rewrite bridge_are_columns_nested. reflexivity.
  Qed.

  (* Series.to_numpy() of a Series cell, an array cell as it is: the values either way *)
  Lemma convert_cell_values (c : @ncell V) :
    cell_values (if cell_is_series c then cell_to_numpy c else c) = snd c.
  Proof. destruct c as [[|] l]; reflexivity. Qed.

  (* -------------------------------------------------------------------------------------------- *)
  (* 3-D array -> 2-D table *)

  Lemma bridge_from_3d_numpy_to_2d_array n c T X :
    wf_panel n c T X -> gen_from_3d_numpy_to_2d_array X = a3_to_2d X.
  Proof.
    intro Hwf. unfold gen_from_3d_numpy_to_2d_array, np_reshape_rows, np_shape3, np_ravel3, a3_to_2d.
    cbn [fst]. rewrite concat_concat_map.
    pose proof (tab_shape n c T X Hwf) as [Hl HF].
    rewrite (length_concat_rect n (c * T) _ (conj Hl HF)), (wf_len n c T X Hwf).
    assert (Hn : n <> O) by (destruct Hwf; lia).
    rewrite Nat.mul_comm, Nat.div_mul by exact Hn.
    rewrite <- Hl at 1. apply chunk_n_concat. exact HF.
  Qed.

  (* -------------------------------------------------------------------------------------------- *)
  (* columns appended one by one *)

  Lemma fold_setcol {E} (F : @dfb V -> E -> @dfb V) (lab : E -> name) (g : E -> list (@ncell V))
        (l : list E) (acc : @dfb V) :
    (forall df e, F df e = df_setcol df (lab e) (g e)) ->
    NoDup (map fst acc ++ map lab l) ->
    fold_left F l acc = acc ++ map (fun e => (lab e, g e)) l.
  Proof.
    intro HF. revert acc. induction l as [|e l IH]; intros acc Hnd; cbn [fold_left map].
    - rewrite app_nil_r. reflexivity.
    - assert (Hnew : existsb (fun col : name * list ncell => name_eqb (fst col) (lab e)) acc = false).
      { destruct (existsb _ acc) eqn:E1; [|reflexivity]. exfalso.
        apply existsb_exists in E1. destruct E1 as [col [Hin Heq]]. apply name_eqb_eq in Heq.
        cbn [map] in Hnd. apply NoDup_remove_2 in Hnd. apply Hnd. apply in_or_app. left.
        apply in_map_iff. exists col. split; assumption. }
      rewrite HF. unfold df_setcol. rewrite Hnew. rewrite IH.
      + rewrite <- app_assoc. reflexivity.
      + rewrite map_app, <- app_assoc. exact Hnd.
  Qed.

  (* X[i, j, :] over all positions is X *)
  Lemma get3_table X n c :
    length X = n -> (forall inst, In inst X -> length inst = c) ->
    map (fun i => map (fun j => np_get3 X i j) (seq 0 c)) (seq 0 n) = X.
  Proof.
    revert n. induction X as [|a X IH]; intros n Hl Hc; cbn in Hl; subst n; [reflexivity|].
    cbn [seq map]. f_equal.
    - unfold np_get3. cbn [at_ nth_error opt_list flat_map]. rewrite <- (Hc a (or_introl eq_refl)).
      rewrite <- (at_table a) at 2. apply map_ext. intro j. rewrite app_nil_r. reflexivity.
    - rewrite <- seq_shift, map_map. apply IH; [reflexivity|].
      intros inst Hi. apply Hc. right. exact Hi.
  Qed.

  (* -------------------------------------------------------------------------------------------- *)
  (* 3-D array -> nested *)

  (* the column-by-column loop, whatever way the generated code spells it: any step function
     that sets column `label` to the cells X[0..n-1, j, :] *)
  Lemma columns_loop n c T X k (nms : list name) (F : @dfb V -> nat * name -> @dfb V) :
    wf_panel n c T X -> length nms = c -> NoDup nms ->
    (forall df jc, F df jc =
                   df_setcol df (snd jc) (map (fun i => mk_cell k (np_get3 X i (fst jc))) (py_range n))) ->
    df_finish (fold_left F (py_enumerate nms) pd_DataFrame_empty) = mkN k nms X.
  Proof.
    intros Hwf Hlen Hnd HF.
    set (col := fun j => map (fun i => mk_cell k (np_get3 X i j)) (py_range n)).
    rewrite (fold_setcol F snd (fun jc => col (fst jc)) (py_enumerate nms) pd_DataFrame_empty).
    2:{ intros df jc. apply HF. }
    2:{ cbn. unfold py_enumerate. rewrite map_snd_combine by apply seq_length. exact Hnd. }
    cbn [pd_DataFrame_empty app]. unfold df_finish, dfb_columns.
    assert (Hn1 : (1 <= n)%nat) by (destruct Hwf; lia).
    assert (Hc1 : (1 <= c)%nat) by (destruct Hwf as [_ [? _]]; lia).
    assert (Hfst : map fst (py_enumerate nms) = seq 0 c)
      by (unfold py_enumerate; rewrite map_fst_combine by apply seq_length; rewrite Hlen;
          reflexivity).
    assert (Hsnd : map snd (py_enumerate nms) = nms)
      by (unfold py_enumerate; apply map_snd_combine; apply seq_length).
    f_equal.
    - (* cell kind *)
      destruct nms as [|nm nms']; [cbn in Hlen; lia|]. unfold py_enumerate. cbn.
      unfold col, py_range. destruct n; [lia|]. reflexivity.
    - rewrite map_map. cbn [fst]. exact Hsnd.
    - (* rows *)
      assert (Hrows : dfb_nrows (map (fun jc : nat * name => (snd jc, col (fst jc)))
                                     (py_enumerate nms)) = length (seq 0 n)).
      { destruct nms as [|nm nms']; [cbn in Hlen; lia|]. unfold py_enumerate. cbn.
        unfold col, py_range. rewrite map_length. reflexivity. }
      rewrite Hrows, map_map. cbn [snd fst].
      rewrite (map_ext (fun jc : nat * name => map snd (col (fst jc)))
                       (fun jc => (fun j => map (fun i => np_get3 X i j) (seq 0 n)) (fst jc))).
      2:{ intro jc. unfold col, py_range. rewrite map_map. reflexivity. }
      rewrite <- (map_map fst (fun j => map (fun i => np_get3 X i j) (seq 0 n))), Hfst.
      rewrite (transpose_map_map (fun i j => np_get3 X i j)).
      apply get3_table; [apply (wf_len n c T X Hwf)|].
      intros inst Hi. apply (wf_inst n c T X Hwf inst Hi).
  Qed.

  Lemma bridge_from_3d_numpy_to_nested n c T X cn b :
    wf_panel n c T X -> names_ok c cn ->
    gen_from_3d_numpy_to_nested X cn b = Ok (a3_to_nested cn (kind_of b) X).
  Proof.
    intros Hwf Hn. rewrite (a3_to_nested_eq n c T X Hwf).
    unfold gen_from_3d_numpy_to_nested, np_shape3.
    rewrite (wf_len n c T X Hwf), (wf_shape_cols n c T X Hwf).
    assert (Hlen : length (names_or_default cn c) = c) by (apply names_or_default_length; exact Hn).
    assert (Hnd : NoDup (names_or_default cn c)) by (apply names_or_default_NoDup; exact Hn).
    (* whichever way the names are selected / validated: decide it, then run the loop *)
    destruct cn as [l|]; cbn [names_or_default] in *.
    - destruct Hn as [Hl _]. rewrite ?Hl, ?Nat.eqb_refl. cbn [negb rbind]. f_equal.
      try (replace (combine (py_range c) l) with (py_enumerate l)
            by (unfold py_enumerate, py_range; rewrite Hlen; reflexivity)).
      apply (columns_loop n c T X (kind_of b) l _ Hwf Hlen Hnd).
      intros df [j cl]. destruct b; cbn [fst snd kind_of]; rewrite ?map_map; reflexivity.
    - rewrite ?bridge_make_column_names. cbn [negb rbind]. f_equal.
      try (replace (combine (py_range c) (default_names c)) with (py_enumerate (default_names c))
            by (unfold py_enumerate, py_range; rewrite Hlen; reflexivity)).
      apply (columns_loop n c T X (kind_of b) (default_names c) _ Hwf Hlen Hnd).
      intros df [j cl]. destruct b; cbn [fst snd kind_of]; rewrite ?map_map; reflexivity.
  Qed.

  Lemma bridge_from_3d_numpy_to_nested_rejects n c T X l b :
    wf_panel n c T X -> length l <> c -> gen_from_3d_numpy_to_nested X (Some l) b = Err.
  Proof.
    intros Hwf Hl. unfold gen_from_3d_numpy_to_nested, np_shape3.
    rewrite (wf_shape_cols n c T X Hwf). apply Nat.eqb_neq in Hl. rewrite ?Hl. cbn [negb rbind].
    reflexivity.
  Qed.

  (* -------------------------------------------------------------------------------------------- *)
  (* 2-D table -> nested (either container: np.array gets no `index` keyword) *)

  Lemma rmapM_ok {A B} (f : A -> B) (l : list A) : rmapM (fun a => Ok (f a)) l = Ok (map f l).
  Proof. induction l as [|a l IH]; [reflexivity|]. cbn. rewrite IH. reflexivity. Qed.

  Lemma rmapM_ext_ok {A B} (g : A -> B) (f : A -> res B) (l : list A) :
    (forall a, f a = Ok (g a)) -> rmapM f l = Ok (map g l).
  Proof.
    intro H. induction l as [|a l IH]; [reflexivity|]. cbn. rewrite H, IH. reflexivity.
  Qed.

  Lemma cells_frame k t :
    t <> [] ->
    df_finish (df_of_cells (map (fun i => mk_cell k (np_get2 t i)) (py_range (length t)))) =
    tab_to_nested k t.
  Proof.
    intro Hne. unfold tab_to_nested, df_finish, df_of_cells, dfb_columns, dfb_kind, dfb_nrows, py_range.
    cbn [map fst snd]. rewrite !map_map. cbn [snd mk_cell].
    assert (Hrows : map (fun i => np_get2 t i) (seq 0 (length t)) = t) by apply at_table.
    rewrite Hrows, map_length, seq_length. f_equal.
    - destruct t as [|r t']; [congruence|]. reflexivity.
    - apply transpose_one_column.
  Qed.

  Lemma bridge_from_2d_array_to_nested t b :
    t <> [] -> gen_from_2d_array_to_nested t b = Ok (tab_to_nested (kind_of b) t).
  Proof.
    intro Hne. unfold gen_from_2d_array_to_nested, np_shape2.
    (* decide the container first: however container / kwargs are selected, each case computes *)
    destruct b; cbn [kind_of];
      (rewrite (rmapM_ext_ok (fun i => mk_cell _ (np_get2 t i))) by (intro i; reflexivity));
      cbn [rbind]; f_equal; apply cells_frame; exact Hne.
  Qed.

  (* -------------------------------------------------------------------------------------------- *)
  (* multi-index frame -> 3-D array (frames of panels; the caller names level 0 / level 1) *)

  Lemma bridge_from_multi_index_to_3d_numpy n c T p cols :
    wf_panel n c T p -> length cols = c ->
    gen_from_multi_index_to_3d_numpy (mkM cols (mi_rows T p)) (Some 0%nat) (Some 1%nat) =
    Ok (mi_to_3d (mkM cols (mi_rows T p))).
  Proof.
    intros Hwf Hc. rewrite (mi_to_3d_rows n c T p Hwf cols Hc).
    unfold gen_from_multi_index_to_3d_numpy, mi_nlevels, mi_level_unique, mi_shape1, mi_values,
      np_ravel2, np_reshape3.
    cbn [Nat.eqb negb is_none orb andb opt_get m_rows m_cols mi_level]. f_equal.
    change (map (mi_level 0) (mi_rows T p)) with (map r_inst (mi_rows T p)).
    change (map (mi_level 1) (mi_rows T p)) with (map r_time (mi_rows T p)).
    rewrite (mi_rows_n_instances n c T p Hwf), (mi_rows_n_timepoints n c T p Hwf), !ziota_length.
    rewrite (mi_rows_vals T p), Hc, concat_concat_map.
    set (blocks := map (transpose T) p).
    assert (Hb : forall blk, In blk blocks -> rect T c blk).
    { intros blk Hin. apply in_map_iff in Hin. destruct Hin as [inst [<- Hi]].
      apply transpose_rect. apply (wf_inst n c T p Hwf inst Hi). }
    assert (Hlen : length (map (@concat V) blocks) = n)
      by (unfold blocks; rewrite !map_length; apply (wf_len n c T p Hwf)).
    rewrite <- Hlen at 1. rewrite chunk_n_concat.
    2:{ apply Forall_forall. intros fl Hin. apply in_map_iff in Hin. destruct Hin as [blk [<- Hin]].
        apply (length_concat_rect T c). apply Hb. exact Hin. }
    rewrite map_map.
    rewrite (map_ext_in (fun blk => chunk_n T c (concat blk)) (fun blk => blk)).
    2:{ intros blk Hin. destruct (Hb blk Hin) as [Hl HF]. rewrite <- Hl. apply chunk_n_concat.
        exact HF. }
    rewrite map_id. unfold np_swapaxes3. cbn [Nat.eqb andb orb]. unfold blocks. rewrite map_map.
    rewrite <- (map_id p) at 2. apply map_ext_in. intros inst Hi.
    pose proof (wf_inst n c T p Hwf inst Hi) as Hr.
    destruct (transpose_rect c T inst Hr) as [Hl HF].
    assert (Hhd : length (hd [] (transpose T inst)) = c).
    { destruct (transpose T inst) as [|r rs] eqn:E.
      - cbn in Hl. destruct Hwf as [_ [_ [HT _]]]. lia.
      - inversion HF as [|? ? H1 H2]. exact H1. }
    rewrite Hhd. apply transpose_involutive. exact Hr.
  Qed.

  Lemma bridge_from_multi_index_to_3d_numpy_rejects m a b :
    a = None \/ b = None -> gen_from_multi_index_to_3d_numpy m a b = Err.
  Proof.
    intros [-> | ->]; unfold gen_from_multi_index_to_3d_numpy; cbn; [reflexivity|].
    destruct a; reflexivity.
  Qed.

  (* -------------------------------------------------------------------------------------------- *)
  (* nested -> 2-D table *)

  Lemma bridge_from_nested_to_2d_array n c T x b :
    wf_nested_ n c T x -> gen_from_nested_to_2d_array x b = Ok (nested_to_2d x).
  Proof.
    intros [Hwf Hc]. unfold gen_from_nested_to_2d_array, nested_to_2d, nested_shape1, py_range, np_hstack.
    assert (Hblocks : map (fun i => nested_col_tolist x i) (seq 0 (length (n_cols x))) =
                      transpose c (n_rows x)).
    { rewrite Hc, transpose_at. reflexivity. }
    rewrite Hblocks.
    pose proof (wf_rect_series n c T _ Hwf) as Hr.
    destruct (transpose_rect n c _ Hr) as [Hl HF].
    assert (Hhd : length (hd [] (transpose c (n_rows x))) = n).
    { destruct (transpose c (n_rows x)) as [|r rs] eqn:E.
      - cbn in Hl. destruct Hwf as [_ [Hc1 _]]. lia.
      - inversion HF as [|? ? H1 H2]. exact H1. }
    rewrite Hhd, (transpose_involutive n c _ Hr). destruct b; reflexivity.
  Qed.

  (* -------------------------------------------------------------------------------------------- *)
  (* multi-index frame -> nested, for ANY frame with distinct column labels *)

  Lemma xs_col (rows : list ((Z * Z) * list V)) id j :
    kser_xs_values (flat_map (fun r => map (fun v => (fst r, v)) (at_ (snd r) j)) rows) id 0 =
    flat_map (fun row => at_ row j) (map snd (filter (fun r => r_inst r =? id) rows)).
  Proof.
    unfold kser_xs_values. induction rows as [|r rows IH]; [reflexivity|].
    cbn [flat_map filter]. rewrite filter_app, map_app, IH. clear IH.
    unfold at_ at 1. unfold r_inst at 2.
    destruct (fst (fst r) =? id) eqn:E.
    - cbn [map flat_map]. unfold at_ at 2.
      destruct (nth_error (snd r) j); cbn [opt_list map filter fst snd app]; [rewrite E|];
        reflexivity.
    - destruct (nth_error (snd r) j); cbn [opt_list map filter fst snd app]; [rewrite E|];
        reflexivity.
  Qed.

  Lemma bridge_from_multi_index_to_nested m b :
    NoDup (m_cols m) -> m_cols m <> [] -> m_rows m <> [] ->
    gen_from_multi_index_to_nested m (Some 0%nat) b = Ok (mi_to_nested (kind_of b) m).
  Proof.
    intros Hnd Hc Hr. unfold gen_from_multi_index_to_nested, mi_level_unique, mi_to_nested.
    change (map (mi_level 0) (m_rows m)) with (map r_inst (m_rows m)).
    set (ids := uniqz (map r_inst (m_rows m))).
    set (g := fun e : name * @kser V =>
                map (mk_cell (kind_of b)) (map (fun id => kser_xs_values (snd e) id 0%nat) ids)).
    rewrite (fold_setcol _ fst g (mi_items m) pd_DataFrame_empty).
    2:{ intros df [lab ser]. unfold g. destruct b; cbn [fst snd kind_of]; rewrite ?map_map;
        reflexivity. }
    2:{ cbn. unfold mi_items, py_enumerate. rewrite map_map. cbn [fst].
        rewrite map_snd_combine by apply seq_length. exact Hnd. }
    cbn [pd_DataFrame_empty app].
    assert (Hlabels : map fst (mi_items m) = m_cols m).
    { unfold mi_items, py_enumerate. rewrite map_map. cbn [fst].
      apply map_snd_combine. apply seq_length. }
    pose proof (Hlabels : map (fun x : name * @kser V => fst x) (mi_items m) = m_cols m) as Hlabels'.
    unfold dfb_columns, mi_columns. rewrite map_map. cbn [fst]. rewrite Hlabels', names_eqb_refl.
    cbn [negb]. f_equal. unfold df_finish, dfb_columns. rewrite !map_map. cbn [fst snd].
    rewrite Hlabels'.
    assert (Hids : ids <> []).
    { unfold ids. destruct (m_rows m) as [|r rs]; [congruence|]. cbn. discriminate. }
    assert (Hitems : mi_items m <> []).
    { intro H. rewrite H in Hlabels. cbn in Hlabels. congruence. }
    f_equal.
    - (* cell kind *)
      destruct (mi_items m) as [|e es]; [congruence|]. cbn. unfold g.
      destruct ids as [|i is_]; [congruence|]. reflexivity.
    - (* rows *)
      assert (Hn : dfb_nrows (map (fun e => (fst e, g e)) (mi_items m)) = length ids).
      { destruct (mi_items m) as [|e es]; [congruence|]. cbn. unfold g. rewrite !map_length.
        reflexivity. }
      rewrite Hn.
      rewrite (map_ext (fun e => map snd (g e))
                       (fun e => map (fun id => kser_xs_values (snd e) id 0%nat) ids)).
      2:{ intro e. unfold g. rewrite map_map. cbn [mk_cell snd]. apply map_id. }
      unfold mi_items. rewrite map_map. cbn [snd].
      set (ser := fun j => flat_map (fun r => map (fun v => (fst r, v)) (at_ (snd r) j)) (m_rows m)).
      rewrite (map_ext (fun jn : nat * name =>
                          map (fun id => kser_xs_values (ser (fst jn)) id 0%nat) ids)
                       (fun jn => (fun j => map (fun id => kser_xs_values (ser j) id 0%nat) ids)
                                    (fst jn))) by reflexivity.
      rewrite <- (map_map fst (fun j => map (fun id => kser_xs_values (ser j) id 0%nat) ids)).
      unfold py_enumerate. rewrite map_fst_combine by apply seq_length.
      rewrite (transpose_map_map (fun id j => kser_xs_values (ser j) id 0%nat)).
      apply map_ext. intro id. rewrite transpose_at. apply map_ext. intro j. apply xs_col.
  Qed.

  Lemma bridge_from_multi_index_to_nested_rejects m b :
    gen_from_multi_index_to_nested m None b = Err.
  Proof. reflexivity. Qed.

  (* -------------------------------------------------------------------------------------------- *)
  (* long table -> nested, for ANY non-empty long table *)

  Lemma long_pivot_by_01 L : long_pivot_by 0 1 L = long_pivot L.
  Proof.
    unfold long_pivot_by, long_pivot.
    assert (Hk : forall e : lrow V, (l_role 0 e, l_role 1 e) = l_key e)
      by (intros [[[i d] t0] v]; reflexivity).
    rewrite (map_ext _ _ Hk). f_equal. apply map_ext. intro k. f_equal.
    apply flat_map_ext_in. intros d _. f_equal. apply filter_ext. intro e. rewrite Hk. reflexivity.
  Qed.

  Lemma bridge_from_long_to_nested L cn :
    L <> [] -> gen_from_long_to_nested L cn = Ok (long_to_nested cn L).
  Proof.
    intro Hne. unfold gen_from_long_to_nested, long_to_nested. rewrite long_pivot_by_01.
    rewrite (bridge_from_multi_index_to_nested (long_pivot L) false).
    - cbn [rbind kind_of]. destruct cn; reflexivity.
    - apply name_sorted_NoDup. unfold long_pivot. cbn [m_cols]. apply sort_names_sorted.
    - destruct L as [|e L']; [congruence|]. unfold long_pivot. cbn [m_cols]. intro H.
      assert (Hin : In (l_dim e) (sort_names (map l_dim (e :: L'))))
        by (apply sort_names_In; left; reflexivity).
      unfold sort_names in Hin. rewrite H in Hin. destruct Hin.
    - destruct L as [|e L']; [congruence|]. unfold long_pivot. cbn [m_rows]. intro H.
      apply map_eq_nil in H.
      assert (Hin : In (l_key e) (sort_keys (map l_key (e :: L')))).
      { unfold sort_keys. apply sort_u_In; [apply key_eqb_eq|]. left. reflexivity. }
      unfold sort_keys in Hin. rewrite H in Hin. destruct Hin.
  Qed.

  (* -------------------------------------------------------------------------------------------- *)
  (* nested -> 3-D array (all columns nested: the np.stack branch) *)

  Lemma count_true_repeat k : count_true (repeat true k) = length (repeat true k).
  Proof. unfold count_true. induction k as [|k IH]; [reflexivity|]. cbn. rewrite IH. reflexivity. Qed.

  Lemma bools_all_repeat k : bools_all (repeat true k) = true.
  Proof. unfold bools_all. induction k as [|k IH]; [reflexivity|]. cbn. exact IH. Qed.

  Lemma wf_nested_frame n c T x :
    wf_nested_ n c T x ->
    gen_is_nested_dataframe (frame_of_nested x) = true /\
    gen_are_columns_nested (frame_of_nested x) = repeat true c.
  Proof.
    intros [Hwf Hc]. rewrite bridge_is_nested_dataframe, bridge_are_columns_nested.
    apply (nested_frames_are_nested n c T x Hwf Hc).
  Qed.

  Lemma bridge_from_nested_to_3d_numpy n c T x :
    wf_nested_ n c T x -> gen_from_nested_to_3d_numpy x = Ok (nested_to_3d x).
  Proof.
    intro Hx. destruct (wf_nested_frame n c T x Hx) as [H1 H2].
    unfold gen_from_nested_to_3d_numpy.
    (* "all columns are nested", however the generated code tests it *)
    rewrite H1, H2, ?count_true_repeat, ?Nat.eqb_refl, ?bools_all_repeat.
    cbn [negb rbind]. f_equal. unfold nested_to_3d, nested_cells. rewrite !map_map.
    rewrite <- (map_id (n_rows x)) at 2. apply map_ext. intro row. rewrite !map_map.
    rewrite <- (map_id row) at 2. apply map_ext. intro s0.
    cbv beta. apply convert_cell_values.
  Qed.

  (* -------------------------------------------------------------------------------------------- *)
  (* nested -> multi-index frame, instance by instance *)

  Lemma fold_append {A I} (F : list A -> I -> list A) (f : I -> A) l acc :
    (forall a i, F a i = a ++ [f i]) -> fold_left F l acc = acc ++ map f l.
  Proof.
    intro HF. revert acc. induction l as [|i l IH]; intro acc; cbn [fold_left map].
    - rewrite app_nil_r. reflexivity.
    - rewrite HF, IH, <- app_assoc. reflexivity.
  Qed.

  Lemma fold_noop {A E} (G : A -> E -> A) l a :
    (forall a' e, In e l -> G a' e = a') -> fold_left G l a = a.
  Proof.
    revert a. induction l as [|e l IH]; intros a H; [reflexivity|]. cbn [fold_left].
    rewrite H by (left; reflexivity). apply IH. intros a' e' He'. apply H. right. exact He'.
  Qed.

  Lemma combine_map_l {A B C} (g : A -> C) (a : list A) (b : list B) :
    combine (map g a) b = map (fun q => (g (fst q), snd q)) (combine a b).
  Proof.
    revert b. induction a as [|x a IH]; intros [|y b]; cbn; try reflexivity. f_equal. apply IH.
  Qed.

  (* visiting the rows of l by label s, s+1, ... = enumerating l *)
  Lemma ziota_at_enum {A B} (l : list (list A)) (h : Z -> list A -> B) s :
    map (fun idx => h idx (concat (at_ l (Z.to_nat (idx - s))))) (ziota s (length l)) =
    map (fun ii => h (fst ii) (snd ii)) (enum_from s l).
  Proof.
    revert s. induction l as [|a l IH]; intro s; [reflexivity|].
    cbn [length ziota map]. rewrite enum_from_cons. cbn [map fst snd]. f_equal.
    - rewrite Z.sub_diag. cbn. rewrite app_nil_r. reflexivity.
    - rewrite <- IH. apply map_ext_in. intros idx Hin. apply ziota_In in Hin.
      replace (Z.to_nat (idx - s)) with (S (Z.to_nat (idx - (s + 1)))) by lia. reflexivity.
  Qed.

  Lemma map_snd_snd_combine {A B C} (a : list A) (k : B) (r : list C) :
    length a = length r ->
    map (fun q : A * (B * C) => snd (snd q)) (combine a (map (fun s => (k, s)) r)) = r.
  Proof.
    revert r. induction a as [|x a IH]; intros [|y r] H; cbn in *; try reflexivity; try discriminate.
    f_equal. apply IH. lia.
  Qed.

  Lemma bridge_from_nested_to_multi_index n c T x a b :
    wf_nested_ n c T x -> gen_from_nested_to_multi_index x a b = Ok (nested_to_mi x).
  Proof.
    intro Hx. destruct (wf_nested_frame n c T x Hx) as [H1 H2]. destruct Hx as [Hwf Hc].
    unfold gen_from_nested_to_multi_index. rewrite H1, H2. cbn [negb]. f_equal.
    set (f := fun idx : Z =>
           let inst := concat (at_ (n_rows x) (Z.to_nat (idx - 0))) in
           @block_rows V (length (hd [] inst)) (idx, inst)).
    rewrite (map_ext _ f).
    - unfold nested_index_unique. unfold mi_of_rows, pd_concat_rows, nested_to_mi. f_equal.
      rewrite flat_map_concat_map. f_equal. unfold f.
      rewrite (ziota_at_enum (n_rows x) (fun idx inst => @block_rows V (length (hd [] inst)) (idx, inst)) 0).
      rewrite enum_enum_from. apply map_ext. intros [i inst]. reflexivity.
    - intros idx. cbv zeta. unfold f. cbv zeta. rewrite Z.sub_0_r.
      set (inst := concat (at_ (n_rows x) (Z.to_nat idx))).
      (* the cells of row idx, as Series *)
      assert (Hsers : map cell_values
                        (map (mk_cell KSeries)
                           (map (fun '(_, _val) =>
                                   if cell_is_series _val then cell_values _val else cell_values _val)
                              (nested_loc_row_items x idx))) = inst \/ inst = []).
      { unfold nested_loc_row_items. fold inst. rewrite !map_map.
        destruct (at_ (n_rows x) (Z.to_nat idx)) as [|r [|? ?]] eqn:E.
        - right. reflexivity.
        - left. assert (Hin : In r (n_rows x)).
          { unfold at_ in E. destruct (nth_error (n_rows x) (Z.to_nat idx)) eqn:E2; [|discriminate].
            inversion E; subst. eapply nth_error_In. exact E2. }
          destruct (wf_inst n c T _ Hwf r Hin) as [Hl _].
          subst inst. cbn [concat]. rewrite app_nil_r.
          rewrite (map_ext _ (fun q : name * @ncell V => snd (snd q))).
          2:{ intros [lab [k s0]]. cbn. destruct (cell_is_series (k, s0)); reflexivity. }
          apply map_snd_snd_combine. lia.
        - exfalso. unfold at_ in E. destruct (nth_error (n_rows x) (Z.to_nat idx)); discriminate. }
      destruct Hsers as [Hsers | Hnil].
      + rewrite Hsers. unfold pd_concat_axis1.
        rewrite fold_noop.
        2:{ intros blk [j is_n] Hin. unfold py_enumerate in Hin. apply in_combine_r in Hin.
            apply repeat_spec in Hin. subst is_n. reflexivity. }
        unfold block_set_index, mi_from_product2, block_index, block_rows. cbn [flat_map].
        rewrite app_nil_r, transpose_length, combine_map_l. cbn [fst snd].
        unfold enum. rewrite transpose_length. reflexivity.
      + (* no such row: both sides are empty *)
        assert (Hs0 : map cell_values
                        (map (mk_cell KSeries)
                           (map (fun '(_, _val) =>
                                   if cell_is_series _val then cell_values _val else cell_values _val)
                              (nested_loc_row_items x idx))) = []).
        { unfold nested_loc_row_items. fold inst. rewrite Hnil. cbn [map].
          destruct (n_cols x); reflexivity. }
        rewrite Hs0, Hnil. unfold pd_concat_axis1. cbn [hd length transpose].
        rewrite fold_noop.
        2:{ intros blk [j is_n] Hin. unfold py_enumerate in Hin. apply in_combine_r in Hin.
            apply repeat_spec in Hin. subst is_n. reflexivity. }
        reflexivity.
  Qed.

  (* -------------------------------------------------------------------------------------------- *)
  (* nested -> long table: one block of rows per column *)

  Lemma at_map {A B} (g : A -> B) l j : at_ (map g l) j = map g (at_ l j).
  Proof.
    unfold at_. revert j. induction l as [|a l IH]; intros [|j]; cbn; try reflexivity. apply IH.
  Qed.

  Lemma at_combine {A B} (a : list A) (b : list B) j :
    at_ (combine a b) j = combine (at_ a j) (at_ b j).
  Proof.
    unfold at_. revert b j. induction a as [|x a IH]; intros [|y b] [|j]; cbn; try reflexivity.
    - destruct (nth_error a j); reflexivity.
    - apply IH.
  Qed.

  Lemma at_some {A} (l : list A) j : (j < length l)%nat -> exists v, at_ l j = [v].
  Proof.
    unfold at_. revert j. induction l as [|a l IH]; intros j H; cbn in H; [lia|].
    destruct j; [exists a; reflexivity|]. cbn. apply IH. lia.
  Qed.

  Lemma at_enumerate_from {A} (l : list A) j e s :
    In (j, e) (combine (seq s (length l)) l) ->
    (s <= j)%nat /\ at_ l (j - s) = [e] /\ (j - s < length l)%nat.
  Proof.
    unfold at_. revert s. induction l as [|a l IH]; intros s H; [destruct H|]. cbn in H.
    destruct H as [H|H].
    - inversion H; subst. rewrite Nat.sub_diag. cbn. repeat split; lia.
    - destruct (IH (S s) H) as [H1 [H2 H3]]. replace (j - s)%nat with (S (j - S s)) by lia.
      cbn. repeat split; [lia|exact H2|lia].
  Qed.

  Lemma at_enumerate {A} (l : list A) j e :
    In (j, e) (py_enumerate l) -> at_ l j = [e] /\ (j < length l)%nat.
  Proof.
    intro H. destruct (at_enumerate_from l j e 0 H) as [_ [H2 H3]]. rewrite Nat.sub_0_r in *.
    split; assumption.
  Qed.

  Lemma melt_by_columns m :
    (forall r, In r (m_rows m) -> length (snd r) = length (m_cols m)) ->
    long_concat (map (fun '(j, label) =>
                        ids_assign (mi_index_frame m) (repeat label (length (mi_index_frame m)))
                                   (mi_col_values m j))
                     (py_enumerate (mi_columns m))) = mi_melt m.
  Proof.
    intro Hw. unfold long_concat, mi_melt. f_equal. rewrite transpose_at.
    unfold mi_columns. unfold py_enumerate at 1.
    rewrite <- (map_fst_combine (seq 0 (length (m_cols m))) (m_cols m)) at 2 by apply seq_length.
    rewrite map_map. apply map_ext_in. intros [j label] Hin. cbn [fst].
    destruct (at_enumerate _ _ _ Hin) as [Hlab Hj].
    unfold tagged. rewrite flat_map_map. unfold mi_index_frame, mi_col_values. rewrite map_length.
    induction (m_rows m) as [|r rows IH]; [reflexivity|]. cbn [map length repeat flat_map].
    assert (Hr : length (snd r) = length (m_cols m)) by (apply Hw; left; reflexivity).
    destruct (at_some (snd r) j) as [v Hv]; [lia|].
    rewrite at_map, at_combine, Hlab, Hv. cbn [combine map app].
    unfold ids_assign in *. cbn [combine map app]. f_equal.
    apply IH. intros r' Hr'. apply Hw. right. exact Hr'.
  Qed.

  Lemma bridge_from_nested_to_long n c T x :
    wf_nested_ n c T x -> gen_from_nested_to_long x = Ok (nested_to_long x).
  Proof.
    intro Hx. unfold gen_from_nested_to_long.
    rewrite (bridge_from_nested_to_multi_index n c T x _ _ Hx). cbn [rbind]. f_equal.
    unfold nested_to_long. apply melt_by_columns.
    destruct Hx as [Hwf Hc]. destruct x as [k cols rows]. cbn [n_rows n_cols] in *.
    rewrite (nested_to_mi_eq n c T rows Hwf). cbn [m_rows m_cols]. intros r Hr.
    rewrite Hc. apply (mi_rows_width n c T rows Hwf r Hr).
  Qed.
End Bridge.
