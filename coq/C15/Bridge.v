(* C15 Bridge: every function of the GENERATED file Gen.v (translator/panel_c15.py, one definition
   per function of sktime/utils/data_processing.py, statement by statement) equals the hand model of
   Model.v that the property theorems are about.  An edit of a conversion changes Gen.v and breaks
   the corresponding lemma here (or stops the translator).  Equalities hold for ALL arguments where
   the two algorithms agree unconditionally, else for the well-formed containers of the property
   (rectangular panel, n >= 1, c >= 1, T >= 2, distinct names). *)
From Coq Require Import ZArith List Bool Lia Sorted Permutation.
Require Import SkV.Lib.Base SkV.C15.Model SkV.C15.Lemmas SkV.C15.Proofs SkV.C15.Long SkV.C15.Prims
  SkV.C15.Gen.
Import ListNotations.
Open Scope Z_scope.

Definition kind_of (cells_as_numpy : bool) : cellkind := if cells_as_numpy then KArray else KSeries.

(* ---------------------------------------------------------------------------------------------- *)
(* list facts *)

Lemma map_of_nat_seq s k : map Z.of_nat (seq s k) = ziota (Z.of_nat s) k.
Proof.
  revert s. induction k as [|k IH]; intro s; cbn [seq map ziota]; [reflexivity|].
  f_equal. rewrite IH. f_equal. lia.
Qed.

Lemma concat_concat_map {A} (l : list (list (list A))) : concat (concat l) = concat (map (@concat A) l).
Proof.
  induction l as [|a l IH]; [reflexivity|]. cbn [concat map]. rewrite concat_app, IH. reflexivity.
Qed.

Lemma at_cons_S {A} (a : A) l i : at_ (a :: l) (S i) = at_ l i.
Proof. reflexivity. Qed.

Lemma at_tl {A} (l : list A) i : at_ (tl l) i = at_ l (S i).
Proof. destruct l; [destruct i; reflexivity|reflexivity]. Qed.

(* [l[j] for j in range(len(l))] = l *)
Lemma at_table {A} (l : list (list A)) : map (fun j => concat (at_ l j)) (seq 0 (length l)) = l.
Proof.
  induction l as [|a l IH]; [reflexivity|]. cbn [length seq map]. f_equal.
  - cbn. apply app_nil_r.
  - rewrite <- seq_shift, map_map. exact IH.
Qed.

Lemma at_in_range {A} (l : list A) i d : (i < length l)%nat -> at_ l i = [nth i l d].
Proof.
  revert i. induction l as [|a l IH]; intros i H; cbn in H; [lia|].
  destruct i; [reflexivity|]. rewrite at_cons_S. cbn [nth]. apply IH. lia.
Qed.

(* the columns of a row-major matrix, by position *)
Lemma transpose_at {A} w (M : list (list A)) :
  transpose w M = map (fun j => flat_map (fun row => at_ row j) M) (seq 0 w).
Proof.
  revert M. induction w as [|w IH]; intro M; [reflexivity|]. cbn [transpose seq map]. f_equal.
  - unfold heads. apply flat_map_ext_in. intros [|a r] _; reflexivity.
  - rewrite IH, <- seq_shift, map_map. apply map_ext. intro j. unfold tails.
    rewrite flat_map_map. apply flat_map_ext_in. intros row _. apply at_tl.
Qed.

(* transposing a matrix given column by column *)
Lemma transpose_map_map {A I J} (f : I -> J -> A) (ids : list I) (js : list J) :
  transpose (length ids) (map (fun j => map (fun i => f i j) ids) js) =
  map (fun i => map (fun j => f i j) js) ids.
Proof.
  induction ids as [|i ids IH]; cbn [length transpose map]; [reflexivity|]. f_equal.
  - unfold heads. rewrite flat_map_map. cbn. apply flat_map_singleton.
  - unfold tails. rewrite map_map. cbn [tl]. exact IH.
Qed.

Lemma transpose_one_column {A} (l : list A) : transpose (length l) [l] = map (fun a => [a]) l.
Proof. induction l as [|a l IH]; [reflexivity|]. cbn. f_equal. exact IH. Qed.

Lemma names_eqb_refl l : names_eqb l l = true.
Proof. induction l as [|a l IH]; [reflexivity|]. cbn. rewrite name_eqb_refl. exact IH. Qed.

Lemma name_sorted_NoDup l : Sorted name_lt l -> NoDup l.
Proof. apply sorted_NoDup; [apply name_ltb_irrefl|apply name_ltb_trans]. Qed.

(* ---------------------------------------------------------------------------------------------- *)
(* _make_column_names, the nestedness predicates *)

Lemma bridge_make_column_names c : gen_make_column_names c = default_names c.
Proof.
  unfold gen_make_column_names, default_names, py_range, fstr, default_name.
  rewrite <- (map_of_nat_seq 0 c), map_map. reflexivity.
Qed.

Section Bridge.
  Context {V : Type}.
  Implicit Types (X p : panel V) (x : nested V) (m : mi V) (L : long V) (t : tab2 V).

  Lemma bridge_cell_is_series_or_array (c : cell V) :
    gen_cell_is_series_or_array c = cell_nested c.
  Proof. destruct c; reflexivity. Qed.

  Lemma bridge_are_columns_nested (f : frame V) :
    gen_are_columns_nested f = are_columns_nested f.
  Proof.
    unfold gen_are_columns_nested, gen_nested_cell_mask, bf_any, frame_applymap, are_columns_nested.
    cbn [fst snd]. do 2 f_equal. apply map_ext. intro row. apply map_ext.
    apply bridge_cell_is_series_or_array.
  Qed.

  Lemma bridge_is_nested_dataframe (f : frame V) :
    gen_is_nested_dataframe f = is_nested_dataframe f.
  Proof.
    unfold gen_is_nested_dataframe, is_nested_dataframe, bools_any. cbn [negb andb].
    rewrite bridge_are_columns_nested. reflexivity.
  Qed.

  Lemma bridge_convert_series_cell_to_numpy (c : @ncell V) :
    gen_convert_series_cell_to_numpy c = (KArray, snd c).
  Proof. destruct c as [[|] l]; reflexivity. Qed.

  (* -------------------------------------------------------------------------------------------- *)
  (* 3-D array -> 2-D table *)

  Lemma bridge_from_3d_numpy_to_2d_array n c T X :
    wf_panel n c T X -> gen_from_3d_numpy_to_2d_array X = a3_to_2d X.
  Proof.
    intro Hwf. unfold gen_from_3d_numpy_to_2d_array, np_reshape_rows, np_shape3, np_ravel3, a3_to_2d.
    cbn [fst]. rewrite concat_concat_map.
    pose proof (tab_shape n c T X Hwf) as [Hl HF].
    rewrite (length_concat_rect n (c * T) _ (conj Hl HF)), (wf_len n c T X Hwf).
    assert (Hn : n <> O) by (destruct Hwf; lia).
    rewrite Nat.mul_comm, Nat.div_mul by exact Hn.
    rewrite <- Hl at 1. apply chunk_n_concat. exact HF.
  Qed.

  (* -------------------------------------------------------------------------------------------- *)
  (* columns appended one by one *)

  Lemma fold_setcol {I} (F : @dfb V -> I * name -> @dfb V) (f : I -> list (@ncell V))
        (l : list (I * name)) (acc : @dfb V) :
    (forall df j c, F df (j, c) = df_setcol df c (f j)) ->
    NoDup (map fst acc ++ map snd l) ->
    fold_left F l acc = acc ++ map (fun jc => (snd jc, f (fst jc))) l.
  Proof.
    intro HF. revert acc. induction l as [|[j c] l IH]; intros acc Hnd; cbn [fold_left map].
    - rewrite app_nil_r. reflexivity.
    - assert (Hnew : existsb (fun col : name * list ncell => name_eqb (fst col) c) acc = false).
      { destruct (existsb _ acc) eqn:E; [|reflexivity]. exfalso.
        apply existsb_exists in E. destruct E as [col [Hin Heq]]. apply name_eqb_eq in Heq.
        cbn [map snd] in Hnd. apply NoDup_remove_2 in Hnd. apply Hnd. apply in_or_app. left.
        apply in_map_iff. exists col. split; assumption. }
      rewrite HF. unfold df_setcol. rewrite Hnew. rewrite IH.
      + rewrite <- app_assoc. reflexivity.
      + rewrite map_app, <- app_assoc. exact Hnd.
  Qed.

  (* X[i, j, :] over all positions is X *)
  Lemma get3_table X n c :
    length X = n -> (forall inst, In inst X -> length inst = c) ->
    map (fun i => map (fun j => np_get3 X i j) (seq 0 c)) (seq 0 n) = X.
  Proof.
    revert n. induction X as [|a X IH]; intros n Hl Hc; cbn in Hl; subst n; [reflexivity|].
    cbn [seq map]. f_equal.
    - unfold np_get3. cbn [at_ nth_error opt_list flat_map]. rewrite <- (Hc a (or_introl eq_refl)).
      rewrite <- (at_table a) at 2. apply map_ext. intro j. rewrite app_nil_r. reflexivity.
    - rewrite <- seq_shift, map_map. apply IH; [reflexivity|].
      intros inst Hi. apply Hc. right. exact Hi.
  Qed.

  (* -------------------------------------------------------------------------------------------- *)
  (* 3-D array -> nested *)

  Lemma bridge_from_3d_numpy_to_nested n c T X cn b :
    wf_panel n c T X -> names_ok c cn ->
    gen_from_3d_numpy_to_nested X cn b = Ok (a3_to_nested cn (kind_of b) X).
  Proof.
    intros Hwf Hn. rewrite (a3_to_nested_eq n c T X Hwf).
    unfold gen_from_3d_numpy_to_nested, np_shape3.
    rewrite (wf_len n c T X Hwf), (wf_shape_cols n c T X Hwf), (wf_shape_time n c T X Hwf).
    assert (Hnames : match cn with
                     | None => Ok (gen_make_column_names c)
                     | Some l => if negb (Nat.eqb (length l) c) then Err else Ok l
                     end = Ok (names_or_default cn c)).
    { destruct cn as [l|]; cbn [names_or_default].
      - destruct Hn as [Hl _]. rewrite Hl, Nat.eqb_refl. reflexivity.
      - rewrite bridge_make_column_names. reflexivity. }
    rewrite Hnames. cbn [rbind]. set (nms := names_or_default cn c).
    assert (Hlen : length nms = c) by (apply names_or_default_length; exact Hn).
    assert (Hnd : NoDup nms).
    { subst nms. destruct cn as [l|]; cbn; [apply Hn|].
      unfold default_names. generalize 0. induction c as [|c' IH]; intro s; cbn; constructor.
      - intro H. apply in_map_iff in H. destruct H as [j [Hj Hin]]. apply ziota_In in Hin.
        unfold default_name in Hj. inversion Hj as [Hd].
        assert (j = s).
        { rewrite <- (DecimalZ.of_to j), <- (DecimalZ.of_to s). unfold digit_codes in Hd.
          destruct (Z.to_int j) as [u|u], (Z.to_int s) as [u'|u']; cbn in Hd.
          - f_equal. f_equal. revert u' Hd. induction u; destruct u'; cbn; intro Hd;
              try discriminate; try reflexivity; f_equal; apply IHu; congruence.
          - exfalso. destruct u; cbn in Hd; congruence.
          - exfalso. destruct u'; cbn in Hd; congruence.
          - inversion Hd as [Hd']. f_equal. f_equal. revert u' Hd'.
            induction u; destruct u'; cbn; intro Hd'; try discriminate; try reflexivity;
              f_equal; apply IHu; congruence. }
        lia.
      - apply IH. }
    set (col := fun j => map (fun i => mk_cell (kind_of b) (np_get3 X i j)) (py_range n)).
    rewrite (fold_setcol _ col (py_enumerate nms) pd_DataFrame_empty).
    2:{ intros df j cl. destruct b; reflexivity. }
    2:{ cbn. unfold py_enumerate. rewrite map_snd_combine by apply seq_length. exact Hnd. }
    cbn [pd_DataFrame_empty app]. f_equal. unfold df_finish, dfb_columns.
    assert (Hn1 : (1 <= n)%nat) by (destruct Hwf; lia).
    assert (Hc1 : (1 <= c)%nat) by (destruct Hwf as [_ [? _]]; lia).
    assert (Hfst : map fst (py_enumerate nms) = seq 0 c)
      by (unfold py_enumerate; rewrite map_fst_combine by apply seq_length; rewrite Hlen;
          reflexivity).
    assert (Hsnd : map snd (py_enumerate nms) = nms)
      by (unfold py_enumerate; apply map_snd_combine; apply seq_length).
    f_equal.
    - (* cell kind *)
      destruct nms as [|nm nms']; [cbn in Hlen; lia|]. unfold py_enumerate. cbn.
      unfold col, py_range. destruct n; [lia|]. reflexivity.
    - rewrite map_map. cbn [fst]. exact Hsnd.
    - (* rows *)
      assert (Hrows : dfb_nrows (map (fun jc : nat * name => (snd jc, col (fst jc)))
                                     (py_enumerate nms)) = length (seq 0 n)).
      { destruct nms as [|nm nms']; [cbn in Hlen; lia|]. unfold py_enumerate. cbn.
        unfold col, py_range. rewrite map_length. reflexivity. }
      rewrite Hrows, map_map. cbn [snd fst].
      rewrite (map_ext (fun jc : nat * name => map snd (col (fst jc)))
                       (fun jc => (fun j => map (fun i => np_get3 X i j) (seq 0 n)) (fst jc))).
      2:{ intro jc. unfold col, py_range. rewrite map_map. reflexivity. }
      rewrite <- (map_map fst (fun j => map (fun i => np_get3 X i j) (seq 0 n))), Hfst.
      rewrite (transpose_map_map (fun i j => np_get3 X i j)).
      apply get3_table; [apply (wf_len n c T X Hwf)|].
      intros inst Hi. apply (wf_inst n c T X Hwf inst Hi).
  Qed.
End Bridge.
