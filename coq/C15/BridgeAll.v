(* C15 Bridge, summary: on the well-formed containers of the property every conversion function
   regenerated from sktime/utils/data_processing.py (Gen.v) returns what the model of Model.v
   returns, so the property theorems (Props.v), which are about the model, are about the code
   as the translator reads it. *)
From Coq Require Import ZArith List Bool Lia.
Require Import SkV.Lib.Base SkV.C15.Model SkV.C15.Lemmas SkV.C15.Proofs SkV.C15.Long SkV.C15.Paths
  SkV.C15.Main SkV.C15.Prims SkV.C15.Gen SkV.C15.Bridge SkV.C15.BridgeMI.
Import ListNotations.
Open Scope Z_scope.

Lemma generated_is_model {V} n c T (x : nested V) cn cn' b lv1 lv2 (L : long V) (t : tab2 V) :
  wf_nested n c T x -> names_ok c cn -> L <> [] -> t <> [] ->
  gen_from_nested_to_3d_numpy x = Ok (nested_to_3d x) /\
  gen_from_3d_numpy_to_nested (n_rows x) cn b = Ok (a3_to_nested cn (kind_of b) (n_rows x)) /\
  gen_from_3d_numpy_to_multi_index (n_rows x) cn = Ok (a3_to_mi cn (n_rows x)) /\
  gen_from_multi_index_to_3d_numpy (nested_to_mi x) (Some 0%nat) (Some 1%nat) =
    Ok (mi_to_3d (nested_to_mi x)) /\
  gen_from_nested_to_multi_index x lv1 lv2 = Ok (nested_to_mi x) /\
  gen_from_multi_index_to_nested (nested_to_mi x) (Some 0%nat) b =
    Ok (mi_to_nested (kind_of b) (nested_to_mi x)) /\
  gen_from_nested_to_long x = Ok (nested_to_long x) /\
  gen_from_long_to_nested L cn' = Ok (long_to_nested cn' L) /\
  gen_from_nested_to_2d_array x b = Ok (nested_to_2d x) /\
  gen_from_3d_numpy_to_2d_array (n_rows x) = a3_to_2d (n_rows x) /\
  gen_from_2d_array_to_nested t b = Ok (tab_to_nested (kind_of b) t) /\
  (forall f : frame V, gen_is_nested_dataframe f = is_nested_dataframe f /\
                       gen_are_columns_nested f = are_columns_nested f) /\
  (forall k, map (fun i => fstr [118; 97; 114; 95] i) (py_range k) = default_names k).
Proof.
  intros [Hwf [Hc Hnd]] Hn HL Ht.
  assert (Hx : wf_nested_ n c T x) by (split; assumption).
  assert (Hmi : nested_to_mi x = mkM (n_cols x) (mi_rows T (n_rows x))).
  { destruct x as [k cols rows]. apply (nested_to_mi_eq n c T rows Hwf). }
  split; [apply (bridge_from_nested_to_3d_numpy n c T x Hx)|].
  split; [apply (bridge_from_3d_numpy_to_nested n c T _ cn b Hwf Hn)|].
  split; [apply (bridge_from_3d_numpy_to_multi_index n c T _ Hwf cn Hn)|].
  split; [rewrite Hmi; apply (bridge_from_multi_index_to_3d_numpy n c T _ _ Hwf Hc)|].
  split; [apply (bridge_from_nested_to_multi_index n c T x lv1 lv2 Hx)|].
  split.
  { apply bridge_from_multi_index_to_nested; rewrite Hmi; cbn [m_cols m_rows].
    - exact Hnd.
    - intro H. rewrite H in Hc. cbn in Hc. destruct Hwf as [_ [? _]]. lia.
    - apply (mi_rows_nonempty n c T _ (n_cols x) Hwf Hc). }
  split; [apply (bridge_from_nested_to_long n c T x Hx)|].
  split; [apply (bridge_from_long_to_nested L cn' HL)|].
  split; [apply (bridge_from_nested_to_2d_array n c T x b Hx)|].
  split; [apply (bridge_from_3d_numpy_to_2d_array n c T _ Hwf)|].
  split; [apply (bridge_from_2d_array_to_nested t b Ht)|].
  split; [|apply bridge_make_column_names].
  intro f. split; [apply bridge_is_nested_dataframe|apply bridge_are_columns_nested].
Qed.
