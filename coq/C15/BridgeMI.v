(* C15 Bridge, part 2: from_3d_numpy_to_multi_index.  The generated function builds the product index
   (instances x columns x timepoints), pairs it with X.flatten() and unstacks the "columns" level;
   the model lists, per instance, the (time x variable) block.  The two agree for every well-formed
   panel: the indexed series, read as a long table, is a rearrangement of the row-major melt of the
   model's frame, and a pivot does not depend on the order of its rows. *)
From Coq Require Import ZArith List Bool Lia Sorted Permutation.
Require Import SkV.Lib.Base SkV.C15.Model SkV.C15.Lemmas SkV.C15.Proofs SkV.C15.Long SkV.C15.Paths
  SkV.C15.Prims SkV.C15.Gen SkV.C15.Bridge.
Import ListNotations.
Open Scope Z_scope.

(* ---------------------------------------------------------------------------------------------- *)
(* list facts *)

Lemma combine_app_eq {A B} (l1 l2 : list A) (m1 m2 : list B) :
  length l1 = length m1 -> combine (l1 ++ l2) (m1 ++ m2) = combine l1 m1 ++ combine l2 m2.
Proof.
  revert m1. induction l1 as [|a l1 IH]; intros [|b m1] H; cbn in *; try discriminate; [reflexivity|].
  f_equal. apply IH. lia.
Qed.

Lemma flat_map_assoc {A B C} (f : B -> list C) (g : A -> list B) l :
  flat_map f (flat_map g l) = flat_map (fun x => flat_map f (g x)) l.
Proof.
  induction l as [|a l IH]; [reflexivity|]. cbn [flat_map]. rewrite flat_map_app, IH. reflexivity.
Qed.

Lemma perm_flat_map_ext {A B} (f g : A -> list B) l :
  (forall x, In x l -> Permutation (f x) (g x)) -> Permutation (flat_map f l) (flat_map g l).
Proof.
  induction l as [|a l IH]; intro H; cbn [flat_map]; [constructor|].
  apply Permutation_app; [apply H; left; reflexivity|]. apply IH. intros x Hx. apply H. right. exact Hx.
Qed.

(* positions counted in nat and in Z *)
Lemma combine_seq_ziota {A} s (l : list A) :
  combine (seq s (length l)) l =
  map (fun q => (Z.to_nat (fst q), snd q)) (enum_from (Z.of_nat s) l).
Proof.
  revert s. induction l as [|a l IH]; intro s; [reflexivity|].
  cbn [length seq combine]. rewrite enum_from_cons. cbn [map fst snd]. f_equal.
  - f_equal. lia.
  - rewrite IH. f_equal. f_equal. lia.
Qed.

(* ---------------------------------------------------------------------------------------------- *)
(* a matrix tagged with its positions, and its transpose *)

Section Tagged.
  Context {V B : Type} (tag : Z -> Z -> V -> B).

  (* rows numbered from s, entries of a row from 0 *)
  Definition rowtag (s : Z) (M : list (list V)) : list (list B) :=
    map (fun ar => map (fun bv => tag (fst ar) (fst bv) (snd bv)) (enum (snd ar))) (enum_from s M).
  (* columns numbered from sb, entries of a column (one per row) from s *)
  Definition coltag (sb s : Z) (C : list (list V)) : list (list B) :=
    map (fun bc => map (fun av => tag (fst av) (fst bc) (snd av)) (enum_from s (snd bc)))
        (enum_from sb C).

  Lemma coltag_zipcons sb s (r : list V) C :
    length r = length C ->
    coltag sb s (zipcons r C) =
    zipcons (map (fun bv => tag s (fst bv) (snd bv)) (enum_from sb r)) (coltag sb (s + 1) C).
  Proof.
    revert sb C. induction r as [|v r IH]; intros sb [|col C] H; cbn in H; try discriminate;
      [reflexivity|].
    unfold coltag in *. cbn [zipcons]. rewrite !enum_from_cons. cbn [map fst snd zipcons].
    rewrite enum_from_cons. cbn [map fst snd]. f_equal. apply IH. lia.
  Qed.

  Lemma coltag_nil sb s w : coltag sb s (repeat [] w) = repeat [] w.
  Proof.
    revert sb. induction w as [|w IH]; intro sb; [reflexivity|]. unfold coltag in *.
    cbn [repeat]. rewrite enum_from_cons. cbn [map snd]. f_equal. apply IH.
  Qed.

  Lemma transpose_rowtag h w s (M : list (list V)) :
    rect h w M -> transpose w (rowtag s M) = coltag 0 s (transpose w M).
  Proof.
    revert h s. induction M as [|r M IH]; intros h s Hr.
    - unfold rowtag. cbn. rewrite !transpose_nil, coltag_nil. reflexivity.
    - destruct h as [|h]; [destruct Hr as [Hl _]; discriminate|].
      apply rect_cons_inv in Hr. destruct Hr as [Hlen Hr].
      unfold rowtag. rewrite enum_from_cons. cbn [map fst snd]. fold (rowtag (s + 1) M).
      rewrite transpose_cons by (rewrite map_length; unfold enum; rewrite combine_length, ziota_length; lia).
      rewrite (IH h (s + 1) Hr), (transpose_cons w r M Hlen).
      rewrite coltag_zipcons by (rewrite transpose_length; exact Hlen).
      rewrite enum_enum_from. reflexivity.
  Qed.

  Lemma rowtag_rect h w s (M : list (list V)) : rect h w M -> rect h w (rowtag s M).
  Proof.
    intros [Hl HF]. unfold rowtag. split.
    - rewrite map_length, enum_from_length. exact Hl.
    - apply Forall_forall. intros x Hx. apply in_map_iff in Hx. destruct Hx as [[a row] [<- Hin]].
      cbn [snd]. rewrite map_length. unfold enum. rewrite combine_length, ziota_length.
      apply enum_from_In_ge in Hin. destruct Hin as [_ Hin]. rewrite Forall_forall in HF.
      rewrite (HF row Hin). lia.
  Qed.

  (* row by row or column by column: the same tagged entries *)
  Lemma tagged_transpose_perm h w s (M : list (list V)) :
    rect h w M -> Permutation (concat (coltag 0 s (transpose w M))) (concat (rowtag s M)).
  Proof.
    intro Hr. rewrite <- (transpose_rowtag h w s M Hr).
    apply (concat_transpose_perm h w). apply rowtag_rect. exact Hr.
  Qed.
End Tagged.

(* ---------------------------------------------------------------------------------------------- *)

Section ThreeD.
  Context {V : Type}.
  Variables (n c T : nat) (X : panel V).
  Hypothesis Hwf : wf_panel n c T X.

  Definition int_names : list name := map NInt (ziota 0 c).

  Lemma int_names_length : length int_names = c.
  Proof. unfold int_names. rewrite map_length. apply ziota_length. Qed.

  Lemma int_names_sorted_from s k : Sorted name_lt (map NInt (ziota s k)).
  Proof.
    revert s. induction k as [|k IH]; intro s; cbn [ziota map]; [constructor|].
    constructor; [apply IH|]. destruct k; cbn [ziota map]; constructor.
    unfold name_lt, klt. cbn. apply Z.ltb_lt. lia.
  Qed.

  Lemma int_names_NoDup : NoDup int_names.
  Proof. apply name_sorted_NoDup. apply int_names_sorted_from. Qed.

  (* the indexed series as a long table *)
  Definition as_long (kv : (nat * nat * nat) * V) : lrow V :=
    let '((a, b, c0), v) := kv in (Z.of_nat a, NInt (Z.of_nat b), Z.of_nat c0, v).

  Definition tagv (i : Z) (j t : Z) (v : V) : lrow V := (i, NInt j, t, v).

  (* one series, one instance, the panel: index paired with values *)
  Lemma series_block i j (ser : list V) :
    map as_long (combine (map (fun t => (i, j, t)) (seq 0 (length ser))) ser) =
    map (fun tv => tagv (Z.of_nat i) (Z.of_nat j) (fst tv) (snd tv)) (enum ser).
  Proof.
    rewrite combine_map_l, map_map, combine_seq_ziota, map_map, enum_enum_from. cbn [Z.of_nat].
    apply map_ext_in. intros [t v] Hin. apply enum_from_In_ge in Hin. cbn [fst snd as_long tagv].
    rewrite Z2Nat.id by lia. reflexivity.
  Qed.

  Lemma instance_block i (inst : list (list V)) sj :
    (forall ser, In ser inst -> length ser = T) ->
    map as_long (combine (flat_map (fun j => map (fun t => (i, j, t)) (seq 0 T))
                                   (seq sj (length inst)))
                         (concat inst)) =
    concat (rowtag (tagv (Z.of_nat i)) (Z.of_nat sj) inst).
  Proof.
    revert sj. induction inst as [|ser inst IH]; intros sj HT; [reflexivity|].
    cbn [length seq flat_map concat]. unfold rowtag. rewrite enum_from_cons. cbn [map concat fst snd].
    fold (rowtag (tagv (Z.of_nat i)) (Z.of_nat sj + 1) inst).
    assert (Hs : length ser = T) by (apply HT; left; reflexivity).
    rewrite combine_app_eq by (rewrite map_length, seq_length; lia).
    rewrite map_app. f_equal.
    - rewrite <- Hs. apply series_block.
    - rewrite IH by (intros s0 Hs0; apply HT; right; exact Hs0).
      do 2 f_equal. lia.
  Qed.

  Lemma product_block_length (i k s0 : nat) :
    length (flat_map (fun j => map (fun t => (i, j, t)) (seq 0 T)) (seq s0 k)) = (k * T)%nat.
  Proof.
    revert s0. induction k as [|k IHk]; intro s0; [reflexivity|].
    cbn [seq flat_map]. rewrite app_length, map_length, seq_length, IHk. lia.
  Qed.

  Lemma panel_blocks (Y : panel V) si :
    (forall inst, In inst Y -> rect c T inst) ->
    map as_long (combine (mi_from_product3 (seq si (length Y)) (seq 0 c) (seq 0 T))
                         (concat (concat Y))) =
    flat_map (fun ii => concat (rowtag (tagv (fst ii)) 0 (snd ii))) (enum_from (Z.of_nat si) Y).
  Proof.
    revert si. induction Y as [|inst Y IH]; intros si HY; [reflexivity|].
    cbn [length seq concat]. unfold mi_from_product3. cbn [flat_map].
    fold (mi_from_product3 (seq (S si) (length Y)) (seq 0 c) (seq 0 T)).
    rewrite enum_from_cons. cbn [flat_map fst snd].
    destruct (HY inst (or_introl eq_refl)) as [Hl HF]. rewrite Forall_forall in HF.
    rewrite concat_app, combine_app_eq, map_app.
    - f_equal.
      + rewrite <- Hl. apply (instance_block si inst 0). exact HF.
      + rewrite IH by (intros i0 Hi0; apply HY; right; exact Hi0). do 2 f_equal. lia.
    - rewrite (length_concat_rect c T inst (conj Hl (proj2 (Forall_forall _ _) HF))).
      apply product_block_length.
  Qed.

  (* the model's frame, melted row by row, instance by instance *)
  Lemma melt_rowmajor_blocks :
    melt_rowmajor int_names (mi_rows T X) =
    flat_map (fun ii => concat (coltag (tagv (fst ii)) 0 0 (transpose T (snd ii)))) (enum_from 0 X).
  Proof.
    unfold melt_rowmajor, mi_rows. rewrite flat_map_assoc, enum_enum_from.
    apply flat_map_ext_in. intros [i inst] Hin. cbn [fst snd].
    apply enum_from_In_ge in Hin. destruct Hin as [_ Hin].
    pose proof (wf_inst n c T X Hwf inst Hin) as Hr.
    destruct (transpose_rect c T inst Hr) as [_ HF]. rewrite Forall_forall in HF.
    unfold block_rows. cbn [fst snd]. rewrite flat_map_map, flat_map_concat_map. f_equal.
    unfold coltag. rewrite enum_enum_from. apply map_ext_in. intros [t row] Ht.
    apply enum_from_In_ge in Ht. destruct Ht as [_ Ht]. unfold tag_row. cbn [fst snd r_inst r_time].
    unfold int_names. rewrite combine_map_l, map_map. cbn [fst snd]. unfold tagv.
    rewrite <- (HF row Ht). reflexivity.
  Qed.

  Lemma series_is_melt :
    Permutation (melt_rowmajor int_names (mi_rows T X))
                (map as_long (combine (mi_from_product3 (seq 0 n) (seq 0 c) (seq 0 T))
                                      (concat (concat X)))).
  Proof.
    rewrite melt_rowmajor_blocks, <- (wf_len n c T X Hwf), (panel_blocks X 0 (wf_inst n c T X Hwf)).
    cbn [Z.of_nat]. apply perm_flat_map_ext. intros [i inst] Hin. cbn [fst snd].
    apply enum_from_In_ge in Hin. destruct Hin as [_ Hin].
    apply (tagged_transpose_perm (tagv i) c T 0 inst). apply (wf_inst n c T X Hwf inst Hin).
  Qed.

  Lemma unstack_columns_level :
    unstack3 1 (mk_series3 (mi_from_product3 (seq 0 n) (seq 0 c) (seq 0 T)) (np_ravel3 X)) =
    mkM int_names (mi_rows T X).
  Proof.
    unfold unstack3, mk_series3, np_ravel3.
    rewrite (map_ext _ as_long) by (intros [[[a b] c0] v]; reflexivity).
    assert (Hc1 : (1 <= c)%nat) by (destruct Hwf as [_ [? _]]; lia).
    pose proof (mi_rows_width n c T X Hwf) as Hw.
    pose proof (mi_rows_keys_sorted T X) as Hk.
    pose proof (mi_rows_nonempty n c T X int_names Hwf int_names_length) as Hne.
    rewrite <- (long_pivot_perm _ _
                  (melt_rowmajor_uniq int_names (mi_rows T X) c int_names_NoDup int_names_length
                     Hc1 Hk)
                  series_is_melt).
    rewrite (pivot_melt_rowmajor int_names (mi_rows T X) c int_names_length Hc1 Hne Hw Hk).
    rewrite (sort_names_of_sorted int_names (int_names_sorted_from 0 c)). f_equal.
    unfold reorder_rows. rewrite <- (map_id (mi_rows T X)) at 2. apply map_ext_in. intros r Hr.
    rewrite select_self; [destruct r; reflexivity|exact int_names_NoDup|].
    rewrite int_names_length, (Hw r Hr). reflexivity.
  Qed.

  Lemma bridge_from_3d_numpy_to_multi_index cn :
    names_ok c cn -> gen_from_3d_numpy_to_multi_index X cn = Ok (a3_to_mi cn X).
  Proof.
    intro Hn. rewrite (a3_to_mi_eq n c T X Hwf). unfold gen_from_3d_numpy_to_multi_index, np_shape3.
    rewrite (wf_len n c T X Hwf), (wf_shape_cols n c T X Hwf), (wf_shape_time n c T X Hwf).
    unfold py_range. rewrite unstack_columns_level. f_equal.
    destruct cn as [l|]; cbn [names_or_default mi_set_columns m_rows]; [reflexivity|].
    rewrite ?bridge_make_column_names. reflexivity.
  Qed.
End ThreeD.
