(* C15 correspondence: each case embeds the start container, the conversion path and the
   canonicalised container the real functions produced; `mism` lists the indices on which the
   model's exact prediction differs.  Values are integers (twice the float the code saw). *)
From Coq Require Import ZArith List Bool.
Require Import SkV.Lib.Base SkV.C15.Model.
Import ListNotations.
Open Scope Z_scope.

Fixpoint list_eqb {A} (eqb : A -> A -> bool) (a b : list A) : bool :=
  match a, b with
  | [], [] => true
  | x :: a', y :: b' => eqb x y && list_eqb eqb a' b'
  | _, _ => false
  end.

Definition kind_eqb (a b : cellkind) : bool :=
  match a, b with KSeries, KSeries | KArray, KArray => true | _, _ => false end.

Definition panel_eqb : panel Z -> panel Z -> bool := list_eqb (list_eqb (list_eqb Z.eqb)).

Definition nested_eqb (a b : nested Z) : bool :=
  kind_eqb (n_kind a) (n_kind b) && list_eqb name_eqb (n_cols a) (n_cols b) &&
  panel_eqb (n_rows a) (n_rows b).

Definition mirow_eqb (a b : (Z * Z) * list Z) : bool :=
  key_eqb (fst a) (fst b) && list_eqb Z.eqb (snd a) (snd b).

Definition mi_eqb (a b : mi Z) : bool :=
  list_eqb name_eqb (m_cols a) (m_cols b) && list_eqb mirow_eqb (m_rows a) (m_rows b).

Definition lrow_eqb (a b : lrow Z) : bool :=
  let '(i, d, t, v) := a in let '(i', d', t', v') := b in
  (i =? i') && name_eqb d d' && (t =? t') && (v =? v').

Definition rep_eqb (a b : rep Z) : bool :=
  match a, b with
  | RN x, RN y => nested_eqb x y
  | RA x, RA y => panel_eqb x y
  | RM x, RM y => mi_eqb x y
  | RL x, RL y => list_eqb lrow_eqb x y
  | RT x, RT y => list_eqb (list_eqb Z.eqb) x y
  | RNI i x, RNI j y => list_eqb Z.eqb i j && nested_eqb x y
  | RNI i x, RN y | RN y, RNI i x =>      (* RN = the default labels 0..n-1 *)
      list_eqb Z.eqb i (ziota 0 (length (n_rows y))) && nested_eqb x y
  | _, _ => false
  end.

Inductive case :=
  (* start container, path, what the code returned (None: it raised ValueError) *)
  | CPath (start : rep Z) (es : list edge) (out : option (rep Z))
  (* an arbitrary frame, is_nested_dataframe(X), are_columns_nested(X) *)
  | CPred (f : frame Z) (is_n : bool) (cols : list bool).

Definition check (c : case) : bool :=
  match c with
  | CPath start es out =>
      match run_path es start, out with
      | Ok r, Some r' => rep_eqb r r'
      | Err, None => true
      | _, _ => false
      end
  | CPred f b cols =>
      Bool.eqb (is_nested_dataframe f) b && list_eqb Bool.eqb (are_columns_nested f) cols
  end.

Fixpoint mism (cs : list (Z * case)) : list Z :=
  match cs with
  | [] => []
  | (i, c) :: t => if check c then mism t else i :: mism t
  end.
