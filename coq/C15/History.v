(* C15, HISTORICAL (repaired defect F-C15-2, not an open finding): sktime 0.6.0's from_long_to_nested
   ended with
       if column_names is None: X_nested.columns = _make_column_names(n_columns)
   i.e. it threw the dimension identifiers of the long table away.  `long_to_nested_060` is that old
   expression; the lemmas show by computation that it violates what C15_names_stay_with_their_data
   now proves of the repaired function.  Kept only to document what the check would catch if the
   overwrite came back (the correspondence run and the oracle report it on the real code). *)
From Coq Require Import ZArith List Bool.
Require Import SkV.Lib.Base SkV.C15.Model SkV.C15.Long.
Import ListNotations.
Open Scope Z_scope.

Definition long_to_nested_060 {V} (cn : option (list name)) (L : long V) : nested V :=
  let x := mi_to_nested KSeries (long_pivot L) in
  mkN (n_kind x) (names_or_default cn (length (n_cols x))) (n_rows x).

(* a one-column panel named "a" came back named "var_0" *)
Lemma old_overwrite_loses_names :
  exists x : nested Z,
    wf_nestedb 1 1 2 x = true /\
    n_cols (long_to_nested_060 None (nested_to_long x)) <> sort_names (n_cols x) /\
    n_cols (long_to_nested None (nested_to_long x)) = sort_names (n_cols x).
Proof.
  exists (mkN KSeries [NStr [97]] [[[1; 2]]]). split; [reflexivity|]. vm_compute.
  split; [discriminate|reflexivity].
Qed.

(* eleven default-named columns: the identifiers sort as var_0, var_1, var_10, var_2, ... so the
   values of var_10 came back under the name var_2; the repaired function returns them under var_10 *)
Lemma old_overwrite_mislabels_default_names :
  exists x : nested Z,
    wf_nestedb 1 11 2 x = true /\ n_cols x = default_names 11 /\
    pick (default_name 2) (n_cols (long_to_nested_060 None (nested_to_long x)))
         (hd [] (n_rows (long_to_nested_060 None (nested_to_long x)))) =
      pick (default_name 10) (n_cols x) (hd [] (n_rows x)) /\
    pick (default_name 2) (n_cols (long_to_nested None (nested_to_long x)))
         (hd [] (n_rows (long_to_nested None (nested_to_long x)))) =
      pick (default_name 2) (n_cols x) (hd [] (n_rows x)).
Proof.
  exists (mkN KSeries (default_names 11)
            [map (fun j => [10 * j; 10 * j + 1]) [0; 1; 2; 3; 4; 5; 6; 7; 8; 9; 10]]).
  vm_compute. repeat split.
Qed.
