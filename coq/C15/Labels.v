(* C15, instance labels.  A nested frame may carry arbitrary distinct row labels (RNI idx x) - a
   shuffled or split panel, string ids, ...  nested -> multi-index puts them on the instance level,
   nested -> long into the case ids; every conversion back takes the instances in their order of
   appearance (multi-index -> nested / 3-D) or in the order of their sorted ids (long -> nested:
   the pivot).  Proved here, for ALL distinct labels: the positional order of the instances survives
   the multi-index frame; it survives the long table when the labels are increasing (and only then:
   Refuted.v, open finding F-C15-4). *)
From Coq Require Import ZArith List Bool Lia Permutation Sorted.
Require Import SkV.Lib.Base SkV.C15.Model SkV.C15.Lemmas SkV.C15.Proofs SkV.C15.Long SkV.C15.Paths
  SkV.C15.Main.
Import ListNotations.
Open Scope Z_scope.

(* blocks of rows labelled by arbitrary distinct keys: selecting one block by its label *)
Section LBlocks.
  Context {A B : Type} (key : B -> Z) (blk : Z * A -> list B).
  Hypothesis blk_key : forall i a b, In b (blk (i, a)) -> key b = i.

  Lemma filter_lblock (l : list (Z * A)) i a :
    NoDup (map fst l) -> In (i, a) l ->
    filter (fun b => key b =? i) (flat_map blk l) = blk (i, a).
  Proof.
    induction l as [|[j x] l IH]; intros Hnd Hin; [destruct Hin|].
    cbn [map fst] in Hnd. inversion Hnd as [|? ? Hnj Hnd']; subst.
    cbn [flat_map]. rewrite filter_app. destruct Hin as [Hin|Hin].
    - inversion Hin; subst. rewrite filter_all.
      + rewrite filter_none; [apply app_nil_r|].
        intros b Hb. apply in_flat_map in Hb. destruct Hb as [[j' x'] [Hj' Hb]].
        rewrite (blk_key j' x' b Hb). apply Z.eqb_neq. intro E. subst j'. apply Hnj.
        apply in_map_iff. exists (i, x'). split; [reflexivity|exact Hj'].
      + intros b Hb. apply Z.eqb_eq. eapply blk_key. exact Hb.
    - rewrite filter_none.
      + cbn [app]. apply IH; assumption.
      + intros b Hb. rewrite (blk_key j x b Hb). apply Z.eqb_neq. intro E. subst j. apply Hnj.
        apply in_map_iff. exists (i, a). split; [reflexivity|exact Hin].
  Qed.

  Lemma map_filter_lblocks {C} (G : list B -> C) (l : list (Z * A)) :
    NoDup (map fst l) ->
    map (fun id => G (filter (fun b => key b =? id) (flat_map blk l))) (map fst l) =
    map (fun ia => G (blk ia)) l.
  Proof.
    intro Hnd. rewrite map_map. apply map_ext_in. intros [i a] Hin. cbn [fst].
    rewrite (filter_lblock l i a Hnd Hin). reflexivity.
  Qed.
End LBlocks.

Lemma SS_blocks_idx T idx :
  StronglySorted Z.lt idx ->
  StronglySorted key_lt (flat_map (fun i => map (pair i) (ziota 0 T)) idx).
Proof.
  induction 1 as [|i idx Hs IH Hall]; cbn [flat_map]; [constructor|].
  apply SS_app; [apply SS_block|exact IH|].
  intros x y Hx Hy. apply in_map_iff in Hx. destruct Hx as [t [<- _]].
  apply in_flat_map in Hy. destruct Hy as [i' [Hi' Hy]]. apply in_map_iff in Hy.
  destruct Hy as [t' [<- _]]. rewrite Forall_forall in Hall. apply key_lt_inst. apply Hall. exact Hi'.
Qed.

Lemma SS_lt_NoDup idx : StronglySorted Z.lt idx -> NoDup idx.
Proof.
  induction 1 as [|i idx Hs IH Hall]; constructor; [|exact IH].
  intro Hin. rewrite Forall_forall in Hall. specialize (Hall i Hin). lia.
Qed.

Section Labelled.
  Context {V : Type}.
  Variables (n c T : nat) (p : panel V) (idx : list Z).
  Hypothesis Hwf : wf_panel n c T p.
  Hypothesis Hnd : NoDup idx.
  Hypothesis Hlen : length idx = n.

  (* the rows of the multi-index frame of a panel whose instances are labelled idx *)
  Definition lrows : list ((Z * Z) * list V) := flat_map (block_rows T) (combine idx p).

  Lemma combine_fst : map fst (combine idx p) = idx.
  Proof. apply map_fst_combine. rewrite Hlen. symmetry. apply (wf_len n c T p Hwf). Qed.
  Lemma combine_snd : map snd (combine idx p) = p.
  Proof. apply map_snd_combine. rewrite Hlen. symmetry. apply (wf_len n c T p Hwf). Qed.

  Lemma nested_to_mi_idx_eq k cols : nested_to_mi_idx idx (mkN k cols p) = mkM cols lrows.
  Proof.
    unfold nested_to_mi_idx, lrows. cbn [n_cols n_rows]. f_equal.
    apply flat_map_ext_in. intros [i inst] Hin. cbn [snd]. apply in_combine_r in Hin.
    rewrite (wf_inst_time n c T p Hwf inst Hin). reflexivity.
  Qed.

  (* the instance level carries the labels, in the order of the instances *)
  Lemma lrows_insts : map r_inst lrows = flat_map (fun i => repeat i T) idx.
  Proof.
    unfold lrows. rewrite map_flat_map. rewrite <- combine_fst at 2. rewrite flat_map_map.
    apply flat_map_ext_in. intros [i inst] _. apply block_rows_inst.
  Qed.

  Lemma lrows_labels : uniqz (map r_inst lrows) = idx.
  Proof. rewrite lrows_insts. apply uniqz_blocks; [destruct Hwf; lia|exact Hnd]. Qed.

  Lemma lrows_times : map r_time lrows = concat (repeat (ziota 0 T) n).
  Proof.
    assert (Hgen : forall l : list (Z * list (list V)),
               map r_time (flat_map (block_rows T) l) = concat (repeat (ziota 0 T) (length l))).
    { induction l as [|[i inst] l IH]; [reflexivity|].
      cbn [flat_map length repeat concat]. rewrite map_app, block_rows_time, IH. reflexivity. }
    unfold lrows. rewrite Hgen, combine_length, Hlen, (wf_len n c T p Hwf), Nat.min_id. reflexivity.
  Qed.

  Lemma lrows_vals : map snd lrows = concat (map (transpose T) p).
  Proof.
    unfold lrows. rewrite map_flat_map, flat_map_concat_map. f_equal.
    rewrite <- combine_snd at 2. rewrite map_map. apply map_ext. intros [i inst]. apply block_rows_snd.
  Qed.

  Lemma mi_to_3d_lrows cols : length cols = c -> mi_to_3d (mkM cols lrows) = p.
  Proof.
    intro Hc. unfold mi_to_3d. cbn [m_rows m_cols].
    rewrite lrows_labels, lrows_times, Hlen.
    rewrite (uniqz_copies (ziota 0 T) n) by (try apply ziota_NoDup; destruct Hwf; lia).
    rewrite ziota_length, lrows_vals, Hc.
    rewrite <- (wf_len n c T p Hwf), <- (map_length (transpose T) p).
    rewrite chunk_n_concat.
    - rewrite map_map. rewrite <- (map_id p) at 2. apply map_ext_in. intros inst Hi.
      apply transpose_involutive. apply (wf_inst n c T p Hwf inst Hi).
    - apply Forall_forall. intros b Hb. apply in_map_iff in Hb. destruct Hb as [inst [<- _]].
      apply transpose_length.
  Qed.

  Lemma mi_to_nested_lrows k cols : length cols = c -> mi_to_nested k (mkM cols lrows) = mkN k cols p.
  Proof.
    intro Hc. unfold mi_to_nested. cbn [m_rows m_cols]. f_equal.
    rewrite lrows_labels. rewrite <- combine_fst at 1. unfold lrows.
    rewrite (map_filter_lblocks r_inst (block_rows T) (block_rows_key T)
               (fun l => transpose (length cols) (map snd l)) (combine idx p))
      by (rewrite combine_fst; exact Hnd).
    rewrite <- combine_snd at 2. apply map_ext_in. intros [i inst] Hin.
    rewrite block_rows_snd, Hc. cbn [snd]. apply transpose_involutive.
    apply in_combine_r in Hin. apply (wf_inst n c T p Hwf inst Hin).
  Qed.

  Lemma lrows_width r : In r lrows -> length (snd r) = c.
  Proof.
    intro H. assert (Hin : In (snd r) (map snd lrows)) by (apply in_map; exact H).
    rewrite lrows_vals in Hin. apply in_concat in Hin. destruct Hin as [blk [Hb Hr]].
    apply in_map_iff in Hb. destruct Hb as [inst [<- Hi]].
    destruct (transpose_rect c T inst (wf_inst n c T p Hwf inst Hi)) as [_ HF].
    rewrite Forall_forall in HF. apply HF. exact Hr.
  Qed.

  Lemma lrows_nonempty : lrows <> [].
  Proof.
    intro H. pose proof lrows_insts as Hi. rewrite H in Hi. cbn in Hi.
    destruct idx as [|i l]; [cbn in Hlen; destruct Hwf; lia|]. cbn in Hi.
    destruct T as [|T']; [destruct Hwf as [_ [_ [? _]]]; lia|]. discriminate.
  Qed.

  (* ... and through the long table when the labels are increasing *)
  Hypothesis Hsorted : StronglySorted Z.lt idx.

  Lemma lrows_keys_sorted : Sorted key_lt (map fst lrows).
  Proof.
    apply StronglySorted_Sorted. unfold lrows. rewrite map_flat_map.
    rewrite (flat_map_ext_in _ (fun ia => map (pair (fst ia)) (ziota 0 T)))
      by (intros [i inst] _; apply (block_rows_keys T)).
    rewrite <- (flat_map_map (fun i => map (pair i) (ziota 0 T)) fst), combine_fst.
    apply SS_blocks_idx. exact Hsorted.
  Qed.

  Lemma long_roundtrip_lrows nms cn :
    NoDup nms -> length nms = c ->
    long_to_nested cn (mi_melt (mkM nms lrows)) =
    mkN KSeries (names_or_sorted cn nms) (sort_vars nms p).
  Proof.
    intros Hn Hc. unfold long_to_nested.
    rewrite (pivot_melt nms lrows c Hn Hc ltac:(destruct Hwf; lia) lrows_nonempty lrows_width
               lrows_keys_sorted).
    set (s := sort_names nms).
    assert (Hrows : mi_to_nested KSeries (mkM s (reorder_rows nms lrows s)) =
                    mkN KSeries s (sort_vars nms p)).
    { unfold mi_to_nested, reorder_rows. cbn [m_rows m_cols]. f_equal.
      rewrite map_map.
      rewrite (map_ext (fun x => r_inst (fst x, select s nms (snd x))) r_inst) by reflexivity.
      rewrite lrows_labels.
      rewrite (map_ext_in _ (fun id => transpose (length s) (map (select s nms)
                 (map snd (filter (fun r => r_inst r =? id) lrows))))).
      2:{ intros id _. f_equal. rewrite filter_map_comm, !map_map. reflexivity. }
      rewrite <- combine_fst at 1. unfold lrows.
      rewrite (map_filter_lblocks r_inst (block_rows T) (block_rows_key T)
                 (fun l => transpose (length s) (map (select s nms) (map snd l))) (combine idx p))
        by (rewrite combine_fst; exact Hnd).
      unfold sort_vars. fold s. rewrite <- combine_snd at 2. rewrite map_map.
      apply map_ext_in. intros [i inst] Hin. cbn [snd]. rewrite block_rows_snd.
      apply in_combine_r in Hin.
      pose proof (wf_inst n c T p Hwf inst Hin) as Hr.
      destruct (transpose_rect c T inst Hr) as [_ HF].
      rewrite (select_transpose s nms c (transpose T inst) Hn Hc HF (fun d Hd => proj1 (sort_names_In nms d) Hd)).
      rewrite (transpose_involutive c T inst Hr). reflexivity. }
    rewrite Hrows. destruct cn; reflexivity.
  Qed.
End Labelled.

(* the statement Props.v uses *)
Lemma labels_keep_position {V} n c T (x : nested V) idx k :
  wf_nested n c T x -> NoDup idx -> length idx = n ->
  run_path [E_N_M; E_M_N k] (RNI idx x) = Ok (RN (mkN k (n_cols x) (n_rows x))) /\
  run_path [E_N_M; E_M_A] (RNI idx x) = Ok (RA (n_rows x)) /\
  run_path [E_N_A] (RNI idx x) = Ok (RA (n_rows x)) /\
  run_path [E_N_T] (RNI idx x) = Ok (RT (nested_to_2d x)) /\
  map r_inst (m_rows (nested_to_mi_idx idx x)) = flat_map (fun i => repeat i T) idx /\
  (StronglySorted Z.lt idx ->
   forall cn, run_path [E_N_L; E_L_N cn] (RNI idx x) = run_path [E_N_L; E_L_N cn] (RN x)).
Proof.
  intros Hx Hnd Hlen. pose proof Hx as [Hwf [Hc Hndc]].
  destruct x as [k0 cols rows]. cbn [n_kind n_cols n_rows] in *.
  cbn [run_path apply_edge]. rewrite (nested_to_mi_idx_eq n c T rows idx Hwf k0 cols).
  rewrite (mi_to_nested_lrows n c T rows idx Hwf Hnd Hlen k cols Hc).
  rewrite (mi_to_3d_lrows n c T rows idx Hwf Hnd Hlen cols Hc). cbn [m_rows].
  repeat split; try reflexivity.
  - apply (lrows_insts n c T rows idx Hwf Hlen).
  - intros Hs cn. rewrite (long_roundtrip_lrows n c T rows idx Hwf Hnd Hlen Hs cols cn Hndc Hc).
    destruct (main_roundtrip_nested_long n c T (mkN k0 cols rows) cn Hx) as [Heq _].
    cbn [n_cols n_rows] in Heq. rewrite Heq. reflexivity.
Qed.
