(* C15 proofs, part 4: explicit (index-wise) layout of the multi-index frame and of the long table
   produced from a panel: which value sits in which row, independently of the list functions
   (transpose / flat_map) the conversions are written with. *)
From Coq Require Import ZArith List Bool Lia Permutation.
Require Import SkV.Lib.Base SkV.C15.Model SkV.C15.Lemmas SkV.C15.Proofs SkV.C15.Long.
Import ListNotations.
Open Scope Z_scope.

Lemma nth_map_lt {A B} (f : A -> B) l i d d' :
  (i < length l)%nat -> nth i (map f l) d' = f (nth i l d).
Proof.
  revert i. induction l as [|a l IH]; intros i H; cbn in *; [lia|].
  destruct i; [reflexivity|]. apply IH. lia.
Qed.

Lemma nth_concat_uniform {A} k (bs : list (list A)) j q d :
  Forall (fun b => length b = k) bs -> (j < length bs)%nat -> (q < k)%nat ->
  nth (j * k + q) (concat bs) d = nth q (nth j bs []) d.
Proof.
  intro HF. revert j. induction HF as [|b bs Hb _ IH]; intros j Hj Hq; cbn in *; [lia|].
  destruct j as [|j].
  - cbn. apply app_nth1. lia.
  - rewrite app_nth2 by (rewrite Hb; cbn; lia). rewrite Hb.
    replace (S j * k + q - k)%nat with (j * k + q)%nat by (cbn; lia). apply IH; lia.
Qed.

Lemma ziota_nth s k t : (t < k)%nat -> nth t (ziota s k) 0 = s + Z.of_nat t.
Proof.
  revert s t. induction k as [|k IH]; intros s t H; [lia|]. destruct t as [|t]; cbn [ziota nth].
  - lia.
  - rewrite IH by lia. lia.
Qed.

Lemma enum_nth {A} (l : list A) t d :
  (t < length l)%nat -> nth t (enum l) (0, d) = (Z.of_nat t, nth t l d).
Proof.
  intro H. unfold enum. rewrite combine_nth by apply ziota_length.
  rewrite ziota_nth by exact H. reflexivity.
Qed.

Section Layout.
  Context {V : Type}.
  Variables (n c T : nat) (p : panel V) (nms : list name) (d : V).
  Hypothesis Hwf : wf_panel n c T p.
  Hypothesis Hc : length nms = c.

  (* value of variable j of instance i at time t *)
  Definition at3 (i j t : nat) : V := nth t (nth j (nth i p []) []) d.

  Definition row0 : (Z * Z) * list V := ((0, 0), []).

  (* row number i*T + t of the multi-index frame is labelled (i, t) and holds the values of all
     variables, in column order, of instance i at time t *)
  Lemma mi_rows_layout i t :
    (i < n)%nat -> (t < T)%nat ->
    nth (i * T + t) (mi_rows T p) row0 =
    ((Z.of_nat i, Z.of_nat t), map (fun s => nth t s d) (nth i p [])).
  Proof.
    clear Hc. intros Hi Ht. unfold mi_rows. rewrite flat_map_concat_map.
    assert (Hlen : length (enum p) = n).
    { rewrite enum_enum_from, enum_from_length. apply (wf_len n c T p Hwf). }
    rewrite (nth_concat_uniform T).
    - rewrite (nth_map_lt (block_rows T) (enum p) i (0, [])) by lia.
      rewrite enum_nth by (rewrite (wf_len n c T p Hwf); exact Hi).
      unfold block_rows. cbn [fst snd].
      rewrite (nth_map_lt _ _ t (0, [])) by
        (rewrite enum_enum_from, enum_from_length, transpose_length; exact Ht).
      rewrite enum_nth by (rewrite transpose_length; exact Ht). cbn [fst snd].
      f_equal. apply transpose_nth; [exact Ht|].
      assert (Hin : In (nth i p []) p) by (apply nth_In; rewrite (wf_len n c T p Hwf); exact Hi).
      apply (wf_inst n c T p Hwf _ Hin).
    - apply Forall_forall. intros b Hb. apply in_map_iff in Hb. destruct Hb as [[i' inst] [<- _]].
      unfold block_rows. rewrite map_length, enum_enum_from, enum_from_length.
      apply transpose_length.
    - rewrite map_length. lia.
    - exact Ht.
  Qed.

  Lemma mi_rows_layout_values i t :
    (i < n)%nat -> (t < T)%nat ->
    forall j, (j < c)%nat ->
    nth j (snd (nth (i * T + t) (mi_rows T p) row0)) d = at3 i j t.
  Proof.
    clear Hc. intros Hi Ht j Hj. rewrite (mi_rows_layout i t Hi Ht). cbn [snd]. unfold at3.
    assert (Hin : In (nth i p []) p) by (apply nth_In; rewrite (wf_len n c T p Hwf); exact Hi).
    destruct (wf_inst n c T p Hwf _ Hin) as [Hl _].
    rewrite (nth_map_lt _ _ j []) by lia. reflexivity.
  Qed.

  (* row number j*(n*T) + i*T + t of the long table is (i, name of column j, t, value): one
     block of rows per variable in COLUMN order, inside it instance-major then time *)
  Lemma long_layout k i j t :
    (i < n)%nat -> (j < c)%nat -> (t < T)%nat ->
    nth (j * (n * T) + (i * T + t)) (nested_to_long (mkN k nms p))
        (0, NInt 0, 0, d) =
    (Z.of_nat i, nth j nms (NInt 0), Z.of_nat t, at3 i j t).
  Proof.
    intros Hi Hj Ht. unfold nested_to_long. rewrite (nested_to_mi_eq n c T p Hwf).
    unfold mi_melt. cbn [m_cols]. rewrite Hc.
    set (M := mkM nms (mi_rows T p)).
    assert (Hrect : rect (length (mi_rows T p)) c (tagged M)).
    { apply (tagged_rect nms (mi_rows T p) c Hc); [lia|]. apply (mi_rows_width n c T p Hwf). }
    pose proof (mi_rows_length n c T p Hwf) as Hlen.
    assert (Hq : (i * T + t < n * T)%nat) by nia.
    rewrite (nth_concat_uniform (n * T)).
    - rewrite (transpose_nth (0, NInt 0, 0, d)); [|exact Hj|apply Hrect].
      unfold tagged, M. cbn [m_rows m_cols]. rewrite map_map.
      rewrite (nth_map_lt _ _ (i * T + t) row0) by lia.
      rewrite (mi_rows_layout i t Hi Ht). cbn [r_inst r_time fst snd].
      assert (Hin : In (nth i p []) p) by (apply nth_In; rewrite (wf_len n c T p Hwf); exact Hi).
      destruct (wf_inst n c T p Hwf _ Hin) as [Hl _].
      rewrite (nth_map_lt _ _ j (NInt 0, d)) by (rewrite combine_length, map_length; lia).
      rewrite combine_nth by (rewrite map_length; lia). cbn [fst snd].
      rewrite (nth_map_lt _ _ j []) by lia. reflexivity.
    - destruct (transpose_rect _ _ _ Hrect) as [_ HF]. rewrite Hlen in HF. exact HF.
    - rewrite transpose_length. exact Hj.
    - exact Hq.
  Qed.
  (* entry j*T + t of row i of the 2-D table: variable-major flattening *)
  Lemma tab_layout i j t :
    (i < n)%nat -> (j < c)%nat -> (t < T)%nat ->
    nth (j * T + t) (nth i (a3_to_2d p) []) d = at3 i j t.
  Proof.
    clear Hc. intros Hi Hj Ht. unfold a3_to_2d, at3.
    rewrite (nth_map_lt _ _ i []) by (rewrite (wf_len n c T p Hwf); exact Hi).
    assert (Hin : In (nth i p []) p) by (apply nth_In; rewrite (wf_len n c T p Hwf); exact Hi).
    destruct (wf_inst n c T p Hwf _ Hin) as [Hl HF].
    apply nth_concat_uniform; [exact HF|lia|exact Ht].
  Qed.
End Layout.
