(* C15: generic list lemmas (transposition, chunking, distinct values, sorted distinct labels). *)
From Coq Require Import ZArith List Bool Lia Permutation.
Require Import SkV.Lib.Base SkV.C15.Model.
Import ListNotations.
Open Scope Z_scope.

(* ---------------------------------------------------------------------------------------------- *)
(* small list facts *)

Lemma filter_all {A} (f : A -> bool) l : (forall x, In x l -> f x = true) -> filter f l = l.
Proof.
  induction l as [|a t IH]; intro H; [reflexivity|]. cbn.
  rewrite (H a (or_introl eq_refl)). f_equal. apply IH. intros x Hx. apply H. right. exact Hx.
Qed.

Lemma filter_none {A} (f : A -> bool) l : (forall x, In x l -> f x = false) -> filter f l = [].
Proof.
  induction l as [|a t IH]; intro H; [reflexivity|]. cbn.
  rewrite (H a (or_introl eq_refl)). apply IH. intros x Hx. apply H. right. exact Hx.
Qed.

Lemma filter_filter {A} (f g : A -> bool) l :
  filter f (filter g l) = filter (fun x => g x && f x) l.
Proof.
  induction l as [|a t IH]; [reflexivity|]. cbn. destruct (g a); cbn; [destruct (f a)|]; rewrite IH; reflexivity.
Qed.

Lemma filter_map_comm {A B} (f : B -> bool) (g : A -> B) l :
  filter f (map g l) = map g (filter (fun x => f (g x)) l).
Proof.
  induction l as [|a t IH]; [reflexivity|]. cbn. destruct (f (g a)); cbn; rewrite IH; reflexivity.
Qed.

Lemma filter_flat_map {A B} (f : B -> bool) (g : A -> list B) l :
  filter f (flat_map g l) = flat_map (fun x => filter f (g x)) l.
Proof.
  induction l as [|a t IH]; [reflexivity|]. cbn. rewrite filter_app, IH. reflexivity.
Qed.

Lemma map_flat_map {A B C} (f : B -> C) (g : A -> list B) l :
  map f (flat_map g l) = flat_map (fun x => map f (g x)) l.
Proof.
  induction l as [|a t IH]; [reflexivity|]. cbn. rewrite map_app, IH. reflexivity.
Qed.

Lemma flat_map_ext_in {A B} (f g : A -> list B) l :
  (forall x, In x l -> f x = g x) -> flat_map f l = flat_map g l.
Proof.
  induction l as [|a t IH]; intro H; [reflexivity|]. cbn.
  rewrite (H a (or_introl eq_refl)), IH; [reflexivity|]. intros x Hx. apply H. right. exact Hx.
Qed.

Lemma flat_map_map {A B C} (f : B -> list C) (g : A -> B) l :
  flat_map f (map g l) = flat_map (fun x => f (g x)) l.
Proof. induction l as [|a t IH]; [reflexivity|]. cbn. rewrite IH. reflexivity. Qed.

Lemma flat_map_nil {A B} (f : A -> list B) l : (forall x, In x l -> f x = []) -> flat_map f l = [].
Proof.
  induction l as [|a t IH]; intro H; [reflexivity|]. cbn.
  rewrite (H a (or_introl eq_refl)), IH; [reflexivity|]. intros x Hx. apply H. right. exact Hx.
Qed.

Lemma flat_map_singleton {A B} (f : A -> B) l : flat_map (fun x => [f x]) l = map f l.
Proof. induction l as [|a t IH]; [reflexivity|]. cbn. rewrite IH. reflexivity. Qed.

Lemma map_fst_combine {A B} (a : list A) (b : list B) :
  length a = length b -> map fst (combine a b) = a.
Proof.
  revert b. induction a as [|x a IH]; intros [|y b] H; cbn in *; try reflexivity; try discriminate.
  f_equal. apply IH. lia.
Qed.

Lemma map_snd_combine {A B} (a : list A) (b : list B) :
  length a = length b -> map snd (combine a b) = b.
Proof.
  revert b. induction a as [|x a IH]; intros [|y b] H; cbn in *; try reflexivity; try discriminate.
  f_equal. apply IH. lia.
Qed.

Lemma combine_map_r {A B C} (f : B -> C) (a : list A) (b : list B) :
  combine a (map f b) = map (fun p => (fst p, f (snd p))) (combine a b).
Proof.
  revert b. induction a as [|x a IH]; intros [|y b]; cbn; try reflexivity. f_equal. apply IH.
Qed.

Lemma concat_singletons {A} (l : list (list A)) : concat (map (fun r => [r]) l) = l.
Proof. induction l as [|a t IH]; [reflexivity|]. cbn. rewrite IH. reflexivity. Qed.

(* ---------------------------------------------------------------------------------------------- *)
(* ziota / enum *)

Lemma ziota_length s k : length (ziota s k) = k.
Proof. revert s. induction k as [|k IH]; intro s; cbn; [reflexivity|]. rewrite IH. reflexivity. Qed.

Lemma ziota_In s k x : In x (ziota s k) <-> s <= x < s + Z.of_nat k.
Proof.
  revert s. induction k as [|k IH]; intro s; cbn [ziota In].
  - lia.
  - rewrite IH. lia.
Qed.

Lemma ziota_NoDup s k : NoDup (ziota s k).
Proof.
  revert s. induction k as [|k IH]; intro s; cbn; constructor.
  - rewrite ziota_In. lia.
  - apply IH.
Qed.

Definition enum_from {A} (s : Z) (l : list A) : list (Z * A) := combine (ziota s (length l)) l.

Lemma enum_enum_from {A} (l : list A) : enum l = enum_from 0 l.
Proof. reflexivity. Qed.

Lemma enum_from_cons {A} s (a : A) l : enum_from s (a :: l) = (s, a) :: enum_from (s + 1) l.
Proof. reflexivity. Qed.

Lemma enum_from_snd {A} s (l : list A) : map snd (enum_from s l) = l.
Proof. apply map_snd_combine. apply ziota_length. Qed.

Lemma enum_from_fst {A} s (l : list A) : map fst (enum_from s l) = ziota s (length l).
Proof. apply map_fst_combine. apply ziota_length. Qed.

Lemma enum_from_length {A} s (l : list A) : length (enum_from s l) = length l.
Proof. unfold enum_from. rewrite combine_length, ziota_length. lia. Qed.

Lemma enum_from_In_ge {A} s (l : list A) i a : In (i, a) (enum_from s l) -> s <= i /\ In a l.
Proof.
  revert s. induction l as [|x l IH]; intros s H; [destruct H|].
  rewrite enum_from_cons in H. destruct H as [H|H].
  - inversion H; subst. split; [lia|left; reflexivity].
  - apply IH in H. split; [lia|right; tauto].
Qed.

Lemma enum_from_map {A B} (f : A -> B) s l :
  enum_from s (map f l) = map (fun p => (fst p, f (snd p))) (enum_from s l).
Proof. unfold enum_from. rewrite map_length. apply combine_map_r. Qed.

(* ---------------------------------------------------------------------------------------------- *)
(* rectangular matrices and transposition *)

Definition rect {A} (h w : nat) (m : list (list A)) : Prop :=
  length m = h /\ Forall (fun r => length r = w) m.

Lemma rect_cons_inv {A} h w (r : list A) m :
  rect (S h) w (r :: m) -> length r = w /\ rect h w m.
Proof.
  intros [Hl Hf]. inversion Hf; subst. cbn in Hl. repeat split; [lia|assumption].
Qed.

Lemma rectb_rect {A} h w (m : list (list A)) : rectb h w m = true <-> rect h w m.
Proof.
  unfold rectb, rect. rewrite andb_true_iff, Nat.eqb_eq, forallb_forall, Forall_forall.
  split; intros [H1 H2]; split; try assumption; intros x Hx; specialize (H2 x Hx);
    apply Nat.eqb_eq; assumption.
Qed.

Fixpoint zipcons {A} (r : list A) (M : list (list A)) : list (list A) :=
  match r, M with
  | a :: r', x :: M' => (a :: x) :: zipcons r' M'
  | _, _ => []
  end.

Lemma transpose_length {A} w (m : list (list A)) : length (transpose w m) = w.
Proof. revert m. induction w as [|w IH]; intro m; cbn; [reflexivity|]. rewrite IH. reflexivity. Qed.

Lemma transpose_cons {A} w (r : list A) m :
  length r = w -> transpose w (r :: m) = zipcons r (transpose w m).
Proof.
  revert r m. induction w as [|w IH]; intros r m H.
  - destruct r; [reflexivity|discriminate].
  - destruct r as [|a r]; [discriminate|]. cbn in H.
    cbn [transpose heads tails flat_map map tl app zipcons]. f_equal. apply IH. lia.
Qed.

Lemma transpose_nil {A} w : transpose w (@nil (list A)) = repeat [] w.
Proof. induction w as [|w IH]; cbn; [reflexivity|]. f_equal. exact IH. Qed.

Lemma heads_zipcons {A} (r : list A) M : length r = length M -> heads (zipcons r M) = r.
Proof.
  revert M. induction r as [|a r IH]; intros [|x M] H; cbn in *; try reflexivity; try discriminate.
  f_equal. apply IH. lia.
Qed.

Lemma tails_zipcons {A} (r : list A) M : length r = length M -> tails (zipcons r M) = M.
Proof.
  revert M. induction r as [|a r IH]; intros [|x M] H; cbn in *; try reflexivity; try discriminate.
  f_equal. apply IH. lia.
Qed.

Lemma transpose_involutive {A} h w (m : list (list A)) :
  rect h w m -> transpose h (transpose w m) = m.
Proof.
  revert h. induction m as [|r m IH]; intros h Hr.
  - destruct Hr as [Hl _]. cbn in Hl. subst h. reflexivity.
  - destruct h as [|h]; [destruct Hr as [Hl _]; discriminate|].
    apply rect_cons_inv in Hr. destruct Hr as [Hlen Hr].
    rewrite transpose_cons by exact Hlen.
    cbn [transpose]. rewrite heads_zipcons, tails_zipcons by (rewrite transpose_length; exact Hlen).
    f_equal. apply IH. exact Hr.
Qed.

Lemma zipcons_lengths {A} (r : list A) M h :
  length r = length M -> Forall (fun c => length c = h) M ->
  Forall (fun c => length c = S h) (zipcons r M).
Proof.
  revert M. induction r as [|a r IH]; intros [|x M] H HF; cbn in *; try constructor; try discriminate.
  - inversion HF; subst. cbn. reflexivity.
  - inversion HF; subst. apply IH; [lia|assumption].
Qed.

Lemma zipcons_length {A} (r : list A) M : length r = length M -> length (zipcons r M) = length r.
Proof.
  revert M. induction r as [|a r IH]; intros [|x M] H; cbn in *; try reflexivity; try discriminate.
  f_equal. apply IH. lia.
Qed.

Lemma transpose_rect {A} h w (m : list (list A)) : rect h w m -> rect w h (transpose w m).
Proof.
  intro Hr. split; [apply transpose_length|].
  revert h Hr. induction m as [|r m IH]; intros h Hr.
  - destruct Hr as [Hl _]. cbn in Hl. subst h. rewrite transpose_nil.
    apply Forall_forall. intros x Hx. apply repeat_spec in Hx. subst x. reflexivity.
  - destruct h as [|h]; [destruct Hr as [Hl _]; discriminate|].
    apply rect_cons_inv in Hr. destruct Hr as [Hlen Hr].
    rewrite transpose_cons by exact Hlen.
    apply zipcons_lengths; [rewrite transpose_length; exact Hlen|]. apply IH. exact Hr.
Qed.

Lemma heads_map {A B} (f : A -> B) m : heads (map (map f) m) = map f (heads m).
Proof.
  induction m as [|r m IH]; [reflexivity|]. unfold heads in *. cbn [map flat_map].
  rewrite IH, map_app. destruct r; reflexivity.
Qed.

Lemma tails_map {A B} (f : A -> B) m : tails (map (map f) m) = map (map f) (tails m).
Proof.
  unfold tails. rewrite !map_map. apply map_ext. intros [|a r]; reflexivity.
Qed.

Lemma transpose_map {A B} (f : A -> B) w m :
  transpose w (map (map f) m) = map (map f) (transpose w m).
Proof.
  revert m. induction w as [|w IH]; intro m; cbn [transpose map]; [reflexivity|].
  rewrite heads_map, tails_map, IH. reflexivity.
Qed.

Lemma concat_zipcons_perm {A} (r : list A) M :
  length r = length M -> Permutation (concat (zipcons r M)) (r ++ concat M).
Proof.
  revert M. induction r as [|a r IH]; intros [|x M] H; cbn in *; try discriminate; [constructor|].
  constructor. rewrite IH by lia.
  rewrite !app_assoc. apply Permutation_app_tail. apply Permutation_app_comm.
Qed.

Lemma concat_repeat_nil {A} k : concat (repeat (@nil A) k) = [].
Proof. induction k as [|k IH]; cbn; [reflexivity|exact IH]. Qed.

Lemma concat_transpose_perm {A} h w (m : list (list A)) :
  rect h w m -> Permutation (concat (transpose w m)) (concat m).
Proof.
  revert h. induction m as [|r m IH]; intros h Hr.
  - rewrite transpose_nil, concat_repeat_nil. constructor.
  - destruct h as [|h]; [destruct Hr as [Hl _]; discriminate|].
    apply rect_cons_inv in Hr. destruct Hr as [Hlen Hr].
    rewrite transpose_cons by exact Hlen.
    rewrite concat_zipcons_perm by (rewrite transpose_length; exact Hlen).
    cbn. apply Permutation_app_head. eapply IH. exact Hr.
Qed.

(* column j of the transpose is the list of the j-th entries of the rows *)
Lemma heads_nth {A} (d : A) m :
  Forall (fun r => r <> []) m -> heads m = map (fun r => nth 0 r d) m.
Proof.
  induction 1 as [|r m Hr _ IH]; [reflexivity|]. unfold heads in *. cbn [flat_map map].
  rewrite IH. destruct r; [congruence|reflexivity].
Qed.

Lemma transpose_nth {A} (d : A) w m j :
  (j < w)%nat -> Forall (fun r => length r = w) m ->
  nth j (transpose w m) [] = map (fun r => nth j r d) m.
Proof.
  revert m j. induction w as [|w IH]; intros m j Hj HF; [lia|].
  cbn [transpose]. destruct j as [|j].
  - cbn [nth]. apply heads_nth. eapply Forall_impl; [|exact HF].
    intros r Hr. destruct r; [discriminate|congruence].
  - cbn [nth]. rewrite IH.
    + unfold tails. rewrite map_map. apply map_ext. intros [|a r]; [destruct j|]; reflexivity.
    + lia.
    + unfold tails. apply Forall_forall. intros r Hr. apply in_map_iff in Hr.
      destruct Hr as [r' [<- Hr']]. rewrite Forall_forall in HF. specialize (HF r' Hr').
      destruct r'; cbn in *; lia.
Qed.

(* ---------------------------------------------------------------------------------------------- *)
(* reshape *)

Lemma chunk_n_concat {A} k (bs : list (list A)) :
  Forall (fun b => length b = k) bs -> chunk_n (length bs) k (concat bs) = bs.
Proof.
  induction bs as [|b bs IH]; intro HF; [reflexivity|].
  inversion HF as [|? ? Hb HF']; subst. cbn [length chunk_n concat].
  rewrite firstn_app, skipn_app, Nat.sub_diag, firstn_all, skipn_all, firstn_O, skipn_O, app_nil_r.
  cbn [app]. rewrite IH by exact HF'. reflexivity.
Qed.

Lemma length_concat_rect {A} h w (m : list (list A)) : rect h w m -> length (concat m) = (h * w)%nat.
Proof.
  revert h. induction m as [|r m IH]; intros h [Hl HF]; cbn in *.
  - subst h. reflexivity.
  - inversion HF; subst. rewrite app_length. rewrite (IH (length m)) by (split; [reflexivity|assumption]).
    lia.
Qed.

(* ---------------------------------------------------------------------------------------------- *)
(* distinct values in order of first appearance *)

Lemma uniqz_In l x : In x (uniqz l) <-> In x l.
Proof.
  induction l as [|a t IH]; cbn [uniqz In]; [tauto|].
  rewrite filter_In, IH. destruct (Z.eq_dec a x) as [->|Hne]; [tauto|].
  split; [tauto|]. intros [H|H]; [congruence|]. right. split; [exact H|].
  apply negb_true_iff. apply Z.eqb_neq. congruence.
Qed.

Lemma uniqz_app l r :
  uniqz (l ++ r) = uniqz l ++ filter (fun y => negb (existsb (Z.eqb y) l)) (uniqz r).
Proof.
  induction l as [|a t IH]; cbn [app uniqz existsb].
  - cbn. rewrite filter_all; [reflexivity|]. reflexivity.
  - rewrite IH, filter_app, filter_filter. cbn [app]. do 2 f_equal.
    apply filter_ext. intro y. rewrite negb_orb. apply andb_comm.
Qed.

Lemma uniqz_NoDup l : NoDup l -> uniqz l = l.
Proof.
  induction 1 as [|a t Hn _ IH]; [reflexivity|]. cbn. rewrite IH. f_equal.
  apply filter_all. intros y Hy. apply negb_true_iff. apply Z.eqb_neq. congruence.
Qed.

Lemma uniqz_repeat i k : (1 <= k)%nat -> uniqz (repeat i k) = [i].
Proof.
  induction k as [|k IH]; [lia|]. intros _. cbn. f_equal.
  apply filter_none. intros y Hy. apply -> uniqz_In in Hy. apply repeat_spec in Hy. subst y.
  rewrite Z.eqb_refl. reflexivity.
Qed.

(* instance labels of a frame made of k-row blocks *)
Lemma uniqz_blocks ids k :
  (1 <= k)%nat -> NoDup ids -> uniqz (flat_map (fun i => repeat i k) ids) = ids.
Proof.
  intros Hk. induction 1 as [|i ids Hn _ IH]; [reflexivity|]. cbn [flat_map].
  rewrite uniqz_app, uniqz_repeat, IH by exact Hk. cbn [app]. f_equal.
  apply filter_all. intros y Hy. apply negb_true_iff.
  destruct (existsb (Z.eqb y) (repeat i k)) eqn:E; [|reflexivity].
  apply existsb_exists in E. destruct E as [z [Hz Hyz]]. apply repeat_spec in Hz.
  apply Z.eqb_eq in Hyz. congruence.
Qed.

(* time labels: the same distinct labels repeated for every instance *)
Lemma uniqz_copies ts n :
  (1 <= n)%nat -> NoDup ts -> uniqz (concat (repeat ts n)) = ts.
Proof.
  intros Hn Hnd. induction n as [|n IH]; [lia|]. cbn [repeat concat].
  rewrite uniqz_app, (uniqz_NoDup ts Hnd).
  rewrite filter_none; [apply app_nil_r|].
  intros y Hy. apply -> uniqz_In in Hy. apply negb_false_iff. apply existsb_exists.
  exists y. split; [|apply Z.eqb_refl].
  destruct n as [|n]; [destruct Hy|].
  rewrite <- (IH ltac:(lia)). apply <- uniqz_In. exact Hy.
Qed.

(* ---------------------------------------------------------------------------------------------- *)
(* blocks of rows labelled by their position: selecting one block by its label *)

Section Blocks.
  Context {A B : Type} (key : B -> Z) (blk : Z * A -> list B).
  Hypothesis blk_key : forall i a b, In b (blk (i, a)) -> key b = i.

  Lemma blocks_keys_ge s l b : In b (flat_map blk (enum_from s l)) -> s <= key b.
  Proof.
    intro H. apply in_flat_map in H. destruct H as [[i a] [Hin Hb]].
    apply enum_from_In_ge in Hin. rewrite (blk_key i a b Hb). lia.
  Qed.

  Lemma filter_block_at s l i a :
    In (i, a) (enum_from s l) ->
    filter (fun b => key b =? i) (flat_map blk (enum_from s l)) = blk (i, a).
  Proof.
    revert s. induction l as [|x l IH]; intros s Hin; [destruct Hin|].
    rewrite enum_from_cons in *. cbn [flat_map]. rewrite filter_app.
    destruct Hin as [Hin|Hin].
    - inversion Hin; subst. rewrite filter_all.
      + rewrite filter_none; [apply app_nil_r|].
        intros b Hb. apply blocks_keys_ge in Hb. apply Z.eqb_neq. lia.
      + intros b Hb. apply Z.eqb_eq. eapply blk_key. exact Hb.
    - rewrite filter_none.
      + cbn [app]. apply IH. exact Hin.
      + intros b Hb. apply blk_key in Hb. apply enum_from_In_ge in Hin. apply Z.eqb_neq. lia.
  Qed.

  Lemma map_filter_blocks {C} (G : list B -> C) s l :
    map (fun id => G (filter (fun b => key b =? id) (flat_map blk (enum_from s l))))
        (ziota s (length l)) = map (fun ia => G (blk ia)) (enum_from s l).
  Proof.
    rewrite <- enum_from_fst, map_map. apply map_ext_in. intros [i a] Hin. cbn [fst].
    rewrite (filter_block_at s l i a Hin). reflexivity.
  Qed.
End Blocks.
