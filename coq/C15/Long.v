(* C15 proofs, part 2: the long table.  sort_u (sorted distinct labels) over a strict total order,
   selection of variables by identifier, melt / pivot. *)
From Coq Require Import ZArith List Bool Lia Permutation Sorted.
Require Import SkV.Lib.Base SkV.C15.Model SkV.C15.Lemmas SkV.C15.Proofs.
Import ListNotations.
Open Scope Z_scope.

(* ---------------------------------------------------------------------------------------------- *)
(* sorted distinct labels over a strict total order *)

Section SortUTheory.
  Context {K : Type} (ltb eqb : K -> K -> bool).
  Hypothesis eqb_spec : forall a b, eqb a b = true <-> a = b.
  Hypothesis lt_irrefl : forall a, ltb a a = false.
  Hypothesis lt_trans : forall a b c, ltb a b = true -> ltb b c = true -> ltb a c = true.
  Hypothesis lt_total : forall a b, ltb a b = true \/ a = b \/ ltb b a = true.

  Definition klt (a b : K) : Prop := ltb a b = true.
  Notation ins := (insert_u ltb eqb).
  Notation srt := (sort_u ltb eqb).

  Lemma insert_u_In x l y : In y (ins x l) <-> y = x \/ In y l.
  Proof.
    induction l as [|a t IH]; cbn [insert_u].
    - cbn. intuition.
    - destruct (ltb x a); [cbn; intuition|].
      destruct (eqb x a) eqn:E.
      + apply eqb_spec in E. subst a. cbn. intuition.
      + cbn [In]. rewrite IH. intuition.
  Qed.

  Lemma insert_u_HdRel y x l :
    klt y x -> HdRel klt y l -> HdRel klt y (ins x l).
  Proof.
    intros Hyx Hl. destruct l as [|a t]; cbn [insert_u]; [constructor; exact Hyx|].
    destruct (ltb x a); [constructor; exact Hyx|].
    destruct (eqb x a); [exact Hl|]. inversion Hl; subst. constructor. assumption.
  Qed.

  Lemma insert_u_sorted x l : Sorted klt l -> Sorted klt (ins x l).
  Proof.
    induction l as [|a t IH]; intro Hs; cbn [insert_u].
    - repeat constructor.
    - destruct (ltb x a) eqn:E1.
      + constructor; [exact Hs|]. constructor. exact E1.
      + destruct (eqb x a) eqn:E2; [exact Hs|].
        inversion Hs; subst. constructor; [apply IH; assumption|].
        apply insert_u_HdRel; [|assumption].
        destruct (lt_total x a) as [H|[H|H]]; [congruence| |exact H].
        apply eqb_spec in H. congruence.
  Qed.

  Lemma sort_u_sorted l : Sorted klt (srt l).
  Proof. induction l as [|a t IH]; cbn; [constructor|]. apply insert_u_sorted. exact IH. Qed.

  Lemma sort_u_In l y : In y (srt l) <-> In y l.
  Proof.
    induction l as [|a t IH]; cbn [sort_u fold_right In]; [tauto|].
    fold (srt t). rewrite insert_u_In, IH. intuition.
  Qed.

  Lemma klt_transitive : Relations_1.Transitive klt.
  Proof. intros a b c. apply lt_trans. Qed.

  Lemma sorted_unique l1 l2 :
    Sorted klt l1 -> Sorted klt l2 -> (forall x, In x l1 <-> In x l2) -> l1 = l2.
  Proof.
    intros H1 H2. apply (Sorted_StronglySorted klt_transitive) in H1.
    apply (Sorted_StronglySorted klt_transitive) in H2.
    revert l2 H2. induction H1 as [|a1 t1 Hs1 IH Hall1]; intros l2 H2 Hiff.
    - destruct l2 as [|b t]; [reflexivity|]. exfalso. apply (Hiff b). left. reflexivity.
    - destruct H2 as [|a2 t2 Hs2 Hall2].
      { exfalso. apply (Hiff a1). left. reflexivity. }
      rewrite Forall_forall in Hall1, Hall2.
      assert (Heq : a1 = a2).
      { assert (Ha : In a1 (a2 :: t2)) by (apply Hiff; left; reflexivity).
        assert (Hb : In a2 (a1 :: t1)) by (apply Hiff; left; reflexivity).
        destruct Ha as [Ha|Ha]; [congruence|]. destruct Hb as [Hb|Hb]; [congruence|].
        apply Hall2 in Ha. apply Hall1 in Hb. unfold klt in *.
        pose proof (lt_trans _ _ _ Ha Hb) as Hc. rewrite lt_irrefl in Hc. discriminate. }
      subst a2. f_equal. apply IH; [exact Hs2|]. intro x. split; intro Hx.
      + assert (Hx' : In x (a1 :: t2)) by (apply Hiff; right; exact Hx).
        destruct Hx' as [<-|Hx']; [|exact Hx'].
        apply Hall1 in Hx. unfold klt in Hx. rewrite lt_irrefl in Hx. discriminate.
      + assert (Hx' : In x (a1 :: t1)) by (apply Hiff; right; exact Hx).
        destruct Hx' as [<-|Hx']; [|exact Hx'].
        apply Hall2 in Hx. unfold klt in Hx. rewrite lt_irrefl in Hx. discriminate.
  Qed.

  Lemma sort_u_same_elements l l' : (forall x, In x l <-> In x l') -> srt l = srt l'.
  Proof.
    intro H. apply sorted_unique; try apply sort_u_sorted.
    intro x. rewrite !sort_u_In. apply H.
  Qed.

  Lemma sort_u_of_sorted l : Sorted klt l -> srt l = l.
  Proof.
    intro H. apply sorted_unique; [apply sort_u_sorted|exact H|]. intro x. apply sort_u_In.
  Qed.

  Lemma sorted_NoDup l : Sorted klt l -> NoDup l.
  Proof.
    intro H. apply (Sorted_StronglySorted klt_transitive) in H.
    induction H as [|a t Hs IH Hall]; constructor; [|exact IH].
    intro Hin. rewrite Forall_forall in Hall. apply Hall in Hin. unfold klt in Hin.
    rewrite lt_irrefl in Hin. discriminate.
  Qed.

  Lemma sort_u_perm l : NoDup l -> Permutation (srt l) l.
  Proof.
    intro H. apply NoDup_Permutation; [apply sorted_NoDup; apply sort_u_sorted|exact H|].
    intro x. apply sort_u_In.
  Qed.
End SortUTheory.

(* --- the two label orders are strict total orders --- *)

Lemma zlist_ltb_irrefl a : zlist_ltb a a = false.
Proof.
  induction a as [|x a IH]; [reflexivity|]. cbn. rewrite IH, Z.ltb_irrefl, Z.eqb_refl. reflexivity.
Qed.

Lemma zlist_ltb_trans a b c :
  zlist_ltb a b = true -> zlist_ltb b c = true -> zlist_ltb a c = true.
Proof.
  revert b c. induction a as [|x a IH]; intros [|y b] [|z c]; cbn; try discriminate; try reflexivity.
  rewrite !orb_true_iff, !andb_true_iff, !Z.ltb_lt, !Z.eqb_eq.
  intros [H1|[H1 H1']] [H2|[H2 H2']].
  - left. lia.
  - left. lia.
  - left. lia.
  - right. split; [lia|]. eapply IH; eassumption.
Qed.

Lemma zlist_ltb_total a b : zlist_ltb a b = true \/ a = b \/ zlist_ltb b a = true.
Proof.
  revert b. induction a as [|x a IH]; intros [|y b]; cbn; try tauto.
  rewrite !orb_true_iff, !andb_true_iff, !Z.ltb_lt, !Z.eqb_eq.
  destruct (Z.lt_trichotomy x y) as [H|[H|H]]; [tauto| |tauto].
  subst y. destruct (IH b) as [H|[H|H]]; [tauto| |tauto]. subst b. tauto.
Qed.

Lemma name_ltb_irrefl a : name_ltb a a = false.
Proof. destruct a; cbn; [apply zlist_ltb_irrefl|apply Z.ltb_irrefl]. Qed.

Lemma name_ltb_trans a b c : name_ltb a b = true -> name_ltb b c = true -> name_ltb a c = true.
Proof.
  destruct a, b, c; cbn; try discriminate; try reflexivity.
  - apply zlist_ltb_trans.
  - rewrite !Z.ltb_lt. lia.
Qed.

Lemma name_ltb_total a b : name_ltb a b = true \/ a = b \/ name_ltb b a = true.
Proof.
  destruct a as [x|x], b as [y|y]; cbn; try tauto.
  - destruct (zlist_ltb_total x y) as [H|[H|H]]; [tauto| |tauto]. subst. tauto.
  - rewrite !Z.ltb_lt. destruct (Z.lt_trichotomy x y) as [H|[H|H]]; [tauto| |tauto]. subst. tauto.
Qed.

Lemma key_eqb_eq a b : key_eqb a b = true <-> a = b.
Proof.
  destruct a, b. unfold key_eqb. cbn. rewrite andb_true_iff, !Z.eqb_eq. split.
  - intros [-> ->]. reflexivity.
  - intro H. inversion H. tauto.
Qed.

Lemma key_ltb_irrefl a : key_ltb a a = false.
Proof. destruct a. unfold key_ltb. cbn. rewrite !Z.ltb_irrefl, Z.eqb_refl. reflexivity. Qed.

Lemma key_ltb_trans a b c : key_ltb a b = true -> key_ltb b c = true -> key_ltb a c = true.
Proof.
  destruct a, b, c. unfold key_ltb. cbn.
  rewrite !orb_true_iff, !andb_true_iff, !Z.ltb_lt, !Z.eqb_eq. lia.
Qed.

Lemma key_ltb_total a b : key_ltb a b = true \/ a = b \/ key_ltb b a = true.
Proof.
  destruct a as [a1 a2], b as [b1 b2]. unfold key_ltb. cbn.
  rewrite !orb_true_iff, !andb_true_iff, !Z.ltb_lt, !Z.eqb_eq.
  destruct (Z.lt_trichotomy a1 b1) as [H|[H|H]]; [tauto| |tauto]. subst b1.
  destruct (Z.lt_trichotomy a2 b2) as [H'|[H'|H']]; [tauto| |intuition].
  subst. intuition.
Qed.

Definition name_lt : name -> name -> Prop := klt name_ltb.
Definition key_lt : Z * Z -> Z * Z -> Prop := klt key_ltb.
Definition sort_names : list name -> list name := sort_u name_ltb name_eqb.
Definition sort_keys : list (Z * Z) -> list (Z * Z) := sort_u key_ltb key_eqb.

Lemma sort_names_sorted l : Sorted name_lt (sort_names l).
Proof. apply sort_u_sorted; [apply name_eqb_eq|apply name_ltb_total]. Qed.
Lemma sort_names_In l y : In y (sort_names l) <-> In y l.
Proof. apply sort_u_In. apply name_eqb_eq. Qed.
Lemma sort_names_same l l' : (forall x, In x l <-> In x l') -> sort_names l = sort_names l'.
Proof.
  apply sort_u_same_elements;
    [apply name_eqb_eq|apply name_ltb_irrefl|apply name_ltb_trans|apply name_ltb_total].
Qed.
Lemma sort_names_of_sorted l : Sorted name_lt l -> sort_names l = l.
Proof.
  apply sort_u_of_sorted;
    [apply name_eqb_eq|apply name_ltb_irrefl|apply name_ltb_trans|apply name_ltb_total].
Qed.
Lemma sort_names_perm l : NoDup l -> Permutation (sort_names l) l.
Proof.
  apply sort_u_perm;
    [apply name_eqb_eq|apply name_ltb_irrefl|apply name_ltb_trans|apply name_ltb_total].
Qed.
Lemma sort_keys_same l l' : (forall x, In x l <-> In x l') -> sort_keys l = sort_keys l'.
Proof.
  apply sort_u_same_elements;
    [apply key_eqb_eq|apply key_ltb_irrefl|apply key_ltb_trans|apply key_ltb_total].
Qed.
Lemma sort_keys_of_sorted l : Sorted key_lt l -> sort_keys l = l.
Proof.
  apply sort_u_of_sorted;
    [apply key_eqb_eq|apply key_ltb_irrefl|apply key_ltb_trans|apply key_ltb_total].
Qed.
Lemma key_sorted_NoDup l : Sorted key_lt l -> NoDup l.
Proof. apply sorted_NoDup; [apply key_ltb_irrefl|apply key_ltb_trans]. Qed.

(* ---------------------------------------------------------------------------------------------- *)
(* selecting entries of a labelled list by identifier *)

Lemma perm_flat_map {A B} (f : A -> list B) l l' :
  Permutation l l' -> Permutation (flat_map f l) (flat_map f l').
Proof.
  induction 1; cbn [flat_map].
  - constructor.
  - apply Permutation_app_head. assumption.
  - rewrite !app_assoc. apply Permutation_app_tail. apply Permutation_app_comm.
  - etransitivity; eassumption.
Qed.

Section Select.
  Context {A : Type}.

  Definition pick (d : name) (nms : list name) (xs : list A) : list A :=
    map snd (filter (fun q => name_eqb (fst q) d) (combine nms xs)).

  (* the entries labelled s1, s2, ... in that order *)
  Definition select (s nms : list name) (xs : list A) : list A :=
    flat_map (fun d => pick d nms xs) s.

  Lemma pick_cons d nm nms x xs :
    pick d (nm :: nms) (x :: xs) = (if name_eqb nm d then [x] else []) ++ pick d nms xs.
  Proof. unfold pick. cbn. destruct (name_eqb nm d); reflexivity. Qed.

  Lemma pick_absent d nms xs : ~ In d nms -> pick d nms xs = [].
  Proof.
    revert xs. induction nms as [|nm nms IH]; intros xs Hn; [reflexivity|].
    destruct xs as [|x xs]; [reflexivity|]. rewrite pick_cons, IH.
    - destruct (name_eqb nm d) eqn:E; [|reflexivity]. apply name_eqb_eq in E. subst.
      exfalso. apply Hn. left. reflexivity.
    - intro H. apply Hn. right. exact H.
  Qed.

  Lemma pick_length_le d nms xs : NoDup nms -> (length (pick d nms xs) <= 1)%nat.
  Proof.
    intro Hnd. revert xs. induction Hnd as [|nm nms Hn _ IH]; intros xs; [cbn; lia|].
    destruct xs as [|x xs]; [cbn; lia|]. rewrite pick_cons, app_length.
    destruct (name_eqb nm d) eqn:E.
    - apply name_eqb_eq in E. subst. rewrite pick_absent by exact Hn. cbn. lia.
    - cbn. apply IH.
  Qed.

  Lemma pick_length_1 d nms xs :
    NoDup nms -> length nms = length xs -> In d nms -> length (pick d nms xs) = 1%nat.
  Proof.
    intro Hnd. revert xs. induction Hnd as [|nm nms Hn _ IH]; intros xs Hl Hin; [destruct Hin|].
    destruct xs as [|x xs]; [discriminate|]. rewrite pick_cons, app_length.
    destruct (name_eqb nm d) eqn:E.
    - apply name_eqb_eq in E. subst. rewrite pick_absent by exact Hn. reflexivity.
    - apply name_eqb_neq in E. destruct Hin as [Hin|Hin]; [congruence|].
      cbn in *. apply IH; [lia|exact Hin].
  Qed.

  Lemma pick_In d nms xs x : In x (pick d nms xs) -> In x xs.
  Proof.
    unfold pick. intro H. apply in_map_iff in H. destruct H as [[nm y] [Hy H]]. cbn in Hy. subst y.
    apply filter_In in H. destruct H as [H _]. apply in_combine_r in H. exact H.
  Qed.

  Lemma select_In s nms xs x : In x (select s nms xs) -> In x xs.
  Proof.
    unfold select. intro H. apply in_flat_map in H. destruct H as [d [_ H]].
    eapply pick_In. exact H.
  Qed.

  Lemma select_length s nms xs :
    NoDup nms -> length nms = length xs -> (forall d, In d s -> In d nms) ->
    length (select s nms xs) = length s.
  Proof.
    intros Hnd Hl. induction s as [|d s IH]; intro Hs; [reflexivity|].
    unfold select in *. cbn [flat_map]. rewrite app_length, IH.
    - rewrite pick_length_1; [reflexivity|assumption|assumption|]. apply Hs. left. reflexivity.
    - intros d' Hd'. apply Hs. right. exact Hd'.
  Qed.

  (* selecting by the identifiers themselves, in their own order, changes nothing *)
  Lemma select_self nms xs : NoDup nms -> length nms = length xs -> select nms nms xs = xs.
  Proof.
    intro Hnd. revert xs. induction Hnd as [|nm nms Hn _ IH]; intros xs Hl.
    - destruct xs; [reflexivity|discriminate].
    - destruct xs as [|x xs]; [discriminate|]. unfold select. cbn [flat_map].
      rewrite pick_cons, name_eqb_refl, pick_absent by exact Hn. cbn [app]. f_equal.
      transitivity (select nms nms xs); [|apply IH; cbn in Hl; lia]. unfold select.
      apply flat_map_ext_in. intros d Hd. rewrite pick_cons.
      destruct (name_eqb nm d) eqn:E; [|reflexivity]. apply name_eqb_eq in E. subst. contradiction.
  Qed.

  Lemma select_perm s nms xs :
    NoDup nms -> length nms = length xs -> Permutation s nms ->
    Permutation (select s nms xs) xs.
  Proof.
    intros Hnd Hl Hp. rewrite <- (select_self nms xs Hnd Hl) at 2. unfold select.
    apply perm_flat_map. exact Hp.
  Qed.
End Select.

Lemma select_cons {A} d s nms (xs : list A) :
  select (d :: s) nms xs = pick d nms xs ++ select s nms xs.
Proof. reflexivity. Qed.

Lemma pick_map {A B} (f : A -> B) d nms xs : map f (pick d nms xs) = pick d nms (map f xs).
Proof.
  unfold pick. rewrite combine_map_r, filter_map_comm, !map_map. cbn [fst snd]. reflexivity.
Qed.

Lemma select_map {A B} (f : A -> B) s nms xs :
  map f (select s nms xs) = select s nms (map f xs).
Proof.
  unfold select. rewrite map_flat_map. apply flat_map_ext_in. intros d _. apply pick_map.
Qed.

(* --- selection commutes with transposition ---------------------------------------------------- *)

Lemma heads_cons_map {A} (v : list A -> list A) (rest : list A -> list A) (B : list (list A)) :
  (forall row, In row B -> length (v row) = 1%nat) ->
  heads (map (fun row => v row ++ rest row) B) = concat (map v B) /\
  tails (map (fun row => v row ++ rest row) B) = map rest B.
Proof.
  induction B as [|row B IH]; intro H; [split; reflexivity|].
  destruct IH as [IH1 IH2]. { intros r Hr. apply H. right. exact Hr. }
  specialize (H row (or_introl eq_refl)).
  unfold heads, tails in *. cbn [map flat_map concat].
  destruct (v row) as [|a [|? ?]]; try discriminate. cbn [app tl]. rewrite IH1, IH2.
  split; reflexivity.
Qed.

Lemma pick_column {A} d nms c (B : list (list A)) :
  NoDup nms -> length nms = c -> Forall (fun r => length r = c) B -> In d nms ->
  pick d nms (transpose c B) = [concat (map (pick d nms) B)].
Proof.
  intro Hnd. revert c B. induction Hnd as [|nm nms Hn Hnd IH]; intros c B Hc HF Hin; [destruct Hin|].
  destruct c as [|c]; [discriminate|]. cbn [transpose]. rewrite pick_cons.
  assert (Hrows : forall row, In row B -> exists a row', row = a :: row' /\ length row' = c).
  { intros row Hr. rewrite Forall_forall in HF. specialize (HF row Hr).
    destruct row as [|a row']; [discriminate|]. exists a, row'. cbn in HF. split; [reflexivity|lia]. }
  destruct (name_eqb nm d) eqn:E.
  - apply name_eqb_eq in E. subst d. rewrite pick_absent by exact Hn. cbn [app]. f_equal.
    unfold heads. rewrite flat_map_concat_map. f_equal. apply map_ext_in. intros row Hr.
    destruct (Hrows row Hr) as [a [row' [-> _]]]. rewrite pick_cons, name_eqb_refl.
    rewrite pick_absent by exact Hn. reflexivity.
  - apply name_eqb_neq in E. destruct Hin as [Hin|Hin]; [congruence|]. cbn [app].
    rewrite (IH c (tails B)).
    + f_equal. f_equal. unfold tails. rewrite map_map. apply map_ext_in. intros row Hr.
      destruct (Hrows row Hr) as [a [row' [-> _]]]. rewrite pick_cons.
      apply name_eqb_neq in E. rewrite E. reflexivity.
    + cbn in Hc. lia.
    + unfold tails. apply Forall_forall. intros r Hr. apply in_map_iff in Hr.
      destruct Hr as [row [<- Hr]]. destruct (Hrows row Hr) as [a [row' [-> Hl]]]. exact Hl.
    + exact Hin.
Qed.

Lemma select_transpose {A} s nms c (B : list (list A)) :
  NoDup nms -> length nms = c -> Forall (fun r => length r = c) B ->
  (forall d, In d s -> In d nms) ->
  transpose (length s) (map (select s nms) B) = select s nms (transpose c B).
Proof.
  intros Hnd Hc HF. induction s as [|d s IH]; intro Hs; [reflexivity|].
  cbn [length transpose].
  assert (Hd : In d nms) by (apply Hs; left; reflexivity).
  rewrite (map_ext (select (d :: s) nms) (fun row => pick d nms row ++ select s nms row))
    by (intro; apply select_cons).
  destruct (heads_cons_map (pick d nms) (select s nms) B) as [H1 H2].
  { intros row Hr. apply pick_length_1; [exact Hnd| |exact Hd].
    rewrite Forall_forall in HF. rewrite (HF row Hr). exact Hc. }
  rewrite H1, H2, IH by (intros d' Hd'; apply Hs; right; exact Hd').
  rewrite select_cons, (pick_column d nms c B Hnd Hc HF Hd). reflexivity.
Qed.

(* ---------------------------------------------------------------------------------------------- *)
(* melt and pivot *)

Lemma Permutation_filter {A} (f : A -> bool) l l' :
  Permutation l l' -> Permutation (filter f l) (filter f l').
Proof.
  induction 1; cbn.
  - constructor.
  - destruct (f x); [constructor|]; assumption.
  - destruct (f x), (f y); first [apply perm_swap|apply Permutation_refl].
  - etransitivity; eassumption.
Qed.

Lemma Permutation_short_eq {A} (l l' : list A) :
  Permutation l l' -> (length l <= 1)%nat -> l = l'.
Proof.
  intros Hp Hl. destruct l as [|a [|? ?]]; cbn in Hl; try lia.
  - apply Permutation_nil in Hp. congruence.
  - apply Permutation_length_1_inv in Hp. congruence.
Qed.

Section Pivot.
  Context {V : Type}.
  Implicit Types (L : long V) (m : mi V).

  Definition matches (k : Z * Z) (d : name) (e : lrow V) : bool :=
    key_eqb (l_key e) k && name_eqb (l_dim e) d.

  Definition uniq_cells L : Prop := forall k d, (length (filter (matches k d) L) <= 1)%nat.

  (* the pivot does not depend on the order of the rows of the long table *)
  Lemma long_pivot_perm L L' : uniq_cells L -> Permutation L L' -> long_pivot L = long_pivot L'.
  Proof.
    intros Hu Hp. unfold long_pivot.
    assert (Hd : sort_u name_ltb name_eqb (map l_dim L) = sort_u name_ltb name_eqb (map l_dim L')).
    { apply sort_names_same. intro x. split; apply Permutation_in;
        [apply Permutation_map; exact Hp|apply Permutation_map; symmetry; exact Hp]. }
    assert (Hk : sort_u key_ltb key_eqb (map l_key L) = sort_u key_ltb key_eqb (map l_key L')).
    { apply sort_keys_same. intro x. split; apply Permutation_in;
        [apply Permutation_map; exact Hp|apply Permutation_map; symmetry; exact Hp]. }
    rewrite <- Hd, <- Hk. f_equal. apply map_ext. intro k. f_equal.
    apply flat_map_ext_in. intros d _. f_equal.
    apply Permutation_short_eq; [apply Permutation_filter; exact Hp|apply Hu].
  Qed.

  Section Melt.
    Variables (nms : list name) (R : list ((Z * Z) * list V)) (c : nat).
    Hypothesis Hnd : NoDup nms.
    Hypothesis Hc : length nms = c.
    Hypothesis Hc1 : (1 <= c)%nat.
    Hypothesis HR1 : R <> [].
    Hypothesis Hrows : forall r, In r R -> length (snd r) = c.
    Hypothesis Hkeys : Sorted key_lt (map fst R).

    Let M := mkM nms R.
    Definition tag_row (r : (Z * Z) * list V) : list (lrow V) :=
      map (fun nv => (r_inst r, fst nv, r_time r, snd nv)) (combine nms (snd r)).
    Definition melt_rowmajor : long V := flat_map tag_row R.

    Lemma tagged_rect : rect (length R) c (tagged M).
    Proof.
      unfold tagged, M. cbn [m_rows m_cols]. split; [apply map_length|].
      apply Forall_forall. intros x Hx. apply in_map_iff in Hx. destruct Hx as [r [<- Hr]].
      rewrite map_length, combine_length, (Hrows r Hr), Hc. lia.
    Qed.

    Lemma melt_perm : Permutation melt_rowmajor (mi_melt M).
    Proof.
      unfold mi_melt. symmetry. cbn [m_cols M]. rewrite Hc.
      rewrite (concat_transpose_perm _ _ _ tagged_rect).
      unfold melt_rowmajor. rewrite flat_map_concat_map. apply Permutation_refl.
    Qed.

    Lemma tag_row_key r e : In e (tag_row r) -> l_key e = fst r.
    Proof.
      unfold tag_row. intro H. apply in_map_iff in H. destruct H as [nv [<- _]].
      destruct r as [[i t] row]. reflexivity.
    Qed.

    Lemma tag_row_dims r : In r R -> map l_dim (tag_row r) = nms.
    Proof.
      intro Hr. unfold tag_row. rewrite map_map. cbn [l_dim].
      change (fun x : name * V => fst x) with (@fst name V).
      apply map_fst_combine. rewrite (Hrows r Hr). exact Hc.
    Qed.

    Lemma filter_tag_row k d r :
      map l_val (filter (matches k d) (tag_row r)) =
      if key_eqb (fst r) k then pick d nms (snd r) else [].
    Proof.
      unfold tag_row, matches. rewrite filter_map_comm, map_map. cbn [l_val l_key l_dim].
      destruct r as [[i t] row]. cbn [r_inst r_time fst snd].
      destruct (key_eqb (i, t) k); cbn [andb].
      - reflexivity.
      - rewrite filter_none; reflexivity.
    Qed.

    Lemma melt_rowmajor_cell r d :
      In r R ->
      map l_val (filter (matches (fst r) d) melt_rowmajor) = pick d nms (snd r).
    Proof.
      intro Hr. unfold melt_rowmajor. rewrite filter_flat_map, map_flat_map.
      pose proof (key_sorted_NoDup _ Hkeys) as Hnk. clear Hkeys HR1 M.
      induction R as [|r0 R' IH]; [destruct Hr|]. cbn [flat_map].
      cbn [map] in Hnk. inversion Hnk as [|? ? Hnotin Hnk']; subst.
      rewrite filter_tag_row. destruct Hr as [->|Hr].
      - rewrite (proj2 (key_eqb_eq _ _) eq_refl).
        rewrite flat_map_nil; [apply app_nil_r|].
        intros r' Hr'. rewrite filter_tag_row.
        destruct (key_eqb (fst r') (fst r)) eqn:E; [|reflexivity].
        apply key_eqb_eq in E. exfalso. apply Hnotin. rewrite <- E. apply in_map. exact Hr'.
      - destruct (key_eqb (fst r0) (fst r)) eqn:E.
        + apply key_eqb_eq in E. exfalso. apply Hnotin. rewrite E. apply in_map. exact Hr.
        + cbn [app]. apply IH; [|exact Hr|exact Hnk'].
          intros r' Hr'. apply Hrows. right. exact Hr'.
    Qed.

    Lemma melt_rowmajor_uniq : uniq_cells melt_rowmajor.
    Proof.
      intros k d. rewrite <- (map_length l_val).
      unfold melt_rowmajor. rewrite filter_flat_map, map_flat_map.
      pose proof (key_sorted_NoDup _ Hkeys) as Hnk. clear Hkeys HR1 M Hrows.
      induction R as [|r0 R' IH]; [cbn; lia|]. cbn [flat_map map] in *.
      inversion Hnk as [|? ? Hnotin Hnk']; subst. rewrite app_length, filter_tag_row.
      destruct (key_eqb (fst r0) k) eqn:E.
      - apply key_eqb_eq in E. subst k. rewrite flat_map_nil.
        + pose proof (pick_length_le d nms (snd r0) Hnd). cbn. lia.
        + intros r' Hr'. rewrite filter_tag_row.
          destruct (key_eqb (fst r') (fst r0)) eqn:E; [|reflexivity].
          apply key_eqb_eq in E. exfalso. apply Hnotin. rewrite <- E. apply in_map. exact Hr'.
      - cbn. apply IH. exact Hnk'.
    Qed.

    Lemma melt_rowmajor_dims : sort_names (map l_dim melt_rowmajor) = sort_names nms.
    Proof.
      apply sort_names_same. intro d. unfold melt_rowmajor. rewrite map_flat_map. split.
      - intro H. apply in_flat_map in H. destruct H as [r [Hr H]].
        rewrite (tag_row_dims r Hr) in H. exact H.
      - intro H.
        assert (Hex : exists r0, In r0 R).
        { clear - HR1. destruct R as [|r0 ?]; [congruence|]. exists r0. left. reflexivity. }
        destruct Hex as [r0 Hr0].
        apply in_flat_map. exists r0. split; [exact Hr0|].
        rewrite tag_row_dims; [exact H|exact Hr0].
    Qed.

    Lemma melt_rowmajor_keys : sort_keys (map l_key melt_rowmajor) = map fst R.
    Proof.
      rewrite <- (sort_keys_of_sorted _ Hkeys). apply sort_keys_same. intro k.
      unfold melt_rowmajor. rewrite map_flat_map. split.
      - intro H. apply in_flat_map in H. destruct H as [r [Hr H]].
        apply in_map_iff in H. destruct H as [e [<- He]]. rewrite (tag_row_key r e He).
        apply in_map. exact Hr.
      - intro H. apply in_map_iff in H. destruct H as [r [<- Hr]].
        apply in_flat_map. exists r. split; [exact Hr|].
        pose proof (tag_row_dims r Hr) as Hd.
        destruct (tag_row r) as [|e t] eqn:E.
        { cbn in Hd. rewrite <- Hd in Hc. cbn in Hc. lia. }
        cbn [map]. left. apply tag_row_key. rewrite E. left. reflexivity.
    Qed.

    (* pivot of melt = the same frame with its columns reordered by identifier *)
    Definition reorder_rows (s : list name) : list ((Z * Z) * list V) :=
      map (fun r => (fst r, select s nms (snd r))) R.

    Lemma pivot_melt_rowmajor :
      long_pivot melt_rowmajor = mkM (sort_names nms) (reorder_rows (sort_names nms)).
    Proof.
      unfold long_pivot. fold sort_names sort_keys.
      rewrite melt_rowmajor_dims, melt_rowmajor_keys. f_equal.
      unfold reorder_rows. rewrite map_map. apply map_ext_in. intros r Hr. f_equal.
      unfold select. apply flat_map_ext_in. intros d _.
      apply (melt_rowmajor_cell r d Hr).
    Qed.

    Lemma pivot_melt :
      long_pivot (mi_melt M) = mkM (sort_names nms) (reorder_rows (sort_names nms)).
    Proof.
      rewrite <- (long_pivot_perm _ _ melt_rowmajor_uniq melt_perm). apply pivot_melt_rowmajor.
    Qed.
  End Melt.
End Pivot.
