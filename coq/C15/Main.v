(* C15: the property's sentences, assembled from Proofs / Long / Paths in the form Props.v states. *)
From Coq Require Import ZArith List Bool Lia Permutation Sorted.
Require Import SkV.Lib.Base SkV.C15.Model SkV.C15.Lemmas SkV.C15.Proofs SkV.C15.Long SkV.C15.Paths.
Import ListNotations.
Open Scope Z_scope.

Lemma Forall2_map_l {A B} (f : A -> B) (P : B -> A -> Prop) l :
  (forall a, In a l -> P (f a) a) -> Forall2 P (map f l) l.
Proof.
  induction l as [|a l IH]; intro H; cbn [map]; constructor.
  - apply H. left. reflexivity.
  - apply IH. intros a' Ha'. apply H. right. exact Ha'.
Qed.

Section Main.
  Context {V : Type}.
  Implicit Types (x : nested V) (X p : panel V) (m : mi V).

  Definition wf_nested (n c T : nat) x : Prop :=
    wf_panel n c T (n_rows x) /\ length (n_cols x) = c /\ NoDup (n_cols x).

  Lemma wf_nestedb_iff n c T x : wf_nestedb n c T x = true <-> wf_nested n c T x.
  Proof.
    unfold wf_nestedb, wf_nested. rewrite !andb_true_iff, wf_panelb_iff, Nat.eqb_eq, distinctb_NoDup.
    tauto.
  Qed.

  Lemma wf_reflect n c T x p :
    (wf_panelb n c T p = true <-> wf_panel n c T p) /\
    (wf_nestedb n c T x = true <-> wf_nested n c T x).
  Proof. split; [apply wf_panelb_iff|apply wf_nestedb_iff]. Qed.

  (* --- round trips --- *)

  Lemma main_roundtrip_nested_3d n c T x :
    wf_nested n c T x ->
    a3_to_nested (Some (n_cols x)) (n_kind x) (nested_to_3d x) = x /\
    (forall cn k, nested_to_3d (a3_to_nested cn k (nested_to_3d x)) = nested_to_3d x).
  Proof.
    intros [Hwf [Hc Hnd]]. unfold nested_to_3d. split.
    - rewrite (a3_to_nested_eq n c T _ Hwf). destruct x; reflexivity.
    - intros cn k. rewrite (a3_to_nested_eq n c T _ Hwf). reflexivity.
  Qed.

  Lemma main_roundtrip_3d_mi n c T X cn :
    wf_panel n c T X -> names_ok c cn ->
    mi_to_3d (a3_to_mi cn X) = X /\
    a3_to_mi (Some (m_cols (a3_to_mi cn X))) (mi_to_3d (a3_to_mi cn X)) = a3_to_mi cn X.
  Proof.
    intros Hwf Hn. rewrite (a3_to_mi_eq n c T X Hwf).
    rewrite (mi_to_3d_rows n c T X Hwf _ (names_or_default_length cn c Hn)).
    split; [reflexivity|]. rewrite (a3_to_mi_eq n c T X Hwf). reflexivity.
  Qed.

  Lemma main_roundtrip_nested_mi n c T x :
    wf_nested n c T x ->
    mi_to_nested (n_kind x) (nested_to_mi x) = x /\
    (forall k, nested_to_mi (mi_to_nested k (nested_to_mi x)) = nested_to_mi x).
  Proof.
    intros [Hwf [Hc Hnd]]. destruct x as [k cols rows]. cbn [n_kind n_cols n_rows] in *.
    rewrite (nested_to_mi_eq n c T rows Hwf). split.
    - apply (mi_to_nested_rows n c T rows Hwf). exact Hc.
    - intro k'. rewrite (mi_to_nested_rows n c T rows Hwf _ _ Hc).
      apply (nested_to_mi_eq n c T rows Hwf).
  Qed.

  Lemma main_roundtrip_nested_long n c T x cn :
    wf_nested n c T x ->
    long_to_nested cn (nested_to_long x) =
    mkN KSeries (names_or_sorted cn (n_cols x)) (sort_vars (n_cols x) (n_rows x)) /\
    wf_panel n c T (sort_vars (n_cols x) (n_rows x)).
  Proof.
    intros [Hwf [Hc Hnd]]. destruct x as [k cols rows]. cbn [n_kind n_cols n_rows] in *.
    unfold nested_to_long. rewrite (nested_to_mi_eq n c T rows Hwf). split.
    - apply (long_roundtrip n c T rows cols Hwf Hnd Hc).
    - apply (sort_vars_wf n c T rows cols Hwf Hnd Hc).
  Qed.

  (* nested -> long -> nested (no column_names): the frame that comes back is well-formed, has the
     original identifiers (sorted), and instance by instance every identifier labels the very
     series it labelled before *)
  Lemma main_names_stay_with_data n c T x :
    wf_nested n c T x ->
    let y := long_to_nested None (nested_to_long x) in
    wf_nested n c T y /\ n_kind y = KSeries /\
    n_cols y = sort_names (n_cols x) /\ Permutation (n_cols y) (n_cols x) /\
    Forall2 (fun ry rx => forall d, In d (n_cols x) ->
                          pick d (n_cols y) ry = pick d (n_cols x) rx /\
                          length (pick d (n_cols x) rx) = 1%nat)
            (n_rows y) (n_rows x).
  Proof.
    intros Hx. pose proof Hx as [Hwf [Hc Hnd]].
    destruct (main_roundtrip_nested_long n c T x None Hx) as [Heq Hwf']. cbn zeta.
    rewrite Heq. cbn [n_kind n_cols n_rows names_or_sorted].
    assert (Hnd' : NoDup (sort_names (n_cols x))) by (apply sorted_names_NoDup; exact Hnd).
    split; [|split; [reflexivity|split; [reflexivity|split; [apply sort_names_perm; exact Hnd|]]]].
    - split; [exact Hwf'|]. split; [apply sorted_names_length; assumption|exact Hnd'].
    - unfold sort_vars. apply Forall2_map_l. intros rx Hrx d Hd.
      destruct (wf_inst n c T _ Hwf rx Hrx) as [Hl _].
      assert (Hlen : length (n_cols x) = length rx) by lia. split.
      + apply pick_select; try assumption.
        * intros d'. apply sort_names_In.
        * apply sort_names_In. exact Hd.
      + apply pick_length_1; assumption.
  Qed.

  Lemma main_long_orders_by_identifier :
    (* whatever the long table, the pivoted variables come out sorted by identifier *)
    (forall L : long V, Sorted name_lt (m_cols (long_pivot L))) /\
    (forall n c T x, wf_nested n c T x ->
       (* after nested -> long -> nested each instance holds its variables in the order of the
          sorted identifiers: a rearrangement of the original variables ... *)
       Sorted name_lt (sort_names (n_cols x)) /\
       Permutation (sort_names (n_cols x)) (n_cols x) /\
       (forall inst, In inst (n_rows x) ->
          Permutation (select (sort_names (n_cols x)) (n_cols x) inst) inst) /\
       (* ... and the original order itself when the identifiers were already increasing *)
       (Sorted name_lt (n_cols x) -> sort_vars (n_cols x) (n_rows x) = n_rows x)).
  Proof.
    split.
    - intro L. unfold long_pivot. cbn [m_cols]. apply sort_names_sorted.
    - intros n c T x [Hwf [Hc Hnd]]. split; [apply sort_names_sorted|].
      split; [apply sort_names_perm; exact Hnd|]. split.
      + intros inst Hi. apply (sort_vars_perm n c T _ _ Hwf Hnd Hc inst Hi).
      + apply (sort_vars_sorted n c T _ _ Hwf Hnd Hc).
  Qed.

  Lemma main_long_row_order_irrelevant n c T x cn (L : long V) :
    wf_nested n c T x -> Permutation (nested_to_long x) L ->
    long_to_nested cn L = long_to_nested cn (nested_to_long x).
  Proof.
    intros [Hwf [Hc Hnd]]. destruct x as [k cols rows]. cbn [n_kind n_cols n_rows] in *.
    unfold nested_to_long. rewrite (nested_to_mi_eq n c T rows Hwf).
    apply (long_shuffle n c T rows cols Hwf Hnd Hc).
  Qed.

  Lemma main_roundtrip_2d :
    (forall k (t : tab2 V), nested_to_2d (tab_to_nested k t) = t) /\
    (forall k x, tab_to_nested k (nested_to_2d x) = mkN k [NInt 0] (flattenp (n_rows x))) /\
    (forall k X, tab_to_nested k (a3_to_2d X) = mkN k [NInt 0] (flattenp X)) /\
    (forall n T p, wf_panel n 1 T p -> flattenp p = p) /\
    (forall n c T p, wf_panel n c T p -> wf_panel n 1 (c * T) (flattenp p)).
  Proof.
    split; [apply tab_roundtrip|]. split; [intros k x; apply tab_to_nested_flat|].
    split; [intros k X; apply tab_to_nested_flat|]. split; [apply flattenp_univariate|].
    apply flattenp_wf.
  Qed.

  (* --- any path equals the direct conversion --- *)

  Lemma main_direct_equals_indirect n c T x :
    wf_nested n c T x ->
    nested_to_mi x = a3_to_mi (Some (n_cols x)) (nested_to_3d x) /\
    nested_to_2d x = a3_to_2d (nested_to_3d x) /\
    nested_to_3d x = mi_to_3d (nested_to_mi x) /\
    (forall k, a3_to_nested (Some (n_cols x)) k (nested_to_3d x) =
               mi_to_nested k (a3_to_mi (Some (n_cols x)) (nested_to_3d x))) /\
    (forall k, mi_to_nested k (nested_to_mi x) =
               a3_to_nested (Some (n_cols x)) k (mi_to_3d (nested_to_mi x))).
  Proof.
    intros [Hwf [Hc Hnd]]. destruct x as [k0 cols rows]. cbn [n_kind n_cols n_rows] in *.
    unfold nested_to_3d. cbn [n_rows].
    rewrite (nested_to_mi_eq n c T rows Hwf), (a3_to_mi_eq n c T rows Hwf).
    rewrite (mi_to_3d_rows n c T rows Hwf _ Hc). cbn [names_or_default].
    repeat split.
    - intro k. rewrite (a3_to_nested_eq n c T rows Hwf), (mi_to_nested_rows n c T rows Hwf _ _ Hc).
      reflexivity.
    - intro k. rewrite (a3_to_nested_eq n c T rows Hwf), (mi_to_nested_rows n c T rows Hwf _ _ Hc).
      reflexivity.
  Qed.

  Lemma main_lossless_paths_keep_data es t (c : @cpanel V) r :
    cwf c -> path_ok es (t, c) -> forallb lossless es = true ->
    run_path es (render t c) = Ok r ->
    exists t' c', r = render t' c' /\ c_data c' = c_data c /\ cwf c'.
  Proof.
    intros Hc Hp Hl Hr. rewrite (path_factor es t c Hc Hp) in Hr.
    destruct (sem_path es (t, c)) as [[t' c']|] eqn:E; [|discriminate].
    cbn in Hr. inversion Hr; subst r. exists t', c'. split; [reflexivity|]. split.
    - eapply lossless_path_data; eassumption.
    - eapply path_wf; eassumption.
  Qed.

  (* --- check_X --- *)

  Lemma main_check_X n c T X x :
    wf_panel n c T X ->
    (forall r : rep V, check_X true true r = Err) /\
    check_X false true (RA X) = Ok (RN (mkN KSeries (default_names c) X)) /\
    check_X true false (RN x) = Ok (RA (n_rows x)) /\
    (forall a, check_X a false (RA X) = Ok (RA X)) /\
    (forall b, check_X false b (RN x) = Ok (RN x)) /\
    (forall r : rep V, match r with RN _ | RA _ | RNI _ _ => True
                                   | _ => forall a b, check_X a b r = Err end).
  Proof.
    intro Hwf. unfold check_X. cbn [andb]. repeat split.
    - rewrite (a3_to_nested_eq n c T X Hwf). reflexivity.
    - intro a. rewrite andb_false_r. reflexivity.
    - intros r. destruct r; try exact I; intros a b; destruct (a && b); reflexivity.
  Qed.

  (* --- shapes --- *)

  Lemma tag_row_length nms (r : (Z * Z) * list V) :
    length nms = length (snd r) -> length (tag_row nms r) = length nms.
  Proof. intro H. unfold tag_row. rewrite map_length, combine_length. lia. Qed.

  Lemma main_shapes n c T x :
    wf_nested n c T x ->
    length (m_rows (nested_to_mi x)) = (n * T)%nat /\
    (forall r, In r (m_rows (nested_to_mi x)) -> length (snd r) = c) /\
    length (nested_to_long x) = (n * T * c)%nat /\
    rect n (c * T) (nested_to_2d x) /\
    rect n c (nested_to_3d x) /\ (forall inst, In inst (nested_to_3d x) -> rect c T inst).
  Proof.
    intros [Hwf [Hc Hnd]]. destruct x as [k cols rows]. cbn [n_kind n_cols n_rows] in *.
    unfold nested_to_long, nested_to_2d, nested_to_3d.
    rewrite (nested_to_mi_eq n c T rows Hwf). cbn [m_rows n_rows].
    split; [apply (mi_rows_length n c T rows Hwf)|].
    split; [apply (mi_rows_width n c T rows Hwf)|].
    split.
    - assert (Hc1 : (1 <= c)%nat) by (destruct Hwf; lia).
      rewrite <- (Permutation_length
                    (melt_perm cols (mi_rows T rows) c Hc Hc1 (mi_rows_width n c T rows Hwf))).
      unfold melt_rowmajor. rewrite <- (mi_rows_length n c T rows Hwf).
      pose proof (mi_rows_width n c T rows Hwf) as Hw.
      induction (mi_rows T rows) as [|r R IH]; [reflexivity|]. cbn [flat_map length].
      rewrite app_length, tag_row_length, IH.
      + lia.
      + intros r' Hr'. apply Hw. right. exact Hr'.
      + rewrite Hw by (left; reflexivity). exact Hc.
    - split; [apply (tab_shape n c T rows Hwf)|].
      split; [apply (wf_rect_series n c T rows Hwf)|apply (wf_inst n c T rows Hwf)].
  Qed.
End Main.
