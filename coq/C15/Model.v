(* C15 model: panel data containers of sktime/utils/data_processing.py as list structures,
   polymorphic in the value type V, and every from_<a>_to_<b> conversion as a list function that
   follows the algorithm of the Python function (column-wise / instance-wise loops, reshape +
   swapaxes, melt, key-based pivot).  Executable definitions only; tied to the code (a) by
   Bridge.v / BridgeMI.v: every conversion function as regenerated from the Python source
   (translator/panel_c15.py -> Gen.v) equals the function of this file on the containers of the
   property, and (b) by the correspondence run (Cases.v). *)
From Coq Require Import ZArith List Bool Lia.
Require Import SkV.Lib.Base.
Import ListNotations.
Open Scope Z_scope.

(* ---------------------------------------------------------------------------------------------- *)
(* column identifiers: a str (list of code points) or an int label *)

Inductive name := NStr (codes : list Z) | NInt (z : Z).

Fixpoint zlist_eqb (a b : list Z) : bool :=
  match a, b with
  | [], [] => true
  | x :: a', y :: b' => (x =? y) && zlist_eqb a' b'
  | _, _ => false
  end.

(* Python's str `<` : lexicographic by code point, a proper prefix is smaller *)
Fixpoint zlist_ltb (a b : list Z) : bool :=
  match a, b with
  | _, [] => false
  | [], _ :: _ => true
  | x :: a', y :: b' => (x <? y) || ((x =? y) && zlist_ltb a' b')
  end.

Definition name_eqb (a b : name) : bool :=
  match a, b with
  | NStr x, NStr y => zlist_eqb x y
  | NInt x, NInt y => x =? y
  | _, _ => false
  end.

(* int labels compare numerically, str labels lexicographically; an int/str mix cannot be sorted
   by pandas at all (outside the scope), the model puts ints first to stay total *)
Definition name_ltb (a b : name) : bool :=
  match a, b with
  | NStr x, NStr y => zlist_ltb x y
  | NInt x, NInt y => x <? y
  | NInt _, NStr _ => true
  | NStr _, NInt _ => false
  end.

(* str(i): decimal digits as code points (most significant first, "-" for negatives) *)
Fixpoint uint_codes (u : Decimal.uint) : list Z :=
  match u with
  | Decimal.Nil => []
  | Decimal.D0 u => 48 :: uint_codes u | Decimal.D1 u => 49 :: uint_codes u
  | Decimal.D2 u => 50 :: uint_codes u | Decimal.D3 u => 51 :: uint_codes u
  | Decimal.D4 u => 52 :: uint_codes u | Decimal.D5 u => 53 :: uint_codes u
  | Decimal.D6 u => 54 :: uint_codes u | Decimal.D7 u => 55 :: uint_codes u
  | Decimal.D8 u => 56 :: uint_codes u | Decimal.D9 u => 57 :: uint_codes u
  end.
Definition digit_codes (z : Z) : list Z :=
  match Z.to_int z with
  | Decimal.Pos u => uint_codes u
  | Decimal.Neg u => 45 :: uint_codes u
  end.

(* _make_column_names: f"var_{i}" *)
Definition default_name (i : Z) : name := NStr ([118; 97; 114; 95] ++ digit_codes i).

Fixpoint ziota (s : Z) (k : nat) : list Z :=
  match k with O => [] | S k' => s :: ziota (s + 1) k' end.

Definition default_names (c : nat) : list name := map default_name (ziota 0 c).

Definition names_or_default (cn : option (list name)) (c : nat) : list name :=
  match cn with Some l => l | None => default_names c end.

(* ---------------------------------------------------------------------------------------------- *)
(* generic list helpers *)

Definition enum {A} (l : list A) : list (Z * A) := combine (ziota 0 (length l)) l.

Definition heads {A} (m : list (list A)) : list A :=
  flat_map (fun r => match r with [] => [] | a :: _ => [a] end) m.
Definition tails {A} (m : list (list A)) : list (list A) := map (@tl A) m.

(* the w columns of a row-major matrix with rows of length w *)
Fixpoint transpose {A} (w : nat) (m : list (list A)) : list (list A) :=
  match w with
  | O => []
  | S w' => heads m :: transpose w' (tails m)
  end.

(* numpy reshape(n, k, ...) of a flat list of rows: n consecutive blocks of k rows *)
Fixpoint chunk_n {A} (n k : nat) (l : list A) : list (list A) :=
  match n with
  | O => []
  | S n' => firstn k l :: chunk_n n' k (skipn k l)
  end.

(* pd.unique / Index.unique: distinct values in order of first appearance *)
Fixpoint uniqz (l : list Z) : list Z :=
  match l with
  | [] => []
  | x :: t => x :: filter (fun y => negb (y =? x)) (uniqz t)
  end.

(* sorted distinct values (what pivot / unstack do to the labels of an axis) *)
Section SortU.
  Context {K : Type} (ltb eqb : K -> K -> bool).
  Fixpoint insert_u (x : K) (l : list K) : list K :=
    match l with
    | [] => [x]
    | y :: l' => if ltb x y then x :: l else if eqb x y then l else y :: insert_u x l'
    end.
  Definition sort_u (l : list K) : list K := fold_right insert_u [] l.
End SortU.

Definition key_ltb (a b : Z * Z) : bool :=
  (fst a <? fst b) || ((fst a =? fst b) && (snd a <? snd b)).
Definition key_eqb (a b : Z * Z) : bool := (fst a =? fst b) && (snd a =? snd b).

(* ---------------------------------------------------------------------------------------------- *)
(* representations *)

Inductive cellkind := KSeries | KArray.

Section Containers.
  Context {V : Type}.

  (* canonical panel: instance x variable x time *)
  Definition panel := list (list (list V)).

  (* nested DataFrame: rows of cells, each cell a series (pd.Series or np.ndarray by n_kind) *)
  Record nested := mkN { n_kind : cellkind; n_cols : list name; n_rows : panel }.
  (* 3-D array (n_instances, n_columns, n_timepoints) *)
  Definition arr3 := panel.
  (* multi-index DataFrame: ((instance, timepoint), row of variables), in row order *)
  Record mi := mkM { m_cols : list name; m_rows : list ((Z * Z) * list V) }.
  (* long table: rows (case_id, dim_id, reading_id, value) *)
  Definition lrow := (Z * name * Z * V)%type.
  Definition long := list lrow.
  (* 2-D table: instance x (variable-major flattened values) *)
  Definition tab2 := list (list V).

  (* RN x: a nested frame with the default row index 0..n-1;  RNI idx x: one whose rows (instances)
     carry the labels idx.  Every conversion that BUILDS a nested frame returns the default index;
     the labels of an input frame are read by nested -> multi-index / long (they become the
     instance level / the case ids) and otherwise ignored (instances are taken by position). *)
  Inductive rep := RN (x : nested) | RA (x : arr3) | RM (x : mi) | RL (x : long) | RT (x : tab2)
                 | RNI (idx : list Z) (x : nested).

  Definition shape_cols (X : arr3) : nat := length (hd [] X).
  Definition shape_time (X : arr3) : nat := length (hd [] (hd [] X)).

  (* --- nested <-> 3-D ------------------------------------------------------------------------ *)

  (* np.stack(rows of np.stack(cells)) *)
  Definition nested_to_3d (x : nested) : arr3 := n_rows x.

  (* for j, column in enumerate(column_names): df[column] = [container(X[i, j, :]) for i] *)
  Definition a3_to_nested (cn : option (list name)) (k : cellkind) (X : arr3) : nested :=
    let c := shape_cols X in
    mkN k (names_or_default cn c) (transpose (length X) (transpose c X)).

  (* --- 3-D / nested <-> multi-index ---------------------------------------------------------- *)

  (* per instance: the (time x variable) block, keyed (instance, time) *)
  Definition block_rows (T : nat) (ii : Z * list (list V)) : list ((Z * Z) * list V) :=
    map (fun tr => ((fst ii, fst tr), snd tr)) (enum (transpose T (snd ii))).

  (* X.flatten() with the product index, then unstack(level="columns") *)
  Definition a3_to_mi (cn : option (list name)) (X : arr3) : mi :=
    mkM (names_or_default cn (shape_cols X)) (flat_map (block_rows (shape_time X)) (enum X)).

  (* per instance pd.concat(cells, axis=1) with MultiIndex.from_product([[idx], instance.index]) *)
  Definition nested_to_mi (x : nested) : mi :=
    mkM (n_cols x)
        (flat_map (fun ii => block_rows (length (hd [] (snd ii))) ii) (enum (n_rows x))).

  (* the same with explicit instance labels: X.index.unique() in order of appearance, X.loc[label] *)
  Definition nested_to_mi_idx (idx : list Z) (x : nested) : mi :=
    mkM (n_cols x)
        (flat_map (fun ii => block_rows (length (hd [] (snd ii))) ii) (combine idx (n_rows x))).

  Definition r_inst (r : (Z * Z) * list V) : Z := fst (fst r).
  Definition r_time (r : (Z * Z) * list V) : Z := snd (fst r).

  (* X.values.reshape(n_instances, n_timepoints, n_columns).swapaxes(1, 2), the counts being the
     numbers of distinct labels of the two index levels *)
  Definition mi_to_3d (m : mi) : arr3 :=
    let n := length (uniqz (map r_inst (m_rows m))) in
    let T := length (uniqz (map r_time (m_rows m))) in
    map (transpose (length (m_cols m))) (chunk_n n T (map snd (m_rows m))).

  (* for every column and every distinct instance label: series.xs(label) *)
  Definition mi_to_nested (k : cellkind) (m : mi) : nested :=
    let ids := uniqz (map r_inst (m_rows m)) in
    mkN k (m_cols m)
        (map (fun id => transpose (length (m_cols m))
                          (map snd (filter (fun r => r_inst r =? id) (m_rows m)))) ids).

  (* --- nested <-> long ----------------------------------------------------------------------- *)

  Definition l_key (e : lrow) : Z * Z := let '(i, _, t, _) := e in (i, t).
  Definition l_dim (e : lrow) : name := let '(_, d, _, _) := e in d.
  Definition l_val (e : lrow) : V := let '(_, _, _, v) := e in v.

  (* every cell of the multi-index frame with its three labels *)
  Definition tagged (m : mi) : list (list lrow) :=
    map (fun r => map (fun nv => (r_inst r, fst nv, r_time r, snd nv)) (combine (m_cols m) (snd r)))
        (m_rows m).

  (* reset_index + melt: one block of rows per value column, in column order *)
  Definition mi_melt (m : mi) : long := concat (transpose (length (m_cols m)) (tagged m)).

  Definition nested_to_long (x : nested) : long := mi_melt (nested_to_mi x).

  (* DataFrame.pivot(index=[case, reading], columns=dim, values=value): sorted distinct row keys,
     sorted distinct column labels, each cell looked up by its labels *)
  Definition long_pivot (L : long) : mi :=
    let dims := sort_u name_ltb name_eqb (map l_dim L) in
    let keys := sort_u key_ltb key_eqb (map l_key L) in
    mkM dims
        (map (fun k => (k, flat_map (fun d => map l_val
                             (filter (fun e => key_eqb (l_key e) k && name_eqb (l_dim e) d) L)) dims))
             keys).

  (* `if column_names is not None: X_nested.columns = column_names` *)
  Definition rename_cols (cn : option (list name)) (x : nested) : nested :=
    match cn with Some l => mkN (n_kind x) l (n_rows x) | None => x end.

  (* pivot, from_multi_index_to_nested; the columns keep the (sorted) dimension identifiers of the
     long table unless `column_names` is passed *)
  Definition long_to_nested (cn : option (list name)) (L : long) : nested :=
    rename_cols cn (mi_to_nested KSeries (long_pivot L)).

  (* --- 2-D table ----------------------------------------------------------------------------- *)

  (* np.hstack of the per-column (instance x time) blocks *)
  Definition nested_to_2d (x : nested) : tab2 := map (@concat V) (n_rows x).
  (* X.reshape(n_instances, -1) *)
  Definition a3_to_2d (X : arr3) : tab2 := map (@concat V) X.
  (* one column (label 0) holding each row as one series *)
  Definition tab_to_nested (k : cellkind) (t : tab2) : nested :=
    mkN k [NInt 0] (map (fun r => [r]) t).

  (* --- check_X coercions --------------------------------------------------------------------- *)

  Definition check_X (to_np to_pd : bool) (r : rep) : res rep :=
    if to_np && to_pd then Err
    else match r with
         | RA X => Ok (if to_pd then RN (a3_to_nested None KSeries X) else RA X)
         | RN x => Ok (if to_np then RA (nested_to_3d x) else RN x)
         | RNI idx x => Ok (if to_np then RA (nested_to_3d x) else RNI idx x)
         | _ => Err     (* a 2-D array, or a DataFrame without series-valued cells *)
         end.

  (* --- conversion paths ---------------------------------------------------------------------- *)

  Inductive edge :=
    | E_N_A | E_A_N (cn : option (list name)) (k : cellkind)
    | E_A_M (cn : option (list name)) | E_M_A
    | E_N_M | E_M_N (k : cellkind)
    | E_N_L | E_L_N (cn : option (list name))
    | E_N_T | E_A_T | E_T_N (k : cellkind)
    | E_CheckX (to_np to_pd : bool).

  Definition apply_edge (e : edge) (r : rep) : res rep :=
    match e, r with
    | E_N_A, RN x => Ok (RA (nested_to_3d x))
    | E_A_N cn k, RA X => Ok (RN (a3_to_nested cn k X))
    | E_A_M cn, RA X => Ok (RM (a3_to_mi cn X))
    | E_M_A, RM m => Ok (RA (mi_to_3d m))
    | E_N_M, RN x => Ok (RM (nested_to_mi x))
    | E_M_N k, RM m => Ok (RN (mi_to_nested k m))
    | E_N_L, RN x => Ok (RL (nested_to_long x))
    | E_L_N cn, RL L => Ok (RN (long_to_nested cn L))
    | E_N_T, RN x => Ok (RT (nested_to_2d x))
    | E_A_T, RA X => Ok (RT (a3_to_2d X))
    | E_T_N k, RT t => Ok (RN (tab_to_nested k t))
    | E_N_A, RNI _ x => Ok (RA (nested_to_3d x))
    | E_N_M, RNI idx x => Ok (RM (nested_to_mi_idx idx x))
    | E_N_L, RNI idx x => Ok (RL (mi_melt (nested_to_mi_idx idx x)))
    | E_N_T, RNI _ x => Ok (RT (nested_to_2d x))
    | E_CheckX a b, _ => check_X a b r
    | _, _ => Err
    end.

  Fixpoint run_path (es : list edge) (r : rep) : res rep :=
    match es with
    | [] => Ok r
    | e :: es' => match apply_edge e r with Ok r' => run_path es' r' | Err => Err end
    end.

  (* --- nestedness predicates on arbitrary frames --------------------------------------------- *)

  Inductive cell := CPrim (v : V) | CSer (l : list V) | CArr (l : list V) | CObj.
  Record frame := mkF { f_ncol : nat; f_rows : list (list cell) }.

  (* _cell_is_series_or_array *)
  Definition cell_nested (c : cell) : bool :=
    match c with CSer _ | CArr _ => true | _ => false end.

  (* X.applymap(_cell_is_series_or_array).any().values : per column *)
  Definition are_columns_nested (f : frame) : list bool :=
    map (existsb (fun b => b)) (transpose (f_ncol f) (map (map cell_nested) (f_rows f))).

  Definition is_nested_dataframe (f : frame) : bool :=
    existsb (fun b => b) (are_columns_nested f).

  Definition frame_of_nested (x : nested) : frame :=
    mkF (length (n_cols x))
        (map (map (fun s => match n_kind x with KSeries => CSer s | KArray => CArr s end)) (n_rows x)).
  Definition frame_of_prims (ncol : nat) (rows : list (list V)) : frame :=
    mkF ncol (map (map CPrim) rows).

  (* --- well-formed rectangular panels -------------------------------------------------------- *)

  Definition rectb (h w : nat) {A} (m : list (list A)) : bool :=
    (length m =? h)%nat && forallb (fun r => (length r =? w)%nat) m.

  (* n instances x c variables x T time points, n >= 1, c >= 1, T >= 2 *)
  Definition wf_panelb (n c T : nat) (p : panel) : bool :=
    (1 <=? n)%nat && (1 <=? c)%nat && (2 <=? T)%nat &&
    (length p =? n)%nat && forallb (rectb c T) p.

  Fixpoint distinctb (l : list name) : bool :=
    match l with
    | [] => true
    | a :: t => negb (existsb (name_eqb a) t) && distinctb t
    end.

  Definition wf_nestedb (n c T : nat) (x : nested) : bool :=
    wf_panelb n c T (n_rows x) && (length (n_cols x) =? c)%nat && distinctb (n_cols x).
End Containers.

Arguments panel : clear implicits.
Arguments nested : clear implicits.
Arguments arr3 : clear implicits.
Arguments mi : clear implicits.
Arguments lrow : clear implicits.
Arguments long : clear implicits.
Arguments tab2 : clear implicits.
Arguments rep : clear implicits.
Arguments cell : clear implicits.
Arguments frame : clear implicits.
