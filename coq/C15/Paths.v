(* C15 proofs, part 3: the long-table round trip on panels, the canonical panel every container
   is a rendering of, and the factorisation of every conversion path through it. *)
From Coq Require Import ZArith List Bool Lia Permutation Sorted DecimalZ.
Require Import SkV.Lib.Base SkV.C15.Model SkV.C15.Lemmas SkV.C15.Proofs SkV.C15.Long.
Import ListNotations.
Open Scope Z_scope.

(* ---------------------------------------------------------------------------------------------- *)
(* default names var_0, var_1, ... are pairwise distinct *)

Lemma uint_codes_inj u u' : uint_codes u = uint_codes u' -> u = u'.
Proof.
  revert u'. induction u; destruct u'; cbn; intro H; try discriminate; try reflexivity;
    f_equal; apply IHu; congruence.
Qed.

Lemma uint_codes_no_minus u l : uint_codes u <> 45 :: l.
Proof. destruct u; cbn; congruence. Qed.

Lemma digit_codes_inj z z' : digit_codes z = digit_codes z' -> z = z'.
Proof.
  unfold digit_codes. intro H.
  rewrite <- (DecimalZ.of_to z), <- (DecimalZ.of_to z').
  destruct (Z.to_int z) as [u|u], (Z.to_int z') as [u'|u'].
  - apply uint_codes_inj in H. congruence.
  - exfalso. eapply uint_codes_no_minus. exact H.
  - exfalso. eapply uint_codes_no_minus. symmetry. exact H.
  - inversion H as [H']. apply uint_codes_inj in H'. congruence.
Qed.

Lemma default_name_inj i j : default_name i = default_name j -> i = j.
Proof.
  unfold default_name. intro H. inversion H as [H']. apply digit_codes_inj. exact H'.
Qed.

Lemma default_names_NoDup c : NoDup (default_names c).
Proof.
  unfold default_names. generalize 0. induction c as [|c IH]; intro s; cbn [ziota map]; constructor.
  - intro H. apply in_map_iff in H. destruct H as [j [Hj Hin]].
    apply default_name_inj in Hj. apply ziota_In in Hin. lia.
  - apply IH.
Qed.

Lemma names_or_default_NoDup cn c : names_ok c cn -> NoDup (names_or_default cn c).
Proof. destruct cn as [l|]; cbn; [tauto|]. intros _. apply default_names_NoDup. Qed.

(* ---------------------------------------------------------------------------------------------- *)
(* the index keys of a multi-index frame built from a panel are sorted *)

Lemma SS_app {A} (R : A -> A -> Prop) l1 l2 :
  StronglySorted R l1 -> StronglySorted R l2 ->
  (forall x y, In x l1 -> In y l2 -> R x y) -> StronglySorted R (l1 ++ l2).
Proof.
  induction 1 as [|a t Hs IH Hall]; intros H2 Hx; [exact H2|]. cbn. constructor.
  - apply IH; [exact H2|]. intros x y Hx1 Hy. apply Hx; [right; exact Hx1|exact Hy].
  - apply Forall_app. split; [exact Hall|]. apply Forall_forall. intros y Hy.
    apply Hx; [left; reflexivity|exact Hy].
Qed.

Lemma key_lt_time i t t' : t < t' -> key_lt (i, t) (i, t').
Proof.
  intro H. unfold key_lt, klt, key_ltb. cbn. rewrite Z.eqb_refl. apply orb_true_iff. right.
  apply Z.ltb_lt in H. rewrite H. reflexivity.
Qed.

Lemma key_lt_inst i i' t t' : i < i' -> key_lt (i, t) (i', t').
Proof.
  intro H. unfold key_lt, klt, key_ltb. cbn. apply Z.ltb_lt in H. rewrite H. reflexivity.
Qed.

Lemma SS_block i a k : StronglySorted key_lt (map (pair i) (ziota a k)).
Proof.
  revert a. induction k as [|k IH]; intro a; cbn [ziota map]; constructor; [apply IH|].
  apply Forall_forall. intros y Hy. apply in_map_iff in Hy. destruct Hy as [t [<- Ht]].
  apply ziota_In in Ht. apply key_lt_time. lia.
Qed.

Lemma SS_blocks T s k :
  StronglySorted key_lt (flat_map (fun i => map (pair i) (ziota 0 T)) (ziota s k)).
Proof.
  revert s. induction k as [|k IH]; intro s; cbn [ziota flat_map]; [constructor|].
  apply SS_app; [apply SS_block|apply IH|].
  intros x y Hx Hy. apply in_map_iff in Hx. destruct Hx as [t [<- _]].
  apply in_flat_map in Hy. destruct Hy as [i' [Hi' Hy]]. apply in_map_iff in Hy.
  destruct Hy as [t' [<- _]]. apply ziota_In in Hi'. apply key_lt_inst. lia.
Qed.

(* from_long_to_nested's column labels: `column_names` if passed, else the pivoted identifiers *)
Definition names_or_sorted (cn : option (list name)) (nms : list name) : list name :=
  match cn with Some l => l | None => sort_names nms end.

Section LongPanel.
  Context {V : Type}.
  Variables (n c T : nat) (p : panel V) (nms : list name).
  Hypothesis Hwf : wf_panel n c T p.
  Hypothesis Hnd : NoDup nms.
  Hypothesis Hc : length nms = c.

  Notation R := (mi_rows T p).

  Lemma block_rows_keys i inst :
    map fst (@block_rows V T (i, inst)) = map (pair i) (ziota 0 T).
  Proof.
    unfold block_rows. rewrite map_map. cbn [fst].
    rewrite <- (transpose_length T inst) at 2. rewrite <- enum_from_fst, map_map, enum_enum_from.
    reflexivity.
  Qed.

  Lemma mi_rows_keys_sorted : Sorted key_lt (map fst R).
  Proof.
    apply StronglySorted_Sorted. unfold mi_rows. rewrite map_flat_map, enum_enum_from.
    rewrite (flat_map_ext_in _ (fun ia => map (pair (fst ia)) (ziota 0 T)))
      by (intros [i inst] _; apply block_rows_keys).
    rewrite <- (flat_map_map (fun i => map (pair i) (ziota 0 T)) fst), enum_from_fst.
    apply SS_blocks.
  Qed.

  Lemma mi_rows_nonempty : R <> [].
  Proof.
    intro H. pose proof (mi_rows_length n c T p Hwf) as Hl. rewrite H in Hl. cbn in Hl.
    destruct Hwf as [? [_ [? _]]]. nia.
  Qed.

  Definition sort_vars (nm : list name) (q : panel V) : panel V :=
    map (select (sort_names nm) nm) q.

  Lemma sorted_names_incl d : In d (sort_names nms) -> In d nms.
  Proof. apply sort_names_In. Qed.

  Lemma sorted_names_length : length (sort_names nms) = c.
  Proof. rewrite (Permutation_length (sort_names_perm nms Hnd)). exact Hc. Qed.

  (* long_pivot (melt) followed by from_multi_index_to_nested *)
  Lemma long_roundtrip_rows k :
    mi_to_nested k (long_pivot (mi_melt (mkM nms R))) =
    mkN k (sort_names nms) (sort_vars nms p).
  Proof.
    rewrite (pivot_melt nms R c Hnd Hc ltac:(destruct Hwf; lia) mi_rows_nonempty
               (mi_rows_width n c T p Hwf) mi_rows_keys_sorted).
    set (s := sort_names nms).
    unfold mi_to_nested, reorder_rows. cbn [m_rows m_cols]. f_equal.
    rewrite map_map.
    rewrite (map_ext (fun x => r_inst (fst x, select s nms (snd x))) r_inst) by reflexivity.
    rewrite (mi_rows_n_instances n c T p Hwf), <- (wf_len n c T p Hwf).
    rewrite (map_ext_in _ (fun id => transpose (length s) (map (select s nms)
               (map snd (filter (fun r => r_inst r =? id) R))))).
    2:{ intros id _. f_equal. rewrite filter_map_comm, !map_map. reflexivity. }
    unfold mi_rows. rewrite enum_enum_from.
    rewrite (map_filter_blocks r_inst (block_rows T) (block_rows_key T)
               (fun l => transpose (length s) (map (select s nms) (map snd l))) 0 p).
    unfold sort_vars. fold s. rewrite <- (enum_from_snd 0 p) at 2. rewrite map_map.
    apply map_ext_in. intros [i inst] Hin. cbn [snd]. rewrite block_rows_snd.
    apply enum_from_In_ge in Hin. destruct Hin as [_ Hin].
    pose proof (wf_inst n c T p Hwf inst Hin) as Hr.
    destruct (transpose_rect c T inst Hr) as [_ HF].
    rewrite (select_transpose s nms c (transpose T inst) Hnd Hc HF sorted_names_incl).
    rewrite (transpose_involutive c T inst Hr). reflexivity.
  Qed.

  (* the identifiers come back with the data they label: sorted, unless column_names is passed *)
  Lemma long_roundtrip cn :
    long_to_nested cn (mi_melt (mkM nms R)) =
    mkN KSeries (names_or_sorted cn nms) (sort_vars nms p).
  Proof.
    unfold long_to_nested. rewrite long_roundtrip_rows. destruct cn; reflexivity.
  Qed.

  Lemma sorted_names_NoDup : NoDup (sort_names nms).
  Proof. apply (Permutation_NoDup (Permutation_sym (sort_names_perm nms Hnd))). exact Hnd. Qed.

  (* sorting is idempotent: names and data that went through the long table once are fixed by it *)
  Lemma sort_names_idem : sort_names (sort_names nms) = sort_names nms.
  Proof. apply sort_names_of_sorted. apply sort_names_sorted. Qed.

  Lemma sort_vars_wf : wf_panel n c T (sort_vars nms p).
  Proof.
    pose proof Hwf as [H1 [H2 [H3 [H4 H5]]]]. unfold sort_vars.
    refine (conj H1 (conj H2 (conj H3 (conj _ _)))); [rewrite map_length; exact H4|].
    apply Forall_forall. intros inst' Hi. apply in_map_iff in Hi. destruct Hi as [inst [<- Hi]].
    destruct (wf_inst n c T p Hwf inst Hi) as [Hl HF]. split.
    - rewrite select_length; [apply sorted_names_length|exact Hnd|lia|apply sorted_names_incl].
    - apply Forall_forall. intros s Hs. apply select_In in Hs. rewrite Forall_forall in HF.
      apply HF. exact Hs.
  Qed.

  Lemma sort_vars_sorted : Sorted name_lt nms -> sort_vars nms p = p.
  Proof.
    intro Hs. unfold sort_vars. rewrite (sort_names_of_sorted nms Hs).
    rewrite <- (map_id p) at 2. apply map_ext_in. intros inst Hi.
    apply select_self; [exact Hnd|]. destruct (wf_inst n c T p Hwf inst Hi). lia.
  Qed.

  Lemma sort_vars_perm inst :
    In inst p -> Permutation (select (sort_names nms) nms inst) inst.
  Proof.
    intro Hi. apply select_perm; [exact Hnd| |apply sort_names_perm; exact Hnd].
    destruct (wf_inst n c T p Hwf inst Hi). lia.
  Qed.

  (* a long table with the same rows in any order pivots to the same frame *)
  Lemma long_shuffle L cn :
    Permutation (mi_melt (mkM nms R)) L ->
    long_to_nested cn L = long_to_nested cn (mi_melt (mkM nms R)).
  Proof.
    intro Hp. unfold long_to_nested. f_equal. f_equal. symmetry.
    assert (Hc1 : (1 <= c)%nat) by (destruct Hwf; lia).
    pose proof (melt_perm nms R c Hc Hc1 (mi_rows_width n c T p Hwf)) as Hm.
    assert (Hp' : Permutation (melt_rowmajor nms R) L) by (etransitivity; eassumption).
    pose proof (melt_rowmajor_uniq nms R c Hnd Hc Hc1 mi_rows_keys_sorted) as Hu.
    rewrite <- (long_pivot_perm _ _ Hu Hp'), <- (long_pivot_perm _ _ Hu Hm). reflexivity.
  Qed.
End LongPanel.

Lemma sort_vars_idem {V} n c T (p : panel V) nms :
  wf_panel n c T p -> NoDup nms -> length nms = c ->
  sort_vars (sort_names nms) (sort_vars nms p) = sort_vars nms p.
Proof.
  intros Hwf Hnd Hc. apply (sort_vars_sorted n c T).
  - apply sort_vars_wf; assumption.
  - apply sorted_names_NoDup. exact Hnd.
  - apply sorted_names_length; assumption.
  - apply sort_names_sorted.
Qed.

(* ---------------------------------------------------------------------------------------------- *)
(* canonical panel, renderings, canonical semantics of the conversions *)

Section Paths.
  Context {V : Type}.

  (* optional column names (None: the default var_i) and the data *)
  Record cpanel := mkC { c_names : option (list name); c_data : panel V }.
  Inductive tag := TN (k : cellkind) | TA | TM | TL | TT.

  Definition ncols_of (c : cpanel) : nat := shape_cols (c_data c).
  Definition cnames (c : cpanel) : list name := names_or_default (c_names c) (ncols_of c).

  Definition mi_of (c : cpanel) : mi V :=
    mkM (cnames c) (flat_map (block_rows (shape_time (c_data c))) (enum (c_data c))).

  (* what each container looks like for a given panel *)
  Definition render (t : tag) (c : cpanel) : rep V :=
    match t with
    | TN k => RN (mkN k (cnames c) (c_data c))
    | TA => RA (c_data c)
    | TM => RM (mi_of c)
    | TL => RL (mi_melt (mi_of c))
    | TT => RT (map (@concat V) (c_data c))
    end.

  (* what each conversion does to the panel: only the 2-D table (flattening the variables) and
     the long table (sorting them by identifier) touch the data; only containers with a names
     slot keep the names *)
  Definition sem (e : edge) (s : tag * cpanel) : option (tag * cpanel) :=
    let '(t, c) := s in
    match e, t with
    | E_N_A, TN _ => Some (TA, mkC None (c_data c))
    | E_A_N cn k, TA => Some (TN k, mkC cn (c_data c))
    | E_A_M cn, TA => Some (TM, mkC cn (c_data c))
    | E_M_A, TM => Some (TA, mkC None (c_data c))
    | E_N_M, TN _ => Some (TM, c)
    | E_M_N k, TM => Some (TN k, c)
    | E_N_L, TN _ => Some (TL, c)
    | E_L_N cn, TL => Some (TN KSeries, mkC (Some (names_or_sorted cn (cnames c)))
                                            (sort_vars (cnames c) (c_data c)))
    | E_N_T, TN _ => Some (TT, mkC None (c_data c))
    | E_A_T, TA => Some (TT, mkC None (c_data c))
    | E_T_N k, TT => Some (TN k, mkC (Some [NInt 0]) (flattenp (c_data c)))
    | E_CheckX a b, TN k =>
        if a && b then None
        else Some (if a then (TA, mkC None (c_data c)) else (TN k, c))
    | E_CheckX a b, TA =>
        if a && b then None
        else Some (if b then (TN KSeries, mkC None (c_data c)) else (TA, c))
    | _, _ => None
    end.

  Fixpoint sem_path (es : list edge) (s : tag * cpanel) : option (tag * cpanel) :=
    match es with
    | [] => Some s
    | e :: es' => match sem e s with Some s' => sem_path es' s' | None => None end
    end.

  (* a well-formed panel with (if given) as many distinct names as columns *)
  Definition cwf (c : cpanel) : Prop :=
    exists n k T, wf_panel n k T (c_data c) /\ names_ok k (c_names c).

  (* explicit column_names arguments must fit the current number of columns *)
  Definition edge_ok (e : edge) (c : cpanel) : Prop :=
    match e with
    | E_A_N cn _ | E_A_M cn | E_L_N cn => names_ok (ncols_of c) cn
    | _ => True
    end.

  Fixpoint path_ok (es : list edge) (s : tag * cpanel) : Prop :=
    match es with
    | [] => True
    | e :: es' => edge_ok e (snd s) /\
                  match sem e s with Some s' => path_ok es' s' | None => True end
    end.

  Definition result (o : option (tag * cpanel)) : res (rep V) :=
    match o with Some (t, c) => Ok (render t c) | None => Err end.

  Lemma cwf_facts c :
    cwf c -> exists n k T, wf_panel n k T (c_data c) /\ ncols_of c = k /\
                           length (cnames c) = k /\ NoDup (cnames c).
  Proof.
    intros [n [k [T [Hwf Hn]]]]. exists n, k, T.
    assert (Hk : ncols_of c = k) by (apply (wf_shape_cols n k T _ Hwf)).
    unfold cnames. rewrite Hk. split; [exact Hwf|]. split; [reflexivity|].
    split; [apply names_or_default_length|apply names_or_default_NoDup]; exact Hn.
  Qed.

  Lemma render_mi_of c n k T :
    wf_panel n k T (c_data c) -> mi_of c = mkM (cnames c) (mi_rows T (c_data c)).
  Proof.
    intro Hwf. unfold mi_of, mi_rows. rewrite (wf_shape_time n k T _ Hwf). reflexivity.
  Qed.

  Lemma edge_factor e t c :
    cwf c -> edge_ok e c ->
    apply_edge e (render t c) = result (sem e (t, c)) /\
    (forall t' c', sem e (t, c) = Some (t', c') -> cwf c').
  Proof.
    intros Hc He. destruct (cwf_facts c Hc) as [n [w [T [Hwf [Hk [Hl Hnd]]]]]].
    pose proof (render_mi_of c n w T Hwf) as Hmi.
    assert (Hsame : forall cn, names_ok w cn -> cwf (mkC cn (c_data c))).
    { intros cn Hcn. exists n, w, T. split; assumption. }
    destruct e, t; cbn [sem render apply_edge check_X result edge_ok] in *;
      try (split; [reflexivity|discriminate]).
    - (* N > A *) split; [reflexivity|]. intros t' c' H. inversion H; subst t' c'. apply Hsame. exact I.
    - (* A > N *) rewrite Hk in He. split.
      + rewrite (a3_to_nested_eq n w T _ Hwf). unfold cnames, ncols_of. cbn [c_names c_data].
        rewrite (wf_shape_cols n w T _ Hwf). reflexivity.
      + intros t' c' H. inversion H; subst t' c'. apply Hsame. exact He.
    - (* A > M *) rewrite Hk in He. split.
      + rewrite (a3_to_mi_eq n w T _ Hwf). unfold mi_of, cnames, ncols_of. cbn [c_names c_data].
        rewrite (wf_shape_cols n w T _ Hwf), (wf_shape_time n w T _ Hwf). reflexivity.
      + intros t' c' H. inversion H; subst t' c'. apply Hsame. exact He.
    - (* M > A *) split.
      + rewrite Hmi, (mi_to_3d_rows n w T _ Hwf _ Hl). reflexivity.
      + intros t' c' H. inversion H; subst t' c'. apply Hsame. exact I.
    - (* N > M *) split.
      + rewrite (nested_to_mi_eq n w T _ Hwf), Hmi. reflexivity.
      + intros t' c' H. inversion H; subst t' c'. exact Hc.
    - (* M > N *) split.
      + rewrite Hmi, (mi_to_nested_rows n w T _ Hwf _ _ Hl). reflexivity.
      + intros t' c' H. inversion H; subst t' c'. exact Hc.
    - (* N > L *) split.
      + unfold nested_to_long. rewrite (nested_to_mi_eq n w T _ Hwf), Hmi. reflexivity.
      + intros t' c' H. inversion H; subst t' c'. exact Hc.
    - (* L > N *) rewrite Hk in He. split.
      + rewrite Hmi, (long_roundtrip n w T _ _ Hwf Hnd Hl). reflexivity.
      + intros t' c' H. inversion H; subst t' c'. exists n, w, T. split.
        * apply sort_vars_wf; assumption.
        * destruct cn as [l|]; [exact He|]. cbn [names_or_sorted]. split.
          -- apply sorted_names_length; assumption.
          -- apply sorted_names_NoDup. exact Hnd.
    - (* N > T *) split; [reflexivity|]. intros t' c' H. inversion H; subst t' c'. apply Hsame. exact I.
    - (* A > T *) split; [reflexivity|]. intros t' c' H. inversion H; subst t' c'. apply Hsame. exact I.
    - (* T > N *) split.
      + rewrite tab_to_nested_flat. reflexivity.
      + intros t' c' H. inversion H; subst t' c'. exists n, 1%nat, (w * T)%nat. split.
        * apply flattenp_wf. exact Hwf.
        * cbn. split; [reflexivity|]. constructor; [intros []|constructor].
    - (* check_X on a nested frame *)
      destruct to_np, to_pd; cbn [andb]; (split; [reflexivity|]); intros t' c' H;
        inversion H; subst t' c'; try exact Hc. apply Hsame. exact I.
    - (* check_X on a 3-D array *)
      destruct to_np, to_pd; cbn [andb]; try (split; [reflexivity|discriminate]).
      + split; [reflexivity|]. intros t' c' H. inversion H; subst t' c'. exact Hc.
      + split.
        * unfold check_X. cbn [andb result render]. rewrite (a3_to_nested_eq n w T _ Hwf).
          unfold cnames, ncols_of. cbn [c_names c_data].
          rewrite (wf_shape_cols n w T _ Hwf). reflexivity.
        * intros t' c' H. inversion H; subst t' c'. apply Hsame. exact I.
      + split; [reflexivity|]. intros t' c' H. inversion H; subst t' c'. exact Hc.
    - destruct to_np, to_pd; split; try reflexivity; discriminate.
    - destruct to_np, to_pd; split; try reflexivity; discriminate.
    - destruct to_np, to_pd; split; try reflexivity; discriminate.
  Qed.

  (* every conversion path = render the end container from the canonically transformed panel *)
  Theorem path_factor es t c :
    cwf c -> path_ok es (t, c) -> run_path es (render t c) = result (sem_path es (t, c)).
  Proof.
    revert t c. induction es as [|e es IH]; intros t c Hc Hp; [reflexivity|].
    cbn [path_ok snd] in Hp. destruct Hp as [He Hp].
    destruct (edge_factor e t c Hc He) as [H1 H2].
    cbn [run_path sem_path]. rewrite H1.
    destruct (sem e (t, c)) as [[t' c']|]; [|reflexivity]. cbn [result].
    apply IH; [apply (H2 t' c'); reflexivity|exact Hp].
  Qed.

  Lemma path_wf es t c t' c' :
    cwf c -> path_ok es (t, c) -> sem_path es (t, c) = Some (t', c') -> cwf c'.
  Proof.
    revert t c. induction es as [|e es IH]; intros t c Hc Hp H.
    - inversion H; subst. exact Hc.
    - cbn [path_ok snd] in Hp. destruct Hp as [He Hp]. cbn [sem_path] in H.
      destruct (edge_factor e t c Hc He) as [_ H2].
      destruct (sem e (t, c)) as [[t1 c1]|]; [|discriminate].
      eapply IH; [apply (H2 t1 c1); reflexivity|exact Hp|exact H].
  Qed.

  (* two paths with the same canonical meaning give the very same container *)
  Corollary paths_agree es1 es2 t c :
    cwf c -> path_ok es1 (t, c) -> path_ok es2 (t, c) ->
    sem_path es1 (t, c) = sem_path es2 (t, c) ->
    run_path es1 (render t c) = run_path es2 (render t c).
  Proof. intros Hc H1 H2 H. rewrite !path_factor by assumption. rewrite H. reflexivity. Qed.

  (* --- data: untouched unless the path goes through the 2-D or the long table --- *)

  Definition lossless (e : edge) : bool :=
    match e with E_T_N _ | E_L_N _ => false | _ => true end.

  Lemma sem_lossless_data e t c t' c' :
    lossless e = true -> sem e (t, c) = Some (t', c') -> c_data c' = c_data c.
  Proof.
    destruct e, t; cbn; try discriminate; intros _ H; try (inversion H; subst; reflexivity).
    - destruct (to_np && to_pd); [discriminate|]. destruct to_np; inversion H; reflexivity.
    - destruct (to_np && to_pd); [discriminate|]. destruct to_pd; inversion H; reflexivity.
  Qed.

  Lemma lossless_path_data es t c t' c' :
    forallb lossless es = true -> sem_path es (t, c) = Some (t', c') -> c_data c' = c_data c.
  Proof.
    revert t c. induction es as [|e es IH]; intros t c Hl H.
    - inversion H. reflexivity.
    - cbn in Hl. apply andb_true_iff in Hl. destruct Hl as [Hl1 Hl2]. cbn [sem_path] in H.
      destruct (sem e (t, c)) as [[t1 c1]|] eqn:E; [|discriminate].
      rewrite (IH t1 c1 Hl2 H). eapply sem_lossless_data; eassumption.
  Qed.

  (* --- names --- *)

  (* tag part of [sem] *)
  Definition tstep (e : edge) (t : tag) : option tag :=
    match e, t with
    | E_N_A, TN _ => Some TA
    | E_A_N _ k, TA => Some (TN k)
    | E_A_M _, TA => Some TM
    | E_M_A, TM => Some TA
    | E_N_M, TN _ => Some TM
    | E_M_N k, TM => Some (TN k)
    | E_N_L, TN _ => Some TL
    | E_L_N _, TL => Some (TN KSeries)
    | E_N_T, TN _ => Some TT
    | E_A_T, TA => Some TT
    | E_T_N k, TT => Some (TN k)
    | E_CheckX a b, TN k => if a && b then None else Some (if a then TA else TN k)
    | E_CheckX a b, TA => if a && b then None else Some (if b then TN KSeries else TA)
    | _, _ => None
    end.

  (* tag, names and number-of-columns part of [sem]: it does not look at the values *)
  Definition nstate := (tag * option (list name) * nat)%type.

  Definition nsem (e : edge) (s : nstate) : option nstate :=
    let '(t, nm, k) := s in
    match e, t with
    | E_N_A, TN _ => Some (TA, None, k)
    | E_A_N cn kd, TA => Some (TN kd, cn, k)
    | E_A_M cn, TA => Some (TM, cn, k)
    | E_M_A, TM => Some (TA, None, k)
    | E_N_M, TN _ => Some (TM, nm, k)
    | E_M_N kd, TM => Some (TN kd, nm, k)
    | E_N_L, TN _ => Some (TL, nm, k)
    | E_L_N cn, TL => Some (TN KSeries, Some (names_or_sorted cn (names_or_default nm k)), k)
    | E_N_T, TN _ => Some (TT, None, k)
    | E_A_T, TA => Some (TT, None, k)
    | E_T_N kd, TT => Some (TN kd, Some [NInt 0], 1%nat)
    | E_CheckX a b, TN kd =>
        if a && b then None else Some (if a then (TA, None, k) else (TN kd, nm, k))
    | E_CheckX a b, TA =>
        if a && b then None else Some (if b then (TN KSeries, None, k) else (TA, nm, k))
    | _, _ => None
    end.

  Fixpoint nsem_path (es : list edge) (s : nstate) : option nstate :=
    match es with
    | [] => Some s
    | e :: es' => match nsem e s with Some s' => nsem_path es' s' | None => None end
    end.

  Lemma sem_tstep e t c t' c' : sem e (t, c) = Some (t', c') -> tstep e t = Some t'.
  Proof.
    destruct e, t; cbn; try discriminate; intro H; try (inversion H; subst; reflexivity).
    - destruct (to_np && to_pd); [discriminate|]. destruct to_np; inversion H; reflexivity.
    - destruct (to_np && to_pd); [discriminate|]. destruct to_pd; inversion H; reflexivity.
  Qed.

  Lemma sorted_panel_ncols n k T (p : panel V) nms :
    wf_panel n k T p -> NoDup nms -> length nms = k -> shape_cols (sort_vars nms p) = k.
  Proof.
    intros Hwf Hnd Hl. apply (wf_shape_cols n k T). apply sort_vars_wf; assumption.
  Qed.

  Lemma sem_nsem e t c t' c' :
    cwf c -> sem e (t, c) = Some (t', c') ->
    nsem e (t, c_names c, ncols_of c) = Some (t', c_names c', ncols_of c').
  Proof.
    intros Hc. destruct (cwf_facts c Hc) as [n [w [T [Hwf [Hk [Hl Hnd]]]]]].
    destruct e, t; cbn [sem nsem]; try discriminate; intro H;
      try (inversion H; subst; reflexivity).
    - (* L > N *) inversion H; subst t' c'. unfold cnames, ncols_of in *. cbn [c_names c_data].
      rewrite (sorted_panel_ncols n w T _ _ Hwf Hnd Hl), Hk. reflexivity.
    - (* T > N *) inversion H; subst t' c'. unfold ncols_of. cbn [c_names c_data].
      rewrite (wf_shape_cols n 1 (w * T) _ (flattenp_wf n w T _ Hwf)). reflexivity.
    - destruct (to_np && to_pd); [discriminate|]. destruct to_np; inversion H; reflexivity.
    - destruct (to_np && to_pd); [discriminate|]. destruct to_pd; inversion H; reflexivity.
  Qed.

  Lemma sem_path_nsem es t c t' c' :
    cwf c -> path_ok es (t, c) -> sem_path es (t, c) = Some (t', c') ->
    nsem_path es (t, c_names c, ncols_of c) = Some (t', c_names c', ncols_of c').
  Proof.
    revert t c. induction es as [|e es IH]; intros t c Hc Hp H.
    - inversion H. reflexivity.
    - cbn [path_ok snd] in Hp. destruct Hp as [He Hp]. cbn [sem_path] in H.
      destruct (edge_factor e t c Hc He) as [_ H2].
      destruct (sem e (t, c)) as [[t1 c1]|] eqn:E; [|discriminate].
      cbn [nsem_path]. rewrite (sem_nsem e t c t1 c1 Hc E).
      apply IH; [apply (H2 t1 c1); reflexivity|exact Hp|exact H].
  Qed.

  (* the conversions that hand the column names over to the container they produce: nested <->
     multi-index, nested -> long, long -> nested without `column_names` (the identifiers the long
     table carries come back, in sorted order), and check_X when it does not convert *)
  Definition carries (e : edge) (t : tag) : bool :=
    match e, t with
    | E_N_M, TN _ | E_M_N _, TM | E_N_L, TN _ | E_L_N None, TL => true
    | E_CheckX a b, TN _ => negb a
    | E_CheckX a b, TA => negb b
    | _, _ => false
    end.

  Fixpoint all_carry (es : list edge) (t : tag) : bool :=
    match es with
    | [] => true
    | e :: es' => carries e t &&
                  match tstep e t with Some t' => all_carry es' t' | None => true end
    end.

  Definition is_long_to_nested (e : edge) : bool :=
    match e with E_L_N _ => true | _ => false end.
  Definition through_long (es : list edge) : bool := existsb is_long_to_nested es.

  (* the panel with its variables - names together with their data - in identifier order *)
  Definition sorted_panel (c : cpanel) : cpanel :=
    mkC (Some (sort_names (cnames c))) (sort_vars (cnames c) (c_data c)).

  Lemma sorted_panel_cwf c : cwf c -> cwf (sorted_panel c).
  Proof.
    intro Hc. destruct (cwf_facts c Hc) as [n [w [T [Hwf [Hk [Hl Hnd]]]]]].
    exists n, w, T. cbn [sorted_panel c_data c_names]. split.
    - apply sort_vars_wf; assumption.
    - split; [apply sorted_names_length; assumption|apply sorted_names_NoDup; exact Hnd].
  Qed.

  Lemma sorted_panel_idem c : cwf c -> sorted_panel (sorted_panel c) = sorted_panel c.
  Proof.
    intro Hc. destruct (cwf_facts c Hc) as [n [w [T [Hwf [Hk [Hl Hnd]]]]]].
    unfold sorted_panel at 1. unfold cnames. cbn [sorted_panel c_names c_data names_or_default].
    rewrite sort_names_idem, (sort_vars_idem n w T _ _ Hwf Hnd Hl). reflexivity.
  Qed.

  (* a name-carrying conversion returns the panel itself, long -> nested the sorted panel *)
  Lemma carry_step e t c t' c' :
    carries e t = true -> sem e (t, c) = Some (t', c') ->
    c' = if is_long_to_nested e then sorted_panel c else c.
  Proof.
    destruct e as [| | | | | | |[l|]| | | |], t; cbn; try discriminate; intros Hc H;
      try (inversion H; subst; reflexivity).
    - destruct to_np; [discriminate|]. cbn in H. inversion H. reflexivity.
    - destruct to_pd; [discriminate|]. rewrite andb_false_r in H. inversion H. reflexivity.
  Qed.

  Lemma names_and_data_survive es t c t' c' :
    cwf c -> all_carry es t = true -> sem_path es (t, c) = Some (t', c') ->
    c' = if through_long es then sorted_panel c else c.
  Proof.
    revert t c. induction es as [|e es IH]; intros t c Hc Ha H.
    - inversion H. reflexivity.
    - cbn [all_carry] in Ha. apply andb_true_iff in Ha. destruct Ha as [Ha1 Ha2].
      cbn [sem_path] in H. destruct (sem e (t, c)) as [[t1 c1]|] eqn:E; [|discriminate].
      rewrite (sem_tstep e t c t1 c1 E) in Ha2.
      pose proof (carry_step e t c t1 c1 Ha1 E) as Hc1.
      cbn [through_long existsb]. fold (through_long es).
      destruct (is_long_to_nested e); cbn [orb]; subst c1.
      + rewrite (IH t1 _ (sorted_panel_cwf c Hc) Ha2 H).
        destruct (through_long es); [apply sorted_panel_idem; exact Hc|reflexivity].
      + apply (IH t1 c Hc Ha2 H).
  Qed.

  Lemma nsem_tag e t nm1 nm2 k t1 r1 k1 :
    nsem e (t, nm1, k) = Some (t1, r1, k1) -> exists r2, nsem e (t, nm2, k) = Some (t1, r2, k1).
  Proof.
    destruct e, t; cbn; try discriminate; intro H; try (inversion H; subst; eexists; reflexivity).
    - destruct (to_np && to_pd); [discriminate|]. destruct to_np; inversion H; eexists; reflexivity.
    - destruct (to_np && to_pd); [discriminate|]. destruct to_pd; inversion H; eexists; reflexivity.
  Qed.

  Lemma nsem_not_carries e t nm1 nm2 k t1 r1 k1 t2 r2 k2 :
    carries e t = false ->
    nsem e (t, nm1, k) = Some (t1, r1, k1) -> nsem e (t, nm2, k) = Some (t2, r2, k2) -> r1 = r2.
  Proof.
    destruct e as [| | | | | | |[l|]| | | |], t; cbn; try discriminate; intros Hc H1 H2;
      try (inversion H1; inversion H2; subst; reflexivity).
    - destruct to_np; [|discriminate]. destruct to_pd; cbn in *; [discriminate|].
      inversion H1; inversion H2; subst; reflexivity.
    - destruct to_pd; [|discriminate]. destruct to_np; cbn in *; [discriminate|].
      inversion H1; inversion H2; subst; reflexivity.
  Qed.

  Lemma names_forgotten_n es t nm1 nm2 k t1 r1 k1 t2 r2 k2 :
    all_carry es t = false ->
    nsem_path es (t, nm1, k) = Some (t1, r1, k1) -> nsem_path es (t, nm2, k) = Some (t2, r2, k2) ->
    r1 = r2.
  Proof.
    revert t nm1 nm2 k. induction es as [|e es IH]; intros t nm1 nm2 k Ha H1 H2; [discriminate|].
    cbn [all_carry] in Ha. cbn [nsem_path] in H1, H2.
    destruct (nsem e (t, nm1, k)) as [[[ta ra] ka]|] eqn:E1; [|discriminate].
    destruct (nsem e (t, nm2, k)) as [[[tb rb] kb]|] eqn:E2; [|discriminate].
    destruct (nsem_tag e t nm1 nm2 k ta ra ka E1) as [rb' E2']. rewrite E2 in E2'.
    inversion E2'; subst tb rb' kb. clear E2'.
    assert (Ht : tstep e t = Some ta).
    { clear -E1. destruct e, t; cbn in *; try discriminate; try (inversion E1; reflexivity).
      - destruct (to_np && to_pd); [discriminate|]. destruct to_np; inversion E1; reflexivity.
      - destruct (to_np && to_pd); [discriminate|]. destruct to_pd; inversion E1; reflexivity. }
    rewrite Ht in Ha.
    destruct (carries e t) eqn:Ec.
    - cbn [andb] in Ha. eapply IH; eassumption.
    - rewrite (nsem_not_carries e t nm1 nm2 k ta ra ka ta rb ka Ec E1 E2) in H1.
      rewrite H1 in H2. inversion H2. reflexivity.
  Qed.

  (* names survive a path iff every conversion on it carries them: if all do, the end container
     shows the start panel itself - same names on the same data - or, when the path went through
     the long table, that panel with its variables (names together with their data) in the order of
     the sorted identifiers; if one does not, the names at the end are the same whatever names the
     start had (for a panel with as many columns) *)
  Theorem names_survive_iff_carried es t c t' c' :
    cwf c -> path_ok es (t, c) -> sem_path es (t, c) = Some (t', c') ->
    (all_carry es t = true -> c' = if through_long es then sorted_panel c else c) /\
    (all_carry es t = false ->
     forall c2 t2 c2', cwf c2 -> path_ok es (t, c2) -> ncols_of c2 = ncols_of c ->
       sem_path es (t, c2) = Some (t2, c2') -> c_names c2' = c_names c').
  Proof.
    intros Hc Hp H. split.
    - intro Ha. eapply names_and_data_survive; eassumption.
    - intros Ha c2 t2 c2' Hc2 Hp2 Hn H2.
      apply (sem_path_nsem es t c t' c' Hc Hp) in H.
      apply (sem_path_nsem es t c2 t2 c2' Hc2 Hp2) in H2. rewrite Hn in H2.
      symmetry. eapply names_forgotten_n; eassumption.
  Qed.
  (* --- the result of a lossless path, exactly; the direct conversion --- *)

  (* a path without table -> nested / long -> nested returns the rendering, in the end
     representation, of the ORIGINAL data, under the names computed by the bookkeeping [nsem_path],
     which never looks at the data *)
  Theorem lossless_path_result es t c t' c' :
    cwf c -> path_ok es (t, c) -> forallb lossless es = true ->
    sem_path es (t, c) = Some (t', c') ->
    run_path es (render t c) = Ok (render t' (mkC (c_names c') (c_data c))) /\
    nsem_path es (t, c_names c, ncols_of c) = Some (t', c_names c', ncols_of c).
  Proof.
    intros Hc Hp Hl H. pose proof (lossless_path_data es t c t' c' Hl H) as Hd. split.
    - rewrite (path_factor es t c Hc Hp), H. cbn [result]. rewrite <- Hd. destruct c'; reflexivity.
    - rewrite (sem_path_nsem es t c t' c' Hc Hp H). unfold ncols_of. rewrite Hd. reflexivity.
  Qed.

  (* every lossless path between two representations returns what the direct conversion returns,
     as soon as both end with the same names *)
  Theorem path_equals_direct es e t c t' c' c1 :
    cwf c -> path_ok es (t, c) -> edge_ok e c ->
    forallb lossless es = true -> lossless e = true ->
    sem_path es (t, c) = Some (t', c') -> sem e (t, c) = Some (t', c1) ->
    c_names c1 = c_names c' ->
    run_path es (render t c) = apply_edge e (render t c).
  Proof.
    intros Hc Hp He Hl Hle H H1 Hn.
    destruct (lossless_path_result es t c t' c' Hc Hp Hl H) as [Hr _]. rewrite Hr.
    destruct (edge_factor e t c Hc He) as [Hf _]. rewrite Hf, H1. cbn [result].
    pose proof (sem_lossless_data e t c t' c1 Hle H1) as Hd.
    rewrite <- Hn, <- Hd. destruct c1; reflexivity.
  Qed.
End Paths.

(* ---------------------------------------------------------------------------------------------- *)
(* after nested -> long -> nested every identifier still labels its own data *)

Lemma pick_select {A} s nms (xs : list A) d :
  NoDup nms -> NoDup s -> length nms = length xs -> (forall d', In d' s -> In d' nms) ->
  In d s -> pick d s (select s nms xs) = pick d nms xs.
Proof.
  intros Hnd Hs Hl. induction Hs as [|d0 s Hn0 Hs IH]; intros Hin Hd; [destruct Hd|].
  rewrite select_cons.
  pose proof (pick_length_1 d0 nms xs Hnd Hl (Hin d0 (or_introl eq_refl))) as H1.
  destruct (pick d0 nms xs) as [|x0 [|? ?]] eqn:E0; try discriminate. cbn [app].
  rewrite pick_cons. destruct (name_eqb d0 d) eqn:E.
  - apply name_eqb_eq in E. subst d0. rewrite pick_absent.
    + rewrite E0. reflexivity.
    + exact Hn0.
  - cbn [app]. apply name_eqb_neq in E. destruct Hd as [Hd|Hd]; [congruence|].
    apply IH; [intros d' Hd'; apply Hin; right; exact Hd'|exact Hd].
Qed.
