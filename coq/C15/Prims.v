(* C15: the numpy / pandas / Python primitives the GENERATED file build/coq/C15/Gen.v is written in.
   translator/panel_c15.py turns every statement of the conversion functions of
   sktime/utils/data_processing.py into a Gallina term over these primitives (one primitive per
   Python call / subscript / attribute, arguments translated from the source); Bridge.v proves each
   generated function equal to the hand model of Model.v.  The definitions here are the trusted
   reading of the library calls (each is exercised by the correspondence run through the model the
   Bridge lemmas equate them with).  Python ints that are sizes or positions are [nat]. *)
From Coq Require Import ZArith List Bool Lia.
Require Import SkV.Lib.Base SkV.C15.Model.
Import ListNotations.
Open Scope Z_scope.

Definition rbind {A B} (r : res A) (f : A -> res B) : res B :=
  match r with Ok a => f a | Err => Err end.

(* [f x for x in l] where f may raise *)
Fixpoint rmapM {A B} (f : A -> res B) (l : list A) : res (list B) :=
  match l with
  | [] => Ok []
  | a :: t => rbind (f a) (fun b => rbind (rmapM f t) (fun bs => Ok (b :: bs)))
  end.

Definition py_range (n : nat) : list nat := seq 0 n.
Definition py_enumerate {A} (l : list A) : list (nat * A) := combine (seq 0 (length l)) l.
Definition opt_list {A} (o : option A) : list A := match o with Some a => [a] | None => [] end.
(* l[i] as a 0/1-element list (Python raises IndexError where this is empty: never on the
   inputs of the Bridge lemmas) *)
Definition at_ {A} (l : list A) (i : nat) : list A := opt_list (nth_error l i).
Definition is_none {A} (o : option A) : bool := match o with None => true | Some _ => false end.
Definition opt_get (o : option nat) : nat := match o with Some x => x | None => O end.

(* f"<prefix>{i}" *)
Definition fstr (prefix : list Z) (i : nat) : name := NStr (prefix ++ digit_codes (Z.of_nat i)).

Fixpoint names_eqb (a b : list name) : bool :=
  match a, b with
  | [], [] => true
  | x :: a', y :: b' => name_eqb x y && names_eqb a' b'
  | _, _ => false
  end.

Section Prims.
  Context {V : Type}.

  (* --- numpy -------------------------------------------------------------------------------- *)
  Definition np_shape3 (X : arr3 V) : nat * nat * nat := (length X, shape_cols X, shape_time X).
  Definition np_shape2 (X : tab2 V) : nat * nat := (length X, length (hd [] X)).
  Definition np_ravel3 (X : arr3 V) : list V := concat (concat X).      (* C order *)
  Definition np_ravel2 (X : list (list V)) : list V := concat X.
  (* flat.reshape(a, -1) *)
  Definition np_reshape_rows (a : nat) (flat : list V) : tab2 V :=
    chunk_n a (Nat.div (length flat) a) flat.
  (* flat.reshape(a, b, c) *)
  Definition np_reshape3 (a b c : nat) (flat : list V) : arr3 V :=
    map (chunk_n b c) (chunk_n a (b * c) flat).
  (* A.swapaxes(i, j) of a 3-D array, for the two inner axes (or i = j) *)
  Definition np_swapaxes3 (i j : nat) (A : arr3 V) : arr3 V :=
    if (i =? j)%nat then A
    else if ((i =? 1) && (j =? 2) || (i =? 2) && (j =? 1))%nat
         then map (fun blk => transpose (length (hd [] blk)) blk) A
         else [].    (* swapping the outer axis is not modelled: any use breaks the Bridge lemma *)
  (* X[i, j, :] and X[i, :] *)
  Definition np_get3 (X : arr3 V) (i j : nat) : list V :=
    concat (flat_map (fun inst => at_ inst j) (at_ X i)).
  Definition np_get2 (X : tab2 V) (i : nat) : list V := concat (at_ X i).
  (* np.hstack of 2-D blocks with the same number of rows: rows are concatenated block by block *)
  Definition np_hstack (blocks : list (list (list V))) : tab2 V :=
    map (@concat V) (transpose (length (hd [] blocks)) blocks).

  (* --- nested cells and DataFrames under construction ---------------------------------------- *)
  (* a series-valued cell: what container it is, and its values *)
  Definition ncell := (cellkind * list V)%type.
  Definition mk_cell (container : cellkind) (a : list V) : ncell := (container, a).
  (* container(a, **kwargs): np.array takes no `index` keyword (TypeError) *)
  Definition call_container (container : cellkind) (kwargs_has_index : bool) (a : list V)
    : res ncell :=
    match container, kwargs_has_index with
    | KArray, true => Err
    | _, _ => Ok (container, a)
    end.
  Definition cell_is_series (c : ncell) : bool :=
    match fst c with KSeries => true | KArray => false end.
  Definition cell_to_numpy (c : ncell) : ncell := (KArray, snd c).      (* Series.to_numpy() *)
  Definition cell_values (c : ncell) : list V := snd c.

  (* pd.DataFrame() filled column by column: labelled columns in insertion order *)
  Definition dfb := list (name * list ncell).
  Definition pd_DataFrame_empty : dfb := [].
  (* df[label] = col : replaces the column with that label, else appends a new last column *)
  Definition df_setcol (df : dfb) (label : name) (col : list ncell) : dfb :=
    if existsb (fun c => name_eqb (fst c) label) df
    then map (fun c => if name_eqb (fst c) label then (label, col) else c) df
    else df ++ [(label, col)].
  Definition dfb_columns (df : dfb) : list name := map fst df.
  Definition dfb_kind (df : dfb) : cellkind :=
    match df with (_, (k, _) :: _) :: _ => k | _ => KSeries end.
  Definition dfb_nrows (df : dfb) : nat := match df with (_, col) :: _ => length col | [] => O end.
  (* the finished frame, read row by row *)
  Definition df_finish (df : dfb) : nested V :=
    mkN (dfb_kind df) (dfb_columns df)
        (transpose (dfb_nrows df) (map (fun c => map (@snd cellkind (list V)) (snd c)) df)).
  (* pd.DataFrame(pd.Series(cells)): one column labelled 0 *)
  Definition df_of_cells (cells : list ncell) : dfb := [(NInt 0, cells)].

  (* a nested frame as rows of cells / its shape / its columns *)
  Definition nested_cells (x : nested V) : list (list ncell) :=
    map (map (fun s => (n_kind x, s))) (n_rows x).
  Definition nested_shape1 (x : nested V) : nat := length (n_cols x).
  (* X.iloc[:, i].tolist(): column i as a list of 1-D value lists *)
  Definition nested_col_tolist (x : nested V) (i : nat) : list (list V) :=
    flat_map (fun row => at_ row i) (n_rows x).
  Definition nested_set_columns (x : nested V) (l : list name) : nested V :=
    mkN (n_kind x) l (n_rows x).

  (* --- multi-index frames --------------------------------------------------------------------- *)
  Definition mi_nlevels (m : mi V) : nat := 2%nat.
  Definition mi_level (lv : nat) (r : (Z * Z) * list V) : Z :=
    match lv with O => r_inst r | _ => r_time r end.
  (* Index.get_level_values(lv).unique() / the group keys of groupby(level=lv) *)
  Definition mi_level_unique (m : mi V) (lv : nat) : list Z := uniqz (map (mi_level lv) (m_rows m)).
  Definition mi_shape1 (m : mi V) : nat := length (m_cols m).
  Definition mi_values (m : mi V) : list (list V) := map (@snd (Z * Z) (list V)) (m_rows m).
  Definition mi_columns (m : mi V) : list name := m_cols m.
  Definition mi_set_columns (m : mi V) (l : list name) : mi V := mkM l (m_rows m).
  (* DataFrame.iteritems(): (label, column) pairs, a column being the keyed values *)
  Definition kser := list ((Z * Z) * V).
  Definition mi_items (m : mi V) : list (name * kser) :=
    map (fun jn => (snd jn, flat_map (fun r => map (fun v => (fst r, v)) (at_ (snd r) (fst jn)))
                                     (m_rows m)))
        (py_enumerate (m_cols m)).
  (* series.xs(label, level=lv).values *)
  Definition kser_xs_values (s : kser) (label : Z) (lv : nat) : list V :=
    map (@snd (Z * Z) V)
        (filter (fun kv => (match lv with O => fst (fst kv) | _ => snd (fst kv) end) =? label) s).

  (* --- long tables ---------------------------------------------------------------------------- *)
  (* X_long.pivot(index=[a, b], columns=dim, values=value); the index columns are given by role:
     0 = the instance column, 1 = the time column of the long table *)
  Definition l_role (role : nat) (e : lrow V) : Z :=
    let '(i, _, t, _) := e in match role with O => i | _ => t end.
  Definition long_pivot_by (ra rb : nat) (L : long V) : mi V :=
    let key e := (l_role ra e, l_role rb e) in
    let dims := sort_u name_ltb name_eqb (map l_dim L) in
    let keys := sort_u key_ltb key_eqb (map key L) in
    mkM dims
        (map (fun k => (k, flat_map (fun d => map l_val
                             (filter (fun e => key_eqb (key e) k && name_eqb (l_dim e) d) L)) dims))
             keys).

  (* --- frames with arbitrary cells (nestedness predicates) ------------------------------------ *)
  Inductive pytype := TySeries | TyNdarray | TyDataFrame.
  Definition isinstance_cell (c : cell V) (tys : list pytype) : bool :=
    existsb (fun ty => match c, ty with
                       | CSer _, TySeries | CArr _, TyNdarray => true
                       | _, _ => false end) tys.
  (* X.applymap(f) for a boolean f: rows of booleans, remembering the number of columns *)
  Definition boolframe := (nat * list (list bool))%type.
  Definition frame_applymap (f : cell V -> bool) (X : frame V) : boolframe :=
    (f_ncol X, map (map f) (f_rows X)).
  (* DataFrame.any(): per column *)
  Definition bf_any (b : boolframe) : list bool :=
    map (existsb (fun x => x)) (transpose (fst b) (snd b)).
  Definition bools_any (l : list bool) : bool := existsb (fun x => x) l.
  Definition count_true (l : list bool) : nat := length (filter (fun x => x) l).
  Definition bools_all (l : list bool) : bool := forallb (fun x => x) l.          (* all(l) *)

  (* --- nested frame -> multi-index frame, instance by instance -------------------------------- *)
  (* X.index.get_level_values(-1).unique() of a frame with the default RangeIndex *)
  Definition nested_index_unique (x : nested V) : list Z := ziota 0 (length (n_rows x)).
  (* X.loc[idx, :].iteritems(): the (label, cell) pairs of one row *)
  Definition nested_loc_row_items (x : nested V) (idx : Z) : list (name * ncell) :=
    combine (n_cols x) (map (fun s => (n_kind x, s)) (concat (at_ (n_rows x) (Z.to_nat idx)))).
  (* pd.concat(series, axis=1) of equally (0..T-1) indexed series: a T x c block, row = time point *)
  Definition tblock := list (list V).
  Definition pd_concat_axis1 (sers : list (list V)) : tblock :=
    transpose (length (hd [] sers)) sers.
  (* block.iloc[:, j] / block.iloc[:, j] = col / col.ffill() (no missing values: nothing to fill) *)
  Definition block_col (b : tblock) (j : nat) : list V := flat_map (fun row => at_ row j) b.
  Fixpoint set_nth {A} (l : list A) (j : nat) (a : A) : list A :=
    match l, j with
    | [], _ => []
    | _ :: t, O => a :: t
    | h :: t, S j' => h :: set_nth t j' a
    end.
  Definition block_set_col (b : tblock) (j : nat) (col : list V) : tblock :=
    map (fun rv => set_nth (fst rv) j (snd rv)) (combine b col).
  Definition col_ffill (col : list V) : list V := col.
  (* block.index (0..T-1) ; MultiIndex.from_product([[idx], index]) ; block.index = keys *)
  Definition block_index (b : tblock) : list Z := ziota 0 (length b).
  Definition mi_from_product2 (a b : list Z) : list (Z * Z) :=
    flat_map (fun i => map (pair i) b) a.
  Definition kblock := list ((Z * Z) * list V).
  Definition block_set_index (b : tblock) (keys : list (Z * Z)) : kblock := combine keys b.
  (* pd.concat(blocks) then .columns = labels *)
  Definition pd_concat_rows (blocks : list kblock) : kblock := concat blocks.
  Definition mi_of_rows (rows : kblock) (labels : list name) : mi V := mkM labels rows.

  (* --- multi-index frame -> long table, column by column -------------------------------------- *)
  (* X_mi.index.to_frame(index=False): the two index levels as columns *)
  Definition mi_index_frame (m : mi V) : list (Z * Z) := map (@fst (Z * Z) (list V)) (m_rows m).
  (* X_mi.iloc[:, j].to_numpy() *)
  Definition mi_col_values (m : mi V) (j : nat) : list V :=
    flat_map (fun r => at_ (snd r) j) (m_rows m).
  (* ids.assign(column=labels, value=values): rows (instance, label, time, value) *)
  Definition ids_assign (ids : list (Z * Z)) (labels : list name) (values : list V) : long V :=
    map (fun x => let '(k, d, v) := x in (fst k, d, snd k, v)) (combine (combine ids labels) values).
  Definition long_concat (blocks : list (long V)) : long V := concat blocks.

  (* --- 3-D array -> multi-index frame: product index, flatten, unstack ------------------------- *)
  (* pd.MultiIndex.from_product([a, b, c]) *)
  Definition mi_from_product3 (a b c : list nat) : list (nat * nat * nat) :=
    flat_map (fun i => flat_map (fun j => map (fun t => (i, j, t)) c) b) a.
  (* pd.DataFrame({"X": values}, index=idx): one value column with a 3-level index *)
  Definition series3 := list ((nat * nat * nat) * V).
  Definition mk_series3 (idx : list (nat * nat * nat)) (vals : list V) : series3 := combine idx vals.
  (* S.unstack(level=lv): the labels of level lv become the columns, the other two levels (in
     order) the row index; rows and columns sorted, each cell looked up by its three labels - i.e.
     the pivot of the series read as a long table *)
  Definition unstack3 (lv : nat) (S : series3) : mi V :=
    long_pivot (map (fun kv : (nat * nat * nat) * V =>
                       let '((a, b, c), v) := kv in
                       match lv with
                       | O => (Z.of_nat b, NInt (Z.of_nat a), Z.of_nat c, v)
                       | S O => (Z.of_nat a, NInt (Z.of_nat b), Z.of_nat c, v)
                       | _ => (Z.of_nat a, NInt (Z.of_nat c), Z.of_nat b, v)
                       end) S).
End Prims.
