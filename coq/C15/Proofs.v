From Coq Require Import ZArith List Bool Lia.
Require Import SkV.Lib.Base SkV.C15.Model.
Import ListNotations.
Open Scope Z_scope.

Lemma placeholder_nested_3d : forall (V : Type) (x : nested V), nested_to_3d x = n_rows x.
Proof. reflexivity. Qed.
