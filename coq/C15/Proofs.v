(* C15 proofs, part 1: well-formedness, round trips nested / 3-D / multi-index / 2-D, shapes,
   nestedness predicates, check_X. *)
From Coq Require Import ZArith List Bool Lia Permutation.
Require Import SkV.Lib.Base SkV.C15.Model SkV.C15.Lemmas.
Import ListNotations.
Open Scope Z_scope.

(* ---------------------------------------------------------------------------------------------- *)
(* identifiers *)

Lemma zlist_eqb_eq a b : zlist_eqb a b = true <-> a = b.
Proof.
  revert b. induction a as [|x a IH]; intros [|y b]; cbn; try (split; [discriminate|congruence]).
  - tauto.
  - rewrite andb_true_iff, IH, Z.eqb_eq. split; [intros [-> ->]; reflexivity|].
    intro H. inversion H. tauto.
Qed.

Lemma name_eqb_eq a b : name_eqb a b = true <-> a = b.
Proof.
  destruct a as [x|x], b as [y|y]; cbn; try (split; [discriminate|congruence]).
  - rewrite zlist_eqb_eq. split; congruence.
  - rewrite Z.eqb_eq. split; congruence.
Qed.

Lemma name_eqb_refl a : name_eqb a a = true.
Proof. apply name_eqb_eq. reflexivity. Qed.

Lemma name_eqb_neq a b : name_eqb a b = false <-> a <> b.
Proof.
  rewrite <- name_eqb_eq. destruct (name_eqb a b); split; congruence.
Qed.

Lemma distinctb_NoDup l : distinctb l = true <-> NoDup l.
Proof.
  induction l as [|a t IH]; cbn.
  - split; [constructor|reflexivity].
  - rewrite andb_true_iff, IH, negb_true_iff. split.
    + intros [H1 H2]. constructor; [|exact H2]. intro Hin.
      assert (existsb (name_eqb a) t = true); [|congruence].
      apply existsb_exists. exists a. split; [exact Hin|apply name_eqb_refl].
    + intro H. inversion H; subst. split; [|assumption].
      destruct (existsb (name_eqb a) t) eqn:E; [|reflexivity].
      apply existsb_exists in E. destruct E as [y [Hy Hay]]. apply name_eqb_eq in Hay. subst y.
      contradiction.
Qed.

Lemma default_names_length c : length (default_names c) = c.
Proof. unfold default_names. rewrite map_length. apply ziota_length. Qed.

(* ---------------------------------------------------------------------------------------------- *)
(* well-formed panels *)

Lemma hd_in {A} (d : A) l : (1 <= length l)%nat -> In (hd d l) l.
Proof. destruct l; cbn; [lia|]. intros _. left. reflexivity. Qed.

Lemma map_const {A B} (b : B) (l : list A) : map (fun _ => b) l = repeat b (length l).
Proof. induction l as [|a l IH]; [reflexivity|]. cbn. f_equal. exact IH. Qed.

Lemma nth_repeat_lt {A} (a d : A) m j : (j < m)%nat -> nth j (repeat a m) d = a.
Proof.
  revert j. induction m as [|m IH]; intros j H; [lia|]. destruct j; cbn; [reflexivity|apply IH; lia].
Qed.

Section Proofs1.
  Context {V : Type}.
  Implicit Types (p X : panel V) (x : nested V) (m : mi V).

  Definition wf_panel (n c T : nat) p : Prop :=
    (1 <= n)%nat /\ (1 <= c)%nat /\ (2 <= T)%nat /\ length p = n /\ Forall (rect c T) p.

  Lemma wf_panelb_iff n c T p : wf_panelb n c T p = true <-> wf_panel n c T p.
  Proof.
    unfold wf_panelb, wf_panel. rewrite !andb_true_iff, !Nat.leb_le, Nat.eqb_eq, forallb_forall,
      Forall_forall.
    split.
    - intros [[[[H1 H2] H3] H4] H5]. refine (conj H1 (conj H2 (conj H3 (conj H4 _)))).
      intros i Hi. apply rectb_rect. apply H5. exact Hi.
    - intros [H1 [H2 [H3 [H4 H5]]]]. refine (conj (conj (conj (conj H1 H2) H3) H4) _).
      intros i Hi. apply rectb_rect. apply H5. exact Hi.
  Qed.

  Definition names_ok (c : nat) (cn : option (list name)) : Prop :=
    match cn with Some l => length l = c /\ NoDup l | None => True end.

  Lemma names_or_default_length cn c : names_ok c cn -> length (names_or_default cn c) = c.
  Proof.
    destruct cn as [l|]; cbn; [tauto|]. intros _. apply default_names_length.
  Qed.

  Section WF.
    Variables (n c T : nat) (p : panel V).
    Hypothesis Hwf : wf_panel n c T p.

    Lemma wf_len : length p = n. Proof. apply Hwf. Qed.
    Lemma wf_inst : forall inst, In inst p -> rect c T inst.
    Proof. destruct Hwf as [_ [_ [_ [_ H]]]]. rewrite Forall_forall in H. exact H. Qed.

    (* as an n x c matrix of series *)
    Lemma wf_rect_series : rect n c p.
    Proof.
      split; [apply wf_len|]. apply Forall_forall. intros inst Hi. apply (wf_inst inst Hi).
    Qed.

    Lemma wf_shape_cols : shape_cols p = c.
    Proof.
      unfold shape_cols. apply (wf_inst (hd [] p)). apply hd_in. rewrite wf_len.
      destruct Hwf. lia.
    Qed.

    Lemma wf_inst_time inst : In inst p -> length (hd [] inst) = T.
    Proof.
      intro Hi. destruct (wf_inst inst Hi) as [Hl HF]. destruct inst as [|s t].
      - cbn in Hl. destruct Hwf as [_ [? _]]. lia.
      - cbn. inversion HF. assumption.
    Qed.

    Lemma wf_shape_time : shape_time p = T.
    Proof.
      unfold shape_time. apply wf_inst_time. apply hd_in. rewrite wf_len. destruct Hwf. lia.
    Qed.

    (* --- nested <-> 3-D --- *)

    Lemma a3_to_nested_eq cn k : a3_to_nested cn k p = mkN k (names_or_default cn c) p.
    Proof.
      unfold a3_to_nested. rewrite wf_shape_cols, wf_len.
      rewrite (transpose_involutive n c p wf_rect_series). reflexivity.
    Qed.

    (* --- multi-index --- *)

    Lemma block_rows_snd T' i inst : map snd (@block_rows V T' (i, inst)) = transpose T' inst.
    Proof.
      unfold block_rows. rewrite map_map. cbn [snd]. rewrite enum_enum_from. apply enum_from_snd.
    Qed.

    Lemma block_rows_inst T' i inst :
      map r_inst (@block_rows V T' (i, inst)) = repeat i T'.
    Proof.
      unfold block_rows. rewrite map_map. cbn [fst r_inst]. rewrite map_const.
      rewrite enum_enum_from, enum_from_length, transpose_length. reflexivity.
    Qed.

    Lemma block_rows_time T' i inst :
      map r_time (@block_rows V T' (i, inst)) = ziota 0 T'.
    Proof.
      unfold block_rows. rewrite map_map. cbn [fst snd r_time]. rewrite enum_enum_from.
      change (fun x : Z * list V => fst x) with (@fst Z (list V)).
      rewrite enum_from_fst, transpose_length. reflexivity.
    Qed.

    Definition mi_rows : list ((Z * Z) * list V) := flat_map (block_rows T) (enum p).

    Lemma mi_rows_vals : map snd mi_rows = concat (map (transpose T) p).
    Proof.
      unfold mi_rows. rewrite map_flat_map, flat_map_concat_map. f_equal.
      rewrite enum_enum_from. rewrite <- (enum_from_snd 0 p) at 2. rewrite map_map.
      apply map_ext. intros [i inst]. apply block_rows_snd.
    Qed.

    Lemma mi_rows_insts : map r_inst mi_rows = flat_map (fun i => repeat i T) (ziota 0 n).
    Proof.
      unfold mi_rows. rewrite map_flat_map. rewrite enum_enum_from.
      rewrite <- wf_len, <- (enum_from_fst 0 p), flat_map_map.
      apply flat_map_ext_in. intros [i inst] _. apply block_rows_inst.
    Qed.

    Lemma mi_rows_times : map r_time mi_rows = concat (repeat (ziota 0 T) n).
    Proof.
      unfold mi_rows. rewrite map_flat_map, enum_enum_from, <- wf_len.
      rewrite <- (enum_from_length 0 p).
      induction (enum_from 0 p) as [|[i inst] l IH]; [reflexivity|].
      cbn [flat_map length repeat concat]. rewrite block_rows_time, IH. reflexivity.
    Qed.

    Lemma mi_rows_n_instances : uniqz (map r_inst mi_rows) = ziota 0 n.
    Proof.
      rewrite mi_rows_insts. apply uniqz_blocks; [destruct Hwf; lia|apply ziota_NoDup].
    Qed.

    Lemma mi_rows_n_timepoints : uniqz (map r_time mi_rows) = ziota 0 T.
    Proof.
      rewrite mi_rows_times. apply uniqz_copies; [destruct Hwf; lia|apply ziota_NoDup].
    Qed.

    Lemma a3_to_mi_eq cn : a3_to_mi cn p = mkM (names_or_default cn c) mi_rows.
    Proof. unfold a3_to_mi, mi_rows. rewrite wf_shape_cols, wf_shape_time. reflexivity. Qed.

    Lemma nested_to_mi_eq k cols : nested_to_mi (mkN k cols p) = mkM cols mi_rows.
    Proof.
      unfold nested_to_mi, mi_rows. cbn [n_cols n_rows]. f_equal.
      apply flat_map_ext_in. intros [i inst] Hin. cbn [snd].
      rewrite enum_enum_from in Hin. apply enum_from_In_ge in Hin.
      rewrite (wf_inst_time inst); tauto.
    Qed.

    Lemma mi_to_3d_rows cols : length cols = c -> mi_to_3d (mkM cols mi_rows) = p.
    Proof.
      intro Hc. unfold mi_to_3d. cbn [m_rows m_cols].
      rewrite mi_rows_n_instances, mi_rows_n_timepoints, !ziota_length, mi_rows_vals, Hc.
      rewrite <- wf_len, <- (map_length (transpose T) p).
      rewrite chunk_n_concat.
      - rewrite map_map. rewrite <- (map_id p) at 2. apply map_ext_in. intros inst Hi.
        apply transpose_involutive. apply (wf_inst inst Hi).
      - apply Forall_forall. intros b Hb. apply in_map_iff in Hb. destruct Hb as [inst [<- _]].
        apply transpose_length.
    Qed.

    Lemma block_rows_key T' i inst b : In b (@block_rows V T' (i, inst)) -> r_inst b = i.
    Proof.
      unfold block_rows. intro H. apply in_map_iff in H. destruct H as [tr [<- _]]. reflexivity.
    Qed.

    Lemma mi_to_nested_rows k cols :
      length cols = c -> mi_to_nested k (mkM cols mi_rows) = mkN k cols p.
    Proof.
      intro Hc. unfold mi_to_nested. cbn [m_rows m_cols]. f_equal.
      rewrite mi_rows_n_instances, <- wf_len. unfold mi_rows. rewrite enum_enum_from.
      rewrite (map_filter_blocks r_inst (block_rows T) (block_rows_key T)
                 (fun l => transpose (length cols) (map snd l)) 0 p).
      rewrite <- (enum_from_snd 0 p) at 2. apply map_ext_in. intros [i inst] Hin.
      rewrite block_rows_snd, Hc. cbn [snd]. apply transpose_involutive.
      apply enum_from_In_ge in Hin. apply wf_inst. tauto.
    Qed.

    (* --- shapes --- *)

    Lemma mi_rows_length : length mi_rows = (n * T)%nat.
    Proof.
      rewrite <- (map_length snd), mi_rows_vals.
      rewrite (length_concat_rect n T).
      - reflexivity.
      - split; [rewrite map_length; apply wf_len|]. apply Forall_forall. intros b Hb.
        apply in_map_iff in Hb. destruct Hb as [inst [<- _]]. apply transpose_length.
    Qed.

    Lemma mi_rows_width r : In r mi_rows -> length (snd r) = c.
    Proof.
      intro Hr. apply (in_map snd) in Hr. rewrite mi_rows_vals in Hr. apply in_concat in Hr.
      destruct Hr as [blk [Hb Hr]]. apply in_map_iff in Hb. destruct Hb as [inst [<- Hi]].
      destruct (transpose_rect c T inst (wf_inst inst Hi)) as [_ HF].
      rewrite Forall_forall in HF. apply HF. exact Hr.
    Qed.

    Lemma tab_shape : rect n (c * T) (map (@concat V) p).
    Proof.
      split; [rewrite map_length; apply wf_len|]. apply Forall_forall. intros r Hr.
      apply in_map_iff in Hr. destruct Hr as [inst [<- Hi]].
      apply length_concat_rect. apply (wf_inst inst Hi).
    Qed.
  End WF.

  (* --- 2-D table --- *)

  Definition flattenp (p : panel V) : panel V := map (fun inst => [concat inst]) p.

  Lemma tab_to_nested_flat k p : tab_to_nested k (map (@concat V) p) = mkN k [NInt 0] (flattenp p).
  Proof. unfold tab_to_nested, flattenp. rewrite map_map. reflexivity. Qed.

  Lemma tab_roundtrip k (t : tab2 V) : nested_to_2d (tab_to_nested k t) = t.
  Proof.
    unfold nested_to_2d, tab_to_nested. cbn [n_rows]. rewrite map_map.
    rewrite <- (map_id t) at 2. apply map_ext. intro r. cbn. apply app_nil_r.
  Qed.

  Lemma flattenp_univariate n T p : wf_panel n 1 T p -> flattenp p = p.
  Proof.
    intros [_ [_ [_ [_ HF]]]]. unfold flattenp. rewrite <- (map_id p) at 2.
    apply map_ext_in. intros inst Hi. rewrite Forall_forall in HF. destruct (HF inst Hi) as [Hl _].
    destruct inst as [|s [|? ?]]; try discriminate. cbn. rewrite app_nil_r. reflexivity.
  Qed.

  Lemma flattenp_wf n c T p : wf_panel n c T p -> wf_panel n 1 (c * T) (flattenp p).
  Proof.
    intros Hwf. pose proof Hwf as [H1 [H2 [H3 [H4 H5]]]]. unfold flattenp.
    repeat split; try lia; try nia.
    - rewrite map_length. exact H4.
    - apply Forall_forall. intros i Hi. apply in_map_iff in Hi. destruct Hi as [inst [<- Hi]].
      split; [reflexivity|]. constructor; [|constructor].
      apply length_concat_rect. rewrite Forall_forall in H5. apply H5. exact Hi.
  Qed.

  (* --- nestedness predicates --- *)

  Lemma existsb_id_In l : existsb (fun b : bool => b) l = true <-> In true l.
  Proof.
    rewrite existsb_exists. split.
    - intros [b [Hb Hb']]. subst b. exact Hb.
    - intro H. exists true. tauto.
  Qed.

  Definition frame_rect (f : frame V) : Prop :=
    Forall (fun r => length r = f_ncol f) (f_rows f).

  Lemma are_columns_nested_nth f j :
    frame_rect f -> (j < f_ncol f)%nat ->
    nth j (are_columns_nested f) false =
    existsb (fun r => cell_nested (nth j r CObj)) (f_rows f).
  Proof.
    intros HF Hj. unfold are_columns_nested.
    transitivity (existsb (fun b : bool => b)
                    (nth j (transpose (f_ncol f) (map (map cell_nested) (f_rows f))) [])).
    { exact (map_nth (existsb (fun b : bool => b)) _ [] j). }
    rewrite (transpose_nth false).
    - induction (f_rows f) as [|r t IH]; [reflexivity|]. cbn [map existsb]. rewrite IH. f_equal.
      rewrite <- (map_nth cell_nested). reflexivity.
    - exact Hj.
    - apply Forall_forall. intros r Hr. apply in_map_iff in Hr. destruct Hr as [r' [<- Hr']].
      rewrite map_length. unfold frame_rect in HF. rewrite Forall_forall in HF. apply HF. exact Hr'.
  Qed.

  Lemma is_nested_iff f :
    frame_rect f ->
    (is_nested_dataframe f = true <->
     exists row cl, In row (f_rows f) /\ In cl row /\ cell_nested cl = true).
  Proof.
    intro HF. unfold is_nested_dataframe, are_columns_nested.
    set (mask := map (map cell_nested) (f_rows f)).
    assert (Hr : rect (length (f_rows f)) (f_ncol f) mask).
    { split; [unfold mask; apply map_length|]. apply Forall_forall. intros r Hr.
      apply in_map_iff in Hr. destruct Hr as [r' [<- Hr']]. rewrite map_length.
      unfold frame_rect in HF. rewrite Forall_forall in HF. apply HF. exact Hr'. }
    rewrite existsb_id_In, in_map_iff.
    split.
    - intros [col [Hc Hin]]. apply existsb_id_In in Hc.
      assert (H : In true (concat (transpose (f_ncol f) mask))).
      { apply in_concat. exists col. tauto. }
      apply (Permutation_in _ (concat_transpose_perm _ _ _ Hr)) in H.
      apply in_concat in H. destruct H as [mrow [Hm Ht]]. unfold mask in Hm.
      apply in_map_iff in Hm. destruct Hm as [row [<- Hrow]].
      apply in_map_iff in Ht. destruct Ht as [cl [Hcl Hin']]. exists row, cl. tauto.
    - intros [row [cl [Hrow [Hcl Hn]]]].
      assert (H : In true (concat mask)).
      { apply in_concat. exists (map cell_nested row). split.
        - unfold mask. apply in_map. exact Hrow.
        - rewrite <- Hn. apply in_map. exact Hcl. }
      apply (Permutation_in _ (Permutation_sym (concat_transpose_perm _ _ _ Hr))) in H.
      apply in_concat in H. destruct H as [col [Hc Ht]]. exists col. split; [|exact Hc].
      apply existsb_id_In. exact Ht.
  Qed.

  Lemma frame_of_nested_rect n c T x :
    wf_panel n c T (n_rows x) -> length (n_cols x) = c -> frame_rect (frame_of_nested x).
  Proof.
    intros Hwf Hc. unfold frame_rect, frame_of_nested. cbn [f_rows f_ncol].
    apply Forall_forall. intros r Hr. apply in_map_iff in Hr. destruct Hr as [inst [<- Hi]].
    rewrite map_length, Hc. apply (wf_inst n c T (n_rows x) Hwf inst Hi).
  Qed.

  Lemma nested_frames_are_nested n c T x :
    wf_panel n c T (n_rows x) -> length (n_cols x) = c ->
    is_nested_dataframe (frame_of_nested x) = true /\
    are_columns_nested (frame_of_nested x) = repeat true c.
  Proof.
    intros Hwf Hc. pose proof (frame_of_nested_rect n c T x Hwf Hc) as HR.
    assert (Hcols : are_columns_nested (frame_of_nested x) = repeat true c).
    { apply (nth_ext _ _ false false).
      - unfold are_columns_nested. rewrite map_length, transpose_length, repeat_length.
        unfold frame_of_nested. cbn. exact Hc.
      - intros j Hj. unfold are_columns_nested in Hj. rewrite map_length, transpose_length in Hj.
        rewrite are_columns_nested_nth by assumption.
        assert (Hjc : (j < c)%nat) by (unfold frame_of_nested in Hj; cbn in Hj; lia).
        rewrite (nth_repeat_lt true false c j Hjc).
        set (mk := fun s : list V => match n_kind x with KSeries => CSer s | KArray => CArr s end).
        assert (Hi : In (hd [] (n_rows x)) (n_rows x)).
        { apply hd_in. rewrite (wf_len n c T _ Hwf). destruct Hwf. lia. }
        destruct (wf_inst n c T _ Hwf _ Hi) as [Hl _].
        apply existsb_exists. exists (map mk (hd [] (n_rows x))). split.
        + unfold frame_of_nested. cbn [f_rows]. apply in_map_iff. exists (hd [] (n_rows x)). tauto.
        + rewrite (nth_indep _ CObj (mk [])) by (rewrite map_length; lia).
          rewrite (map_nth mk). unfold mk. destruct (n_kind x); reflexivity. }
    split; [|exact Hcols].
    unfold is_nested_dataframe. rewrite Hcols. destruct c as [|c']; [destruct Hwf; lia|reflexivity].
  Qed.

  Lemma prim_frames_not_nested ncol (rows : list (list V)) :
    Forall (fun r => length r = ncol) rows ->
    is_nested_dataframe (frame_of_prims ncol rows) = false.
  Proof.
    intro HF. destruct (is_nested_dataframe (frame_of_prims ncol rows)) eqn:E; [|reflexivity].
    apply is_nested_iff in E.
    - destruct E as [row [cl [Hrow [Hcl Hn]]]]. unfold frame_of_prims in Hrow. cbn in Hrow.
      apply in_map_iff in Hrow. destruct Hrow as [r [<- _]].
      apply in_map_iff in Hcl. destruct Hcl as [v [<- _]]. discriminate.
    - unfold frame_rect, frame_of_prims. cbn. apply Forall_forall. intros r Hr.
      apply in_map_iff in Hr. destruct Hr as [r' [<- Hr']]. rewrite map_length.
      rewrite Forall_forall in HF. apply HF. exact Hr'.
  Qed.
End Proofs1.
