From Coq Require Import ZArith List Bool.
Require Import SkV.Lib.Base SkV.C15.Model SkV.C15.Proofs.
Import ListNotations.
Open Scope Z_scope.

Theorem C15_placeholder : forall (V : Type) (x : nested V), nested_to_3d x = n_rows x.
Proof. exact placeholder_nested_3d. Qed.
Print Assumptions C15_placeholder.
