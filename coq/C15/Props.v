(* C15 property theorems: statements only, each closed by `exact` and followed by Print Assumptions.
   Containers are the list structures of Model.v, polymorphic in the value type V; `panel V` is
   instance x variable x time; wf_panel n c T p: rectangular with n >= 1, c >= 1, T >= 2
   (decided by wf_panelb); wf_nested adds as many pairwise distinct column names as variables. *)
From Coq Require Import ZArith List Bool Permutation Sorted.
Require Import SkV.Lib.Base SkV.C15.Model SkV.C15.Lemmas SkV.C15.Proofs SkV.C15.Long SkV.C15.Paths
  SkV.C15.Main SkV.C15.Layout SkV.C15.Labels SkV.C15.Prims SkV.C15.Gen SkV.C15.Bridge SkV.C15.BridgeAll.
Import ListNotations.
Open Scope Z_scope.

(* the boolean well-formedness predicates decide the propositional ones used below *)
Theorem C15_wf_boolean_reflects : forall V n c T (x : nested V) (p : panel V),
  (wf_panelb n c T p = true <-> wf_panel n c T p) /\
  (wf_nestedb n c T x = true <-> wf_nested n c T x).
Proof. exact @wf_reflect. Qed.
Print Assumptions C15_wf_boolean_reflects.

(* nested <-> 3-D array: values, shape, orders, names (when passed back) and cell kind return *)
Theorem C15_roundtrip_nested_3d : forall V n c T (x : nested V),
  wf_nested n c T x ->
  a3_to_nested (Some (n_cols x)) (n_kind x) (nested_to_3d x) = x /\
  (forall cn k, nested_to_3d (a3_to_nested cn k (nested_to_3d x)) = nested_to_3d x).
Proof. exact @main_roundtrip_nested_3d. Qed.
Print Assumptions C15_roundtrip_nested_3d.

(* 3-D array <-> multi-index frame *)
Theorem C15_roundtrip_3d_multiindex : forall V n c T (X : panel V) cn,
  wf_panel n c T X -> names_ok c cn ->
  mi_to_3d (a3_to_mi cn X) = X /\
  a3_to_mi (Some (m_cols (a3_to_mi cn X))) (mi_to_3d (a3_to_mi cn X)) = a3_to_mi cn X.
Proof. exact @main_roundtrip_3d_mi. Qed.
Print Assumptions C15_roundtrip_3d_multiindex.

(* nested <-> multi-index frame (names carried both ways) *)
Theorem C15_roundtrip_nested_multiindex : forall V n c T (x : nested V),
  wf_nested n c T x ->
  mi_to_nested (n_kind x) (nested_to_mi x) = x /\
  (forall k, nested_to_mi (mi_to_nested k (nested_to_mi x)) = nested_to_mi x).
Proof. exact @main_roundtrip_nested_mi. Qed.
Print Assumptions C15_roundtrip_nested_multiindex.

(* nested -> long -> nested: same instances and time order, variables rearranged into the order of
   their sorted identifiers, labelled by these identifiers (or by `column_names` when passed) *)
Theorem C15_roundtrip_nested_long : forall V n c T (x : nested V) cn,
  wf_nested n c T x ->
  long_to_nested cn (nested_to_long x) =
  mkN KSeries (names_or_sorted cn (n_cols x)) (sort_vars (n_cols x) (n_rows x)) /\
  wf_panel n c T (sort_vars (n_cols x) (n_rows x)).
Proof. exact @main_roundtrip_nested_long. Qed.
Print Assumptions C15_roundtrip_nested_long.

(* ... so the original column names come back through the long table, each on its own data: looking
   a variable up by its identifier (pick) gives, instance by instance, the series it had *)
Theorem C15_names_stay_with_their_data : forall V n c T (x : nested V),
  wf_nested n c T x ->
  let y := long_to_nested None (nested_to_long x) in
  wf_nested n c T y /\ n_kind y = KSeries /\
  n_cols y = sort_names (n_cols x) /\ Permutation (n_cols y) (n_cols x) /\
  Forall2 (fun ry rx => forall d, In d (n_cols x) ->
                        pick d (n_cols y) ry = pick d (n_cols x) rx /\
                        length (pick d (n_cols x) rx) = 1%nat)
          (n_rows y) (n_rows x).
Proof. exact @main_names_stay_with_data. Qed.
Print Assumptions C15_names_stay_with_their_data.

Theorem C15_long_orders_by_identifier : forall V,
  (forall L : long V, Sorted name_lt (m_cols (long_pivot L))) /\
  (forall n c T (x : nested V), wf_nested n c T x ->
     Sorted name_lt (sort_names (n_cols x)) /\
     Permutation (sort_names (n_cols x)) (n_cols x) /\
     (forall inst, In inst (n_rows x) ->
        Permutation (select (sort_names (n_cols x)) (n_cols x) inst) inst) /\
     (Sorted name_lt (n_cols x) -> sort_vars (n_cols x) (n_rows x) = n_rows x)).
Proof. exact @main_long_orders_by_identifier. Qed.
Print Assumptions C15_long_orders_by_identifier.

(* the rows of a long table may come in any order *)
Theorem C15_long_row_order_irrelevant : forall V n c T (x : nested V) cn (L : long V),
  wf_nested n c T x -> Permutation (nested_to_long x) L ->
  long_to_nested cn L = long_to_nested cn (nested_to_long x).
Proof. exact @main_long_row_order_irrelevant. Qed.
Print Assumptions C15_long_row_order_irrelevant.

(* 2-D table: table -> nested -> table is the identity; nested/3-D -> table -> nested keeps
   instances and values, concatenating the variables (in their order) into one: the identity for
   one column *)
Theorem C15_roundtrip_2d_table : forall V,
  (forall k (t : tab2 V), nested_to_2d (tab_to_nested k t) = t) /\
  (forall k (x : nested V), tab_to_nested k (nested_to_2d x) = mkN k [NInt 0] (flattenp (n_rows x))) /\
  (forall k (X : panel V), tab_to_nested k (a3_to_2d X) = mkN k [NInt 0] (flattenp X)) /\
  (forall n T (p : panel V), wf_panel n 1 T p -> flattenp p = p) /\
  (forall n c T (p : panel V), wf_panel n c T p -> wf_panel n 1 (c * T) (flattenp p)).
Proof. exact @main_roundtrip_2d. Qed.
Print Assumptions C15_roundtrip_2d_table.

(* every conversion, hence every path of any length, is: transform the canonical panel (sem),
   then render the end container from it *)
Theorem C15_paths_factor_through_panel : forall V es t (c : @cpanel V),
  cwf c -> path_ok es (t, c) -> run_path es (render t c) = result (sem_path es (t, c)).
Proof. exact @path_factor. Qed.
Print Assumptions C15_paths_factor_through_panel.

Theorem C15_all_paths_agree : forall V es1 es2 t (c : @cpanel V),
  cwf c -> path_ok es1 (t, c) -> path_ok es2 (t, c) ->
  sem_path es1 (t, c) = sem_path es2 (t, c) ->
  run_path es1 (render t c) = run_path es2 (render t c).
Proof. exact @paths_agree. Qed.
Print Assumptions C15_all_paths_agree.

(* paths that avoid "2-D table -> nested" and "long -> nested" return the very same data *)
Theorem C15_lossless_paths_keep_data : forall V es t (c : @cpanel V) r,
  cwf c -> path_ok es (t, c) -> forallb lossless es = true ->
  run_path es (render t c) = Ok r ->
  exists t' c', r = render t' c' /\ c_data c' = c_data c /\ cwf c'.
Proof. exact @main_lossless_paths_keep_data. Qed.
Print Assumptions C15_lossless_paths_keep_data.

(* ... and exactly WHAT they return: the original data rendered in the end representation, under
   names computed without looking at the data *)
Theorem C15_lossless_path_result : forall V es t (c : @cpanel V) t' (c' : @cpanel V),
  cwf c -> path_ok es (t, c) -> forallb lossless es = true ->
  sem_path es (t, c) = Some (t', c') ->
  run_path es (render t c) = Ok (render t' (mkC (c_names c') (c_data c))) /\
  nsem_path es (t, c_names c, ncols_of c) = Some (t', c_names c', ncols_of c).
Proof. exact @lossless_path_result. Qed.
Print Assumptions C15_lossless_path_result.

(* every path (of any length) between two representations that avoids table -> nested and
   long -> nested yields the same result as the direct conversion ending with the same names *)
Theorem C15_path_equals_direct_conversion :
  forall V es e t (c : @cpanel V) t' (c' c1 : @cpanel V),
  cwf c -> path_ok es (t, c) -> edge_ok e c ->
  forallb lossless es = true -> lossless e = true ->
  sem_path es (t, c) = Some (t', c') -> sem e (t, c) = Some (t', c1) ->
  c_names c1 = c_names c' ->
  run_path es (render t c) = apply_edge e (render t c).
Proof. exact @path_equals_direct. Qed.
Print Assumptions C15_path_equals_direct_conversion.

Theorem C15_direct_equals_indirect : forall V n c T (x : nested V),
  wf_nested n c T x ->
  nested_to_mi x = a3_to_mi (Some (n_cols x)) (nested_to_3d x) /\
  nested_to_2d x = a3_to_2d (nested_to_3d x) /\
  nested_to_3d x = mi_to_3d (nested_to_mi x) /\
  (forall k, a3_to_nested (Some (n_cols x)) k (nested_to_3d x) =
             mi_to_nested k (a3_to_mi (Some (n_cols x)) (nested_to_3d x))) /\
  (forall k, mi_to_nested k (nested_to_mi x) =
             a3_to_nested (Some (n_cols x)) k (mi_to_3d (nested_to_mi x))).
Proof. exact @main_direct_equals_indirect. Qed.
Print Assumptions C15_direct_equals_indirect.

(* names survive a path iff every conversion on it carries them (nested <-> multi-index, nested ->
   long, long -> nested without column_names, check_X when it does not convert): then the end
   container shows the start panel itself (same names on the same data) or, when the path went
   through the long table, that panel with names-and-data in sorted-identifier order; if one
   conversion does not carry names, the names at the end do not depend on the names at the start *)
Theorem C15_names_survive_iff_carried : forall V es t (c : @cpanel V) t' (c' : @cpanel V),
  cwf c -> path_ok es (t, c) -> sem_path es (t, c) = Some (t', c') ->
  (all_carry es t = true -> c' = if through_long es then sorted_panel c else c) /\
  (all_carry es t = false ->
   forall (c2 : @cpanel V) t2 (c2' : @cpanel V),
     cwf c2 -> path_ok es (t, c2) -> ncols_of c2 = ncols_of c ->
     sem_path es (t, c2) = Some (t2, c2') -> c_names c2' = c_names c').
Proof. exact @names_survive_iff_carried. Qed.
Print Assumptions C15_names_survive_iff_carried.

(* is_nested_dataframe is True exactly when some cell is Series-/array-valued; are_columns_nested
   says so per column *)
Theorem C15_nested_predicate_iff_series_cells : forall V (f : frame V),
  frame_rect f ->
  (is_nested_dataframe f = true <->
   exists row cl, In row (f_rows f) /\ In cl row /\ cell_nested cl = true) /\
  (forall j, (j < f_ncol f)%nat ->
     nth j (are_columns_nested f) false =
     existsb (fun r => cell_nested (nth j r CObj)) (f_rows f)).
Proof.
  exact (fun V f H => conj (@is_nested_iff V f H) (fun j Hj => @are_columns_nested_nth V f j H Hj)).
Qed.
Print Assumptions C15_nested_predicate_iff_series_cells.

Theorem C15_containers_nestedness : forall V,
  (forall n c T (x : nested V), wf_panel n c T (n_rows x) -> length (n_cols x) = c ->
     is_nested_dataframe (frame_of_nested x) = true /\
     are_columns_nested (frame_of_nested x) = repeat true c) /\
  (forall ncol (rows : list (list V)), Forall (fun r => length r = ncol) rows ->
     is_nested_dataframe (frame_of_prims ncol rows) = false).
Proof. exact (fun V => conj (@nested_frames_are_nested V) (@prim_frames_not_nested V)). Qed.
Print Assumptions C15_containers_nestedness.

Theorem C15_check_X_coercions : forall V n c T (X : panel V) (x : nested V),
  wf_panel n c T X ->
  (forall r : rep V, check_X true true r = Err) /\
  check_X false true (RA X) = Ok (RN (mkN KSeries (default_names c) X)) /\
  check_X true false (RN x) = Ok (RA (n_rows x)) /\
  (forall a, check_X a false (RA X) = Ok (RA X)) /\
  (forall b, check_X false b (RN x) = Ok (RN x)) /\
  (forall r : rep V, match r with RN _ | RA _ | RNI _ _ => True
                                 | _ => forall a b, check_X a b r = Err end).
Proof. exact @main_check_X. Qed.
Print Assumptions C15_check_X_coercions.

Theorem C15_shapes : forall V n c T (x : nested V),
  wf_nested n c T x ->
  length (m_rows (nested_to_mi x)) = (n * T)%nat /\
  (forall r, In r (m_rows (nested_to_mi x)) -> length (snd r) = c) /\
  length (nested_to_long x) = (n * T * c)%nat /\
  rect n (c * T) (nested_to_2d x) /\
  rect n c (nested_to_3d x) /\ (forall inst, In inst (nested_to_3d x) -> rect c T inst).
Proof. exact @main_shapes. Qed.
Print Assumptions C15_shapes.

(* explicit layouts (at3 p d i j t = value of variable j of instance i at time t) *)
Theorem C15_multiindex_layout : forall V n c T (p : panel V) (d : V),
  wf_panel n c T p -> forall i t, (i < n)%nat -> (t < T)%nat ->
  nth (i * T + t) (mi_rows T p) row0 =
    ((Z.of_nat i, Z.of_nat t), map (fun s => nth t s d) (nth i p [])) /\
  (forall j, (j < c)%nat -> nth j (snd (nth (i * T + t) (mi_rows T p) row0)) d = at3 p d i j t).
Proof.
  exact (fun V n c T p d H i t Hi Ht =>
           conj (@mi_rows_layout V n c T p d H i t Hi Ht)
                (@mi_rows_layout_values V n c T p d H i t Hi Ht)).
Qed.
Print Assumptions C15_multiindex_layout.

(* the long table lists the variables in COLUMN order (sorting happens when it is pivoted back) *)
Theorem C15_long_layout : forall V n c T (p : panel V) nms (d : V),
  wf_panel n c T p -> length nms = c -> forall k i j t,
  (i < n)%nat -> (j < c)%nat -> (t < T)%nat ->
  nth (j * (n * T) + (i * T + t)) (nested_to_long (mkN k nms p)) (0, NInt 0, 0, d) =
  (Z.of_nat i, nth j nms (NInt 0), Z.of_nat t, at3 p d i j t).
Proof. exact @long_layout. Qed.
Print Assumptions C15_long_layout.

Theorem C15_table_layout : forall V n c T (p : panel V) (d : V),
  wf_panel n c T p -> forall i j t, (i < n)%nat -> (j < c)%nat -> (t < T)%nat ->
  nth (j * T + t) (nth i (a3_to_2d p) []) d = at3 p d i j t.
Proof. exact @tab_layout. Qed.
Print Assumptions C15_table_layout.

(* instance labels: a nested frame whose rows carry ANY distinct labels idx (RNI idx x: shuffled /
   split panels, arbitrary ints, strings through an order-preserving code) keeps the POSITIONAL
   order of its instances through the multi-index frame, the 3-D array and the 2-D table; the
   multi-index frame carries the labels in instance order; through the long table the order is
   kept when the labels are increasing (for other labels see Refuted.v: open finding F-C15-4) *)
Theorem C15_instance_labels_keep_position : forall V n c T (x : nested V) idx k,
  wf_nested n c T x -> NoDup idx -> length idx = n ->
  run_path [E_N_M; E_M_N k] (RNI idx x) = Ok (RN (mkN k (n_cols x) (n_rows x))) /\
  run_path [E_N_M; E_M_A] (RNI idx x) = Ok (RA (n_rows x)) /\
  run_path [E_N_A] (RNI idx x) = Ok (RA (n_rows x)) /\
  run_path [E_N_T] (RNI idx x) = Ok (RT (nested_to_2d x)) /\
  map r_inst (m_rows (nested_to_mi_idx idx x)) = flat_map (fun i => repeat i T) idx /\
  (StronglySorted Z.lt idx ->
   forall cn, run_path [E_N_L; E_L_N cn] (RNI idx x) = run_path [E_N_L; E_L_N cn] (RN x)).
Proof. exact @labels_keep_position. Qed.
Print Assumptions C15_instance_labels_keep_position.

(* the tie: the conversion functions as REGENERATED from sktime/utils/data_processing.py by
   translator/panel_c15.py (gen_*, build/coq/C15/Gen.v) return, on the containers of the property,
   exactly what the model functions of the theorems above return (from_long_to_nested and
   from_2d_array_to_nested: on ANY non-empty input) *)
Theorem C15_generated_code_is_the_model :
  forall V n c T (x : nested V) cn cn' b lv1 lv2 (L : long V) (t : tab2 V),
  wf_nested n c T x -> names_ok c cn -> L <> [] -> t <> [] ->
  gen_from_nested_to_3d_numpy x = Ok (nested_to_3d x) /\
  gen_from_3d_numpy_to_nested (n_rows x) cn b = Ok (a3_to_nested cn (kind_of b) (n_rows x)) /\
  gen_from_3d_numpy_to_multi_index (n_rows x) cn = Ok (a3_to_mi cn (n_rows x)) /\
  gen_from_multi_index_to_3d_numpy (nested_to_mi x) (Some 0%nat) (Some 1%nat) =
    Ok (mi_to_3d (nested_to_mi x)) /\
  gen_from_nested_to_multi_index x lv1 lv2 = Ok (nested_to_mi x) /\
  gen_from_multi_index_to_nested (nested_to_mi x) (Some 0%nat) b =
    Ok (mi_to_nested (kind_of b) (nested_to_mi x)) /\
  gen_from_nested_to_long x = Ok (nested_to_long x) /\
  gen_from_long_to_nested L cn' = Ok (long_to_nested cn' L) /\
  gen_from_nested_to_2d_array x b = Ok (nested_to_2d x) /\
  gen_from_3d_numpy_to_2d_array (n_rows x) = a3_to_2d (n_rows x) /\
  gen_from_2d_array_to_nested t b = Ok (tab_to_nested (kind_of b) t) /\
  (forall f : frame V, gen_is_nested_dataframe f = is_nested_dataframe f /\
                       gen_are_columns_nested f = are_columns_nested f) /\
  (forall k, map (fun i => fstr [118; 97; 114; 95] i) (py_range k) = default_names k).
Proof. exact @generated_is_model. Qed.
Print Assumptions C15_generated_code_is_the_model.

(* the hypotheses are satisfiable: a 2 x 2 x 2 panel with unsorted names "b", "a" *)
Example C15_nonvacuous :
  let x := mkN KArray [NStr [98]; NStr [97]] [[[1; 2]; [3; 4]]; [[5; 6]; [7; 8]]] in
  wf_nestedb 2 2 2 x = true /\
  long_to_nested None (nested_to_long x) =
    mkN KSeries [NStr [97]; NStr [98]] [[[3; 4]; [1; 2]]; [[7; 8]; [5; 6]]] /\
  run_path [E_N_M; E_M_A; E_A_T; E_T_N KSeries] (RN x) =
    Ok (RN (mkN KSeries [NInt 0] [[[1; 2; 3; 4]]; [[5; 6; 7; 8]]])) /\
  (* an indirect path and the direct conversion (C15_path_equals_direct_conversion) *)
  run_path [E_N_M; E_M_A; E_A_M (Some (n_cols x))] (RN x) = apply_edge E_N_M (RN x) /\
  (* names and data through the long table (C15_names_survive_iff_carried, through_long) *)
  run_path [E_N_L; E_L_N None; E_N_M] (RN x) =
    Ok (RM (mkM [NStr [97]; NStr [98]]
                [((0, 0), [3; 1]); ((0, 1), [4; 2]); ((1, 0), [7; 5]); ((1, 1), [8; 6])])).
Proof. vm_compute. repeat split. Qed.
