From Coq Require Import ZArith List Bool Lia.
Require Import SkV.Lib.Base SkV.C15.Model.
Import ListNotations.
Open Scope Z_scope.
