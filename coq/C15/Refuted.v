(* C15 open finding F-C15-2: the model follows the code, and the code's long -> nested replaces the
   dimension identifiers by var_i.  The property sentence "the original column names come back
   whenever every container on the way carries names" (the long table does carry them, in dim_id)
   is therefore FALSE of the faithful model: witnesses by computation. *)
From Coq Require Import ZArith List Bool.
Require Import SkV.Lib.Base SkV.C15.Model SkV.C15.Long.
Import ListNotations.
Open Scope Z_scope.

(* a one-column panel named "a" comes back named "var_0" *)
Lemma names_through_long_refuted :
  exists x : nested Z,
    wf_nestedb 1 1 2 x = true /\
    n_cols (long_to_nested None (nested_to_long x)) <> sort_names (n_cols x).
Proof.
  exists (mkN KSeries [NStr [97]] [[[1; 2]]]). split; [reflexivity|]. vm_compute. discriminate.
Qed.

(* eleven default-named columns: the identifiers sort as var_0, var_1, var_10, var_2, ... so the
   values of var_10 come back under the name var_2 *)
Lemma default_names_through_long_refuted :
  exists x : nested Z,
    wf_nestedb 1 11 2 x = true /\ n_cols x = default_names 11 /\
    n_cols (long_to_nested None (nested_to_long x)) = n_cols x /\
    nth 2 (hd [] (n_rows (long_to_nested None (nested_to_long x)))) [] = nth 10 (hd [] (n_rows x)) [] /\
    nth 2 (hd [] (n_rows (long_to_nested None (nested_to_long x)))) [] <> nth 2 (hd [] (n_rows x)) [].
Proof.
  exists (mkN KSeries (default_names 11)
            [map (fun j => [10 * j; 10 * j + 1]) [0; 1; 2; 3; 4; 5; 6; 7; 8; 9; 10]]).
  vm_compute. repeat split. discriminate.
Qed.
