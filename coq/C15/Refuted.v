(* C15 open finding F-C15-4: from_long_to_nested orders the instances by their sorted case ids (the
   pivot sorts its row keys).  The model follows the code, so the sentence "nested -> long -> nested
   returns the original instance order" is FALSE of it for a panel whose row labels are not
   increasing (Labels.v proves it for increasing labels): witness by computation. *)
From Coq Require Import ZArith List Bool.
Require Import SkV.Lib.Base SkV.C15.Model.
Import ListNotations.
Open Scope Z_scope.

Lemma instance_order_through_long_refuted :
  exists (x : nested Z) (idx : list Z),
    wf_nestedb 2 1 2 x = true /\ NoDup idx /\ length idx = 2%nat /\
    run_path [E_N_L; E_L_N None] (RNI idx x) = Ok (RN (mkN KSeries (n_cols x) (rev (n_rows x)))) /\
    run_path [E_N_L; E_L_N None] (RNI idx x) <> run_path [E_N_L; E_L_N None] (RN x).
Proof.
  exists (mkN KSeries [NStr [97]] [[[1; 2]]; [[3; 4]]]), [1; 0].
  split; [reflexivity|]. split.
  { constructor; [intros [H|[]]; discriminate|]. constructor; [intros []|constructor]. }
  split; [reflexivity|]. split; [vm_compute; reflexivity|]. vm_compute. discriminate.
Qed.
