(* C16 bridge: the table regenerated from the apply-time methods of /repo (Gen.v, written by
   translator/rowwise_c16.py on every run) against the panel-program language of Prog.v.

   - `gen_table_ok`: every entry the extractor marked Translated really compiles in Coq with the
     instances along axis 0 of the returned value, and every own method it delegates to
     (self.predict_proba ..) is itself a translated entry.  This re-does the instance-axis
     bookkeeping independently of the extractor: an `axis=` equal to the instance axis, an index
     tuple that drops it, a row loop reading another row, a mis-shaped allocation make this lemma
     fail (a broken tie).
   - `expected_are_translated`: the methods below (and check_X of utils/validation/panel.py, the
     function every estimator reads its input through: it must return the SAME rows in the same
     positional order, possibly in the other container) MUST be translated.  A change of the code that
     takes one of them out of the language (a batch statistic, a sort, a cache on self, a
     position-dependent value ...) makes the extractor emit NotTranslated and this lemma fail.
     Methods that are not in this list stay "sampled only" (named in the evidence).
   - `gen_methods_instancewise`: hence each of them is `map (rowfun p theta)`, for every
     interpretation of the opaque per-row symbols, with the corollaries of the generic layer. *)
From Coq Require Import String List Bool ZArith Arith Permutation.
Require Import SkV.C16.Model SkV.C16.Proofs SkV.C16.Prog SkV.C16.Gen.
Import ListNotations.
Open Scope string_scope.

Definition expected_translated : list string := [
  "check_X";
  "Catch22.transform";
  "ColumnConcatenator.transform";
  "DWTTransformer.transform";
  "HOG1DTransformer.transform";
  "TSInterpolator.transform";
  "MatrixProfile.transform";
  "PaddingTransformer.transform";
  "PCATransformer.transform";
  "Tabularizer.transform";
  "IntervalSegmenter.transform";
  "SlidingWindowSegmenter.transform";
  "ShapeletTransform.transform";
  "SlopeTransformer.transform";
  "TruncationTransformer.transform";
  "PAA.transform";
  "DerivativeSlopeTransformer.transform";
  "RandomIntervalFeatureExtractor.transform";
  "FittedParamExtractor.transform";
  "Rocket.transform";
  "MiniRocket.transform";
  "MiniRocketMultivariate.transform";
  "TimeSeriesForestClassifier.predict";
  "TimeSeriesForestClassifier.predict_proba";
  "RandomIntervalSpectralForest.predict";
  "RandomIntervalSpectralForest.predict_proba";
  "BOSSEnsemble.predict";
  "BOSSEnsemble.predict_proba";
  "IndividualBOSS.predict";
  "IndividualBOSS.predict_proba";
  "ContractableBOSS.predict";
  "ContractableBOSS.predict_proba";
  "TemporalDictionaryEnsemble.predict";
  "TemporalDictionaryEnsemble.predict_proba";
  "IndividualTDE.predict";
  "IndividualTDE.predict_proba";
  "MUSE.predict";
  "MUSE.predict_proba";
  "BaseColumnEnsembleClassifier.predict_proba";
  "BaseColumnEnsembleClassifier.predict";
  "TimeSeriesForestRegressor.predict"
].

Lemma gen_table_ok : table_ok gen_table = true.
Proof. vm_compute. reflexivity. Qed.

Lemma expected_are_translated :
  forallb (fun n => match lookup n gen_table with Some e => is_translated e | None => false end)
          expected_translated = true.
Proof. vm_compute. reflexivity. Qed.

Lemma expected_count : (List.length expected_translated <=? n_translated gen_table)%nat = true.
Proof. vm_compute. reflexivity. Qed.

Section Bridge.
  Variables (V Theta : Type).
  Variable interp : sym -> Theta -> tens V -> tens V.
  Variable cval : sym -> Theta -> tens V.
  Variable cond : sym -> Theta -> bool.
  Notation run := (run V Theta interp cval cond).
  Notation rowfun := (rowfun V Theta interp cval cond).

  Lemma entry_in_table_ok name e : In (name, e) gen_table -> entry_ok gen_table e = true.
  Proof.
    intro H. pose proof gen_table_ok as T. unfold table_ok in T. rewrite forallb_forall in T.
    exact (T (name, e) H).
  Qed.

  (* every translated method of the regenerated table is a panel program, hence row-wise *)
  Theorem gen_methods_instancewise name r deps :
    In (name, Translated r deps) gen_table ->
    exists p t, compile r = Some (t, p) /\ iax t = 0%nat /\
                forall th X, run p th X = map (rowfun p th) X.
  Proof.
    intro H. pose proof (entry_in_table_ok name _ H) as E. cbn [entry_ok] in E.
    apply andb_true_iff in E. destruct E as [E _].
    exact (translatable_is_instancewise V Theta interp cval cond r E).
  Qed.

  (* ... and so is each expected method *)
  Theorem expected_methods_instancewise name :
    In name expected_translated ->
    exists r deps p t, lookup name gen_table = Some (Translated r deps) /\
                       compile r = Some (t, p) /\ iax t = 0%nat /\
                       forall th X, run p th X = map (rowfun p th) X.
  Proof.
    intro H. pose proof expected_are_translated as T. rewrite forallb_forall in T.
    specialize (T name H). destruct (lookup name gen_table) as [[r deps|w]|] eqn:L; try discriminate.
    assert (Hin : In (name, Translated r deps) gen_table).
    { clear T H. revert L. induction gen_table as [|[n e] t IH]; cbn [lookup]; [discriminate|].
      destruct (String.eqb n name) eqn:Q.
      - intro L. inversion L; subst. apply String.eqb_eq in Q. subst. left. reflexivity.
      - intro L. right. apply IH. exact L. }
    destruct (gen_methods_instancewise name r deps Hin) as [p [t [C [I R]]]].
    exists r, deps, p, t. auto.
  Qed.

  (* the corollaries of the generic layer, for every panel program *)
  Theorem program_corollaries p th :
    (forall X X', Permutation X X' ->
       exists idx, Permutation idx (seq 0 (List.length X)) /\ X' = pick idx X /\
                   run p th X' = pick idx (run p th X)) /\
    (forall X i x, nth_error X i = Some x ->
       run p th [x] = [rowfun p th x] /\ nth_error (run p th X) i = Some (rowfun p th x)) /\
    (forall X idx, run p th (pick idx X) = pick idx (run p th X)) /\
    (forall X, List.length (run p th X) = List.length X).
  Proof.
    pose proof (run_is_map V Theta interp cval cond p th) as R.
    split; [|split; [|split]].
    - intros X X' Hp. rewrite !R.
      destruct (map_perm_equivariance (rowfun p th) X X' Hp) as [idx [H1 [H2 H3]]].
      exists idx. auto.
    - intros X i x Hx. rewrite !R.
      destruct (map_single (rowfun p th) X i x Hx) as [H1 [H2 _]]. auto.
    - intros X idx. rewrite !R. apply (map_pick (rowfun p th)).
    - intro X. rewrite R. apply map_length.
  Qed.
End Bridge.

(* the container conversions of the language denote C15's conversions: on the rows of a nested
   frame embedded as nested arrays, nested -> 2-d is the per-row flattening `conv_row CNestedTo2d`,
   nested -> 3-d keeps the rows, and 3-d -> nested gives them back (C15's round trip) *)
Section ConvC15.
  Variable V : Type.
  Definition emb_series (s : list V) : tens V := Ar (map Sc s).
  Definition emb_row (r : list (list V)) : tens V := Ar (map emb_series r).

  Lemma flatten_emb_row r : flatten1 V (emb_row r) = emb_series (concat r).
  Proof.
    unfold emb_row, emb_series, flatten1. f_equal.
    induction r as [|s r IH]; [reflexivity|]. cbn. rewrite map_app, IH. reflexivity.
  Qed.

  Lemma conv_to_2d_is_c15 (x : K.nested V) :
    map emb_series (K.nested_to_2d x) = conv_batch V CNestedTo2d (map emb_row (K.n_rows x)) /\
    map emb_series (K.a3_to_2d (K.nested_to_3d x)) =
      conv_batch V C3dTo2d (map emb_row (K.nested_to_3d x)).
  Proof.
    unfold K.nested_to_2d, K.a3_to_2d, K.nested_to_3d, conv_batch. rewrite !map_map.
    split; apply map_ext; intro r; cbn [conv_row]; symmetry; apply flatten_emb_row.
  Qed.

  Lemma conv_nested_3d_is_c15 n c T (x : K.nested V) cn k : wf_rows n c T x ->
    map emb_row (K.nested_to_3d x) = conv_batch V CNestedTo3d (map emb_row (K.n_rows x)) /\
    map emb_row (K.n_rows (K.a3_to_nested cn k (K.nested_to_3d x))) =
      conv_batch V C3dToNested (map emb_row (K.nested_to_3d x)).
  Proof.
    intro Hwf. unfold conv_batch. cbn [conv_row]. rewrite !map_id. split; [reflexivity|].
    rewrite (roundtrip_rows n c T x cn k Hwf). reflexivity.
  Qed.
End ConvC15.

Lemma conversions_are_c15 : forall (V : Type) n c T (x : K.nested V) cn k,
  wf_rows n c T x ->
  map (emb_series V) (K.nested_to_2d x) = conv_batch V CNestedTo2d (map (emb_row V) (K.n_rows x)) /\
  map (emb_row V) (K.nested_to_3d x) = conv_batch V CNestedTo3d (map (emb_row V) (K.n_rows x)) /\
  map (emb_row V) (K.n_rows (K.a3_to_nested cn k (K.nested_to_3d x))) =
    conv_batch V C3dToNested (map (emb_row V) (K.nested_to_3d x)).
Proof.
  intros V n c T x cn k H. split; [exact (proj1 (conv_to_2d_is_c15 V x))|].
  exact (conv_nested_3d_is_c15 V n c T x cn k H).
Qed.
