(* C16 correspondence.  One case = one estimator fitted ONCE by the real code, then applied to the
   batch and to variants of the batch (permutations, every single row, sub-selections, the 3-D
   container at apply / at fit, the batch again).  Every variant is `(idx, output)`: the variant's
   input is `pick idx` of the batch input, so its output has to be `pick idx` of the batch output.

   Implementation outputs are panels of INDICES into a per-case table of exact rationals (the
   float64 values as n # d): equal indices are equal values, different indices are compared in Q
   with tolerance 1e-9 * (1 + |a|).

   CMeta   : any estimator; the expected output of each variant is recomputed here as the
             selection applied to the batch output.
   CClosed : a closed-form transformer of C14; ADDITIONALLY the batch output and every variant's
             output (or refusal) are recomputed from the model `tapply t (tfit t pfit)` applied to
             the explicit input panel. *)
From Coq Require Import QArith Qabs List Bool ZArith Arith.
Require Import SkV.Lib.Base SkV.C14.Model SkV.C16.Model.
Import ListNotations.
Open Scope Q_scope.

Definition tol : Q := 1 # 1000000000.
Definition qclose (a b : Q) : bool := Qle_bool (Qabs (Qred (a - b))) (tol * (1 + Qabs (Qred a))).

Fixpoint list_close {A B} (f : A -> B -> bool) (a : list A) (b : list B) : bool :=
  match a, b with
  | [], [] => true
  | x :: a', y :: b' => f x y && list_close f a' b'
  | _, _ => false
  end.

(* table indices are binary integers (Z): unary nat literals would dominate the cost of the cases files *)
Definition ipanel := list (list (list Z)).
Definition run := (list nat * option ipanel)%type.

Section Table.
  Variable tbl : list Q.
  Definition val (i : Z) : Q := nth (Z.to_nat i) tbl 0.
  Definition iclose (a b : Z) : bool := (a =? b)%Z || qclose (val a) (val b).
  Definition ipanel_close : ipanel -> ipanel -> bool := list_close (list_close (list_close iclose)).
  Definition mclose (q : Q) (i : Z) : bool := qclose q (val i).
  Definition model_close : panel -> ipanel -> bool := list_close (list_close (list_close mclose)).

  Definition agree (m : res panel) (o : option ipanel) : bool :=
    match m, o with
    | Err, None => true
    | Ok a, Some b => model_close a b
    | _, _ => false
    end.

  (* expected = selection applied to the batch output *)
  Definition run_ok (Y : ipanel) (r : run) : bool :=
    match snd r with
    | Some o => ipanel_close (pick (fst r) Y) o
    | None => false
    end.

  (* the integer interval segmenter: documented tiling or the unchanged code's short intervals *)
  Definition agree_t (t : tconf) (th : nat) (p : panel) (o : option ipanel) : bool :=
    match t with
    | TISegInt _ k => agree (tapply (TISegInt false k) th p) o || agree (tapply (TISegInt true k) th p) o
    | _ => agree (tapply t th p) o
    end.

  Definition closed_run_ok (t : tconf) (th : nat) (X : panel) (Y : option ipanel) (r : run) : bool :=
    agree_t t th (pick (fst r) X) (snd r) &&
    match Y, snd r with
    | Some y, Some o => ipanel_close (pick (fst r) y) o
    | Some _, None => false
    | None, _ => true
    end.
End Table.

Inductive case :=
  | CMeta (tbl : list Q) (Y : ipanel) (runs : list run)
  | CClosed (t : tconf) (pfit X : panel) (tbl : list Q) (Y : option ipanel) (runs : list run).

Definition check (c : case) : bool :=
  match c with
  | CMeta tbl Y runs => forallb (run_ok tbl Y) runs
  | CClosed t pfit X tbl Y runs =>
      let th := tfit t pfit in
      agree_t tbl t th X Y && forallb (closed_run_ok tbl t th X Y) runs
  end.

Fixpoint mism (cs : list (Z * case)) : list Z :=
  match cs with
  | [] => []
  | (i, c) :: t => if check c then mism t else i :: mism t
  end.
