(* C16 model: a FITTED panel estimator as a function from a list of instances to a list of output
   rows.  Executable definitions only.

   - `pick idx X`: the instances of X at the positions idx, in the order of idx.  A permutation of
     the input, a single instance and a sub-selection (with or without repeats) are all `pick`s.
   - learned estimators (dictionary / interval / shapelet / kernel based, ensembles): the per
     instance function is abstract (`apply_map f`); that the code IS of this form is what the
     correspondence run samples.
   - the closed-form transformers of C14 (imported, not re-modelled): `tapply t th p` is C14's
     batch function for transformer configuration t with the FITTED parameter th held fixed
     (pad length / truncation bound / series length seen at fit); `tfun t th` is the per-instance
     function and `tguard t th` the batch-level acceptance test.  Proofs.v proves
     tapply t th p = if tguard t th p then Ok (map (tfun t th) p) else Err   for every t, th, p.
   - containers: C15's nested DataFrame / 3-D array representations and its model of check_X. *)
From Coq Require Import QArith List Bool ZArith Arith.
Require Import SkV.Lib.Base SkV.C14.Model.
Require SkV.C15.Model.
Import ListNotations.
Module K := SkV.C15.Model.

(* ---------------------------------------------------------------------------------------------- *)
(* selection of instances by position                                                             *)

Definition pick {A} (idx : list nat) (X : list A) : list A :=
  flat_map (fun i => match nth_error X i with Some x => [x] | None => [] end) idx.
Definition valid_idx (n : nat) (idx : list nat) : bool := forallb (fun i => (i <? n)%nat) idx.

(* ---------------------------------------------------------------------------------------------- *)
(* fitted estimators                                                                              *)

Section Est.
  Context {I O : Type}.
  (* a fitted estimator with per-instance function f (f already contains the fitted state) *)
  Definition apply_map (f : I -> O) (X : list I) : list O := map f X.
  (* ... that first validates the whole batch *)
  Definition apply_guarded (g : list I -> bool) (f : I -> O) (X : list I) : res (list O) :=
    if g X then Ok (map f X) else Err.
End Est.

(* ---------------------------------------------------------------------------------------------- *)
(* containers: what an estimator works on after utils/validation/panel.py check_X                 *)

Definition rows_of {V} (r : K.rep V) : res (K.panel V) :=
  match r with K.RN x => Ok (K.n_rows x) | K.RA a => Ok a | _ => Err end.
(* check_X(X, coerce_to_numpy=to_np, coerce_to_pandas=to_pd), then the instances in row order *)
Definition internal {V} (to_np to_pd : bool) (r : K.rep V) : res (K.panel V) :=
  match K.check_X to_np to_pd r with Ok r' => rows_of r' | Err => Err end.
(* a fitted estimator reading its input through check_X; f sees the values of one instance
   (variables x time points) and nothing else - in particular not the column labels *)
Definition est_apply {V O} (to_np to_pd : bool) (f : list (list V) -> O) (r : K.rep V)
  : res (list O) := rmap (map f) (internal to_np to_pd r).
(* fitting: the fitted state is a function of the training instances (and the targets y) *)
Definition est_fit {V Y Th} (to_np to_pd : bool) (fit : K.panel V -> Y -> Th) (r : K.rep V) (y : Y)
  : res Th := rmap (fun p => fit p y) (internal to_np to_pd r).

(* ---------------------------------------------------------------------------------------------- *)
(* the closed-form transformers of C14 as fitted estimators                                       *)

Inductive tconf :=
  | TPad (req : option nat) (fill : Q)          (* PaddingTransformer(pad_length, fill_value) *)
  | TTrunc (lower upper : option nat)           (* TruncationTransformer(lower, upper) *)
  | TInterp (m : nat)                           (* TSInterpolator(length) *)
  | TTab                                        (* Tabularizer *)
  | TConcat                                     (* ColumnConcatenator *)
  | TPaa (m : nat)                              (* PAA(num_intervals) *)
  | TISegInt (faithful : bool) (k : nat)        (* IntervalSegmenter(int): documented / as coded *)
  | TISegArr (ivs : list (nat * nat))           (* IntervalSegmenter(array) *)
  | TSlide (w : nat)                            (* SlidingWindowSegmenter(window_length) *)
  | TRowS2S (f : sfun)                          (* SeriesToSeriesRowTransformer *)
  | TRowS2P (g : pfun).                         (* SeriesToPrimitivesRowTransformer *)

(* fit: the only state these transformers learn is one length, read from the training panel *)
Definition tfit (t : tconf) (pfit : panel) : nat :=
  match t with
  | TPad req _ => pad_fit req pfit
  | TTrunc lower _ => trunc_fit lower pfit
  | TISegInt _ _ => first_len pfit
  | _ => 0%nat
  end.

(* IntervalSegmenter(int) as coded in sktime 0.6.0: start, end = chunk[0], chunk[-1], then
   X[:, start:end] - every interval loses its last point (C14's open finding; C16 does not care
   which of the two the code does, both are per-instance) *)
Definition segment_short (ivs : list (nat * nat)) (s : series) : inst :=
  map (fun iv => slice (fst iv) (snd iv - 1) s) ivs.
Definition seg_of (faithful : bool) := if faithful then segment_short else segment.
Definition iseg_n (faithful : bool) (k n : nat) (p : panel) : res panel :=
  if negb (univariate p) || negb (equal_length p) || (k =? 0)%nat || (n / 2 <? k)%nat then Err
  else Ok (map (fun i => seg_of faithful (split_bounds n k) (only_col i)) p).
Definition rows_as_panel (r : res (list series)) : res panel :=
  match r with Ok l => Ok (map (fun s => [s]) l) | Err => Err end.

(* transform with the fitted parameter th held fixed: C14's functions *)
Definition tapply (t : tconf) (th : nat) (p : panel) : res panel :=
  match t with
  | TPad _ fill => pad_apply th fill p
  | TTrunc _ upper => trunc_apply th upper p
  | TInterp m => interp_apply m p
  | TTab => rows_as_panel (tabularize p)
  | TConcat => col_concat p
  | TPaa m => paa_apply m p
  | TISegInt fa k => iseg_n fa k th p
  | TISegArr ivs => iseg_arr ivs p
  | TSlide w => sliding_apply w p
  | TRowS2S f => row_s2s f p
  | TRowS2P g => rows_as_panel (row_s2p g p)
  end.

(* the per-instance function *)
Definition tfun (t : tconf) (th : nat) (i : inst) : inst :=
  match t with
  | TPad _ fill => map (pad_series th fill) i
  | TTrunc _ None => map (slice 0 th) i
  | TTrunc _ (Some u) => map (slice th u) i
  | TInterp m => map (interp_series m) i
  | TTab | TConcat => [tab_row i]
  | TPaa m => map (paa_coded m) i
  | TISegInt fa k => seg_of fa (split_bounds th k) (only_col i)
  | TISegArr ivs => segment ivs (only_col i)
  | TSlide w => sliding_coded w (only_col i)
  | TRowS2S f => map (sfun_apply f) i
  | TRowS2P g => [map (pfun_apply g) i]
  end.

(* the batch-level acceptance test (the code raises when it fails) *)
Definition tguard (t : tconf) (th : nat) (p : panel) : bool :=
  match t with
  | TPad _ _ => negb (th <? max_len p)%nat
  | TTrunc _ None => negb (min_len p <? th)%nat
  | TTrunc _ (Some u) => negb (min_len p <? th)%nat && negb ((th <? u)%nat && (min_len p <? u)%nat)
  | TInterp m => negb ((min_len p <? 2)%nat && (2 <=? m)%nat)
  | TTab | TConcat => rectangular p
  | TPaa m => negb ((m =? 0)%nat || (first_len p <? m)%nat || negb (rectangular p))
  | TISegInt _ k =>
      negb (negb (univariate p) || negb (equal_length p) || (k =? 0)%nat || (th / 2 <? k)%nat)
  | TISegArr _ => negb (negb (univariate p) || negb (equal_length p))
  | TSlide w => negb (negb (univariate p) || negb (equal_length p) || (w =? 0)%nat)
  | TRowS2S _ | TRowS2P _ => equal_length p
  end.

(* instances on which the batch test decomposes: at least one variable *)
Definition tdom (i : inst) : Prop := i <> [].
