(* C16 panel programs: a small language in which a method that maps a panel to a panel can be
   written ONLY if data flows row to row.

   Two levels.
   `raw`  : what the extractor (translator/rowwise_c16.py) emits for an apply-time method of the
            code: array expressions with the axis numbers, index tuples, allocation shapes and
            loop accesses AS WRITTEN in the source.
   `prog` : the language proper, with a batch-level denotation `run` (loops over range(n), array
            operations on the whole batch array, zip / concatenation) and the theorem
            `run p th X = map (rowfun p th) X`.
   `compile : raw -> option (ty * prog)` does the instance-axis bookkeeping: it tracks which axis
   of every array is the instance axis (`iax`) and how many axes it has (`nd`, when known) and
   REFUSES (None) anything that touches the instance axis: a reduction / squeeze / concatenation
   along it, an index tuple that does not keep it whole, a row loop reading another row than its
   own, an allocation whose shape does not carry the number of instances exactly once.  There is
   no constructor for batch statistics, sorting, de-duplication, caches.

   What is abstract: the per-row functions (`g`, `op`, members `m`, constants `c`, conditions) are
   opaque symbols interpreted by arbitrary functions; the theorem holds for every interpretation.
   What is modelled, not proved: that numpy / pandas operations with an axis argument act
   independently along the other axes (the denotation of PAxisOp), that fitted members are row-wise
   (PMember), and the adequacy of the axis bookkeeping of `compile` w.r.t. numpy's shapes. *)
From Coq Require Import String List Bool ZArith Arith Lia.
Import ListNotations.
Open Scope nat_scope.

(* String shadows List.length *)
Notation length := List.length (only parsing).
Definition sym := string.

(* ---------------------------------------------------------------------------------------------- *)
(* syntax                                                                                         *)

(* one position of an index tuple: ":" | the index of the enclosing row loop | a batch-independent
   integer (the axis disappears) | a batch-independent slice / index array (the axis stays) |
   batch-independent, not known which of the two *)
Inductive ikind := IFull | IIdx | IInt | IOther | IUnk.
(* one entry of an allocation / reshape shape: the number of instances | batch-independent *)
Inductive dimk := DN | DP.

(* container conversions (C15) and wrappers that keep the rows *)
Inductive conv :=
  | CCheckX (to_np to_pd : bool)      (* check_X(X, coerce_to_numpy=, coerce_to_pandas=) *)
  | CNestedTo3d | C3dToNested         (* from_nested_to_3d_numpy / from_3d_numpy_to_nested *)
  | CNestedTo2d | C3dTo2d             (* from_nested_to_2d_array / from_3d_numpy_to_2d_array *)
  | C2dToNested                       (* from_2d_array_to_nested *)
  | CFrame | CArray | CSeries.        (* pd.DataFrame(.) / np.asarray(.) / pd.Series(.) of a row-aligned value *)

Inductive prog :=
  | PInput
  | PConst (c : sym)                        (* np.zeros((n, ..)): the same row for every instance *)
  | PConv (c : conv) (p : prog)
  | PMapRows (g : sym) (ps : list prog)     (* for i in range(n): out[i] = g(p1[i], .., pk[i]) *)
  | PMember (m : sym) (p : prog)            (* fitted member applied to a panel (assumed row-wise) *)
  | PAxisOp (op : sym) (k : nat) (p : prog) (* vectorised op along axis k+1 of the batch array *)
  | PElem (op : sym) (ps : list prog)       (* elementwise / broadcasting with fitted parameters *)
  | PZip (ps : list prog)                   (* concatenation along a non-instance axis *)
  | PIf (c : sym) (p q : prog).             (* batch-independent condition *)

Inductive raw :=
  | RInput
  | RConv (c : conv) (r : raw)
  | RIndex (ix : list ikind) (r : raw)                          (* r[ix] *)
  | RAxisOp (op : sym) (axis : Z) (red : option bool) (r : raw) (* op(r, axis=axis); red: reduces? *)
  | RSqueeze (axis : Z) (r : raw)
  | RTranspose (r : raw)                                        (* .T of a 2-d array *)
  | RReshape (dims : list dimk) (r : raw)
  | RElem (op : sym) (rs : list raw)
  | RConcat (axis : Z) (rs : list raw)
  | RListOf (r : raw)                 (* list / stack, over a batch-independent index, of arrays like r *)
  | RConcatList (axis : Z) (r : raw)  (* concatenation of such a list along `axis` of its members *)
  | RMember (m : sym) (r : raw)
  | RAlloc (dims : list dimk) (c : sym)
  | RMapRows (g : sym) (srcs : list raw) (ixs : list (list ikind))
        (* for i in range(n): out.append(g(src1[ix1], ..)) / [g(..) for i in range(n)] / for x in src *)
  | RStoreRows (g : sym) (acc : raw) (ix : list ikind) (srcs : list raw) (ixs : list (list ikind))
        (* for i in range(n): acc[ix] (op)= g(src1[ix1], ..) *)
  | RStoreCols (acc : raw) (ix : list ikind) (v : raw)          (* acc[ix] = v *)
  | RIf (c : sym) (a b : raw).

(* ---------------------------------------------------------------------------------------------- *)
(* compile: instance-axis bookkeeping                                                             *)

Record ty := mkTy { iax : nat; nd : option nat }.

Definition ikind_eqb (a b : ikind) : bool :=
  match a, b with
  | IFull, IFull | IIdx, IIdx | IInt, IInt | IOther, IOther | IUnk, IUnk => true
  | _, _ => false
  end.
Definition is_int (a : ikind) : bool := ikind_eqb a IInt.
Definition is_idx (a : ikind) : bool := ikind_eqb a IIdx.
Definition is_unk (a : ikind) : bool := ikind_eqb a IUnk.
Definition count {A} (f : A -> bool) (l : list A) : nat := length (filter f l).
Definition is_dn (d : dimk) : bool := match d with DN => true | DP => false end.

Fixpoint find_dn (dims : list dimk) : option nat :=
  match dims with
  | [] => None
  | DN :: _ => Some 0
  | DP :: t => option_map S (find_dn t)
  end.

(* numpy's axis normalisation: a negative axis needs the number of axes *)
Definition norm_axis (axis : Z) (n : option nat) : option nat :=
  if (0 <=? axis)%Z then
    match n with
    | Some m => if Z.to_nat axis <? m then Some (Z.to_nat axis) else None
    | None => Some (Z.to_nat axis)
    end
  else
    match n with
    | Some m => if (0 <=? Z.of_nat m + axis)%Z then Some (Z.to_nat (Z.of_nat m + axis)) else None
    | None => None
    end.

Definition nd_sub (n : option nat) (k : nat) : option nat := option_map (fun m => m - k) n.
Definition onat_eqb (a b : option nat) : bool :=
  match a, b with Some x, Some y => x =? y | None, None => true | _, _ => false end.

Fixpoint sequence {A} (l : list (option A)) : option (list A) :=
  match l with
  | [] => Some []
  | None :: _ => None
  | Some a :: t => option_map (cons a) (sequence t)
  end.

Definition conv_ty (c : conv) (t : ty) : option ty :=
  if negb (iax t =? 0) then None
  else match c with
       | CCheckX true true => None
       | CCheckX true false => Some (mkTy 0 (Some 3))
       | CCheckX false true => Some (mkTy 0 None)
       | CCheckX false false => Some (mkTy 0 (nd t))
       | CNestedTo3d => Some (mkTy 0 (Some 3))
       | C3dToNested | C2dToNested | CFrame | CSeries => Some (mkTy 0 None)
       | CNestedTo2d | C3dTo2d => Some (mkTy 0 (Some 2))
       | CArray => Some (mkTy 0 (nd t))
       end.

(* a row loop reads src[ix]: the loop index sits exactly at the instance axis, nowhere else *)
Definition access_ok (t : ty) (ix : list ikind) : bool :=
  ikind_eqb (nth (iax t) ix IFull) IIdx && (count is_idx ix =? 1).
(* a panel-valued subscript keeps the instance axis whole and does not use a row index *)
Definition keeps_rows (t : ty) (ix : list ikind) : bool :=
  ikind_eqb (nth (iax t) ix IFull) IFull && (count is_idx ix =? 0).

Fixpoint all_access_ok (ts : list ty) (ixs : list (list ikind)) : bool :=
  match ts, ixs with
  | [], [] => true
  | t :: ts', ix :: ixs' => access_ok t ix && all_access_ok ts' ixs'
  | _, _ => false
  end.

Definition same_ty (ts : list ty) : option ty :=
  match ts with
  | [] => None
  | t :: rest =>
      if forallb (fun u => (iax u =? iax t) && onat_eqb (nd u) (nd t)) rest then Some t else None
  end.

Fixpoint compile (r : raw) : option (ty * prog) :=
  match r with
  | RInput => Some (mkTy 0 None, PInput)
  | RConv c r1 =>
      match compile r1 with
      | Some (t, p) => option_map (fun t' => (t', PConv c p)) (conv_ty c t)
      | None => None
      end
  | RIndex ix r1 =>
      match compile r1 with
      | Some (t, p) =>
          if keeps_rows t ix && negb (existsb is_unk (firstn (iax t) ix))
          then Some (mkTy (iax t - count is_int (firstn (iax t) ix))
                          (if existsb is_unk ix then None else nd_sub (nd t) (count is_int ix)),
                     PAxisOp "getitem"%string 0 p)
          else None
      | None => None
      end
  | RAxisOp op axis red r1 =>
      match compile r1 with
      | Some (t, p) =>
          match norm_axis axis (nd t) with
          | Some k =>
              if k =? iax t then None       (* along the instance axis: no constructor *)
              else
                let kr := if k <? iax t then k else k - 1 in
                match red with
                | Some true => Some (mkTy (if k <? iax t then iax t - 1 else iax t) (nd_sub (nd t) 1),
                                     PAxisOp op kr p)
                | Some false => Some (mkTy (iax t) (nd t), PAxisOp op kr p)
                | None => if k <? iax t then None else Some (mkTy (iax t) None, PAxisOp op kr p)
                end
          | None => None
          end
      | None => None
      end
  | RSqueeze axis r1 =>
      match compile r1 with
      | Some (t, p) =>
          match norm_axis axis (nd t) with
          | Some k =>
              if k =? iax t then None
              else Some (mkTy (if k <? iax t then iax t - 1 else iax t) (nd_sub (nd t) 1),
                         PAxisOp "squeeze"%string (if k <? iax t then k else k - 1) p)
          | None => None
          end
      | None => None
      end
  | RTranspose r1 =>
      match compile r1 with
      | Some (t, p) =>
          match nd t with
          | Some 2 => Some (mkTy (1 - iax t) (Some 2), p)
          | _ => None
          end
      | None => None
      end
  | RReshape dims r1 =>
      match compile r1 with
      | Some (t, p) =>
          if (iax t =? 0) && (count is_dn dims =? 1) && is_dn (hd DP dims)
          then Some (mkTy 0 (Some (length dims)), PAxisOp "reshape"%string 0 p) else None
      | None => None
      end
  | RElem op rs =>
      match sequence (map compile rs) with
      | Some tps =>
          match same_ty (map fst tps) with
          | Some t =>
              match tps with
              | [_] => Some (t, PElem op (map snd tps))
              | _ => match nd t with Some _ => Some (t, PElem op (map snd tps)) | None => None end
              end
          | None => None
          end
      | None => None
      end
  | RConcat axis rs =>
      match sequence (map compile rs) with
      | Some tps =>
          match same_ty (map fst tps) with
          | Some t =>
              match norm_axis axis (nd t) with
              | Some k => if k =? iax t then None else Some (t, PZip (map snd tps))
              | None => None
              end
          | None => None
          end
      | None => None
      end
  | RListOf r1 =>
      match compile r1 with
      | Some (t, p) => Some (mkTy (S (iax t)) (option_map S (nd t)), PAxisOp "stack"%string 0 p)
      | None => None
      end
  | RConcatList axis r1 =>
      match compile r1 with
      | Some (t, p) =>
          match norm_axis axis (nd t) with
          | Some k => if k =? iax t then None else Some (t, PAxisOp "concat"%string 0 p)
          | None => None
          end
      | None => None
      end
  | RMember m r1 =>
      match compile r1 with
      | Some (t, p) => if iax t =? 0 then Some (mkTy 0 None, PMember m p) else None
      | None => None
      end
  | RAlloc dims c =>
      if count is_dn dims =? 1
      then option_map (fun j => (mkTy j (Some (length dims)), PConst c)) (find_dn dims)
      else None
  | RMapRows g srcs ixs =>
      match sequence (map compile srcs) with
      | Some tps =>
          if all_access_ok (map fst tps) ixs
          then Some (mkTy 0 None, PMapRows g (map snd tps)) else None
      | None => None
      end
  | RStoreRows g acc ix srcs ixs =>
      match compile acc, sequence (map compile srcs) with
      | Some (ta, pa), Some tps =>
          if access_ok ta ix && all_access_ok (map fst tps) ixs
          then Some (ta, PMapRows g (pa :: map snd tps)) else None
      | _, _ => None
      end
  | RStoreCols acc ix v =>
      match compile acc, compile v with
      | Some (ta, pa), Some (tv, pv) =>
          (* either the axes before the instance axis are indexed by known integers / slices, or
             the value is a vector of per-instance scalars stored along the LAST axis of the
             target, which is its instance axis (numpy aligns trailing axes) *)
          if keeps_rows ta ix &&
             ((negb (existsb is_unk (firstn (iax ta) ix)) &&
               (iax tv =? iax ta - count is_int (firstn (iax ta) ix)))
              || (onat_eqb (nd tv) (Some 1) && (iax tv =? 0) &&
                  onat_eqb (nd ta) (Some (S (iax ta))) && (length ix <=? iax ta)))
          then Some (ta, PElem "setitem"%string [pa; pv]) else None
      | _, _ => None
      end
  | RIf c a b =>
      match compile a, compile b with
      | Some (ta, pa), Some (tb, pb) =>
          if iax ta =? iax tb
          then Some (mkTy (iax ta) (if onat_eqb (nd ta) (nd tb) then nd ta else None), PIf c pa pb)
          else None
      | _, _ => None
      end
  end.

(* the value a method returns must have the instances along axis 0 *)
Definition translatable (r : raw) : bool :=
  match compile r with Some (t, _) => iax t =? 0 | None => false end.

(* ---------------------------------------------------------------------------------------------- *)
(* denotation                                                                                     *)

Section Sem.
  Variables (V Theta : Type).

  (* values: nested arrays over opaque scalars *)
  Inductive tens := Sc (v : V) | Ar (l : list tens).

  Variable interp : sym -> Theta -> tens -> tens.   (* per-row functions, vectorised ops, members *)
  Variable cval : sym -> Theta -> tens.              (* constants (allocations) *)
  Variable cond : sym -> Theta -> bool.              (* batch-independent conditions *)

  (* apply f at depth k of a nested array: numpy's "along the other axes independently" *)
  Fixpoint axis_apply (k : nat) (f : tens -> tens) (t : tens) : tens :=
    match k with
    | 0 => f t
    | S k' => match t with Ar l => Ar (map (axis_apply k' f) l) | Sc v => Sc v end
    end.

  Definition flatten1 (t : tens) : tens :=
    match t with
    | Ar l => Ar (flat_map (fun c => match c with Ar m => m | Sc v => [Sc v] end) l)
    | Sc v => Sc v
    end.
  Definition conv_row (c : conv) (t : tens) : tens :=
    match c with
    | CNestedTo2d | C3dTo2d => flatten1 t         (* variable-major concatenation of the row *)
    | C2dToNested => Ar [t]                        (* one variable holding the whole row *)
    | _ => t                                       (* another container, the same rows *)
    end.
  Definition conv_batch (c : conv) (B : list tens) : list tens := map (conv_row c) B.

  Definition rows_at (i : nat) (Bs : list (list tens)) : list tens :=
    map (fun B => nth i B (Ar [])) Bs.
  Definition unAr (t : tens) : list tens := match t with Ar l => l | Sc _ => [] end.

  (* batch level: what the loops / array operations of the code do to the whole batch *)
  Fixpoint run (p : prog) (th : Theta) (X : list tens) : list tens :=
    match p with
    | PInput => X
    | PConst c => repeat (cval c th) (length X)
    | PConv c q => conv_batch c (run q th X)
    | PMapRows g ps =>
        let Bs := map (fun q => run q th X) ps in
        map (fun i => interp g th (Ar (rows_at i Bs))) (seq 0 (length X))
    | PMember m q => map (interp m th) (run q th X)
    | PAxisOp op k q => unAr (axis_apply (S k) (interp op th) (Ar (run q th X)))
    | PElem op ps =>
        let Bs := map (fun q => run q th X) ps in
        map (fun i => interp op th (Ar (rows_at i Bs))) (seq 0 (length X))
    | PZip ps =>
        let Bs := map (fun q => run q th X) ps in
        map (fun i => Ar (rows_at i Bs)) (seq 0 (length X))
    | PIf c a b => if cond c th then run a th X else run b th X
    end.

  (* row level *)
  Fixpoint rowfun (p : prog) (th : Theta) (x : tens) : tens :=
    match p with
    | PInput => x
    | PConst c => cval c th
    | PConv c q => conv_row c (rowfun q th x)
    | PMapRows g ps => interp g th (Ar (map (fun q => rowfun q th x) ps))
    | PMember m q => interp m th (rowfun q th x)
    | PAxisOp op k q => axis_apply k (interp op th) (rowfun q th x)
    | PElem op ps => interp op th (Ar (map (fun q => rowfun q th x) ps))
    | PZip ps => Ar (map (fun q => rowfun q th x) ps)
    | PIf c a b => if cond c th then rowfun a th x else rowfun b th x
    end.

  (* ---------- induction principle for the nested type ---------- *)
  Section ProgInd.
    Variable P : prog -> Prop.
    Hypothesis HInput : P PInput.
    Hypothesis HConst : forall c, P (PConst c).
    Hypothesis HConv : forall c p, P p -> P (PConv c p).
    Hypothesis HMap : forall g ps, Forall P ps -> P (PMapRows g ps).
    Hypothesis HMember : forall m p, P p -> P (PMember m p).
    Hypothesis HAxis : forall op k p, P p -> P (PAxisOp op k p).
    Hypothesis HElem : forall op ps, Forall P ps -> P (PElem op ps).
    Hypothesis HZip : forall ps, Forall P ps -> P (PZip ps).
    Hypothesis HIf : forall c p q, P p -> P q -> P (PIf c p q).

    Fixpoint prog_ind' (p : prog) : P p :=
      let go := fix go (l : list prog) : Forall P l :=
        match l with
        | [] => Forall_nil P
        | x :: t => Forall_cons x (prog_ind' x) (go t)
        end in
      match p with
      | PInput => HInput
      | PConst c => HConst c
      | PConv c q => HConv c q (prog_ind' q)
      | PMapRows g ps => HMap g ps (go ps)
      | PMember m q => HMember m q (prog_ind' q)
      | PAxisOp op k q => HAxis op k q (prog_ind' q)
      | PElem op ps => HElem op ps (go ps)
      | PZip ps => HZip ps (go ps)
      | PIf c a b => HIf c a b (prog_ind' a) (prog_ind' b)
      end.
  End ProgInd.

  (* ---------- the theorem ---------- *)

  Lemma nth_map_default {A B} (f : A -> B) (l : list A) (d : A) (e : B) i :
    i < length l -> nth i (map f l) e = f (nth i l d).
  Proof.
    intro H. rewrite nth_indep with (d' := f d) by (rewrite map_length; exact H). apply map_nth.
  Qed.

  Lemma map_nth_seq_id {A} (d : A) : forall (X : list A),
    map (fun i => nth i X d) (seq 0 (length X)) = X.
  Proof.
    induction X as [|x X IH]; [reflexivity|]. cbn [length seq map nth]. f_equal.
    rewrite <- seq_shift, map_map. cbn [nth]. exact IH.
  Qed.

  Lemma map_seq_nth_all {A B} (k : A -> B) (d : A) : forall (X : list A),
    map (fun i => k (nth i X d)) (seq 0 (length X)) = map k X.
  Proof.
    intro X. rewrite <- (map_map (fun i => nth i X d) k). rewrite map_nth_seq_id. reflexivity.
  Qed.

  Lemma rows_at_maps (fs : list (tens -> tens)) (X : list tens) i : i < length X ->
    rows_at i (map (fun f => map f X) fs) = map (fun f => f (nth i X (Ar []))) fs.
  Proof.
    intro H. unfold rows_at. rewrite map_map. apply map_ext. intro f.
    apply nth_map_default. exact H.
  Qed.

  Lemma loop_is_map (h : list tens -> tens) (fs : list (tens -> tens)) (X : list tens) :
    map (fun i => h (rows_at i (map (fun f => map f X) fs))) (seq 0 (length X)) =
    map (fun x => h (map (fun f => f x) fs)) X.
  Proof.
    rewrite <- (map_seq_nth_all (fun x => h (map (fun f => f x) fs)) (Ar []) X).
    apply map_ext_in. intros i Hi. apply in_seq in Hi. rewrite rows_at_maps by lia. reflexivity.
  Qed.

  Lemma runs_are_maps ps th X :
    Forall (fun q => forall th X, run q th X = map (rowfun q th) X) ps ->
    map (fun q => run q th X) ps = map (fun f => map f X) (map (fun q => rowfun q th) ps).
  Proof.
    intro H. rewrite map_map. apply map_ext_in. intros q Hq.
    rewrite Forall_forall in H. apply H. exact Hq.
  Qed.

  Theorem run_is_map : forall p th X, run p th X = map (rowfun p th) X.
  Proof.
    induction p using prog_ind'; intros th X; cbn [run rowfun].
    - symmetry. apply map_id.
    - induction X as [|x X IH]; [reflexivity|]. cbn. f_equal. exact IH.
    - rewrite IHp. unfold conv_batch. apply map_map.
    - rewrite (runs_are_maps ps th X H).
      rewrite (loop_is_map (fun l => interp g th (Ar l))).
      apply map_ext. intro x. rewrite map_map. reflexivity.
    - rewrite IHp. apply map_map.
    - rewrite IHp. cbn [axis_apply unAr]. apply map_map.
    - rewrite (runs_are_maps ps th X H).
      rewrite (loop_is_map (fun l => interp op th (Ar l))).
      apply map_ext. intro x. rewrite map_map. reflexivity.
    - rewrite (runs_are_maps ps th X H).
      rewrite (loop_is_map (fun l => Ar l)).
      apply map_ext. intro x. rewrite map_map. reflexivity.
    - destruct (cond c th); [apply IHp1|apply IHp2].
  Qed.

  (* the form asked for: an f exists such that the batch function is `map (f theta)` *)
  Theorem prog_is_instancewise : forall p, exists f, forall th X, run p th X = map (f th) X.
  Proof. intro p. exists (rowfun p). apply run_is_map. Qed.

  (* anything that compiles is a program, hence instancewise *)
  Theorem translatable_is_instancewise : forall r, translatable r = true ->
    exists p t, compile r = Some (t, p) /\ iax t = 0 /\
                forall th X, run p th X = map (rowfun p th) X.
  Proof.
    intros r H. unfold translatable in H. destruct (compile r) as [[t p]|] eqn:E; [|discriminate].
    exists p, t. split; [reflexivity|]. split; [apply Nat.eqb_eq; exact H|apply run_is_map].
  Qed.
End Sem.

Arguments Sc {V} v.
Arguments Ar {V} l.

(* ---------------------------------------------------------------------------------------------- *)
(* the regenerated table                                                                          *)

Inductive entry :=
  | Translated (r : raw) (deps : list string)   (* deps: own methods it delegates to (self.predict_proba ..) *)
  | NotTranslated (why : string).

Definition is_translated (e : entry) : bool :=
  match e with Translated _ _ => true | NotTranslated _ => false end.

Definition table := list (string * entry).

Fixpoint lookup (name : string) (t : table) : option entry :=
  match t with
  | [] => None
  | (n, e) :: rest => if String.eqb n name then Some e else lookup name rest
  end.

(* a translated entry: its expression compiles with the instances along axis 0, and every own
   method it delegates to is itself a translated entry of the table *)
Definition entry_ok (t : table) (e : entry) : bool :=
  match e with
  | Translated r deps =>
      translatable r &&
      forallb (fun d => match lookup d t with Some e' => is_translated e' | None => false end) deps
  | NotTranslated _ => true
  end.
Definition table_ok (t : table) : bool := forallb (fun ne => entry_ok t (snd ne)) t.
Definition n_translated (t : table) : nat := count (fun ne => is_translated (snd ne)) t.
