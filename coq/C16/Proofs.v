(* C16 lemmas.
   Part 1: generic facts about `pick` and about estimators of the form `map f`.
   Part 2: batch-validated estimators (`apply_guarded`) whose acceptance test is LOCAL (decided by
           single instances and pairs of instances).
   Part 3: every closed-form transformer of C14 is of that form (proved from C14's definitions).
   Part 4: containers (C15): nested DataFrame vs 3-D array, at apply and at fit. *)
From Coq Require Import QArith List Bool ZArith Arith Lia Permutation.
Require Import SkV.Lib.Base SkV.C14.Model SkV.C16.Model.
Require SkV.C15.Model SkV.C15.Lemmas SkV.C15.Proofs.
Import ListNotations.
Open Scope nat_scope.

(* ============================================================================================== *)
(* Part 1                                                                                         *)

Lemma nth_error_map' {A B} (f : A -> B) : forall l i,
  nth_error (map f l) i = option_map f (nth_error l i).
Proof. induction l as [|a l IH]; intros [|i]; cbn; auto. Qed.

Lemma nth_error_ext' {A} : forall (l l' : list A),
  (forall i, nth_error l i = nth_error l' i) -> l = l'.
Proof.
  induction l as [|a l IH]; intros [|b l'] H.
  - reflexivity.
  - specialize (H 0). discriminate.
  - specialize (H 0). discriminate.
  - pose proof (H 0) as H0. cbn in H0. inversion H0; subst. f_equal. apply IH.
    intro i. exact (H (S i)).
Qed.

Lemma pick_nil {A} (X : list A) : pick [] X = [].
Proof. reflexivity. Qed.
Lemma pick_cons {A} i idx (X : list A) :
  pick (i :: idx) X = match nth_error X i with Some x => [x] | None => [] end ++ pick idx X.
Proof. reflexivity. Qed.
Lemma pick_app {A} i1 i2 (X : list A) : pick (i1 ++ i2) X = pick i1 X ++ pick i2 X.
Proof. unfold pick. apply flat_map_app. Qed.

Lemma pick_map {A B} (f : A -> B) idx X : pick idx (map f X) = map f (pick idx X).
Proof.
  induction idx as [|i idx IH]; [reflexivity|]. rewrite !pick_cons, map_app, IH, nth_error_map'.
  destruct (nth_error X i); reflexivity.
Qed.

Lemma pick_In {A} idx (X : list A) x : In x (pick idx X) -> In x X.
Proof.
  unfold pick. rewrite in_flat_map. intros [i [_ H]].
  destruct (nth_error X i) as [y|] eqn:E; [|destruct H].
  destruct H as [<-|[]]. eapply nth_error_In; eauto.
Qed.

Lemma valid_idx_iff n idx : valid_idx n idx = true <-> forall i, In i idx -> i < n.
Proof.
  unfold valid_idx. rewrite forallb_forall. split; intros H i Hi; specialize (H i Hi).
  - apply Nat.ltb_lt. exact H.
  - apply Nat.ltb_lt. exact H.
Qed.

Lemma nth_error_lt_some {A} (X : list A) i : i < length X -> exists x, nth_error X i = Some x.
Proof.
  intro H. destruct (nth_error X i) as [x|] eqn:E; [eauto|].
  apply nth_error_None in E. lia.
Qed.

Lemma pick_nth_error {A} (X : list A) : forall idx i, valid_idx (length X) idx = true ->
  nth_error (pick idx X) i =
  match nth_error idx i with Some j => nth_error X j | None => None end.
Proof.
  induction idx as [|j idx IH]; intros i Hv.
  - destruct i; reflexivity.
  - cbn [valid_idx forallb] in Hv. apply andb_true_iff in Hv. destruct Hv as [Hj Hv].
    apply Nat.ltb_lt in Hj. destruct (nth_error_lt_some X j Hj) as [x Hx].
    rewrite pick_cons, Hx. destruct i as [|i]; cbn; [symmetry; exact Hx|]. apply IH. exact Hv.
Qed.

Lemma pick_length {A} (X : list A) : forall idx, valid_idx (length X) idx = true ->
  length (pick idx X) = length idx.
Proof.
  induction idx as [|j idx IH]; intro Hv; [reflexivity|].
  cbn [valid_idx forallb] in Hv. apply andb_true_iff in Hv. destruct Hv as [Hj Hv].
  apply Nat.ltb_lt in Hj. destruct (nth_error_lt_some X j Hj) as [x Hx].
  rewrite pick_cons, Hx. cbn. f_equal. apply IH. exact Hv.
Qed.

Lemma pick_nonempty {A} (X : list A) idx :
  idx <> [] -> valid_idx (length X) idx = true -> pick idx X <> [].
Proof.
  intros Hne Hv E. apply (f_equal (@length A)) in E. rewrite pick_length in E by exact Hv.
  destruct idx; [congruence|discriminate].
Qed.

(* a selection of a selection is a selection *)
Lemma pick_pick {A} (X : list A) idx1 : valid_idx (length X) idx1 = true ->
  forall idx2, pick idx2 (pick idx1 X) = pick (pick idx2 idx1) X.
Proof.
  intros Hv. induction idx2 as [|j idx2 IH]; [reflexivity|].
  rewrite !pick_cons, pick_app, IH. f_equal.
  rewrite (pick_nth_error X idx1 j Hv). destruct (nth_error idx1 j) as [k|]; [|reflexivity].
  cbn. rewrite app_nil_r. reflexivity.
Qed.

Lemma pick_seq_gen {A} : forall (X pre : list A), pick (seq (length pre) (length X)) (pre ++ X) = X.
Proof.
  induction X as [|x X IH]; intro pre; [reflexivity|]. cbn [length seq]. rewrite pick_cons.
  rewrite nth_error_app2 by lia. rewrite Nat.sub_diag. cbn [nth_error app]. f_equal.
  specialize (IH (pre ++ [x])). rewrite app_length, <- app_assoc in IH. cbn in IH.
  rewrite Nat.add_1_r in IH. exact IH.
Qed.
Lemma pick_seq {A} (X : list A) : pick (seq 0 (length X)) X = X.
Proof. exact (pick_seq_gen X []). Qed.

Lemma pick_perm {A} (X : list A) idx idx' :
  Permutation idx idx' -> Permutation (pick idx X) (pick idx' X).
Proof.
  induction 1 as [|i l l' _ IH|i j l|l l' l'' _ IH1 _ IH2].
  - constructor.
  - rewrite !pick_cons. apply Permutation_app_head. exact IH.
  - rewrite !pick_cons, !app_assoc. apply Permutation_app_tail. apply Permutation_app_comm.
  - eapply Permutation_trans; eauto.
Qed.

Lemma pick_map_S {A} (x : A) X idx : pick (map S idx) (x :: X) = pick idx X.
Proof. induction idx as [|i idx IH]; [reflexivity|]. cbn [map]. rewrite !pick_cons, IH. reflexivity. Qed.

Lemma perm_seq_valid n idx : Permutation idx (seq 0 n) -> valid_idx n idx = true.
Proof.
  intro H. apply valid_idx_iff. intros i Hi. apply (Permutation_in _ H) in Hi.
  apply in_seq in Hi. lia.
Qed.

(* every reordering of a list is `pick idx` for an index list that is a permutation of 0..n-1 *)
Lemma perm_is_pick {A} (X X' : list A) : Permutation X X' ->
  exists idx, Permutation idx (seq 0 (length X)) /\ X' = pick idx X.
Proof.
  induction 1 as [|x l l' Hp [idx [Hi He]]|x y l|l l' l'' Hp1 [i1 [Hi1 He1]] Hp2 [i2 [Hi2 He2]]].
  - exists []. split; [constructor|reflexivity].
  - exists (0 :: map S idx). split.
    + cbn [length seq]. constructor. rewrite <- seq_shift. apply Permutation_map. exact Hi.
    + rewrite pick_cons. cbn [nth_error app]. rewrite pick_map_S, <- He. reflexivity.
  - exists (1 :: 0 :: seq 2 (length l)). split.
    + cbn [length seq]. apply perm_swap.
    + rewrite !pick_cons. cbn [nth_error app]. f_equal. f_equal.
      symmetry. exact (pick_seq_gen l [y; x]).
  - exists (pick i2 i1). split.
    + rewrite <- (Permutation_length Hp1) in Hi2.
      assert (Hl : length i1 = length l) by (rewrite (Permutation_length Hi1); apply seq_length).
      rewrite <- Hl in Hi2.
      eapply Permutation_trans; [apply (pick_perm i1 _ _ Hi2)|].
      rewrite pick_seq. exact Hi1.
    + rewrite He2, He1. apply pick_pick. apply perm_seq_valid. exact Hi1.
Qed.

Lemma pick_of_perm_idx {A} (X : list A) idx :
  Permutation idx (seq 0 (length X)) -> Permutation X (pick idx X).
Proof.
  intro H. rewrite <- (pick_seq X) at 1. apply Permutation_sym. apply pick_perm. exact H.
Qed.

Section MapForm.
  Context {I O : Type} (f : I -> O).

  Lemma map_pick idx X : apply_map f (pick idx X) = pick idx (apply_map f X).
  Proof. unfold apply_map. symmetry. apply pick_map. Qed.

  Lemma map_perm_equivariance X X' : Permutation X X' ->
    exists idx, Permutation idx (seq 0 (length X)) /\ X' = pick idx X /\
                apply_map f X' = pick idx (apply_map f X).
  Proof.
    intro H. destruct (perm_is_pick X X' H) as [idx [Hi He]]. exists idx.
    split; [exact Hi|]. split; [exact He|]. rewrite He. apply map_pick.
  Qed.

  Lemma combine_map_self (X : list I) : combine X (map f X) = map (fun x => (x, f x)) X.
  Proof. induction X as [|x X IH]; [reflexivity|]. cbn. f_equal. exact IH. Qed.

  Lemma map_index_permutation X idx : Permutation idx (seq 0 (length X)) ->
    Permutation X (pick idx X) /\
    apply_map f (pick idx X) = pick idx (apply_map f X) /\
    Permutation (combine X (apply_map f X)) (combine (pick idx X) (apply_map f (pick idx X))).
  Proof.
    intro H. split; [apply pick_of_perm_idx; exact H|]. split; [apply map_pick|].
    unfold apply_map. rewrite !combine_map_self. apply Permutation_map.
    apply pick_of_perm_idx. exact H.
  Qed.

  Lemma map_single X i x : nth_error X i = Some x ->
    apply_map f [x] = [f x] /\ nth_error (apply_map f X) i = Some (f x) /\
    apply_map f [x] = pick [i] (apply_map f X).
  Proof.
    intro H. unfold apply_map. split; [reflexivity|]. split.
    - rewrite nth_error_map', H. reflexivity.
    - rewrite pick_cons, nth_error_map', H. reflexivity.
  Qed.

  Lemma map_rows X :
    length (apply_map f X) = length X /\
    (forall i, nth_error (apply_map f X) i = option_map f (nth_error X i)).
  Proof. unfold apply_map. split; [apply map_length|intro i; apply nth_error_map']. Qed.

  Lemma map_independent X X' i : nth_error X i = nth_error X' i ->
    nth_error (apply_map f X) i = nth_error (apply_map f X') i.
  Proof. intro H. unfold apply_map. rewrite !nth_error_map', H. reflexivity. Qed.

  Lemma map_subselection X idx : valid_idx (length X) idx = true ->
    length (apply_map f (pick idx X)) = length idx /\
    (forall k j, nth_error idx k = Some j ->
       nth_error (apply_map f (pick idx X)) k = nth_error (apply_map f X) j).
  Proof.
    intro Hv. split.
    - unfold apply_map. rewrite map_length. apply pick_length. exact Hv.
    - intros k j Hk. rewrite map_pick. rewrite pick_nth_error, Hk; [reflexivity|].
      unfold apply_map. rewrite map_length. exact Hv.
  Qed.
End MapForm.

(* the converse: row count + "single instance = batch row" characterise the map form, for ANY
   function from instance lists to row lists *)
Lemma map_form_iff {I O} (d : O) (A : list I -> list O) :
  (exists f, forall X, A X = map f X) <->
  ((forall X, length (A X) = length X) /\
   (forall X i x, nth_error X i = Some x -> nth_error (A X) i = nth_error (A [x]) 0)).
Proof.
  split.
  - intros [f Hf]. split.
    + intro X. rewrite Hf. apply map_length.
    + intros X i x H. rewrite !Hf, nth_error_map', H. reflexivity.
  - intros [Hlen Hrow]. exists (fun x => nth 0 (A [x]) d). intro X.
    apply nth_error_ext'. intro i. rewrite nth_error_map'.
    destruct (nth_error X i) as [x|] eqn:E.
    + rewrite (Hrow X i x E). cbn [option_map].
      pose proof (Hlen [x]) as H1. destruct (A [x]) as [|y t]; [discriminate|reflexivity].
    + cbn. apply nth_error_None. rewrite Hlen. apply nth_error_None. exact E.
Qed.

(* ============================================================================================== *)
(* Part 2: batch-validated estimators                                                             *)

(* the acceptance test is decided by the single instances (P) and the pairs of instances (R) *)
Definition local_guard {I} (dom : I -> Prop) (g : list I -> bool) : Prop :=
  exists (P : I -> Prop) (R : I -> I -> Prop),
    forall X, X <> [] -> (forall x, In x X -> dom x) ->
      (g X = true <-> (forall x, In x X -> P x) /\ (forall x y, In x X -> In y X -> R x y)).

Definition instancewise_on {I O} (dom : I -> Prop) (A : list I -> res (list O)) (f : I -> O) :=
  exists g, local_guard dom g /\ forall X, A X = apply_guarded g f X.

Section Guarded.
  Context {I O : Type} (dom : I -> Prop) (A : list I -> res (list O)) (f : I -> O).
  Hypothesis HA : instancewise_on dom A f.

  Lemma guarded_output X Y : A X = Ok Y -> Y = map f X.
  Proof.
    destruct HA as [g [_ Hg]]. rewrite Hg. unfold apply_guarded.
    destruct (g X); [|discriminate]. intro H. inversion H. reflexivity.
  Qed.

  Lemma guarded_selection X Y idx :
    X <> [] -> (forall x, In x X -> dom x) -> A X = Ok Y ->
    idx <> [] -> valid_idx (length X) idx = true ->
    A (pick idx X) = Ok (pick idx Y).
  Proof.
    intros Hne Hdom HY Hi Hv. pose proof (guarded_output X Y HY) as ->.
    destruct HA as [g [[P [R Hloc]] Hg]]. rewrite Hg in *. unfold apply_guarded in *.
    destruct (g X) eqn:EX; [|discriminate].
    assert (Hne' : pick idx X <> []) by (apply pick_nonempty; assumption).
    assert (Hdom' : forall x, In x (pick idx X) -> dom x)
      by (intros x Hx; apply Hdom; eapply pick_In; eauto).
    destruct (proj1 (Hloc X Hne Hdom) EX) as [HP HR].
    assert (E' : g (pick idx X) = true).
    { apply (Hloc _ Hne' Hdom'). split.
      - intros x Hx. apply HP. eapply pick_In; eauto.
      - intros x y Hx Hy. apply HR; eapply pick_In; eauto. }
    rewrite E'. rewrite pick_map. reflexivity.
  Qed.

  Lemma guarded_permutation X Y X' :
    (forall x, In x X -> dom x) -> A X = Ok Y -> Permutation X X' ->
    exists idx, Permutation idx (seq 0 (length X)) /\ X' = pick idx X /\ A X' = Ok (pick idx Y).
  Proof.
    intros Hdom HY Hp. destruct (perm_is_pick X X' Hp) as [idx [Hi He]]. exists idx.
    split; [exact Hi|]. split; [exact He|]. subst X'.
    destruct X as [|x0 X0].
    - apply Permutation_sym, Permutation_nil in Hi. subst idx.
      pose proof (guarded_output _ _ HY) as ->. exact HY.
    - apply guarded_selection; try assumption; try discriminate.
      + intro E. subst idx. apply Permutation_nil in Hi. discriminate.
      + apply perm_seq_valid. exact Hi.
  Qed.

  Lemma guarded_single X Y i x :
    (forall z, In z X -> dom z) -> A X = Ok Y -> nth_error X i = Some x ->
    A [x] = Ok [f x] /\ nth_error Y i = Some (f x).
  Proof.
    intros Hdom HY Hx.
    assert (Hne : X <> []) by (intro E; subst X; destruct i; discriminate).
    assert (Hlt : i < length X) by (apply nth_error_Some; congruence).
    pose proof (guarded_selection X Y [i] Hne Hdom HY ltac:(discriminate)) as H.
    cbn [valid_idx forallb] in H. rewrite (proj2 (Nat.ltb_lt _ _) Hlt) in H. specialize (H eq_refl).
    pose proof (guarded_output X Y HY) as ->.
    rewrite !pick_cons, !pick_nil, nth_error_map', Hx in H. cbn in H.
    split; [exact H|]. rewrite nth_error_map', Hx. reflexivity.
  Qed.

  Lemma guarded_rows X Y : A X = Ok Y ->
    length Y = length X /\ forall i, nth_error Y i = option_map f (nth_error X i).
  Proof.
    intro HY. pose proof (guarded_output X Y HY) as ->. split; [apply map_length|].
    intro i. apply nth_error_map'.
  Qed.
End Guarded.

(* ============================================================================================== *)
(* Part 3: the closed-form transformers of C14                                                    *)

(* small facts about C14's max_len / min_len (re-proved here so that this file depends on C14's
   MODEL only) *)
Lemma in_cell_lengths p i s : In i p -> In s i -> In (length s) (cell_lengths p).
Proof.
  intros Hi Hs. unfold cell_lengths. apply in_concat. exists (map (@length Q) i). split.
  - apply in_map. exact Hi.
  - apply in_map. exact Hs.
Qed.
Lemma fold_max_ge : forall l x, In x l -> (x <= fold_right Nat.max 0 l)%nat.
Proof.
  induction l as [|a l IH]; intros x H; [destruct H|]. destruct H as [<-|H]; cbn; [lia|].
  specialize (IH x H). lia.
Qed.
Lemma fold_max_in : forall l, l <> [] -> In (fold_right Nat.max 0%nat l) l.
Proof.
  induction l as [|a l IH]; [congruence|]. intros _. cbn [fold_right].
  destruct l as [|b l]; [left; cbn; lia|].
  destruct (Nat.max_spec a (fold_right Nat.max 0%nat (b :: l))) as [[_ E]|[_ E]]; rewrite E.
  - right. apply IH. congruence.
  - left. reflexivity.
Qed.
Lemma fold_min_le : forall l a x, In x (a :: l) -> (fold_right Nat.min a l <= x)%nat.
Proof.
  induction l as [|b l IH]; intros a x H; cbn.
  - destruct H as [<-|[]]. lia.
  - destruct H as [<-|[<-|H]].
    + specialize (IH a a (or_introl eq_refl)). lia.
    + lia.
    + specialize (IH a x (or_intror H)). lia.
Qed.
Lemma fold_min_in : forall l a, In (fold_right Nat.min a l) (a :: l).
Proof.
  induction l as [|b l IH]; intro a; cbn [fold_right]; [left; reflexivity|].
  destruct (Nat.min_spec b (fold_right Nat.min a l)) as [[_ E]|[_ E]]; rewrite E.
  - right. left. reflexivity.
  - destruct (IH a) as [H|H]; [left; exact H|right; right; exact H].
Qed.
Lemma max_len_ge p i s : In i p -> In s i -> (length s <= max_len p)%nat.
Proof. intros. apply fold_max_ge. eapply in_cell_lengths; eassumption. Qed.
Lemma min_len_le p i s : In i p -> In s i -> (min_len p <= length s)%nat.
Proof.
  intros Hi Hs. pose proof (in_cell_lengths p i s Hi Hs) as H. unfold min_len.
  destruct (cell_lengths p) as [|a l]; [destruct H|]. apply fold_min_le. exact H.
Qed.
Lemma in_cell_lengths_inv p n : In n (cell_lengths p) -> exists i s, In i p /\ In s i /\ length s = n.
Proof.
  unfold cell_lengths. intro H. apply in_concat in H. destruct H as (l & Hl & Hn).
  apply in_map_iff in Hl. destruct Hl as (i & <- & Hi). apply in_map_iff in Hn.
  destruct Hn as (s & <- & Hs). exists i, s. auto.
Qed.

Lemma max_len_le_iff p L :
  max_len p <= L <-> forall i s, In i p -> In s i -> length s <= L.
Proof.
  split.
  - intros H i s Hi Hs. pose proof (max_len_ge p i s Hi Hs). lia.
  - intro H. unfold max_len. destruct (cell_lengths p) as [|a t] eqn:E; [cbn; lia|].
    assert (Hin : In (fold_right Nat.max 0 (a :: t)) (a :: t)) by (apply fold_max_in; discriminate).
    rewrite <- E in Hin. destruct (in_cell_lengths_inv p _ Hin) as [i [s [Hi [Hs Hl]]]].
    rewrite E in Hl. rewrite <- Hl. apply (H i s Hi Hs).
Qed.

Lemma min_len_ge_iff p k : cell_lengths p <> [] ->
  (k <= min_len p <-> forall i s, In i p -> In s i -> k <= length s).
Proof.
  intro Hne. split.
  - intros H i s Hi Hs. pose proof (min_len_le p i s Hi Hs). lia.
  - intro H. unfold min_len. destruct (cell_lengths p) as [|a t] eqn:E; [congruence|].
    pose proof (fold_min_in t a) as Hin. rewrite <- E in Hin.
    destruct (in_cell_lengths_inv p _ Hin) as [i [s [Hi [Hs Hl]]]].
    rewrite <- Hl. apply (H i s Hi Hs).
Qed.

Lemma cells_nonempty (p : panel) : p <> [] -> (forall x, In x p -> tdom x) -> cell_lengths p <> [].
Proof.
  intros Hne Hd. destruct p as [|i p]; [congruence|].
  assert (Hi : tdom i) by (apply Hd; left; reflexivity). unfold tdom in Hi.
  destruct i as [|s i]; [congruence|]. intro E. unfold cell_lengths in E. cbn in E. discriminate.
Qed.

Definition same_cell_lengths (x y : inst) : Prop :=
  forall s s', In s x -> In s' y -> length s = length s'.

Lemma equal_length_iff p :
  equal_length p = true <-> forall x y, In x p -> In y p -> same_cell_lengths x y.
Proof.
  unfold equal_length. rewrite Nat.eqb_eq. split.
  - intros H x y Hx Hy s s' Hs Hs'.
    pose proof (max_len_ge p x s Hx Hs). pose proof (min_len_le p x s Hx Hs).
    pose proof (max_len_ge p y s' Hy Hs'). pose proof (min_len_le p y s' Hy Hs'). lia.
  - intro H. unfold max_len, min_len. destruct (cell_lengths p) as [|a t] eqn:E; [reflexivity|].
    assert (H1 : In (fold_right Nat.max 0 (a :: t)) (a :: t)) by (apply fold_max_in; discriminate).
    pose proof (fold_min_in t a) as H2. rewrite <- E in H1, H2.
    destruct (in_cell_lengths_inv p _ H1) as [i1 [s1 [Hi1 [Hs1 Hl1]]]].
    destruct (in_cell_lengths_inv p _ H2) as [i2 [s2 [Hi2 [Hs2 Hl2]]]].
    rewrite E in Hl1. rewrite <- Hl1, <- Hl2. apply (H i1 i2 Hi1 Hi2 s1 s2 Hs1 Hs2).
Qed.

Lemma nat_list_eqb_eq : forall a b, nat_list_eqb a b = true <-> a = b.
Proof.
  unfold nat_list_eqb. induction a as [|x a IH]; intros [|y b]; cbn; split; intro H;
    try reflexivity; try discriminate.
  - apply andb_true_iff in H. destruct H as [H1 H2]. apply andb_true_iff in H2.
    destruct H2 as [H2 H3]. apply Nat.eqb_eq in H2. subst y. f_equal. apply IH.
    apply andb_true_iff. split; assumption.
  - inversion H; subst. pose proof (proj2 (IH b) eq_refl) as H0.
    apply andb_true_iff in H0. destruct H0 as [H1 H2].
    rewrite H1, H2, Nat.eqb_refl. reflexivity.
Qed.

Lemma rectangular_iff p :
  rectangular p = true <-> forall x y, In x p -> In y p -> shape_of x = shape_of y.
Proof.
  unfold rectangular. destruct p as [|i0 p]; [split; [intros _ x y []|reflexivity]|].
  rewrite forallb_forall. split.
  - intros H x y Hx Hy. apply H in Hx. apply H in Hy. apply nat_list_eqb_eq in Hx, Hy. congruence.
  - intros H x Hx. apply nat_list_eqb_eq. apply H; [exact Hx|left; reflexivity].
Qed.

Lemma univariate_iff p : univariate p = true <-> forall x, In x p -> length x = 1.
Proof.
  unfold univariate. rewrite forallb_forall. split; intros H x Hx; specialize (H x Hx);
    apply Nat.eqb_eq; exact H.
Qed.

Lemma first_len_single (x : inst) : first_len [x] = hd 0 (shape_of x).
Proof. destruct x; reflexivity. Qed.
Lemma first_len_hd (x : inst) p : first_len (x :: p) = first_len [x].
Proof. destruct x; reflexivity. Qed.

(* --- the batch function is validation + map ---------------------------------------------------- *)

Lemma tapply_form t th p : tapply t th p = apply_guarded (tguard t th) (tfun t th) p.
Proof.
  unfold apply_guarded. destruct t; cbn [tapply tguard tfun].
  - unfold pad_apply, map_cells. destruct (th <? max_len p); reflexivity.
  - unfold trunc_apply, map_cells. destruct (min_len p <? th); [destruct upper; reflexivity|].
    destruct upper as [u|]; [|reflexivity]. cbn [negb andb].
    destruct ((th <? u) && (min_len p <? u)); reflexivity.
  - unfold interp_apply, map_cells. destruct ((min_len p <? 2) && (2 <=? m)); reflexivity.
  - unfold tabularize. destruct (rectangular p); [|reflexivity]. cbn. rewrite map_map. reflexivity.
  - unfold col_concat. destruct (rectangular p); reflexivity.
  - unfold paa_apply, map_cells.
    destruct ((m =? 0) || (first_len p <? m) || negb (rectangular p)); reflexivity.
  - unfold iseg_n.
    destruct (negb (univariate p) || negb (equal_length p) || (k =? 0) || (th / 2 <? k));
      reflexivity.
  - unfold iseg_arr. destruct (negb (univariate p) || negb (equal_length p)); reflexivity.
  - unfold sliding_apply.
    destruct (negb (univariate p) || negb (equal_length p) || (w =? 0)); reflexivity.
  - unfold row_s2s, map_cells. destruct (equal_length p); reflexivity.
  - unfold row_s2p. destruct (equal_length p); [|reflexivity]. cbn. rewrite map_map. reflexivity.
Qed.

(* the model's integer-interval segmenter IS C14's, with n read from the training panel *)
Lemma iseg_n_is_c14 k pfit p : iseg_n false k (first_len pfit) p = iseg_int k pfit p.
Proof. reflexivity. Qed.

(* --- the acceptance tests are local ------------------------------------------------------------ *)

Ltac bool_to_prop :=
  cbn [tguard];
  repeat (rewrite ?negb_true_iff, ?negb_false_iff, ?andb_true_iff, ?andb_false_iff, ?orb_true_iff,
          ?orb_false_iff, ?Nat.ltb_lt, ?Nat.ltb_ge, ?Nat.leb_le, ?Nat.leb_gt, ?Nat.eqb_eq,
          ?Nat.eqb_neq).

Lemma tguard_local t th : local_guard tdom (tguard t th).
Proof.
  destruct t; cbn [tguard].
  - (* pad *)
    exists (fun i => forall s, In s i -> length s <= th), (fun _ _ => True).
    intros X _ _. bool_to_prop. rewrite max_len_le_iff. split.
    + intro H. split; [intros x Hx s Hs; eauto|trivial].
    + intros [H _] i s Hi Hs. eauto.
  - (* truncate *)
    destruct upper as [u|].
    + exists (fun i => forall s, In s i -> th <= length s /\ (th < u -> u <= length s)),
             (fun _ _ => True).
      intros X Hne Hd. pose proof (cells_nonempty X Hne Hd) as Hc. bool_to_prop.
      rewrite (min_len_ge_iff X th Hc). split.
      * intros [H1 H2]. split; [|trivial]. intros x Hx s Hs. split; [eauto|].
        intro Hlt. destruct H2 as [H2|H2]; [lia|].
        apply (proj1 (min_len_ge_iff X u Hc) H2 x s Hx Hs).
      * intros [H _]. split; [intros i s Hi Hs; apply (H i Hi s Hs)|].
        destruct (Nat.lt_ge_cases th u) as [Hlt|Hge]; [right|left; exact Hge].
        apply (min_len_ge_iff X u Hc). intros i s Hi Hs. apply (H i Hi s Hs). exact Hlt.
    + exists (fun i => forall s, In s i -> th <= length s), (fun _ _ => True).
      intros X Hne Hd. pose proof (cells_nonempty X Hne Hd) as Hc. bool_to_prop.
      rewrite (min_len_ge_iff X th Hc). split.
      * intro H. split; [intros x Hx s Hs; eauto|trivial].
      * intros [H _] i s Hi Hs. eauto.
  - (* interpolate *)
    exists (fun i => forall s, In s i -> 2 <= m -> 2 <= length s), (fun _ _ => True).
    intros X Hne Hd. pose proof (cells_nonempty X Hne Hd) as Hc. bool_to_prop.
    rewrite (min_len_ge_iff X 2 Hc). split.
    + intros H. split; [|trivial]. intros x Hx s Hs Hm. destruct H as [H|H]; [eauto|lia].
    + intros [H _]. destruct (Nat.lt_ge_cases m 2) as [Hlt|Hge]; [right; exact Hlt|left].
      intros i s Hi Hs. apply (H i Hi s Hs Hge).
  - (* tabularize *)
    exists (fun _ => True), (fun x y => shape_of x = shape_of y).
    intros X _ _. cbn [tguard]. rewrite rectangular_iff. split; [intro H; split; [trivial|exact H]|intros [_ H]; exact H].
  - (* column concatenate *)
    exists (fun _ => True), (fun x y => shape_of x = shape_of y).
    intros X _ _. cbn [tguard]. rewrite rectangular_iff. split; [intro H; split; [trivial|exact H]|intros [_ H]; exact H].
  - (* PAA *)
    exists (fun i => m <> 0 /\ m <= first_len [i]), (fun x y => shape_of x = shape_of y).
    intros X Hne _. bool_to_prop. rewrite rectangular_iff.
    destruct X as [|x0 X0]; [congruence|]. rewrite first_len_hd.
    split.
    + intros [[Hm Hf] Hr]. split; [|exact Hr]. intros x Hx. split; [exact Hm|].
      rewrite first_len_single in *. rewrite (Hr x x0 Hx (or_introl eq_refl)). exact Hf.
    + intros [HP HR]. destruct (HP x0 (or_introl eq_refl)) as [Hm Hf]. tauto.
  - (* interval segmenter, integer *)
    exists (fun i => length i = 1 /\ k <> 0 /\ k <= th / 2), same_cell_lengths.
    intros X Hne _. bool_to_prop. rewrite univariate_iff, equal_length_iff.
    destruct X as [|x0 X0]; [congruence|]. split.
    + intros [[[Hu He] Hk] Hn]. split; [|exact He]. intros x Hx. auto.
    + intros [HP HR]. destruct (HP x0 (or_introl eq_refl)) as [_ [Hk Hn]].
      repeat split; try assumption. intros x Hx. apply (HP x Hx).
  - (* interval segmenter, explicit intervals *)
    exists (fun i => length i = 1), same_cell_lengths.
    intros X _ _. bool_to_prop. rewrite univariate_iff, equal_length_iff. tauto.
  - (* sliding window *)
    exists (fun i => length i = 1 /\ w <> 0), same_cell_lengths.
    intros X Hne _. bool_to_prop. rewrite univariate_iff, equal_length_iff.
    destruct X as [|x0 X0]; [congruence|]. split.
    + intros [[Hu He] Hw]. split; [|exact He]. intros x Hx. auto.
    + intros [HP HR]. destruct (HP x0 (or_introl eq_refl)) as [_ Hw].
      repeat split; try assumption. intros x Hx. apply (HP x Hx).
  - (* row transformer, series to series *)
    exists (fun _ => True), same_cell_lengths.
    intros X _ _. cbn [tguard]. rewrite equal_length_iff. split; [intro H; split; [trivial|exact H]|intros [_ H]; exact H].
  - (* row transformer, series to primitives *)
    exists (fun _ => True), same_cell_lengths.
    intros X _ _. cbn [tguard]. rewrite equal_length_iff. split; [intro H; split; [trivial|exact H]|intros [_ H]; exact H].
Qed.

Lemma closed_form_instancewise t th : instancewise_on tdom (tapply t th) (tfun t th).
Proof. exists (tguard t th). split; [apply tguard_local|intro X; apply tapply_form]. Qed.

(* --- one lemma per transformer, in C14's own terms; the fitted parameter is computed from the
       TRAINING panel pfit and then held fixed -------------------------------------------------- *)

Lemma pad_is_instancewise req fill pfit :
  instancewise_on tdom (pad_apply (pad_fit req pfit) fill)
                  (map (pad_series (pad_fit req pfit) fill)).
Proof. exact (closed_form_instancewise (TPad req fill) (pad_fit req pfit)). Qed.

Lemma truncate_is_instancewise lower upper pfit :
  instancewise_on tdom (trunc_apply (trunc_fit lower pfit) upper)
    (match upper with
     | None => map (slice 0 (trunc_fit lower pfit))
     | Some u => map (slice (trunc_fit lower pfit) u)
     end).
Proof.
  pose proof (closed_form_instancewise (TTrunc lower upper) (trunc_fit lower pfit)) as H.
  destruct upper; exact H.
Qed.

Lemma interpolate_is_instancewise m :
  instancewise_on tdom (interp_apply m) (map (interp_series m)).
Proof. exact (closed_form_instancewise (TInterp m) 0). Qed.

Lemma tabularize_is_instancewise :
  instancewise_on tdom (fun p => rows_as_panel (tabularize p)) (fun i => [tab_row i]).
Proof. exact (closed_form_instancewise TTab 0). Qed.

Lemma concatenate_is_instancewise : instancewise_on tdom col_concat (fun i => [tab_row i]).
Proof. exact (closed_form_instancewise TConcat 0). Qed.

Lemma paa_is_instancewise m : instancewise_on tdom (paa_apply m) (map (paa_coded m)).
Proof. exact (closed_form_instancewise (TPaa m) 0). Qed.

Lemma interval_segmenter_int_is_instancewise k pfit :
  instancewise_on tdom (iseg_int k pfit)
    (fun i => segment (split_bounds (first_len pfit) k) (only_col i)) /\
  instancewise_on tdom (iseg_n true k (first_len pfit))
    (fun i => segment_short (split_bounds (first_len pfit) k) (only_col i)).
Proof.
  split.
  - exact (closed_form_instancewise (TISegInt false k) (first_len pfit)).
  - exact (closed_form_instancewise (TISegInt true k) (first_len pfit)).
Qed.

Lemma interval_segmenter_arr_is_instancewise ivs :
  instancewise_on tdom (iseg_arr ivs) (fun i => segment ivs (only_col i)).
Proof. exact (closed_form_instancewise (TISegArr ivs) 0). Qed.

Lemma sliding_window_is_instancewise w :
  instancewise_on tdom (sliding_apply w) (fun i => sliding_coded w (only_col i)).
Proof. exact (closed_form_instancewise (TSlide w) 0). Qed.

Lemma row_s2s_is_instancewise sf : instancewise_on tdom (row_s2s sf) (map (sfun_apply sf)).
Proof. exact (closed_form_instancewise (TRowS2S sf) 0). Qed.

Lemma row_s2p_is_instancewise g :
  instancewise_on tdom (fun p => rows_as_panel (row_s2p g p)) (fun i => [map (pfun_apply g) i]).
Proof. exact (closed_form_instancewise (TRowS2P g) 0). Qed.

(* RandomIntervalFeatureExtractor GIVEN its fitted intervals (drawn once at fit, then held fixed):
   C14's rife_apply is validation + a per-instance map as well *)
Lemma interval_features_are_instancewise feats ivs :
  instancewise_on tdom (rife_apply feats ivs) (fun i => rife_row feats ivs (only_col i)).
Proof.
  exists (tguard (TISegArr []) 0). split; [apply tguard_local|].
  intro X. unfold rife_apply, apply_guarded. cbn [tguard].
  destruct (negb (univariate X) || negb (equal_length X)); reflexivity.
Qed.

(* the fitted parameter must be HELD FIXED: re-fitting on the instance alone changes the row *)
Lemma refit_on_single_instance_differs :
  let X := [[[1%Q; 2%Q; 3%Q]]; [[4%Q]]] in
  let x := [[4%Q]] in
  exists Y y, tapply (TPad None 0%Q) (tfit (TPad None 0%Q) X) X = Ok Y /\
              tapply (TPad None 0%Q) (tfit (TPad None 0%Q) [x]) [x] = Ok y /\
              y <> pick [1] Y /\
              tapply (TPad None 0%Q) (tfit (TPad None 0%Q) X) [x] = Ok (pick [1] Y).
Proof.
  eexists. eexists. split; [vm_compute; reflexivity|]. split; [vm_compute; reflexivity|].
  split; [|vm_compute; reflexivity]. vm_compute. discriminate.
Qed.

(* ============================================================================================== *)
(* Part 4: containers                                                                             *)

Section Containers.
  Context {V : Type}.
  Import SkV.C15.Model.
  Implicit Types (x : K.nested V).

  (* well-formed: n >= 1 instances x c >= 1 variables x T >= 2 time points, rectangular (C15) *)
  Definition wf_rows (n c T : nat) x : Prop := SkV.C15.Proofs.wf_panel n c T (K.n_rows x).

  (* C15's round trip nested -> 3-D -> nested (SkV.C15.Proofs.a3_to_nested_eq is the lemma behind
     C15_roundtrip_nested_3d): the conversion back returns the very same rows *)
  Lemma roundtrip_rows n c T x cn k : wf_rows n c T x ->
    K.n_rows (K.a3_to_nested cn k (K.nested_to_3d x)) = K.n_rows x.
  Proof.
    intro Hwf. unfold K.nested_to_3d. rewrite (SkV.C15.Proofs.a3_to_nested_eq n c T _ Hwf).
    reflexivity.
  Qed.

  Lemma internal_same n c T x (to_np to_pd : bool) :
    wf_rows n c T x -> to_np && to_pd = false ->
    internal to_np to_pd (K.RA (K.nested_to_3d x)) = Ok (K.n_rows x) /\
    internal to_np to_pd (K.RN x) = Ok (K.n_rows x).
  Proof.
    intros Hwf Hf. unfold internal, K.check_X, K.nested_to_3d.
    destruct to_np, to_pd; try discriminate; cbn [andb rows_of];
      rewrite ?(SkV.C15.Proofs.a3_to_nested_eq n c T _ Hwf); split; reflexivity.
  Qed.

  Lemma apply_container_irrelevant {O} n c T x (to_np to_pd : bool) (f : list (list V) -> O) :
    wf_rows n c T x -> to_np && to_pd = false ->
    est_apply to_np to_pd f (K.RA (K.nested_to_3d x)) = est_apply to_np to_pd f (K.RN x) /\
    est_apply to_np to_pd f (K.RN x) = Ok (apply_map f (K.n_rows x)).
  Proof.
    intros Hwf Hf. destruct (internal_same n c T x to_np to_pd Hwf Hf) as [H1 H2].
    unfold est_apply. rewrite H1, H2. split; reflexivity.
  Qed.

  Lemma fit_container_irrelevant {Y Th} n c T x (to_np to_pd : bool)
        (fit : K.panel V -> Y -> Th) (y : Y) :
    wf_rows n c T x -> to_np && to_pd = false ->
    est_fit to_np to_pd fit (K.RA (K.nested_to_3d x)) y = est_fit to_np to_pd fit (K.RN x) y /\
    est_fit to_np to_pd fit (K.RN x) y = Ok (fit (K.n_rows x) y).
  Proof.
    intros Hwf Hf. destruct (internal_same n c T x to_np to_pd Hwf Hf) as [H1 H2].
    unfold est_fit. rewrite H1, H2. split; reflexivity.
  Qed.

  (* nested -> 3-D -> nested (any column names, any cell kind) is invisible to the estimator *)
  Lemma apply_after_roundtrip {O} n c T x (to_np to_pd : bool) (f : list (list V) -> O) cn k :
    wf_rows n c T x -> to_np && to_pd = false ->
    est_apply to_np to_pd f (K.RN (K.a3_to_nested cn k (K.nested_to_3d x))) =
    est_apply to_np to_pd f (K.RN x).
  Proof.
    intros Hwf Hf. pose proof (roundtrip_rows n c T x cn k Hwf) as Hrt.
    unfold est_apply, internal, K.check_X, K.nested_to_3d in *.
    destruct to_np, to_pd; try discriminate; cbn [andb rows_of]; rewrite Hrt; reflexivity.
  Qed.

  (* column labels and cell kind (pd.Series / np.ndarray cells) are not read *)
  Lemma apply_ignores_labels {O} (to_np to_pd : bool) (f : list (list V) -> O) k k' cols cols' rows :
    to_np && to_pd = false ->
    est_apply to_np to_pd f (K.RN (K.mkN k cols rows)) =
    est_apply to_np to_pd f (K.RN (K.mkN k' cols' rows)).
  Proof.
    intro Hf. unfold est_apply, internal, K.check_X. rewrite Hf. destruct to_np; reflexivity.
  Qed.
End Containers.

(* a closed-form transformer reading its input through check_X, at apply and at fit *)
Definition tapply_rep (t : tconf) (th : nat) (to_np to_pd : bool) (r : K.rep Q) : res panel :=
  match internal to_np to_pd r with Ok p => tapply t th p | Err => Err end.
Definition tfit_rep (t : tconf) (to_np to_pd : bool) (r : K.rep Q) : res nat :=
  rmap (tfit t) (internal to_np to_pd r).

Lemma closed_form_container_irrelevant t n c T (x : K.nested Q) n' c' T' (xfit : K.nested Q)
      (to_np to_pd : bool) :
  wf_rows n c T x -> wf_rows n' c' T' xfit ->
  to_np && to_pd = false ->
  tfit_rep t to_np to_pd (K.RA (K.nested_to_3d xfit)) = tfit_rep t to_np to_pd (K.RN xfit) /\
  tfit_rep t to_np to_pd (K.RN xfit) = Ok (tfit t (K.n_rows xfit)) /\
  forall th, tapply_rep t th to_np to_pd (K.RA (K.nested_to_3d x)) =
             tapply_rep t th to_np to_pd (K.RN x) /\
             tapply_rep t th to_np to_pd (K.RN x) = tapply t th (K.n_rows x).
Proof.
  intros Hwf Hwf' Hf. destruct (internal_same n c T x to_np to_pd Hwf Hf) as [H1 H2].
  destruct (internal_same n' c' T' xfit to_np to_pd Hwf' Hf) as [H3 H4].
  unfold tfit_rep, tapply_rep. rewrite H1, H2, H3, H4. repeat split; reflexivity.
Qed.

(* --- the closed-form family, concretely: selection, permutation, single instance ------------- *)

Lemma closed_form_selection t pfit X Y idx :
  X <> [] -> (forall x, In x X -> x <> []) ->
  tapply t (tfit t pfit) X = Ok Y ->
  idx <> [] -> valid_idx (length X) idx = true ->
  tapply t (tfit t pfit) (pick idx X) = Ok (pick idx Y) /\ Y = map (tfun t (tfit t pfit)) X.
Proof.
  intros Hne Hd HY Hi Hv. split.
  - exact (guarded_selection tdom _ _ (closed_form_instancewise t (tfit t pfit)) X Y idx Hne Hd HY Hi Hv).
  - exact (guarded_output tdom _ _ (closed_form_instancewise t (tfit t pfit)) X Y HY).
Qed.

Lemma closed_form_permutation t pfit X Y X' :
  (forall x, In x X -> x <> []) -> tapply t (tfit t pfit) X = Ok Y -> Permutation X X' ->
  exists idx, Permutation idx (seq 0 (length X)) /\ X' = pick idx X /\
              tapply t (tfit t pfit) X' = Ok (pick idx Y).
Proof.
  intros Hd HY Hp.
  exact (guarded_permutation tdom _ _ (closed_form_instancewise t (tfit t pfit)) X Y X' Hd HY Hp).
Qed.

Lemma closed_form_single t pfit X Y i x :
  (forall z, In z X -> z <> []) -> tapply t (tfit t pfit) X = Ok Y -> nth_error X i = Some x ->
  tapply t (tfit t pfit) [x] = Ok [tfun t (tfit t pfit) x] /\
  nth_error Y i = Some (tfun t (tfit t pfit) x) /\ length Y = length X.
Proof.
  intros Hd HY Hx.
  destruct (guarded_single tdom _ _ (closed_form_instancewise t (tfit t pfit)) X Y i x Hd HY Hx)
    as [H1 H2].
  split; [exact H1|]. split; [exact H2|].
  apply (guarded_rows tdom _ _ (closed_form_instancewise t (tfit t pfit)) X Y HY).
Qed.

(* non-vacuity: a concrete panel, a concrete permutation, a concrete nested frame *)
Definition ex_panel : panel := [[[1%Q; 2%Q; 3%Q]]; [[4%Q; 5%Q]]; [[6%Q]]].
Definition ex_nested : K.nested Q :=
  K.mkN K.KSeries [K.NInt 0%Z] [[[1%Q; 2%Q]]; [[3%Q; 4%Q]]; [[5%Q; 6%Q]]].

Lemma ex_nonvacuous :
  Permutation [2; 0; 1] (seq 0 (length ex_panel)) /\
  pick [2; 0; 1] ex_panel = [[[6%Q]]; [[1%Q; 2%Q; 3%Q]]; [[4%Q; 5%Q]]] /\
  tapply (TPad None 0%Q) (tfit (TPad None 0%Q) ex_panel) ex_panel =
    Ok [[[1%Q; 2%Q; 3%Q]]; [[4%Q; 5%Q; 0%Q]]; [[6%Q; 0%Q; 0%Q]]] /\
  tapply (TPad None 0%Q) (tfit (TPad None 0%Q) ex_panel) (pick [2; 0; 1] ex_panel) =
    Ok (pick [2; 0; 1] [[[1%Q; 2%Q; 3%Q]]; [[4%Q; 5%Q; 0%Q]]; [[6%Q; 0%Q; 0%Q]]]) /\
  wf_rows 3 1 2 ex_nested.
Proof.
  split.
  - cbn. apply Permutation_sym. apply (perm_trans (l' := [0; 2; 1])).
    + constructor. apply perm_swap.
    + apply perm_swap.
  - split; [reflexivity|]. split; [vm_compute; reflexivity|]. split; [vm_compute; reflexivity|].
    apply SkV.C15.Proofs.wf_panelb_iff. vm_compute. reflexivity.
Qed.

(* --- statements of Props.v that combine several lemmas ------------------------------------- *)

Lemma thm_subselection : forall (I O : Type) (f : I -> O) X idx,
  valid_idx (length X) idx = true ->
  apply_map f (pick idx X) = pick idx (apply_map f X) /\
  length (apply_map f (pick idx X)) = length idx /\
  (forall k j, nth_error idx k = Some j ->
     nth_error (apply_map f (pick idx X)) k = nth_error (apply_map f X) j).
Proof. intros I O f X idx H. split; [apply map_pick|apply map_subselection; exact H]. Qed.

Lemma thm_closed_form_is_instancewise : forall t th,
  (forall p, tapply t th p = if tguard t th p then Ok (map (tfun t th) p) else Err) /\
  local_guard (fun i : inst => i <> []) (tguard t th) /\
  instancewise_on (fun i : inst => i <> []) (tapply t th) (tfun t th).
Proof.
  intros t th. split; [exact (tapply_form t th)|].
  split; [exact (tguard_local t th)|exact (closed_form_instancewise t th)].
Qed.

Lemma thm_pad_and_truncate_are_instancewise : forall req fill lower upper pfit,
  pad_fit None pfit = max_len pfit /\ trunc_fit None pfit = min_len pfit /\
  instancewise_on (fun i : inst => i <> []) (pad_apply (pad_fit req pfit) fill)
                  (map (pad_series (pad_fit req pfit) fill)) /\
  instancewise_on (fun i : inst => i <> []) (trunc_apply (trunc_fit lower pfit) upper)
    (match upper with
     | None => map (slice 0 (trunc_fit lower pfit))
     | Some u => map (slice (trunc_fit lower pfit) u)
     end).
Proof.
  intros. split; [reflexivity|]. split; [reflexivity|].
  split; [apply pad_is_instancewise|apply truncate_is_instancewise].
Qed.

Lemma thm_other_closed_forms_are_instancewise :
  (forall m, instancewise_on (fun i : inst => i <> []) (interp_apply m) (map (interp_series m))) /\
  instancewise_on (fun i : inst => i <> []) (fun p => rows_as_panel (tabularize p))
                  (fun i => [tab_row i]) /\
  instancewise_on (fun i : inst => i <> []) col_concat (fun i => [tab_row i]) /\
  (forall m, instancewise_on (fun i : inst => i <> []) (paa_apply m) (map (paa_coded m))) /\
  (forall k pfit, instancewise_on (fun i : inst => i <> []) (iseg_int k pfit)
     (fun i => segment (split_bounds (first_len pfit) k) (only_col i))) /\
  (forall ivs, instancewise_on (fun i : inst => i <> []) (iseg_arr ivs)
     (fun i => segment ivs (only_col i))) /\
  (forall w, instancewise_on (fun i : inst => i <> []) (sliding_apply w)
     (fun i => sliding_coded w (only_col i))) /\
  (forall sf, instancewise_on (fun i : inst => i <> []) (row_s2s sf) (map (sfun_apply sf))) /\
  (forall g, instancewise_on (fun i : inst => i <> []) (fun p => rows_as_panel (row_s2p g p))
     (fun i => [map (pfun_apply g) i])).
Proof.
  split; [exact interpolate_is_instancewise|]. split; [exact tabularize_is_instancewise|].
  split; [exact concatenate_is_instancewise|]. split; [exact paa_is_instancewise|].
  split; [intros k pfit; exact (proj1 (interval_segmenter_int_is_instancewise k pfit))|].
  split; [exact interval_segmenter_arr_is_instancewise|].
  split; [exact sliding_window_is_instancewise|].
  split; [exact row_s2s_is_instancewise|exact row_s2p_is_instancewise].
Qed.

Lemma thm_validated_estimators : forall (I O : Type) (dom : I -> Prop)
    (A : list I -> res (list O)) (f : I -> O),
  instancewise_on dom A f ->
  forall X Y, (forall x, In x X -> dom x) -> A X = Ok Y ->
    (length Y = length X /\ forall i, nth_error Y i = option_map f (nth_error X i)) /\
    (forall idx, X <> [] -> idx <> [] -> valid_idx (length X) idx = true ->
       A (pick idx X) = Ok (pick idx Y)) /\
    (forall X', Permutation X X' ->
       exists idx, Permutation idx (seq 0 (length X)) /\ X' = pick idx X /\
                   A X' = Ok (pick idx Y)) /\
    (forall i x, nth_error X i = Some x -> A [x] = Ok [f x] /\ nth_error Y i = Some (f x)).
Proof.
  intros I O dom A f HA X Y Hd HY. split; [exact (guarded_rows dom A f HA X Y HY)|].
  split; [intros idx Hne Hi Hv; exact (guarded_selection dom A f HA X Y idx Hne Hd HY Hi Hv)|].
  split; [intros X' Hp; exact (guarded_permutation dom A f HA X Y X' Hd HY Hp)|].
  intros i x Hx. exact (guarded_single dom A f HA X Y i x Hd HY Hx).
Qed.

Lemma thm_closed_form_selection_permutation_single : forall t pfit X Y,
  (forall x, In x X -> x <> []) -> tapply t (tfit t pfit) X = Ok Y ->
  Y = map (tfun t (tfit t pfit)) X /\ length Y = length X /\
  (forall idx, X <> [] -> idx <> [] -> valid_idx (length X) idx = true ->
     tapply t (tfit t pfit) (pick idx X) = Ok (pick idx Y)) /\
  (forall X', Permutation X X' ->
     exists idx, Permutation idx (seq 0 (length X)) /\ X' = pick idx X /\
                 tapply t (tfit t pfit) X' = Ok (pick idx Y)) /\
  (forall i x, nth_error X i = Some x ->
     tapply t (tfit t pfit) [x] = Ok [tfun t (tfit t pfit) x] /\
     nth_error Y i = Some (tfun t (tfit t pfit) x)).
Proof.
  intros t pfit X Y Hd HY.
  split; [exact (guarded_output _ _ _ (closed_form_instancewise t (tfit t pfit)) X Y HY)|].
  split; [exact (proj1 (guarded_rows _ _ _ (closed_form_instancewise t (tfit t pfit)) X Y HY))|].
  split; [intros idx Hne Hi Hv; exact (proj1 (closed_form_selection t pfit X Y idx Hne Hd HY Hi Hv))|].
  split; [intros X' Hp; exact (closed_form_permutation t pfit X Y X' Hd HY Hp)|].
  intros i x Hx. destruct (closed_form_single t pfit X Y i x Hd HY Hx) as [H1 [H2 _]]. auto.
Qed.
