(* C16 property theorems: statements only, each closed by `exact` and followed by Print Assumptions.

   A fitted panel estimator is a function from a list of instances to a list of output rows.
   `pick idx X` = the instances of X at positions idx, in the order of idx (Model.v); every
   reordering of X is `pick idx X` for an idx that is a permutation of 0..n-1 (theorem 1), a single
   instance is `pick [i] X`, a sub-selection is any valid idx.
   Learned estimators: the per-instance function f (which contains the fitted state) is abstract -
   the theorems hold for EVERY f; that the code is of this form is what the correspondence run
   samples (and theorem 7 shows which observations are enough).
   Closed-form transformers of C14: the map form is PROVED from C14's definitions (theorems 8-12),
   with the fitted parameter `tfit t pfit` computed from the training panel and then held fixed. *)
From Coq Require Import String QArith List Bool ZArith Arith Permutation.
Require Import SkV.Lib.Base SkV.C14.Model SkV.C16.Model SkV.C16.Proofs SkV.C16.Prog SkV.C16.Gen
  SkV.C16.Bridge.
Require SkV.C15.Model SkV.C15.Proofs.
Import ListNotations.
Open Scope nat_scope.

(* 1. reordering the instances reorders the rows identically - for every permutation *)
Theorem C16_permutation_equivariance : forall (I O : Type) (f : I -> O) (X X' : list I),
  Permutation X X' ->
  exists idx, Permutation idx (seq 0 (length X)) /\ X' = pick idx X /\
              apply_map f X' = pick idx (apply_map f X).
Proof. exact @map_perm_equivariance. Qed.
Print Assumptions C16_permutation_equivariance.

(* 2. ... stated with explicit index lists: any idx that is a permutation of 0..n-1 reorders the
      input, reorders the output in the same way, and keeps the (instance, row) pairs *)
Theorem C16_every_index_permutation : forall (I O : Type) (f : I -> O) (X : list I) idx,
  Permutation idx (seq 0 (length X)) ->
  Permutation X (pick idx X) /\
  apply_map f (pick idx X) = pick idx (apply_map f X) /\
  Permutation (combine X (apply_map f X)) (combine (pick idx X) (apply_map f (pick idx X))).
Proof. exact @map_index_permutation. Qed.
Print Assumptions C16_every_index_permutation.

(* 3. the output for a single instance equals the corresponding row of the batch output *)
Theorem C16_single_instance_equals_batch_row : forall (I O : Type) (f : I -> O) X i x,
  nth_error X i = Some x ->
  apply_map f [x] = [f x] /\ nth_error (apply_map f X) i = Some (f x) /\
  apply_map f [x] = pick [i] (apply_map f X).
Proof. exact @map_single. Qed.
Print Assumptions C16_single_instance_equals_batch_row.

(* 4. number and order of output rows equal those of the input *)
Theorem C16_row_count_and_order : forall (I O : Type) (f : I -> O) X,
  length (apply_map f X) = length X /\
  (forall i, nth_error (apply_map f X) i = option_map f (nth_error X i)).
Proof. exact @map_rows. Qed.
Print Assumptions C16_row_count_and_order.

(* 5. row i depends on instance i only: what else is in the batch does not matter *)
Theorem C16_rows_independent : forall (I O : Type) (f : I -> O) X X' i,
  nth_error X i = nth_error X' i -> nth_error (apply_map f X) i = nth_error (apply_map f X') i.
Proof. exact @map_independent. Qed.
Print Assumptions C16_rows_independent.

(* 6. sub-selections (any valid positions, repeats allowed) *)
Theorem C16_subselection : forall (I O : Type) (f : I -> O) X idx,
  valid_idx (length X) idx = true ->
  apply_map f (pick idx X) = pick idx (apply_map f X) /\
  length (apply_map f (pick idx X)) = length idx /\
  (forall k j, nth_error idx k = Some j ->
     nth_error (apply_map f (pick idx X)) k = nth_error (apply_map f X) j).
Proof. exact thm_subselection. Qed.
Print Assumptions C16_subselection.

(* 7. conversely: ANY function from instance lists to row lists that keeps the row count and whose
      batch rows equal its single-instance outputs is `map f` - so these two observations (made by
      the correspondence run on every row of every batch) are exactly what the map form means *)
Theorem C16_map_form_characterised : forall (I O : Type) (d : O) (A : list I -> list O),
  (exists f, forall X, A X = map f X) <->
  ((forall X, length (A X) = length X) /\
   (forall X i x, nth_error X i = Some x -> nth_error (A X) i = nth_error (A [x]) 0)).
Proof. exact @map_form_iff. Qed.
Print Assumptions C16_map_form_characterised.

(* 8. every closed-form transformer of C14 is batch validation followed by a per-instance map,
      and the validation is decided by single instances and pairs of instances *)
Theorem C16_closed_form_is_instancewise : forall t th,
  (forall p, tapply t th p = if tguard t th p then Ok (map (tfun t th) p) else Err) /\
  local_guard (fun i : inst => i <> []) (tguard t th) /\
  instancewise_on (fun i : inst => i <> []) (tapply t th) (tfun t th).
Proof. exact thm_closed_form_is_instancewise. Qed.
Print Assumptions C16_closed_form_is_instancewise.

(* 9. the two transformers whose fitted parameter is a statistic of the WHOLE training panel:
      pad-to-longest and truncate-to-shortest are computed at fit and applied per instance *)
Theorem C16_pad_and_truncate_are_instancewise : forall req fill lower upper pfit,
  pad_fit None pfit = max_len pfit /\ trunc_fit None pfit = min_len pfit /\
  instancewise_on (fun i : inst => i <> []) (pad_apply (pad_fit req pfit) fill)
                  (map (pad_series (pad_fit req pfit) fill)) /\
  instancewise_on (fun i : inst => i <> []) (trunc_apply (trunc_fit lower pfit) upper)
    (match upper with
     | None => map (slice 0 (trunc_fit lower pfit))
     | Some u => map (slice (trunc_fit lower pfit) u)
     end).
Proof. exact thm_pad_and_truncate_are_instancewise. Qed.
Print Assumptions C16_pad_and_truncate_are_instancewise.

(* 10. the other closed-form transformers, in C14's own terms *)
Theorem C16_other_closed_forms_are_instancewise :
  (forall m, instancewise_on (fun i : inst => i <> []) (interp_apply m) (map (interp_series m))) /\
  instancewise_on (fun i : inst => i <> []) (fun p => rows_as_panel (tabularize p))
                  (fun i => [tab_row i]) /\
  instancewise_on (fun i : inst => i <> []) col_concat (fun i => [tab_row i]) /\
  (forall m, instancewise_on (fun i : inst => i <> []) (paa_apply m) (map (paa_coded m))) /\
  (forall k pfit, instancewise_on (fun i : inst => i <> []) (iseg_int k pfit)
     (fun i => segment (split_bounds (first_len pfit) k) (only_col i))) /\
  (forall ivs, instancewise_on (fun i : inst => i <> []) (iseg_arr ivs)
     (fun i => segment ivs (only_col i))) /\
  (forall w, instancewise_on (fun i : inst => i <> []) (sliding_apply w)
     (fun i => sliding_coded w (only_col i))) /\
  (forall sf, instancewise_on (fun i : inst => i <> []) (row_s2s sf) (map (sfun_apply sf))) /\
  (forall g, instancewise_on (fun i : inst => i <> []) (fun p => rows_as_panel (row_s2p g p))
     (fun i => [map (pfun_apply g) i])).
Proof. exact thm_other_closed_forms_are_instancewise. Qed.
Print Assumptions C16_other_closed_forms_are_instancewise.

(* 10b. the random-interval feature extractor, given the intervals drawn at fit *)
Theorem C16_interval_features_are_instancewise : forall feats ivs,
  instancewise_on (fun i : inst => i <> []) (rife_apply feats ivs)
                  (fun i => rife_row feats ivs (only_col i)).
Proof. exact interval_features_are_instancewise. Qed.
Print Assumptions C16_interval_features_are_instancewise.

(* 11. consequences for ANY batch-validated estimator with a local acceptance test: an accepted
       batch stays accepted under selection / permutation / restriction to one instance, and the
       outputs are the selected rows *)
Theorem C16_validated_estimators : forall (I O : Type) (dom : I -> Prop)
    (A : list I -> res (list O)) (f : I -> O),
  instancewise_on dom A f ->
  forall X Y, (forall x, In x X -> dom x) -> A X = Ok Y ->
    (length Y = length X /\ forall i, nth_error Y i = option_map f (nth_error X i)) /\
    (forall idx, X <> [] -> idx <> [] -> valid_idx (length X) idx = true ->
       A (pick idx X) = Ok (pick idx Y)) /\
    (forall X', Permutation X X' ->
       exists idx, Permutation idx (seq 0 (length X)) /\ X' = pick idx X /\
                   A X' = Ok (pick idx Y)) /\
    (forall i x, nth_error X i = Some x -> A [x] = Ok [f x] /\ nth_error Y i = Some (f x)).
Proof. exact thm_validated_estimators. Qed.
Print Assumptions C16_validated_estimators.

(* 12. ... and concretely for the closed-form family, fitted on pfit *)
Theorem C16_closed_form_selection_permutation_single : forall t pfit X Y,
  (forall x, In x X -> x <> []) -> tapply t (tfit t pfit) X = Ok Y ->
  Y = map (tfun t (tfit t pfit)) X /\ length Y = length X /\
  (forall idx, X <> [] -> idx <> [] -> valid_idx (length X) idx = true ->
     tapply t (tfit t pfit) (pick idx X) = Ok (pick idx Y)) /\
  (forall X', Permutation X X' ->
     exists idx, Permutation idx (seq 0 (length X)) /\ X' = pick idx X /\
                 tapply t (tfit t pfit) X' = Ok (pick idx Y)) /\
  (forall i x, nth_error X i = Some x ->
     tapply t (tfit t pfit) [x] = Ok [tfun t (tfit t pfit) x] /\
     nth_error Y i = Some (tfun t (tfit t pfit) x)).
Proof. exact thm_closed_form_selection_permutation_single. Qed.
Print Assumptions C16_closed_form_selection_permutation_single.

(* 13. what must be held fixed: the fitted parameter.  Re-fitting on the single instance (i.e.
       fit_transform on a sub-panel) gives a different row; transform with the batch's fitted
       parameter gives the batch row *)
Theorem C16_fitted_parameter_must_be_held_fixed :
  let X := [[[1%Q; 2%Q; 3%Q]]; [[4%Q]]] in
  let x := [[4%Q]] in
  exists Y y, tapply (TPad None 0%Q) (tfit (TPad None 0%Q) X) X = Ok Y /\
              tapply (TPad None 0%Q) (tfit (TPad None 0%Q) [x]) [x] = Ok y /\
              y <> pick [1] Y /\
              tapply (TPad None 0%Q) (tfit (TPad None 0%Q) X) [x] = Ok (pick [1] Y).
Proof. exact refit_on_single_instance_differs. Qed.
Print Assumptions C16_fitted_parameter_must_be_held_fixed.

(* wf_rows n c T x := C15's wf_panel n c T (n_rows x): n >= 1 instances x c >= 1 variables x
   T >= 2 time points, rectangular. *)

(* 14. containers at apply time: the same data as a 3-D array or as a nested DataFrame, through
       check_X with any admissible coercion, gives the same rows *)
Theorem C16_container_irrelevant_at_apply : forall (V O : Type) n c T (x : K.nested V)
    (to_np to_pd : bool) (f : list (list V) -> O),
  wf_rows n c T x -> to_np && to_pd = false ->
  est_apply to_np to_pd f (K.RA (K.nested_to_3d x)) = est_apply to_np to_pd f (K.RN x) /\
  est_apply to_np to_pd f (K.RN x) = Ok (apply_map f (K.n_rows x)).
Proof. exact @apply_container_irrelevant. Qed.
Print Assumptions C16_container_irrelevant_at_apply.

(* 15. containers at fit time: the fitted state is the same *)
Theorem C16_container_irrelevant_at_fit : forall (V Y Th : Type) n c T (x : K.nested V)
    (to_np to_pd : bool) (fit : K.panel V -> Y -> Th) (y : Y),
  wf_rows n c T x -> to_np && to_pd = false ->
  est_fit to_np to_pd fit (K.RA (K.nested_to_3d x)) y = est_fit to_np to_pd fit (K.RN x) y /\
  est_fit to_np to_pd fit (K.RN x) y = Ok (fit (K.n_rows x) y).
Proof. exact @fit_container_irrelevant. Qed.
Print Assumptions C16_container_irrelevant_at_fit.

(* 16. apply (from_3d (to_3d X)) = apply X, for any column names / cell kind given to the
       conversion back (from C15's round-trip theorem); labels and cell kind are never read *)
Theorem C16_apply_after_container_roundtrip : forall (V O : Type) n c T (x : K.nested V)
    (to_np to_pd : bool) (f : list (list V) -> O) cn k,
  wf_rows n c T x -> to_np && to_pd = false ->
  est_apply to_np to_pd f (K.RN (K.a3_to_nested cn k (K.nested_to_3d x))) =
  est_apply to_np to_pd f (K.RN x).
Proof. exact @apply_after_roundtrip. Qed.
Print Assumptions C16_apply_after_container_roundtrip.

Theorem C16_labels_and_cell_kind_not_read : forall (V O : Type) (to_np to_pd : bool)
    (f : list (list V) -> O) k k' cols cols' rows,
  to_np && to_pd = false ->
  est_apply to_np to_pd f (K.RN (K.mkN k cols rows)) =
  est_apply to_np to_pd f (K.RN (K.mkN k' cols' rows)).
Proof. exact @apply_ignores_labels. Qed.
Print Assumptions C16_labels_and_cell_kind_not_read.

(* 17. the closed-form family on containers: same fitted parameter, same transform *)
Theorem C16_closed_form_container_irrelevant : forall t n c T (x : K.nested Q) n' c' T'
    (xfit : K.nested Q) (to_np to_pd : bool),
  wf_rows n c T x -> wf_rows n' c' T' xfit ->
  to_np && to_pd = false ->
  tfit_rep t to_np to_pd (K.RA (K.nested_to_3d xfit)) = tfit_rep t to_np to_pd (K.RN xfit) /\
  tfit_rep t to_np to_pd (K.RN xfit) = Ok (tfit t (K.n_rows xfit)) /\
  forall th, tapply_rep t th to_np to_pd (K.RA (K.nested_to_3d x)) =
             tapply_rep t th to_np to_pd (K.RN x) /\
             tapply_rep t th to_np to_pd (K.RN x) = tapply t th (K.n_rows x).
Proof. exact closed_form_container_irrelevant. Qed.
Print Assumptions C16_closed_form_container_irrelevant.

(* ---------------------------------------------------------------------------------------------- *)
(* panel programs (Prog.v) and the table regenerated from the code (Gen.v, Bridge.v)               *)

(* 18. every panel program is instancewise BY CONSTRUCTION: its batch-level denotation (loops over
       range(n), array operations along non-instance axes, zips, conversions, fitted members) is
       `map` of its row-level denotation - for every interpretation of the opaque symbols *)
Theorem C16_panel_programs_are_instancewise : forall (V Theta : Type)
    (interp : sym -> Theta -> tens V -> tens V) (cval : sym -> Theta -> tens V)
    (cond : sym -> Theta -> bool) (p : prog),
  exists f, forall th X, run V Theta interp cval cond p th X = map (f th) X.
Proof. exact prog_is_instancewise. Qed.
Print Assumptions C16_panel_programs_are_instancewise.

(* 19. what the extractor emits (`raw`: axis numbers, index tuples, shapes as written) becomes a
       program only through `compile`, which refuses every operation along the instance axis *)
Theorem C16_translatable_is_instancewise : forall (V Theta : Type)
    (interp : sym -> Theta -> tens V -> tens V) (cval : sym -> Theta -> tens V)
    (cond : sym -> Theta -> bool) (r : raw),
  translatable r = true ->
  exists p t, compile r = Some (t, p) /\ iax t = 0 /\
              forall th X, run V Theta interp cval cond p th X =
                           map (rowfun V Theta interp cval cond p th) X.
Proof. exact translatable_is_instancewise. Qed.
Print Assumptions C16_translatable_is_instancewise.

Theorem C16_instance_axis_operations_do_not_compile :
  compile (RAxisOp "mean"%string 0%Z (Some true) (RConv (CCheckX true false) RInput)) = None /\
  compile (RAxisOp "mean"%string (-3)%Z (Some true) (RConv (CCheckX true false) RInput)) = None /\
  compile (RSqueeze 0%Z (RConv (CCheckX true false) RInput)) = None /\
  compile (RIndex [IInt; IFull] RInput) = None /\
  compile (RConcat 0%Z [RInput; RInput]) = None /\
  compile (RMapRows "g"%string [RInput] [[IInt]]) = None /\
  compile (RMapRows "g"%string [RListOf RInput] [[IIdx]]) = None /\
  compile (RAlloc [DP; DP] "zeros"%string) = None /\
  translatable (RListOf RInput) = false /\
  translatable (RAxisOp "mean"%string (-1)%Z (Some true) (RConv (CCheckX true false) RInput)) = true.
Proof. repeat split; vm_compute; reflexivity. Qed.
Print Assumptions C16_instance_axis_operations_do_not_compile.

(* 20. the table regenerated from the apply-time methods of the code on THIS run: every entry
       marked Translated compiles with the instances along axis 0, delegates only to translated
       own methods, and all the expected methods are among them *)
Theorem C16_generated_table_checks :
  table_ok gen_table = true /\
  forallb (fun n => match lookup n gen_table with Some e => is_translated e | None => false end)
          expected_translated = true.
Proof. exact (conj gen_table_ok expected_are_translated). Qed.
Print Assumptions C16_generated_table_checks.

(* 21. hence every expected method (transform / predict / predict_proba as extracted) is row-wise *)
Theorem C16_expected_methods_are_instancewise : forall (V Theta : Type)
    (interp : sym -> Theta -> tens V -> tens V) (cval : sym -> Theta -> tens V)
    (cond : sym -> Theta -> bool) name,
  In name expected_translated ->
  exists r deps p t, lookup name gen_table = Some (Translated r deps) /\
                     compile r = Some (t, p) /\ iax t = 0 /\
                     forall th X, run V Theta interp cval cond p th X =
                                  map (rowfun V Theta interp cval cond p th) X.
Proof. exact expected_methods_instancewise. Qed.
Print Assumptions C16_expected_methods_are_instancewise.

(* 22. permutation / single instance / sub-selection / row count for every panel program *)
Theorem C16_program_corollaries : forall (V Theta : Type)
    (interp : sym -> Theta -> tens V -> tens V) (cval : sym -> Theta -> tens V)
    (cond : sym -> Theta -> bool) p th,
  (forall X X', Permutation X X' ->
     exists idx, Permutation idx (seq 0 (List.length X)) /\ X' = pick idx X /\
                 run V Theta interp cval cond p th X' = pick idx (run V Theta interp cval cond p th X)) /\
  (forall X i x, nth_error X i = Some x ->
     run V Theta interp cval cond p th [x] = [rowfun V Theta interp cval cond p th x] /\
     nth_error (run V Theta interp cval cond p th X) i = Some (rowfun V Theta interp cval cond p th x)) /\
  (forall X idx, run V Theta interp cval cond p th (pick idx X) =
                 pick idx (run V Theta interp cval cond p th X)) /\
  (forall X, List.length (run V Theta interp cval cond p th X) = List.length X).
Proof. exact program_corollaries. Qed.
Print Assumptions C16_program_corollaries.

(* 23. the conversions of the language are C15's *)
Theorem C16_program_conversions_are_c15 : forall (V : Type) n c T (x : K.nested V) cn k,
  wf_rows n c T x ->
  map (emb_series V) (K.nested_to_2d x) = conv_batch V CNestedTo2d (map (emb_row V) (K.n_rows x)) /\
  map (emb_row V) (K.nested_to_3d x) = conv_batch V CNestedTo3d (map (emb_row V) (K.n_rows x)) /\
  map (emb_row V) (K.n_rows (K.a3_to_nested cn k (K.nested_to_3d x))) =
    conv_batch V C3dToNested (map (emb_row V) (K.nested_to_3d x)).
Proof. exact conversions_are_c15. Qed.
Print Assumptions C16_program_conversions_are_c15.

(* the hypotheses are satisfiable: a real permutation of a 3-instance unequal-length panel, the
   padded batch, the padded permuted batch, a well-formed nested frame *)
Example C16_nonvacuous :
  Permutation [2; 0; 1] (seq 0 (length ex_panel)) /\
  pick [2; 0; 1] ex_panel = [[[6%Q]]; [[1%Q; 2%Q; 3%Q]]; [[4%Q; 5%Q]]] /\
  tapply (TPad None 0%Q) (tfit (TPad None 0%Q) ex_panel) ex_panel =
    Ok [[[1%Q; 2%Q; 3%Q]]; [[4%Q; 5%Q; 0%Q]]; [[6%Q; 0%Q; 0%Q]]] /\
  tapply (TPad None 0%Q) (tfit (TPad None 0%Q) ex_panel) (pick [2; 0; 1] ex_panel) =
    Ok (pick [2; 0; 1] [[[1%Q; 2%Q; 3%Q]]; [[4%Q; 5%Q; 0%Q]]; [[6%Q; 0%Q; 0%Q]]]) /\
  wf_rows 3 1 2 ex_nested.
Proof. exact ex_nonvacuous. Qed.
