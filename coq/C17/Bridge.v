(* C17 bridge: the function regenerated from sktime/utils/slope_and_trend.py::_slope on this run
   (Gen.gen_slope) equals the model's code_slope for ALL series, hence (Proofs.code_slope_is_ols)
   the least-squares slope for all series of length >= 2. *)
From Coq Require Import QArith List Bool ZArith Lia Lqa.
Require Import SkV.C17.Model SkV.C17.Proofs SkV.C17.Gen.
Import ListNotations.
Open Scope Q_scope.

Notation eql := (Forall2 Qeq).

Lemma eql_refl l : eql l l.
Proof. induction l; constructor; [reflexivity|assumption]. Qed.

Lemma times_from_eql : forall n k k', k == k' -> eql (times_from k n) (times_from k' n).
Proof.
  induction n as [|n IH]; intros k k' H; cbn [times_from]; constructor; [exact H|].
  apply IH. rewrite H. reflexivity.
Qed.

Lemma eql_trans a b c : eql a b -> eql b c -> eql a c.
Proof.
  intros H. revert c. induction H as [|x y a b Hxy _ IH]; intros c Hc; inversion Hc; subst;
    constructor.
  - rewrite Hxy. assumption.
  - apply IH. assumption.
Qed.

(* np.arange(n) + 1 is the time index 1..n *)
Lemma arange_shift : forall n k c, eql (vaddc (times_from k n) c) (times_from (k + c) n).
Proof.
  unfold vaddc. induction n as [|n IH]; intros k c; cbn [times_from map]; constructor.
  - reflexivity.
  - eapply eql_trans; [apply IH|]. apply times_from_eql. ring.
Qed.

Lemma qsum_eql a b : eql a b -> qsum a == qsum b.
Proof.
  induction 1 as [|x y a b Hxy _ IH]; [reflexivity|]. rewrite !qsum_cons, Hxy, IH. reflexivity.
Qed.
Lemma qlen_eql (a b : list Q) : eql a b -> qlen a == qlen b.
Proof.
  intro H. unfold qlen. assert (E : length a = length b).
  { induction H; cbn; congruence. }
  rewrite E. reflexivity.
Qed.
Lemma qmean_eql a b : eql a b -> qmean a == qmean b.
Proof. intro H. unfold qmean. rewrite (qsum_eql a b H), (qlen_eql a b H). reflexivity. Qed.
Lemma vmul_eql a a' b b' : eql a a' -> eql b b' -> eql (vmul a b) (vmul a' b').
Proof.
  unfold vmul. intro H. revert b b'. induction H as [|x y a a' Hxy _ IH]; intros b b' Hb.
  - constructor.
  - inversion Hb; subst; [constructor|]. rewrite !map2_cons. constructor.
    + rewrite Hxy, H. reflexivity.
    + apply IH. assumption.
Qed.

Theorem gen_slope_is_code_slope ys : gen_slope ys == code_slope ys.
Proof.
  unfold gen_slope, code_slope, arange. cbv zeta.
  assert (Hx : eql (vaddc (times_from 0 (length ys)) (inject_Z 1)) (times_from 1 (length ys))).
  { eapply eql_trans; [apply arange_shift|]. apply times_from_eql. reflexivity. }
  rewrite (qmean_eql _ _ Hx).
  rewrite (qmean_eql _ _ (vmul_eql _ _ _ _ (eql_refl ys) Hx)).
  rewrite (qmean_eql _ _ (vmul_eql _ _ _ _ Hx Hx)).
  reflexivity.
Qed.

Theorem gen_slope_is_ols ys : (2 <= length ys)%nat -> gen_slope ys == ols_slope ys.
Proof.
  intro H. rewrite gen_slope_is_code_slope. apply code_slope_is_ols. exact H.
Qed.
