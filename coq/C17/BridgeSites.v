(* C17 bridge for the combination sites: the definitions regenerated on this run by
   translator/combine_c17.py (build/coq/C17/Sites.v) from the classifiers' predict_proba / predict
   functions ARE the model's combinators, for all arguments:

     gen_tsf_combine / gen_stsf_combine / gen_rise_combine / gen_colens_combine   = mean_rows
     gen_tsfreg_combine                                                           = qmean
     gen_tsf_predict / gen_stsf_predict / gen_rise_predict                        = predict_label
     gen_stsf_tree_row  (the repaired _predict_proba_for_estimator)               = place_row
     gen_boss_row / gen_cboss_row / gen_iboss_row                                 = vote_row
     gen_interval_features                                                        = interval_features
     gen_one_interval                                                             = one step of get_intervals

   An edit of the divisor, of what is summed, of the arg-max decoding, of the placement of a
   bootstrap tree's columns, of the vote increment or normaliser, of the feature order or of the
   interval arithmetic makes one of these lemmas fail (or the translator raise). *)
From Coq Require Import QArith Qabs List Bool ZArith Lia Lqa Sorted ZifyBool.
Require Import SkV.C17.Model SkV.C17.Proofs SkV.C17.Sites.
Import ListNotations.
Open Scope Q_scope.

Notation eqlq := (Forall2 Qeq).

Lemma map_div_eqlq (l : list Q) c c' : c == c' ->
  eqlq (map (fun s => s / c) l) (map (fun s => s / c') l).
Proof.
  intro H. induction l as [|a l IH]; cbn [map]; constructor; [|exact IH].
  rewrite H. reflexivity.
Qed.

Lemma eqlq_refl_ l : eqlq l l.
Proof. induction l; constructor; [reflexivity|assumption]. Qed.

Lemma map_ext_eqlq {A} (f g : A -> Q) l : (forall a, f a == g a) -> eqlq (map f l) (map g l).
Proof. intro H. induction l as [|a l IH]; cbn [map]; constructor; [apply H|exact IH]. Qed.

(* ---------------------------------------------------------------- the averaging ensembles *)

Lemma gen_tsf_combine_is_mean_rows k rows : eqlq (gen_tsf_combine k rows) (mean_rows k rows).
Proof. unfold gen_tsf_combine, mean_rows. first [apply eqlq_refl_ | apply map_div_eqlq; ring]. Qed.

Lemma gen_stsf_combine_is_mean_rows k rows : eqlq (gen_stsf_combine k rows) (mean_rows k rows).
Proof. unfold gen_stsf_combine, mean_rows. first [apply eqlq_refl_ | apply map_div_eqlq; ring]. Qed.

Lemma eqlq_refl l : eqlq l l.
Proof. induction l; constructor; [reflexivity|assumption]. Qed.

(* (semantic: any divisor that equals the number of members proves, not only the same text) *)
Lemma gen_rise_combine_is_mean_rows k rows : eqlq (gen_rise_combine k rows) (mean_rows k rows).
Proof.
  unfold gen_rise_combine, mean_rows.
  first [apply eqlq_refl | apply map_div_eqlq; ring].
Qed.

Lemma gen_colens_combine_is_mean_rows k rows : eqlq (gen_colens_combine k rows) (mean_rows k rows).
Proof.
  unfold gen_colens_combine, mean_rows.
  first [apply eqlq_refl | apply map_div_eqlq; ring].
Qed.

Lemma gen_tsfreg_combine_is_model forest x :
  gen_tsfreg_combine (map (fun m => snd m (tsf_features (fst m) x)) forest) == tsf_reg_predict forest x.
Proof.
  (* semantic: mean, or sum divided by anything equal to the number of trees *)
  unfold gen_tsfreg_combine, tsf_reg_predict, qmean.
  first [ reflexivity | apply Qdiv_comp; [reflexivity|ring] ].
Qed.

(* time series forest (trees fitted on the whole training set: every tree carries classes_):
   the generated combination of the trees' own rows is the model's forest row *)
Lemma gen_tsf_proba_is_model {L} (eqb : L -> L -> bool) :
  (forall a b, eqb a b = true <-> a = b) ->
  forall classes (forest : list (fmember L)) x, NoDup classes ->
  (forall m, In m forest -> tree_classes m = classes /\ length (tree_row m x) = length classes) ->
  eqlq (gen_tsf_combine (length classes) (map (fun m => tree_row m x) forest))
       (tsf_proba eqb classes forest x).
Proof.
  intros Hspec classes forest x Hnd H.
  rewrite (tsf_proba_full_trees L eqb Hspec classes forest x Hnd H).
  apply gen_tsf_combine_is_mean_rows.
Qed.

(* ---------------------------------------------------------------- label decoding *)

Lemma gen_predict_is_predict_label {L} (classes : list L) row :
  gen_tsf_predict L classes row = predict_label classes row /\
  gen_stsf_predict L classes row = predict_label classes row /\
  gen_rise_predict L classes row = predict_label classes row.
Proof. repeat split; reflexivity. Qed.

(* ---------------------------------------------------------------- a bootstrap tree's columns *)

Section Place.
  Variable L : Type.
  Variable leb eqb : L -> L -> bool.
  Hypothesis eqb_spec : forall a b, eqb a b = true <-> a = b.
  Hypothesis leb_total : forall a b, leb a b = true \/ leb b a = true.
  Hypothesis leb_trans : forall a b c, leb a b = true -> leb b c = true -> leb a c = true.
  Hypothesis leb_antisym : forall a b, leb a b = true -> leb b a = true -> a = b.

  Notation lt := (llt L leb).

  Lemma lt_irrefl_pair a b : lt a b -> lt b a -> False.
  Proof. intros [H1 N1] [H2 _]. apply N1. apply leb_antisym; assumption. Qed.

  (* two strictly increasing lists with the same elements are the same list *)
  Lemma sorted_same_set_eq : forall a b, StronglySorted lt a -> StronglySorted lt b ->
    (forall z, In z a <-> In z b) -> a = b.
  Proof.
    induction a as [|x a IH]; intros [|y b] Ha Hb Hs.
    - reflexivity.
    - exfalso. apply (proj2 (Hs y)). left. reflexivity.
    - exfalso. apply (proj1 (Hs x)). left. reflexivity.
    - inversion Ha as [|? ? Ha' Hxa]; subst. inversion Hb as [|? ? Hb' Hyb]; subst.
      rewrite Forall_forall in Hxa, Hyb.
      assert (E : x = y).
      { destruct (proj1 (Hs x) (or_introl eq_refl)) as [E|Hx]; [congruence|].
        destruct (proj2 (Hs y) (or_introl eq_refl)) as [E|Hy]; [congruence|].
        exfalso. apply (lt_irrefl_pair x y); [apply Hxa; exact Hy|apply Hyb; exact Hx]. }
      subst y. f_equal. apply IH; [exact Ha'|exact Hb'|]. intro z. split; intro Hz.
      + destruct (proj1 (Hs z) (or_intror Hz)) as [E|Hz']; [|exact Hz'].
        subst z. exfalso. destruct (Hxa x Hz) as [_ N]. congruence.
      + destruct (proj2 (Hs z) (or_intror Hz)) as [E|Hz']; [|exact Hz'].
        subst z. exfalso. destruct (Hyb x Hz) as [_ N]. congruence.
  Qed.

  (* a sorted sub-list as long as the sorted list is the list *)
  Lemma sorted_incl_same_length_eq tcls classes :
    StronglySorted lt tcls -> StronglySorted lt classes -> incl tcls classes ->
    length tcls = length classes -> tcls = classes.
  Proof.
    intros Ht Hc Hin Hl. apply sorted_same_set_eq; [exact Ht|exact Hc|]. intro z. split.
    - apply Hin.
    - apply (NoDup_length_incl (sorted_nodup L leb tcls Ht)); [lia|exact Hin].
  Qed.

  (* SupervisedTimeSeriesForest._predict_proba_for_estimator as regenerated: whatever classes the
     tree's bootstrap bag contained, the row it contributes is its own row placed by label *)
  Lemma gen_stsf_tree_row_is_place_row classes tcls row :
    StronglySorted lt classes -> StronglySorted lt tcls -> incl tcls classes ->
    length row = length tcls ->
    gen_stsf_tree_row L eqb classes tcls row = place_row eqb classes tcls row.
  Proof.
    intros Hc Ht Hin Hl. unfold gen_stsf_tree_row.
    destruct (Nat.eqb (length row) (length classes)) eqn:E; [|reflexivity].
    apply Nat.eqb_eq in E.
    assert (Et : tcls = classes) by (apply sorted_incl_same_length_eq; try assumption; lia).
    subst tcls. symmetry. apply place_row_same; [exact eqb_spec| |exact E].
    apply (sorted_nodup L leb). exact Hc.
  Qed.

  (* ... hence the repaired forest row is the model's: mean over the trees of the placed rows *)
  Lemma gen_stsf_proba_is_model classes (forest : list (fmember L)) x :
    StronglySorted lt classes ->
    (forall m, In m forest -> StronglySorted lt (tree_classes m) /\ incl (tree_classes m) classes /\
                              length (tree_row m x) = length (tree_classes m)) ->
    eqlq (gen_stsf_combine (length classes)
            (map (fun m => gen_stsf_tree_row L eqb classes (tree_classes m) (tree_row m x)) forest))
         (tsf_proba eqb classes forest x).
  Proof.
    intros Hc H. unfold tsf_proba, tsf_member_outputs.
    assert (E : map (fun m => gen_stsf_tree_row L eqb classes (tree_classes m) (tree_row m x)) forest =
                map (fun m => place_row eqb classes (tree_classes m) (tree_row m x)) forest).
    { apply map_ext_in. intros m Hm. destruct (H m Hm) as (H1 & H2 & H3).
      apply gen_stsf_tree_row_is_place_row; assumption. }
    rewrite E. apply gen_stsf_combine_is_mean_rows.
  Qed.
End Place.

(* ---------------------------------------------------------------- the vote counters *)

Section Votes.
  Variable L : Type.
  Variable eqb : L -> L -> bool.

  (* ContractableBOSS: increment = the member's weight, normaliser = weight_sum = sum(weights) *)
  Lemma gen_cboss_row_is_vote_row classes vs denom : denom == total_weight vs ->
    eqlq (gen_cboss_row L eqb classes vs denom) (vote_row eqb classes vs).
  Proof.
    (* semantic: any normaliser equal to the total weight proves *)
    intro H. unfold gen_cboss_row, vote_row. rewrite map_map. apply map_ext_eqlq.
    intro c. apply Qdiv_comp; [reflexivity|]. rewrite H. ring.
  Qed.

  Lemma total_weight_ones vs : Forall (fun v : L * Q => snd v == 1) vs -> total_weight vs == qlen vs.
  Proof.
    unfold total_weight. induction 1 as [|v vs Hv _ IH]; [reflexivity|].
    cbn [map]. rewrite qsum_cons, IH, Hv, qlen_cons. ring.
  Qed.

  (* BOSSEnsemble: increment 1, normaliser = n_estimators = len(classifiers) = number of votes *)
  Lemma gen_boss_row_is_vote_row classes vs : Forall (fun v : L * Q => snd v == 1) vs ->
    eqlq (gen_boss_row L eqb classes vs (qlen vs)) (vote_row eqb classes vs).
  Proof.
    intro H. unfold gen_boss_row, vote_row. rewrite map_map. apply map_ext_eqlq.
    intro c. apply Qdiv_comp; [reflexivity|]. rewrite (total_weight_ones vs H). ring.
  Qed.

  (* IndividualBOSS: the one-hot row of its own prediction = the vote row of a single member *)
  Lemma gen_iboss_row_is_vote_row classes pred :
    eqlq (gen_iboss_row L eqb classes pred) (vote_row eqb classes [(pred, 1)]).
  Proof.
    unfold gen_iboss_row, vote_row. apply map_ext_eqlq. intro c.
    unfold weight_for, total_weight. cbn [filter map fst snd].
    destruct (eqb pred c); cbn [map snd]; compute; reflexivity.
  Qed.
End Votes.

(* ---------------------------------------------------------------- column ensemble: its members *)

(* _iter(replace_strings=True), as regenerated, hands an entry out iff it is neither 'drop' nor
   without columns (semantic: any nesting / merging of the two tests proves); without
   replace_strings every entry is handed out *)
Lemma gen_colens_yields_spec d e :
  gen_colens_yields true d e = negb d && negb e /\ gen_colens_yields false d e = true.
Proof. unfold gen_colens_yields. destruct d, e; split; reflexivity. Qed.

Lemma gen_colens_yields_is_member e :
  gen_colens_yields true (entry_is_drop e) (entry_is_empty e) = entry_is_member e.
Proof.
  rewrite (proj1 (gen_colens_yields_spec _ _)).
  destruct e as [[|c cs]|[|c cs] f]; reflexivity.
Qed.

(* the model's fitted members are the entries _iter hands out *)
Lemma fitted_members_are_the_entries_handed_out spec :
  length (fitted_members spec) =
  length (filter (fun e => gen_colens_yields true (entry_is_drop e) (entry_is_empty e)) spec).
Proof.
  induction spec as [|e spec IH]; [reflexivity|].
  cbn [filter]. rewrite gen_colens_yields_is_member.
  change (fitted_members (e :: spec)) with (fitted_members ([e] ++ spec)).
  rewrite fitted_members_app, app_length, IH.
  destruct e as [cols|[|c cs] f]; reflexivity.
Qed.

(* once fitted, the ensemble iterates over estimators_ only (F-C17-3, repaired) *)
Lemma gen_colens_fitted_iterates_fitted_only_holds : gen_colens_fitted_iterates_fitted_only = true.
Proof. reflexivity. Qed.

(* ---------------------------------------------------------------- cBOSS weights *)

(* the weight ContractableBOSS.fit gives a member (as regenerated) is positive for EVERY train
   accuracy - also 0, where accuracy^4 alone would leave the ensemble without any vote mass
   (F-C17-2, repaired) *)
Lemma gen_cboss_weight_pos acc : 0 < gen_cboss_weight acc.
Proof.
  unfold gen_cboss_weight. cbv zeta.
  destruct (Qeq_bool (acc * acc * acc * acc) 0) eqn:E; [reflexivity|].
  apply Qeq_bool_neq in E.
  assert (H : 0 <= acc * acc * acc * acc).
  { assert (E2 : acc * acc * acc * acc == (acc * acc) * (acc * acc)) by ring.
    rewrite E2. apply sq_nonneg. }
  destruct (Qlt_le_dec 0 (acc * acc * acc * acc)) as [Hlt|Hle]; [exact Hlt|].
  exfalso. apply E. lra.
Qed.

Lemma total_weight_pos {L} (vs : list (L * Q)) :
  vs <> [] -> Forall (fun v => 0 < snd v) vs -> 0 < total_weight vs.
Proof.
  unfold total_weight. intros Hne H. destruct vs as [|v vs]; [congruence|].
  inversion H as [|? ? Hv Hvs]; subst. cbn [map]. rewrite qsum_cons.
  assert (0 <= qsum (map snd vs)).
  { apply qsum_nonneg. apply Forall_forall. intros p Hp. apply in_map_iff in Hp.
    destruct Hp as (u & <- & Hu). rewrite Forall_forall in Hvs. specialize (Hvs u Hu). lra. }
  lra.
Qed.

(* hence a fitted ContractableBOSS with at least one member returns a probability row whatever its
   members' train accuracies and votes are *)
Lemma cboss_row_is_distribution {L} (eqb : L -> L -> bool) :
  (forall a b, eqb a b = true <-> a = b) ->
  forall classes (members : list (L * Q)),      (* (the member's vote, its train accuracy) *)
  members <> [] -> NoDup classes -> (forall m, In m members -> In (fst m) classes) ->
  is_dist (length classes)
    (vote_row eqb classes (map (fun m => (fst m, gen_cboss_weight (snd m))) members)).
Proof.
  intros Hspec classes members Hne Hnd Hin.
  set (vs := map (fun m => (fst m, gen_cboss_weight (snd m))) members).
  assert (Hpos : Forall (fun v : L * Q => 0 < snd v) vs).
  { apply Forall_forall. intros v Hv. apply in_map_iff in Hv. destruct Hv as (m & <- & _).
    cbn [snd]. apply gen_cboss_weight_pos. }
  apply (votes_normalised_is_distribution L eqb Hspec); [exact Hnd| | |].
  - intros v Hv. apply in_map_iff in Hv. destruct Hv as (m & <- & Hm). cbn [fst]. apply Hin. exact Hm.
  - eapply Forall_impl; [|exact Hpos]. intros v Hv. cbn beta in Hv. lra.
  - apply total_weight_pos; [|exact Hpos]. unfold vs. destruct members; [congruence|discriminate].
Qed.

(* ---------------------------------------------------------------- forest features, intervals *)

Lemma gen_interval_features_is_model x iv : gen_interval_features x iv = interval_features x iv.
Proof. reflexivity. Qed.

Lemma gen_one_interval_is_get_intervals_step n mi sl d1 d2 rest :
  get_intervals (S n) mi sl (d1 :: d2 :: rest) =
  gen_one_interval mi sl d1 d2 :: get_intervals n mi sl rest.
Proof.
  (* semantic: the two ends are compared as integers, whatever the shape of the source's
     conditional (if / conditional expression / max) *)
  cbn [get_intervals]. unfold gen_one_interval. cbv zeta.
  first [ reflexivity
        | f_equal; f_equal; try reflexivity;
          repeat match goal with |- context [if ?c then _ else _] => destruct c eqn:? end; lia ].
Qed.
