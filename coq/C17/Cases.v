(* C17 correspondence: every case carries the fitted members' own per-instance outputs (read from
   the fitted object by the harness) AND what the classifier itself returned; `check` recomputes
   predict_proba / predict / score from the members with the model, exactly in Q, and compares.
   Floats are embedded as exact rationals; tolerances: 1e-9 (absolute on the scale max(1,|a|,|b|))
   for float64 results, 1e-5 for the forest features, which the code stores as float32. *)
From Coq Require Import QArith Qabs List Bool ZArith.
Require Import SkV.C17.Model.
Import ListNotations.
Open Scope Q_scope.

Definition tol : Q := 1 # 1000000000.
Definition tol32 : Q := 1 # 100000.
Definition qmaxq (a b : Q) : Q := if Qle_bool a b then b else a.
Definition approx_t (t a b : Q) : bool :=
  Qle_bool (Qabs (Qred (a - b))) (t * qmaxq 1 (qmaxq (Qabs a) (Qabs b))).
Definition approx := approx_t tol.

Fixpoint approx_list_t (t : Q) (a b : list Q) : bool :=
  match a, b with
  | [], [] => true
  | x :: a', y :: b' => approx_t t x y && approx_list_t t a' b'
  | _, _ => false
  end.
Definition approx_list := approx_list_t tol.

Fixpoint labels_eqb (a b : list label) : bool :=
  match a, b with
  | [], [] => true
  | x :: a', y :: b' => label_eqb x y && labels_eqb a' b'
  | _, _ => false
  end.

(* the members' outputs for ONE instance *)
Inductive inst_members :=
  | IVotes (vs : list (label * Q))        (* (member's predicted label, member's weight) *)
  | IRows (rows : list (list Q))          (* member's probability row, columns = classes_ *)
  | ITrees (ts : list (list label * list Q)).
      (* forests: per tree (the tree's OWN classes_, the tree's own probability row over them) *)
Record inst := mkinst { i_mem : inst_members; i_proba : list Q; i_pred : label }.

(* how the classifier picks among maximal entries *)
Inductive tie := FirstMax | AnyMax | NearMax.

Record clf_case := mkclf {
  c_ytrain : list label; c_classes : list label; c_tie : tie; c_insts : list inst;
  c_ytest : list label; c_score : Q }.

Definition model_row (classes : list label) (m : inst_members) : list Q :=
  match m with
  | IVotes vs => vote_row label_eqb classes vs
  | IRows rows => mean_rows (length classes) rows
  | ITrees ts => mean_rows (length classes)
                   (map (fun t => place_row label_eqb classes (fst t) (snd t)) ts)
  end.

(* hypotheses of the forest theorem, checked on the recorded trees: a tree's row has one entry per
   class of the tree, and the tree's classes are classes of the forest *)
Definition members_wf (classes : list label) (m : inst_members) : bool :=
  match m with
  | ITrees ts => forallb (fun t => Nat.eqb (length (snd t)) (length (fst t)) &&
                                   forallb (fun c => existsb (label_eqb c) classes) (fst t)) ts
  | _ => true
  end.

Definition pred_ok (t : tie) (classes : list label) (row : list Q) (p : label) : bool :=
  match t with
  | FirstMax => match predict_label classes row with Some l => label_eqb l p | None => false end
  | AnyMax => match prob_of label_eqb classes row p with
              | Some q => Qeq_bool q (qmax_list row) | None => false end
  | NearMax => match prob_of label_eqb classes row p with
               | Some q => Qle_bool (qmax_list row) (q + tol) | None => false end
  end.

Definition inst_ok (t : tie) (classes : list label) (i : inst) : bool :=
  members_wf classes (i_mem i) &&
  approx_list (model_row classes (i_mem i)) (i_proba i) && pred_ok t classes (i_proba i) (i_pred i).

Definition clf_ok (c : clf_case) : bool :=
  labels_eqb (classes_of label_leb label_eqb (c_ytrain c)) (c_classes c) &&
  forallb (inst_ok (c_tie c) (c_classes c)) (c_insts c) &&
  approx (accuracy label_eqb (map i_pred (c_insts c)) (c_ytest c)) (c_score c).

(* forest features: impl row = [mean; std; slope] per interval, float32 *)
Fixpoint feat_ok (model impl : list Q) : bool :=
  match model, impl with
  | [], [] => true
  | m :: v :: s :: mt, m' :: sd :: s' :: it =>
      approx_t tol32 m m' && Qle_bool 0 sd && approx_t tol32 v (sd * sd) && approx_t tol32 s s' &&
      feat_ok mt it
  | _, _ => false
  end.

Fixpoint ivs_eqb (a b : list interval) : bool :=
  match a, b with
  | [], [] => true
  | (s, e) :: a', (s', e') :: b' => Z.eqb s s' && Z.eqb e e' && ivs_eqb a' b'
  | _, _ => false
  end.

Inductive case :=
  | CClf (c : clf_case) (feats : list (list Q * list interval * list Q))
      (* feats (time series forest only): raw series, a tree's intervals, its _transform row *)
  | CReg (rows : list (list Q * Q))                  (* per instance: tree predictions, predict *)
  | CSlope (ys : list Q) (impl : Q)
  | CFeat (x : list Q) (ivs : list interval) (impl : list Q)
  | CIntervals (ni : nat) (mi sl : Z) (draws : list Z) (impl : list interval).

Definition check (c : case) : bool :=
  match c with
  | CClf cc feats =>
      clf_ok cc &&
      forallb (fun f => feat_ok (tsf_features (snd (fst f)) (fst (fst f))) (snd f)) feats
  | CReg rows => forallb (fun r => approx (qmean (fst r)) (snd r)) rows
  | CSlope ys v => approx (code_slope ys) v && approx (ols_slope ys) v
  | CFeat x ivs impl => feat_ok (tsf_features ivs x) impl
  | CIntervals ni mi sl draws impl => ivs_eqb (get_intervals ni mi sl draws) impl
  end.

(* what the model says, for replay files *)
Definition model_says (c : case) :=
  match c with
  | CClf cc _ => (classes_of label_leb label_eqb (c_ytrain cc),
                map (fun i => map Qred (model_row (c_classes cc) (i_mem i))) (c_insts cc),
                [Qred (accuracy label_eqb (map i_pred (c_insts cc)) (c_ytest cc))])
  | CReg rows => ([], [map (fun r => Qred (qmean (fst r))) rows], [])
  | CSlope ys _ => ([], [[Qred (code_slope ys)]], [])
  | CFeat x ivs _ => ([], [map Qred (tsf_features ivs x)], [])
  | CIntervals ni mi sl draws _ =>
      ([], [map (fun iv => inject_Z (fst iv)) (get_intervals ni mi sl draws);
            map (fun iv => inject_Z (snd iv)) (get_intervals ni mi sl draws)], [])
  end.

Fixpoint mism (cs : list (Z * case)) : list Z :=
  match cs with
  | [] => []
  | (i, c) :: t => if check c then mism t else i :: mism t
  end.
