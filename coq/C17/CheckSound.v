From Coq Require Import QArith Qabs List Bool ZArith Lia Lqa Sorted.
Require Import SkV.C17.Model SkV.C17.Proofs SkV.C17.Cases.
Import ListNotations.
Open Scope Q_scope.

(* C17: soundness of the case checker (Cases.pred_ok):
   whenever `pred_ok` accepts an implementation's (probability row, predicted label) pair, the
   label is one of classes_ and attains the row's maximum (within tol for the NearMax rule used
   for MUSE, whose predict does not go through its own predict_proba) - also for the BOSS family,
   which breaks ties among maximal entries at random *)
Definition slack (t : tie) : Q := match t with NearMax => tol | _ => 0 end.

Lemma pred_ok_sound t classes row p :
  NoDup classes -> length row = length classes -> pred_ok t classes row p = true ->
  exists q, prob_of label_eqb classes row p = Some q /\ In p classes /\
            forall q', In q' row -> q' <= q + slack t.
Proof.
  intros Hnd Hlen H. destruct t; cbn [pred_ok slack] in *.
  - unfold predict_label in H.
    destruct (nth_error classes (argmax_first row)) as [l|] eqn:El; [|discriminate].
    apply label_eqb_spec in H. subst l.
    assert (Hr : row <> []).
    { intro E. subst row. destruct classes; [destruct (argmax_first []); discriminate|discriminate]. }
    destruct (argmax_first_spec row Hr) as (q & Hq & Hmax & _).
    exists q. split; [|split].
    + eapply (prob_of_nth label label_eqb label_eqb_spec); eauto.
    + eapply nth_error_In. exact El.
    + intros q' Hq'. specialize (Hmax q' Hq'). lra.
  - destruct (prob_of label_eqb classes row p) as [q|] eqn:Eq; [|discriminate].
    apply Qeq_bool_iff in H.
    destruct (prob_of_in label label_eqb label_eqb_spec classes row p q Eq) as [Hin Hq].
    assert (Hr : row <> []) by (intro E; subst row; destruct Hq).
    destruct (qmax_list_spec row Hr) as [_ Hmax].
    exists q. split; [reflexivity|]. split; [exact Hin|].
    intros q' Hq'. specialize (Hmax q' Hq'). lra.
  - destruct (prob_of label_eqb classes row p) as [q|] eqn:Eq; [|discriminate].
    apply Qle_bool_iff in H.
    destruct (prob_of_in label label_eqb label_eqb_spec classes row p q Eq) as [Hin Hq].
    assert (Hr : row <> []) by (intro E; subst row; destruct Hq).
    destruct (qmax_list_spec row Hr) as [_ Hmax].
    exists q. split; [reflexivity|]. split; [exact Hin|].
    intros q' Hq'. specialize (Hmax q' Hq'). lra.
Qed.
