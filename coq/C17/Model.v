(* C17 model: how time-series classifiers COMBINE their fitted members' outputs into class
   probabilities, predictions and a score.  Executable definitions only, exact arithmetic in Q.

   The fitted members (1-NN BOSS members, decision trees, the logistic pipeline of MUSE, the member
   classifiers of a column ensemble) are ORACLES: the model takes their per-instance outputs as
   data (functions in the theorems, recorded values in the correspondence run).  What is modelled:

     vote_row          BOSSEnsemble / ContractableBOSS / IndividualBOSS.predict_proba: every member
                       votes for its predicted label with its weight (1 for BOSS), the vote mass of
                       class c is divided by the total weight; column j belongs to classes_[j]
     mean_rows         TimeSeriesForest / RISE / STSF (sum of per-tree predict_proba / n_estimators)
                       and ColumnEnsembleClassifier (np.average over members, axis 0)
     place_row         a tree fitted on a bootstrap bag (SupervisedTimeSeriesForest) knows only the
                       classes of its bag and returns one column per class of ITS OWN classes_; each
                       column is placed under the forest's class of the same label, 0 elsewhere
                       (for a tree that saw every class this is the identity)
     classes_of        classes_ = sorted distinct training labels (np.unique / class_distribution /
                       LabelEncoder), over an arbitrary label type with a total order
     argmax_first      np.argmax: index of the FIRST maximal entry
     predict_label     classes_[argmax]
     accuracy          sklearn accuracy_score(normalize=True): matches / n
     tsf_features      _transform of the forest base class: per fitted interval [s, e) the mean, the
                       population variance (np.std is its square root; the root is not rational, the
                       correspondence checks std_impl >= 0 and std_impl^2 ~ variance) and the slope
     code_slope        utils/slope_and_trend._slope as written (moment form); regenerated as
                       Gen.gen_slope and proved equal in Bridge.v; ols_slope is the centred closed form
     get_intervals     _get_intervals replayed on a scripted list of rng draws
     tsf_proba / tsf_reg_predict / colens_proba  the ensembles over abstract fitted members *)
From Coq Require Import QArith Qabs List Bool ZArith.
Import ListNotations.
Open Scope Q_scope.

(* ---------------------------------------------------------------- sums and means *)

Definition qsum (l : list Q) : Q := fold_right Qplus 0 l.
Definition qlen {A : Type} (l : list A) : Q := inject_Z (Z.of_nat (length l)).
Definition qmean (l : list Q) : Q := qsum l / qlen l.

Definition map2 {A B C} (f : A -> B -> C) (l1 : list A) (l2 : list B) : list C :=
  map (fun p => f (fst p) (snd p)) (combine l1 l2).

(* pointwise sum of rows of width k, and the column-wise mean *)
Fixpoint vadd (a b : list Q) : list Q :=
  match a, b with
  | x :: a', y :: b' => (x + y) :: vadd a' b'
  | _, _ => []
  end.
Definition vsum (k : nat) (rows : list (list Q)) : list Q := fold_right vadd (repeat 0 k) rows.
Definition mean_rows (k : nat) (rows : list (list Q)) : list Q :=
  map (fun s => s / qlen rows) (vsum k rows).

(* np.argmax: first maximal entry *)
Fixpoint argmax_from (best : Q) (besti i : nat) (row : list Q) : nat :=
  match row with
  | [] => besti
  | x :: t => if Qle_bool x best then argmax_from best besti (S i) t
              else argmax_from x i (S i) t
  end.
Definition argmax_first (row : list Q) : nat :=
  match row with [] => O | x :: t => argmax_from x O 1%nat t end.

Definition qmax_list (row : list Q) : Q :=
  match row with [] => 0 | x :: t => fold_left (fun m y => if Qle_bool y m then m else y) t x end.

(* ---------------------------------------------------------------- labels of any type *)

Section Labels.
  Variable L : Type.
  Variable leb : L -> L -> bool.   (* the order np.unique sorts by *)
  Variable eqb : L -> L -> bool.

  Fixpoint insert (x : L) (l : list L) : list L :=
    match l with
    | [] => [x]
    | y :: t => if eqb x y then l else if leb x y then x :: l else y :: insert x t
    end.
  (* classes_: sorted distinct training labels *)
  Definition classes_of (ys : list L) : list L := fold_right insert [] ys.

  (* a member's vote for one instance: its predicted label and the member's weight *)
  Definition vote := (L * Q)%type.
  Definition weight_for (c : L) (vs : list vote) : Q :=
    qsum (map snd (filter (fun v => eqb (fst v) c) vs)).
  Definition total_weight (vs : list vote) : Q := qsum (map snd vs).
  Definition vote_row (classes : list L) (vs : list vote) : list Q :=
    map (fun c => weight_for c vs / total_weight vs) classes.

  Definition predict_label (classes : list L) (row : list Q) : option L :=
    nth_error classes (argmax_first row).

  (* probability the row gives to label l (column of l in classes) *)
  Fixpoint prob_of (classes : list L) (row : list Q) (l : L) : option Q :=
    match classes, row with
    | c :: cs, p :: ps => if eqb c l then Some p else prob_of cs ps l
    | _, _ => None
    end.

  (* a tree's row (one column per class of the tree's own classes_ `tcls`) re-indexed by the
     ensemble's classes: the tree's probability for class c, 0 if the tree never saw c *)
  Definition prob_or0 (tcls : list L) (row : list Q) (c : L) : Q :=
    match prob_of tcls row c with Some p => p | None => 0 end.
  Definition place_row (classes tcls : list L) (row : list Q) : list Q :=
    map (prob_or0 tcls row) classes.

  Fixpoint matches (preds ys : list L) : nat :=
    match preds, ys with
    | p :: ps, y :: yt => ((if eqb p y then 1 else 0) + matches ps yt)%nat
    | _, _ => O
    end.
  Definition accuracy (preds ys : list L) : Q := inject_Z (Z.of_nat (matches preds ys)) / qlen ys.
End Labels.

Arguments insert {L}.
Arguments classes_of {L}.
Arguments weight_for {L}.
Arguments total_weight {L}.
Arguments vote_row {L}.
Arguments predict_label {L}.
Arguments prob_of {L}.
Arguments prob_or0 {L}.
Arguments place_row {L}.
Arguments matches {L}.
Arguments accuracy {L}.

(* the concrete label universe of the correspondence run: Python ints and str (as code points);
   ints sort before strings (the two are never mixed in one problem) *)
Inductive label := LInt (z : Z) | LStr (cs : list Z).

Fixpoint zs_eqb (a b : list Z) : bool :=
  match a, b with
  | [], [] => true
  | x :: a', y :: b' => Z.eqb x y && zs_eqb a' b'
  | _, _ => false
  end.
(* lexicographic, like numpy's comparison of unicode strings *)
Fixpoint zs_leb (a b : list Z) : bool :=
  match a, b with
  | [], _ => true
  | _ :: _, [] => false
  | x :: a', y :: b' => if Z.ltb x y then true else if Z.eqb x y then zs_leb a' b' else false
  end.
Definition label_eqb (a b : label) : bool :=
  match a, b with
  | LInt x, LInt y => Z.eqb x y
  | LStr x, LStr y => zs_eqb x y
  | _, _ => false
  end.
Definition label_leb (a b : label) : bool :=
  match a, b with
  | LInt x, LInt y => Z.leb x y
  | LStr x, LStr y => zs_leb x y
  | LInt _, LStr _ => true
  | LStr _, LInt _ => false
  end.

(* ---------------------------------------------------------------- time series forest features *)

(* X[s:e] for 0 <= s <= e *)
Definition slice (s e : Z) (x : list Q) : list Q :=
  firstn (Z.to_nat (e - s)) (skipn (Z.to_nat s) x).

(* np.std(.)^2 with the default ddof = 0 *)
Definition qvar (l : list Q) : Q :=
  let m := qmean l in qmean (map (fun v => (v - m) * (v - m)) l).

Fixpoint times_from (k : Q) (n : nat) : list Q :=
  match n with O => [] | S n' => k :: times_from (k + 1) n' end.

(* numpy primitives the regenerated _slope (Gen.v) is written with *)
Definition arange (n : nat) : list Q := times_from 0 n.
Definition vaddc (v : list Q) (c : Q) : list Q := map (fun a => a + c) v.
Definition vmul (a b : list Q) : list Q := map2 Qmult a b.

(* _slope as written: (mean(y*x) - mean(x) mean(y)) / (mean(x*x) - mean(x)^2), x = 1..n *)
Definition code_slope (ys : list Q) : Q :=
  let xs := times_from 1 (length ys) in
  let xm := qmean xs in
  (qmean (map2 Qmult ys xs) - xm * qmean ys) / (qmean (map2 Qmult xs xs) - xm * xm).

(* ordinary least squares, centred closed form  S_ty / S_tt *)
Definition sxy (ts ys : list Q) : Q :=
  let tm := qmean ts in let ym := qmean ys in
  qsum (map2 (fun t y => (t - tm) * (y - ym)) ts ys).
Definition ols_slope (ys : list Q) : Q :=
  let ts := times_from 1 (length ys) in sxy ts ys / sxy ts ts.
Definition ols_intercept (ys : list Q) : Q :=
  qmean ys - ols_slope ys * qmean (times_from 1 (length ys)).

Definition interval := (Z * Z)%type.
Definition interval_features (x : list Q) (iv : interval) : list Q :=
  let w := slice (fst iv) (snd iv) x in [qmean w; qvar w; code_slope w].
Definition tsf_features (ivs : list interval) (x : list Q) : list Q :=
  flat_map (interval_features x) ivs.

(* _get_intervals with rng.randint(high) replaced by a script of draws; a draw d stands for the
   value d mod high (the test double used in the correspondence run does the same) *)
Fixpoint get_intervals (n_intervals : nat) (min_interval series_length : Z) (draws : list Z)
  : list interval :=
  match n_intervals, draws with
  | S k, d1 :: d2 :: rest =>
      let s := (d1 mod (series_length - min_interval))%Z in
      let len0 := (d2 mod (series_length - s - 1))%Z in
      let len := if (len0 <? min_interval)%Z then min_interval else len0 in
      (s, (s + len)%Z) :: get_intervals k min_interval series_length rest
  | _, _ => []
  end.

(* fitted members are functions; the theorems quantify over all of them.  A fitted tree carries
   its own classes_ (the labels it was fitted on) and maps features to a distribution over THOSE *)
Definition tree (L : Type) := (list L * (list Q -> list Q))%type.
Definition rtree := list Q -> Q.              (* features -> prediction *)

Definition fmember (L : Type) := (list interval * tree L)%type.
Definition tree_classes {L} (m : fmember L) : list L := fst (snd m).
(* the tree's own output on the forest features of its own intervals *)
Definition tree_row {L} (m : fmember L) (x : list Q) : list Q := snd (snd m) (tsf_features (fst m) x).
Definition tsf_member_outputs {L} (eqb : L -> L -> bool) (classes : list L)
  (forest : list (fmember L)) (x : list Q) : list (list Q) :=
  map (fun m => place_row eqb classes (tree_classes m) (tree_row m x)) forest.
Definition tsf_proba {L} (eqb : L -> L -> bool) (classes : list L) (forest : list (fmember L))
  (x : list Q) : list Q :=
  mean_rows (length classes) (tsf_member_outputs eqb classes forest x).
Definition tsf_reg_predict (forest : list (list interval * rtree)) (x : list Q) : Q :=
  qmean (map (fun m => snd m (tsf_features (fst m) x)) forest).

(* column ensemble: an instance is a list of columns (series); a member sees only its columns *)
Definition instance := list (list Q).
Definition select (cols : list nat) (x : instance) : instance := map (fun c => nth c x []) cols.
Definition cmember := (list nat * (instance -> list Q))%type.
Definition colens_member_outputs (members : list cmember) (x : instance) : list (list Q) :=
  map (fun m => snd m (select (fst m) x)) members.
Definition colens_proba (k : nat) (members : list cmember) (x : instance) : list Q :=
  mean_rows k (colens_member_outputs members x).

(* the user's `estimators` list of a column ensemble: an entry is the 'drop' specifier or a
   classifier with its columns.  An entry that is dropped, or whose column selection is empty, is
   never fitted: it is not a member (a fitted remainder estimator is one more EClf entry).  The
   ensemble's probabilities are those of the FITTED members, whatever the length of the list. *)
Inductive centry := EDrop (cols : list nat) | EClf (cols : list nat) (f : instance -> list Q).
Definition fitted_members (spec : list centry) : list cmember :=
  flat_map (fun e => match e with
                     | EDrop _ => []
                     | EClf [] _ => []
                     | EClf (c :: cs) f => [(c :: cs, f)]
                     end) spec.
Definition colens_spec_proba (k : nat) (spec : list centry) (x : instance) : list Q :=
  colens_proba k (fitted_members spec) x.

(* the three things BaseColumnEnsembleClassifier._iter looks at in an entry *)
Definition entry_is_drop (e : centry) : bool := match e with EDrop _ => true | EClf _ _ => false end.
Definition entry_is_empty (e : centry) : bool :=
  match e with EDrop [] | EClf [] _ => true | _ => false end.
Definition entry_is_member (e : centry) : bool :=
  match e with EDrop _ => false | EClf [] _ => false | EClf (_ :: _) _ => true end.

