(* C17 lemmas.  Equality on Q is Qeq (==). *)
From Coq Require Import QArith Qabs List Bool ZArith Lia Lqa Sorted.
Require Import SkV.C17.Model.
Import ListNotations.
Open Scope Q_scope.

(* a probability row over k classes *)
Definition is_dist (k : nat) (row : list Q) : Prop :=
  length row = k /\ Forall (fun p => 0 <= p /\ p <= 1) row /\ qsum row == 1.

(* ---------------------------------------------------------------- sums *)

Lemma qsum_cons x l : qsum (x :: l) = x + qsum l.
Proof. reflexivity. Qed.

Lemma qsum_nonneg l : Forall (fun p => 0 <= p) l -> 0 <= qsum l.
Proof.
  induction 1 as [|x l Hx _ IH]; [cbn; lra|]. rewrite qsum_cons. lra.
Qed.

Lemma qsum_ge_member l p : Forall (fun p => 0 <= p) l -> In p l -> p <= qsum l.
Proof.
  induction 1 as [|x l Hx Hl IH]; intros Hin; [destruct Hin|].
  rewrite qsum_cons. pose proof (qsum_nonneg l Hl). destruct Hin as [<-|Hin].
  - lra.
  - specialize (IH Hin). lra.
Qed.

Lemma dist_of_nonneg k row :
  length row = k -> Forall (fun p => 0 <= p) row -> qsum row == 1 -> is_dist k row.
Proof.
  intros Hl Hn Hs. split; [exact Hl|]. split; [|exact Hs].
  apply Forall_forall. intros p Hp. split.
  - rewrite Forall_forall in Hn. apply Hn. exact Hp.
  - pose proof (qsum_ge_member row p Hn Hp). lra.
Qed.

Lemma dist_nonneg k row : is_dist k row -> Forall (fun p => 0 <= p) row.
Proof.
  intros (_ & H & _). eapply Forall_impl; [|exact H]. cbn. intros a [Ha _]. exact Ha.
Qed.

Lemma qsum_map_ext {A} (f g : A -> Q) l :
  (forall a, In a l -> f a == g a) -> qsum (map f l) == qsum (map g l).
Proof.
  induction l as [|a l IH]; intros H; cbn [map]; [reflexivity|].
  rewrite !qsum_cons. rewrite (H a (or_introl eq_refl)). rewrite IH; [reflexivity|].
  intros b Hb. apply H. right. exact Hb.
Qed.

Lemma qsum_map_plus {A} (f g : A -> Q) l :
  qsum (map (fun a => f a + g a) l) == qsum (map f l) + qsum (map g l).
Proof.
  induction l as [|a l IH]; cbn [map]; [cbn; lra|]. rewrite !qsum_cons. rewrite IH. ring.
Qed.

Lemma qsum_map_scale {A} (f : A -> Q) c l :
  qsum (map (fun a => f a * c) l) == qsum (map f l) * c.
Proof.
  induction l as [|a l IH]; cbn [map]; [cbn; ring|]. rewrite !qsum_cons. rewrite IH. ring.
Qed.

Lemma qsum_map_div c l : qsum (map (fun s => s / c) l) == qsum l / c.
Proof.
  unfold Qdiv. rewrite (qsum_map_scale (fun s => s) (/ c) l). rewrite map_id. reflexivity.
Qed.

Lemma qsum_map_const {A} (l : list A) c : qsum (map (fun _ => c) l) == qlen l * c.
Proof.
  unfold qlen. induction l as [|a l IH]; cbn [map length]; [cbn; ring|].
  rewrite qsum_cons, IH. rewrite Nat2Z.inj_succ. unfold Z.succ. rewrite inject_Z_plus. ring.
Qed.

Lemma qlen_cons {A} (a : A) l : qlen (a :: l) == qlen l + 1.
Proof.
  unfold qlen. cbn [length]. rewrite Nat2Z.inj_succ. unfold Z.succ. rewrite inject_Z_plus. ring.
Qed.

Lemma qlen_nonneg {A} (l : list A) : 0 <= qlen l.
Proof.
  unfold qlen. change 0 with (inject_Z 0). rewrite <- Zle_Qle. lia.
Qed.

Lemma qlen_pos {A} (l : list A) : l <> [] -> 0 < qlen l.
Proof.
  destruct l as [|a l]; [congruence|]. intros _. rewrite qlen_cons.
  pose proof (qlen_nonneg l). lra.
Qed.

(* ---------------------------------------------------------------- row sums and means *)

Lemma vadd_length : forall a b k, length a = k -> length b = k -> length (vadd a b) = k.
Proof.
  induction a as [|x a IH]; intros [|y b] k Ha Hb; cbn in *; try congruence.
  destruct k; [discriminate|]. f_equal. apply IH; congruence.
Qed.

Lemma qsum_vadd : forall a b, length a = length b -> qsum (vadd a b) == qsum a + qsum b.
Proof.
  induction a as [|x a IH]; intros [|y b] H; cbn [vadd]; cbn in H; try discriminate.
  - cbn. lra.
  - rewrite !qsum_cons. rewrite IH by congruence. ring.
Qed.

Lemma nth_vadd : forall a b j, length a = length b ->
  nth j (vadd a b) 0 == nth j a 0 + nth j b 0.
Proof.
  induction a as [|x a IH]; intros [|y b] j H; cbn [vadd]; cbn in H; try discriminate.
  - destruct j; cbn; lra.
  - destruct j; cbn [nth]; [reflexivity|]. apply IH. congruence.
Qed.

Lemma vadd_nonneg : forall a b, Forall (fun p => 0 <= p) a -> Forall (fun p => 0 <= p) b ->
  Forall (fun p => 0 <= p) (vadd a b).
Proof.
  induction a as [|x a IH]; intros [|y b] Ha Hb; cbn [vadd]; try constructor.
  - inversion Ha; inversion Hb; subst. lra.
  - inversion Ha; inversion Hb; subst. apply IH; assumption.
Qed.

Lemma repeat0_sum k : qsum (repeat 0 k) == 0.
Proof. induction k; cbn [repeat]; [reflexivity|]. rewrite qsum_cons, IHk. ring. Qed.
Lemma repeat0_nth k j : nth j (repeat 0 k) 0 == 0.
Proof.
  revert j. induction k; intros [|j]; cbn; try reflexivity. apply IHk.
Qed.
Lemma repeat0_nonneg k : Forall (fun p => 0 <= p) (repeat 0 k).
Proof. induction k; cbn; constructor; [lra|assumption]. Qed.

Lemma vsum_length k rows : Forall (fun r => length r = k) rows -> length (vsum k rows) = k.
Proof.
  unfold vsum. induction 1 as [|r rows Hr _ IH]; cbn [fold_right].
  - apply repeat_length.
  - apply vadd_length; assumption.
Qed.

Lemma qsum_vsum k rows : Forall (fun r => length r = k) rows ->
  qsum (vsum k rows) == qsum (map qsum rows).
Proof.
  intros H. induction H as [|r rows Hr Hrs IH]; cbn [map].
  - unfold vsum. cbn [fold_right]. rewrite repeat0_sum. reflexivity.
  - change (vsum k (r :: rows)) with (vadd r (vsum k rows)).
    rewrite qsum_vadd by (rewrite vsum_length; assumption).
    rewrite qsum_cons, IH. reflexivity.
Qed.

Lemma nth_vsum k rows j : Forall (fun r => length r = k) rows ->
  nth j (vsum k rows) 0 == qsum (map (fun r => nth j r 0) rows).
Proof.
  intros H. induction H as [|r rows Hr Hrs IH]; cbn [map].
  - unfold vsum. cbn [fold_right]. rewrite repeat0_nth. reflexivity.
  - change (vsum k (r :: rows)) with (vadd r (vsum k rows)).
    rewrite nth_vadd by (rewrite vsum_length; assumption).
    rewrite qsum_cons, IH. reflexivity.
Qed.

Lemma vsum_nonneg k rows : Forall (Forall (fun p => 0 <= p)) rows ->
  Forall (fun p => 0 <= p) (vsum k rows).
Proof.
  induction 1 as [|r rows Hr _ IH]; unfold vsum; cbn [fold_right].
  - apply repeat0_nonneg.
  - apply vadd_nonneg; assumption.
Qed.

Lemma mean_rows_length k rows :
  Forall (fun r => length r = k) rows -> length (mean_rows k rows) = k.
Proof. intros H. unfold mean_rows. rewrite map_length. apply vsum_length. exact H. Qed.

Lemma nth_map_in {A B} (f : A -> B) l j d d' :
  (j < length l)%nat -> nth j (map f l) d' = f (nth j l d).
Proof.
  revert j. induction l as [|a l IH]; intros [|j] H; cbn in *; try lia; try reflexivity.
  apply IH. lia.
Qed.

(* entry j of the mean row is the mean of the members' entries j *)
Lemma mean_rows_nth k rows j : Forall (fun r => length r = k) rows -> (j < k)%nat ->
  nth j (mean_rows k rows) 0 == qsum (map (fun r => nth j r 0) rows) / qlen rows.
Proof.
  intros H Hj. unfold mean_rows.
  rewrite (nth_map_in (fun s => s / qlen rows) _ j 0 0) by (rewrite vsum_length; assumption).
  rewrite nth_vsum by exact H. reflexivity.
Qed.

Lemma avg_of_distributions_is_distribution k rows :
  rows <> [] -> Forall (is_dist k) rows -> is_dist k (mean_rows k rows).
Proof.
  intros Hne Hd.
  assert (Hlen : Forall (fun r => length r = k) rows).
  { eapply Forall_impl; [|exact Hd]. intros r (Hl & _). exact Hl. }
  assert (Hnn : Forall (Forall (fun p => 0 <= p)) rows).
  { eapply Forall_impl; [|exact Hd]. intros r Hr. eapply dist_nonneg. exact Hr. }
  pose proof (qlen_pos rows Hne) as Hpos.
  apply dist_of_nonneg.
  - apply mean_rows_length. exact Hlen.
  - unfold mean_rows. apply Forall_forall. intros p Hp. apply in_map_iff in Hp.
    destruct Hp as (s & <- & Hs). pose proof (vsum_nonneg k rows Hnn) as Hv.
    rewrite Forall_forall in Hv. specialize (Hv s Hs).
    apply Qle_shift_div_l; [exact Hpos|]. lra.
  - unfold mean_rows. rewrite qsum_map_div. rewrite qsum_vsum by exact Hlen.
    rewrite (qsum_map_ext qsum (fun _ => 1)).
    + rewrite qsum_map_const. field. lra.
    + intros r Hr. rewrite Forall_forall in Hd. destruct (Hd r Hr) as (_ & _ & Hs). exact Hs.
Qed.

(* a mean of numbers within [lo, hi] lies within [lo, hi] *)
Lemma qmean_between l lo hi : l <> [] -> Forall (fun v => lo <= v /\ v <= hi) l ->
  lo <= qmean l /\ qmean l <= hi.
Proof.
  intros Hne H. pose proof (qlen_pos l Hne) as Hpos.
  assert (Hs : qlen l * lo <= qsum l /\ qsum l <= qlen l * hi).
  { clear Hne Hpos. induction H as [|v l [Hv1 Hv2] _ IH].
    - unfold qlen, inject_Z. cbn. split; lra.
    - destruct IH as [IH1 IH2]. rewrite qsum_cons, qlen_cons. split; nra. }
  unfold qmean. split.
  - apply Qle_shift_div_l; [exact Hpos|]. lra.
  - apply Qle_shift_div_r; [exact Hpos|]. lra.
Qed.
